(* C20/Proofs2.v — per-tuple (per-series) conservation in observable form, for every schedule of the repaired machine. *)
From OV Require Import Common.Base C20.Model C20.Proofs.
From Coq Require Import ZifyBool ZifyNat ZifyN.
Open Scope Z_scope.

(* ================================================================= what the clients asked for, statically *)
Definition targets (t : tuple) (o : option tuple) : bool :=
  match o with Some t' => tuple_eqb t' t | None => false end.

(* weight of the emissions of program p directed at tuple t, when the client has so far asked for [asked]:
   an emission through slot k is directed at the tuple of the k-th (arity-correct) WithLabelValues call *)
Fixpoint fut (c : cfg) (t : tuple) (asked : list tuple) (p : list op) : Z :=
  match p with
  | [] => 0
  | OResolve t' :: r => fut c t (if arity_ok c t' then asked ++ [t'] else asked) r
  | OEmitH k _ d :: r => (if targets t (nth_error asked k) then weight (c_kind c) d else 0) + fut c t asked r
  | OEmitT t' _ d :: r => (if arity_ok c t' && tuple_eqb t' t then weight (c_kind c) d else 0) + fut c t asked r
  | OUnreg _ :: r => fut c t asked r
  end.
Definition emitted_to (c : cfg) (progs : list (list op)) (t : tuple) : Z :=
  fold_right (fun p a => fut c t [] p + a) 0 progs.

(* well-formed client programs: emit only through handles the client will have obtained, with the right arity
   (anything else cannot be written in Go, resp. panics with ErrLabelCount before touching the metric) *)
Fixpoint wfp (c : cfg) (n : nat) (p : list op) : bool :=
  match p with
  | [] => true
  | OResolve t :: r => wfp c (if arity_ok c t then S n else n) r
  | OEmitH k _ _ :: r => (k <? n)%nat && wfp c n r
  | OEmitT t _ _ :: r => arity_ok c t && wfp c n r
  | OUnreg _ :: r => wfp c n r
  end.
Definition wf_progs (c : cfg) (progs : list (list op)) : bool := forallb (wfp c 0) progs.

(* ================================================================= client bookkeeping is right (tuple identity) *)
Definition mid (p : pc) : nat :=
  match p with PR1 _ | PR2 _ | PR3 _ _ | PR4 _ _ | PR5 _ _ | PR6 | PQ2 _ | PQ2b | PQ3 _ | PQ4 _ => 1%nat | _ => 0%nat end.
Definition has_tuple (s : shared) (id : nat) (o : option tuple) : Prop :=
  exists h, nth_error (hs s) id = Some h /\ o = Some (h_tuple h).
Definition pc_ti (s : shared) (th : thread) : Prop :=
  match t_pc th with
  | PR1 t | PQ2 t | PQ3 t => nth_error (t_asked th) (length (t_slots th)) = Some t
  | PQ4 (RH id) => has_tuple s id (nth_error (t_asked th) (length (t_slots th)))
  | PE0 id _ _ | PE1 id _ _ => has_tuple s id (t_cur th)
  | PES _ | PTU _ => t_cur th <> None
  | _ => True
  end.
Record TI (c : cfg) (s : shared) (th : thread) : Prop := {
  ti_slots : forall k id, nth_error (t_slots th) k = Some (RH id) -> has_tuple s id (nth_error (t_asked th) k);
  ti_len : length (t_asked th) = (length (t_slots th) + mid (t_pc th))%nat;
  ti_pc : pc_ti s th;
  ti_wf : wfp c (length (t_asked th)) (t_prog th) = true }.

Lemma has_tuple_ext s s' id o : ext s s' -> has_tuple s id o -> has_tuple s' id o.
Proof. intros E [h [A B]]. destruct (E _ _ A) as [h' [A' [T _]]]. exists h'. split; [exact A' | congruence]. Qed.

Lemma TI_ext c s s' th : ext s s' -> TI c s th -> TI c s' th.
Proof.
  intros E [A B C D]. constructor; auto.
  - intros k id H. eapply has_tuple_ext; eauto.
  - unfold pc_ti in *. destruct (t_pc th); auto; try (eapply has_tuple_ext; eauto).
    destruct r; auto. eapply has_tuple_ext; eauto.
Qed.

Lemma nth_snoc_old {A} (l : list A) x k y : nth_error l k = Some y -> nth_error (l ++ [x]) k = Some y.
Proof. intros H. rewrite nth_error_app1; [exact H | apply nth_error_Some; congruence]. Qed.
Lemma nth_snoc_new {A} (l : list A) x : nth_error (l ++ [x]) (length l) = Some x.
Proof. rewrite nth_error_app2 by lia. rewrite Nat.sub_diag. reflexivity. Qed.
Lemma nth_snoc_cases {A} (l : list A) x k y : nth_error (l ++ [x]) k = Some y ->
  nth_error l k = Some y \/ (k = length l /\ y = x).
Proof.
  intros H. destruct (Nat.lt_ge_cases k (length l)).
  - rewrite nth_error_app1 in H by assumption. auto.
  - rewrite nth_error_app2 in H by assumption. destruct (k - length l)%nat eqn:G; simpl in H; [|destruct n; discriminate].
    inversion H; subst. right. split; [lia | reflexivity].
Qed.

(* finishing an operation that hands a handle to the client *)
Lemma TI_finish_handle c s th r :
  (forall k id, nth_error (t_slots th) k = Some (RH id) -> has_tuple s id (nth_error (t_asked th) k)) ->
  length (t_asked th) = S (length (t_slots th)) ->
  (forall id, r = RH id -> has_tuple s id (nth_error (t_asked th) (length (t_slots th)))) ->
  wfp c (length (t_asked th)) (t_prog th) = true ->
  TI c s (finish th (ResH r)).
Proof.
  intros A L R W. constructor; simpl; auto.
  - intros k id H. apply nth_snoc_cases in H as [H|[-> H]]; [auto | apply R; auto].
  - rewrite app_length. simpl. lia.
  - exact I.
Qed.
(* any other finish *)
Lemma TI_finish_other c s th r :
  (forall h, r <> ResH h) -> TI c s th -> mid (t_pc th) = 0%nat -> TI c s (finish th r).
Proof.
  intros N [A B C D] M. assert (t_slots (finish th r) = t_slots th) as E by (destruct r; try reflexivity; exfalso; eapply N; eauto).
  simpl in E. constructor; simpl; rewrite ?E; auto; try lia; try exact I.
Qed.

Lemma has_tuple_snoc s id l t k : has_tuple s id (nth_error l k) -> has_tuple s id (nth_error (l ++ [t]) k).
Proof. intros [h [A B]]. exists h. split; [exact A|]. rewrite (nth_snoc_old _ _ _ _ B). reflexivity. Qed.

Lemma lookup_has_tuple s t id : lookup s t = Some id -> has_tuple s id (Some t).
Proof. intros L. destruct (lookup_sound _ _ _ L) as [h [A B]]. exists h. unfold get_handle in A. subst. auto. Qed.

Lemma tstep_TI c s th s' th' :
  c_variant c = Repaired -> pc_ok s (t_pc th) -> TI c s th -> tstep c s th = (s', th') -> ext s s' -> TI c s' th'.
Proof.
  intros Hv Hpc T St E. pose proof (TI_ext c s s' th E T) as [A B C D]. clear T.
  unfold tstep in St. unfold pc_ti in C.
  destruct (t_pc th) eqn:Epc; simpl in Hpc; try contradiction; simpl in B.
  - (* PIdle *)
    destruct (t_prog th) as [|o rest] eqn:Eprog.
    + inversion St; subst. constructor; auto; [rewrite Epc; simpl; lia | unfold pc_ti; rewrite Epc; exact I | rewrite Eprog; exact D].
    + assert (L0 : length (t_asked th) = length (t_slots th)) by lia.
      unfold start_op in St. destruct o; simpl in D.
      * (* OResolve *)
        destruct (arity_ok c t) eqn:Ar; simpl in St.
        -- assert (Hslots : forall k id, nth_error (t_slots th) k = Some (RH id) ->
                     has_tuple s' id (nth_error (t_asked th ++ [t]) k)) by (intros; apply has_tuple_snoc; auto).
           assert (Hnew : nth_error (t_asked th ++ [t]) (length (t_slots th)) = Some t) by (rewrite <- L0; apply nth_snoc_new).
           assert (Hlen : length (t_asked th ++ [t]) = S (length (t_slots th))) by (rewrite app_length; simpl; lia).
           destruct (lookup s t) as [id|] eqn:L; inversion St; subst; clear St.
           ++ apply TI_finish_handle; simpl; auto.
              ** intros id0 E0; inversion E0; subst. rewrite Hnew. apply lookup_has_tuple. exact L.
              ** rewrite Hlen, <- L0. exact D.
           ++ constructor; simpl; auto; try lia; try (unfold pc_ti; simpl; exact Hnew); try (rewrite Hlen, <- L0; exact D).
        -- inversion St; subst; clear St. apply TI_finish_other; [intros hh; discriminate| |simpl; rewrite Epc; reflexivity].
           constructor; simpl; auto; try lia; try (rewrite Epc; simpl; lia); try (unfold pc_ti; simpl; rewrite Epc; exact I).
      * (* OEmitH *)
        apply andb_true_iff in D as [Dk D]. apply Nat.ltb_lt in Dk. cbv zeta in St.
        assert (Tpop : TI c s' (aim (pop th rest) (nth_error (t_asked th) slot))).
        { constructor; simpl; auto; try lia; try (rewrite Epc; simpl; lia); try (unfold pc_ti; simpl; rewrite Epc; exact I). }
        simpl in St.
        destruct (nth_error (t_slots th) slot) as [[|id]|] eqn:G.
        -- inversion St; subst; clear St. apply TI_finish_other; [intros hh; discriminate| |simpl; rewrite Epc; reflexivity].
           destruct Tpop as [P1 P2 P3 P4]. constructor; auto.
        -- destruct (A _ _ G) as [h [G1 G2]].
           (* the handle exists in s as well: ext is only forward, but get_handle s id is what the step reads *)
           destruct (get_handle s id) as [h0|] eqn:G0.
           ++ destruct (h_stale h0); inversion St; subst; clear St; destruct Tpop as [P1 P2 P3 P4];
                constructor; simpl in *; auto; unfold pc_ti; simpl.
              ** rewrite G2. discriminate.
              ** exists h. auto.
           ++ inversion St; subst; clear St. apply TI_finish_other; [intros hh; discriminate| exact Tpop |simpl; rewrite Epc; reflexivity].
        -- exfalso. apply nth_error_None in G. lia.
      * (* OEmitT *)
        apply andb_true_iff in D as [Ar D]. rewrite Ar in St. simpl in St.
        assert (Tpop : TI c s' (aim (pop th rest) (Some t))).
        { constructor; simpl; auto; try lia; try (rewrite Epc; simpl; lia); try (unfold pc_ti; simpl; rewrite Epc; exact I). }
        destruct (lookup s t) as [id|] eqn:L; inversion St; subst; clear St; destruct Tpop as [P1 P2 P3 P4];
          constructor; simpl in *; auto; unfold pc_ti; simpl; [|discriminate].
        eapply has_tuple_ext; [exact E|]. apply lookup_has_tuple. exact L.
      * (* OUnreg *)
        assert (Tpop : TI c s' (pop th rest)).
        { constructor; simpl; auto; try lia; try (rewrite Epc; simpl; lia); try (unfold pc_ti; simpl; rewrite Epc; exact I). }
        destruct (negb (arity_ok c t)).
        -- inversion St; subst; clear St. apply TI_finish_other; [intros hh; discriminate| exact Tpop |simpl; rewrite Epc; reflexivity].
        -- destruct (lookup s t); inversion St; subst; clear St.
           ++ destruct Tpop as [P1 P2 P3 P4]. constructor; simpl in *; auto; try exact I.
           ++ apply TI_finish_other; [intros hh; discriminate| exact Tpop |simpl; rewrite Epc; reflexivity].
  - (* PR1 *)
    rewrite Hv in St. destruct (capped c && (c_cap c <=? cnt s)); inversion St; subst; clear St.
    + apply TI_finish_handle; auto; [lia | intros id E0; discriminate].
    + constructor; simpl; auto.
  - (* PQ2 *)
    inversion St; subst; clear St.
    destruct (capped c && (c_cap c <? cnt s + 1)); constructor; simpl; auto; unfold pc_ti; simpl; auto.
  - (* PQ2b *)
    inversion St; subst; clear St. apply TI_finish_handle; auto; [lia | intros id E0; discriminate].
  - (* PQ3 *)
    destruct (map_load (smap s) (hash_tuple t)) as [id|] eqn:L.
    + destruct (get_handle s id) as [h|] eqn:G; inversion St; subst; clear St.
      * constructor; simpl; auto. unfold pc_ti; simpl. destruct (tuple_eqb (h_tuple h) t) eqn:Q; [|exact I].
        apply tuple_eqb_eq in Q. rewrite C. eapply has_tuple_ext; [exact E|]. exists h. unfold get_handle in G. subst. auto.
      * constructor; simpl; auto; try exact I.
    + destruct (publish c s t) as [s1 id] eqn:P. inversion St; subst; clear St.
      apply TI_finish_handle; auto; [lia|].
      intros id0 E0; inversion E0; subst. rewrite C. unfold publish in P. inversion P; subst. simpl.
      eexists. split; [apply nth_snoc_new | reflexivity].
  - (* PQ4 *)
    inversion St; subst; clear St. apply TI_finish_handle; auto; [lia|].
    intros id E0; subst. exact C.
  - (* PU1 *)
    rewrite Hv in St. destruct (map_load (smap s) (hash_tuple t)) as [i|].
    + destruct (Nat.eqb i id); inversion St; subst; clear St.
      * constructor; simpl; auto; try exact I.
      * apply TI_finish_other; [intros hh; discriminate| |rewrite Epc; reflexivity]. constructor; auto; [rewrite Epc; simpl; lia | unfold pc_ti; rewrite Epc; exact I].
    + inversion St; subst; clear St.
      apply TI_finish_other; [intros hh; discriminate| |rewrite Epc; reflexivity]. constructor; auto; [rewrite Epc; simpl; lia | unfold pc_ti; rewrite Epc; exact I].
  - (* PU2 *) inversion St; subst; clear St. constructor; simpl; auto; try exact I.
  - (* PU3 *)
    inversion St; subst; clear St.
    apply TI_finish_other; [intros hh; discriminate| |rewrite Epc; reflexivity]. constructor; auto; [rewrite Epc; simpl; lia | unfold pc_ti; rewrite Epc; exact I].
  - (* PE0 *)
    destruct (get_handle s id) as [h|].
    + destruct (h_stale h); inversion St; subst; clear St; constructor; simpl; auto; unfold pc_ti; simpl; auto.
      destruct C as [h1 [_ C2]]. rewrite C2. discriminate.
    + inversion St; subst; clear St.
      apply TI_finish_other; [intros hh; discriminate| |rewrite Epc; reflexivity]. constructor; auto; [rewrite Epc; simpl; lia | unfold pc_ti; rewrite Epc; exact C].
  - (* PE1 *)
    destruct (get_handle s id); inversion St; subst; clear St;
      (apply TI_finish_other; [intros hh; discriminate| |rewrite Epc; reflexivity]; constructor; auto; [rewrite Epc; simpl; lia | unfold pc_ti; rewrite Epc; exact C]).
  - (* PES *)
    inversion St; subst; clear St. apply TI_finish_other; [intros hh; discriminate| |simpl; rewrite Epc; reflexivity].
    constructor; simpl; auto; [rewrite Epc; simpl; lia | unfold pc_ti; simpl; rewrite Epc; exact C].
  - (* PTU *)
    inversion St; subst; clear St. apply TI_finish_other; [intros hh; discriminate| |simpl; rewrite Epc; reflexivity].
    constructor; simpl; auto; [rewrite Epc; simpl; lia | unfold pc_ti; simpl; rewrite Epc; exact C].
Qed.

(* ================================================================= per-tuple potential *)
Definition fm (k : kind) (t : tuple) (h : handle) : Z := if tuple_eqb (h_tuple h) t then measure k (h_val h) else 0.
Definition Ssum (k : kind) (t : tuple) (l : list handle) : Z := fold_right (fun h a => fm k t h + a) 0 l.
Definition acct_t (t : tuple) (l : list (tuple * Z)) : Z :=
  fold_right (fun tw a => (if tuple_eqb (fst tw) t then snd tw else 0) + a) 0 l.
Definition acct_all (l : list (tuple * Z)) : Z := fold_right (fun tw a => snd tw + a) 0 l.
Definition rem_t (c : cfg) (t : tuple) (th : thread) : Z :=
  (if targets t (t_cur th) then pending (c_kind c) (t_pc th) else 0) + fut c t (t_asked th) (t_prog th).
Definition own_t (c : cfg) (t : tuple) (th : thread) : Z := acct_t t (t_acct th) + rem_t c t th.

Lemma Ssum_app k t l1 l2 : Ssum k t (l1 ++ l2) = Ssum k t l1 + Ssum k t l2.
Proof. induction l1; simpl; lia. Qed.
Lemma Ssum_upd k t l id f h : nth_error l id = Some h ->
  Ssum k t (upd_nth l id f) = Ssum k t l - fm k t h + fm k t (f h).
Proof.
  revert id; induction l as [|x l IH]; intros [|id]; simpl; try discriminate.
  - intros H; inversion H; subst. lia.
  - intros H. rewrite (IH _ H). lia.
Qed.
Lemma Ssum_upd_same k t l id f : (forall h, fm k t (f h) = fm k t h) -> Ssum k t (upd_nth l id f) = Ssum k t l.
Proof.
  intros Hf. revert id; induction l as [|x l IH]; intros [|id]; simpl; auto.
  - rewrite Hf; reflexivity.
  - rewrite IH; reflexivity.
Qed.

Ltac ifz := repeat match goal with |- context [if ?b then 0 else 0] => replace (if b then 0 else 0) with 0 by (destruct b; reflexivity) end.
Ltac pt_done := ifz; try reflexivity; try (f_equal; lia); try (absorb; f_equal; lia).

Lemma tstep_pt c s th s' th' t :
  c_kind c <> KGauge -> c_variant c = Repaired -> pc_ok s (t_pc th) -> TI c s th -> tstep c s th = (s', th') ->
  (Ssum (c_kind c) t (hs s') + own_t c t th') mod M64 = (Ssum (c_kind c) t (hs s) + own_t c t th) mod M64.
Proof.
  intros Hk Hv Hpc [A B C D] St. unfold tstep in St. unfold own_t, rem_t. unfold pc_ti in C.
  destruct (t_pc th) eqn:Epc; simpl in Hpc; try contradiction; simpl in B.
  - (* PIdle *)
    destruct (t_prog th) as [|o rest] eqn:Eprog.
    + inversion St; subst. rewrite Epc, Eprog. reflexivity.
    + assert (L0 : length (t_asked th) = length (t_slots th)) by lia.
      unfold start_op in St. destruct o; simpl in D; simpl fut.
      * destruct (arity_ok c t0) eqn:Ar; simpl in St.
        -- destruct (lookup s t0); inversion St; subst; simpl; pt_done.
        -- inversion St; subst; simpl; pt_done.
      * apply andb_true_iff in D as [Dk D]. apply Nat.ltb_lt in Dk. cbv zeta in St. simpl in St.
        destruct (nth_error (t_slots th) slot) as [[|id]|] eqn:G.
        -- inversion St; subst; simpl. destruct (nth_error (t_asked th) slot) as [tc|]; simpl; pt_done.
        -- destruct (A _ _ G) as [h [G1 G2]]. unfold get_handle in St. rewrite G1 in St.
           destruct (h_stale h); inversion St; subst; simpl; pt_done.
        -- exfalso. apply nth_error_None in G. lia.
      * apply andb_true_iff in D as [Ar D]. rewrite Ar in St. simpl in St. rewrite Ar. simpl.
        destruct (lookup s t0); inversion St; subst; simpl; pt_done.
      * destruct (negb (arity_ok c t0)); [inversion St; subst; simpl; pt_done|].
        destruct (lookup s t0); inversion St; subst; simpl; pt_done.
  - rewrite Hv in St. destruct (capped c && (c_cap c <=? cnt s)); inversion St; subst; simpl; pt_done.
  - inversion St; subst; simpl. destruct (capped c && (c_cap c <? cnt s + 1)); simpl; pt_done.
  - inversion St; subst; simpl; pt_done.
  - (* PQ3 *)
    destruct (map_load (smap s) (hash_tuple t0)) as [i|].
    + destruct (get_handle s i) as [h|]; inversion St; subst; simpl; pt_done.
    + unfold publish in St. inversion St; subst; simpl. rewrite Ssum_app. simpl. unfold fm; simpl.
      destruct (tuple_eqb t0 t); destruct (c_kind c); simpl; pt_done.
  - inversion St; subst; simpl; pt_done.
  - (* PU1 *)
    rewrite Hv in St. destruct (map_load (smap s) (hash_tuple t0)) as [i|]; [|inversion St; subst; simpl; pt_done].
    destruct (Nat.eqb i id); inversion St; subst; simpl; pt_done.
    rewrite Ssum_upd_same by reflexivity. pt_done.
  - inversion St; subst; simpl; pt_done.
  - inversion St; subst; simpl. rewrite Ssum_upd_same by reflexivity. pt_done.
  - (* PE0 *)
    destruct (get_handle s id) as [h|] eqn:G; [|destruct C as [h [C1 _]]; unfold get_handle in G; congruence].
    destruct (h_stale h); inversion St; subst; simpl; pt_done.
  - (* PE1 *)
    destruct C as [h [C1 C2]]. unfold get_handle in St. rewrite C1 in St. inversion St; subst; clear St.
    cbn [hs set_hs t_pc finish t_prog t_asked t_cur t_acct pending].
    rewrite (Ssum_upd _ _ _ _ _ _ C1). rewrite C2. unfold targets, fm. cbn [emit_into h_tuple h_val].
    destruct (tuple_eqb (h_tuple h) t); [|pt_done].
    unfold apply_emit, weight, measure; destruct (c_kind c); [|congruence|]; cbn [v_main v_cnt]; pt_done.
  - (* PES *)
    inversion St; subst; simpl. destruct (t_cur th) as [tc|]; [|congruence]. simpl. destruct (tuple_eqb tc t); pt_done.
  - (* PTU *)
    inversion St; subst; simpl. destruct (t_cur th) as [tc|]; [|congruence]. simpl. destruct (tuple_eqb tc t); pt_done.
Qed.

(* ================================================================= counters = tallies; noop never moves *)
Definition Dsum (s : shared) : Z := drops s + unknown s + stales s.

Lemma tstep_link c s th s' th' :
  pc_ok s (t_pc th) -> c_variant c = Repaired -> TI c s th -> tstep c s th = (s', th') ->
  noop s' = noop s /\
  (Dsum s' - acct_all (t_acct th')) mod M64 = (Dsum s - acct_all (t_acct th)) mod M64.
Proof.
  intros Hpc Hv [A B C D] St. unfold tstep in St. unfold pc_ti in C. unfold Dsum.
  destruct (t_pc th) eqn:Epc; simpl in Hpc; try contradiction; simpl in B;
    try (match type of St with (_, _) = _ => inversion St; subst; clear St; split; reflexivity end).
  - destruct (t_prog th) as [|o rest] eqn:Eprog; [inversion St; subst; split; reflexivity|].
    assert (L0 : length (t_asked th) = length (t_slots th)) by lia.
    unfold start_op in St. destruct o; simpl in D.
    + destruct (negb (arity_ok c t)); [inversion St; subst; split; reflexivity|].
      simpl in St. destruct (lookup s t); inversion St; subst; split; reflexivity.
    + apply andb_true_iff in D as [Dk D]. apply Nat.ltb_lt in Dk. cbv zeta in St. simpl in St.
      destruct (nth_error (t_slots th) slot) as [[|id]|] eqn:G.
      * inversion St; subst; clear St. split; [reflexivity|]. simpl.
        destruct (nth_error (t_asked th) slot) as [tc|] eqn:G2; [|apply nth_error_None in G2; lia].
        simpl. pt_done.
      * destruct (A _ _ G) as [h [G1 G2]]. unfold get_handle in St. rewrite G1 in St.
        destruct (h_stale h); inversion St; subst; split; reflexivity.
      * exfalso. apply nth_error_None in G. lia.
    + apply andb_true_iff in D as [Ar D]. rewrite Ar in St. simpl in St.
      destruct (lookup s t); inversion St; subst; split; reflexivity.
    + destruct (negb (arity_ok c t)); [inversion St; subst; split; reflexivity|].
      destruct (lookup s t); inversion St; subst; split; reflexivity.
  - rewrite Hv in St. destruct (capped c && (c_cap c <=? cnt s)); inversion St; subst; split; reflexivity.
  - destruct (map_load (smap s) (hash_tuple t)) as [i|].
    + destruct (get_handle s i); inversion St; subst; split; reflexivity.
    + unfold publish in St. inversion St; subst; split; reflexivity.
  - rewrite Hv in St. destruct (map_load (smap s) (hash_tuple t)) as [i|]; [|inversion St; subst; split; reflexivity].
    destruct (Nat.eqb i id); inversion St; subst; split; reflexivity.
  - destruct (get_handle s id) as [h|] eqn:G; [|destruct C as [h [C1 _]]; unfold get_handle in G; congruence].
    destruct (h_stale h); inversion St; subst; split; reflexivity.
  - destruct C as [h [C1 C2]]. unfold get_handle in St. rewrite C1 in St. inversion St; subst; split; reflexivity.
  - inversion St; subst; clear St. split; [reflexivity|]. simpl. destruct (t_cur th) as [tc|]; [|congruence]. simpl. pt_done.
  - inversion St; subst; clear St. split; [reflexivity|]. simpl. destruct (t_cur th) as [tc|]; [|congruence]. simpl. pt_done.
Qed.

(* ================================================================= all schedules *)
Record Inv2 (c : cfg) (x : sys) : Prop := {
  i2_inv : Inv c x;
  i2_ti : Forall (TI c (sh x)) (ths x) }.

Definition Phi (c : cfg) (t : tuple) (x : sys) : Z := (Ssum (c_kind c) t (hs (sh x)) + tsum (own_t c t) (ths x)) mod M64.
Definition Psi (x : sys) : Z := (Dsum (sh x) - tsum (fun th => acct_all (t_acct th)) (ths x)) mod M64.

Lemma sys_step_2 c x i t :
  c_kind c <> KGauge -> c_variant c = Repaired -> Inv2 c x ->
  Inv2 c (sys_step c x i) /\ Phi c t (sys_step c x i) = Phi c t x /\ Psi (sys_step c x i) = Psi x /\
  noop (sh (sys_step c x i)) = noop (sh x).
Proof.
  intros Hk Hv [HI HT]. pose proof (sys_step_inv c x i Hv HI) as HI'.
  assert (Triv : Inv2 c x /\ Phi c t x = Phi c t x /\ Psi x = Psi x /\ noop (sh x) = noop (sh x))
    by (split; [constructor; assumption | repeat split]).
  unfold sys_step in *. destruct (nth_error (ths x) i) as [th|] eqn:G; [|exact Triv].
  destruct (finished th); [exact Triv|]. destruct (tstep c (sh x) th) as [s' th'] eqn:St.
  destruct HI as [HS HP HC HK].
  assert (Hpc : pc_ok (sh x) (t_pc th)) by (rewrite Forall_forall in HP; apply HP; eapply nth_error_In; eauto).
  assert (Hti : TI c (sh x) th) by (rewrite Forall_forall in HT; apply HT; eapply nth_error_In; eauto).
  pose proof (tsum_ge fover _ _ _ over_nonneg G) as G2.
  assert (E : ext (sh x) s').
  { destruct (tstep_inv c (sh x) th (tsum fcontrib (ths x) - fcontrib th) (tsum fover (ths x) - fover th) s' th')
      as [_ [_ [_ [_ E]]]]; auto.
    - lia.
    - change (contrib (t_pc th)) with (fcontrib th). lia.
    - change (over (t_pc th)) with (fover th). intros Hc. specialize (HK Hc). lia. }
  split; [|split; [|split]].
  - constructor; [exact HI'|]. simpl. apply Forall_upd.
    + eapply Forall_impl; [|exact HT]. intros a Ha. eapply TI_ext; eauto.
    + eapply tstep_TI; eauto.
  - unfold Phi; simpl. rewrite (tsum_upd _ _ _ _ th' G).
    pose proof (tstep_pt c _ _ _ _ t Hk Hv Hpc Hti St) as H.
    replace (Ssum (c_kind c) t (hs s') + (tsum (own_t c t) (ths x) - own_t c t th + own_t c t th'))
      with ((Ssum (c_kind c) t (hs s') + own_t c t th') + (tsum (own_t c t) (ths x) - own_t c t th)) by ring.
    rewrite (mod_congr _ _ _ H). f_equal. ring.
  - unfold Psi; simpl. rewrite (tsum_upd _ _ _ _ th' G).
    destruct (tstep_link c _ _ _ _ Hpc Hv Hti St) as [_ H].
    replace (Dsum s' - (tsum (fun th0 => acct_all (t_acct th0)) (ths x) - acct_all (t_acct th) + acct_all (t_acct th')))
      with ((Dsum s' - acct_all (t_acct th')) + (acct_all (t_acct th) - tsum (fun th0 => acct_all (t_acct th0)) (ths x))) by ring.
    rewrite (mod_congr _ _ _ H). f_equal. ring.
  - simpl. destruct (tstep_link c _ _ _ _ Hpc Hv Hti St) as [H _]. exact H.
Qed.

Lemma run_sched_2 c t sched : forall x, c_kind c <> KGauge -> c_variant c = Repaired -> Inv2 c x ->
  Inv2 c (run_sched c x sched) /\ Phi c t (run_sched c x sched) = Phi c t x /\ Psi (run_sched c x sched) = Psi x /\
  noop (sh (run_sched c x sched)) = noop (sh x).
Proof.
  induction sched as [|i r IH]; intros x Hk Hv H; simpl; [split; [exact H | repeat split]|].
  destruct (sys_step_2 c x i t Hk Hv H) as [H1 [H2 [H3 H4]]].
  destruct (IH _ Hk Hv H1) as [J1 [J2 [J3 J4]]]. split; [exact J1|]. split; [congruence|]. split; congruence.
Qed.

Lemma Inv2_0 c progs : wf_progs c progs = true -> Inv2 c (sys0 progs).
Proof.
  intros W. constructor; [apply Inv0|]. simpl. apply Forall_forall. intros th H.
  apply in_map_iff in H as [p [<- Hp]]. unfold wf_progs in W. rewrite forallb_forall in W.
  constructor; simpl; auto; [intros k id H; destruct k; discriminate | exact I].
Qed.

(* ================================================================= observable form *)
(* what AppendSnapshot shows for tuple t: the value of the series WithLabelValues(t) resolves to, 0 if there is none *)
Definition shown (k : kind) (s : shared) (t : tuple) : Z :=
  match lookup s t with
  | Some id => match get_handle s id with Some h => measure k (h_val h) | None => 0 end
  | None => 0
  end.
(* final values of the series of t that were removed by UnregisterSeries (their holders can still read them) *)
Definition retired_of (k : kind) (s : shared) (t : tuple) : Z :=
  fold_right (fun h a => (if h_stale h then fm k t h else 0) + a) 0 (hs s).
Definition live_of (k : kind) (t : tuple) (l : list handle) : Z :=
  fold_right (fun h a => (if h_stale h then 0 else fm k t h) + a) 0 l.
(* this client-side tally of emissions that did not land in a series, summed over the clients *)
Definition attributed (x : sys) (t : tuple) : Z := tsum (fun th => acct_t t (t_acct th)) (ths x).
Definition attributed_all (x : sys) : Z := tsum (fun th => acct_all (t_acct th)) (ths x).

Lemma shown_in_snapshot k s t id h :
  lookup s t = Some id -> get_handle s id = Some h -> In (t, h_val h) (snapshot s) /\ shown k s t = measure k (h_val h).
Proof.
  intros L G. split; [|unfold shown; rewrite L, G; reflexivity].
  pose proof (lookup_sound _ _ _ L) as [h' [G' T]]. rewrite G in G'. inversion G'; subst h'.
  unfold lookup in L. destruct (map_load (smap s) (hash_tuple t)) as [i|] eqn:ML; [|discriminate].
  destruct (get_handle s i) as [h0|] eqn:G0; [|discriminate]. destruct (tuple_eqb (h_tuple h0) t); [|discriminate].
  inversion L; subst i. apply map_load_In in ML. unfold snapshot. apply in_flat_map. exists (hash_tuple t, id).
  split; [exact ML|]. simpl. rewrite G. left. rewrite T. reflexivity.
Qed.

Lemma Ssum_split k t l : Ssum k t l = fold_right (fun h a => (if h_stale h then fm k t h else 0) + a) 0 l + live_of k t l.
Proof. induction l as [|h l IH]; simpl; [reflexivity|]. unfold live_of in *. destruct (h_stale h); lia. Qed.

Lemma sum_single (G : handle -> Z) (l : list handle) : forall i0,
  (forall i h, nth_error l i = Some h -> i <> i0 -> G h = 0) ->
  fold_right (fun h a => G h + a) 0 l = match nth_error l i0 with Some h => G h | None => 0 end.
Proof.
  induction l as [|x l IH]; intros i0 H; simpl; [destruct i0; reflexivity|].
  destruct i0 as [|j]; simpl.
  - assert (fold_right (fun h a => G h + a) 0 l = 0) as ->; [|lia].
    rewrite (IH (length l)); [|intros i h Hi _; apply (H (S i) h Hi); lia].
    destruct (nth_error l (length l)) eqn:N; [|reflexivity]. assert (nth_error l (length l) <> None) as Q by congruence.
    apply nth_error_Some in Q. lia.
  - rewrite (H 0%nat x eq_refl) by lia. rewrite (IH j); [lia|]. intros i h Hi Hne. apply (H (S i) h Hi). lia.
Qed.

Lemma live_is_shown_k c progs sched kk t :
  c_variant c = Repaired ->
  let x := run_sched c (sys0 progs) sched in
  quiescent x = true -> live_of kk t (hs (sh x)) = shown kk (sh x) t.
Proof.
  intros Hv x Q.
  pose proof (run_sched_inv c sched _ Hv (Inv0 c progs)) as [HS _ _ _]. fold x in HS.
  pose proof (conc_removed_is_stale c progs sched Hv Q) as RS. fold x in RS.
  set (G := fun h => if h_stale h then 0 else fm kk t h).
  assert (Key : forall i h, nth_error (hs (sh x)) i = Some h -> G h <> 0 -> lookup (sh x) t = Some i).
  { intros i h Hi Hg. unfold G, fm in Hg. destruct (h_stale h) eqn:S; [congruence|].
    destruct (tuple_eqb (h_tuple h) t) eqn:T; [|congruence]. apply tuple_eqb_eq in T.
    destruct (RS i h Hi) as [M|M]; [|congruence]. apply in_map_ids in M. apply in_map_iff in M as [[k i'] [E M]]. simpl in E; subst i'.
    destruct (si_wf _ HS _ _ M) as [h' [H1 [H2 _]]]. rewrite Hi in H1. inversion H1; subst h'.
    unfold lookup. rewrite T in H2. subst k.
    assert (map_load (smap (sh x)) (hash_tuple t) = Some i) as ->.
    { destruct (map_load (smap (sh x)) (hash_tuple t)) as [v|] eqn:L.
      - f_equal. symmetry. eapply map_load_unique; eauto. apply (si_keys _ HS).
      - exfalso. apply map_load_None in L. apply L. exact (List.in_map fst _ _ M). }
    unfold get_handle. rewrite Hi. rewrite <- T. rewrite (proj2 (tuple_eqb_eq _ _) eq_refl). reflexivity. }
  unfold live_of. change (fold_right (fun h a => (if h_stale h then 0 else fm kk t h) + a) 0 (hs (sh x)))
    with (fold_right (fun h a => G h + a) 0 (hs (sh x))).
  unfold shown. destruct (lookup (sh x) t) as [id0|] eqn:L.
  - rewrite (sum_single G _ id0).
    + unfold get_handle. destruct (nth_error (hs (sh x)) id0) as [h|] eqn:N; [|reflexivity].
      unfold G, fm. destruct (lookup_sound _ _ _ L) as [h' [G' T]]. unfold get_handle in G'. rewrite N in G'. inversion G'; subst h'.
      rewrite T, (proj2 (tuple_eqb_eq _ _) eq_refl).
      destruct (h_stale h) eqn:S; [|reflexivity].
      (* a series in the map is not stale *)
      exfalso. pose proof (si_stale _ HS _ _ N S) as R.
      unfold lookup in L. destruct (map_load (smap (sh x)) (hash_tuple t)) as [i|] eqn:ML; [|discriminate].
      destruct (get_handle (sh x) i) as [h0|]; [|discriminate]. destruct (tuple_eqb (h_tuple h0) t); [|discriminate]. inversion L; subst i.
      apply map_load_In in ML. destruct (si_wf _ HS _ _ ML) as [h1 [H1 [_ H3]]]. rewrite N in H1. inversion H1; subst. congruence.
    + intros i h Hi Hne. destruct (Z.eq_dec (G h) 0) as [Z0|NZ]; [exact Z0|]. exfalso. apply Hne.
      pose proof (Key i h Hi NZ) as K. congruence.
  - rewrite (sum_single G _ (length (hs (sh x)))).
    + destruct (nth_error (hs (sh x)) (length (hs (sh x)))) eqn:N; [|reflexivity].
      assert (nth_error (hs (sh x)) (length (hs (sh x))) <> None) as Q2 by congruence. apply nth_error_Some in Q2. lia.
    + intros i h Hi _. destruct (Z.eq_dec (G h) 0) as [Z0|NZ]; [exact Z0|]. exfalso.
      pose proof (Key i h Hi NZ) as K. congruence.
Qed.

Lemma live_is_shown c progs sched t :
  c_variant c = Repaired ->
  let x := run_sched c (sys0 progs) sched in
  quiescent x = true -> live_of (c_kind c) t (hs (sh x)) = shown (c_kind c) (sh x) t.
Proof. exact (live_is_shown_k c progs sched (c_kind c) t). Qed.

Lemma tsum_ext f g l : (forall th, In th l -> f th = g th) -> tsum f l = tsum g l.
Proof. intros H. induction l as [|a l IH]; simpl; [reflexivity|]. rewrite (H a (or_introl eq_refl)), IH; auto. intros th Hin. apply H. right; exact Hin. Qed.

Lemma tsum_own_init c t progs : tsum (own_t c t) (map thread0 progs) = emitted_to c progs t.
Proof. induction progs as [|p r IH]; simpl; [reflexivity|]. rewrite IH. unfold own_t, rem_t; simpl. lia. Qed.

(* THE per-series theorem: every schedule of the repaired machine, well-formed programs, at quiescence, for every tuple t:
     (value the snapshot shows for t) + (final values of t's unregistered series) + (t's share of the drop counters)
       = (sum of what the clients emitted to t)            (mod 2^64)
   and the shares add up to the three internal drop metrics; the ghost noop is 0. *)
Lemma conc_per_tuple c progs sched :
  c_kind c <> KGauge -> c_variant c = Repaired -> wf_progs c progs = true ->
  let x := run_sched c (sys0 progs) sched in
  quiescent x = true ->
  (forall t, (shown (c_kind c) (sh x) t + retired_of (c_kind c) (sh x) t + attributed x t) mod M64
             = emitted_to c progs t mod M64) /\
  (drops (sh x) + unknown (sh x) + stales (sh x)) mod M64 = attributed_all x mod M64 /\
  noop (sh x) = 0.
Proof.
  intros Hk Hv W x Q.
  split; [|split].
  - intros t. destruct (run_sched_2 c t sched _ Hk Hv (Inv2_0 c progs W)) as [_ [P [_ _]]]. fold x in P.
    unfold Phi in P. simpl in P. rewrite tsum_own_init in P. rewrite <- P.
    pose proof (live_is_shown c progs sched t Hv Q) as LS. cbv zeta in LS. fold x in LS.
    rewrite Ssum_split. rewrite LS. unfold retired_of, attributed. f_equal.
    assert (tsum (own_t c t) (ths x) = tsum (fun th => acct_t t (t_acct th)) (ths x)) as ->; [|lia].
    apply tsum_ext. intros th Hin. unfold quiescent in Q. rewrite forallb_forall in Q.
    destruct (finished_inv _ (Q _ Hin)) as [E1 E2]. unfold own_t, rem_t. rewrite E1, E2. simpl.
    destruct (targets t (t_cur th)); lia.
  - destruct (run_sched_2 c [] sched _ Hk Hv (Inv2_0 c progs W)) as [_ [_ [P _]]]. fold x in P.
    unfold Psi in P. simpl in P.
    assert (tsum (fun th => acct_all (t_acct th)) (map thread0 progs) = 0) as Z0.
    { clear. induction progs; simpl; [reflexivity | lia]. }
    rewrite Z0 in P. unfold Dsum in P. simpl in P. unfold attributed_all.
    (* (D - A) mod M = 0  ->  D mod M = A mod M *)
    set (D := drops (sh x) + unknown (sh x) + stales (sh x)) in *. set (A := tsum (fun th => acct_all (t_acct th)) (ths x)) in *.
    replace D with ((D - A) + A) by ring. rewrite <- Zplus_mod_idemp_l. unfold M64 in *. rewrite P. reflexivity.
  - destruct (run_sched_2 c [] sched _ Hk Hv (Inv2_0 c progs W)) as [_ [_ [_ P]]]. exact P.
Qed.

(* ================================================================= ghost-free corollary: no drops => every series exact *)
Definition NN (k : kind) (th : thread) : Prop :=
  0 <= pending k (t_pc th) /\ Forall (fun o => 0 <= op_weight k o) (t_prog th) /\ Forall (fun tw => 0 <= snd tw) (t_acct th).

Lemma acct_all_nonneg l : Forall (fun tw : tuple * Z => 0 <= snd tw) l -> 0 <= acct_all l.
Proof. induction 1; simpl; lia. Qed.
Lemma acct_t_bounds t l : Forall (fun tw : tuple * Z => 0 <= snd tw) l -> 0 <= acct_t t l <= acct_all l.
Proof. induction 1 as [|[t' w] l H1 H2 IH]; simpl in *; [lia|]. destruct (tuple_eqb t' t); lia. Qed.
Lemma prog_weight_nonneg k p : Forall (fun o => 0 <= op_weight k o) p -> 0 <= prog_weight k p.
Proof. induction 1; simpl; lia. Qed.

Lemma tstep_nn c s th s' th' :
  NN (c_kind c) th -> tstep c s th = (s', th') ->
  NN (c_kind c) th' /\ acct_all (t_acct th') + rem (c_kind c) th' <= acct_all (t_acct th) + rem (c_kind c) th.
Proof.
  intros [N1 [N2 N3]] St. unfold tstep in St. unfold NN, rem.
  destruct (t_pc th) eqn:Epc; try (destruct (t_prog th) as [|o rest] eqn:P; [|unfold start_op in St; destruct o; inversion N2; subst]);
  simpl in N1;
  repeat match type of St with
         | context [match ?x with _ => _ end] => destruct x eqn:?
         | context [if ?x then _ else _] => destruct x eqn:?
         end; inversion St; subst; simpl in *; rewrite ?Epc, ?P; simpl;
  repeat split; auto; try lia; try (constructor; simpl; auto; lia);
  try (match goal with |- context [match ?x with _ => _ end] => destruct x end; simpl; auto; try lia; try (constructor; simpl; auto; lia)).
Qed.

Lemma run_sched_nn c sched : forall x,
  Forall (NN (c_kind c)) (ths x) ->
  Forall (NN (c_kind c)) (ths (run_sched c x sched)) /\
  tsum (fun th => acct_all (t_acct th) + rem (c_kind c) th) (ths (run_sched c x sched))
    <= tsum (fun th => acct_all (t_acct th) + rem (c_kind c) th) (ths x).
Proof.
  induction sched as [|i r IH]; intros x H; simpl; [split; [exact H | lia]|].
  assert (Forall (NN (c_kind c)) (ths (sys_step c x i)) /\
          tsum (fun th => acct_all (t_acct th) + rem (c_kind c) th) (ths (sys_step c x i))
            <= tsum (fun th => acct_all (t_acct th) + rem (c_kind c) th) (ths x)) as [S1 S2].
  { unfold sys_step. destruct (nth_error (ths x) i) as [th|] eqn:G; [|split; [exact H | lia]].
    destruct (finished th); [split; [exact H | lia]|]. destruct (tstep c (sh x) th) as [s' th'] eqn:St. simpl.
    assert (Hn : NN (c_kind c) th) by (rewrite Forall_forall in H; apply H; eapply nth_error_In; eauto).
    destruct (tstep_nn c _ _ _ _ Hn St) as [A B]. split; [apply Forall_upd; auto|].
    rewrite (tsum_upd _ _ _ _ th' G). lia. }
  destruct (IH _ S1) as [J1 J2]. split; [exact J1 | lia].
Qed.

Definition nonneg_progs (k : kind) (progs : list (list op)) : Prop :=
  Forall (Forall (fun o => 0 <= op_weight k o)) progs.

(* If the three internal drop metrics read 0 at quiescence (and fewer than 2^64 was emitted in total, so that no uint64
   wrapped), then for EVERY tuple the snapshot value plus the final values of its unregistered series is exactly what the
   clients emitted to that tuple.  No ghost state in the statement. *)
Lemma conc_series_exact c progs sched :
  c_kind c <> KGauge -> c_variant c = Repaired -> wf_progs c progs = true ->
  nonneg_progs (c_kind c) progs -> progs_weight (c_kind c) progs < M64 ->
  let x := run_sched c (sys0 progs) sched in
  quiescent x = true ->
  drops (sh x) = 0 -> unknown (sh x) = 0 -> stales (sh x) = 0 ->
  forall t, (shown (c_kind c) (sh x) t + retired_of (c_kind c) (sh x) t) mod M64 = emitted_to c progs t mod M64.
Proof.
  intros Hk Hv W NNp Wlt x Q D0 U0 S0 t.
  destruct (conc_per_tuple c progs sched Hk Hv W Q) as [PT [LK _]]. fold x in PT, LK.
  assert (N0 : Forall (NN (c_kind c)) (ths (sys0 progs))).
  { simpl. apply Forall_forall. intros th H. apply in_map_iff in H as [p [<- Hp]]. unfold NN; simpl.
    split; [lia|]. split; [|constructor]. unfold nonneg_progs in NNp. rewrite Forall_forall in NNp. auto. }
  destruct (run_sched_nn c sched _ N0) as [Nq Le]. fold x in Nq, Le.
  assert (Init : tsum (fun th => acct_all (t_acct th) + rem (c_kind c) th) (ths (sys0 progs)) = progs_weight (c_kind c) progs).
  { simpl. clear. induction progs as [|p r IH]; simpl; [reflexivity|]. rewrite IH. unfold rem; simpl. lia. }
  rewrite Init in Le.
  (* every summand is >= 0, so attributed_all is within [0, W] *)
  assert (Bnd : 0 <= attributed_all x <= tsum (fun th => acct_all (t_acct th) + rem (c_kind c) th) (ths x)
                /\ 0 <= attributed x t <= attributed_all x).
  { unfold attributed_all, attributed, tsum. clear - Nq. induction (ths x) as [|th l IH]; simpl; [lia|].
    inversion Nq as [|? ? [N1 [N2 N3]] Nl]; subst. specialize (IH Nl).
    pose proof (acct_all_nonneg _ N3). pose proof (acct_t_bounds t _ N3). pose proof (prog_weight_nonneg _ _ N2).
    unfold rem in *. lia. }
  rewrite D0, U0, S0 in LK. simpl in LK. rewrite Z.mod_0_l in LK by (unfold M64; lia).
  symmetry in LK. rewrite Z.mod_small in LK by lia.
  assert (attributed x t = 0) as A0 by lia.
  specialize (PT t). rewrite A0, Z.add_0_r in PT. exact PT.
Qed.
