(* C20/Proofs5.v — histograms: buckets add up to the count; per-tuple conservation of the SUM of the observed values. *)
From OV Require Import Common.Base C20.Model C20.Proofs C20.Proofs2 C20.Proofs3 C20.Proofs4.
From Coq Require Import ZifyBool ZifyNat ZifyN.
Open Scope Z_scope.

(* ================================================================= buckets add up to the count *)
Definition zsum (l : list Z) : Z := fold_right Z.add 0 l.
(* a histogram series is well-formed: one counter per boundary plus the +Inf overflow, and they add up to count (uint64) *)
Definition hb_ok (c : cfg) (v : hval) : Prop :=
  length (v_bk v) = S (length (c_buckets c)) /\ zsum (v_bk v) mod M64 = v_cnt v mod M64.

Lemma bucket_index_le bs d : (bucket_index bs d <= length bs)%nat.
Proof. induction bs as [|b r IH]; simpl; [lia|]. destruct (d <=? b); lia. Qed.
Lemma incr_nth_length l i : length (incr_nth l i) = length l.
Proof. revert i; induction l as [|x l IH]; intros [|i]; simpl; auto. Qed.
Lemma incr_nth_sum l : forall i, (i < length l)%nat -> zsum (incr_nth l i) mod M64 = (zsum l + 1) mod M64.
Proof.
  induction l as [|x l IH]; intros [|i] H; simpl in *; try lia.
  - unfold u64. fold M64. rewrite Zplus_mod_idemp_l. f_equal. lia.
  - rewrite <- Zplus_mod_idemp_r. rewrite IH by lia. rewrite Zplus_mod_idemp_r. f_equal. lia.
Qed.
Lemma zsum_repeat0 n : zsum (repeat 0 n) = 0.
Proof. induction n; simpl; lia. Qed.

Lemma hb_emit c m d v : c_kind c = KHist -> hb_ok c v -> hb_ok c (apply_emit (c_kind c) (c_buckets c) m d v).
Proof.
  intros Hk [L S]. rewrite Hk. unfold apply_emit, hb_ok. simpl. split; [rewrite incr_nth_length; exact L|].
  rewrite incr_nth_sum by (pose proof (bucket_index_le (c_buckets c) d); lia).
  unfold u64. fold M64. rewrite Z.mod_mod by (unfold M64; lia).
  rewrite <- Zplus_mod_idemp_l, S, Zplus_mod_idemp_l. reflexivity.
Qed.

Definition HB (c : cfg) (s : shared) : Prop := Forall (fun h => hb_ok c (h_val h)) (hs s).

Lemma Forall_upd_nth {A} (P : A -> Prop) l i f : Forall P l -> (forall x, P x -> P (f x)) -> Forall P (upd_nth l i f).
Proof. intros H Hf. revert i; induction H; intros [|i]; simpl; constructor; auto. Qed.

Lemma tstep_HB c s th s' th' : c_kind c = KHist -> HB c s -> tstep c s th = (s', th') -> HB c s'.
Proof.
  intros Hk H St. unfold tstep in St. unfold HB in *.
  assert (Pub : forall t, Forall (fun h => hb_ok c (h_val h)) (hs (fst (publish c s t)))).
  { intros t. unfold publish; simpl. apply Forall_app. split; [exact H|]. constructor; [|constructor]. simpl.
    unfold hb_ok, hval0; simpl. rewrite repeat_length. split; [reflexivity|].
    change (0 :: repeat 0 (length (c_buckets c))) with (repeat 0 (S (length (c_buckets c)))). rewrite zsum_repeat0. reflexivity. }
  destruct (t_pc th) eqn:Epc; try (destruct (t_prog th) as [|o rest] eqn:P; [|unfold start_op in St; destruct o]);
  repeat match type of St with
         | context [let (_, _) := publish ?c ?s ?t in _] => destruct (publish c s t) eqn:?
         | context [match ?x with _ => _ end] => destruct x eqn:?
         | context [if ?x then _ else _] => destruct x eqn:?
         end; inversion St; subst; clear St; simpl; auto;
  try (apply Forall_upd_nth; [exact H | intros x Hx; exact Hx]);
  try (match goal with E : publish ?c ?s ?t = (?a, _) |- Forall _ (hs ?a) =>
         replace a with (fst (publish c s t)) by (rewrite E; reflexivity); apply Pub end);
  try (apply Forall_upd_nth; [exact H | intros x Hx; unfold emit_into; simpl; apply hb_emit; assumption]).
Qed.

Lemma run_sched_HB c sched : forall x, c_kind c = KHist -> HB c (sh x) -> HB c (sh (run_sched c x sched)).
Proof.
  induction sched as [|i r IH]; intros x Hk H; simpl; [exact H|]. apply IH; [exact Hk|].
  unfold sys_step. destruct (nth_error (ths x) i) as [th|]; [|exact H].
  destruct (finished th); [exact H|]. destruct (tstep c (sh x) th) as [s' th'] eqn:St. simpl. eapply tstep_HB; eauto.
Qed.

(* every schedule, either variant: every entry a snapshot returns has one counter per bucket and they add up to its count *)
Lemma hist_buckets c progs sched t v :
  c_kind c = KHist ->
  In (t, v) (snapshot (sh (run_sched c (sys0 progs) sched))) -> hb_ok c v.
Proof.
  intros Hk Hin. assert (H0 : HB c (sh (sys0 progs))) by constructor.
  pose proof (run_sched_HB c sched _ Hk H0) as H. unfold HB in H. rewrite Forall_forall in H.
  unfold snapshot in Hin. apply in_flat_map in Hin as [[k id] [_ Hin]]. simpl in Hin.
  destruct (get_handle _ id) as [h|] eqn:G; [|destruct Hin]. destruct Hin as [E|[]]. inversion E; subst.
  apply H. unfold get_handle in G. eapply nth_error_In; eauto.
Qed.

(* ================================================================= per-tuple conservation of the histogram SUM *)
Lemma tstep_vpt_h c s th s' th' t :
  c_kind c = KHist -> c_variant c = Repaired -> pc_ok s (t_pc th) -> TI c s th -> tstep c s th = (s', th') ->
  Ssum KGauge t (hs s') + vown_t c t th' = Ssum KGauge t (hs s) + vown_t c t th.
Proof.
  intros Hk Hv Hpc [A B C D] St. unfold tstep in St. unfold vown_t, vrem_t. unfold pc_ti in C.
  destruct (t_pc th) eqn:Epc; simpl in Hpc; try contradiction; simpl in B.
  - destruct (t_prog th) as [|o rest] eqn:Eprog.
    + inversion St; subst. rewrite Epc, Eprog. reflexivity.
    + assert (L0 : length (t_asked th) = length (t_slots th)) by lia.
      unfold start_op in St. destruct o; simpl in D; simpl vfut.
      * destruct (arity_ok c t0) eqn:Ar; simpl in St.
        -- destruct (lookup s t0); inversion St; subst; simpl; vdone.
        -- inversion St; subst; simpl; vdone.
      * apply andb_true_iff in D as [Dk D]. apply Nat.ltb_lt in Dk. cbv zeta in St. simpl in St.
        destruct (nth_error (t_slots th) slot) as [[|id]|] eqn:G.
        -- inversion St; subst; simpl. destruct (nth_error (t_asked th) slot) as [tc|]; simpl; vdone.
        -- destruct (A _ _ G) as [h [G1 G2]]. unfold get_handle in St. rewrite G1 in St.
           destruct (h_stale h); inversion St; subst; simpl; vdone.
        -- exfalso. apply nth_error_None in G. lia.
      * apply andb_true_iff in D as [Ar D]. rewrite Ar in St. simpl in St. rewrite Ar. simpl.
        destruct (lookup s t0); inversion St; subst; simpl; vdone.
      * destruct (negb (arity_ok c t0)); [inversion St; subst; simpl; vdone|].
        destruct (lookup s t0); inversion St; subst; simpl; vdone.
  - rewrite Hv in St. destruct (capped c && (c_cap c <=? cnt s)); inversion St; subst; simpl; vdone.
  - inversion St; subst; simpl. destruct (capped c && (c_cap c <? cnt s + 1)); simpl; vdone.
  - inversion St; subst; simpl; vdone.
  - destruct (map_load (smap s) (hash_tuple t0)) as [i|].
    + destruct (get_handle s i) as [h|]; inversion St; subst; simpl; vdone.
    + unfold publish in St. inversion St; subst; simpl. rewrite Ssum_app. simpl. unfold fm; simpl.
      destruct (tuple_eqb t0 t); simpl; vdone.
  - inversion St; subst; simpl; vdone.
  - rewrite Hv in St. destruct (map_load (smap s) (hash_tuple t0)) as [i|]; [|inversion St; subst; simpl; vdone].
    destruct (Nat.eqb i id); inversion St; subst; simpl; vdone.
    rewrite Ssum_upd_same by reflexivity. vdone.
  - inversion St; subst; simpl; vdone.
  - inversion St; subst; simpl. rewrite Ssum_upd_same by reflexivity. vdone.
  - destruct (get_handle s id) as [h|] eqn:G; [|destruct C as [h [C1 _]]; unfold get_handle in G; congruence].
    destruct (h_stale h); inversion St; subst; simpl; vdone.
  - destruct C as [h [C1 C2]]. unfold get_handle in St. rewrite C1 in St. inversion St; subst; clear St.
    cbn [hs set_hs t_pc finish t_prog t_asked t_cur t_vacct vpending].
    rewrite (Ssum_upd _ _ _ _ _ _ C1). rewrite C2. unfold targets, fm. cbn [emit_into h_tuple h_val].
    rewrite Hk. unfold apply_emit, measure. cbn [v_main].
    destruct (tuple_eqb (h_tuple h) t); vdone.
  - inversion St; subst; simpl. destruct (t_cur th) as [tc|]; [|congruence]. simpl. destruct (tuple_eqb tc t); vdone.
  - inversion St; subst; simpl. destruct (t_cur th) as [tc|]; [|congruence]. simpl. destruct (tuple_eqb tc t); vdone.
Qed.


Lemma tstep_vlen_h c s th s' th' :
  c_kind c = KHist -> acct_all (t_acct th) = Z.of_nat (length (t_vacct th)) -> tstep c s th = (s', th') ->
  acct_all (t_acct th') = Z.of_nat (length (t_vacct th')).
Proof.
  intros Hk H St. unfold tstep in St.
  destruct (t_pc th) eqn:Epc; try (destruct (t_prog th) as [|o rest] eqn:P; [|unfold start_op in St; destruct o]);
  repeat match type of St with
         | context [match ?x with _ => _ end] => destruct x eqn:?
         | context [if ?x then _ else _] => destruct x eqn:?
         end; inversion St; subst; simpl in *; auto;
  repeat match goal with |- context [match ?x with _ => _ end] => destruct x end; simpl; unfold weight; rewrite ?Hk; try lia; auto.
Qed.


Record InvH (c : cfg) (x : sys) : Prop := {
  ih_2 : Inv2 c x;
  ih_len : Forall (fun th => acct_all (t_acct th) = Z.of_nat (length (t_vacct th))) (ths x) }.

Lemma sys_step_H c x i t :
  c_kind c = KHist -> c_variant c = Repaired -> InvH c x ->
  InvH c (sys_step c x i) /\ PhiV c t (sys_step c x i) = PhiV c t x /\ Psi (sys_step c x i) = Psi x /\
  noop (sh (sys_step c x i)) = noop (sh x).
Proof.
  intros Hk Hv [H2 HL]. pose proof (sys_step_inv2 c x i Hv H2) as H2'.
  assert (Triv : InvH c x /\ PhiV c t x = PhiV c t x /\ Psi x = Psi x /\ noop (sh x) = noop (sh x))
    by (split; [constructor; assumption | repeat split]).
  unfold sys_step in *. destruct (nth_error (ths x) i) as [th|] eqn:G; [|exact Triv].
  destruct (finished th); [exact Triv|]. destruct (tstep c (sh x) th) as [s' th'] eqn:St.
  destruct H2 as [[HS HP HC HK] HT].
  assert (Hpc : pc_ok (sh x) (t_pc th)) by (rewrite Forall_forall in HP; apply HP; eapply nth_error_In; eauto).
  assert (Hti : TI c (sh x) th) by (rewrite Forall_forall in HT; apply HT; eapply nth_error_In; eauto).
  assert (Hln : acct_all (t_acct th) = Z.of_nat (length (t_vacct th))) by (rewrite Forall_forall in HL; apply (HL th); eapply nth_error_In; eauto).
  split; [|split; [|split]].
  - constructor; [exact H2'|]; simpl; apply Forall_upd; auto. eapply tstep_vlen_h; eauto.
  - unfold PhiV; simpl. rewrite (tsum_upd _ _ _ _ th' G).
    pose proof (tstep_vpt_h c _ _ _ _ t Hk Hv Hpc Hti St) as H. lia.
  - unfold Psi; simpl. rewrite (tsum_upd _ _ _ _ th' G).
    destruct (tstep_link c _ _ _ _ Hpc Hv Hti St) as [_ H].
    replace (Dsum s' - (tsum (fun th0 => acct_all (t_acct th0)) (ths x) - acct_all (t_acct th) + acct_all (t_acct th')))
      with ((Dsum s' - acct_all (t_acct th')) + (acct_all (t_acct th) - tsum (fun th0 => acct_all (t_acct th0)) (ths x))) by ring.
    rewrite (mod_congr _ _ _ H). f_equal. ring.
  - simpl. destruct (tstep_link c _ _ _ _ Hpc Hv Hti St) as [H _]. exact H.
Qed.

Lemma run_sched_H c t sched : forall x, c_kind c = KHist -> c_variant c = Repaired -> InvH c x ->
  InvH c (run_sched c x sched) /\ PhiV c t (run_sched c x sched) = PhiV c t x /\ Psi (run_sched c x sched) = Psi x /\
  noop (sh (run_sched c x sched)) = noop (sh x).
Proof.
  induction sched as [|i r IH]; intros x Hk Hv H; simpl; [split; [exact H | repeat split]|].
  destruct (sys_step_H c x i t Hk Hv H) as [H1 [H2 [H3 H4]]].
  destruct (IH _ Hk Hv H1) as [J1 [J2 [J3 J4]]]. split; [exact J1|]. split; [congruence|]. split; congruence.
Qed.

Lemma InvH_0 c progs : wf_progs c progs = true -> InvH c (sys0 progs).
Proof.
  intros W. constructor; [apply Inv2_0; exact W|]; simpl; apply Forall_forall; intros th H;
    apply in_map_iff in H as [p [<- Hp]]. reflexivity.
Qed.

(* HISTOGRAMS, the SUM field: every schedule of the repaired machine, well-formed programs, at quiescence, for every tuple t,
   EXACTLY: sum the snapshot shows for t + final sums of t's unregistered series + sum of the observed values directed at t
   that did not land = sum of the values the clients observed for t.  ([shown KGauge] / [retired_of KGauge] read the v_main
   field of a series, which is the histogram sum.) *)
Lemma hist_sum_per_tuple c progs sched :
  c_kind c = KHist -> c_variant c = Repaired -> wf_progs c progs = true ->
  let x := run_sched c (sys0 progs) sched in
  quiescent x = true ->
  (forall t, shown KGauge (sh x) t + retired_of KGauge (sh x) t + vattributed x t = vemitted_to c progs t) /\
  (drops (sh x) + unknown (sh x) + stales (sh x)) mod M64 = nonlanded x mod M64 /\
  noop (sh x) = 0.
Proof.
  intros Hk Hv W x Q. split; [|split].
  - intros t. destruct (run_sched_H c t sched _ Hk Hv (InvH_0 c progs W)) as [_ [P _]]. fold x in P.
    unfold PhiV in P. simpl in P. rewrite tsum_own_init_v in P || rewrite tsum_vown_init in P. rewrite <- P.
    pose proof (live_is_shown_k c progs sched KGauge t Hv Q) as LS. cbv zeta in LS. fold x in LS.
    rewrite Ssum_split. rewrite LS. unfold retired_of, vattributed.
    assert (tsum (vown_t c t) (ths x) = tsum (fun th => acct_t t (t_vacct th)) (ths x)) as ->; [|lia].
    apply tsum_ext. intros th Hin. unfold quiescent in Q. rewrite forallb_forall in Q.
    destruct (finished_inv _ (Q _ Hin)) as [E1 E2]. unfold vown_t, vrem_t. rewrite E1, E2. simpl.
    destruct (targets t (t_cur th)); lia.
  - destruct (run_sched_H c [] sched _ Hk Hv (InvH_0 c progs W)) as [[_ HL] [_ [P _]]]. fold x in P, HL.
    unfold Psi in P. simpl in P.
    assert (tsum (fun th => acct_all (t_acct th)) (map thread0 progs) = 0) as Z0.
    { clear. induction progs; simpl; [reflexivity | lia]. }
    rewrite Z0 in P. unfold Dsum in P. simpl in P.
    assert (E : tsum (fun th => acct_all (t_acct th)) (ths x) = nonlanded x).
    { unfold nonlanded. apply tsum_ext. intros th Hin. rewrite Forall_forall in HL. apply (HL th Hin). }
    rewrite E in P.
    set (D := drops (sh x) + unknown (sh x) + stales (sh x)) in *.
    replace D with ((D - nonlanded x) + nonlanded x) by ring. rewrite <- Zplus_mod_idemp_l. unfold M64 in *. rewrite P. reflexivity.
  - destruct (run_sched_H c [] sched _ Hk Hv (InvH_0 c progs W)) as [_ [_ [_ P]]]. exact P.
Qed.


(* ================================================================= what a (concurrent) snapshot can contain *)
Lemma next_entry_sound m cur : forall best k id,
  (forall kb ib, best = Some (kb, ib) -> above cur kb = true) ->
  next_entry m cur best = Some (k, id) -> (In (k, id) m \/ best = Some (k, id)) /\ above cur k = true.
Proof.
  induction m as [|[k0 i0] m IH]; intros best k id Hb H; simpl in H.
  - subst. split; [right; reflexivity | eapply Hb; reflexivity].
  - destruct (above cur k0) eqn:Ab.
    + assert (Hn : forall kb' ib', Some (k0, i0) = Some (kb', ib') -> above cur kb' = true) by (intros kb' ib' E; injection E as <- <-; exact Ab).
      destruct best as [[kb ib]|].
      * destruct (N.ltb k0 kb).
        -- destruct (IH _ _ _ Hn H) as [[Hin|E] A]; [split; [left; right; exact Hin | exact A]|].
           inversion E; subst. split; [left; left; reflexivity | exact A].
        -- destruct (IH _ _ _ Hb H) as [[Hin|E] A]; split; auto. left; right; exact Hin.
      * destruct (IH _ _ _ Hn H) as [[Hin|E] A]; [split; [left; right; exact Hin | exact A]|].
        inversion E; subst. split; [left; left; reflexivity | exact A].
    + destruct (IH _ _ _ Hb H) as [[Hin|E] A]; split; auto. left; right; exact Hin.
Qed.

(* every step of an AppendSnapshot walk (concurrent with anything): the entry it appends is the CURRENT tuple and value of a
   series that is in the series map at that very moment, its key lies strictly above every key visited before (so no series
   is reported twice), and nothing else is ever appended *)
Lemma snapshot_step_sound mode s ss a cur acc ss' a' :
  a_pc a = SSn2 cur acc -> xstep_aux mode s ss a = Some (ss', a') ->
  ss' = ss /\
  ((exists k id h, In (k, id) (smap s) /\ above cur k = true /\ get_handle s id = Some h /\
                   a_pc a' = SSn2 (Some k) ((h_tuple h, h_val h) :: acc)) \/
   (exists k id, In (k, id) (smap s) /\ get_handle s id = None /\ a_pc a' = SSn2 (Some k) acc) \/
   (a_pc a' = SIdle /\ a_snaps a' = rev acc :: a_snaps a)).
Proof.
  intros Epc H. unfold xstep_aux in H. rewrite Epc in H.
  destruct (next_entry (smap s) cur None) as [[k id]|] eqn:NE.
  - assert (Hnone : forall kb ib, @None (N * nat) = Some (kb, ib) -> above cur kb = true) by (intros ? ? E; discriminate).
    destruct (next_entry_sound _ _ _ _ _ Hnone NE) as [[Hin|E] A]; [|discriminate].
    inversion H; subst. split; [reflexivity|]. destruct (get_handle s id) as [h|] eqn:G.
    + left. exists k, id, h. simpl. auto.
    + right; left. exists k, id. simpl. auto.
  - inversion H; subst. split; [reflexivity|]. right; right. simpl. auto.
Qed.
