(* C20/Proofs.v — lemmas and invariants for the telemetry model. *)
From OV Require Import Common.Base C20.Model.
From Coq Require Import ZifyBool ZifyNat ZifyN.
Open Scope Z_scope.

(* ================================================================= hash.go *)
Lemma bytes_eqb_eq a b : bytes_eqb a b = true <-> a = b.
Proof.
  revert b; induction a as [|x a IH]; destruct b as [|y b]; simpl; split; intros H;
    try reflexivity; try discriminate.
  - apply andb_true_iff in H as [H1 H2]. apply N.eqb_eq in H1. apply IH in H2. subst; reflexivity.
  - inversion H; subst. rewrite N.eqb_refl. simpl. apply IH. reflexivity.
Qed.
Lemma tuple_eqb_eq a b : tuple_eqb a b = true <-> a = b.
Proof.
  revert b; induction a as [|x a IH]; destruct b as [|y b]; simpl; split; intros H;
    try reflexivity; try discriminate.
  - apply andb_true_iff in H as [H1 H2]. apply bytes_eqb_eq in H1. apply IH in H2. subst; reflexivity.
  - inversion H; subst. apply andb_true_iff; split; [apply bytes_eqb_eq | apply IH]; reflexivity.
Qed.

Definition rest_input (r : tuple) : list N := flat_map (fun x => delim :: x) r.

Lemma hash_bytes_app h a b : hash_bytes h (a ++ b) = hash_bytes (hash_bytes h a) b.
Proof. unfold hash_bytes. apply fold_left_app. Qed.

Lemma hash_values_rest h r : hash_values h false r = hash_bytes h (rest_input r).
Proof.
  revert h; induction r as [|v r IH]; intros h; simpl; [reflexivity|].
  rewrite IH. change (delim :: v ++ rest_input r) with ([delim] ++ v ++ rest_input r).
  rewrite !hash_bytes_app. reflexivity.
Qed.

(* the loop of hashLabelValues is FNV-1a over the values joined by the 0xFF delimiter *)
Lemma hash_is_fnv_of_input t : hash_tuple t = hash_bytes fnv_offset (hash_input t).
Proof.
  unfold hash_tuple. destruct t as [|v r]; simpl; [reflexivity|].
  rewrite hash_values_rest, hash_bytes_app. reflexivity.
Qed.

Definition no_delim (t : tuple) : Prop := forall v, In v t -> ~ In delim v.

Lemma split_at_delim (v1 v2 s1 s2 : list N) :
  ~ In delim v1 -> ~ In delim v2 ->
  (s1 = [] \/ exists r, s1 = delim :: r) -> (s2 = [] \/ exists r, s2 = delim :: r) ->
  v1 ++ s1 = v2 ++ s2 -> v1 = v2 /\ s1 = s2.
Proof.
  revert v2; induction v1 as [|x v1 IH]; intros v2 H1 H2 Hs1 Hs2 E.
  - destruct v2 as [|y v2]; simpl in *; [split; auto|].
    destruct Hs1 as [->|[r ->]]; [discriminate|]. inversion E; subst. exfalso; apply H2; left; reflexivity.
  - destruct v2 as [|y v2]; simpl in *.
    + destruct Hs2 as [->|[r ->]]; [discriminate|]. inversion E; subst. exfalso; apply H1; left; reflexivity.
    + inversion E; subst. destruct (IH v2) as [-> ->]; auto.
Qed.

Lemma rest_input_shape r : rest_input r = [] \/ exists q, rest_input r = delim :: q.
Proof. destruct r; simpl; [left; reflexivity | right; eexists; reflexivity]. Qed.

Lemma rest_input_inj r1 : forall r2, no_delim r1 -> no_delim r2 -> length r1 = length r2 ->
  rest_input r1 = rest_input r2 -> r1 = r2.
Proof.
  induction r1 as [|v1 r1 IH]; intros [|v2 r2] N1 N2 L E; simpl in *; try discriminate; [reflexivity|].
  inversion E as [E']. 
  destruct (split_at_delim v1 v2 (rest_input r1) (rest_input r2)) as [-> E2]; auto using rest_input_shape.
  - apply N1; left; reflexivity.
  - apply N2; left; reflexivity.
  - f_equal. apply IH; auto.
    + intros v Hv; apply N1; right; exact Hv.
    + intros v Hv; apply N2; right; exact Hv.
Qed.

(* tuples of the same arity whose values contain no 0xFF byte (all valid UTF-8) are hashed from
   different byte streams: ("ab","c") and ("a","bc") cannot be confused by concatenation *)
Lemma delimiter_injective t1 t2 :
  no_delim t1 -> no_delim t2 -> length t1 = length t2 -> hash_input t1 = hash_input t2 -> t1 = t2.
Proof.
  destruct t1 as [|v1 r1], t2 as [|v2 r2]; simpl; intros N1 N2 L E; try discriminate; [reflexivity|].
  destruct (split_at_delim v1 v2 (rest_input r1) (rest_input r2)) as [-> E2]; auto using rest_input_shape.
  - apply N1; left; reflexivity.
  - apply N2; left; reflexivity.
  - f_equal. apply rest_input_inj; auto.
    + intros v Hv; apply N1; right; exact Hv.
    + intros v Hv; apply N2; right; exact Hv.
Qed.

(* ================================================================= list / map helpers *)
Lemma nth_upd {A} (l : list A) i j f :
  nth_error (upd_nth l i f) j = if Nat.eqb i j then option_map f (nth_error l j) else nth_error l j.
Proof.
  revert i j; induction l as [|x l IH]; intros i j; simpl.
  - destruct i, j; simpl; try reflexivity; destruct (Nat.eqb _ _); reflexivity.
  - destruct i, j; simpl; try reflexivity. apply IH.
Qed.
Lemma upd_nth_length {A} (l : list A) i f : length (upd_nth l i f) = length l.
Proof. revert i; induction l; intros [|i]; simpl; auto. Qed.

Lemma NoDup_snoc {A} (l : list A) x : NoDup l -> ~ In x l -> NoDup (l ++ [x]).
Proof.
  induction l as [|y l IH]; simpl; intros ND H; [constructor; [tauto|constructor]|].
  inversion ND; subst. constructor.
  - intros Hin. apply in_app_iff in Hin as [Hin|[Hin|[]]]; [tauto | subst; tauto].
  - apply IH; tauto.
Qed.

Definition keys (m : list (N * nat)) := map fst m.
Definition ids (m : list (N * nat)) := map snd m.

Lemma map_load_In m k v : map_load m k = Some v -> In (k, v) m.
Proof.
  induction m as [|[k' v'] m IH]; simpl; [discriminate|].
  destruct (N.eqb_spec k k'); intros H; [inversion H; subst; left; reflexivity | right; auto].
Qed.
Lemma map_load_None m k : map_load m k = None -> ~ In k (keys m).
Proof.
  induction m as [|[k' v'] m IH]; simpl; [tauto|].
  destruct (N.eqb_spec k k'); intros H; [discriminate|]. intros [E|E]; [congruence | apply IH; auto].
Qed.
Lemma map_load_unique m k v v' : NoDup (keys m) -> In (k, v) m -> map_load m k = Some v' -> v = v'.
Proof.
  induction m as [|[k0 v0] m IH]; simpl; [tauto|]. intros ND Hin. inversion ND; subst.
  destruct (N.eqb_spec k k0).
  - intros H; inversion H; subst. destruct Hin as [E|E]; [congruence|].
    exfalso. apply H1. exact (List.in_map fst _ _ E).
  - destruct Hin as [E|E]; [congruence|]. apply IH; auto.
Qed.
Lemma map_delete_In m k k' v : In (k', v) (map_delete m k) <-> In (k', v) m /\ k' <> k.
Proof.
  induction m as [|[k0 v0] m IH]; simpl; [tauto|].
  destruct (N.eqb_spec k k0); simpl; rewrite IH; split.
  - tauto.
  - intros [[E|E] Hn]; [inversion E; subst; congruence | tauto].
  - intros [E|[E Hn]]; [inversion E; subst; split; [left; reflexivity | congruence] | tauto].
  - tauto.
Qed.
Lemma map_delete_keys m k : forall x, In x (keys (map_delete m k)) -> In x (keys m).
Proof.
  intros x H. apply in_map_iff in H as [[k' v] [E Hin]]. simpl in E; subst.
  apply map_delete_In in Hin as [Hin _]. exact (List.in_map fst _ _ Hin).
Qed.
Lemma map_delete_ids m k : forall x, In x (ids (map_delete m k)) -> In x (ids m).
Proof.
  intros x H. apply in_map_iff in H as [[k' v] [E Hin]]. simpl in E; subst.
  apply map_delete_In in Hin as [Hin _]. exact (List.in_map snd _ _ Hin).
Qed.
Lemma map_delete_NoDup_keys m k : NoDup (keys m) -> NoDup (keys (map_delete m k)).
Proof.
  induction m as [|[k0 v0] m IH]; simpl; intros ND; [constructor|]. inversion ND; subst.
  destruct (N.eqb k k0); [auto|]. simpl. constructor; [|auto].
  intros H. apply H1. eapply map_delete_keys; eauto.
Qed.
Lemma map_delete_NoDup_ids m k : NoDup (ids m) -> NoDup (ids (map_delete m k)).
Proof.
  induction m as [|[k0 v0] m IH]; simpl; intros ND; [constructor|]. inversion ND; subst.
  destruct (N.eqb k k0); [auto|]. simpl. constructor; [|auto].
  intros H. apply H1. eapply map_delete_ids; eauto.
Qed.
Lemma map_delete_absent m k : ~ In k (keys m) -> map_delete m k = m.
Proof.
  induction m as [|[k0 v0] m IH]; simpl; intros H; [reflexivity|].
  destruct (N.eqb_spec k k0); [exfalso; apply H; left; auto|]. f_equal. apply IH. tauto.
Qed.
Lemma map_delete_length m k v : NoDup (keys m) -> map_load m k = Some v ->
  Z.of_nat (length (map_delete m k)) = Z.of_nat (length m) - 1.
Proof.
  induction m as [|[k0 v0] m IH]; cbn [map_load map_delete keys map fst]; [intros _ H; discriminate|].
  intros ND. inversion ND; subst.
  destruct (N.eqb_spec k k0).
  - intros _. subst. rewrite map_delete_absent by assumption. cbn [length]. lia.
  - intros H. cbn [length]. specialize (IH H2 H). lia.
Qed.
Lemma ids_after_delete m k id id' : NoDup (keys m) -> NoDup (ids m) -> map_load m k = Some id ->
  In id' (ids m) -> id' <> id -> In id' (ids (map_delete m k)).
Proof.
  intros NK NI L Hin Hne. apply in_map_iff in Hin as [[k' v] [E Hin]]. simpl in E; subst.
  apply in_map_iff. exists (k', id'). split; [reflexivity|]. apply map_delete_In. split; [exact Hin|].
  intros ->. apply Hne. eapply map_load_unique; eauto.
Qed.
Lemma not_id_after_delete m k id : NoDup (ids m) -> map_load m k = Some id -> ~ In id (ids (map_delete m k)).
Proof.
  intros NI L H. apply in_map_iff in H as [[k' v] [E Hin]]. simpl in E; subst.
  apply map_delete_In in Hin as [Hin Hne]. apply map_load_In in L.
  (* two entries with the same id *)
  assert (forall l : list (N * nat), NoDup (ids l) -> In (k', id) l -> In (k, id) l -> k' = k) as U.
  { induction l as [|[a b] l IHl]; simpl; [tauto|]. intros ND [E1|E1] [E2|E2]; inversion ND; subst.
    - congruence.
    - inversion E1; subst. exfalso. apply H1. exact (List.in_map snd _ _ E2).
    - inversion E2; subst. exfalso. apply H1. exact (List.in_map snd _ _ E1).
    - auto. }
  apply Hne. eapply U; eauto.
Qed.

(* ================================================================= invariant of the repaired machine *)
Record SInv (s : shared) : Prop := {
  si_wf : forall k id, In (k, id) (smap s) ->
          exists h, nth_error (hs s) id = Some h /\ hash_tuple (h_tuple h) = k /\ h_retired h = false;
  si_keys : NoDup (keys (smap s));
  si_ids : NoDup (ids (smap s));
  si_noorph : forall id h, nth_error (hs s) id = Some h -> h_retired h = false -> In id (ids (smap s));
  si_stale : forall id h, nth_error (hs s) id = Some h -> h_stale h = true -> h_retired h = true }.

Definition contrib (p : pc) : Z := match p with PQ3 _ | PQ4 _ | PQ2b | PU2 _ => 1 | _ => 0 end.
Definition over (p : pc) : Z := match p with PQ2b => 1 | _ => 0 end.
Definition pc_ok (s : shared) (p : pc) : Prop :=
  match p with
  | PR2 _ | PR3 _ _ | PR4 _ _ | PR5 _ _ | PR6 => False
  | PU2 id | PU3 id => exists h, nth_error (hs s) id = Some h /\ h_retired h = true
  | _ => True
  end.
(* what every step guarantees about handles that already exist *)
Definition ext (s s' : shared) : Prop :=
  forall id h, nth_error (hs s) id = Some h ->
  exists h', nth_error (hs s') id = Some h' /\ h_tuple h' = h_tuple h /\
             (h_retired h = true -> h_retired h' = true) /\ (h_stale h = true -> h_stale h' = true).

Lemma ext_refl s : ext s s.
Proof. intros id h H. exists h. auto. Qed.
Lemma ext_same_hs s s' : hs s' = hs s -> ext s s'.
Proof. intros E id h H. exists h. rewrite E. auto. Qed.
Lemma pc_ok_ext s s' p : ext s s' -> pc_ok s p -> pc_ok s' p.
Proof.
  intros E. destruct p; simpl; auto; intros [h [H1 H2]]; destruct (E _ _ H1) as [h' [A [B [C D]]]]; eauto.
Qed.

Lemma SInv_same_core s s' : smap s' = smap s -> hs s' = hs s -> SInv s -> SInv s'.
Proof. intros E1 E2 [A B C D E]. constructor; rewrite ?E1, ?E2; auto. Qed.

Lemma SInv_upd s id f :
  SInv s -> (forall h, h_tuple (f h) = h_tuple h) -> (forall h, h_retired (f h) = h_retired h) ->
  (forall h, nth_error (hs s) id = Some h -> h_stale (f h) = true -> h_retired h = true) ->
  SInv (set_hs s (upd_nth (hs s) id f)).
Proof.
  intros [A B C D E] Ft Fr Fs. constructor; simpl; auto.
  - intros k i Hin. destruct (A _ _ Hin) as [h [H1 [H2 H3]]]. rewrite nth_upd.
    destruct (Nat.eqb_spec id i); rewrite H1; simpl; eexists; split; eauto. rewrite Ft, Fr; auto.
  - intros i h. rewrite nth_upd. destruct (Nat.eqb_spec id i).
    + destruct (nth_error (hs s) i) eqn:G; simpl; [|discriminate]. intros H; inversion H; subst.
      rewrite Fr. eauto.
    + eauto.
  - intros i h. rewrite nth_upd. destruct (Nat.eqb_spec id i).
    + destruct (nth_error (hs s) i) eqn:G; simpl; [|discriminate]. intros H; inversion H; subst h i.
      rewrite Fr. intros Hs. eapply Fs; eauto.
    + eauto.
Qed.

Lemma ext_upd s id f :
  (forall h, h_tuple (f h) = h_tuple h) -> (forall h, h_retired h = true -> h_retired (f h) = true) ->
  (forall h, h_stale h = true -> h_stale (f h) = true) ->
  ext s (set_hs s (upd_nth (hs s) id f)).
Proof.
  intros Ft Fr Fs i h H. simpl. rewrite nth_upd. destruct (Nat.eqb id i); rewrite H; simpl; eauto 10.
Qed.

Lemma SInv_publish c s t : SInv s -> map_load (smap s) (hash_tuple t) = None ->
  SInv (fst (publish c s t)) /\ ext s (fst (publish c s t)).
Proof.
  intros [A B C D E] L. unfold publish; simpl. split.
  - assert (Hfresh : ~ In (length (hs s)) (ids (smap s))).
    { intros H. apply in_map_iff in H as [[k i] [E1 Hin]]. simpl in E1; subst.
      destruct (A _ _ Hin) as [h [H1 _]]. apply nth_error_Some in H1; [lia | congruence] || idtac.
      assert (nth_error (hs s) (length (hs s)) <> None) by congruence.
      apply nth_error_Some in H. lia. }
    constructor; simpl.
    + intros k i Hin. unfold map_store in Hin. apply in_app_iff in Hin as [Hin|[Hin|[]]].
      * destruct (A _ _ Hin) as [h [H1 H2]]. exists h. split; [|exact H2].
        rewrite nth_error_app1; [exact H1 | apply nth_error_Some; congruence].
      * inversion Hin; subst. eexists. split; [rewrite nth_error_app2 by lia; rewrite Nat.sub_diag; reflexivity|].
        split; reflexivity.
    + unfold keys, map_store. rewrite map_app. simpl.
      apply NoDup_snoc; [exact B | apply map_load_None; exact L].
    + unfold ids, map_store. rewrite map_app. simpl.
      apply NoDup_snoc; [exact C | exact Hfresh].
    + intros i h H Hr. unfold ids, map_store. rewrite map_app. apply in_app_iff.
      destruct (Nat.lt_ge_cases i (length (hs s))).
      * rewrite nth_error_app1 in H by assumption. left. eapply D; eauto.
      * rewrite nth_error_app2 in H by assumption.
        destruct (i - length (hs s))%nat eqn:G; simpl in H; [|destruct n; discriminate].
        right. simpl. left. lia.
    + intros i h H Hs.
      destruct (Nat.lt_ge_cases i (length (hs s))).
      * rewrite nth_error_app1 in H by assumption. eapply E; eauto.
      * rewrite nth_error_app2 in H by assumption.
        destruct (i - length (hs s))%nat eqn:G; simpl in H; [|destruct n; discriminate].
        inversion H; subst. simpl in Hs. discriminate.
  - intros i h H. exists h. simpl. split; [|auto]. rewrite nth_error_app1; [exact H | apply nth_error_Some; congruence].
Qed.

Lemma SInv_cad s k id :
  SInv s -> map_load (smap s) k = Some id ->
  let s' := set_hs (set_map s (map_delete (smap s) k)) (upd_nth (hs s) id retire) in
  SInv s' /\ ext s s' /\ Z.of_nat (length (smap s')) = Z.of_nat (length (smap s)) - 1 /\
  (exists h, nth_error (hs s') id = Some h /\ h_retired h = true).
Proof.
  intros [A B C D E] L. simpl.
  pose proof (map_load_In _ _ _ L) as Hin. destruct (A _ _ Hin) as [h0 [G1 [G2 G3]]].
  split; [|split; [|split]].
  - constructor; simpl.
    + intros k' i Hi. apply map_delete_In in Hi as [Hi Hne].
      destruct (A _ _ Hi) as [h [H1 H2]]. exists h. split; [|exact H2].
      rewrite nth_upd. destruct (Nat.eqb_spec id i); [|exact H1]. subst i.
      exfalso. apply Hne. symmetry. 
      assert (In (k', id) (smap s)) as Hi' by exact Hi.
      (* same id, two keys: contradiction with NoDup ids unless equal *)
      destruct (N.eq_dec k k') as [->|Hk]; [reflexivity|].
      exfalso. apply (not_id_after_delete _ _ _ C L). apply in_map_iff. exists (k', id). split; [reflexivity|].
      apply map_delete_In. split; [exact Hi | congruence].
    + apply map_delete_NoDup_keys; exact B.
    + apply map_delete_NoDup_ids; exact C.
    + intros i h. rewrite nth_upd. destruct (Nat.eqb_spec id i).
      * subst i. rewrite G1. simpl. intros H; inversion H; subst. simpl. discriminate.
      * intros H Hr. eapply ids_after_delete; eauto.
    + intros i h. rewrite nth_upd. destruct (Nat.eqb_spec id i).
      * subst i. rewrite G1. simpl. intros H; inversion H; subst. simpl. reflexivity.
      * eauto.
  - intros i h H. simpl. rewrite nth_upd. destruct (Nat.eqb id i); rewrite H; simpl; eauto 10.
  - eapply map_delete_length; eauto.
  - rewrite nth_upd, Nat.eqb_refl, G1. simpl. eexists; split; reflexivity.
Qed.

Ltac fin :=
  repeat match goal with |- _ /\ _ => split end; simpl;
  try (match goal with H : SInv ?s |- SInv _ => apply (SInv_same_core s); [reflexivity|reflexivity|exact H] end);
  try apply ext_refl; try (apply ext_same_hs; reflexivity); try (intros _; lia); try lia; auto.

(* One atomic step of one thread of the REPAIRED machine preserves the invariant.  R and O are the
   contributions of all the other threads to seriesCount (reserved / not yet released slots). *)
Lemma tstep_inv c s th R O s' th' :
  c_variant c = Repaired -> SInv s -> pc_ok s (t_pc th) -> 0 <= O ->
  cnt s = Z.of_nat (length (smap s)) + contrib (t_pc th) + R ->
  (capped c = true -> cnt s - over (t_pc th) - O <= c_cap c) ->
  tstep c s th = (s', th') ->
  SInv s' /\ pc_ok s' (t_pc th') /\
  cnt s' = Z.of_nat (length (smap s')) + contrib (t_pc th') + R /\
  (capped c = true -> cnt s' - over (t_pc th') - O <= c_cap c) /\ ext s s'.
Proof.
  intros Hv HI Hpc HO Hc Hcap Hstep. unfold tstep in Hstep.
  destruct (t_pc th) eqn:Epc; simpl in Hpc, Hc, Hcap; try contradiction.
  - (* PIdle *)
    destruct (t_prog th) as [|o rest] eqn:Eprog.
    + inversion Hstep; subst. rewrite Epc. fin.
    + unfold start_op in Hstep. destruct o.
      * destruct (negb _); [inversion Hstep; subst; fin|].
        destruct (lookup s t); inversion Hstep; subst; fin.
      * cbv zeta in Hstep; destruct (nth_error (t_slots _) slot) as [[|id]|]; [inversion Hstep; subst; fin | | inversion Hstep; subst; fin].
        destruct (get_handle s id) as [h|]; [|inversion Hstep; subst; fin].
        destruct (h_stale h); inversion Hstep; subst; fin.
      * destruct (negb _); [inversion Hstep; subst; fin|].
        destruct (lookup s t); inversion Hstep; subst; fin.
      * destruct (negb _); [inversion Hstep; subst; fin|].
        destruct (lookup s t); inversion Hstep; subst; fin.
  - (* PR1 *)
    destruct (capped c && (c_cap c <=? cnt s)); inversion Hstep; subst; rewrite ?Hv; fin.
  - (* PQ2 *)
    inversion Hstep; subst; clear Hstep.
    destruct (capped c) eqn:Ecap; simpl.
    + destruct (Z.ltb_spec (c_cap c) (cnt s + 1)); fin.
    + fin; discriminate.
  - (* PQ2b *)
    inversion Hstep; subst; fin.
  - (* PQ3 *)
    destruct (map_load (smap s) (hash_tuple t)) as [id|] eqn:L.
    + destruct (get_handle s id); inversion Hstep; subst; fin.
    + destruct (publish c s t) as [s1 id] eqn:P. inversion Hstep; subst; clear Hstep.
      destruct (SInv_publish c s t HI L) as [I1 X1]. rewrite P in I1, X1. simpl in I1, X1.
      assert (cnt s' = cnt s /\ Z.of_nat (length (smap s')) = Z.of_nat (length (smap s)) + 1) as [E1 E2].
      { unfold publish in P. inversion P; subst; simpl. unfold map_store. rewrite app_length. simpl. lia. }
      fin; try (intros _); lia.
  - (* PQ4 *)
    inversion Hstep; subst; fin.
  - (* PU1 *)
    rewrite Hv in Hstep.
    destruct (map_load (smap s) (hash_tuple t)) as [id'|] eqn:L; [|inversion Hstep; subst; fin].
    destruct (Nat.eqb_spec id' id); [|inversion Hstep; subst; fin]. subst id'.
    inversion Hstep; subst; clear Hstep.
    destruct (SInv_cad s _ _ HI L) as [I1 [X1 [E1 P1]]].
    split; [exact I1|]. split; [exact P1|]. simpl in E1. simpl.
    split; [lia|]. split; [intros Hcp; specialize (Hcap Hcp); lia | exact X1].
  - (* PU2 *)
    inversion Hstep; subst; fin.
  - (* PU3 *)
    inversion Hstep; subst; clear Hstep. destruct Hpc as [h [G1 G2]].
    split; [apply SInv_upd; auto; intros h0 G0 _; congruence|].
    split; [exact I|]. simpl. split; [lia|]. split; [exact Hcap | apply ext_upd; auto].
  - (* PE0 *)
    destruct (get_handle s id) as [h|]; [|inversion Hstep; subst; fin].
    destruct (h_stale h); inversion Hstep; subst; fin.
  - (* PE1 *)
    destruct (get_handle s id) as [h|]; inversion Hstep; subst; clear Hstep; [|fin].
    split; [apply SInv_upd; auto; intros h0 G0 Hs; eapply si_stale; eauto|].
    split; [exact I|]. simpl. split; [lia|]. split; [exact Hcap | apply ext_upd; auto].
  - (* PES *) inversion Hstep; subst; fin.
  - (* PTU *) inversion Hstep; subst; fin.
Qed.

(* ================================================================= all interleavings *)
Definition tsum (f : thread -> Z) (l : list thread) : Z := fold_right (fun th a => f th + a) 0 l.

Lemma tsum_upd f l i th th' : nth_error l i = Some th ->
  tsum f (upd_nth l i (fun _ => th')) = tsum f l - f th + f th'.
Proof.
  revert i; induction l as [|x l IH]; intros [|i]; simpl; try discriminate.
  - intros H; inversion H; subst. lia.
  - intros H. rewrite (IH _ H). lia.
Qed.
Lemma tsum_nonneg f l : (forall t, 0 <= f t) -> 0 <= tsum f l.
Proof. intros Hf. induction l as [|a l IH]; simpl; [lia | specialize (Hf a); lia]. Qed.
Lemma tsum_ge f l i th : (forall t, 0 <= f t) -> nth_error l i = Some th -> f th <= tsum f l.
Proof.
  intros Hf. revert i; induction l as [|x l IH]; intros [|i]; simpl; try discriminate.
  - intros H; inversion H; subst. pose proof (tsum_nonneg f l Hf). lia.
  - intros H. specialize (IH _ H). specialize (Hf x). lia.
Qed.
Lemma tsum_le f g l : (forall t, f t <= g t) -> tsum f l <= tsum g l.
Proof. intros H. induction l as [|x l IH]; simpl; [lia | specialize (H x); lia]. Qed.
Lemma tsum_zero f l : Forall (fun t => f t = 0) l -> tsum f l = 0.
Proof. induction 1; simpl; lia. Qed.
Lemma Forall_upd {A} (P : A -> Prop) l i x : Forall P l -> P x -> Forall P (upd_nth l i (fun _ => x)).
Proof.
  intros H Hx. revert i; induction H; intros [|i]; simpl; constructor; auto.
Qed.

Definition fcontrib (th : thread) := contrib (t_pc th).
Definition fover (th : thread) := over (t_pc th).

Record Inv (c : cfg) (x : sys) : Prop := {
  inv_s : SInv (sh x);
  inv_pc : Forall (fun th => pc_ok (sh x) (t_pc th)) (ths x);
  inv_cnt : cnt (sh x) = Z.of_nat (length (smap (sh x))) + tsum fcontrib (ths x);
  inv_cap : capped c = true -> cnt (sh x) - tsum fover (ths x) <= c_cap c }.

Lemma contrib_nonneg t : 0 <= fcontrib t.
Proof. unfold fcontrib; destruct (t_pc t); simpl; lia. Qed.
Lemma over_nonneg t : 0 <= fover t.
Proof. unfold fover; destruct (t_pc t); simpl; lia. Qed.
Lemma over_le_contrib t : fover t <= fcontrib t.
Proof. unfold fover, fcontrib; destruct (t_pc t); simpl; lia. Qed.

Lemma sys_step_inv c x i : c_variant c = Repaired -> Inv c x -> Inv c (sys_step c x i).
Proof.
  intros Hv [HS HP HC HK]. unfold sys_step.
  destruct (nth_error (ths x) i) as [th|] eqn:G; [|constructor; auto].
  destruct (finished th); [constructor; auto|].
  destruct (tstep c (sh x) th) as [s' th'] eqn:St.
  pose proof (tsum_upd fcontrib _ _ _ th' G) as U1. pose proof (tsum_upd fover _ _ _ th' G) as U2.
  pose proof (tsum_ge fover _ _ _ over_nonneg G) as G2.
  assert (Hpc : pc_ok (sh x) (t_pc th)).
  { rewrite Forall_forall in HP. apply HP. eapply nth_error_In; eauto. }
  destruct (tstep_inv c (sh x) th (tsum fcontrib (ths x) - fcontrib th) (tsum fover (ths x) - fover th) s' th')
    as [I1 [I2 [I3 [I4 I5]]]]; auto.
  - lia.
  - change (contrib (t_pc th)) with (fcontrib th). lia.
  - change (over (t_pc th)) with (fover th). intros Hc. specialize (HK Hc). lia.
  - change (contrib (t_pc th')) with (fcontrib th') in I3. change (over (t_pc th')) with (fover th') in I4.
    constructor; simpl.
    + exact I1.
    + apply Forall_upd; [|exact I2]. eapply Forall_impl; [|exact HP]. intros a Ha. eapply pc_ok_ext; eauto.
    + lia.
    + intros Hc. specialize (I4 Hc). lia.
Qed.

Lemma run_sched_inv c sched : forall x, c_variant c = Repaired -> Inv c x -> Inv c (run_sched c x sched).
Proof.
  induction sched as [|i r IH]; intros x Hv HI; simpl; [exact HI|]. apply IH; auto. apply sys_step_inv; auto.
Qed.

Lemma SInv0 : SInv shared0.
Proof. constructor; simpl; try constructor; try tauto; intros [|id] h H; discriminate. Qed.

Lemma Inv0 c progs : Inv c (sys0 progs).
Proof.
  assert (forall f, (forall p, f (thread0 p) = 0) -> tsum f (map thread0 progs) = 0) as Z0.
  { intros f Hf. induction progs; simpl; [reflexivity | rewrite Hf; lia]. }
  constructor; simpl.
  - exact SInv0.
  - apply Forall_forall. intros th H. apply in_map_iff in H as [p [<- _]]. exact I.
  - rewrite Z0; [reflexivity | reflexivity].
  - intros Hc. rewrite Z0 by reflexivity. unfold capped in Hc. lia.
Qed.

Lemma in_map_ids s id : in_map s id = true <-> In id (ids (smap s)).
Proof.
  unfold in_map, ids. rewrite existsb_exists. split.
  - intros [[k v] [H1 H2]]. apply Nat.eqb_eq in H2. simpl in H2; subst. exact (List.in_map snd _ _ H1).
  - intros H. apply in_map_iff in H as [[k v] [E H]]. simpl in E; subst. exists (k, id). split; [exact H | apply Nat.eqb_refl].
Qed.

Lemma finished_inv th : finished th = true -> t_pc th = PIdle /\ t_prog th = [].
Proof. unfold finished. destruct (t_pc th); try discriminate. destruct (t_prog th); [auto|discriminate]. Qed.
Lemma quiescent_tsum f x : quiescent x = true -> (forall th, finished th = true -> f th = 0) -> tsum f (ths x) = 0.
Proof.
  unfold quiescent. intros Q Hf. apply tsum_zero. apply Forall_forall. intros th Hin.
  rewrite forallb_forall in Q. auto.
Qed.

(* ---- the user-facing facts, for every schedule of the repaired machine ---- *)
Lemma conc_no_orphan c progs sched :
  c_variant c = Repaired ->
  let x := run_sched c (sys0 progs) sched in
  forall id, (id < length (hs (sh x)))%nat -> orphan (sh x) id = false.
Proof.
  intros Hv x id Hid. pose proof (run_sched_inv c sched _ Hv (Inv0 c progs)) as [HS _ _ _]. fold x in HS.
  unfold orphan, get_handle. destruct (nth_error (hs (sh x)) id) as [h|] eqn:G.
  - destruct (h_retired h) eqn:R; [reflexivity|]. simpl.
    rewrite (proj2 (in_map_ids _ _) (si_noorph _ HS _ _ G R)). reflexivity.
  - apply nth_error_None in G. lia.
Qed.

Lemma conc_cap c progs sched :
  c_variant c = Repaired ->
  let x := run_sched c (sys0 progs) sched in
  (0 < c_cap c -> Z.of_nat (length (snapshot (sh x))) <= c_cap c) /\
  Z.of_nat (length (smap (sh x))) <= cnt (sh x) /\
  (quiescent x = true -> cnt (sh x) = Z.of_nat (length (smap (sh x)))).
Proof.
  intros Hv x. pose proof (run_sched_inv c sched _ Hv (Inv0 c progs)) as [HS HP HC HK]. fold x in HS, HP, HC, HK.
  assert (L : length (snapshot (sh x)) = length (smap (sh x))).
  { unfold snapshot. destruct HS as [A _ _ _ _]. revert A. generalize (smap (sh x)) as m.
    induction m as [|[k v] m IH]; intros A; simpl; [reflexivity|].
    destruct (A k v (or_introl eq_refl)) as [h [H1 _]]. unfold get_handle. simpl. rewrite H1. simpl.
    f_equal. apply IH. intros k' v' Hin. apply A. right; exact Hin. }
  pose proof (tsum_le fover fcontrib (ths x) over_le_contrib) as LE.
  pose proof (tsum_nonneg fover (ths x) over_nonneg).
  assert (0 <= tsum fcontrib (ths x)) by lia.
  split; [|split].
  - intros Hc. rewrite L. assert (capped c = true) as Hc' by (unfold capped; lia). specialize (HK Hc'). lia.
  - lia.
  - intros Q. rewrite (quiescent_tsum fcontrib x Q) in HC; [lia|]. intros th E. unfold fcontrib.
    destruct (finished_inv _ E) as [-> _]. reflexivity.
Qed.

(* two live series never carry the same tuple, and a lookup selects only a series with exactly the tuple asked for *)
Lemma lookup_sound s t id : lookup s t = Some id -> exists h, get_handle s id = Some h /\ h_tuple h = t.
Proof.
  unfold lookup. destruct (map_load (smap s) (hash_tuple t)) as [i|]; [|discriminate].
  destruct (get_handle s i) as [h|] eqn:G; [|discriminate].
  destruct (tuple_eqb (h_tuple h) t) eqn:E; [|discriminate]. intros H; inversion H; subst.
  apply tuple_eqb_eq in E. eauto.
Qed.

Lemma conc_series_distinct c progs sched :
  c_variant c = Repaired ->
  let x := run_sched c (sys0 progs) sched in
  forall k1 id1 k2 id2 h1 h2, In (k1, id1) (smap (sh x)) -> In (k2, id2) (smap (sh x)) ->
    get_handle (sh x) id1 = Some h1 -> get_handle (sh x) id2 = Some h2 ->
    h_tuple h1 = h_tuple h2 -> id1 = id2.
Proof.
  intros Hv x k1 id1 k2 id2 h1 h2 H1 H2 G1 G2 E.
  pose proof (run_sched_inv c sched _ Hv (Inv0 c progs)) as [HS _ _ _]. fold x in HS.
  destruct (si_wf _ HS _ _ H1) as [a [A1 [A2 _]]]. destruct (si_wf _ HS _ _ H2) as [b [B1 [B2 _]]].
  unfold get_handle in *. rewrite A1 in G1. rewrite B1 in G2.
  assert (a = h1) by congruence. assert (b = h2) by congruence. subst a b.
  assert (k2 = k1) as Hk by (rewrite <- A2, <- B2, E; reflexivity). rewrite Hk in H2.
  pose proof (si_keys _ HS) as NK.
  destruct (map_load (smap (sh x)) k1) as [v|] eqn:L.
  - rewrite (map_load_unique _ _ _ _ NK H1 L), (map_load_unique _ _ _ _ NK H2 L). reflexivity.
  - exfalso. apply map_load_None in L. apply L. exact (List.in_map fst _ _ H1).
Qed.

(* ================================================================= conservation (both variants) *)
Definition M64 : Z := 18446744073709551616.
Lemma u64_absorb a x : (a + u64 x) mod M64 = (a + x) mod M64.
Proof. unfold u64, M64. rewrite Zplus_mod_idemp_r. reflexivity. Qed.

Definition pending (k : kind) (p : pc) : Z :=
  match p with PE0 _ _ d | PE1 _ _ d | PES d | PTU d => weight k d | _ => 0 end.
(* weight of the emissions a thread has been asked to make and that have not landed anywhere yet *)
Definition rem (k : kind) (th : thread) : Z := pending k (t_pc th) + prog_weight k (t_prog th).
(* everywhere an emission can land *)
Definition total (k : kind) (s : shared) : Z :=
  sum_measure k (hs s) + drops s + unknown s + stales s + noop s.

Lemma sum_measure_app k l1 l2 : sum_measure k (l1 ++ l2) = sum_measure k l1 + sum_measure k l2.
Proof. induction l1; simpl; lia. Qed.
Lemma sum_measure_upd k l id f h : nth_error l id = Some h ->
  sum_measure k (upd_nth l id f) = sum_measure k l - measure k (h_val h) + measure k (h_val (f h)).
Proof.
  revert id; induction l as [|x l IH]; intros [|id]; simpl; try discriminate.
  - intros H; inversion H; subst. lia.
  - intros H. rewrite (IH _ H). lia.
Qed.
Lemma sum_measure_upd_same k l id f : (forall h, measure k (h_val (f h)) = measure k (h_val h)) ->
  sum_measure k (upd_nth l id f) = sum_measure k l.
Proof.
  intros Hf. revert id; induction l as [|x l IH]; intros [|id]; simpl; auto.
  - rewrite Hf; reflexivity.
  - rewrite IH; reflexivity.
Qed.

Ltac absorb :=
  match goal with
  | |- ?L mod M64 = _ =>
    match L with
    | context [u64 ?x] => replace L with ((L - u64 x) + u64 x) by ring; rewrite u64_absorb
    end
  end.
Ltac cons_done := try reflexivity; try (f_equal; lia); try (absorb; f_equal; lia).

Lemma tstep_cons c s th s' th' :
  c_kind c <> KGauge -> tstep c s th = (s', th') ->
  (total (c_kind c) s' + rem (c_kind c) th') mod M64 = (total (c_kind c) s + rem (c_kind c) th) mod M64.
Proof.
  intros Hk Hstep. unfold tstep in Hstep. unfold rem, total.
  destruct (t_pc th) eqn:Epc.
  - (* PIdle *)
    destruct (t_prog th) as [|o rest] eqn:Eprog.
    + inversion Hstep; subst. rewrite Epc, Eprog. reflexivity.
    + unfold start_op in Hstep. destruct o; simpl prog_weight; simpl pending.
      * destruct (negb _); [inversion Hstep; subst; simpl; cons_done|].
        destruct (lookup s t); inversion Hstep; subst; simpl; cons_done.
      * cbv zeta in Hstep; destruct (nth_error (t_slots _) slot) as [[|i]|]; [inversion Hstep; subst; simpl; cons_done | | inversion Hstep; subst; simpl; cons_done].
        destruct (get_handle s i) as [h|]; [|inversion Hstep; subst; simpl; cons_done].
        destruct (h_stale h); inversion Hstep; subst; simpl; cons_done.
      * destruct (negb _); [inversion Hstep; subst; simpl; cons_done|].
        destruct (lookup s t); inversion Hstep; subst; simpl; cons_done.
      * destruct (negb _); [inversion Hstep; subst; simpl; cons_done|].
        destruct (lookup s t); inversion Hstep; subst; simpl; cons_done.
  - destruct (c_variant c); destruct (capped c && (c_cap c <=? cnt s)); inversion Hstep; subst; simpl; cons_done.
  - (* PR2 *)
    destruct (map_load (smap s) (hash_tuple t)) as [i|].
    + destruct (get_handle s i) as [h|]; [destruct (tuple_eqb _ _)|]; inversion Hstep; subst; simpl; cons_done.
    + unfold publish in Hstep. inversion Hstep; subst; simpl. rewrite sum_measure_app. simpl.
      destruct (c_kind c); simpl; cons_done.
  - inversion Hstep; subst; simpl; cons_done.
  - destruct (capped c && (c_cap c <? cnt s)); inversion Hstep; subst; simpl; cons_done.
  - inversion Hstep; subst; simpl; cons_done.
  - inversion Hstep; subst; simpl; cons_done.
  - inversion Hstep; subst; simpl. destruct (capped c && (c_cap c <? cnt s + 1)); simpl; cons_done.
  - inversion Hstep; subst; simpl; cons_done.
  - (* PQ3 *)
    destruct (map_load (smap s) (hash_tuple t)) as [i|].
    + destruct (get_handle s i) as [h|]; inversion Hstep; subst; simpl; cons_done.
    + unfold publish in Hstep. inversion Hstep; subst; simpl. rewrite sum_measure_app. simpl.
      destruct (c_kind c); simpl; cons_done.
  - inversion Hstep; subst; simpl; cons_done.
  - (* PU1 *)
    destruct (c_variant c).
    + inversion Hstep; subst; simpl. rewrite sum_measure_upd_same by reflexivity. cons_done.
    + destruct (map_load (smap s) (hash_tuple t)) as [i|]; [|inversion Hstep; subst; simpl; cons_done].
      destruct (Nat.eqb i id); inversion Hstep; subst; simpl; cons_done.
      rewrite sum_measure_upd_same by reflexivity. cons_done.
    + destruct (map_load (smap s) (hash_tuple t)) as [i|]; inversion Hstep; subst; simpl; cons_done.
      rewrite sum_measure_upd_same by reflexivity. cons_done.
  - inversion Hstep; subst; simpl; cons_done.
  - inversion Hstep; subst; simpl. rewrite sum_measure_upd_same by reflexivity. cons_done.
  - (* PE0 *)
    destruct (get_handle s id) as [h|]; [|inversion Hstep; subst; simpl; cons_done].
    destruct (h_stale h); inversion Hstep; subst; simpl; cons_done.
  - (* PE1 *)
    destruct (get_handle s id) as [h|] eqn:G; inversion Hstep; subst; [|simpl; cons_done].
    unfold get_handle in G. cbn [hs set_hs drops unknown stales noop t_pc finish t_prog pending].
    rewrite (sum_measure_upd _ _ _ _ _ G).
    unfold emit_into, apply_emit, weight, measure; destruct (c_kind c); [|congruence|];
      cbn [h_val v_main v_cnt]; cons_done.
  - inversion Hstep; subst; simpl; cons_done.
  - inversion Hstep; subst; simpl; cons_done.
Qed.

Definition potential (k : kind) (x : sys) : Z := (total k (sh x) + tsum (rem k) (ths x)) mod M64.

Lemma mod_congr a b c : a mod M64 = b mod M64 -> (a + c) mod M64 = (b + c) mod M64.
Proof. intros H. rewrite <- (Zplus_mod_idemp_l a), <- (Zplus_mod_idemp_l b), H. reflexivity. Qed.

Lemma sys_step_potential c x i : c_kind c <> KGauge -> potential (c_kind c) (sys_step c x i) = potential (c_kind c) x.
Proof.
  intros Hk. unfold sys_step. destruct (nth_error (ths x) i) as [th|] eqn:G; [|reflexivity].
  destruct (finished th); [reflexivity|]. destruct (tstep c (sh x) th) as [s' th'] eqn:St.
  unfold potential; simpl. rewrite (tsum_upd _ _ _ _ th' G).
  pose proof (tstep_cons c _ _ _ _ Hk St) as H.
  replace (total (c_kind c) s' + (tsum (rem (c_kind c)) (ths x) - rem (c_kind c) th + rem (c_kind c) th'))
    with ((total (c_kind c) s' + rem (c_kind c) th') + (tsum (rem (c_kind c)) (ths x) - rem (c_kind c) th)) by ring.
  rewrite (mod_congr _ _ _ H). f_equal. ring.
Qed.

Lemma run_sched_potential c sched : forall x, c_kind c <> KGauge ->
  potential (c_kind c) (run_sched c x sched) = potential (c_kind c) x.
Proof.
  induction sched as [|i r IH]; intros x Hk; simpl; [reflexivity|]. rewrite IH by assumption. apply sys_step_potential; assumption.
Qed.

Definition progs_weight (k : kind) (progs : list (list op)) : Z := fold_right (fun p a => prog_weight k p + a) 0 progs.

Lemma tsum_rem_init k progs : tsum (rem k) (map thread0 progs) = progs_weight k progs.
Proof. induction progs as [|p r IH]; simpl; [reflexivity|]. rewrite IH. unfold rem; simpl. lia. Qed.

(* every emission is accounted exactly once, for every schedule of EITHER variant:
   at quiescence  sum over all series ever published + cardinality drops + unknown + stale (+ ghost noop)
   = sum of the emitted weights (mod 2^64, the counters are uint64) *)
Lemma conc_conservation c progs sched :
  c_kind c <> KGauge ->
  let x := run_sched c (sys0 progs) sched in
  quiescent x = true ->
  total (c_kind c) (sh x) mod M64 = progs_weight (c_kind c) progs mod M64.
Proof.
  intros Hk x Q. pose proof (run_sched_potential c sched (sys0 progs) Hk) as P. fold x in P.
  unfold potential in P. rewrite (quiescent_tsum (rem (c_kind c)) x Q) in P.
  - rewrite Z.add_0_r in P. rewrite P. simpl. f_equal.
    rewrite tsum_rem_init. unfold total; simpl. lia.
  - intros th E. unfold rem. destruct (finished_inv _ E) as [-> ->]. reflexivity.
Qed.

(* ================================================================= non-blocking *)
(* upper bound on the number of own atomic steps a thread still needs; it does not mention the shared
   state: no step of the machine waits for another thread, a subscriber or a channel *)
Definition pc_cost (p : pc) : nat :=
  match p with
  | PIdle => 0 | PR1 _ => 6 | PR2 _ => 5 | PR3 _ _ => 4 | PR4 _ _ => 3 | PR5 _ _ => 2 | PR6 => 1
  | PQ2 _ => 4 | PQ2b => 1 | PQ3 _ => 2 | PQ4 _ => 1
  | PU1 _ _ => 3 | PU2 _ => 2 | PU3 _ => 1
  | PE0 _ _ _ => 2 | PE1 _ _ _ => 1 | PES _ => 1 | PTU _ => 1
  end%nat.
Definition budget (th : thread) : nat := (pc_cost (t_pc th) + 7 * length (t_prog th))%nat.

Lemma tstep_progress c s th : finished th = false -> (budget (snd (tstep c s th)) < budget th)%nat.
Proof.
  unfold finished, budget, tstep. destruct (t_pc th) eqn:E; destruct (t_prog th) as [|o rest] eqn:P;
    try discriminate; intros _; try (unfold start_op; destruct o);
  repeat match goal with
         | |- context [match ?x with _ => _ end] => destruct x eqn:?
         | |- context [if ?x then _ else _] => destruct x eqn:?
         end; simpl; rewrite ?E, ?P; simpl; lia.
Qed.

Lemma run_thread_finishes c : forall fuel s th, (budget th <= fuel)%nat -> finished (snd (run_thread fuel c s th)) = true.
Proof.
  induction fuel as [|f IH]; intros s th B; simpl.
  - unfold budget in B. unfold finished. destruct (t_pc th); simpl in B; try lia. destruct (t_prog th); simpl in B; [reflexivity | lia].
  - destruct (finished th) eqn:F; [exact F|].
    pose proof (tstep_progress c s th F) as Pg. destruct (tstep c s th) as [s' th'] eqn:St. simpl in Pg.
    apply IH. lia.
Qed.

(* every operation produces exactly one result *)
Definition opcount (th : thread) : nat :=
  (length (t_out th) + length (t_prog th) + match t_pc th with PIdle => 0 | _ => 1 end)%nat.
Lemma tstep_opcount c s th : opcount (snd (tstep c s th)) = opcount th.
Proof.
  destruct (tstep c s th) as [s' th'] eqn:St. unfold opcount. simpl. unfold tstep in St.
  destruct (t_pc th) eqn:E; try (destruct (t_prog th) as [|o rest] eqn:P; [|unfold start_op in St; destruct o]);
  repeat match type of St with
         | context [match ?x with _ => _ end] => destruct x eqn:?
         | context [if ?x then _ else _] => destruct x eqn:?
         end; inversion St; subst; simpl; rewrite ?E, ?P; simpl; lia.
Qed.
Lemma run_thread_opcount c : forall fuel s th, opcount (snd (run_thread fuel c s th)) = opcount th.
Proof.
  induction fuel as [|f IH]; intros s th; simpl; [reflexivity|].
  destruct (finished th); [reflexivity|]. pose proof (tstep_opcount c s th) as H.
  destruct (tstep c s th) as [s' th']. simpl in H. rewrite IH. exact H.
Qed.

(* a single operation run alone always completes within the sequential fuel: the model never answers OutOfFuel *)
Lemma seq_op_completes c s slots o : exists r, snd (seq_op c s slots o) = Some r.
Proof.
  unfold seq_op.
  pose proof (run_thread_finishes c seq_fuel s (seq_thread o slots)) as F.
  pose proof (run_thread_opcount c seq_fuel s (seq_thread o slots)) as O.
  destruct (run_thread seq_fuel c s _) as [s' th'] eqn:R. simpl in *. rewrite F by (unfold budget, seq_fuel; simpl; lia).
  specialize (F ltac:(unfold budget, seq_fuel; simpl; lia)).
  destruct (finished_inv _ F) as [E1 E2]. unfold opcount in O. rewrite E1, E2 in O. simpl in O.
  destruct (t_out th'); simpl in *; [lia | eauto].
Qed.

(* ================================================================= subscribe.go *)
Lemma sub_publish_account b : sb_unsub b = false ->
  sb_delivered (sub_publish b) + sb_dropped (sub_publish b) = sb_delivered b + sb_dropped b + 1 /\
  ((sb_len b <= sb_cap b)%nat -> (sb_len (sub_publish b) <= sb_cap (sub_publish b))%nat) /\
  sb_unsub (sub_publish b) = false /\ sb_cap (sub_publish b) = sb_cap b.
Proof.
  intros U. unfold sub_publish. rewrite U. destruct (Nat.ltb_spec (sb_len b) (sb_cap b)); simpl; repeat split; lia.
Qed.
(* a tick publishing n samples to a subscriber — even one that never reads — terminates, never exceeds the
   channel capacity, and every sample is either delivered or counted as dropped *)
Lemma sub_publish_n_account n : forall b, sb_unsub b = false -> (sb_len b <= sb_cap b)%nat ->
  let b' := sub_publish_n n b in
  sb_delivered b' + sb_dropped b' = sb_delivered b + sb_dropped b + Z.of_nat n /\ (sb_len b' <= sb_cap b')%nat.
Proof.
  induction n as [|n IH]; intros b U L; simpl; [split; lia|].
  destruct (sub_publish_account b U) as [A [B [C D]]].
  destruct (IH (sub_publish b) C (B L)) as [E F]. split; [lia | exact F].
Qed.

(* ================================================================= sequential histories *)
(* [seq_run] (the model the sequential correspondence check executes) is the machine with one client whose
   operations run to completion one after the other *)
Definition TInv (c : cfg) (s : shared) (th : thread) : Prop :=
  SInv s /\ pc_ok s (t_pc th) /\ cnt s = Z.of_nat (length (smap s)) + contrib (t_pc th) /\
  (capped c = true -> cnt s - over (t_pc th) <= c_cap c).
Definition SeqInv (c : cfg) (s : shared) : Prop :=
  SInv s /\ cnt s = Z.of_nat (length (smap s)) /\ (capped c = true -> cnt s <= c_cap c).

Lemma run_thread_TInv c : c_variant c = Repaired ->
  forall fuel s th, TInv c s th -> TInv c (fst (run_thread fuel c s th)) (snd (run_thread fuel c s th)).
Proof.
  intros Hv. induction fuel as [|f IH]; intros s th H; simpl; [exact H|].
  destruct (finished th); [exact H|]. destruct (tstep c s th) as [s' th'] eqn:St.
  apply IH. destruct H as [A [B [C D]]].
  destruct (tstep_inv c s th 0 0 s' th' Hv A B (Z.le_refl 0)) as [I1 [I2 [I3 [I4 _]]]]; auto.
  - lia.
  - intros Hc. specialize (D Hc). lia.
  - split; [exact I1|]. split; [exact I2|]. split; [lia|]. intros Hc; specialize (I4 Hc); lia.
Qed.

Lemma seq_op_inv c s slots o : c_variant c = Repaired -> SeqInv c s -> SeqInv c (fst (fst (seq_op c s slots o))).
Proof.
  intros Hv [A [B C]]. unfold seq_op.
  set (th := (seq_thread o slots)).
  pose proof (run_thread_TInv c Hv seq_fuel s th) as T.
  pose proof (run_thread_finishes c seq_fuel s th) as F.
  destruct (run_thread seq_fuel c s th) as [s' th'] eqn:R. simpl in *.
  specialize (F ltac:(unfold budget, seq_fuel; simpl; lia)).
  destruct T as [T1 [T2 [T3 T4]]].
  { split; [exact A|]. split; [exact I|]. simpl. split; [lia|]. intros Hc; specialize (C Hc); lia. }
  destruct (finished_inv _ F) as [E _]. rewrite E in T3, T4. simpl in T3, T4.
  split; [exact T1|]. split; [lia|]. intros Hc; specialize (T4 Hc); lia.
Qed.

Lemma seq_run_inv c : c_variant c = Repaired -> forall ops s slots, SeqInv c s -> SeqInv c (fst (seq_run c s slots ops)).
Proof.
  intros Hv. induction ops as [|o r IH]; intros s slots H; simpl; [exact H|].
  pose proof (seq_op_inv c s slots o Hv H) as H1.
  destruct (seq_op c s slots o) as [[s' sl'] res]. simpl in H1. apply IH. exact H1.
Qed.

Lemma SeqInv0 c : SeqInv c shared0.
Proof. split; [exact SInv0|]. split; [reflexivity|]. simpl. unfold capped. lia. Qed.

Lemma seq_props c ops : c_variant c = Repaired ->
  let s := fst (seq_run c shared0 [] ops) in
  (0 < c_cap c -> Z.of_nat (length (snapshot s)) <= c_cap c) /\
  cnt s = Z.of_nat (length (smap s)) /\
  (forall id, (id < length (hs s))%nat -> orphan s id = false).
Proof.
  intros Hv s. destruct (seq_run_inv c Hv ops shared0 [] (SeqInv0 c)) as [HS [HC HK]]. fold s in HS, HC, HK.
  assert (L : length (snapshot s) = length (smap s)).
  { unfold snapshot. destruct HS as [A _ _ _ _]. revert A. generalize (smap s) as m.
    induction m as [|[k v] m IH]; intros A; simpl; [reflexivity|].
    destruct (A k v (or_introl eq_refl)) as [h [H1 _]]. unfold get_handle. simpl. rewrite H1. simpl.
    f_equal. apply IH. intros k' v' Hin. apply A. right; exact Hin. }
  split; [|split].
  - intros Hc. rewrite L. assert (capped c = true) as Hc' by (unfold capped; lia). specialize (HK Hc'). lia.
  - exact HC.
  - intros id Hid. unfold orphan, get_handle. destruct (nth_error (hs s) id) as [h|] eqn:G.
    + destruct (h_retired h) eqn:R; [reflexivity|]. simpl.
      rewrite (proj2 (in_map_ids _ _) (si_noorph _ HS _ _ G R)). reflexivity.
    + apply nth_error_None in G. lia.
Qed.

Lemma run_thread_cons c : c_kind c <> KGauge -> forall fuel s th,
  (total (c_kind c) (fst (run_thread fuel c s th)) + rem (c_kind c) (snd (run_thread fuel c s th))) mod M64 =
  (total (c_kind c) s + rem (c_kind c) th) mod M64.
Proof.
  intros Hk. induction fuel as [|f IH]; intros s th; simpl; [reflexivity|].
  destruct (finished th); [reflexivity|]. destruct (tstep c s th) as [s' th'] eqn:St.
  rewrite IH. apply (tstep_cons c s th s' th' Hk St).
Qed.

Lemma seq_run_cons c : c_kind c <> KGauge -> forall ops s slots,
  total (c_kind c) (fst (seq_run c s slots ops)) mod M64 = (total (c_kind c) s + prog_weight (c_kind c) ops) mod M64.
Proof.
  intros Hk. induction ops as [|o r IH]; intros s slots; simpl.
  - f_equal. lia.
  - unfold seq_op.
    set (th := (seq_thread o slots)).
    pose proof (run_thread_cons c Hk seq_fuel s th) as C.
    pose proof (run_thread_finishes c seq_fuel s th) as F.
    destruct (run_thread seq_fuel c s th) as [s' th'] eqn:R. simpl in *.
    specialize (F ltac:(unfold budget, seq_fuel; simpl; lia)).
    destruct (finished_inv _ F) as [E1 E2]. unfold rem in C. rewrite E1, E2 in C. simpl in C.
    rewrite IH.
    assert (C2 : total (c_kind c) s' mod M64 = (total (c_kind c) s + op_weight (c_kind c) o) mod M64).
    { etransitivity; [|etransitivity; [exact C|]]; f_equal; lia. }
    rewrite (mod_congr _ _ (prog_weight (c_kind c) r) C2). f_equal. ring.
Qed.

(* ================================================================= registration (registry.go) *)
Lemma schema_eqb_eq a : forall b, schema_eqb a b = true <-> a = b.
Proof.
  induction a as [|x a IH]; intros [|y b]; simpl; split; intros H; try reflexivity; try discriminate.
  - apply andb_true_iff in H as [H1 H2]. apply Nat.eqb_eq in H1. apply IH in H2. subst; reflexivity.
  - inversion H; subst. rewrite Nat.eqb_refl. simpl. apply IH. reflexivity.
Qed.
Lemma kind_eqb_eq a b : kind_eqb a b = true <-> a = b.
Proof. destruct a, b; simpl; split; intros H; try reflexivity; discriminate. Qed.
Lemma map_load_app_some m l k v : map_load m k = Some v -> map_load (m ++ l) k = Some v.
Proof.
  induction m as [|[k' v'] m IH]; simpl; [discriminate|]. destruct (N.eqb k k'); auto.
Qed.
Lemma map_load_store_same m k v : map_load m k = None -> map_load (map_store m k v) k = Some v.
Proof.
  unfold map_store. induction m as [|[k' v'] m IH]; simpl.
  - rewrite N.eqb_refl. reflexivity.
  - destruct (N.eqb k k'); [discriminate | auto].
Qed.

Definition rmono (s s' : rshared) : Prop :=
  (forall k v, map_load (rmap s) k = Some v -> map_load (rmap s') k = Some v) /\
  (forall id b, nth_error (robjs s) id = Some b -> nth_error (robjs s') id = Some b).
(* a registrant that was told "ok, metric id" holds the object the registry maps its name to, with its schema *)
Definition rth_ok (s : rshared) (th : rthread) : Prop :=
  forall id, rt_pc th = RPDone (RROk id) ->
    map_load (rmap s) (ro_name (rt_opts th)) = Some id /\
    exists b, nth_error (robjs s) id = Some b /\ rb_kind b = ro_kind (rt_opts th) /\ rb_nl b = ro_nl (rt_opts th).
Definition rwf (s : rshared) : Prop := forall k id, map_load (rmap s) k = Some id -> nth_error (robjs s) id <> None.
Definition rth_nopanic (th : rthread) : Prop := rt_pc th <> RPDone RRPanic.

Lemma rmono_refl s : rmono s s.
Proof. split; auto. Qed.
Lemma rth_ok_mono s s' th : rmono s s' -> rth_ok s th -> rth_ok s' th.
Proof.
  intros [M1 M2] H id E. destruct (H id E) as [A [b [B C]]]. split; [auto|]. exists b. split; auto.
Qed.

Definition rokcond (s : rshared) (th : rthread) (id : nat) : Prop :=
  map_load (rmap s) (ro_name (rt_opts th)) = Some id /\
  exists b, nth_error (robjs s) id = Some b /\ rb_kind b = ro_kind (rt_opts th) /\ rb_nl b = ro_nl (rt_opts th).
Definition rconcl (v : variant) (s : rshared) (th : rthread) (s' : rshared) (th' : rthread) : Prop :=
  rmono s s' /\ rwf s' /\ (rth_ok s th -> rth_ok s' th') /\ rt_opts th' = rt_opts th /\
  (v = Repaired -> rth_nopanic th -> rth_nopanic th').

Lemma rconcl_done v s s1 th r :
  rwf s -> (s1 = s \/ s1 = rbump s) -> (forall id, r = RROk id -> rokcond s th id) ->
  (v = Repaired -> r <> RRPanic) -> rconcl v s th s1 (rdone th r).
Proof.
  intros W Hs Hok Hnp.
  assert (rmap s1 = rmap s /\ robjs s1 = robjs s) as [E1 E2] by (destruct Hs; subst; auto).
  unfold rconcl. split; [|split; [|split; [|split]]].
  - split; rewrite ?E1, ?E2; auto.
  - intros k id. rewrite E1, E2. apply W.
  - intros _ id E. simpl in E. inversion E as [E']. destruct (Hok id E') as [A B]. simpl. rewrite E1, E2. split; auto.
  - reflexivity.
  - intros Hv _. unfold rth_nopanic. simpl. intros E. inversion E. apply (Hnp Hv). assumption.
Qed.

Lemma rstep_inv v s th s' th' :
  rwf s -> rstep v s th = (s', th') -> rconcl v s th s' th'.
Proof.
  intros W St. unfold rstep in St.
  destruct (rt_pc th) eqn:Epc.
  - (* RP0 *)
    destruct (map_load (rmap s) (ro_name (rt_opts th))) as [id|] eqn:L.
    + destruct (nth_error (robjs s) id) as [b|] eqn:G; [|exfalso; eapply W; eauto].
      destruct (kind_eqb (rb_kind b) (ro_kind (rt_opts th))) eqn:K; simpl in St.
      * destruct (schema_eqb (rb_nl b) (ro_nl (rt_opts th))) eqn:SE; simpl in St; inversion St; subst; clear St;
          apply rconcl_done; auto; try (intros; discriminate).
        intros i E. inversion E; subst. split; [exact L|]. exists b. apply kind_eqb_eq in K. apply schema_eqb_eq in SE. auto.
      * inversion St; subst; clear St. apply rconcl_done; auto; intros; discriminate.
    + inversion St; subst; clear St. unfold rconcl. split; [apply rmono_refl|]. split; [exact W|].
      split; [intros _ i E; simpl in E; discriminate|]. split; [reflexivity|].
      intros _ _. unfold rth_nopanic; simpl. discriminate.
  - (* RP1 *)
    destruct (map_load (rmap s) (ro_name (rt_opts th))) as [id|] eqn:L.
    + destruct (nth_error (robjs s) id) as [b|] eqn:G; [|exfalso; eapply W; eauto].
      destruct (kind_eqb (rb_kind b) (ro_kind (rt_opts th))) eqn:K; simpl in St.
      * destruct (schema_eqb (rb_nl b) (ro_nl (rt_opts th))) eqn:SE; simpl in St; inversion St; subst; clear St;
          apply rconcl_done; auto; try (intros; discriminate).
        intros i E. inversion E; subst. split; [exact L|]. exists b. apply kind_eqb_eq in K. apply schema_eqb_eq in SE. auto.
      * destruct v; inversion St; subst; clear St; apply rconcl_done; auto; intros; discriminate.
    + inversion St; subst; clear St.
      set (s1 := {| rmap := map_store (rmap s) (ro_name (rt_opts th)) (length (robjs s));
                    robjs := robjs s ++ [{| rb_kind := ro_kind (rt_opts th); rb_nl := ro_nl (rt_opts th) |}];
                    rerrs := rerrs s |}).
      assert (M : rmono s s1).
      { split; simpl.
        - intros k v0 H. unfold map_store. apply map_load_app_some. exact H.
        - intros i b H. rewrite nth_error_app1; [exact H | apply nth_error_Some; congruence]. }
      unfold rconcl. split; [exact M|]. split; [|split; [|split]].
      * intros k i H. simpl in H |- *.
        assert (i < S (length (robjs s)))%nat as Hi.
        { destruct (map_load (rmap s) k) as [i0|] eqn:Lk.
          - pose proof (map_load_app_some _ [(ro_name (rt_opts th), length (robjs s))] _ _ Lk) as H2.
            unfold map_store in H. rewrite H2 in H. inversion H; subst.
            assert (nth_error (robjs s) i <> None) as Q by (eapply W; eauto). apply nth_error_Some in Q. lia.
          - assert (i = length (robjs s)) as ->; [|lia].
            unfold map_store in H. revert Lk H. generalize (rmap s) as m.
            induction m as [|[k' v'] m IH]; simpl.
            + destruct (N.eqb k (ro_name (rt_opts th))); intros _ H; [inversion H; reflexivity | discriminate].
            + destruct (N.eqb k k'); [discriminate | auto]. }
        intros N. apply nth_error_None in N. rewrite app_length in N. simpl in N. lia.
      * intros _ i E. simpl in E. inversion E; subst. simpl. split; [apply map_load_store_same; exact L|].
        eexists. split; [rewrite nth_error_app2 by lia; rewrite Nat.sub_diag; reflexivity | split; reflexivity].
      * reflexivity.
      * intros _ _. unfold rth_nopanic; simpl. discriminate.
  - inversion St; subst; clear St. unfold rconcl. split; [apply rmono_refl|]. split; [exact W|]. auto.
Qed.

Record RInv (v : variant) (x : rsys) : Prop := {
  ri_wf : rwf (rsh x);
  ri_ok : Forall (rth_ok (rsh x)) (rths x);
  ri_np : v = Repaired -> Forall rth_nopanic (rths x) }.

Lemma rsys_step_inv v x i : RInv v x -> RInv v (rsys_step v x i).
Proof.
  intros [W OK NP]. unfold rsys_step. destruct (nth_error (rths x) i) as [th|] eqn:G; [|constructor; auto].
  destruct (rstep v (rsh x) th) as [s' th'] eqn:St.
  destruct (rstep_inv v _ _ _ _ W St) as [M [W' [K [_ P]]]].
  assert (Hth : rth_ok (rsh x) th) by (rewrite Forall_forall in OK; apply OK; eapply nth_error_In; eauto).
  constructor; simpl.
  - exact W'.
  - apply Forall_upd; [|auto]. eapply Forall_impl; [|exact OK]. intros a Ha. eapply rth_ok_mono; eauto.
  - intros Hv. specialize (NP Hv). apply Forall_upd; [exact NP|]. apply P; [exact Hv|].
    rewrite Forall_forall in NP. apply NP. eapply nth_error_In; eauto.
Qed.

Lemma rrun_sched_inv v sched : forall x, RInv v x -> RInv v (rrun_sched v x sched).
Proof. induction sched as [|i r IH]; intros x H; simpl; [exact H|]. apply IH. apply rsys_step_inv. exact H. Qed.

Lemma RInv0 v os : RInv v (rsys0 os).
Proof.
  constructor; simpl.
  - intros k id H. discriminate.
  - apply Forall_forall. intros th H. apply in_map_iff in H as [o [<- _]]. intros id E. discriminate.
  - intros _. apply Forall_forall. intros th H. apply in_map_iff in H as [o [<- _]]. unfold rth_nopanic; simpl. discriminate.
Qed.

(* for every interleaving of any number of Register calls (either variant): all registrants of one name that are
   told "ok" obtain the SAME metric object, it is the object the registry maps the name to (the one snapshots
   walk), and it has the type and label schema each of them asked for *)
Lemma reg_unique v os sched :
  let x := rrun_sched v (rsys0 os) sched in
  forall i j ti tj a b,
    nth_error (rths x) i = Some ti -> nth_error (rths x) j = Some tj ->
    ro_name (rt_opts ti) = ro_name (rt_opts tj) ->
    rt_pc ti = RPDone (RROk a) -> rt_pc tj = RPDone (RROk b) ->
    a = b /\ map_load (rmap (rsh x)) (ro_name (rt_opts ti)) = Some a /\
    exists o, nth_error (robjs (rsh x)) a = Some o /\ rb_kind o = ro_kind (rt_opts ti) /\ rb_nl o = ro_nl (rt_opts ti).
Proof.
  intros x i j ti tj a b Gi Gj En Ea Eb.
  pose proof (rrun_sched_inv v sched _ (RInv0 v os)) as [_ OK _]. fold x in OK. rewrite Forall_forall in OK.
  destruct (OK ti (nth_error_In _ _ Gi) a Ea) as [A1 A2]. destruct (OK tj (nth_error_In _ _ Gj) b Eb) as [B1 _].
  rewrite <- En in B1. split; [congruence|]. split; [exact A1 | exact A2].
Qed.

Lemma reg_no_panic os sched :
  let x := rrun_sched Repaired (rsys0 os) sched in
  forall i th, nth_error (rths x) i = Some th -> rt_pc th <> RPDone RRPanic.
Proof.
  intros x i th G. pose proof (rrun_sched_inv Repaired sched _ (RInv0 Repaired os)) as [_ _ NP]. fold x in NP.
  specialize (NP eq_refl). rewrite Forall_forall in NP. apply NP. eapply nth_error_In; eauto.
Qed.

(* ================================================================= a removed handle ends up stale *)
(* UnregisterSeries removes the entry (CompareAndDelete), then releases the slot, then marks the handle stale.
   Between the first and the last step the unregistering thread sits in PU2/PU3 with that handle. *)
Definition pend (id : nat) (th : thread) : Z :=
  match t_pc th with PU2 i | PU3 i => if Nat.eqb i id then 1 else 0 | _ => 0 end.
Definition rs_ok (s : shared) (id : nat) (n : Z) : Prop :=
  forall h, nth_error (hs s) id = Some h -> h_retired h = true -> h_stale h = true \/ 0 < n.

Lemma rs_ok_same s s' id n n' : hs s' = hs s -> n' = n -> rs_ok s id n -> rs_ok s' id n'.
Proof. intros E -> H h G. rewrite E in G. auto. Qed.
Lemma rs_ok_upd s i f id n :
  (forall h, h_retired (f h) = h_retired h) -> (forall h, h_stale h = true -> h_stale (f h) = true) ->
  rs_ok s id n -> rs_ok (set_hs s (upd_nth (hs s) i f)) id n.
Proof.
  intros Fr Fs H h. simpl. rewrite nth_upd. destruct (Nat.eqb i id); [|apply H].
  destruct (nth_error (hs s) id) as [h0|] eqn:G; simpl; [|discriminate]. intros E; inversion E; subst.
  rewrite Fr. intros Hr. destruct (H h0 G Hr); auto.
Qed.

Lemma rs_ok_publish c s t id n : rs_ok s id n -> rs_ok (fst (publish c s t)) id n.
Proof.
  intros H h G Hr. unfold publish in G. simpl in G.
  destruct (Nat.lt_ge_cases id (length (hs s))).
  - rewrite nth_error_app1 in G by assumption. apply (H h G Hr).
  - rewrite nth_error_app2 in G by assumption. destruct (id - length (hs s))%nat as [|k]; simpl in G; [|destruct k; discriminate].
    inversion G; subst. simpl in Hr. discriminate.
Qed.

Lemma tstep_pend c s th s' th' id R :
  c_variant c = Repaired -> 0 <= R -> tstep c s th = (s', th') ->
  rs_ok s id (pend id th + R) -> rs_ok s' id (pend id th' + R).
Proof.
  intros Hv HR Hstep H. unfold tstep in Hstep.
  destruct (t_pc th) eqn:Epc;
    try (match type of Hstep with (_, _) = _ => inversion Hstep; subst; clear Hstep;
           eapply rs_ok_same; [| |exact H]; [reflexivity | unfold pend; rewrite Epc; reflexivity] end).
  - (* PIdle *)
    assert (P0 : pend id th = 0) by (unfold pend; rewrite Epc; reflexivity). rewrite P0 in H.
    destruct (t_prog th) as [|o rest] eqn:Eprog.
    + inversion Hstep; subst. eapply rs_ok_same; [| |exact H]; [reflexivity | unfold pend; rewrite Epc; reflexivity].
    + unfold start_op in Hstep. destruct o;
      repeat match type of Hstep with
             | context [match ?x with _ => _ end] => destruct x eqn:?
             | context [if ?x then _ else _] => destruct x eqn:?
             end; inversion Hstep; subst; clear Hstep; (eapply rs_ok_same; [| |exact H]; reflexivity).
  - (* PR1 *)
    assert (P0 : pend id th = 0) by (unfold pend; rewrite Epc; reflexivity). rewrite P0 in H. rewrite Hv in Hstep.
    destruct (capped c && (c_cap c <=? cnt s)); inversion Hstep; subst; (eapply rs_ok_same; [| |exact H]; reflexivity).
  - (* PR2 *)
    assert (P0 : pend id th = 0) by (unfold pend; rewrite Epc; reflexivity). rewrite P0 in H.
    repeat match type of Hstep with
           | context [match ?x with _ => _ end] => destruct x eqn:?
           | context [if ?x then _ else _] => destruct x eqn:?
           end; try (inversion Hstep; subst; clear Hstep; (eapply rs_ok_same; [| |exact H]; reflexivity)).
    inversion Hstep; subst; clear Hstep.
    match goal with E : publish c s t = (?a, _) |- _ => replace a with (fst (publish c s t)) by (rewrite E; reflexivity) end.
    apply rs_ok_publish. exact H.
  - (* PR4 *)
    assert (P0 : pend id th = 0) by (unfold pend; rewrite Epc; reflexivity). rewrite P0 in H.
    destruct (capped c && (c_cap c <? cnt s)); inversion Hstep; subst; (eapply rs_ok_same; [| |exact H]; reflexivity).
  - (* PQ2 *)
    assert (P0 : pend id th = 0) by (unfold pend; rewrite Epc; reflexivity). rewrite P0 in H.
    inversion Hstep; subst; clear Hstep.
    destruct (capped c && (c_cap c <? cnt s + 1)); (eapply rs_ok_same; [| |exact H]; reflexivity).
  - (* PQ3 *)
    assert (P0 : pend id th = 0) by (unfold pend; rewrite Epc; reflexivity). rewrite P0 in H.
    repeat match type of Hstep with
           | context [match ?x with _ => _ end] => destruct x eqn:?
           | context [if ?x then _ else _] => destruct x eqn:?
           end; try (inversion Hstep; subst; clear Hstep; (eapply rs_ok_same; [| |exact H]; reflexivity)).
    inversion Hstep; subst; clear Hstep.
    match goal with E : publish c s t = (?a, _) |- _ => replace a with (fst (publish c s t)) by (rewrite E; reflexivity) end.
    apply rs_ok_publish. exact H.
  - (* PU1 *)
    assert (P0 : pend id th = 0) by (unfold pend; rewrite Epc; reflexivity). rewrite P0 in H. rewrite Hv in Hstep.
    destruct (map_load (smap s) (hash_tuple t)) as [i|];
      [|inversion Hstep; subst; (eapply rs_ok_same; [| |exact H]; reflexivity)].
    destruct (Nat.eqb i id0); inversion Hstep; subst; clear Hstep;
      [|eapply rs_ok_same; [| |exact H]; reflexivity].
    intros h. simpl. rewrite nth_upd. unfold pend; simpl.
    destruct (Nat.eqb_spec id0 id).
    + intros _ _. right. lia.
    + intros G Hr. apply (H h G Hr).
  - (* PU3 *)
    inversion Hstep; subst; clear Hstep.
    assert (P1 : pend id (finish th (ResB true)) = 0) by reflexivity. rewrite P1.
    assert (P0 : pend id th = if Nat.eqb id0 id then 1 else 0) by (unfold pend; rewrite Epc; reflexivity). rewrite P0 in H.
    intros h. simpl. rewrite nth_upd. destruct (Nat.eqb_spec id0 id).
    + destruct (nth_error (hs s) id); simpl; [|discriminate]. intros E _; inversion E; subst. left; reflexivity.
    + intros G Hr. apply (H h G Hr).
  - (* PE0 *)
    assert (P0 : pend id th = 0) by (unfold pend; rewrite Epc; reflexivity). rewrite P0 in H.
    repeat match type of Hstep with
           | context [match ?x with _ => _ end] => destruct x eqn:?
           | context [if ?x then _ else _] => destruct x eqn:?
           end; inversion Hstep; subst; clear Hstep; (eapply rs_ok_same; [| |exact H]; reflexivity).
  - (* PE1 *)
    assert (P0 : pend id th = 0) by (unfold pend; rewrite Epc; reflexivity). rewrite P0 in H.
    destruct (get_handle s id0); inversion Hstep; subst; clear Hstep;
      [|eapply rs_ok_same; [| |exact H]; reflexivity].
    apply rs_ok_upd; auto.
Qed.

Lemma pend_nonneg id th : 0 <= pend id th.
Proof. unfold pend. destruct (t_pc th); try lia; destruct (Nat.eqb _ _); lia. Qed.

Definition RsInv (x : sys) : Prop := forall id, rs_ok (sh x) id (tsum (pend id) (ths x)).

Lemma sys_step_rs c x i : c_variant c = Repaired -> RsInv x -> RsInv (sys_step c x i).
Proof.
  intros Hv H id. specialize (H id). unfold sys_step.
  destruct (nth_error (ths x) i) as [th|] eqn:G; [|exact H].
  destruct (finished th); [exact H|]. destruct (tstep c (sh x) th) as [s' th'] eqn:St. simpl.
  rewrite (tsum_upd (pend id) _ _ _ th' G).
  pose proof (tsum_ge (pend id) _ _ _ (pend_nonneg id) G) as Ge.
  replace (tsum (pend id) (ths x) - pend id th + pend id th') with (pend id th' + (tsum (pend id) (ths x) - pend id th)) by ring.
  eapply (tstep_pend c _ _ _ _ id _ Hv); [lia | exact St|].
  replace (pend id th + (tsum (pend id) (ths x) - pend id th)) with (tsum (pend id) (ths x)) by ring. exact H.
Qed.

Lemma run_sched_rs c sched : forall x, c_variant c = Repaired -> RsInv x -> RsInv (run_sched c x sched).
Proof. induction sched as [|i r IH]; intros x Hv H; simpl; [exact H|]. apply IH; auto. apply sys_step_rs; auto. Qed.

(* every schedule of the repaired machine: at quiescence a series handle is either in the series map (snapshots show it)
   or marked stale (everything emitted through it from now on is a stale_handle_emit) — a handle removed from the map is
   always the one that gets marked stale.  With C20_conc_conservation: nothing any client can still do is unaccounted. *)
Lemma conc_removed_is_stale c progs sched :
  c_variant c = Repaired ->
  let x := run_sched c (sys0 progs) sched in
  quiescent x = true ->
  forall id h, get_handle (sh x) id = Some h -> in_map (sh x) id = true \/ h_stale h = true.
Proof.
  intros Hv x Q id h G.
  assert (R0 : RsInv (sys0 progs)) by (intros i h0 G0; destruct i; discriminate).
  pose proof (run_sched_rs c sched _ Hv R0 id) as R. fold x in R.
  pose proof (run_sched_inv c sched _ Hv (Inv0 c progs)) as [HS _ _ _]. fold x in HS.
  unfold get_handle in G. destruct (h_retired h) eqn:Hr.
  - right. destruct (R h G Hr) as [S|P]; [exact S|].
    rewrite (quiescent_tsum (pend id) x Q) in P; [lia|].
    intros th F. unfold pend. destruct (finished_inv _ F) as [-> _]. reflexivity.
  - left. apply in_map_ids. eapply si_noorph; eauto.
Qed.
