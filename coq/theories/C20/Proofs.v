From OV Require Import Common.Base C20.Model.
Open Scope Z_scope.
