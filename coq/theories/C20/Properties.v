(* C20/Properties.v — the property theorems only.  Each is closed by [exact] of a lemma from Proofs*.v (or by vm_compute
   for a concrete witness) and followed by Print Assumptions.

   Machines (Model.v):
     [run_sched c (sys0 progs) sched]   metric clients; EVERY list of client programs, EVERY schedule (list of thread
                                        indices; one element = one atomic sync.Map / sync/atomic call)
     [xrun c mode (xsys0 progs aprogs) xsched]  the same clients (plus the markDirty steps) interleaved with subscribe /
                                        unsubscribe / tick / snapshot / drain threads
     [rrun_sched v (rsys0 opts) sched]  Register{Counter,Gauge,Histogram} calls
     [seq_run]                          one client, operations run to completion (what the sequential correspondence runs)
   Variants: [Repaired] = /repo HEAD (both C20 fixes are committed); [Defective] = the code before them; [LoadAndDel] =
   seeded change C20_n2.  Theorems are proved for Repaired; the `_refuted` theorems show the same statements false for
   the other two. *)
From OV Require Import Common.Base C20.Model C20.Proofs C20.Proofs2 C20.Proofs3 C20.Proofs4 C20.Proofs5.
Open Scope Z_scope.

(* ---------------------------------------------------------------- label tuples and the hash *)
(* hashLabelValues is FNV-1a over the label values joined by the 0xFF delimiter *)
Theorem C20_hash_is_fnv_of_input : forall t, hash_tuple t = hash_bytes fnv_offset (hash_input t).
Proof. exact hash_is_fnv_of_input. Qed.
Print Assumptions C20_hash_is_fnv_of_input.

(* tuples of equal arity without a 0xFF byte (every valid UTF-8 string) are hashed from different byte
   streams: ("ab","c") / ("a","bc") / ("abc","") cannot be confused by concatenation *)
Theorem C20_delimiter_injective : forall t1 t2,
  no_delim t1 -> no_delim t2 -> length t1 = length t2 -> hash_input t1 = hash_input t2 -> t1 = t2.
Proof. exact delimiter_injective. Qed.
Print Assumptions C20_delimiter_injective.

Example C20_delimiter_nonvacuous :
  no_delim [[97;98];[99]]%N /\ no_delim [[97];[98;99]]%N /\
  hash_input [[97;98];[99]]%N <> hash_input [[97];[98;99]]%N /\
  hash_tuple [[97;98];[99]]%N <> hash_tuple [[97];[98;99]]%N.
Proof.
  repeat split; try (vm_compute; discriminate);
    intros v [<-|[<-|[]]] H; vm_compute in H; repeat (destruct H as [H|H]; [discriminate|]); exact H.
Qed.
Print Assumptions C20_delimiter_nonvacuous.

(* Go strings may contain 0xFF: then two DISTINCT tuples of the same arity have the same 64-bit hash, so the
   labelValuesEqual verification after every Load / LoadOrStore is what keeps them apart, not the hash *)
Theorem C20_hash_collision_exists : exists t1 t2 : tuple,
  t1 <> t2 /\ length t1 = length t2 /\ hash_tuple t1 = hash_tuple t2 /\ tuple_eqb t1 t2 = false.
Proof. exists [[97;255];[98]]%N, [[97];[255;98]]%N. vm_compute. repeat split; discriminate. Qed.
Print Assumptions C20_hash_collision_exists.

(* tuple identity: resolving or emitting by tuple t selects a series only if it carries exactly t —
   whatever is stored under the same hash (hash collisions included) *)
Theorem C20_tuple_identity : forall s t id,
  lookup s t = Some id -> exists h, get_handle s id = Some h /\ h_tuple h = t.
Proof. exact lookup_sound. Qed.
Print Assumptions C20_tuple_identity.

Theorem C20_label_equality_exact : forall a b, tuple_eqb a b = true <-> a = b.
Proof. exact tuple_eqb_eq. Qed.
Print Assumptions C20_label_equality_exact.

(* ---------------------------------------------------------------- all interleavings, repaired machine *)
(* distinct live series carry distinct tuples (one tuple never has two series, two tuples never share one) *)
Theorem C20_conc_series_distinct : forall c progs sched,
  c_variant c = Repaired ->
  let x := run_sched c (sys0 progs) sched in
  forall k1 id1 k2 id2 h1 h2, In (k1, id1) (smap (sh x)) -> In (k2, id2) (smap (sh x)) ->
    get_handle (sh x) id1 = Some h1 -> get_handle (sh x) id2 = Some h2 ->
    h_tuple h1 = h_tuple h2 -> id1 = id2.
Proof. exact conc_series_distinct. Qed.
Print Assumptions C20_conc_series_distinct.

(* no published handle is ever orphaned: at every point of every schedule each series handle that was ever
   handed out is either reachable from the series map (snapshots see it) or was removed by an
   UnregisterSeries (emissions through it are stale-handle emissions) *)
Theorem C20_conc_no_orphan : forall c progs sched,
  c_variant c = Repaired ->
  let x := run_sched c (sys0 progs) sched in
  forall id, (id < length (hs (sh x)))%nat -> orphan (sh x) id = false.
Proof. exact conc_no_orphan. Qed.
Print Assumptions C20_conc_no_orphan.

(* the cap is never exceeded, not even transiently; seriesCount never under-counts, and is exact at quiescence *)
Theorem C20_conc_cap : forall c progs sched,
  c_variant c = Repaired ->
  let x := run_sched c (sys0 progs) sched in
  (0 < c_cap c -> Z.of_nat (length (snapshot (sh x))) <= c_cap c) /\
  Z.of_nat (length (smap (sh x))) <= cnt (sh x) /\
  (quiescent x = true -> cnt (sh x) = Z.of_nat (length (smap (sh x)))).
Proof. exact conc_cap. Qed.
Print Assumptions C20_conc_cap.

(* ---------------------------------------------------------------- all interleavings, BOTH variants *)
(* conservation: at quiescence, (sum over every series ever published) + cardinality_drops + unknown_series_emits
   + stale_handle_emits (+ the ghost no-op weight, 0 unless a client emits through a handle it never obtained)
   equals the sum of the emitted weights, modulo 2^64 (uint64 counters).  Counters: weight = delta, series scalar
   = value.  Histograms: weight = 1, series scalar = count.  (Gauges have no scalar that counts emissions.)
   Together with C20_conc_no_orphan the first summand is exactly: live series (the snapshot) + unregistered series. *)
Theorem C20_conc_conservation : forall c progs sched,
  c_kind c <> KGauge ->
  let x := run_sched c (sys0 progs) sched in
  quiescent x = true ->
  total (c_kind c) (sh x) mod M64 = progs_weight (c_kind c) progs mod M64.
Proof. exact conc_conservation. Qed.
Print Assumptions C20_conc_conservation.

(* non-blocking: whatever the shared state (i.e. whatever other emitters, snapshots, subscribers or the tick
   did in between) every step of an unfinished client is enabled and strictly decreases a bound that depends
   on the client alone: each operation is wait-free, at most 7 atomic steps *)
Theorem C20_emit_nonblocking : forall c s th,
  finished th = false -> (budget (snd (tstep c s th)) < budget th)%nat.
Proof. exact tstep_progress. Qed.
Print Assumptions C20_emit_nonblocking.

Theorem C20_seq_never_out_of_fuel : forall c s slots o, exists r, snd (seq_op c s slots o) = Some r.
Proof. exact seq_op_completes. Qed.
Print Assumptions C20_seq_never_out_of_fuel.

(* the tick never blocks on a subscriber, even one that never reads: publishing n samples terminates with the
   channel within capacity and every sample either delivered or counted in the subscription's drop counter *)
Theorem C20_tick_never_blocks : forall n b, sb_unsub b = false -> (sb_len b <= sb_cap b)%nat ->
  let b' := sub_publish_n n b in
  sb_delivered b' + sb_dropped b' = sb_delivered b + sb_dropped b + Z.of_nat n /\ (sb_len b' <= sb_cap b')%nat.
Proof. exact sub_publish_n_account. Qed.
Print Assumptions C20_tick_never_blocks.

(* ---------------------------------------------------------------- historical witnesses: what the code violated before 36aca6a *)
Definition tA : tuple := [[65]]%N.
Definition tB : tuple := [[66]]%N.
Definition tC : tuple := [[67]]%N.
Definition tD : tuple := [[68]]%N.
Definition cfg_of (v : variant) (cap : Z) : cfg :=
  {| c_kind := KCounter; c_cap := cap; c_nlabels := 1; c_buckets := []; c_variant := v |}.
(* what a quiescent snapshot plus the internal drop metrics show *)
Definition visible (k : kind) (s : shared) : Z :=
  fold_right (fun tv a => measure k (snd tv) + a) 0 (snapshot s) + drops s + unknown s + stales s.

(* witness 1 (cap 1).  T0 and T1 create A and B concurrently, both pass the seriesCount check and publish;
   T2 resolves A and gets T0's published handle; T0 then sees count 2 > 1 and rolls back with Delete.
   T2's handle is now in no map and not stale: its Add(5) is visible nowhere. *)
Definition w1_progs : list (list op) :=
  [[OResolve tA]; [OResolve tB]; [OResolve tA; OEmitH 0 EAdd 5]].
Definition w1_sched : list nat := [0;0;0; 1;1;1; 0; 1; 2; 0;0;0; 1; 2;2]%nat.

Theorem C20_conc_no_orphan_refuted :
  let x := run_sched (cfg_of Defective 1) (sys0 w1_progs) w1_sched in
  quiescent x = true /\
  (exists th, nth_error (ths x) 2 = Some th /\ t_slots th = [RH 0]) /\   (* the client holds series handle 0 *)
  orphan (sh x) 0 = true /\                                              (* which is orphaned *)
  visible KCounter (sh x) = 0 /\ progs_weight KCounter w1_progs = 5.     (* 5 emitted, 0 accounted *)
Proof. vm_compute. repeat split; try reflexivity. eexists; split; reflexivity. Qed.
Print Assumptions C20_conc_no_orphan_refuted.

(* the same programs and schedule on the repaired machine: nothing is lost *)
Example C20_conc_no_orphan_nonvacuous :
  let x := run_sched (cfg_of Repaired 1) (sys0 w1_progs) (w1_sched ++ w1_sched) in
  quiescent x = true /\ length (hs (sh x)) = 1%nat /\ orphan (sh x) 0 = false /\
  visible KCounter (sh x) = 5 /\ Z.of_nat (length (snapshot (sh x))) = 1 /\ cnt (sh x) = 1.
Proof. vm_compute. repeat split; reflexivity. Qed.
Print Assumptions C20_conc_no_orphan_nonvacuous.

(* witness 2 (cap 2).  A and B exist; two UnregisterSeries(A) both Load the entry, both Delete, both decrement:
   seriesCount = 0 with one series left; C and D are then admitted: 3 series under a cap of 2. *)
Definition w2_progs : list (list op) :=
  [[OResolve tA; OResolve tB; OUnreg tA]; [OUnreg tA; OResolve tC; OResolve tD]].
Definition w2_sched : list nat := (repeat 0 10 ++ [0;1; 0;0;0; 1;1;1] ++ repeat 1 10)%nat.

Theorem C20_conc_cap_refuted :
  let x := run_sched (cfg_of Defective 2) (sys0 w2_progs) w2_sched in
  quiescent x = true /\ length (snapshot (sh x)) = 3%nat /\ cnt (sh x) = 2 /\
  (exists t0 t1, nth_error (ths x) 0 = Some t0 /\ nth_error (ths x) 1 = Some t1 /\
     hd_error (t_out t0) = Some (ResB true) /\ last (t_out t1) ResU = ResB true).   (* both unregisters said true *)
Proof. vm_compute. repeat split; try reflexivity. do 2 eexists; repeat split; reflexivity. Qed.
Print Assumptions C20_conc_cap_refuted.

Example C20_conc_cap_nonvacuous :
  let x := run_sched (cfg_of Repaired 2) (sys0 w2_progs) (w2_sched ++ repeat 1%nat 10) in
  quiescent x = true /\ length (snapshot (sh x)) = 2%nat /\ cnt (sh x) = 2 /\ drops (sh x) = 0 /\
  (exists t1, nth_error (ths x) 1 = Some t1 /\ last (t_out t1) ResU = ResB false /\ hd_error (t_out t1) = Some (ResH RTomb)).
Proof. vm_compute. repeat split; try reflexivity. eexists; repeat split; reflexivity. Qed.
Print Assumptions C20_conc_cap_nonvacuous.

(* conservation is not vacuous: a quiescent run with emissions landing in a series, in drops, in unknown and in stale *)
Example C20_conc_conservation_nonvacuous :
  let progs := [[OResolve tA; OEmitH 0 EAdd 3; OResolve tB; OEmitH 1 EAdd 4; OEmitT tC EAdd 5; OUnreg tA; OEmitH 0 EAdd 6]] in
  let x := run_sched (cfg_of Repaired 1) (sys0 progs) (repeat 0%nat 40) in
  quiescent x = true /\ total KCounter (sh x) = 18 /\ progs_weight KCounter progs = 18 /\
  drops (sh x) = 4 /\ unknown (sh x) = 5 /\ stales (sh x) = 6 /\ noop (sh x) = 0.
Proof. vm_compute. repeat split; reflexivity. Qed.
Print Assumptions C20_conc_conservation_nonvacuous.

(* ---------------------------------------------------------------- sequential histories (the model the
   sequential correspondence executes): for EVERY operation list of a single client *)
Theorem C20_seq_cap_and_reachability : forall c ops,
  c_variant c = Repaired ->
  let s := fst (seq_run c shared0 [] ops) in
  (0 < c_cap c -> Z.of_nat (length (snapshot s)) <= c_cap c) /\
  cnt s = Z.of_nat (length (smap s)) /\
  (forall id, (id < length (hs s))%nat -> orphan s id = false).
Proof. exact seq_props. Qed.
Print Assumptions C20_seq_cap_and_reachability.

(* Σ series + drops + unknown + stale = Σ emitted (mod 2^64), either variant *)
Theorem C20_seq_conservation : forall c ops,
  c_kind c <> KGauge ->
  total (c_kind c) (fst (seq_run c shared0 [] ops)) mod M64 = prog_weight (c_kind c) ops mod M64.
Proof. intros c ops Hk. rewrite (seq_run_cons c Hk ops shared0 []). reflexivity. Qed.
Print Assumptions C20_seq_conservation.

Example C20_seq_nonvacuous :
  let ops := [OResolve tA; OEmitH 0 EAdd 18446744073709551615; OEmitH 0 EAdd 2; OResolve tB; OEmitH 1 EAdd 4;
              OEmitT tC EAdd 5; OUnreg tA; OEmitH 0 EAdd 6; OResolve tB] in
  let s := fst (seq_run (cfg_of Repaired 1) shared0 [] ops) in
  length (snapshot s) = 1%nat /\ cnt s = 1 /\ drops s = 4 /\ unknown s = 5 /\ stales s = 6 /\
  total KCounter s = 16 /\ prog_weight KCounter ops = 18446744073709551632 /\
  fst (seq_run (cfg_of Defective 1) shared0 [] ops) = s.
Proof. vm_compute. repeat split; reflexivity. Qed.
Print Assumptions C20_seq_nonvacuous.

(* ---------------------------------------------------------------- metric registration (registry.go) *)
(* for EVERY interleaving of any number of Register{Counter,Gauge,Histogram} calls (either variant): all registrants
   of one name that are told "ok" obtain the SAME metric object; it is the object the registry maps the name to (the one
   AppendSnapshot / the tick walk), and it has the metric type and label schema each of them asked for.  Hence every
   handle any goroutine obtains belongs to the one object snapshots see, and the conservation theorems above extend
   over registration. *)
Theorem C20_reg_unique : forall v os sched,
  let x := rrun_sched v (rsys0 os) sched in
  forall i j ti tj a b,
    nth_error (rths x) i = Some ti -> nth_error (rths x) j = Some tj ->
    ro_name (rt_opts ti) = ro_name (rt_opts tj) ->
    rt_pc ti = RPDone (RROk a) -> rt_pc tj = RPDone (RROk b) ->
    a = b /\ map_load (rmap (rsh x)) (ro_name (rt_opts ti)) = Some a /\
    exists o, nth_error (robjs (rsh x)) a = Some o /\ rb_kind o = ro_kind (rt_opts ti) /\ rb_nl o = ro_nl (rt_opts ti).
Proof. exact reg_unique. Qed.
Print Assumptions C20_reg_unique.

(* /repo HEAD (efcd108): no interleaving of registrations panics *)
Theorem C20_reg_no_panic : forall os sched,
  let x := rrun_sched Repaired (rsys0 os) sched in
  forall i th, nth_error (rths x) i = Some th -> rt_pc th <> RPDone RRPanic.
Proof. exact reg_no_panic. Qed.
Print Assumptions C20_reg_no_panic.

(* the code before efcd108 (fixed in efcd108): RegisterCounter and RegisterGauge racing for one name; both miss the Load, the counter is published,
   the gauge's LoadOrStore finds it and the unchecked type assertion panics *)
Definition w3_opts : list ropts :=
  [{| ro_name := 97%N; ro_kind := KCounter; ro_nl := [0%nat] |}; {| ro_name := 97%N; ro_kind := KGauge; ro_nl := [0%nat] |}].
Theorem C20_reg_no_panic_refuted :
  let x := rrun_sched Defective (rsys0 w3_opts) [0;1;0;1]%nat in
  rdone_all x = true /\ map rt_pc (rths x) = [RPDone (RROk 0); RPDone RRPanic].
Proof. vm_compute. split; reflexivity. Qed.
Print Assumptions C20_reg_no_panic_refuted.

Example C20_reg_nonvacuous :
  let os := [{| ro_name := 97%N; ro_kind := KCounter; ro_nl := [0%nat] |}; {| ro_name := 97%N; ro_kind := KCounter; ro_nl := [0%nat] |};
             {| ro_name := 97%N; ro_kind := KGauge; ro_nl := [0%nat] |}; {| ro_name := 98%N; ro_kind := KCounter; ro_nl := [0%nat; 1%nat] |}] in
  let x := rrun_sched Repaired (rsys0 os) [0;1;2;3;1;0;2;3]%nat in
  rdone_all x = true /\
  map rt_pc (rths x) = [RPDone (RROk 0); RPDone (RROk 0); RPDone RRErrType; RPDone (RROk 1)] /\
  rerrs (rsh x) = 1.
Proof. vm_compute. repeat split; reflexivity. Qed.
Print Assumptions C20_reg_nonvacuous.

(* ---------------------------------------------------------------- a removed handle is the one marked stale *)
Theorem C20_conc_removed_is_stale : forall c progs sched,
  c_variant c = Repaired ->
  let x := run_sched c (sys0 progs) sched in
  quiescent x = true ->
  forall id h, get_handle (sh x) id = Some h -> in_map (sh x) id = true \/ h_stale h = true.
Proof. exact conc_removed_is_stale. Qed.
Print Assumptions C20_conc_removed_is_stale.

(* UnregisterSeries with LoadAndDelete instead of CompareAndDelete (seeded change C20_n2): U1 (thread 0) loads e1 and
   pauses; U2 (thread 1) unregisters e1; the creator (thread 2) re-resolves the tuple and gets e2; U1 resumes and removes
   e2 but marks e1 stale.  seriesCount stays exact, both unregisters report true, and the creator holds a handle that is in
   no map and not stale: its emission is visible nowhere. *)
Definition w4_progs : list (list op) := [[OResolve tA; OUnreg tA]; [OUnreg tA]; [OResolve tA; OEmitH 0 EAdd 1]].
Definition w4_sched : list nat := [0;0;0;0; 0; 1;1;1;1; 2;2;2;2; 0;0;0; 2;2]%nat.
Theorem C20_conc_removed_is_stale_refuted :
  let x := run_sched (cfg_of LoadAndDel 2) (sys0 w4_progs) w4_sched in
  quiescent x = true /\
  (exists th, nth_error (ths x) 2 = Some th /\ t_slots th = [RH 1]) /\
  in_map (sh x) 1 = false /\ option_map h_stale (get_handle (sh x) 1) = Some false /\
  cnt (sh x) = Z.of_nat (length (smap (sh x))) /\
  visible KCounter (sh x) = 0 /\ progs_weight KCounter w4_progs = 1.
Proof. vm_compute. repeat split; try reflexivity. eexists; split; reflexivity. Qed.
Print Assumptions C20_conc_removed_is_stale_refuted.

Example C20_conc_removed_is_stale_nonvacuous :
  let x := run_sched (cfg_of Repaired 2) (sys0 w4_progs) w4_sched in
  quiescent x = true /\ in_map (sh x) 1 = true /\ option_map h_stale (get_handle (sh x) 0) = Some true /\
  visible KCounter (sh x) = 1 /\
  (exists th, nth_error (ths x) 0 = Some th /\ hd_error (t_out th) = Some (ResB false)).
Proof. vm_compute. repeat split; try reflexivity. eexists; split; reflexivity. Qed.
Print Assumptions C20_conc_removed_is_stale_nonvacuous.

(* ---------------------------------------------------------------- per-series conservation in observable form *)
(* [shown k s t]      = value AppendSnapshot shows for the series of tuple t (what WithLabelValues(t) resolves to), 0 if none;
   [retired_of k s t] = final values of t's series removed by UnregisterSeries (readable through the handles still held);
   [emitted_to c progs t] = weight of the emissions the client programs direct at t (by tuple, or through the handle of
                        their k-th WithLabelValues call) — a static function of the programs;
   [attributed x t]   = t's share of the three drop metrics (tallied client-side; a ghost).
   Hypotheses: repaired variant (= /repo HEAD), counter or histogram, well-formed programs (no emit through a handle never
   obtained, no wrong arity), quiescence.  The ghost [noop] is 0. *)
Theorem C20_conc_per_tuple_conservation : forall c progs sched,
  c_kind c <> KGauge -> c_variant c = Repaired -> wf_progs c progs = true ->
  let x := run_sched c (sys0 progs) sched in
  quiescent x = true ->
  (forall t, (shown (c_kind c) (sh x) t + retired_of (c_kind c) (sh x) t + attributed x t) mod M64
             = emitted_to c progs t mod M64) /\
  (drops (sh x) + unknown (sh x) + stales (sh x)) mod M64 = attributed_all x mod M64 /\
  noop (sh x) = 0.
Proof. exact conc_per_tuple. Qed.
Print Assumptions C20_conc_per_tuple_conservation.

(* Ghost-free: if the three internal drop metrics read 0 at quiescence (and less than 2^64 was emitted, so nothing wrapped),
   then for EVERY tuple the snapshot value plus the final values of its unregistered series is what was emitted to it. *)
Theorem C20_conc_series_exact : forall c progs sched,
  c_kind c <> KGauge -> c_variant c = Repaired -> wf_progs c progs = true ->
  nonneg_progs (c_kind c) progs -> progs_weight (c_kind c) progs < M64 ->
  let x := run_sched c (sys0 progs) sched in
  quiescent x = true ->
  drops (sh x) = 0 -> unknown (sh x) = 0 -> stales (sh x) = 0 ->
  forall t, (shown (c_kind c) (sh x) t + retired_of (c_kind c) (sh x) t) mod M64 = emitted_to c progs t mod M64.
Proof. exact conc_series_exact. Qed.
Print Assumptions C20_conc_series_exact.

Lemma nonneg_w1 : nonneg_progs KCounter w1_progs.
Proof. repeat constructor; simpl; lia. Qed.
Print Assumptions nonneg_w1.
Lemma nonneg_w4 : nonneg_progs KCounter w4_progs.
Proof. repeat constructor; simpl; lia. Qed.
Print Assumptions nonneg_w4.

(* the same statement is FALSE of the two defective machines: every hypothesis holds, the conclusion fails *)
Theorem C20_conc_series_exact_refuted :
  (let c := cfg_of Defective 1 in let x := run_sched c (sys0 w1_progs) w1_sched in
   wf_progs c w1_progs = true /\ progs_weight KCounter w1_progs < M64 /\ quiescent x = true /\
   drops (sh x) = 0 /\ unknown (sh x) = 0 /\ stales (sh x) = 0 /\
   (shown KCounter (sh x) tA + retired_of KCounter (sh x) tA) mod M64 = 0 /\ emitted_to c w1_progs tA mod M64 = 5) /\
  (let c := cfg_of LoadAndDel 2 in let x := run_sched c (sys0 w4_progs) w4_sched in
   wf_progs c w4_progs = true /\ progs_weight KCounter w4_progs < M64 /\ quiescent x = true /\
   drops (sh x) = 0 /\ unknown (sh x) = 0 /\ stales (sh x) = 0 /\
   (shown KCounter (sh x) tA + retired_of KCounter (sh x) tA) mod M64 = 0 /\ emitted_to c w4_progs tA mod M64 = 1).
Proof. vm_compute. repeat split; reflexivity. Qed.
Print Assumptions C20_conc_series_exact_refuted.

Example C20_conc_series_exact_nonvacuous :
  let c := cfg_of Repaired 1 in let x := run_sched c (sys0 w1_progs) (w1_sched ++ w1_sched) in
  wf_progs c w1_progs = true /\ quiescent x = true /\ drops (sh x) = 0 /\ unknown (sh x) = 0 /\ stales (sh x) = 0 /\
  shown KCounter (sh x) tA = 5 /\ emitted_to c w1_progs tA = 5 /\ shown KCounter (sh x) tB = 0 /\ emitted_to c w1_progs tB = 0 /\
  In (tA, {| v_main := 5; v_cnt := 0; v_bk := [0] |}) (snapshot (sh x)).
Proof. vm_compute. repeat split; try reflexivity. left; reflexivity. Qed.
Print Assumptions C20_conc_series_exact_nonvacuous.

(* [shown] is what the snapshot contains *)
Theorem C20_shown_is_snapshot_entry : forall k s t id h,
  lookup s t = Some id -> get_handle s id = Some h -> In (t, h_val h) (snapshot s) /\ shown k s t = measure k (h_val h).
Proof. exact shown_in_snapshot. Qed.
Print Assumptions C20_shown_is_snapshot_entry.

(* ---------------------------------------------------------------- subscribers, tick and snapshots as threads *)
(* The extended machine [xrun]: the metric clients above (each landed emission followed by the three atomic steps of
   markDirty) interleaved with any number of threads that Subscribe, Unsubscribe, run publishTick, AppendSnapshot or drain
   a subscription.  A schedule element is (true, i) = client i or (false, j) = auxiliary thread j. *)

(* seen from the metric, any extended schedule is a schedule of the metric machine: every theorem above that is stated
   "for all schedules" therefore holds with arbitrary concurrent subscribe / unsubscribe / tick / snapshot activity *)
Theorem C20_x_projects : forall c mode progs aprogs xsched,
  exists sched, metric_of (xrun c mode (xsys0 progs aprogs) xsched) = run_sched c (sys0 progs) sched.
Proof. intros. destruct (xrun_projects c mode xsched (xsys0 progs aprogs)) as [s H]. exists s. rewrite H, metric_of_xsys0. reflexivity. Qed.
Print Assumptions C20_x_projects.

(* instance: per-series conservation and the cap with subscribers, ticks and snapshots running concurrently *)
Theorem C20_x_per_tuple_conservation : forall c mode progs aprogs xsched,
  c_kind c <> KGauge -> c_variant c = Repaired -> wf_progs c progs = true ->
  let x := metric_of (xrun c mode (xsys0 progs aprogs) xsched) in
  xclients_done (xrun c mode (xsys0 progs aprogs) xsched) = true ->
  (forall t, (shown (c_kind c) (sh x) t + retired_of (c_kind c) (sh x) t + attributed x t) mod M64
             = emitted_to c progs t mod M64) /\
  (drops (sh x) + unknown (sh x) + stales (sh x)) mod M64 = attributed_all x mod M64 /\
  (c_cap c > 0 -> Z.of_nat (length (snapshot (sh x))) <= c_cap c).
Proof. exact x_per_tuple. Qed.
Print Assumptions C20_x_per_tuple_conservation.

(* WHAT CAN BLOCK.  With the select/default send of the code an auxiliary step is disabled only when it is tickMu.Lock() and the
   mutex is held — never because of a full channel, a subscriber that does not read, an emitter, or the metric state. *)
Theorem C20_x_aux_blocked_only_on_tickmu : forall s ss a,
  xstep_aux SelectDefault s ss a = None -> ss_mu ss = true /\ (a_pc a = SSub2 \/ a_pc a = SUn4).
Proof. exact aux_blocked_only_on_tickmu. Qed.
Print Assumptions C20_x_aux_blocked_only_on_tickmu.

(* a client (emitter) step is disabled only inside tombstoneOnce.Do while ANOTHER CLIENT runs the initialiser — never because
   of a subscriber, a channel, a tick, a snapshot or tickMu (clients take no mutex) *)
Theorem C20_x_client_blocked_only_on_once : forall c s ss cl,
  xstep_client c s ss cl = None -> snd cl = O1 /\ ss_once ss = 1%nat.
Proof. exact client_blocked_only_on_once. Qed.
Print Assumptions C20_x_client_blocked_only_on_once.

(* and neither wait is unbounded, for every extended schedule: whenever tickMu is held its holder is a thread inside the critical
   section whose next step is enabled (whatever the send mode) and which releases the mutex after at most two own steps;
   whenever the Once initialiser is running, the client running it is enabled and completes it with its next step *)
Theorem C20_x_tickmu_holder_enabled : forall c mode progs aprogs sched,
  let x := xrun c mode (xsys0 progs aprogs) sched in
  ss_mu (x_ss x) = true ->
  exists j a, nth_error (x_aux x) j = Some a /\ crit a = 1 /\
    (forall md, exists ss' a', xstep_aux md (x_sh x) (x_ss x) a = Some (ss', a') /\
                               (ss_mu ss' = false \/ (crit a' = 1 /\ forall s2 ss2 md2, ss_mu ss2 = true ->
                                  exists ss3 a3, xstep_aux md2 s2 ss2 a' = Some (ss3, a3) /\ ss_mu ss3 = false))).
Proof. exact mu_holder_enabled. Qed.
Print Assumptions C20_x_tickmu_holder_enabled.

Theorem C20_x_once_runner_enabled : forall c mode progs aprogs sched,
  let x := xrun c mode (xsys0 progs aprogs) sched in
  ss_once (x_ss x) = 1%nat ->
  exists i cl, nth_error (x_cl x) i = Some cl /\ snd cl = O2 /\
    exists s' ss' cl', xstep_client c (x_sh x) (x_ss x) cl = Some (s', ss', cl') /\ ss_once ss' = 2%nat.
Proof. exact once_runner_enabled. Qed.
Print Assumptions C20_x_once_runner_enabled.

(* emitters are independent of the subscribers: enabledness and effect of a client step depend on the subscription side only
   through subscriberCount, the dirty flag and the tombstone Once; it writes only the latter two (not the channels, tickMu,
   tickRunning).  Conversely an auxiliary step cannot modify the metric state: [xstep_aux] returns no [shared]. *)
Theorem C20_x_emitters_ignore_channels : forall c s ss1 ss2 cl,
  ss_nsubs ss1 = ss_nsubs ss2 -> ss_dirty ss1 = ss_dirty ss2 -> ss_once ss1 = ss_once ss2 ->
  match xstep_client c s ss1 cl, xstep_client c s ss2 cl with
  | Some (s1, ss1', cl1), Some (s2, ss2', cl2) =>
      s1 = s2 /\ cl1 = cl2 /\ ss_dirty ss1' = ss_dirty ss2' /\ ss_once ss1' = ss_once ss2' /\
      ss_subs ss1' = ss_subs ss1 /\ ss_nsubs ss1' = ss_nsubs ss1 /\ ss_mu ss1' = ss_mu ss1 /\ ss_running ss1' = ss_running ss1
  | None, None => True
  | _, _ => False
  end.
Proof. exact client_ignores_channels. Qed.
Print Assumptions C20_x_emitters_ignore_channels.

(* model-level bound (Observe / gauge Add are one step in the model, CAS loops in Go): every enabled own step of a client
   strictly decreases a bound depending on the client alone *)
Theorem C20_x_emitter_bounded : forall c s ss cl s' ss' cl',
  (finished (fst cl) && match snd cl with MNone => true | _ => false end) = false ->
  xstep_client c s ss cl = Some (s', ss', cl') -> (xbudget cl' < xbudget cl)%nat.
Proof. exact client_progress. Qed.
Print Assumptions C20_x_emitter_bounded.

(* with a blocking channel send instead of select/default the tick IS blocked for good by a subscriber that never reads —
   and even then the emitter finishes: one client (resolve, two emissions), one thread (Subscribe(1); tick; tick) *)
Definition w5_progs : list (list op) := [[OResolve tA; OEmitH 0 EAdd 1; OEmitH 0 EAdd 1]].
Definition w5_aux : list (list sop) := [[SSubscribe 1 256; STick; STick]].
Definition w5_sched : list (bool * nat) :=
  repeat (false, 0%nat) 5 ++ repeat (true, 0%nat) 9 ++ repeat (false, 0%nat) 6 ++ repeat (true, 0%nat) 5 ++ repeat (false, 0%nat) 10.
Theorem C20_x_channel_send_refuted :
  let x := xrun (cfg_of Repaired 2) BlockingSend (xsys0 w5_progs w5_aux) w5_sched in
  xclients_done x = true /\ ss_mu (x_ss x) = false /\
  match nth_error (x_aux x) 0 with
  | Some a => afinished a = false /\ xstep_aux BlockingSend (x_sh x) (x_ss x) a = None
  | None => False
  end.
Proof. vm_compute. repeat split; reflexivity. Qed.
Print Assumptions C20_x_channel_send_refuted.

(* the same run with the code's select/default: the tick completes, the second update is counted as dropped,
   the first is in the channel, the snapshot value is 2 *)
Example C20_x_nonvacuous :
  let x := xrun (cfg_of Repaired 2) SelectDefault (xsys0 w5_progs w5_aux) w5_sched in
  xclients_done x = true /\ forallb afinished (x_aux x) = true /\
  map (fun b => (sb_len b, sb_dropped b)) (ss_subs (x_ss x)) = [(1%nat, 1)] /\
  shown KCounter (x_sh x) tA = 2 /\ ss_dirty (x_ss x) = false /\ ss_nsubs (x_ss x) = 1 /\ ss_running (x_ss x) = true.
Proof. vm_compute. repeat split; reflexivity. Qed.
Print Assumptions C20_x_nonvacuous.

(* the two real waits do occur: (a) two Subscribe calls — the second waits at tickMu.Lock() while the first is in the critical
   section, and goes on once it has left; (b) two clients handed the tombstone — the second waits in Once.Do while the first
   runs the initialiser *)
Definition is_none {A} (o : option A) : bool := match o with None => true | Some _ => false end.
Example C20_x_waits_nonvacuous :
  (let x := xrun (cfg_of Repaired 2) SelectDefault (xsys0 [] [[SSubscribe 1 256]; [SSubscribe 1 256]]) [(false,0);(false,0);(false,0);(false,1);(false,1)]%nat in
   match nth_error (x_aux x) 1 with Some a => is_none (xstep_aux SelectDefault (x_sh x) (x_ss x) a) = true | None => False end /\
   let y := xrun (cfg_of Repaired 2) SelectDefault x [(false,0);(false,0)]%nat in
   match nth_error (x_aux y) 1 with Some a => is_none (xstep_aux SelectDefault (x_sh y) (x_ss y) a) = false | None => False end) /\
  (let c := cfg_of Repaired 1 in
   let x := xrun c SelectDefault (xsys0 [[OResolve tA]; [OResolve tB]; [OResolve tC]] [])
              (repeat (true,0%nat) 4 ++ repeat (true,1%nat) 2 ++ repeat (true,2%nat) 2 ++ [(true,1%nat)]) in
   match nth_error (x_cl x) 2 with
   | Some cl => snd cl = O1 /\ is_none (xstep_client c (x_sh x) (x_ss x) cl) = true
   | None => False
   end).
Proof. vm_compute. repeat split; reflexivity. Qed.
Print Assumptions C20_x_waits_nonvacuous.

(* ---------------------------------------------------------------- gauges *)
(* A gauge value does not count emissions, so the conservation theorems exclude gauges.  What holds for gauges, for EVERY
   schedule of either variant: each gauge series is an atomic register — its value is the left fold, from 0, of the Set / Add
   operations that landed in it, in the order of their landing steps ([ltrace] lists the landings of the run in order). *)
Theorem C20_gauge_register : forall c progs sched id,
  c_kind c = KGauge ->
  gval (sh (run_sched c (sys0 progs) sched)) id = fold_left gapply (on_id id (ltrace c (sys0 progs) sched)) 0.
Proof. exact gauge_register. Qed.
Print Assumptions C20_gauge_register.

(* last writer wins among concurrent Sets: the value is the last landed Set plus the sum of the Adds landed after it *)
Theorem C20_gauge_last_writer : forall l1 d l2 v0,
  Forall (fun e => fst e = EAdd) l2 ->
  fold_left gapply (l1 ++ (ESet, d) :: l2) v0 = d + fold_right (fun e a => snd e + a) 0 l2.
Proof. exact gauge_last_set. Qed.
Print Assumptions C20_gauge_last_writer.

(* Add/Sub conservation: a series in which only Adds landed holds exactly their sum (no lost update) *)
Theorem C20_gauge_add_conservation : forall l,
  Forall (fun e => fst e = EAdd) l -> fold_left gapply l 0 = fold_right (fun e a => snd e + a) 0 l.
Proof. exact gauge_adds. Qed.
Print Assumptions C20_gauge_add_conservation.

Example C20_gauge_nonvacuous :
  let c := {| c_kind := KGauge; c_cap := 2; c_nlabels := 1; c_buckets := []; c_variant := Repaired |} in
  let progs := [[OResolve tA; OEmitH 0 EAdd 1; OEmitH 0 EAdd 2]; [OResolve tA; OEmitH 0 ESet 10]; [OResolve tA; OEmitH 0 EAdd 4]] in
  let sched := (repeat 0 6 ++ repeat 1 6 ++ repeat 2 6 ++ repeat 0 4)%nat in
  let x := run_sched c (sys0 progs) sched in
  quiescent x = true /\ on_id 0 (ltrace c (sys0 progs) sched) = [(EAdd, 1); (ESet, 10); (EAdd, 4); (EAdd, 2)] /\ gval (sh x) 0 = 16.
Proof. vm_compute. repeat split; reflexivity. Qed.
Print Assumptions C20_gauge_nonvacuous.

(* ---------------------------------------------------------------- non-vacuity of the remaining implications *)
Example C20_conc_series_distinct_nonvacuous :
  let x := run_sched (cfg_of Repaired 2) (sys0 [[OResolve tA]; [OResolve tB]; [OResolve tA]]) (repeat 0 5 ++ repeat 1 5 ++ repeat 2 5)%nat in
  length (smap (sh x)) = 2%nat /\ option_map h_tuple (get_handle (sh x) 0) = Some tA /\ option_map h_tuple (get_handle (sh x) 1) = Some tB.
Proof. vm_compute. repeat split; reflexivity. Qed.
Print Assumptions C20_conc_series_distinct_nonvacuous.

Example C20_emit_nonblocking_nonvacuous :
  let th := thread0 [OResolve tA; OEmitH 0 EAdd 1] in
  finished th = false /\ budget th = 14%nat /\ budget (snd (tstep (cfg_of Repaired 1) shared0 th)) = 13%nat.
Proof. vm_compute. repeat split; reflexivity. Qed.
Print Assumptions C20_emit_nonblocking_nonvacuous.

Example C20_tick_never_blocks_nonvacuous :
  let b := sub_publish_n 3 (sub_new 256 1) in sb_len b = 1%nat /\ sb_dropped b = 2 /\ sb_unsub (sub_new 256 1) = false.
Proof. vm_compute. repeat split; reflexivity. Qed.
Print Assumptions C20_tick_never_blocks_nonvacuous.

(* tuple identity on EVERY path of WithLabelValues (fast path Load, own LoadOrStore, somebody else's entry found by
   LoadOrStore): the k-th handle a client holds carries the tuple of its k-th (arity-correct) WithLabelValues call
   ([t_asked] is the client's own list of the tuples it asked for, appended when the call starts) *)
Theorem C20_conc_handle_tuple : forall c progs sched,
  c_variant c = Repaired -> wf_progs c progs = true ->
  let x := run_sched c (sys0 progs) sched in
  forall i th k id, nth_error (ths x) i = Some th -> nth_error (t_slots th) k = Some (RH id) ->
  exists h, get_handle (sh x) id = Some h /\ nth_error (t_asked th) k = Some (h_tuple h).
Proof. exact conc_handle_tuple. Qed.
Print Assumptions C20_conc_handle_tuple.

(* ---------------------------------------------------------------- default configuration *)
(* A metric registered WITHOUT an explicit MaxSeriesPerMetric (zero value) is capped at the implementation's default
   (DefaultMaxSeriesPerMetric, 10000 at /repo HEAD; any positive value is admissible, the `bulk` cases read the constant):
   for every schedule, at every point, it never has more series than that default.  (The machine takes [eff_cap raw] as its cap;
   the `bulk` correspondence cases register all three metric kinds with cap 0 and drive them past 10000 tuples.) *)
Theorem C20_default_cap : forall dflt k nl bs progs sched,
  0 < dflt ->
  let c := {| c_kind := k; c_cap := eff_cap_with dflt 0; c_nlabels := nl; c_buckets := bs; c_variant := Repaired |} in
  Z.of_nat (length (snapshot (sh (run_sched c (sys0 progs) sched)))) <= dflt.
Proof.
  intros dflt k nl bs progs sched Hd c. destruct (conc_cap c progs sched eq_refl) as [H _]. apply H. exact Hd.
Qed.
Print Assumptions C20_default_cap.

Theorem C20_eff_cap_spec : forall raw, eff_cap raw = (if raw =? 0 then 10000 else raw) /\ (raw <> 0 -> eff_cap raw = raw).
Proof. intros raw. unfold eff_cap, eff_cap_with, default_cap. split; [reflexivity|]. intros H. destruct (Z.eqb_spec raw 0); [contradiction | reflexivity]. Qed.
Print Assumptions C20_eff_cap_spec.

(* ---------------------------------------------------------------- ghost-free aggregate over what the snapshot reports *)
(* [snap_sum] = sum of the series values AppendSnapshot returns; drops/unknown/stales = the three internal metric samples it
   returns; [retired_all] = final values of the series removed by UnregisterSeries (readable only through handles still held).
   No ghost state in the statement. *)
Theorem C20_conc_visible_conservation : forall c progs sched,
  c_kind c <> KGauge -> c_variant c = Repaired -> wf_progs c progs = true ->
  let x := run_sched c (sys0 progs) sched in
  quiescent x = true ->
  (snap_sum (c_kind c) (sh x) + drops (sh x) + unknown (sh x) + stales (sh x) + retired_all (c_kind c) (sh x)) mod M64
    = progs_weight (c_kind c) progs mod M64.
Proof. exact conc_visible_conservation. Qed.
Print Assumptions C20_conc_visible_conservation.

Theorem C20_conc_visible_conservation_refuted :
  (let c := cfg_of Defective 1 in let x := run_sched c (sys0 w1_progs) w1_sched in
   wf_progs c w1_progs = true /\ quiescent x = true /\
   (snap_sum KCounter (sh x) + drops (sh x) + unknown (sh x) + stales (sh x) + retired_all KCounter (sh x)) mod M64 = 0 /\
   progs_weight KCounter w1_progs mod M64 = 5) /\
  (let c := cfg_of LoadAndDel 2 in let x := run_sched c (sys0 w4_progs) w4_sched in
   wf_progs c w4_progs = true /\ quiescent x = true /\
   (snap_sum KCounter (sh x) + drops (sh x) + unknown (sh x) + stales (sh x) + retired_all KCounter (sh x)) mod M64 = 0 /\
   progs_weight KCounter w4_progs mod M64 = 1).
Proof. vm_compute. repeat split; reflexivity. Qed.
Print Assumptions C20_conc_visible_conservation_refuted.

(* ---------------------------------------------------------------- gauges: Add/Sub conservation per tuple *)
(* [vemitted_to c progs t] = sum of the deltas the programs direct at t (static); [vattributed x t] = sum of the deltas directed
   at t that did not land in a series (client-side tally, a ghost); [nonlanded x] = number of such emissions.  EXACT equalities
   in Z (a gauge does not wrap).  Set is excluded ([add_only]): it overwrites, see C20_gauge_last_writer. *)
Theorem C20_gauge_per_tuple_conservation : forall c progs sched,
  c_kind c = KGauge -> c_variant c = Repaired -> wf_progs c progs = true -> add_only progs ->
  let x := run_sched c (sys0 progs) sched in
  quiescent x = true ->
  (forall t, shown KGauge (sh x) t + retired_of KGauge (sh x) t + vattributed x t = vemitted_to c progs t) /\
  (drops (sh x) + unknown (sh x) + stales (sh x)) mod M64 = nonlanded x mod M64 /\
  noop (sh x) = 0.
Proof. exact gauge_per_tuple. Qed.
Print Assumptions C20_gauge_per_tuple_conservation.

(* ghost-free: the three drop metrics read 0 (fewer than 2^64 emissions) => every Add landed; per tuple, snapshot value +
   unregistered series = sum of the deltas *)
Theorem C20_gauge_series_exact : forall c progs sched,
  c_kind c = KGauge -> c_variant c = Repaired -> wf_progs c progs = true -> add_only progs ->
  progs_weight KGauge progs < M64 ->
  let x := run_sched c (sys0 progs) sched in
  quiescent x = true -> drops (sh x) = 0 -> unknown (sh x) = 0 -> stales (sh x) = 0 ->
  forall t, shown KGauge (sh x) t + retired_of KGauge (sh x) t = vemitted_to c progs t.
Proof. exact gauge_series_exact. Qed.
Print Assumptions C20_gauge_series_exact.

Definition gcfg (v : variant) (cap : Z) : cfg := {| c_kind := KGauge; c_cap := cap; c_nlabels := 1; c_buckets := []; c_variant := v |}.
Definition w6_progs : list (list op) :=
  [[OResolve tA; OEmitH 0 EAdd 3; OResolve tB; OEmitH 1 EAdd 4; OEmitT tC EAdd 5; OUnreg tA; OEmitH 0 EAdd (-6); OEmitT tB EAdd 9]].
Lemma add_only_w6 : add_only w6_progs.
Proof. repeat constructor. Qed.
Print Assumptions add_only_w6.
Example C20_gauge_per_tuple_nonvacuous :
  let c := gcfg Repaired 1 in let x := run_sched c (sys0 w6_progs) (repeat 0%nat 60) in
  wf_progs c w6_progs = true /\ quiescent x = true /\
  (shown KGauge (sh x) tA, retired_of KGauge (sh x) tA, vattributed x tA, vemitted_to c w6_progs tA) = (0, 3, -6, -3) /\
  (vattributed x tB, vemitted_to c w6_progs tB, vattributed x tC) = (13, 13, 5) /\
  (drops (sh x), unknown (sh x), stales (sh x), nonlanded x) = (1, 2, 1, 4).
Proof. vm_compute. repeat split; reflexivity. Qed.
Print Assumptions C20_gauge_per_tuple_nonvacuous.

(* the pre-36aca6a machine violates the gauge statement too (w1 with a gauge: the Add(5) through the orphaned handle) *)
Theorem C20_gauge_series_exact_refuted :
  let c := gcfg Defective 1 in let x := run_sched c (sys0 w1_progs) w1_sched in
  wf_progs c w1_progs = true /\ quiescent x = true /\ drops (sh x) = 0 /\ unknown (sh x) = 0 /\ stales (sh x) = 0 /\
  shown KGauge (sh x) tA + retired_of KGauge (sh x) tA = 0 /\ vemitted_to c w1_progs tA = 5.
Proof. vm_compute. repeat split; reflexivity. Qed.
Print Assumptions C20_gauge_series_exact_refuted.

(* ---------------------------------------------------------------- label schema is positional *)
(* a second registrant whose label-name list differs from the registered one in ANY way (permutation, subset, superset,
   duplicate) never obtains the metric: for every interleaving, a registrant told "ok" holds an object whose label list is
   exactly its own (conclusion of C20_reg_unique); the comparison is list equality *)
Theorem C20_schema_positional : forall a b, schema_eqb a b = true <-> a = b.
Proof. exact schema_eqb_eq. Qed.
Print Assumptions C20_schema_positional.

Example C20_schema_nonvacuous :
  let o l := {| ro_name := 97%N; ro_kind := KCounter; ro_nl := l |} in
  let x := rrun_sched Repaired (rsys0 [o [0;1]; o [1;0]; o [0]; o [0;1;2]; o [0;0]; o [0;1]]%nat) (repeat 0 2 ++ repeat 1 2 ++ repeat 2 2 ++ repeat 3 2 ++ repeat 4 2 ++ repeat 5 2)%nat in
  map rt_pc (rths x) = [RPDone (RROk 0); RPDone RRErrSchema; RPDone RRErrSchema; RPDone RRErrSchema; RPDone RRErrSchema; RPDone (RROk 0)] /\
  rerrs (rsh x) = 4.
Proof. vm_compute. split; reflexivity. Qed.
Print Assumptions C20_schema_nonvacuous.

(* ---------------------------------------------------------------- choices the property leaves free *)
(* the default subscription buffer (BufferSize <= 0) is not fixed by the property: [SSubscribe buf dflt] carries the capacity the
   implementation chose, every theorem about the extended machine quantifies over all [aprogs] and hence over every such choice;
   whatever the capacity, publishing never blocks and every update is delivered or counted as dropped (C20_tick_never_blocks is
   stated for an arbitrary subscription).  /repo HEAD's 256 and 1024 are both admissible: *)
Example C20_default_buffer_free :
  (forall dflt, sb_cap (sub_new dflt 0) = dflt /\ sb_cap (sub_new dflt 7) = 7%nat) /\
  (let b := sub_publish_n 300 (sub_new 256 0) in (sb_len b, sb_dropped b) = (256%nat, 44)) /\
  (let b := sub_publish_n 300 (sub_new 1024 0) in (sb_len b, sb_dropped b) = (300%nat, 0)).
Proof. split; [intros dflt; split; reflexivity|]. vm_compute. split; reflexivity. Qed.
Print Assumptions C20_default_buffer_free.

(* ---------------------------------------------------------------- histograms: buckets and sum *)
(* every schedule, either variant: every histogram entry a snapshot returns has one counter per bucket boundary plus +Inf, and
   the bucket counters add up to its count (mod 2^64, they are uint64) *)
Theorem C20_hist_buckets_sum_to_count : forall c progs sched t v,
  c_kind c = KHist ->
  In (t, v) (snapshot (sh (run_sched c (sys0 progs) sched))) ->
  length (v_bk v) = S (length (c_buckets c)) /\ zsum (v_bk v) mod M64 = v_cnt v mod M64.
Proof. exact hist_buckets. Qed.
Print Assumptions C20_hist_buckets_sum_to_count.

(* the SUM field per tuple, exact in Z: [shown KGauge s t] / [retired_of KGauge s t] read the v_main field of the series of t,
   i.e. the histogram sum; [vemitted_to] = sum of the values the programs observe for t; [vattributed] = sum of the observed
   values directed at t that did not land (tally); their number is what the three drop metrics count *)
Theorem C20_hist_sum_per_tuple_conservation : forall c progs sched,
  c_kind c = KHist -> c_variant c = Repaired -> wf_progs c progs = true ->
  let x := run_sched c (sys0 progs) sched in
  quiescent x = true ->
  (forall t, shown KGauge (sh x) t + retired_of KGauge (sh x) t + vattributed x t = vemitted_to c progs t) /\
  (drops (sh x) + unknown (sh x) + stales (sh x)) mod M64 = nonlanded x mod M64 /\
  noop (sh x) = 0.
Proof. exact hist_sum_per_tuple. Qed.
Print Assumptions C20_hist_sum_per_tuple_conservation.

Definition hcfg (v : variant) (cap : Z) : cfg := {| c_kind := KHist; c_cap := cap; c_nlabels := 1; c_buckets := [1; 5]; c_variant := v |}.
Example C20_hist_nonvacuous :
  let c := hcfg Repaired 1 in
  let progs := [[OResolve tA; OEmitH 0 EAdd 0; OEmitH 0 EAdd 3; OEmitH 0 EAdd 7; OResolve tB; OEmitH 1 EAdd 4; OEmitT tA EAdd 5; OEmitT tC EAdd 9]] in
  let x := run_sched c (sys0 progs) (repeat 0%nat 60) in
  wf_progs c progs = true /\ quiescent x = true /\
  snapshot (sh x) = [(tA, {| v_main := 15; v_cnt := 4; v_bk := [1; 2; 1] |})] /\
  (shown KGauge (sh x) tA, vattributed x tA, vemitted_to c progs tA) = (15, 0, 15) /\
  (vattributed x tB, vemitted_to c progs tB, vattributed x tC, nonlanded x) = (4, 4, 9, 2) /\
  (drops (sh x), unknown (sh x)) = (1, 1).
Proof. vm_compute. repeat split; reflexivity. Qed.
Print Assumptions C20_hist_nonvacuous.

(* the pre-36aca6a machine loses an observed value: w1 on a histogram — Observe(5) through the orphaned handle *)
Theorem C20_hist_sum_refuted :
  let c := hcfg Defective 1 in let x := run_sched c (sys0 w1_progs) w1_sched in
  wf_progs c w1_progs = true /\ quiescent x = true /\ nonlanded x = 0 /\
  shown KGauge (sh x) tA + retired_of KGauge (sh x) tA + vattributed x tA = 0 /\ vemitted_to c w1_progs tA = 5.
Proof. vm_compute. repeat split; reflexivity. Qed.
Print Assumptions C20_hist_sum_refuted.

(* ---------------------------------------------------------------- what a snapshot walk can contain *)
(* every step of an AppendSnapshot walk, concurrent with anything: the entry it appends is the CURRENT tuple and value of a series
   that is in the series map at that very moment; its key lies strictly above every key visited before (no series twice); the
   walk writes nothing (ss' = ss, and an auxiliary step cannot write the metric); at the end the collected list is returned *)
Theorem C20_x_snapshot_step_sound : forall mode s ss a cur acc ss' a',
  a_pc a = SSn2 cur acc -> xstep_aux mode s ss a = Some (ss', a') ->
  ss' = ss /\
  ((exists k id h, In (k, id) (smap s) /\ above cur k = true /\ get_handle s id = Some h /\
                   a_pc a' = SSn2 (Some k) ((h_tuple h, h_val h) :: acc)) \/
   (exists k id, In (k, id) (smap s) /\ get_handle s id = None /\ a_pc a' = SSn2 (Some k) acc) \/
   (a_pc a' = SIdle /\ a_snaps a' = rev acc :: a_snaps a)).
Proof. exact snapshot_step_sound. Qed.
Print Assumptions C20_x_snapshot_step_sound.

(* a snapshot taken after the clients are done returns the entries of [snapshot] (here: in key order) *)
Example C20_x_snapshot_nonvacuous :
  let c := cfg_of Repaired 3 in
  let x := xrun c SelectDefault (xsys0 [[OResolve tB; OEmitH 0 EAdd 2; OResolve tA; OEmitH 1 EAdd 5]] [[SSnapshot]])
             (repeat (true, 0%nat) 20 ++ repeat (false, 0%nat) 5) in
  xclients_done x = true /\
  match nth_error (x_aux x) 0 with
  | Some a => afinished a = true /\ length (a_snaps a) = 1%nat /\
              (forall e, In e (hd [] (a_snaps a)) <-> In e (snapshot (x_sh x)))
  | None => False
  end.
Proof.
  vm_compute. split; [reflexivity|]. split; [reflexivity|]. split; [reflexivity|].
  intros e; split; intros [H|[H|[]]]; subst; auto.
Qed.
Print Assumptions C20_x_snapshot_nonvacuous.

(* ---------------------------------------------------------------- admissible `bulk` outcomes (the driver uses THIS predicate) *)
(* [bulk_ok] pins the outcome completely: exactly min(n, cap) series (n when unbounded), exactly the rest dropped *)
Theorem C20_bulk_ok_exact : forall cap n series drops tombs sum count unknown stale early,
  0 <= n -> bulk_ok cap n series drops tombs sum count unknown stale early = true ->
  series = (if (0 <? cap) && (cap <? n) then cap else n) /\ drops = n - series /\
  count = series /\ sum = series /\ tombs = drops /\ unknown = 0 /\ stale = 0 /\ early = 0.
Proof.
  intros cap n series drops tombs sum count unknown stale early Hn H. unfold bulk_ok in H.
  repeat (apply andb_true_iff in H as [H ?]).
  destruct (Z.ltb_spec 0 cap); destruct (Z.ltb_spec cap n); simpl; lia.
Qed.
Print Assumptions C20_bulk_ok_exact.
Example C20_bulk_ok_nonvacuous :
  bulk_ok 10000 10400 10000 400 400 10000 10000 0 0 0 = true /\ bulk_ok (-1) 10300 10300 0 0 10300 10300 0 0 0 = true /\
  bulk_ok (-1) 10300 5 10295 10295 5 5 0 0 0 = false /\ bulk_ok 10000 10400 9990 410 410 9990 9990 0 0 0 = false /\
  bulk_ok 10000 10400 10000 400 400 10000 10000 0 0 3 = false.
Proof. vm_compute. repeat split; reflexivity. Qed.
Print Assumptions C20_bulk_ok_nonvacuous.
