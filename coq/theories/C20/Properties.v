From OV Require Import Common.Base C20.Model C20.Proofs.
Example C20_delimiter_example :
  hash_tuple [[97;98];[99]]%N <> hash_tuple [[97];[98;99]]%N.
Proof. vm_compute. discriminate. Qed.
Print Assumptions C20_delimiter_example.
