(* C20/Model.v — pkg/telemetry: executable model, definitions only.

   One machine serves both layers of the design:
     * every sync.Map / sync/atomic call of counter.go / gauge.go / histogram.go
       (WithLabelValues, handle emit, emit-by-tuple, UnregisterSeries) is ONE atomic
       step [tstep] of a thread on the shared state;
     * the concurrent model [run_sched] interleaves the steps of several threads
       under an arbitrary schedule (a list of thread indices);
     * the sequential model [seq_op] is the same machine with a single thread run to
       completion, so the exact sequential correspondence check validates the very
       step function the interleaving theorems are about.

   variant Repaired  = what /repo HEAD does (since commit 36aca6a): reserve the slot with seriesCount.Add(1) BEFORE
           publishing with LoadOrStore, release it when LoadOrStore loses; UnregisterSeries uses CompareAndDelete and only
           the winner decrements.
   variant Defective = the algorithm /repo had BEFORE 36aca6a (historical; kept for the _refuted witnesses only):
           publish with LoadOrStore, then count, then roll back with an unconditional Delete; UnregisterSeries: Load,
           unconditional Delete, unconditional seriesCount.Add(-1).
   variant LoadAndDel = seeded change C20_n2 (witness only).
   Single-threaded, both variants give identical results. *)
From OV Require Import Common.Base.
Open Scope Z_scope.

(* ------------------------------------------------------------------ hash.go *)
Definition tuple := list (list N).          (* label values; a value is a byte list *)

Definition two64N : N := 18446744073709551616%N.
Definition fnv_offset : N := 14695981039346656037%N.   (* 0xcbf29ce484222325 *)
Definition fnv_prime  : N := 1099511628211%N.          (* 0x100000001b3 *)
Definition delim : N := 255%N.                         (* labelDelimiter 0xFF *)

Definition mask64 : N := 18446744073709551615%N.             (* 2^64 - 1 *)
(* h ^= b; h *= prime  on uint64 (truncation to 64 bits written as a mask: cheap in the extracted code) *)
Definition fnv_byte (h b : N) : N := N.land (N.lxor h b * fnv_prime) mask64.
Definition hash_bytes (h : N) (v : list N) : N := fold_left fnv_byte v h.

(* the loop of hashLabelValues: delimiter before every value but the first *)
Fixpoint hash_values (h : N) (first : bool) (vs : tuple) : N :=
  match vs with
  | [] => h
  | v :: r => let h1 := if first then h else fnv_byte h delim in
              hash_values (hash_bytes h1 v) false r
  end.
Definition hash_tuple (t : tuple) : N := hash_values fnv_offset true t.

(* the byte stream that is actually hashed *)
Definition hash_input (t : tuple) : list N :=
  match t with
  | [] => []
  | v :: r => v ++ flat_map (fun x => delim :: x) r
  end.

Fixpoint bytes_eqb (a b : list N) : bool :=
  match a, b with
  | [], [] => true
  | x :: a', y :: b' => N.eqb x y && bytes_eqb a' b'
  | _, _ => false
  end.
(* labelValuesEqual *)
Fixpoint tuple_eqb (a b : tuple) : bool :=
  match a, b with
  | [], [] => true
  | x :: a', y :: b' => bytes_eqb x y && tuple_eqb a' b'
  | _, _ => false
  end.

(* ------------------------------------------------------------------ values *)
Inductive kind := KCounter | KGauge | KHist.
Inductive emode := EAdd | ESet.

(* v_main: counter value (uint64) / gauge value / histogram sum (integers; the
   harness only uses integer-valued float64 of small magnitude, which are exact)
   v_cnt: histogram count;  v_bk: histogram bucket counters (len buckets + 1) *)
Record hval := { v_main : Z; v_cnt : Z; v_bk : list Z }.
Definition hval0 (nb : nat) : hval := {| v_main := 0; v_cnt := 0; v_bk := repeat 0 nb |}.

(* bucketIndex: first boundary with value <= b, else len *)
Fixpoint bucket_index (bs : list Z) (v : Z) : nat :=
  match bs with
  | [] => O
  | b :: r => if v <=? b then O else S (bucket_index r v)
  end.
Fixpoint incr_nth (l : list Z) (i : nat) : list Z :=
  match l, i with
  | [], _ => []
  | x :: r, O => u64 (x + 1) :: r
  | x :: r, S j => x :: incr_nth r j
  end.

Definition apply_emit (k : kind) (bs : list Z) (m : emode) (d : Z) (v : hval) : hval :=
  match k with
  | KCounter => {| v_main := u64 (v_main v + d); v_cnt := v_cnt v; v_bk := v_bk v |}
  | KGauge => {| v_main := match m with EAdd => v_main v + d | ESet => d end;
                 v_cnt := v_cnt v; v_bk := v_bk v |}
  | KHist => {| v_main := v_main v + d; v_cnt := u64 (v_cnt v + 1);
                v_bk := incr_nth (v_bk v) (bucket_index bs d) |}
  end.
(* what a dropped emission adds to cardinalityDrops / unknownSeriesEmits /
   staleHandleEmits: the delta for counters, 1 for gauges and histograms *)
Definition weight (k : kind) (d : Z) : Z := match k with KCounter => d | _ => 1 end.
(* the scalar of a series shown in the observations: counter value, gauge value, histogram count
   (for counters and histograms it counts the landed emissions by weight; a gauge value does not) *)
Definition measure (k : kind) (v : hval) : Z :=
  match k with KCounter => v_main v | KGauge => v_main v | KHist => v_cnt v end.

(* ------------------------------------------------------------------ state *)
Record handle := { h_tuple : tuple; h_val : hval; h_stale : bool;
                   h_retired : bool   (* GHOST: removed by an UnregisterSeries; never read by the code *) }.

Record shared := {
  smap : list (N * nat);     (* metric.series: hash -> handle id (index into hs) *)
  hs : list handle;          (* every handle ever published; the id is the position *)
  cnt : Z;                   (* seriesCount *)
  drops : Z; unknown : Z; stales : Z;  (* cardinalityDrops / unknownSeriesEmits / staleHandleEmits *)
  noop : Z   (* GHOST: weight of model-only no-op emissions (through a slot the client never obtained);
                cannot happen in Go, where one needs a handle to call Add; always 0 in generated cases *)
}.
Definition shared0 : shared :=
  {| smap := []; hs := []; cnt := 0; drops := 0; unknown := 0; stales := 0; noop := 0 |}.

(* LoadAndDel: the Repaired algorithm except that UnregisterSeries removes with series.LoadAndDelete(h) instead of
   CompareAndDelete(h, entry) (seeded change C20_n2) — only used for a _refuted witness *)
Inductive variant := Defective | Repaired | LoadAndDel.
(* cardinality.go / registry.go: a registration that leaves MaxSeriesPerMetric at its zero value gets the default cap;
   a negative value means "no cap" (every check is guarded by MaxSeriesPerMetric > 0) *)
Definition default_cap : Z := 10000.               (* DefaultMaxSeriesPerMetric at /repo HEAD; the VALUE is a free choice *)
(* dflt = the default the implementation applies (its exported constant, reported by the harness) *)
Definition eff_cap_with (dflt raw : Z) : Z := if raw =? 0 then dflt else raw.
Definition eff_cap (raw : Z) : Z := eff_cap_with default_cap raw.

(* Admissible quiescent outcome of a `bulk` run: n DISTINCT tuples, each resolved once and emitted to once (weight 1), no
   unregister, on a metric with effective cap [cap] (<= 0: unbounded), from any number of goroutines:
     every emission is in its own series (value 1) or is a cardinality drop through a tombstone; nothing unknown or stale;
     the series never exceed the cap; a drop happens only when the cap is reached — then exactly cap series exist (so on an
     unbounded metric, or with n <= cap, there is no drop at all); no tombstone was handed out while the metric had fewer than
     cap series ([early] = number of tombstones after whose return seriesCount was still below the cap). *)
Definition bulk_ok (cap n series drops tombs sum count unknown stale early : Z) : bool :=
  (series + drops =? n) && (0 <=? series) && (0 <=? drops) &&
  ((cap <=? 0) || (series <=? cap)) &&
  ((drops =? 0) || ((0 <? cap) && (series =? cap))) &&
  (count =? series) && (sum =? series) && (tombs =? drops) && (unknown =? 0) && (stale =? 0) && (early =? 0).

Record cfg := { c_kind : kind; c_cap : Z;       (* eff_cap of the registered MaxSeriesPerMetric; <= 0 means unbounded *)
                c_nlabels : nat; c_buckets : list Z; c_variant : variant }.

Inductive href := RTomb | RH (id : nat).

Inductive op :=
| OResolve (t : tuple)                       (* WithLabelValues *)
| OEmitH (slot : nat) (m : emode) (d : Z)    (* handle.Add / Set / Observe through the slot-th handle this client resolved *)
| OEmitT (t : tuple) (m : emode) (d : Z)     (* metric.Add / Set / Observe by tuple: lookup-or-drop *)
| OUnreg (t : tuple).                        (* UnregisterSeries *)

Inductive res := ResH (r : href) | ResB (b : bool) | ResU | ResPanic.

Inductive pc :=
| PIdle
| PR1 (t : tuple)                 (* seriesCount.Load fast-path check *)
| PR2 (t : tuple)                 (* defective: LoadOrStore *)
| PR3 (t : tuple) (id : nat)      (* defective: seriesCount.Add(1) *)
| PR4 (t : tuple) (id : nat)      (* defective: seriesCount.Load > cap ? *)
| PR5 (t : tuple) (id : nat)      (* defective: series.Delete(h) *)
| PR6                             (* defective: seriesCount.Add(-1); tombstone *)
| PQ2 (t : tuple)                 (* repaired: n := seriesCount.Add(1) *)
| PQ2b                            (* repaired: over the cap: seriesCount.Add(-1); tombstone *)
| PQ3 (t : tuple)                 (* repaired: LoadOrStore *)
| PQ4 (r : href)                  (* repaired: lost LoadOrStore: seriesCount.Add(-1); return r *)
| PU1 (t : tuple) (id : nat)      (* Delete / CompareAndDelete *)
| PU2 (id : nat)                  (* seriesCount.Add(-1) *)
| PU3 (id : nat)                  (* entry.stale.Store(true) *)
| PE0 (id : nat) (m : emode) (d : Z)   (* h.stale.Load() *)
| PE1 (id : nat) (m : emode) (d : Z)   (* value update *)
| PES (d : Z)                     (* staleHandleEmits.Add *)
| PTU (d : Z).                    (* unknownSeriesEmits.Add *)

(* The last three fields are the CLIENT's own bookkeeping (ghost: never read by a step's control flow):
   t_asked: tuples of the arity-correct WithLabelValues calls this client has started (slot k was asked for t_asked[k]);
   t_cur:   the tuple the emission in flight is directed at (None: through a slot the client never obtained / wrong arity);
   t_acct:  tally, by tuple, of the weight of this client's emissions that did not land in a series. *)
Record thread := { t_pc : pc; t_prog : list op; t_slots : list href; t_out : list res (* newest first *);
                   t_asked : list tuple; t_cur : option tuple; t_acct : list (tuple * Z);
                   t_vacct : list (tuple * Z) (* the same tally in value units: the deltas themselves *) }.
Definition seq_thread (o : op) (slots : list href) : thread :=
  {| t_pc := PIdle; t_prog := [o]; t_slots := slots; t_out := []; t_asked := []; t_cur := None; t_acct := []; t_vacct := [] |}.
Definition thread0 (prog : list op) : thread :=
  {| t_pc := PIdle; t_prog := prog; t_slots := []; t_out := []; t_asked := []; t_cur := None; t_acct := []; t_vacct := [] |}.

(* ------------------------------------------------------------------ sync.Map *)
Fixpoint map_load (m : list (N * nat)) (k : N) : option nat :=
  match m with
  | [] => None
  | (k', v) :: r => if N.eqb k k' then Some v else map_load r k
  end.
Fixpoint map_delete (m : list (N * nat)) (k : N) : list (N * nat) :=
  match m with
  | [] => []
  | (k', v) :: r => if N.eqb k k' then map_delete r k else (k', v) :: map_delete r k
  end.
Definition map_store (m : list (N * nat)) (k : N) (v : nat) : list (N * nat) := m ++ [(k, v)].

Definition get_handle (s : shared) (id : nat) : option handle := nth_error (hs s) id.
Fixpoint upd_nth {A} (l : list A) (i : nat) (f : A -> A) : list A :=
  match l, i with
  | [], _ => []
  | x :: r, O => f x :: r
  | x :: r, S j => x :: upd_nth r j f
  end.

(* series.Load(h) followed by the labelValuesEqual verification *)
Definition lookup (s : shared) (t : tuple) : option nat :=
  match map_load (smap s) (hash_tuple t) with
  | Some id => match get_handle s id with
               | Some h => if tuple_eqb (h_tuple h) t then Some id else None
               | None => None
               end
  | None => None
  end.

Definition set_cnt (s : shared) (c : Z) : shared :=
  {| smap := smap s; hs := hs s; cnt := c; drops := drops s; unknown := unknown s; stales := stales s; noop := noop s |}.
Definition set_map (s : shared) (m : list (N * nat)) : shared :=
  {| smap := m; hs := hs s; cnt := cnt s; drops := drops s; unknown := unknown s; stales := stales s; noop := noop s |}.
Definition set_hs (s : shared) (l : list handle) : shared :=
  {| smap := smap s; hs := l; cnt := cnt s; drops := drops s; unknown := unknown s; stales := stales s; noop := noop s |}.
Definition add_drops (s : shared) (w : Z) : shared :=
  {| smap := smap s; hs := hs s; cnt := cnt s; drops := u64 (drops s + w); unknown := unknown s; stales := stales s; noop := noop s |}.
Definition add_unknown (s : shared) (w : Z) : shared :=
  {| smap := smap s; hs := hs s; cnt := cnt s; drops := drops s; unknown := u64 (unknown s + w); stales := stales s; noop := noop s |}.
Definition add_stales (s : shared) (w : Z) : shared :=
  {| smap := smap s; hs := hs s; cnt := cnt s; drops := drops s; unknown := unknown s; stales := u64 (stales s + w); noop := noop s |}.

Definition add_noop (s : shared) (w : Z) : shared :=
  {| smap := smap s; hs := hs s; cnt := cnt s; drops := drops s; unknown := unknown s; stales := stales s;
     noop := u64 (noop s + w) |}.

Definition publish (c : cfg) (s : shared) (t : tuple) : shared * nat :=
  let id := length (hs s) in
  ({| smap := map_store (smap s) (hash_tuple t) id;
      hs := hs s ++ [{| h_tuple := t; h_val := hval0 (S (length (c_buckets c))); h_stale := false; h_retired := false |}];
      cnt := cnt s; drops := drops s; unknown := unknown s; stales := stales s; noop := noop s |}, id).

(* ------------------------------------------------------------------ thread steps *)
Definition finish (th : thread) (r : res) : thread :=
  {| t_pc := PIdle; t_prog := t_prog th;
     t_slots := match r with ResH h => t_slots th ++ [h] | _ => t_slots th end;
     t_out := r :: t_out th; t_asked := t_asked th; t_cur := t_cur th; t_acct := t_acct th; t_vacct := t_vacct th |}.
Definition goto (th : thread) (p : pc) : thread :=
  {| t_pc := p; t_prog := t_prog th; t_slots := t_slots th; t_out := t_out th; t_asked := t_asked th; t_cur := t_cur th; t_acct := t_acct th; t_vacct := t_vacct th |}.
Definition pop (th : thread) (rest : list op) : thread :=
  {| t_pc := t_pc th; t_prog := rest; t_slots := t_slots th; t_out := t_out th; t_asked := t_asked th; t_cur := t_cur th; t_acct := t_acct th; t_vacct := t_vacct th |}.
Definition ask (th : thread) (t : tuple) : thread :=
  {| t_pc := t_pc th; t_prog := t_prog th; t_slots := t_slots th; t_out := t_out th; t_asked := t_asked th ++ [t]; t_cur := t_cur th; t_acct := t_acct th; t_vacct := t_vacct th |}.
Definition aim (th : thread) (o : option tuple) : thread :=
  {| t_pc := t_pc th; t_prog := t_prog th; t_slots := t_slots th; t_out := t_out th; t_asked := t_asked th; t_cur := o; t_acct := t_acct th; t_vacct := t_vacct th |}.
Definition tally (th : thread) (w d : Z) : thread :=
  {| t_pc := t_pc th; t_prog := t_prog th; t_slots := t_slots th; t_out := t_out th; t_asked := t_asked th;
     t_cur := t_cur th;
     t_acct := match t_cur th with Some t => (t, w) :: t_acct th | None => t_acct th end;
     t_vacct := match t_cur th with Some t => (t, d) :: t_vacct th | None => t_vacct th end |}.

Definition capped (c : cfg) : bool := 0 <? c_cap c.

Definition finished (th : thread) : bool :=
  match t_pc th, t_prog th with PIdle, [] => true | _, _ => false end.

(* first atomic step of an operation *)
Definition arity_ok (c : cfg) (t : tuple) : bool := Nat.eqb (length t) (c_nlabels c).

Definition start_op (c : cfg) (s : shared) (th : thread) (o : op) : shared * thread :=
  match o with
  | OResolve t =>
      if negb (arity_ok c t) then (s, finish th ResPanic) else
      let th := ask th t in
      match lookup s t with                                (* series.Load + verify *)
      | Some id => (s, finish th (ResH (RH id)))
      | None => (s, goto th (PR1 t))
      end
  | OEmitH slot m d =>
      let th := aim th (nth_error (t_asked th) slot) in
      match nth_error (t_slots th) slot with
      | None => (add_noop s (weight (c_kind c) d), finish th ResU)     (* no such handle: harness skips *)
      | Some RTomb => (add_drops s (weight (c_kind c) d), finish (tally th (weight (c_kind c) d) d) ResU)    (* isTombstone is immutable *)
      | Some (RH id) =>                                     (* h.stale.Load() *)
          match get_handle s id with
          | Some h => if h_stale h then (s, goto th (PES d)) else (s, goto th (PE1 id m d))
          | None => (add_noop s (weight (c_kind c) d), finish th ResU)
          end
      end
  | OEmitT t m d =>
      if negb (arity_ok c t) then (add_noop s (weight (c_kind c) d), finish (aim th None) ResPanic) else
      let th := aim th (Some t) in
      match lookup s t with                                (* series.Load + verify *)
      | Some id => (s, goto th (PE0 id m d))
      | None => (s, goto th (PTU d))
      end
  | OUnreg t =>
      if negb (arity_ok c t) then (s, finish th ResPanic) else
      match lookup s t with
      | Some id => (s, goto th (PU1 t id))
      | None => (s, finish th (ResB false))
      end
  end.

Definition retire (h : handle) : handle :=
  {| h_tuple := h_tuple h; h_val := h_val h; h_stale := h_stale h; h_retired := true |}.
Definition mark_stale (h : handle) : handle :=
  {| h_tuple := h_tuple h; h_val := h_val h; h_stale := true; h_retired := h_retired h |}.
Definition emit_into (c : cfg) (m : emode) (d : Z) (h : handle) : handle :=
  {| h_tuple := h_tuple h; h_val := apply_emit (c_kind c) (c_buckets c) m d (h_val h);
     h_stale := h_stale h; h_retired := h_retired h |}.

Definition tstep (c : cfg) (s : shared) (th : thread) : shared * thread :=
  match t_pc th with
  | PIdle =>
      match t_prog th with
      | [] => (s, th)
      | o :: rest => start_op c s (pop th rest) o
      end
  | PR1 t =>
      if capped c && (c_cap c <=? cnt s) then (s, finish th (ResH RTomb))
      else (s, goto th (match c_variant c with Defective => PR2 t | _ => PQ2 t end))
  (* ---- defective WithLabelValues ---- *)
  | PR2 t =>
      match map_load (smap s) (hash_tuple t) with
      | Some id =>
          match get_handle s id with
          | Some h => if tuple_eqb (h_tuple h) t then (s, finish th (ResH (RH id)))
                      else (s, finish th (ResH RTomb))
          | None => (s, finish th (ResH RTomb))
          end
      | None => let (s', id) := publish c s t in (s', goto th (PR3 t id))
      end
  | PR3 t id => (set_cnt s (cnt s + 1), goto th (PR4 t id))
  | PR4 t id =>
      if capped c && (c_cap c <? cnt s) then (s, goto th (PR5 t id))
      else (s, finish th (ResH (RH id)))
  | PR5 t id => (set_map s (map_delete (smap s) (hash_tuple t)), goto th PR6)
  | PR6 => (set_cnt s (cnt s - 1), finish th (ResH RTomb))
  (* ---- repaired WithLabelValues ---- *)
  | PQ2 t =>
      let n := cnt s + 1 in
      (set_cnt s n, goto th (if capped c && (c_cap c <? n) then PQ2b else PQ3 t))
  | PQ2b => (set_cnt s (cnt s - 1), finish th (ResH RTomb))
  | PQ3 t =>
      match map_load (smap s) (hash_tuple t) with
      | Some id =>
          match get_handle s id with
          | Some h => (s, goto th (PQ4 (if tuple_eqb (h_tuple h) t then RH id else RTomb)))
          | None => (s, goto th (PQ4 RTomb))
          end
      | None => let (s', id) := publish c s t in (s', finish th (ResH (RH id)))
      end
  | PQ4 r => (set_cnt s (cnt s - 1), finish th (ResH r))
  (* ---- UnregisterSeries ---- *)
  | PU1 t id =>
      match c_variant c with
      | Defective =>          (* unconditional Delete(h) *)
          (set_hs (set_map s (map_delete (smap s) (hash_tuple t))) (upd_nth (hs s) id retire), goto th (PU2 id))
      | Repaired =>           (* CompareAndDelete(h, entry) *)
          match map_load (smap s) (hash_tuple t) with
          | Some id' => if Nat.eqb id' id
                        then (set_hs (set_map s (map_delete (smap s) (hash_tuple t))) (upd_nth (hs s) id retire),
                              goto th (PU2 id))
                        else (s, finish th (ResB false))
          | None => (s, finish th (ResB false))
          end
      | LoadAndDel =>         (* LoadAndDelete(h): removes whatever is stored under the hash now *)
          match map_load (smap s) (hash_tuple t) with
          | Some _ => (set_hs (set_map s (map_delete (smap s) (hash_tuple t))) (upd_nth (hs s) id retire),
                       goto th (PU2 id))
          | None => (s, finish th (ResB false))
          end
      end
  | PU2 id => (set_cnt s (cnt s - 1), goto th (PU3 id))
  | PU3 id => (set_hs s (upd_nth (hs s) id mark_stale), finish th (ResB true))
  (* ---- emit ---- *)
  | PE0 id m d =>
      match get_handle s id with
      | Some h => if h_stale h then (s, goto th (PES d)) else (s, goto th (PE1 id m d))
      | None => (add_noop s (weight (c_kind c) d), finish th ResU)
      end
  | PE1 id m d =>
      match get_handle s id with
      | Some _ => (set_hs s (upd_nth (hs s) id (emit_into c m d)), finish th ResU)
      | None => (add_noop s (weight (c_kind c) d), finish th ResU)
      end
  | PES d => (add_stales s (weight (c_kind c) d), finish (tally th (weight (c_kind c) d) d) ResU)
  | PTU d => (add_unknown s (weight (c_kind c) d), finish (tally th (weight (c_kind c) d) d) ResU)
  end.

(* ------------------------------------------------------------------ sequential model *)
Fixpoint run_thread (fuel : nat) (c : cfg) (s : shared) (th : thread) : shared * thread :=
  match fuel with
  | O => (s, th)
  | S f => if finished th then (s, th) else let (s', th') := tstep c s th in run_thread f c s' th'
  end.

(* a client = its slot list; one operation run alone to completion (at most 8 atomic steps) *)
Definition seq_fuel : nat := 8.
Definition seq_op (c : cfg) (s : shared) (slots : list href) (o : op) : shared * list href * option res :=
  let th := seq_thread o slots in
  let (s', th') := run_thread seq_fuel c s th in
  (s', t_slots th', if finished th' then hd_error (t_out th') else None).

Fixpoint seq_run (c : cfg) (s : shared) (slots : list href) (ops : list op) : shared * list href :=
  match ops with
  | [] => (s, slots)
  | o :: r => let '(s', sl', _) := seq_op c s slots o in seq_run c s' sl' r
  end.

(* AppendSnapshot for the metric: the live series *)
Definition snapshot (s : shared) : list (tuple * hval) :=
  flat_map (fun kv => match get_handle s (snd kv) with
                      | Some h => [(h_tuple h, h_val h)]
                      | None => [] end) (smap s).

(* ------------------------------------------------------------------ interleavings *)
Record sys := { sh : shared; ths : list thread }.
Definition sys0 (progs : list (list op)) : sys := {| sh := shared0; ths := map thread0 progs |}.

(* thread i takes one atomic step; an index out of range or a finished thread stutters *)
Definition sys_step (c : cfg) (x : sys) (i : nat) : sys :=
  match nth_error (ths x) i with
  | Some th => if finished th then x else
               let (s', th') := tstep c (sh x) th in
               {| sh := s'; ths := upd_nth (ths x) i (fun _ => th') |}
  | None => x
  end.
Definition run_sched (c : cfg) (x : sys) (sched : list nat) : sys := fold_left (sys_step c) sched x.
Definition quiescent (x : sys) : bool := forallb finished (ths x).

(* ------------------------------------------------------------------ monitors *)
Definition in_map (s : shared) (id : nat) : bool := existsb (fun kv => Nat.eqb (snd kv) id) (smap s).
(* a handle a client can emit through whose emissions can never be seen or accounted:
   not the tombstone, not removed by UnregisterSeries, and not reachable from the series map *)
Definition orphan (s : shared) (id : nat) : bool :=
  match get_handle s id with
  | Some h => negb (h_retired h) && negb (in_map s id)
  | None => true
  end.
Definition sum_measure (k : kind) (l : list handle) : Z :=
  fold_right (fun h a => measure k (h_val h) + a) 0 l.
Definition op_weight (k : kind) (o : op) : Z :=
  match o with OEmitH _ _ d => weight k d | OEmitT _ _ d => weight k d | _ => 0 end.
Definition prog_weight (k : kind) (p : list op) : Z := fold_right (fun o a => op_weight k o + a) 0 p.

(* ------------------------------------------------------------------ subscribe.go (sequential) *)
(* A subscription's channel is a bounded FIFO of which only the length matters. *)
Record sub := { sb_len : nat; sb_cap : nat; sb_dropped : Z; sb_delivered : Z; sb_unsub : bool }.
Definition sub_publish (b : sub) : sub :=          (* Subscription.publish: select { case ch<-u: default: dropped++ } *)
  if sb_unsub b then b else
  if (sb_len b <? sb_cap b)%nat
  then {| sb_len := S (sb_len b); sb_cap := sb_cap b; sb_dropped := sb_dropped b;
          sb_delivered := sb_delivered b + 1; sb_unsub := sb_unsub b |}
  else {| sb_len := sb_len b; sb_cap := sb_cap b; sb_dropped := sb_dropped b + 1;
          sb_delivered := sb_delivered b; sb_unsub := sb_unsub b |}.
Fixpoint sub_publish_n (n : nat) (b : sub) : sub :=
  match n with O => b | S k => sub_publish_n k (sub_publish b) end.
Definition sub_drain (n : nat) (b : sub) : sub * nat :=
  let k := Nat.min n (sb_len b) in
  ({| sb_len := (sb_len b - k)%nat; sb_cap := sb_cap b; sb_dropped := sb_dropped b;
      sb_delivered := sb_delivered b; sb_unsub := sb_unsub b |}, k).
(* Subscribe: BufferSize > 0 is honoured; BufferSize <= 0 gets a default capacity.  The property does not fix that default
   (any channel capacity keeps publish non-blocking), so it is a parameter: the capacity the implementation chose. *)
Definition sub_new (dflt : nat) (bufsize : Z) : sub :=
  {| sb_len := O; sb_cap := if bufsize <=? 0 then dflt else Z.to_nat bufsize;
     sb_dropped := 0; sb_delivered := 0; sb_unsub := false |}.
Definition sub_unsub (b : sub) : sub :=
  {| sb_len := sb_len b; sb_cap := sb_cap b; sb_dropped := sb_dropped b;
     sb_delivered := sb_delivered b; sb_unsub := true |}.

(* ------------------------------------------------------------------ registry.go: metric registration *)
(* Register{Counter,Gauge,Histogram}: validate (pure, not modelled), then
     RP0: r.metrics.Load(name)          hit  -> type check, schema check, return existing
     RP1: r.metrics.LoadOrStore(name,c) loaded -> [type assertion] schema check, return existing
                                        stored -> return c
   Metrics are never removed from the registry.  A schema is the list of label names, compared positionally.
   variant Repaired = /repo HEAD (since commit efcd108): the loaded branch does the same metricType() check as the
   Load branch and returns ErrTypeMismatch.  variant Defective = the code before efcd108 (historical, witness only): in the
   loaded branch of LoadOrStore `actual.(ptr Counter)` was an unchecked type assertion, which PANICKED when another
   goroutine registered the same name with a different metric type in between. *)
(* the label schema of a registration is the LIST of label names, compared position by position (labelNamesEqual): series are
   keyed by the positional value tuple, so a permutation, a subset, a superset or a duplicate is a different schema.  Label
   names are numbers here (the harness uses l0, l1, ...). *)
Fixpoint schema_eqb (a b : list nat) : bool :=
  match a, b with
  | [], [] => true
  | x :: a', y :: b' => Nat.eqb x y && schema_eqb a' b'
  | _, _ => false
  end.
Record ropts := { ro_name : N; ro_kind : kind; ro_nl : list nat }.
Record robj := { rb_kind : kind; rb_nl : list nat }.
Record rshared := { rmap : list (N * nat);     (* Registry.metrics: name -> metric object id *)
                    robjs : list robj;         (* every metric object ever published *)
                    rerrs : Z }.               (* registrationErrors *)
Definition rshared0 : rshared := {| rmap := []; robjs := []; rerrs := 0 |}.
Inductive rres := RROk (id : nat) | RRErrType | RRErrSchema | RRPanic.
Inductive rpc := RP0 | RP1 | RPDone (r : rres).
Record rthread := { rt_pc : rpc; rt_opts : ropts }.
Definition rthread0 (o : ropts) : rthread := {| rt_pc := RP0; rt_opts := o |}.

Definition kind_eqb (a b : kind) : bool :=
  match a, b with KCounter, KCounter | KGauge, KGauge | KHist, KHist => true | _, _ => false end.
Definition rdone (th : rthread) (r : rres) : rthread := {| rt_pc := RPDone r; rt_opts := rt_opts th |}.
Definition rbump (s : rshared) : rshared := {| rmap := rmap s; robjs := robjs s; rerrs := rerrs s + 1 |}.

Definition rstep (v : variant) (s : rshared) (th : rthread) : rshared * rthread :=
  let o := rt_opts th in
  match rt_pc th with
  | RP0 =>
      match map_load (rmap s) (ro_name o) with
      | Some id =>
          match nth_error (robjs s) id with
          | Some b => if negb (kind_eqb (rb_kind b) (ro_kind o)) then (rbump s, rdone th RRErrType)
                      else if negb (schema_eqb (rb_nl b) (ro_nl o)) then (rbump s, rdone th RRErrSchema)
                      else (s, rdone th (RROk id))
          | None => (s, rdone th RRPanic)
          end
      | None => (s, {| rt_pc := RP1; rt_opts := o |})
      end
  | RP1 =>
      match map_load (rmap s) (ro_name o) with
      | Some id =>
          match nth_error (robjs s) id with
          | Some b => if negb (kind_eqb (rb_kind b) (ro_kind o))
                      then match v with
                           | Defective => (s, rdone th RRPanic)          (* actual.(ptr Counter) on a Gauge *)
                           | _ => (rbump s, rdone th RRErrType)
                           end
                      else if negb (schema_eqb (rb_nl b) (ro_nl o)) then (rbump s, rdone th RRErrSchema)
                      else (s, rdone th (RROk id))
          | None => (s, rdone th RRPanic)
          end
      | None =>
          let id := length (robjs s) in
          ({| rmap := map_store (rmap s) (ro_name o) id;
              robjs := robjs s ++ [{| rb_kind := ro_kind o; rb_nl := ro_nl o |}];
              rerrs := rerrs s |}, rdone th (RROk id))
      end
  | RPDone _ => (s, th)
  end.

Record rsys := { rsh : rshared; rths : list rthread }.
Definition rsys0 (os : list ropts) : rsys := {| rsh := rshared0; rths := map rthread0 os |}.
Definition rsys_step (v : variant) (x : rsys) (i : nat) : rsys :=
  match nth_error (rths x) i with
  | Some th => let (s', th') := rstep v (rsh x) th in {| rsh := s'; rths := upd_nth (rths x) i (fun _ => th') |}
  | None => x
  end.
Definition rrun_sched (v : variant) (x : rsys) (sched : list nat) : rsys := fold_left (rsys_step v) sched x.
Definition rdone_all (x : rsys) : bool :=
  forallb (fun th => match rt_pc th with RPDone _ => true | _ => false end) (rths x).

(* ------------------------------------------------------------------ subscribers, tick and snapshot as threads *)
(* The extended machine runs the metric clients of [tstep] UNCHANGED next to auxiliary threads that subscribe,
   unsubscribe, tick, snapshot and drain.
   * A client that has just landed an emission in a series performs the three atomic steps of markDirty
     (subscriberCount.Load / dirty.Load / dirty.CompareAndSwap) before it goes on.
   * A client whose WithLabelValues returned the tombstone went through tombstoneHandle = sync.Once.Do: the first caller
     runs the initialiser (O2) while later callers WAIT at O1 until it is done; afterwards Do is a single atomic load.
   * Subscribe -> maybeStartTick and Unsubscribe -> maybeStopTick take the registry mutex tickMu: acquiring it is a step
     that is DISABLED while another thread holds it.
   * series.Range / metrics.Range walk the LIVE map one entry per step in key order: the walker remembers the last key it
     visited; an entry inserted behind the cursor is not seen, one inserted ahead is, one deleted ahead is skipped.
   Auxiliary steps cannot write the metric state (type of [xstep_aux]); clients touch no channel and no mutex. *)
Record sshared := { ss_subs : list sub; ss_dirty : bool; ss_nsubs : Z;
                    ss_mu : bool;        (* tickMu is held *)
                    ss_running : bool;   (* tickRunning *)
                    ss_once : nat }.     (* tombstoneOnce: 0 = fresh, 1 = initialiser running, 2 = done *)
Definition sshared0 : sshared :=
  {| ss_subs := []; ss_dirty := false; ss_nsubs := 0; ss_mu := false; ss_running := false; ss_once := 0 |}.
(* how Subscription.publish sends: the code uses select/default; BlockingSend is the hypothetical `ch <- u` *)
Inductive sendmode := SelectDefault | BlockingSend.
Inductive mpc := MNone | M1 | M2 | M3 | O1 | O2.
Inductive sop := SSubscribe (buf : Z) (dflt : nat) (* dflt: default capacity chosen by the implementation *) | SUnsubscribe (k : nat) | STick | SSnapshot | SDrain (k n : nat).
Inductive spc :=
| SIdle
| SSub1                                   (* subscriberCount.Add(1), after subscribers.Store *)
| SSub2                                   (* maybeStartTick: tickMu.Lock() *)
| SSub3                                   (* under the lock: if !tickRunning { tickRunning = true; go tickLoop } *)
| SSub4                                   (* tickMu.Unlock() *)
| SUn1 (k : nat)                          (* subscribers.Delete *)
| SUn2                                    (* subscriberCount.Add(-1) *)
| SUn3                                    (* maybeStopTick: subscriberCount.Load() != 0 ? *)
| SUn4                                    (* tickMu.Lock() *)
| SUn5                                    (* under the lock: re-check, tickRunning = false *)
| SUn6                                    (* tickMu.Unlock() (then cancel()) *)
| STk2 (cur : option N) (n : nat)         (* series.Range: visit the next live entry after key cur; n samples so far *)
| STk3 (n : nat)                          (* subscribers.Range: which subscribers exist now *)
| STk4 (work : list nat)                  (* one Subscription.publish, to subscriber [hd work] *)
| SSn2 (cur : option N) (acc : list (tuple * hval)).   (* AppendSnapshot: visit the next live entry *)
Record auxthread := { a_pc : spc; a_prog : list sop; a_snaps : list (list (tuple * hval)) (* newest first *) }.
Definition auxthread0 (p : list sop) : auxthread := {| a_pc := SIdle; a_prog := p; a_snaps := [] |}.
Definition afinished (a : auxthread) : bool := match a_pc a, a_prog a with SIdle, [] => true | _, _ => false end.

Definition ss_with (ss : sshared) (subs : list sub) (dirty : bool) (n : Z) (mu running : bool) (once : nat) : sshared :=
  {| ss_subs := subs; ss_dirty := dirty; ss_nsubs := n; ss_mu := mu; ss_running := running; ss_once := once |}.
Definition set_subs (ss : sshared) (l : list sub) := ss_with ss l (ss_dirty ss) (ss_nsubs ss) (ss_mu ss) (ss_running ss) (ss_once ss).
Definition set_dirty (ss : sshared) (b : bool) := ss_with ss (ss_subs ss) b (ss_nsubs ss) (ss_mu ss) (ss_running ss) (ss_once ss).
Definition set_nsubs (ss : sshared) (n : Z) := ss_with ss (ss_subs ss) (ss_dirty ss) n (ss_mu ss) (ss_running ss) (ss_once ss).
Definition set_mu (ss : sshared) (b : bool) := ss_with ss (ss_subs ss) (ss_dirty ss) (ss_nsubs ss) b (ss_running ss) (ss_once ss).
Definition set_running (ss : sshared) (b : bool) := ss_with ss (ss_subs ss) (ss_dirty ss) (ss_nsubs ss) (ss_mu ss) b (ss_once ss).
Definition set_once (ss : sshared) (n : nat) := ss_with ss (ss_subs ss) (ss_dirty ss) (ss_nsubs ss) (ss_mu ss) (ss_running ss) n.
Definition agoto (a : auxthread) (p : spc) : auxthread := {| a_pc := p; a_prog := a_prog a; a_snaps := a_snaps a |}.

Definition sub_full (b : sub) : bool := negb (sb_len b <? sb_cap b)%nat.
Definition live_sub_indices (l : list sub) : list nat :=
  flat_map (fun ib => if sb_unsub (snd ib) then [] else [fst ib]) (combine (seq 0 (length l)) l).

(* the live entry with the smallest key above the cursor *)
Definition above (cur : option N) (k : N) : bool := match cur with None => true | Some c => N.ltb c k end.
Fixpoint next_entry (m : list (N * nat)) (cur : option N) (best : option (N * nat)) : option (N * nat) :=
  match m with
  | [] => best
  | (k, id) :: r =>
      next_entry r cur (if above cur k then match best with
                                            | Some (kb, _) => if N.ltb k kb then Some (k, id) else best
                                            | None => Some (k, id)
                                            end else best)
  end.

(* one atomic step of an auxiliary thread; None = the step is not enabled (the thread is blocked) *)
Definition xstep_aux (mode : sendmode) (s : shared) (ss : sshared) (a : auxthread) : option (sshared * auxthread) :=
  match a_pc a with
  | SIdle =>
      match a_prog a with
      | [] => Some (ss, a)
      | o :: rest =>
          let a := {| a_pc := SIdle; a_prog := rest; a_snaps := a_snaps a |} in
          match o with
          | SSubscribe buf dflt => Some (set_subs ss (ss_subs ss ++ [sub_new dflt buf]), agoto a SSub1)
          | SUnsubscribe k =>                      (* unsubscribed.Swap(true) *)
              match nth_error (ss_subs ss) k with
              | Some b => if sb_unsub b then Some (ss, a)
                          else Some (set_subs ss (upd_nth (ss_subs ss) k sub_unsub), agoto a (SUn1 k))
              | None => Some (ss, a)
              end
          | STick =>                               (* swapDirty *)
              if ss_dirty ss then Some (set_dirty ss false, agoto a (STk2 None 0)) else Some (ss, a)
          | SSnapshot => Some (ss, agoto a (SSn2 None []))
          | SDrain k n =>
              match nth_error (ss_subs ss) k with
              | Some b => Some (set_subs ss (upd_nth (ss_subs ss) k (fun b => fst (sub_drain n b))), a)
              | None => Some (ss, a)
              end
          end
      end
  | SSub1 => Some (set_nsubs ss (ss_nsubs ss + 1), agoto a SSub2)
  | SSub2 => if ss_mu ss then None else Some (set_mu ss true, agoto a SSub3)
  | SSub3 => Some (set_running ss true, agoto a SSub4)
  | SSub4 => Some (set_mu ss false, agoto a SIdle)
  | SUn1 k => Some (ss, agoto a SUn2)
  | SUn2 => Some (set_nsubs ss (ss_nsubs ss - 1), agoto a SUn3)
  | SUn3 => if ss_nsubs ss =? 0 then Some (ss, agoto a SUn4) else Some (ss, agoto a SIdle)
  | SUn4 => if ss_mu ss then None else Some (set_mu ss true, agoto a SUn5)
  | SUn5 => Some ((if ss_running ss && (ss_nsubs ss =? 0) then set_running ss false else ss), agoto a SUn6)
  | SUn6 => Some (set_mu ss false, agoto a SIdle)
  | STk2 cur n =>
      match next_entry (smap s) cur None with
      | Some (k, id) => Some (ss, agoto a (STk2 (Some k) (match get_handle s id with Some _ => S n | None => n end)))
      | None => Some (ss, agoto a (STk3 n))
      end
  | STk3 n => Some (ss, agoto a (STk4 (flat_map (fun _ => live_sub_indices (ss_subs ss)) (seq 0 n))))
  | STk4 [] => Some (ss, agoto a SIdle)
  | STk4 (k :: r) =>
      match nth_error (ss_subs ss) k with
      | Some b =>
          match mode with
          | BlockingSend => if negb (sb_unsub b) && sub_full b then None      (* ch <- u on a full channel: blocked *)
                            else Some (set_subs ss (upd_nth (ss_subs ss) k sub_publish), agoto a (STk4 r))
          | SelectDefault => Some (set_subs ss (upd_nth (ss_subs ss) k sub_publish), agoto a (STk4 r))
          end
      | None => Some (ss, agoto a (STk4 r))
      end
  | SSn2 cur acc =>
      match next_entry (smap s) cur None with
      | Some (k, id) =>
          Some (ss, agoto a (SSn2 (Some k) (match get_handle s id with Some h => (h_tuple h, h_val h) :: acc | None => acc end)))
      | None => Some (ss, {| a_pc := SIdle; a_prog := a_prog a; a_snaps := rev acc :: a_snaps a |})
      end
  end.

(* a metric client with its markDirty / tombstoneOnce continuation *)
Definition lands (s : shared) (th : thread) : bool :=
  match t_pc th with PE1 id _ _ => match get_handle s id with Some _ => true | None => false end | _ => false end.
Definition got_tomb (th th' : thread) : bool :=
  (length (t_out th) <? length (t_out th'))%nat && match t_out th' with ResH RTomb :: _ => true | _ => false end.
Definition xstep_client (c : cfg) (s : shared) (ss : sshared) (cl : thread * mpc) : option (shared * sshared * (thread * mpc)) :=
  let (th, m) := cl in
  match m with
  | MNone => if finished th then Some (s, ss, cl) else
             let l := lands s th in
             let (s', th') := tstep c s th in
             Some (s', ss, (th', if l then M1 else if got_tomb th th' then O1 else MNone))
  | M1 => Some (s, ss, (th, if ss_nsubs ss =? 0 then MNone else M2))          (* registry.subscriberCount.Load() == 0 *)
  | M2 => Some (s, ss, (th, if ss_dirty ss then MNone else M3))               (* dirty.Load() *)
  | M3 => Some (s, set_dirty ss true, (th, MNone))                            (* dirty.CompareAndSwap(false, true) *)
  | O1 => match ss_once ss with                                               (* tombstoneOnce.Do *)
          | O => Some (s, set_once ss 1, (th, O2))                            (* first caller: run the initialiser *)
          | S O => None                                                       (* somebody else is running it: wait *)
          | _ => Some (s, ss, (th, MNone))                                    (* done: a single atomic load *)
          end
  | O2 => Some (s, set_once ss 2, (th, MNone))
  end.

Record xsys := { x_sh : shared; x_ss : sshared; x_cl : list (thread * mpc); x_aux : list auxthread }.
Definition xsys0 (progs : list (list op)) (aprogs : list (list sop)) : xsys :=
  {| x_sh := shared0; x_ss := sshared0; x_cl := map (fun p => (thread0 p, MNone)) progs; x_aux := map auxthread0 aprogs |}.
(* schedule element: (true, i) = client i, (false, j) = auxiliary thread j; a disabled or finished thread stutters *)
Definition xsys_step (c : cfg) (mode : sendmode) (x : xsys) (e : bool * nat) : xsys :=
  let (is_client, i) := e in
  if is_client then
    match nth_error (x_cl x) i with
    | Some cl => match xstep_client c (x_sh x) (x_ss x) cl with
                 | Some (s', ss', cl') => {| x_sh := s'; x_ss := ss'; x_cl := upd_nth (x_cl x) i (fun _ => cl'); x_aux := x_aux x |}
                 | None => x
                 end
    | None => x
    end
  else
    match nth_error (x_aux x) i with
    | Some a => match xstep_aux mode (x_sh x) (x_ss x) a with
                | Some (ss', a') => {| x_sh := x_sh x; x_ss := ss'; x_cl := x_cl x; x_aux := upd_nth (x_aux x) i (fun _ => a') |}
                | None => x
                end
    | None => x
    end.
Definition xrun (c : cfg) (mode : sendmode) (x : xsys) (sched : list (bool * nat)) : xsys := fold_left (xsys_step c mode) sched x.
Definition xclients_done (x : xsys) : bool :=
  forallb (fun cl => finished (fst cl) && match snd cl with MNone => true | _ => false end) (x_cl x).
Definition metric_of (x : xsys) : sys := {| sh := x_sh x; ths := map fst (x_cl x) |}.
