(* C20/Proofs4.v — gauges: per-tuple Add/Sub conservation with drop attribution; exact (no-wrap) accounting. *)
From OV Require Import Common.Base C20.Model C20.Proofs C20.Proofs2 C20.Proofs3.
From Coq Require Import ZifyBool ZifyNat ZifyN.
Open Scope Z_scope.

(* ================================================================= value-unit bookkeeping *)
Definition is_add (o : op) : Prop := match o with OEmitH _ m _ | OEmitT _ m _ => m = EAdd | _ => True end.
Definition add_only (progs : list (list op)) : Prop := Forall (Forall is_add) progs.

Fixpoint vfut (c : cfg) (t : tuple) (asked : list tuple) (p : list op) : Z :=
  match p with
  | [] => 0
  | OResolve t' :: r => vfut c t (if arity_ok c t' then asked ++ [t'] else asked) r
  | OEmitH k _ d :: r => (if targets t (nth_error asked k) then d else 0) + vfut c t asked r
  | OEmitT t' _ d :: r => (if arity_ok c t' && tuple_eqb t' t then d else 0) + vfut c t asked r
  | OUnreg _ :: r => vfut c t asked r
  end.
(* sum of the deltas the client programs direct at tuple t *)
Definition vemitted_to (c : cfg) (progs : list (list op)) (t : tuple) : Z := fold_right (fun p a => vfut c t [] p + a) 0 progs.
Definition vpending (p : pc) : Z := match p with PE0 _ _ d | PE1 _ _ d | PES d | PTU d => d | _ => 0 end.
Definition vrem_t (c : cfg) (t : tuple) (th : thread) : Z :=
  (if targets t (t_cur th) then vpending (t_pc th) else 0) + vfut c t (t_asked th) (t_prog th).
Definition vown_t (c : cfg) (t : tuple) (th : thread) : Z := acct_t t (t_vacct th) + vrem_t c t th.
(* only Adds in flight / to come *)
Definition ADD (th : thread) : Prop :=
  Forall is_add (t_prog th) /\ match t_pc th with PE0 _ m _ | PE1 _ m _ => m = EAdd | _ => True end.

Lemma tstep_ADD c s th s' th' : ADD th -> tstep c s th = (s', th') -> ADD th'.
Proof.
  intros [A1 A2] St. unfold tstep in St. unfold ADD.
  destruct (t_pc th) eqn:Epc; try (destruct (t_prog th) as [|o rest] eqn:P; [|unfold start_op in St; destruct o; inversion A1; subst]);
  repeat match type of St with
         | context [match ?x with _ => _ end] => destruct x eqn:?
         | context [if ?x then _ else _] => destruct x eqn:?
         end; inversion St; subst; simpl in *; rewrite ?Epc, ?P; simpl; auto.
Qed.

Ltac vdone := ifz; try reflexivity; try lia.

Lemma tstep_vpt c s th s' th' t :
  c_kind c = KGauge -> c_variant c = Repaired -> pc_ok s (t_pc th) -> TI c s th -> ADD th -> tstep c s th = (s', th') ->
  Ssum KGauge t (hs s') + vown_t c t th' = Ssum KGauge t (hs s) + vown_t c t th.
Proof.
  intros Hk Hv Hpc [A B C D] [AD1 AD2] St. unfold tstep in St. unfold vown_t, vrem_t. unfold pc_ti in C.
  destruct (t_pc th) eqn:Epc; simpl in Hpc; try contradiction; simpl in B.
  - destruct (t_prog th) as [|o rest] eqn:Eprog.
    + inversion St; subst. rewrite Epc, Eprog. reflexivity.
    + assert (L0 : length (t_asked th) = length (t_slots th)) by lia.
      unfold start_op in St. destruct o; simpl in D; simpl vfut.
      * destruct (arity_ok c t0) eqn:Ar; simpl in St.
        -- destruct (lookup s t0); inversion St; subst; simpl; vdone.
        -- inversion St; subst; simpl; vdone.
      * apply andb_true_iff in D as [Dk D]. apply Nat.ltb_lt in Dk. cbv zeta in St. simpl in St.
        destruct (nth_error (t_slots th) slot) as [[|id]|] eqn:G.
        -- inversion St; subst; simpl. destruct (nth_error (t_asked th) slot) as [tc|]; simpl; vdone.
        -- destruct (A _ _ G) as [h [G1 G2]]. unfold get_handle in St. rewrite G1 in St.
           destruct (h_stale h); inversion St; subst; simpl; vdone.
        -- exfalso. apply nth_error_None in G. lia.
      * apply andb_true_iff in D as [Ar D]. rewrite Ar in St. simpl in St. rewrite Ar. simpl.
        destruct (lookup s t0); inversion St; subst; simpl; vdone.
      * destruct (negb (arity_ok c t0)); [inversion St; subst; simpl; vdone|].
        destruct (lookup s t0); inversion St; subst; simpl; vdone.
  - rewrite Hv in St. destruct (capped c && (c_cap c <=? cnt s)); inversion St; subst; simpl; vdone.
  - inversion St; subst; simpl. destruct (capped c && (c_cap c <? cnt s + 1)); simpl; vdone.
  - inversion St; subst; simpl; vdone.
  - destruct (map_load (smap s) (hash_tuple t0)) as [i|].
    + destruct (get_handle s i) as [h|]; inversion St; subst; simpl; vdone.
    + unfold publish in St. inversion St; subst; simpl. rewrite Ssum_app. simpl. unfold fm; simpl.
      destruct (tuple_eqb t0 t); simpl; vdone.
  - inversion St; subst; simpl; vdone.
  - rewrite Hv in St. destruct (map_load (smap s) (hash_tuple t0)) as [i|]; [|inversion St; subst; simpl; vdone].
    destruct (Nat.eqb i id); inversion St; subst; simpl; vdone.
    rewrite Ssum_upd_same by reflexivity. vdone.
  - inversion St; subst; simpl; vdone.
  - inversion St; subst; simpl. rewrite Ssum_upd_same by reflexivity. vdone.
  - destruct (get_handle s id) as [h|] eqn:G; [|destruct C as [h [C1 _]]; unfold get_handle in G; congruence].
    destruct (h_stale h); inversion St; subst; simpl; vdone.
  - destruct C as [h [C1 C2]]. unfold get_handle in St. rewrite C1 in St. inversion St; subst; clear St.
    cbn [hs set_hs t_pc finish t_prog t_asked t_cur t_vacct vpending].
    rewrite (Ssum_upd _ _ _ _ _ _ C1). rewrite C2. unfold targets, fm. cbn [emit_into h_tuple h_val].
    rewrite Hk. unfold apply_emit, measure. cbn [v_main].
    destruct (tuple_eqb (h_tuple h) t); vdone.
  - inversion St; subst; simpl. destruct (t_cur th) as [tc|]; [|congruence]. simpl. destruct (tuple_eqb tc t); vdone.
  - inversion St; subst; simpl. destruct (t_cur th) as [tc|]; [|congruence]. simpl. destruct (tuple_eqb tc t); vdone.
Qed.

(* for gauges every non-landed emission is tallied with weight 1: the count tally is the length of the value tally *)
Lemma tstep_vlen c s th s' th' :
  c_kind c = KGauge -> acct_all (t_acct th) = Z.of_nat (length (t_vacct th)) -> tstep c s th = (s', th') ->
  acct_all (t_acct th') = Z.of_nat (length (t_vacct th')).
Proof.
  intros Hk H St. unfold tstep in St.
  destruct (t_pc th) eqn:Epc; try (destruct (t_prog th) as [|o rest] eqn:P; [|unfold start_op in St; destruct o]);
  repeat match type of St with
         | context [match ?x with _ => _ end] => destruct x eqn:?
         | context [if ?x then _ else _] => destruct x eqn:?
         end; inversion St; subst; simpl in *; auto;
  repeat match goal with |- context [match ?x with _ => _ end] => destruct x end; simpl; unfold weight; rewrite ?Hk; try lia; auto.
Qed.

(* ================================================================= all schedules (gauge) *)
Record InvG (c : cfg) (x : sys) : Prop := {
  ig_2 : Inv2 c x;
  ig_add : Forall ADD (ths x);
  ig_len : Forall (fun th => acct_all (t_acct th) = Z.of_nat (length (t_vacct th))) (ths x) }.
Definition PhiV (c : cfg) (t : tuple) (x : sys) : Z := Ssum KGauge t (hs (sh x)) + tsum (vown_t c t) (ths x).

Lemma sys_step_G c x i t :
  c_kind c = KGauge -> c_variant c = Repaired -> InvG c x ->
  InvG c (sys_step c x i) /\ PhiV c t (sys_step c x i) = PhiV c t x /\ Psi (sys_step c x i) = Psi x /\
  noop (sh (sys_step c x i)) = noop (sh x).
Proof.
  intros Hk Hv [H2 HA HL]. pose proof (sys_step_inv2 c x i Hv H2) as H2'.
  assert (Triv : InvG c x /\ PhiV c t x = PhiV c t x /\ Psi x = Psi x /\ noop (sh x) = noop (sh x))
    by (split; [constructor; assumption | repeat split]).
  unfold sys_step in *. destruct (nth_error (ths x) i) as [th|] eqn:G; [|exact Triv].
  destruct (finished th); [exact Triv|]. destruct (tstep c (sh x) th) as [s' th'] eqn:St.
  destruct H2 as [[HS HP HC HK] HT].
  assert (Hpc : pc_ok (sh x) (t_pc th)) by (rewrite Forall_forall in HP; apply HP; eapply nth_error_In; eauto).
  assert (Hti : TI c (sh x) th) by (rewrite Forall_forall in HT; apply HT; eapply nth_error_In; eauto).
  assert (Had : ADD th) by (rewrite Forall_forall in HA; apply HA; eapply nth_error_In; eauto).
  assert (Hln : acct_all (t_acct th) = Z.of_nat (length (t_vacct th))) by (rewrite Forall_forall in HL; apply (HL th); eapply nth_error_In; eauto).
  split; [|split; [|split]].
  - constructor; [exact H2'| |]; simpl; apply Forall_upd; auto.
    + eapply tstep_ADD; eauto.
    + eapply tstep_vlen; eauto.
  - unfold PhiV; simpl. rewrite (tsum_upd _ _ _ _ th' G).
    pose proof (tstep_vpt c _ _ _ _ t Hk Hv Hpc Hti Had St) as H. lia.
  - unfold Psi; simpl. rewrite (tsum_upd _ _ _ _ th' G).
    destruct (tstep_link c _ _ _ _ Hpc Hv Hti St) as [_ H].
    replace (Dsum s' - (tsum (fun th0 => acct_all (t_acct th0)) (ths x) - acct_all (t_acct th) + acct_all (t_acct th')))
      with ((Dsum s' - acct_all (t_acct th')) + (acct_all (t_acct th) - tsum (fun th0 => acct_all (t_acct th0)) (ths x))) by ring.
    rewrite (mod_congr _ _ _ H). f_equal. ring.
  - simpl. destruct (tstep_link c _ _ _ _ Hpc Hv Hti St) as [H _]. exact H.
Qed.

Lemma run_sched_G c t sched : forall x, c_kind c = KGauge -> c_variant c = Repaired -> InvG c x ->
  InvG c (run_sched c x sched) /\ PhiV c t (run_sched c x sched) = PhiV c t x /\ Psi (run_sched c x sched) = Psi x /\
  noop (sh (run_sched c x sched)) = noop (sh x).
Proof.
  induction sched as [|i r IH]; intros x Hk Hv H; simpl; [split; [exact H | repeat split]|].
  destruct (sys_step_G c x i t Hk Hv H) as [H1 [H2 [H3 H4]]].
  destruct (IH _ Hk Hv H1) as [J1 [J2 [J3 J4]]]. split; [exact J1|]. split; [congruence|]. split; congruence.
Qed.

Lemma InvG_0 c progs : wf_progs c progs = true -> add_only progs -> InvG c (sys0 progs).
Proof.
  intros W A. constructor; [apply Inv2_0; exact W| |]; simpl; apply Forall_forall; intros th H;
    apply in_map_iff in H as [p [<- Hp]].
  - split; simpl; [|exact I]. unfold add_only in A. rewrite Forall_forall in A. auto.
  - reflexivity.
Qed.

Definition vattributed (x : sys) (t : tuple) : Z := tsum (fun th => acct_t t (t_vacct th)) (ths x).
Definition nonlanded (x : sys) : Z := tsum (fun th => Z.of_nat (length (t_vacct th))) (ths x).

Lemma tsum_vown_init c t progs : tsum (vown_t c t) (map thread0 progs) = vemitted_to c progs t.
Proof. induction progs as [|p r IH]; simpl; [reflexivity|]. rewrite IH. unfold vown_t, vrem_t; simpl. lia. Qed.

(* GAUGES, Add/Sub only: every schedule of the repaired machine, well-formed programs, at quiescence, for every tuple t, EXACTLY:
     value the snapshot shows for t + final values of t's unregistered series + sum of the deltas directed at t that did not land
       = sum of the deltas the clients directed at t;
   the emissions that did not land are exactly the ones counted (1 each) by the three drop metrics. *)
Lemma gauge_per_tuple c progs sched :
  c_kind c = KGauge -> c_variant c = Repaired -> wf_progs c progs = true -> add_only progs ->
  let x := run_sched c (sys0 progs) sched in
  quiescent x = true ->
  (forall t, shown KGauge (sh x) t + retired_of KGauge (sh x) t + vattributed x t = vemitted_to c progs t) /\
  (drops (sh x) + unknown (sh x) + stales (sh x)) mod M64 = nonlanded x mod M64 /\
  noop (sh x) = 0.
Proof.
  intros Hk Hv W A x Q. split; [|split].
  - intros t. destruct (run_sched_G c t sched _ Hk Hv (InvG_0 c progs W A)) as [_ [P _]]. fold x in P.
    unfold PhiV in P. simpl in P. rewrite tsum_own_init_v in P || rewrite tsum_vown_init in P. rewrite <- P.
    pose proof (live_is_shown c progs sched t Hv Q) as LS. cbv zeta in LS. fold x in LS. rewrite Hk in LS.
    rewrite Ssum_split. rewrite LS. unfold retired_of, vattributed.
    assert (tsum (vown_t c t) (ths x) = tsum (fun th => acct_t t (t_vacct th)) (ths x)) as ->; [|lia].
    apply tsum_ext. intros th Hin. unfold quiescent in Q. rewrite forallb_forall in Q.
    destruct (finished_inv _ (Q _ Hin)) as [E1 E2]. unfold vown_t, vrem_t. rewrite E1, E2. simpl.
    destruct (targets t (t_cur th)); lia.
  - destruct (run_sched_G c [] sched _ Hk Hv (InvG_0 c progs W A)) as [[_ _ HL] [_ [P _]]]. fold x in P, HL.
    unfold Psi in P. simpl in P.
    assert (tsum (fun th => acct_all (t_acct th)) (map thread0 progs) = 0) as Z0.
    { clear. induction progs; simpl; [reflexivity | lia]. }
    rewrite Z0 in P. unfold Dsum in P. simpl in P.
    assert (E : tsum (fun th => acct_all (t_acct th)) (ths x) = nonlanded x).
    { unfold nonlanded. apply tsum_ext. intros th Hin. rewrite Forall_forall in HL. apply (HL th Hin). }
    rewrite E in P.
    set (D := drops (sh x) + unknown (sh x) + stales (sh x)) in *.
    replace D with ((D - nonlanded x) + nonlanded x) by ring. rewrite <- Zplus_mod_idemp_l. unfold M64 in *. rewrite P. reflexivity.
  - destruct (run_sched_G c [] sched _ Hk Hv (InvG_0 c progs W A)) as [_ [_ [_ P]]]. exact P.
Qed.

Lemma nn_gauge p : Forall (fun o => 0 <= op_weight KGauge o) p.
Proof. induction p as [|o p IH]; constructor; auto. destruct o; simpl; lia. Qed.

Lemma acct_t_nil_of_len t (l : list (tuple * Z)) : length l = 0%nat -> acct_t t l = 0.
Proof. destruct l; simpl; [reflexivity | discriminate]. Qed.

(* ghost-free: if the three drop metrics read 0 at quiescence (fewer than 2^64 emissions), every Add landed, and for every
   tuple the snapshot value plus the final values of its unregistered series is exactly the sum of the deltas directed at it *)
Lemma gauge_series_exact c progs sched :
  c_kind c = KGauge -> c_variant c = Repaired -> wf_progs c progs = true -> add_only progs ->
  progs_weight KGauge progs < M64 ->
  let x := run_sched c (sys0 progs) sched in
  quiescent x = true -> drops (sh x) = 0 -> unknown (sh x) = 0 -> stales (sh x) = 0 ->
  forall t, shown KGauge (sh x) t + retired_of KGauge (sh x) t = vemitted_to c progs t.
Proof.
  intros Hk Hv W A Wlt x Q D0 U0 S0 t.
  destruct (gauge_per_tuple c progs sched Hk Hv W A Q) as [PT [LK _]]. fold x in PT, LK.
  destruct (run_sched_G c [] sched _ Hk Hv (InvG_0 c progs W A)) as [[_ _ HL] _]. fold x in HL.
  assert (N0 : Forall (NN (c_kind c)) (ths (sys0 progs))).
  { simpl. apply Forall_forall. intros th H. apply in_map_iff in H as [p [<- Hp]]. unfold NN; simpl.
    split; [lia|]. split; [rewrite Hk; apply nn_gauge | constructor]. }
  destruct (run_sched_nn c sched _ N0) as [Nq Le]. fold x in Nq, Le.
  assert (Init : tsum (fun th => acct_all (t_acct th) + rem (c_kind c) th) (ths (sys0 progs)) = progs_weight (c_kind c) progs).
  { simpl. clear. induction progs as [|p r IH]; simpl; [reflexivity|]. rewrite IH. unfold rem; simpl. lia. }
  rewrite Init, Hk in Le.
  (* nonlanded is between 0 and the number of emissions *)
  assert (Bnd : 0 <= nonlanded x <= tsum (fun th => acct_all (t_acct th) + rem KGauge th) (ths x)).
  { unfold nonlanded, tsum. rewrite Hk in Nq. clear - Nq HL. induction (ths x) as [|th l IH]; simpl; [lia|].
    inversion Nq as [|? ? [N1 [N2 N3]] Nl]; subst. inversion HL as [|? ? H1 Hl]; subst. specialize (IH Hl Nl).
    pose proof (prog_weight_nonneg _ _ N2). unfold rem in *. lia. }
  rewrite D0, U0, S0 in LK. simpl in LK. rewrite Z.mod_0_l in LK by (unfold M64; lia).
  symmetry in LK. rewrite Z.mod_small in LK by lia.
  assert (V0 : vattributed x t = 0).
  { unfold vattributed, nonlanded, tsum in *. clear - LK. induction (ths x) as [|th l IH]; simpl in *; [reflexivity|].
    assert (length (t_vacct th) = 0%nat /\ fold_right (fun th0 a => Z.of_nat (length (t_vacct th0)) + a) 0 l = 0) as [L0 R0].
    { assert (0 <= fold_right (fun th0 a => Z.of_nat (length (t_vacct th0)) + a) 0 l) by (clear; induction l; simpl; lia). lia. }
    rewrite (acct_t_nil_of_len _ _ L0), (IH R0). reflexivity. }
  specialize (PT t). lia.
Qed.

(* ================================================================= ghost-free aggregate: what the snapshot shows *)
(* sum over the entries of the series map = sum over the handle table restricted to the handles that are in the map *)
Fixpoint isum (G : nat -> handle -> Z) (base : nat) (l : list handle) : Z :=
  match l with [] => 0 | h :: r => G base h + isum G (S base) r end.
Lemma isum_ext G G' base l : (forall i h, G i h = G' i h) -> isum G base l = isum G' base l.
Proof. intros H. revert base; induction l; intros base; simpl; [reflexivity | rewrite H, IHl; reflexivity]. Qed.
Lemma isum_pick G base l j h :
  nth_error l j = Some h ->
  isum (fun i x => if Nat.eqb i (base + j) then G x else 0) base l = G h.
Proof.
  revert base j; induction l as [|y l IH]; intros base [|j] H; simpl in *; try discriminate.
  - inversion H; subst. rewrite Nat.add_0_r, Nat.eqb_refl.
    assert (forall b, (base < b)%nat -> isum (fun i x => if Nat.eqb i base then G x else 0) b l = 0) as Z0.
    { clear. induction l as [|z l IH]; intros b Hb; simpl; [reflexivity|]. destruct (Nat.eqb_spec b base); [lia|]. rewrite IH by lia. reflexivity. }
    rewrite Z0 by lia. lia.
  - destruct (Nat.eqb_spec base (base + S j)); [lia|]. rewrite <- (IH (S base) j H).
    apply isum_ext. intros i x. replace (S base + j)%nat with (base + S j)%nat by lia. reflexivity.
Qed.
Lemma isum_add G1 G2 base l : isum (fun i x => G1 i x + G2 i x) base l = isum G1 base l + isum G2 base l.
Proof. revert base; induction l; intros base; simpl; [reflexivity | rewrite IHl; lia]. Qed.

Definition snap_sum (k : kind) (s : shared) : Z := fold_right (fun tv a => measure k (snd tv) + a) 0 (snapshot s).

Lemma snap_sum_isum k s :
  SInv s ->
  snap_sum k s = isum (fun i h => if in_map s i then measure k (h_val h) else 0) 0 (hs s).
Proof.
  intros [A B C D E]. unfold snap_sum, snapshot, in_map.
  revert A C. generalize (smap s) as m. induction m as [|[key id] m IH]; intros A C; simpl.
  - clear. generalize 0%nat. induction (hs s); intros b; simpl; [reflexivity | rewrite <- IHl; reflexivity].
  - destruct (A key id (or_introl eq_refl)) as [h [H1 _]]. change (get_handle s id) with (nth_error (hs s) id). rewrite H1. simpl.
    inversion C as [|? ? Nin ND]; subst.
    rewrite IH; [|intros k' i' Hin; apply A; right; exact Hin | exact ND].
    rewrite <- (isum_pick (fun x => measure k (h_val x)) 0 (hs s) id h H1). rewrite <- isum_add.
    apply isum_ext. intros i x. simpl.
    destruct (Nat.eqb_spec i id) as [->|Hne].
    + rewrite Nat.eqb_refl. simpl.
      assert (existsb (fun kv : N * nat => Nat.eqb (snd kv) id) m = false) as ->; [|lia].
      apply Bool.not_true_is_false. intros Hex. apply existsb_exists in Hex as [[k' i'] [Hin He]]. apply Nat.eqb_eq in He. simpl in He; subst.
      apply Nin. exact (List.in_map snd _ _ Hin).
    + assert (Nat.eqb id i = false) as -> by (apply Nat.eqb_neq; congruence). simpl.
      destruct (existsb (fun kv : N * nat => Nat.eqb (snd kv) i) m); lia.
Qed.

Definition retired_all (k : kind) (s : shared) : Z :=
  fold_right (fun h a => (if h_stale h then measure k (h_val h) else 0) + a) 0 (hs s).

(* at quiescence a handle is in the map iff it is not stale, so the handle table splits into snapshot + retired *)
Lemma sum_measure_split c progs sched :
  c_variant c = Repaired ->
  let x := run_sched c (sys0 progs) sched in
  quiescent x = true ->
  sum_measure (c_kind c) (hs (sh x)) = snap_sum (c_kind c) (sh x) + retired_all (c_kind c) (sh x).
Proof.
  intros Hv x Q.
  pose proof (run_sched_inv c sched _ Hv (Inv0 c progs)) as [HS _ _ _]. fold x in HS.
  pose proof (conc_removed_is_stale c progs sched Hv Q) as RS. fold x in RS.
  rewrite (snap_sum_isum _ _ HS). unfold retired_all, sum_measure.
  assert (Gen : forall l base, (forall j h, nth_error l j = Some h -> nth_error (hs (sh x)) (base + j) = Some h) ->
    fold_right (fun h a => measure (c_kind c) (h_val h) + a) 0 l =
    isum (fun i h => if in_map (sh x) i then measure (c_kind c) (h_val h) else 0) base l +
    fold_right (fun h a => (if h_stale h then measure (c_kind c) (h_val h) else 0) + a) 0 l).
  { induction l as [|h l IH]; intros base Hl; simpl; [reflexivity|].
    rewrite (IH (S base)); [|intros j h' Hj; replace (S base + j)%nat with (base + S j)%nat by lia; apply Hl; exact Hj].
    assert (Hh : nth_error (hs (sh x)) base = Some h) by (rewrite <- (Nat.add_0_r base); apply Hl; reflexivity).
    assert (in_map (sh x) base = negb (h_stale h)) as ->; [|destruct (h_stale h); simpl; lia].
    destruct (h_stale h) eqn:S.
    - simpl. apply Bool.not_true_is_false. intros M. apply in_map_ids in M. apply in_map_iff in M as [[k i'] [E M]]. simpl in E; subst.
      destruct (si_wf _ HS _ _ M) as [h' [H1 [_ H3]]]. rewrite Hh in H1. inversion H1; subst.
      pose proof (si_stale _ HS _ _ Hh S). congruence.
    - simpl. destruct (RS base h Hh) as [M|M]; [exact M | congruence]. }
  apply (Gen (hs (sh x)) 0%nat). intros j h Hj. exact Hj.
Qed.

(* GHOST-FREE aggregate: what AppendSnapshot shows (series + the three internal drop metrics) plus the final values of the
   unregistered series accounts for everything emitted *)
Lemma conc_visible_conservation c progs sched :
  c_kind c <> KGauge -> c_variant c = Repaired -> wf_progs c progs = true ->
  let x := run_sched c (sys0 progs) sched in
  quiescent x = true ->
  (snap_sum (c_kind c) (sh x) + drops (sh x) + unknown (sh x) + stales (sh x) + retired_all (c_kind c) (sh x)) mod M64
    = progs_weight (c_kind c) progs mod M64.
Proof.
  intros Hk Hv W x Q.
  pose proof (conc_conservation c progs sched Hk Q) as C. fold x in C.
  destruct (conc_per_tuple c progs sched Hk Hv W Q) as [_ [_ N0]]. fold x in N0.
  pose proof (sum_measure_split c progs sched Hv Q) as S. fold x in S.
  rewrite <- C. unfold total. rewrite S, N0. f_equal. ring.
Qed.
