(* C11/Model.v — executable model of HA session replication
     pkg/ha/backlog.go        SyncBacklog: Push, OldestSeq, NewestSeq, Range   (ring with head/size/capacity,
                              literal modulo arithmetic and the uint64 -> int conversions of Range)
     pkg/ha/sync.go           SyncSender.HandleEvent, sessionToCheckpoint
     pkg/ha/sync_receiver.go  HandleSyncSession, HandleBulkSyncPage, storeCheckpoint, deleteCheckpoint,
                              reserveAddresses, releaseAddresses
     pkg/ha/server.go         BulkSync (replay of the backlog)
     pkg/allocator            Registry.Reserve*InPool / Reserve* / ReleaseIP / ReleaseIANAByIP / ReleasePDByPrefix,
                              PoolAllocator / PrefixAllocator Reserve, Release, Contains, prefixToIndex
   Definitions only; proofs are in Proofs.v.

   Strings (session ids, user names, pool keys, SRG names, VRFs) are small numbers; the harness maps them to
   strings.  Addresses are numbers (32 / 128 bit).

   [flags]: each flag set to [true] re-introduces one defect that was found with this check.  [repaired] (all false)
   is what /repo HEAD does for everything that has been fixed there, with the open findings repaired; [head] is /repo
   HEAD exactly: [repaired] plus the findings that are still open (f_stale, f_lagdel).  The other flags are kept only for the historical
   _refuted witnesses in Properties.v; the correspondence check runs [repaired] and [head] only. *)
From OV Require Import Common.Base.

Record flags := mkflags {
  f_range : bool;   (* fixed in bb5ec1b: Range converted uint64 differences to int before comparing them *)
  f_stale : bool;   (* OPEN (stale-redelivery-applied): the receiver applies a message whose sequence number is
                       not above the last one seen *)
  f_drop  : bool;   (* fixed in 88d6de6: the receiver never released what an earlier checkpoint of the session reserved *)
  f_bulk  : bool;   (* fixed in 43d3a11: bulk replay of the backlog sent checkpoints without their action *)
  f_relall : bool;  (* fixed in 88d6de6: release by address from every pool / first containing pool *)
  f_window : bool;  (* fixed in cd04fe0: bulk sync replayed the retained backlog window even when it did not reach
                       back to what the standby already has *)
  f_lagdel : bool;  (* OPEN (bulk-sync-lagging-standby-not-converging): a bulk sync to a standby that has state and is
                       behind replays the window / stores the snapshot on top of what the standby has: a session
                       whose DELETE it missed stays, an address that changed hands may not be re-reserved *)
  f_race : bool     (* fixed in 9165119: HandleEvent assigned the sequence number, pushed to the backlog and
                       enqueued as separate steps of concurrently running handlers *)
}.
Definition repaired : flags := mkflags false false false false false false false false.
(* /repo before the C11 fixes (bb5ec1b, 88d6de6, 43d3a11, cd04fe0) *)
Definition defective : flags := mkflags true true true true true true true true.
(* /repo HEAD: everything fixed except the two findings marked OPEN above *)
Definition head : flags := mkflags false true false false false false true false.

(* ---------- association lists ---------- *)
Section Assoc.
  Context {K V : Type} (eqb : K -> K -> bool).
  Fixpoint aget (k : K) (l : list (K * V)) : option V :=
    match l with
    | [] => None
    | (k', v) :: r => if eqb k k' then Some v else aget k r
    end.
  Fixpoint aset (k : K) (v : V) (l : list (K * V)) : list (K * V) :=
    match l with
    | [] => [(k, v)]
    | (k', v') :: r => if eqb k k' then (k, v) :: r else (k', v') :: aset k v r
    end.
  Fixpoint adel (k : K) (l : list (K * V)) : list (K * V) :=
    match l with
    | [] => []
    | (k', v') :: r => if eqb k k' then adel k r else (k', v') :: adel k r
    end.
End Assoc.

Definition keyeqb (a b : N * N) : bool := N.eqb (fst a) (fst b) && N.eqb (snd a) (snd b).

(* ---------- sessions (active side) and checkpoints (wire / standby store) ---------- *)
Inductive kind := KIPoE | KPPP | KL2GW.

Record session := mksession {
  s_kind : kind; s_sid : N; s_srg : N; s_mac : N; s_ov : N; s_iv : N; s_user : N;
  s_v4 : option N; s_v4pool : N;
  s_v6 : option N; s_napool : N;
  s_pd : option (N * N);        (* IPv6Prefix as "addr/len"; len > 128 stands for an unparseable string *)
  s_pdpool : N;
  s_vrf : N; s_circ : option N; s_rem : option N; s_ppp : N; s_misc : N }.

Record checkpoint := mkcp {
  c_at : N;                      (* 1 "ipoe", 2 "pppoe", 3 "l2gw" *)
  c_sid : N; c_srg : N; c_mac : N; c_ov : N; c_iv : N; c_user : N;
  c_v4 : option N; c_v6 : option N; c_pd : option (N * N);
  c_v4pool : N; c_napool : N; c_pdpool : N;
  c_vrf : N; c_circ : option N; c_rem : option N; c_ppp : N; c_misc : N }.

(* net.ParseCIDR: the address is masked to the prefix length *)
Definition mask_prefix (a len : N) : N := N.shiftl (N.shiftr a (128 - len)) (128 - len).
Definition parse_cidr (p : N * N) : option (N * N) :=
  let (a, l) := p in if N.ltb 128 l then None else Some (mask_prefix a l, l).

(* sync.go sessionToCheckpoint *)
Definition s2c (s : session) : checkpoint :=
  let pd := match s_pd s with Some p => parse_cidr p | None => None end in
  match s_kind s with
  | KIPoE => mkcp 1 (s_sid s) (s_srg s) (s_mac s) (s_ov s) (s_iv s) (s_user s)
                  (s_v4 s) (s_v6 s) pd (s_v4pool s) (s_napool s) (s_pdpool s)
                  (s_vrf s) (s_circ s) (s_rem s) 0 (s_misc s)
  | KPPP => mkcp 2 (s_sid s) (s_srg s) (s_mac s) (s_ov s) (s_iv s) (s_user s)
                  (s_v4 s) (s_v6 s) pd (s_v4pool s) (s_napool s) 0
                  (s_vrf s) None None (s_ppp s) (s_misc s)
  | KL2GW => mkcp 3 (s_sid s) (s_srg s) (s_mac s) (s_ov s) (s_iv s) (s_user s)
                  None None None 0 0 0
                  0 None None 0 (s_misc s)
  end.

(* syncedNamespace: 2 pppoe, 3 l2gw, everything else ipoe *)
Definition ns_of_at (at_ : N) : N := if N.eqb at_ 2 then 2 else if N.eqb at_ 3 then 3 else 1.
Definition cp_key (c : checkpoint) : N * N := (ns_of_at (c_at c), c_sid c).
Definition ns_of_kind (k : kind) : N := match k with KIPoE => 1 | KPPP => 2 | KL2GW => 3 end.
Definition sess_key (s : session) : N * N := (ns_of_kind (s_kind s), s_sid s).

Inductive action := AUpdate | ADelete | ACreate.
Record req := mkreq { q_srg : N; q_seq : N; q_act : action; q_cp : checkpoint }.

(* ---------- backlog.go ---------- *)
Record ring := mkring { r_entries : list (option req); r_head : nat; r_size : nat; r_cap : nat }.

Definition default_cap : nat := N.to_nat 10000.
Definition new_ring (cap : Z) : ring :=
  let c := if (cap <=? 0)%Z then default_cap else Z.to_nat cap in
  mkring (repeat None c) 0 0 c.

Fixpoint list_set {A} (l : list A) (i : nat) (x : A) : list A :=
  match l, i with
  | [], _ => []
  | _ :: r, O => x :: r
  | h :: r, S k => h :: list_set r k x
  end.

Definition push (b : ring) (q : req) : ring :=
  mkring (list_set (r_entries b) (r_head b) (Some q))
         ((r_head b + 1) mod r_cap b)
         (if r_size b <? r_cap b then S (r_size b) else r_size b)
         (r_cap b).

Definition oldest_idx (b : ring) : nat := (r_head b + r_cap b - r_size b) mod r_cap b.   (* size <= capacity *)
Definition entry_seq (b : ring) (i : nat) : result N :=
  match nth_error (r_entries b) i with
  | Some (Some q) => Ok (q_seq q)
  | _ => Panic          (* nil entry dereferenced / index out of range *)
  end.
Definition oldest_seq (b : ring) : result N :=
  if (r_size b =? 0)%nat then Ok 0%N else entry_seq b (oldest_idx b).
Definition newest_seq (b : ring) : result N :=
  if (r_size b =? 0)%nat then Ok 0%N else entry_seq b ((r_head b + r_cap b - 1) mod r_cap b).

Definition two64 : Z := 18446744073709551616.
Definition two63 : Z := 9223372036854775808.
Definition wrap64 (z : Z) : Z := (z mod two64)%Z.                      (* uint64 arithmetic *)
Definition to_int (z : Z) : Z :=                                       (* int(uint64) / int arithmetic *)
  let m := (z mod two64)%Z in if (m <? two63)%Z then m else (m - two64)%Z.

(* makeslice refuses lengths whose byte size exceeds the address space: a runtime panic *)
Definition max_make : Z := 35184372088832.  (* 2^45 pointers *)

Fixpoint collect (b : ring) (start : Z) (i : nat) (n : nat) : result (list (option req)) :=
  match n with
  | O => Ok []
  | S k =>
      let idx := Z.rem (to_int (start + Z.of_nat i)) (Z.of_nat (r_cap b)) in
      if (idx <? 0)%Z then Panic else
      match nth_error (r_entries b) (Z.to_nat idx) with
      | Some e => match collect b start (S i) k with Ok l => Ok (e :: l) | x => x end
                  (* e = None is a nil pointer copied into the result *)
      | None => Panic
      end
  end.

(* backlog.go Range before bb5ec1b, literally *)
Definition range_def (b : ring) (from to : Z) : result (list (option req)) :=
  if (r_size b =? 0)%nat then Ok [] else
  match entry_seq b (oldest_idx b) with
  | Ok os =>
      let os := Z.of_N os in
      let from := if (from <? os)%Z then os else from in
      let start_off := to_int (from - os) in
      let count := to_int (to_int (to - from) + 1) in
      let count := if (to_int (start_off + count) >? Z.of_nat (r_size b))%Z
                   then to_int (Z.of_nat (r_size b) - start_off) else count in
      if (count <=? 0)%Z then Ok [] else
      if (max_make <? count)%Z then Panic else
      collect b (Z.of_nat (oldest_idx b) + start_off) 0 (Z.to_nat count)
  | _ => Panic
  end.

(* backlog.go Range (bb5ec1b): clamp in uint64 before converting *)
Definition range_rep (b : ring) (from to : Z) : result (list (option req)) :=
  if (r_size b =? 0)%nat then Ok [] else
  match entry_seq b (oldest_idx b) with
  | Ok os =>
      let os := Z.of_N os in
      let ns := wrap64 (os + Z.of_nat (r_size b - 1)) in
      let from := if (from <? os)%Z then os else from in
      let to := if (to >? ns)%Z then ns else to in
      if (from >? to)%Z then Ok [] else
      let start_off := to_int (from - os) in
      let count := to_int (to_int (to - from) + 1) in
      if (count <=? 0)%Z then Ok [] else
      if (max_make <? count)%Z then Panic else
      collect b (Z.of_nat (oldest_idx b) + start_off) 0 (Z.to_nat count)
  | _ => Panic
  end.

Definition range (fl : flags) (b : ring) (from to : Z) : result (list (option req)) :=
  if f_range fl then range_def b from to else range_rep b from to.

(* ---------- allocator ---------- *)
Record alloc := mkalloc { a_leases : list (N * N); a_free : list N }.

Fixpoint remove_first (a : N) (l : list N) : list N :=
  match l with
  | [] => []
  | h :: r => if N.eqb h a then r else h :: remove_first a r
  end.

(* PoolAllocator.Reserve / PrefixAllocator.Reserve on a key (address or prefix index); errors are dropped by
   the receiver, so only the state is returned *)
Definition a_reserve (al : alloc) (k sid : N) : alloc :=
  match aget N.eqb k (a_leases al) with
  | Some _ => al          (* same owner: the lease is rewritten unchanged; other owner: ErrAlreadyReserved *)
  | None => mkalloc (aset N.eqb k sid (a_leases al)) (remove_first k (a_free al))
  end.
(* Release: [back] says whether the key may go back on the free list (PoolAllocator.assignable; always for prefixes) *)
Definition a_release (al : alloc) (k : N) (back : bool) : alloc :=
  match aget N.eqb k (a_leases al) with
  | Some _ => mkalloc (adel N.eqb k (a_leases al)) (if back then a_free al ++ [k] else a_free al)
  | None => al
  end.

Record pool := mkpool { p_start : N; p_end : N; p_excl : list N; p_al : alloc }.
Definition p_contains (p : pool) (a : N) : bool := N.leb (p_start p) a && N.leb a (p_end p).
(* pool.go assignable: inside the range and not excluded *)
Definition p_assignable (p : pool) (a : N) : bool := p_contains p a && negb (existsb (N.eqb a) (p_excl p)).
Definition p_reserve (p : pool) (a sid : N) : alloc := a_reserve (p_al p) a sid.
Definition p_release (p : pool) (a : N) : alloc := a_release (p_al p) a (p_assignable p a).

Fixpoint nseq (a : N) (n : nat) : list N :=
  match n with O => [] | S k => a :: nseq (N.succ a) k end.
Definition mk_pool (rs re : N) (excl : list N) : pool :=
  let all := if N.ltb re rs then [] else nseq rs (N.to_nat (re - rs + 1)) in
  mkpool rs re excl (mkalloc [] (rev (filter (fun a => negb (existsb (N.eqb a) excl)) all))).

Record pdpool := mkpd { d_base : N; d_netbits : N; d_plen : N; d_count : N; d_al : alloc }.
Definition n64 : N := 18446744073709551616.
(* prefix.go prefixToIndex, literally (network containment check, then two 64-bit words, wrapping subtraction,
   shifts) *)
Definition prefix_to_index (d : pdpool) (a len : N) : option N :=
  if negb (N.eqb len (d_plen d)) then None else
  if negb (N.eqb (N.shiftr a (128 - d_netbits d)) (N.shiftr (d_base d) (128 - d_netbits d))) then None else
  let ahi := (a / n64)%N in let alo := (a mod n64)%N in
  let bhi := (d_base d / n64)%N in let blo := (d_base d mod n64)%N in
  let dlo := ((alo + n64 - blo) mod n64)%N in
  let borrow := if N.ltb alo blo then 1%N else 0%N in
  let dhi := ((ahi + 2 * n64 - bhi - borrow) mod n64)%N in
  let shift := (128 - d_plen d)%N in
  let idx := if N.leb 64 shift then N.shiftr dhi (shift - 64)
             else if N.eqb shift 0 then dlo
             else N.lor ((N.shiftl dhi (64 - shift)) mod n64) (N.shiftr dlo shift) in
  if N.leb (d_count d) idx then None else Some idx.
Definition mk_pd (net netbits plen : N) : pdpool :=
  let cnt := (2 ^ (plen - netbits))%N in
  mkpd (mask_prefix net netbits) netbits plen cnt (mkalloc [] (rev (nseq 0 (N.to_nat cnt)))).
Definition d_contains (d : pdpool) (p : N * N) : bool :=
  match prefix_to_index d (fst p) (snd p) with Some _ => true | None => false end.

Record registry := mkreg { g_v4 : list (N * pool); g_na : list (N * pool); g_pd : list (N * pdpool) }.

(* Reserve*InPool: the named allocator when it exists, otherwise the first allocator containing the address
   (Go map order; the generator keeps at most one candidate) *)
Definition resolve_v (pools : list (N * pool)) (name a : N) : option N :=
  match aget N.eqb name pools with
  | Some _ => Some name
  | None => match find (fun np => p_contains (snd np) a) pools with
            | Some np => Some (fst np)
            | None => None
            end
  end.
Definition resolve_d (pools : list (N * pdpool)) (name : N) (p : N * N) : option N :=
  match aget N.eqb name pools with
  | Some _ => Some name
  | None => match find (fun np => d_contains (snd np) p) pools with
            | Some np => Some (fst np)
            | None => None
            end
  end.

Definition upd_pool (pools : list (N * pool)) (n : N) (f : pool -> alloc) : list (N * pool) :=
  map (fun np => if N.eqb (fst np) n
                 then (fst np, mkpool (p_start (snd np)) (p_end (snd np)) (p_excl (snd np)) (f (snd np)))
                 else np) pools.
Definition upd_pd (pools : list (N * pdpool)) (n : N) (f : pdpool -> alloc) : list (N * pdpool) :=
  map (fun np => if N.eqb (fst np) n
                 then (fst np, mkpd (d_base (snd np)) (d_netbits (snd np)) (d_plen (snd np)) (d_count (snd np)) (f (snd np)))
                 else np) pools.

Definition reserve_v (pools : list (N * pool)) (name a sid : N) : list (N * pool) :=
  match resolve_v pools name a with
  | Some n => upd_pool pools n (fun p => p_reserve p a sid)
  | None => pools
  end.
Definition d_reserve (d : pdpool) (p : N * N) (sid : N) : alloc :=
  match prefix_to_index d (fst p) (snd p) with
  | Some i => a_reserve (d_al d) i sid
  | None => d_al d
  end.
Definition d_release (d : pdpool) (p : N * N) : alloc :=
  match prefix_to_index d (fst p) (snd p) with
  | Some i => a_release (d_al d) i true
  | None => d_al d
  end.
Definition reserve_d (pools : list (N * pdpool)) (name : N) (p : N * N) (sid : N) : list (N * pdpool) :=
  match resolve_d pools name p with
  | Some n => upd_pd pools n (fun d => d_reserve d p sid)
  | None => pools
  end.

(* Registry.Release*InPool (88d6de6): same resolution as the reservation *)
Definition release_v (pools : list (N * pool)) (name a : N) : list (N * pool) :=
  match resolve_v pools name a with
  | Some n => upd_pool pools n (fun p => p_release p a)
  | None => pools
  end.
Definition release_d (pools : list (N * pdpool)) (name : N) (p : N * N) : list (N * pdpool) :=
  match resolve_d pools name p with
  | Some n => upd_pd pools n (fun d => d_release d p)
  | None => pools
  end.
(* before 88d6de6: ReleaseIP / ReleaseIANAByIP release from every allocator; ReleasePDByPrefix from the first containing *)
Definition release_v_all (pools : list (N * pool)) (a : N) : list (N * pool) :=
  map (fun np => (fst np, mkpool (p_start (snd np)) (p_end (snd np)) (p_excl (snd np)) (p_release (snd np) a))) pools.
Definition release_d_first (pools : list (N * pdpool)) (p : N * N) : list (N * pdpool) :=
  match find (fun np => d_contains (snd np) p) pools with
  | Some np => upd_pd pools (fst np) (fun d => d_release d p)
  | None => pools
  end.

(* sync_receiver.go reserveAddresses *)
Definition reserve_cp (g : registry) (c : checkpoint) : registry :=
  let v4 := match c_v4 c with Some a => reserve_v (g_v4 g) (c_v4pool c) a (c_sid c) | None => g_v4 g end in
  let na := match c_v6 c with Some a => reserve_v (g_na g) (c_napool c) a (c_sid c) | None => g_na g end in
  let pd := match c_pd c with
            | Some p => if N.ltb 0 (snd p) then reserve_d (g_pd g) (c_pdpool c) p (c_sid c) else g_pd g
            | None => g_pd g
            end in
  mkreg v4 na pd.

(* sync_receiver.go releaseAddresses *)
Definition release_cp (fl : flags) (g : registry) (c : checkpoint) : registry :=
  let v4 := match c_v4 c with
            | Some a => if f_relall fl then release_v_all (g_v4 g) a else release_v (g_v4 g) (c_v4pool c) a
            | None => g_v4 g end in
  let na := match c_v6 c with
            | Some a => if f_relall fl then release_v_all (g_na g) a else release_v (g_na g) (c_napool c) a
            | None => g_na g end in
  let pd := match c_pd c with
            | Some p => if N.ltb 0 (snd p)
                        then (if f_relall fl then release_d_first (g_pd g) p else release_d (g_pd g) (c_pdpool c) p)
                        else g_pd g
            | None => g_pd g
            end in
  mkreg v4 na pd.

(* ---------- receiver ---------- *)
Record receiver := mkrecv { rc_last : list (N * N); rc_store : list ((N * N) * checkpoint); rc_reg : registry }.

Definition last_of (rc : receiver) (srg : N) : N :=
  match aget N.eqb srg (rc_last rc) with Some v => v | None => 0%N end.

(* storeCheckpoint + reserveAddresses (CREATE/UPDATE and every checkpoint of a bulk page) *)
Definition recv_update (fl : flags) (rc : receiver) (c : checkpoint) : receiver :=
  let k := cp_key c in
  let g1 := if f_drop fl then rc_reg rc
            else match aget keyeqb k (rc_store rc) with
                 | Some old => release_cp fl (rc_reg rc) old
                 | None => rc_reg rc
                 end in
  mkrecv (rc_last rc) (aset keyeqb k c (rc_store rc)) (reserve_cp g1 c).

(* deleteCheckpoint + releaseAddresses *)
Definition recv_delete (fl : flags) (rc : receiver) (c : checkpoint) : receiver :=
  let k := cp_key c in
  let g1 := if f_drop fl then release_cp fl (rc_reg rc) c
            else match aget keyeqb k (rc_store rc) with
                 | Some old => release_cp fl (rc_reg rc) old
                 | None => rc_reg rc
                 end in
  mkrecv (rc_last rc) (adel keyeqb k (rc_store rc)) g1.

(* HandleSyncSession *)
Definition recv_step (fl : flags) (rc : receiver) (q : req) : receiver :=
  if negb (f_stale fl) && N.leb (q_seq q) (last_of rc (q_srg q)) then rc else
  let rc1 := mkrecv (aset N.eqb (q_srg q) (q_seq q) (rc_last rc)) (rc_store rc) (rc_reg rc) in
  match q_act q with
  | ADelete => recv_delete fl rc1 (q_cp q)
  | _ => recv_update fl rc1 (q_cp q)
  end.

(* HandleSyncSession when the store write fails (opdb Put/Delete error): the handler returns the error before any
   reservation is touched.  /repo HEAD has already overwritten lastSeq at that point; a receiver that drops what is
   not above lastSeq ([repaired]) must leave lastSeq alone, or the retransmission would be dropped as stale. *)
Definition recv_fail (fl : flags) (rc : receiver) (q : req) : receiver :=
  if f_stale fl then mkrecv (aset N.eqb (q_srg q) (q_seq q) (rc_last rc)) (rc_store rc) (rc_reg rc) else rc.

Definition recv_run (fl : flags) (rc : receiver) (qs : list req) : receiver := fold_left (recv_step fl) qs rc.

(* entries handed to a handler one by one; a nil entry makes the handler panic (the earlier ones were applied) *)
Fixpoint somes (l : list (option req)) : list req * bool :=
  match l with
  | [] => ([], false)
  | Some q :: r => let (a, p) := somes r in (q :: a, p)
  | None :: _ => ([], true)
  end.

(* server.go BulkSync (from the backlog) + HandleBulkSyncPage.
   before 43d3a11 (f_bulk): every entry's checkpoint was stored, whatever its action;
   since 43d3a11: only the latest entry of each session is replayed, and only when it
   is not a DELETE.  In both, lastSeq becomes the sequence of the last entry of the window. *)
Definition has_later (k : N * N) (l : list req) : bool := existsb (fun q => keyeqb k (cp_key (q_cp q))) l.
Fixpoint compact (l : list req) : list checkpoint :=
  match l with
  | [] => []
  | q :: r => if has_later (cp_key (q_cp q)) r then compact r
              else match q_act q with ADelete => compact r | _ => q_cp q :: compact r end
  end.
Definition bulk_cps (fl : flags) (entries : list req) : list checkpoint :=
  if f_bulk fl then map q_cp entries else compact entries.
Definition recv_bulk (fl : flags) (rc : receiver) (srg : N) (entries : list req) : receiver :=
  let rc1 := fold_left (recv_update fl) (bulk_cps fl entries) rc in
  match rev entries with
  | q :: _ => if N.ltb 0 (q_seq q)
              then mkrecv (aset N.eqb srg (q_seq q) (rc_last rc1)) (rc_store rc1) (rc_reg rc1) else rc1
  | [] => rc1
  end.
(* pages sent: before 43d3a11 one per pageSize entries; now one per pageSize checkpoints, at least one *)
Definition bulk_pages (fl : flags) (entries : list req) (pagesz : nat) : nat :=
  let n := length (bulk_cps fl entries) in
  let p := ((n + pagesz - 1) / pagesz)%nat in
  if f_bulk fl then p else Nat.max 1 p.

(* ---------- sender ---------- *)
Definition sender := list (N * (N * ring)).     (* configured SRG -> (sequence counter, backlog) *)

Definition n64z (n : N) : N := (n mod n64)%N.

(* HandleEvent: None when the event is ignored *)
Definition sender_event (sn : sender) (s : session) (released : bool) : sender * option req :=
  if N.eqb (s_srg s) 0 then (sn, None) else
  match aget N.eqb (s_srg s) sn with
  | None => (sn, None)
  | Some (seq, b) =>
      let seq' := n64z (seq + 1) in
      let q := mkreq (s_srg s) seq' (if released then ADelete else AUpdate) (s2c s) in
      (aset N.eqb (s_srg s) (seq', push b q) sn, Some q)
  end.

(* ---------- the whole system: active node, stream, standby ---------- *)
Inductive op :=
| OEvent (s : session) (released : bool)
| ODeliver (srg : N)                 (* the next request of the SRG not yet delivered, in order *)
| ORedeliver (srg seq : N)           (* a request emitted earlier, once more *)
| ODeliverF (srg : N)                (* as ODeliver, but the standby's store write fails: the request is lost *)
| ORedeliverF (srg seq : N)          (* as ORedeliver, with a failing store write *)
| OReplay (srg : N) (from to : Z)    (* GetBacklog(srg).Range(from,to) through HandleSyncSession *)
| OMutation (s : session) (ok : bool) (* SyncSender.HandleMutationResult: a successful subscriber mutation is replicated as
                                        an UPDATE of the session it returns, whatever its state; a failed one is not *)
| OBulk (srg : N)                    (* BulkSync from the backlog through HandleBulkSyncPage *)
| OBulkChurn (srg : N) (k pagesz : nat) (s : session) (released : bool).
                                     (* the same while the active node keeps working: after every page sent, k more
                                        lifecycle events (s, released) are handled before the next page is built *)

Record sys := mksys {
  y_sender : sender;
  y_recv : receiver;
  y_sent : list req;                         (* everything emitted, oldest first *)
  y_next : list (N * nat);                   (* per SRG: how many have been delivered in order *)
  y_live : list ((N * N) * session);         (* the active node's live sessions (specification state) *)
  y_panics : nat }.

Definition sent_of (srg : N) (l : list req) : list req := filter (fun q => N.eqb (q_srg q) srg) l.
Definition next_of (y : sys) (srg : N) : nat :=
  match aget N.eqb srg (y_next y) with Some v => v | None => O end.

Definition live_step (live : list ((N * N) * session)) (s : session) (released : bool) :=
  if released then adel keyeqb (sess_key s) live else aset keyeqb (sess_key s) s live.

Definition event_op (y : sys) (s : session) (released : bool) : sys :=
  match sender_event (y_sender y) s released with
  | (sn, Some q) => mksys sn (y_recv y) (y_sent y ++ [q]) (y_next y) (live_step (y_live y) s released) (y_panics y)
  | (_, None) => y
  end.

Fixpoint iter_n {A} (n : nat) (f : A -> A) (x : A) : A := match n with O => x | S k => iter_n k f (f x) end.

(* BulkSync: the answer of Range is a VALUE — what the active node does between two pages (the [churn]) cannot change
   it.  Afterwards the in-order stream resumes behind the sequence the bulk sync ended with. *)
(* bulkSyncFromIterators (cd04fe0): the checkpoints of all live sessions of the SRG, the pages carry the sender's
   sequence number *)
Definition snapshot_cps (y : sys) (srg : N) : list checkpoint :=
  map (fun ks => s2c (snd ks)) (filter (fun ks => N.eqb (s_srg (snd ks)) srg) (y_live y)).
(* a snapshot means "these are all the sessions of the SRG".  Repaired (proposal fixes/C11_bulk_complete_set.patch, not applied to /repo): what the
   standby holds for the SRG and is not sent is dropped and released, and the reservations of what it was sent are
   made once every release has been applied.  The model states the resulting end state directly: drop (and release)
   every stored session of the SRG, then store the snapshot — same store, leases and free sets as the patch's
   seen-set algorithm whenever no two live sessions claim the same address.  /repo HEAD (f_lagdel) keeps what it has. *)
Definition purge (fl : flags) (rc : receiver) (srg : N) : receiver :=
  fold_left (fun r kc => if N.eqb (c_srg (snd kc)) srg then recv_delete fl r (snd kc) else r) (rc_store rc) rc.
Definition recv_snapshot (fl : flags) (rc : receiver) (srg seq : N) (cps : list checkpoint) : receiver :=
  let rc0 := if f_lagdel fl then rc else purge fl rc srg in
  let rc1 := fold_left (recv_update fl) cps rc0 in
  if N.ltb 0 seq then mkrecv (aset N.eqb srg seq (rc_last rc1)) (rc_store rc1) (rc_reg rc1) else rc1.

Definition bulk_op (fl : flags) (churn : sys -> sys) (y : sys) (srg : N) (k pagesz : nat) : sys :=
  match aget N.eqb srg (y_sender y) with
  | Some (seq, b) =>
      match oldest_seq b, newest_seq b with
      | Ok os, Ok ns =>
          if N.eqb os 0 || N.eqb ns 0 then y else
          match range fl b (Z.of_N os) (Z.of_N ns) with
          | Ok l =>
              let (qs, p) := somes l in
              if p then mksys (y_sender y) (y_recv y) (y_sent y) (y_next y) (y_live y) (S (y_panics y)) else
              let last := last_of (y_recv y) srg in
              if f_window fl || (N.leb os (last + 1) && (f_lagdel fl || N.eqb last 0)) then
                (* the window reaches back to what the standby has — and, repaired
                   (proposal fixes/C11_bulk_complete_set.patch, not applied to /repo), the standby has nothing yet (a standby with state gets the
                   snapshot: bare checkpoints can convey neither a DELETE nor the order in which an address changed
                   hands): replay it *)
                let y1 := iter_n (bulk_pages fl qs pagesz * k) churn y in
                mksys (y_sender y1) (recv_bulk fl (y_recv y1) srg qs) (y_sent y1)
                      (aset N.eqb srg (Nat.max (next_of y1 srg) (N.to_nat ns)) (y_next y1)) (y_live y1) (y_panics y1)
              else
                (* otherwise: full snapshot of the live sessions *)
                let cps := snapshot_cps y srg in
                let y1 := iter_n ((length cps / pagesz + 1) * k) churn y in
                mksys (y_sender y1) (recv_snapshot fl (y_recv y1) srg seq cps) (y_sent y1)
                      (aset N.eqb srg (Nat.max (next_of y1 srg) (N.to_nat seq)) (y_next y1)) (y_live y1) (y_panics y1)
          | _ => mksys (y_sender y) (y_recv y) (y_sent y) (y_next y) (y_live y) (S (y_panics y))
          end
      | _, _ => mksys (y_sender y) (y_recv y) (y_sent y) (y_next y) (y_live y) (S (y_panics y))
      end
  | None => y
  end.

Definition sys_step (fl : flags) (y : sys) (o : op) : sys :=
  match o with
  | OEvent s released => event_op y s released
  | OMutation s ok => if ok then event_op y s false else y
  | ODeliver srg =>
      match nth_error (sent_of srg (y_sent y)) (next_of y srg) with
      | Some q => mksys (y_sender y) (recv_step fl (y_recv y) q) (y_sent y)
                        (aset N.eqb srg (S (next_of y srg)) (y_next y)) (y_live y) (y_panics y)
      | None => y
      end
  | ORedeliver srg seq =>
      match find (fun q => N.eqb (q_seq q) seq) (sent_of srg (y_sent y)) with
      | Some q => mksys (y_sender y) (recv_step fl (y_recv y) q) (y_sent y) (y_next y) (y_live y) (y_panics y)
      | None => y
      end
  | ODeliverF srg =>
      match nth_error (sent_of srg (y_sent y)) (next_of y srg) with
      | Some q => mksys (y_sender y) (recv_fail fl (y_recv y) q) (y_sent y)
                        (aset N.eqb srg (S (next_of y srg)) (y_next y)) (y_live y) (y_panics y)
      | None => y
      end
  | ORedeliverF srg seq =>
      match find (fun q => N.eqb (q_seq q) seq) (sent_of srg (y_sent y)) with
      | Some q => mksys (y_sender y) (recv_fail fl (y_recv y) q) (y_sent y) (y_next y) (y_live y) (y_panics y)
      | None => y
      end
  | OReplay srg from to =>
      match aget N.eqb srg (y_sender y) with
      | Some (_, b) =>
          match range fl b from to with
          | Ok l => let (qs, p) := somes l in
                    mksys (y_sender y) (recv_run fl (y_recv y) qs) (y_sent y) (y_next y) (y_live y)
                          (if p then S (y_panics y) else y_panics y)
          | _ => mksys (y_sender y) (y_recv y) (y_sent y) (y_next y) (y_live y) (S (y_panics y))
          end
      | None => y
      end
  | OBulk srg => bulk_op fl (fun y' => y') y srg 0 1
  | OBulkChurn srg k pagesz s released =>
      bulk_op fl (fun y' => event_op y' s released) y srg k pagesz
  end.

Definition sys_init (cap : Z) (srgs : list N) (g : registry) : sys :=
  mksys (map (fun n => (n, (0%N, new_ring cap))) srgs) (mkrecv [] [] g) [] [] [] O.

Definition sys_run (fl : flags) (y : sys) (ops : list op) : sys := fold_left (sys_step fl) ops y.

(* ---------- specification-level views used by the theorems and printed by the driver ---------- *)
(* what a checkpoint reserves: (family 4/6/7, resolved pool, key) *)
Definition resv_cp (g : registry) (c : checkpoint) : list ((N * N * N) * N) :=
  (match c_v4 c with
   | Some a => match resolve_v (g_v4 g) (c_v4pool c) a with Some n => [((4%N, n, a), c_sid c)] | None => [] end
   | None => [] end) ++
  (match c_v6 c with
   | Some a => match resolve_v (g_na g) (c_napool c) a with Some n => [((6%N, n, a), c_sid c)] | None => [] end
   | None => [] end) ++
  (match c_pd c with
   | Some p => if N.ltb 0 (snd p) then
                 match resolve_d (g_pd g) (c_pdpool c) p with
                 | Some n => match aget N.eqb n (g_pd g) with
                             | Some d => match prefix_to_index d (fst p) (snd p) with
                                         | Some i => [((7%N, n, i), c_sid c)]
                                         | None => [] end
                             | None => [] end
                 | None => [] end
               else []
   | None => [] end).

Definition leases_of (g : registry) : list ((N * N * N) * N) :=
  flat_map (fun np => map (fun kv => ((4%N, fst np, fst kv), snd kv)) (a_leases (p_al (snd np)))) (g_v4 g) ++
  flat_map (fun np => map (fun kv => ((6%N, fst np, fst kv), snd kv)) (a_leases (p_al (snd np)))) (g_na g) ++
  flat_map (fun np => map (fun kv => ((7%N, fst np, fst kv), snd kv)) (a_leases (d_al (snd np)))) (g_pd g).

Definition expected_store (live : list ((N * N) * session)) : list ((N * N) * checkpoint) :=
  map (fun ks => (fst ks, s2c (snd ks))) live.
Definition expected_leases (g : registry) (live : list ((N * N) * session)) : list ((N * N * N) * N) :=
  flat_map (fun ks => resv_cp g (s2c (snd ks))) live.

(* index of a delegated prefix back to its address (PrefixAllocator.indexToIPNet), for printing *)
Definition index_to_prefix (d : pdpool) (i : N) : N :=
  ((d_base d + N.shiftl i (128 - d_plen d)) mod (n64 * n64))%N.

(* the caller of Range keeps the answer while the ring goes on being pushed to: (answer as observed afterwards, ring) *)
Definition range_then_push (fl : flags) (b : ring) (from to : Z) (later : list req) :
  result (list (option req)) * ring :=
  let r := range fl b from to in (r, fold_left push later b).

(* ---------- specification-level runs used by the theorems ---------- *)
(* the active node handles a list of lifecycle events: final sender state and everything emitted *)
Fixpoint sender_run (sn : sender) (evs : list (session * bool)) : sender * list req :=
  match evs with
  | [] => (sn, [])
  | (s, rel) :: t =>
      let (sn1, oq) := sender_event sn s rel in
      let (sn2, l) := sender_run sn1 t in
      (sn2, match oq with Some q => q :: l | None => l end)
  end.
Definition live_run (evs : list (session * bool)) : list ((N * N) * session) :=
  fold_left (fun l e => live_step l (fst e) (snd e)) evs [].

(* [delivery reqs m d m']: the list [d] handed to the standby delivers the stream [reqs] in order, starting with
   m messages already delivered and ending with m', where any message delivered before may be delivered again
   at any point (duplicates, retransmissions, replays of earlier ranges) *)
Inductive delivery (reqs : list req) : nat -> list req -> nat -> Prop :=
| dl_nil m : delivery reqs m [] m
| dl_next m q d m' : nth_error reqs m = Some q -> delivery reqs (S m) d m' -> delivery reqs m (q :: d) m'
| dl_dup m k q d m' : (k < m)%nat -> nth_error reqs k = Some q -> delivery reqs m d m' -> delivery reqs m (q :: d) m'.

(* replays that a receiver without sequence comparison tolerates: every retransmission starts at or before the first undelivered message and
   runs on, without a gap, at least to the newest message delivered so far (what a replay of the backlog does) *)
Inductive delivery_runs (reqs : list req) : nat -> list req -> nat -> Prop :=
| dr_nil m : delivery_runs reqs m [] m
| dr_run m a b d m' : (a <= m)%nat -> (m <= b)%nat -> (b <= length reqs)%nat ->
    delivery_runs reqs b d m' -> delivery_runs reqs m (firstn (b - a) (skipn a reqs) ++ d) m'.

(* what in-order delivery with duplicate suppression by the transport gives, and all that /repo HEAD's receiver (which
   never compares sequence numbers) needs: a message may be delivered again as long as no LATER message of the same
   session has been delivered yet.  The complement is exactly the recorded finding stale-redelivery-applied. *)
Inductive delivery_latest (reqs : list req) : nat -> list req -> nat -> Prop :=
| dv_nil m : delivery_latest reqs m [] m
| dv_next m q d m' : nth_error reqs m = Some q -> delivery_latest reqs (S m) d m' -> delivery_latest reqs m (q :: d) m'
| dv_dup m k q d m' : (k < m)%nat -> nth_error reqs k = Some q ->
    (forall j q', (k < j < m)%nat -> nth_error reqs j = Some q' -> cp_key (q_cp q') <> cp_key (q_cp q)) ->
    delivery_latest reqs m d m' -> delivery_latest reqs m (q :: d) m'.

(* ---------- SyncSender.HandleEvent as the steps it consists of, run by concurrent handlers, and the sender's role ----------
   The event bus starts every handler call in its own goroutine (pkg/events/local/bus.go: go h(req.event)).
   /repo HEAD (9165119): the checkpoint is built first, then number, push and enqueue happen under one mutex.  Before
   that (f_race): (1) seqCounter.Add(1); (2) sessionToCheckpoint, backlog.Push; (3) sendCh <- req — a handler could be
   preempted after (1).  [SStart] runs a handler up to the point where it can be preempted, [SFinish] lets it run to
   completion.  [SSetActive] is SyncSender.SetActive (Manager.driveSync on every role transition): it only sets the
   flag that HandleEvent tests first; counters and backlog rings live as long as the process. *)
Record sstate := mkss {
  ss_seq : N; ss_ring : ring; ss_chan : list req;
  ss_pend : list (N * (option N * (session * bool)));
  ss_active : bool }.
Inductive sop := SStart (i : N) (s : session) (rel : bool) | SFinish (i : N) | SSetActive (b : bool).
Definition ss_init (cap : Z) : sstate := mkss 0 (new_ring cap) [] [] true.
Definition ss_step (fl : flags) (g : N) (st : sstate) (o : sop) : sstate :=
  match o with
  | SSetActive b => mkss (ss_seq st) (ss_ring st) (ss_chan st) (ss_pend st) b
  | SStart i s rel =>
      if negb (ss_active st) then st else         (* if !s.active.Load() { return } *)
      if f_race fl
      then let sq := n64z (ss_seq st + 1) in
           mkss sq (ss_ring st) (ss_chan st) (aset N.eqb i (Some sq, (s, rel)) (ss_pend st)) (ss_active st)
      else mkss (ss_seq st) (ss_ring st) (ss_chan st) (aset N.eqb i (None, (s, rel)) (ss_pend st)) (ss_active st)
  | SFinish i =>
      match aget N.eqb i (ss_pend st) with
      | None => st
      | Some (osq, (s, rel)) =>
          let sq := match osq with Some x => x | None => n64z (ss_seq st + 1) end in
          let q := mkreq g sq (if rel then ADelete else AUpdate) (s2c s) in
          mkss (match osq with Some _ => ss_seq st | None => sq end) (push (ss_ring st) q) (ss_chan st ++ [q])
               (adel N.eqb i (ss_pend st)) (ss_active st)
      end
  end.
Definition ss_run (fl : flags) (g : N) (cap : Z) (ops : list sop) : sstate :=
  fold_left (ss_step fl g) ops (ss_init cap).
(* the retained entries in ring order, oldest slot first *)
Definition ring_list (b : ring) : list (option req) :=
  map (fun j => match nth_error (r_entries b) ((oldest_idx b + j) mod r_cap b) with Some e => e | None => None end)
      (seq 0 (r_size b)).
