From Coq Require Import Extraction ExtrOcamlBasic.
From OV Require Import Common.Base C11.Model.
Extraction Language OCaml.
Extraction "C11_model.ml" mkflags repaired defective head new_ring push oldest_seq newest_seq range
  mk_pool mk_pd mkreg sys_init sent_of next_of sys_step sys_run s2c expected_store expected_leases leases_of index_to_prefix ss_run ring_list.
