(* C11/Properties.v — the property theorems only.  Each is closed by [exact] of a lemma from Proofs.v (or by
   [vm_compute] on a concrete witness for the _refuted / _nonvacuous statements) and followed by Print Assumptions.

   Flag sets (Model.flags): [head] = /repo HEAD (cd04fe0): everything found with this check is fixed there except that
   two open findings (f_stale: the receiver never compares sequence numbers; f_lagdel: bulk sync of a lagging
   standby); [repaired] = [head] with those repaired; [defective] = /repo before
   the C11 fixes bb5ec1b, 88d6de6, 43d3a11, cd04fe0, 9165119.  Theorems named *_before_<commit>_* are historical witnesses of
   defects fixed in that commit; the correspondence check runs [repaired] and [head] only, so a regression to any of
   them is a VIOLATION. *)
From OV Require Import Common.Base C11.Model C11.Proofs.

(* ------------------------------------------------------------------ backlog *)
(* A ring of any capacity, filled by any number of pushes of consecutive uint64 sequence numbers (wrapped any
   number of times), answers Range(from,to) for EVERY pair of uint64 bounds with exactly the retained entries
   (the last [cap] pushed) whose sequence number lies in [from,to], oldest first — empty, inverted and
   far-away ranges included. *)
Theorem C11_backlog_range :
  forall cap qs first from to,
  (0 < cap <= max_make)%Z -> consec first qs -> (0 <= first)%Z -> (first + Z.of_nat (length qs) <= two64)%Z ->
  (0 <= from < two64)%Z -> (0 <= to < two64)%Z ->
  range repaired (fold_left push qs (new_ring cap)) from to =
  Ok (map Some (filter (in_range from to) (skipn (length qs - Z.to_nat cap) qs))).
Proof. exact backlog_range_repaired. Qed.
Print Assumptions C11_backlog_range.

(* NewSyncBacklog(capacity <= 0) uses the default capacity 10000 *)
Theorem C11_backlog_range_default_capacity :
  forall cap qs first from to,
  (cap <= 0)%Z -> consec first qs -> (0 <= first)%Z -> (first + Z.of_nat (length qs) <= two64)%Z ->
  (0 <= from < two64)%Z -> (0 <= to < two64)%Z ->
  range repaired (fold_left push qs (new_ring cap)) from to =
  Ok (map Some (filter (in_range from to) (skipn (length qs - Z.to_nat 10000) qs))).
Proof. exact backlog_range_default. Qed.
Print Assumptions C11_backlog_range_default_capacity.

(* Historical: the Range of /repo before bb5ec1b (flag f_range) was exact as long as every sequence number and bound is below 2^63. *)
Theorem C11_backlog_range_before_bb5ec1b :
  forall cap qs first from to,
  (0 < cap <= max_make)%Z -> consec first qs -> (1 <= first)%Z -> (first + Z.of_nat (length qs) <= two63)%Z ->
  (0 <= from < two63)%Z -> (0 <= to < two63)%Z ->
  range defective (fold_left push qs (new_ring cap)) from to =
  Ok (map Some (filter (in_range from to) (skipn (length qs - Z.to_nat cap) qs))).
Proof. exact backlog_range_before_fix. Qed.
Print Assumptions C11_backlog_range_before_bb5ec1b.

(* ... and wrong above (before bb5ec1b): an entry outside the requested range is returned (capacity 4) *)
Definition ex_sess (sid : N) (v4 : option N) (pool : N) : session :=
  mksession KIPoE sid 1 2199023255553 100 7 1 v4 pool None 0 None 0 0 None None 0 3600.
Definition ex_q (seq : N) (rel : bool) (s : session) : req := mkreq 1 seq (act_of rel) (s2c s).
Definition ex_qs3 : list req :=
  reqs_from 1 0 [(ex_sess 1 None 0, false); (ex_sess 2 None 0, false); (ex_sess 3 None 0, false)].

Theorem C11_backlog_huge_seq_refuted :
  exists cap qs from to q,
    consec 1 qs /\ (0 <= from < two64)%Z /\ (0 <= to < two64)%Z /\
    range defective (fold_left push qs (new_ring cap)) from to = Ok [Some q] /\ in_range from to q = false.
Proof.
  exists 4%Z, ex_qs3, (two63 + 1)%Z, (two63 + 1)%Z, (ex_q 1 false (ex_sess 1 None 0)).
  split; [exact (reqs_from_consec 1 0 _)|]. split; [vm_compute; split; [discriminate|reflexivity]|].
  split; [vm_compute; split; [discriminate|reflexivity]|]. split; vm_compute; reflexivity.
Qed.
Print Assumptions C11_backlog_huge_seq_refuted.

(* ... or the call panics on a negative index (capacity 5) *)
Theorem C11_backlog_huge_seq_panic_refuted :
  exists cap qs from to,
    consec 1 qs /\ (0 <= from < two64)%Z /\ (0 <= to < two64)%Z /\
    range defective (fold_left push qs (new_ring cap)) from to = Panic.
Proof.
  exists 5%Z, ex_qs3, (two63 + 1)%Z, (two63 + 1)%Z.
  split; [exact (reqs_from_consec 1 0 _)|]. split; [vm_compute; split; [discriminate|reflexivity]|].
  split; [vm_compute; split; [discriminate|reflexivity]|]. vm_compute; reflexivity.
Qed.
Print Assumptions C11_backlog_huge_seq_panic_refuted.

(* The active node's backlog after any history of lifecycle events of an SRG: the counter equals the number
   of events and Range returns exactly the retained updates of the requested range. *)
Theorem C11_sender_backlog_exact :
  forall cap g evs from to,
  g <> 0%N -> (forall e, In e evs -> s_srg (fst e) = g) -> (N.of_nat (length evs) < n64)%N ->
  (0 < cap <= max_make)%Z -> (0 <= from < two64)%Z -> (0 <= to < two64)%Z ->
  exists seq b, aget N.eqb g (fst (sender_run [(g, (0%N, new_ring cap))] evs)) = Some (seq, b) /\
    seq = N.of_nat (length evs) /\
    range repaired b from to =
      Ok (map Some (filter (in_range from to)
            (skipn (length evs - Z.to_nat cap) (snd (sender_run [(g, (0%N, new_ring cap))] evs))))).
Proof. exact sender_backlog_exact. Qed.
Print Assumptions C11_sender_backlog_exact.

Example C11_backlog_range_nonvacuous :
  (* capacity 2, three pushes: the ring has wrapped, seq 1 is gone, Range(0,2) = [2], Range(3,9) = [3], Range(3,2) = [] *)
  let b := fold_left push ex_qs3 (new_ring 2) in
  consec 1 ex_qs3 /\
  option_map (map (option_map q_seq)) (match range repaired b 0 2 with Ok l => Some l | _ => None end) = Some [Some 2%N] /\
  option_map (map (option_map q_seq)) (match range repaired b 3 9 with Ok l => Some l | _ => None end) = Some [Some 3%N] /\
  range repaired b 3 2 = Ok [] /\ oldest_seq b = Ok 2%N /\ newest_seq b = Ok 3%N.
Proof. split; [exact (reqs_from_consec 1 0 _)|]. vm_compute. repeat split; reflexivity. Qed.
Print Assumptions C11_backlog_range_nonvacuous.

(* ------------------------------------------------------------------ identity and addressing *)
(* The checkpoint of a session carries its identity (id, SRG, MAC, VLANs, user) and, for IPoE/PPPoE, exactly its
   IPv4 address, IANA address and delegated prefix (network address of addr/len, as ParseCIDR returns it) *)
Theorem C11_checkpoint_identity :
  forall s, let c := s2c s in
  c_sid c = s_sid s /\ c_srg c = s_srg s /\ c_mac c = s_mac s /\ c_ov c = s_ov s /\ c_iv c = s_iv s /\
  c_user c = s_user s /\ cp_key c = sess_key s /\
  (s_kind s <> KL2GW ->
     c_v4 c = s_v4 s /\ c_v6 c = s_v6 s /\ c_v4pool c = s_v4pool s /\ c_napool c = s_napool s /\ c_vrf c = s_vrf s /\
     c_pd c = match s_pd s with Some p => parse_cidr p | None => None end) /\
  (s_kind s = KL2GW -> c_v4 c = None /\ c_v6 c = None /\ c_pd c = None).
Proof. exact checkpoint_identity. Qed.
Print Assumptions C11_checkpoint_identity.

(* ------------------------------------------------------------------ convergence of the store *)
(* After ANY history of create/update/release events of an SRG on the active node and ANY delivery of the
   resulting stream that is in order with arbitrary redelivery of earlier messages, the (repaired) standby's
   replicated store is exactly the checkpoints of the sessions live on the active node, and its last sequence
   number is the sender's. *)
Theorem C11_converges :
  forall g0 cap g evs d,
  g <> 0%N -> (forall e, In e evs -> s_srg (fst e) = g) -> (N.of_nat (length evs) < n64)%N ->
  let reqs := snd (sender_run [(g, (0%N, new_ring cap))] evs) in
  delivery reqs 0 d (length reqs) ->
  rc_store (recv_run repaired (mkrecv [] [] g0) d) = expected_store (live_run evs) /\
  last_of (recv_run repaired (mkrecv [] [] g0) d) g = N.of_nat (length evs).
Proof. exact converges_store. Qed.
Print Assumptions C11_converges.

Definition ex_reg : registry :=
  mkreg [(1, mk_pool 167772161 167772172 [167772161]); (3, mk_pool 167772161 167772172 [167772161])]%N
        [(1, mk_pool 42540766411282592856903984951653826561 42540766411282592856903984951653826570 [])]%N
        [(1, mk_pd 42540766411592077866725330020378607616 48 56)]%N.
Definition ex_a : N := 167772165.
Definition ex_b : N := 167772166.

(* /repo HEAD (flag f_stale, known finding stale-redelivery-applied): create, release, then the create delivered once
   more — the session is back on the standby *)
Theorem C11_converges_head_refuted :
  exists g0 cap g evs d,
  g <> 0%N /\ (forall e, In e evs -> s_srg (fst e) = g) /\
  delivery (snd (sender_run [(g, (0%N, new_ring cap))] evs)) 0 d (length (snd (sender_run [(g, (0%N, new_ring cap))] evs))) /\
  live_run evs = [] /\
  rc_store (recv_run head (mkrecv [] [] g0) d) <> expected_store (live_run evs) /\
  leases_of (rc_reg (recv_run head (mkrecv [] [] g0) d)) <> [].
Proof.
  exists ex_reg, 8%Z, 1%N, [(ex_sess 1 (Some ex_a) 1, false); (ex_sess 1 (Some ex_a) 1, true)],
         [ex_q 1 false (ex_sess 1 (Some ex_a) 1); ex_q 2 true (ex_sess 1 (Some ex_a) 1); ex_q 1 false (ex_sess 1 (Some ex_a) 1)].
  split; [discriminate|]. split; [intros e [<-|[<-|[]]]; reflexivity|]. split.
  - eapply dl_next; [reflexivity|]. eapply dl_next; [reflexivity|].
    eapply (dl_dup _ 2 0); [lia|reflexivity|]. apply dl_nil.
  - split; [reflexivity|]. split; vm_compute; discriminate.
Qed.
Print Assumptions C11_converges_head_refuted.

Example C11_converges_nonvacuous :
  (* the same history and delivery: the hypotheses of C11_converges hold and the repaired standby ends empty;
     with the release left out it ends with exactly the session's checkpoint *)
  let s := ex_sess 1 (Some ex_a) 1 in
  delivery (snd (sender_run [(1%N, (0%N, new_ring 8))] [(s, false); (s, true)])) 0
           [ex_q 1 false s; ex_q 2 true s; ex_q 1 false s] 2 /\
  rc_store (recv_run repaired (mkrecv [] [] ex_reg) [ex_q 1 false s; ex_q 2 true s; ex_q 1 false s]) = [] /\
  rc_store (recv_run repaired (mkrecv [] [] ex_reg) [ex_q 1 false s; ex_q 1 false s]) = [((1, 1)%N, s2c s)] /\
  leases_of (rc_reg (recv_run repaired (mkrecv [] [] ex_reg) [ex_q 1 false s; ex_q 1 false s])) = [((4, 1, ex_a)%N, 1%N)].
Proof.
  cbv zeta. split.
  - eapply dl_next; [reflexivity|]. eapply dl_next; [reflexivity|].
    eapply (dl_dup _ 2 0); [lia|reflexivity|]. apply dl_nil.
  - vm_compute. repeat split; reflexivity.
Qed.
Print Assumptions C11_converges_nonvacuous.

(* ------------------------------------------------------------------ pool reservations *)
(* Under the same hypotheses, if the registry starts with nothing reserved and the active node never has two live
   sessions claiming the same (family, pool, address-or-prefix) — at any point of the history — then the
   (repaired) standby's pools hold a reservation (family, pool, key) -> session id exactly when a live session's
   checkpoint reserves it: nothing missing, nothing left over, every owner right. *)
Theorem C11_pools_exact :
  forall g0 cap g evs d,
  g <> 0%N -> (forall e, In e evs -> s_srg (fst e) = g) -> (N.of_nat (length evs) < n64)%N ->
  fresh g0 ->
  (forall i, (i <= length evs)%nat -> uniq g0 (live_run (firstn i evs))) ->
  let reqs := snd (sender_run [(g, (0%N, new_ring cap))] evs) in
  delivery reqs 0 d (length reqs) ->
  forall x sid, lease_at (rc_reg (recv_run repaired (mkrecv [] [] g0) d)) x = Some sid <->
                In (x, sid) (expected_leases g0 (live_run evs)).
Proof. exact pools_exact. Qed.
Print Assumptions C11_pools_exact.

Lemma ex_reg_fresh : fresh ex_reg.
Proof. apply fresh_mk; simpl; intros np H; repeat (destruct H as [<-|H]; [reflexivity|]); destruct H. Qed.
Print Assumptions ex_reg_fresh.

Ltac ex_uniq :=
  intros i Hi; simpl in Hi;
  do 6 (try (destruct i as [|i]; [vm_compute; repeat constructor; simpl; intuition discriminate|try lia])).
Ltac ex_inorder := repeat (eapply dl_next; [reflexivity|]); apply dl_nil.

(* before 88d6de6 (flag f_drop; fixed in /repo): an update that changes the address leaves the old one reserved *)
Theorem C11_pools_exact_before_88d6de6_refuted :
  exists g0 cap g evs d x sid,
  g <> 0%N /\ (forall e, In e evs -> s_srg (fst e) = g) /\ fresh g0 /\
  (forall i, (i <= length evs)%nat -> uniq g0 (live_run (firstn i evs))) /\
  delivery (snd (sender_run [(g, (0%N, new_ring cap))] evs)) 0 d (length (snd (sender_run [(g, (0%N, new_ring cap))] evs))) /\
  lease_at (rc_reg (recv_run defective (mkrecv [] [] g0) d)) x = Some sid /\
  ~ In (x, sid) (expected_leases g0 (live_run evs)).
Proof.
  exists ex_reg, 8%Z, 1%N, [(ex_sess 1 (Some ex_a) 1, false); (ex_sess 1 (Some ex_b) 1, false)],
         [ex_q 1 false (ex_sess 1 (Some ex_a) 1); ex_q 2 false (ex_sess 1 (Some ex_b) 1)], (4, 1, ex_a)%N, 1%N.
  split; [discriminate|]. split; [intros e [<-|[<-|[]]]; reflexivity|]. split; [exact ex_reg_fresh|].
  split; [ex_uniq|]. split; [ex_inorder|]. split; [vm_compute; reflexivity|].
  vm_compute. intuition discriminate.
Qed.
Print Assumptions C11_pools_exact_before_88d6de6_refuted.

(* before 88d6de6 (flag f_relall; fixed in /repo): releasing a session frees the same address held by a live session
   in another (VRF) pool *)
Theorem C11_release_ignores_pool_before_88d6de6_refuted :
  exists g0 cap g evs d x sid,
  g <> 0%N /\ (forall e, In e evs -> s_srg (fst e) = g) /\ fresh g0 /\
  (forall i, (i <= length evs)%nat -> uniq g0 (live_run (firstn i evs))) /\
  delivery (snd (sender_run [(g, (0%N, new_ring cap))] evs)) 0 d (length (snd (sender_run [(g, (0%N, new_ring cap))] evs))) /\
  In (x, sid) (expected_leases g0 (live_run evs)) /\
  lease_at (rc_reg (recv_run defective (mkrecv [] [] g0) d)) x = None.
Proof.
  exists ex_reg, 8%Z, 1%N,
         [(ex_sess 1 (Some ex_a) 1, false); (ex_sess 2 (Some ex_a) 3, false); (ex_sess 1 (Some ex_a) 1, true)],
         [ex_q 1 false (ex_sess 1 (Some ex_a) 1); ex_q 2 false (ex_sess 2 (Some ex_a) 3); ex_q 3 true (ex_sess 1 (Some ex_a) 1)],
         (4, 3, ex_a)%N, 2%N.
  split; [discriminate|]. split; [intros e [<-|[<-|[<-|[]]]]; reflexivity|]. split; [exact ex_reg_fresh|].
  split; [ex_uniq|]. split; [ex_inorder|]. split; vm_compute; auto.
Qed.
Print Assumptions C11_release_ignores_pool_before_88d6de6_refuted.

(* before 43d3a11 (flag f_bulk; fixed in /repo): a bulk replay after everything was delivered brings a released
   session back *)
Theorem C11_bulk_replay_before_43d3a11_refuted :
  exists ops,
  let y := sys_run defective (sys_init 8 [1%N] ex_reg) ops in
  next_of y 1 = length (y_sent y) /\ y_panics y = O /\ y_live y = [] /\
  rc_store (y_recv y) <> expected_store (y_live y) /\ leases_of (rc_reg (y_recv y)) <> [].
Proof.
  exists [OEvent (ex_sess 1 (Some ex_a) 1) false; OEvent (ex_sess 1 (Some ex_a) 1) true; ODeliver 1; ODeliver 1; OBulk 1].
  vm_compute. repeat split; try reflexivity; discriminate.
Qed.
Print Assumptions C11_bulk_replay_before_43d3a11_refuted.

Example C11_pools_exact_nonvacuous :
  (* two sessions, one gains an IANA address and changes its IPv4 address, the other is released; duplicates in the
     delivery; the hypotheses of C11_pools_exact hold and the standby ends with exactly session 1's two reservations *)
  let s1 := ex_sess 1 (Some ex_a) 1 in
  let s1' := mksession KIPoE 1 1 2199023255553 100 7 1 (Some ex_b) 0 (Some 42540766411282592856903984951653826563%N) 1 None 0 0 None None 0 3600 in
  let s2 := ex_sess 2 (Some ex_b) 1 in
  let evs := [(s1, false); (s2, false); (s2, true); (s1', false)] in
  let d := [ex_q 1 false s1; ex_q 1 false s1; ex_q 2 false s2; ex_q 3 true s2; ex_q 2 false s2; ex_q 4 false s1'; ex_q 3 true s2] in
  fresh ex_reg /\ (forall i, (i <= length evs)%nat -> uniq ex_reg (live_run (firstn i evs))) /\
  delivery (snd (sender_run [(1%N, (0%N, new_ring 2))] evs)) 0 d 4 /\
  expected_leases ex_reg (live_run evs) =
    [((4, 1, ex_b)%N, 1%N); ((6, 1, 42540766411282592856903984951653826563)%N, 1%N)] /\
  leases_of (rc_reg (recv_run repaired (mkrecv [] [] ex_reg) d)) =
    [((4, 1, ex_b)%N, 1%N); ((6, 1, 42540766411282592856903984951653826563)%N, 1%N)].
Proof.
  cbv zeta. split; [exact ex_reg_fresh|]. split; [ex_uniq|]. split.
  - eapply dl_next; [vm_compute; reflexivity|]. eapply (dl_dup _ 1 0); [lia|vm_compute; reflexivity|].
    eapply dl_next; [vm_compute; reflexivity|]. eapply dl_next; [vm_compute; reflexivity|]. eapply (dl_dup _ 3 1); [lia|vm_compute; reflexivity|].
    eapply dl_next; [vm_compute; reflexivity|]. eapply (dl_dup _ 4 2); [lia|vm_compute; reflexivity|]. apply dl_nil.
  - vm_compute. split; reflexivity.
Qed.
Print Assumptions C11_pools_exact_nonvacuous.

(* ------------------------------------------------------------------ replays of ranges on a receiver without sequence comparison *)
(* PARTIAL (for /repo HEAD and every flag set with f_stale; the full statement C11_converges is refuted for them, see
   C11_converges_head_refuted): the replicated STORE still converges for every history when each
   retransmission starts at or before the first undelivered message and runs on without a gap at least to the
   newest message delivered so far (single in-order deliveries, a duplicate of the newest message and replays of
   the backlog up to its end are such runs).  Missing with respect to the full property: arbitrary redelivery of
   older messages (refuted), and the pool reservations under range replays (not proved; proved for duplicates of a
   session's newest message: C11_pools_exact_head). *)
Theorem C11_converges_replays_partial :
  forall g0 cap g fl evs d,
  f_stale fl = true ->
  g <> 0%N -> (forall e, In e evs -> s_srg (fst e) = g) -> (N.of_nat (length evs) < n64)%N ->
  let reqs := snd (sender_run [(g, (0%N, new_ring cap))] evs) in
  delivery_runs reqs 0 d (length reqs) ->
  forall k, aget keyeqb k (rc_store (recv_run fl (mkrecv [] [] g0) d)) =
            aget keyeqb k (expected_store (live_run evs)).
Proof. exact converges_store_replays. Qed.
Print Assumptions C11_converges_replays_partial.

Example C11_converges_replays_partial_nonvacuous :
  (* create, update, release of session 1 and a create of session 2; delivered as [1], [1,2] (replay from the start),
     [2,3,4] (replay overlapping the newest), [4] (duplicate of the newest) *)
  let s1 := ex_sess 1 (Some ex_a) 1 in
  let s2 := ex_sess 2 (Some ex_b) 1 in
  let evs := [(s1, false); (s1, false); (s1, true); (s2, false)] in
  let reqs := snd (sender_run [(1%N, (0%N, new_ring 8))] evs) in
  delivery_runs reqs 0 (firstn 1 (skipn 0 reqs) ++ firstn 2 (skipn 0 reqs) ++ firstn 3 (skipn 1 reqs) ++
                        firstn 1 (skipn 3 reqs) ++ []) 4 /\
  expected_store (live_run evs) = [((1, 2)%N, s2c s2)].
Proof.
  cbv zeta. split; [|vm_compute; reflexivity].
  apply (dr_run _ 0 0 1); [lia|lia|vm_compute; lia|].
  apply (dr_run _ 1 0 2); [lia|lia|vm_compute; lia|].
  apply (dr_run _ 2 1 4); [lia|lia|vm_compute; lia|].
  apply (dr_run _ 4 3 4); [lia|lia|vm_compute; lia|].
  apply dr_nil.
Qed.
Print Assumptions C11_converges_replays_partial_nonvacuous.

(* ------------------------------------------------------------------ the answer of Range is a value *)
(* Op sequence [Range; Push*; observe]: whatever is pushed after the call, the answer the caller holds is still
   exactly the entries that were retained, in range, AT THE TIME OF THE CALL.  In Gallina this is immediate (a list
   is a value); it is stated because it is the contract the model assumes of the Go code — "the result does not
   alias the ring" — and the harness tests exactly that: every Range answer is read again after each of cap+1
   further pushes, and BulkSync is run while the active node pushes between two pages (op OBulkChurn). *)
Theorem C11_range_answer_survives_pushes :
  forall cap qs first from to later,
  (0 < cap <= max_make)%Z -> consec first qs -> (0 <= first)%Z -> (first + Z.of_nat (length qs) <= two64)%Z ->
  (0 <= from < two64)%Z -> (0 <= to < two64)%Z ->
  fst (range_then_push repaired (fold_left push qs (new_ring cap)) from to later) =
  Ok (map Some (filter (in_range from to) (skipn (length qs - Z.to_nat cap) qs))).
Proof.
  intros cap qs first from to later Hc Hcs Hf Hm Hfr Hto. unfold range_then_push. cbn [fst].
  exact (backlog_range_repaired cap qs first from to Hc Hcs Hf Hm Hfr Hto).
Qed.
Print Assumptions C11_range_answer_survives_pushes.

(* fault sequences: a delivery whose store write fails (the handler returns the error; on /repo HEAD lastSeq has already been
   overwritten, the repaired receiver leaves it alone) followed by the retransmission of the same message has exactly
   the effect of one successful delivery — for every flag set, HEAD's included.  With C11_converges /
   C11_converges_head: failed attempts that are retransmitted before anything newer do not change the outcome. *)
Theorem C11_failed_then_retransmitted : forall fl rc q, recv_step fl (recv_fail fl rc q) q = recv_step fl rc q.
Proof. exact failed_then_retransmitted. Qed.
Print Assumptions C11_failed_then_retransmitted.

(* ------------------------------------------------------------------ /repo HEAD's receiver *)
(* HEAD (Model.head — and every flag set that applies whatever it is handed, releases the previous checkpoint's
   reservations and releases pool-aware) never compares sequence numbers.  It converges — store AND pools — for
   every history and every delivery in which a message is delivered again only while no LATER message of the same
   session has been delivered (delivery_latest: in-order delivery plus duplicate suppression by the transport; its
   complement is exactly the recorded finding stale-redelivery-applied, see C11_converges_head_refuted). *)
Theorem C11_converges_head :
  forall g0 cap g fl evs d,
  f_stale fl = true -> f_drop fl = false -> f_relall fl = false ->
  g <> 0%N -> (forall e, In e evs -> s_srg (fst e) = g) -> (N.of_nat (length evs) < n64)%N ->
  let reqs := snd (sender_run [(g, (0%N, new_ring cap))] evs) in
  delivery_latest reqs 0 d (length reqs) ->
  rc_store (recv_run fl (mkrecv [] [] g0) d) = expected_store (live_run evs).
Proof. exact converges_head. Qed.
Print Assumptions C11_converges_head.

Theorem C11_pools_exact_head :
  forall g0 cap g fl evs d,
  f_stale fl = true -> f_drop fl = false -> f_relall fl = false ->
  g <> 0%N -> (forall e, In e evs -> s_srg (fst e) = g) -> (N.of_nat (length evs) < n64)%N ->
  fresh g0 ->
  (forall i, (i <= length evs)%nat -> uniq g0 (live_run (firstn i evs))) ->
  let reqs := snd (sender_run [(g, (0%N, new_ring cap))] evs) in
  delivery_latest reqs 0 d (length reqs) ->
  forall x sid, lease_at (rc_reg (recv_run fl (mkrecv [] [] g0) d)) x = Some sid <->
                In (x, sid) (expected_leases g0 (live_run evs)).
Proof. exact pools_exact_head. Qed.
Print Assumptions C11_pools_exact_head.

Example C11_head_nonvacuous :
  (* session 1 created, renewed with a new address, session 2 created and released; delivery with a duplicate of the
     newest message of session 1 (seq 2, after seq 3 of session 2 was delivered) and of the release *)
  let s1 := ex_sess 1 (Some ex_a) 1 in
  let s1' := ex_sess 1 (Some ex_b) 1 in
  let s2 := ex_sess 2 (Some ex_a) 1 in
  let evs := [(s1, false); (s1', false); (s2, false); (s2, true)] in
  let d := [ex_q 1 false s1; ex_q 2 false s1'; ex_q 3 false s2; ex_q 2 false s1'; ex_q 4 true s2; ex_q 4 true s2; ex_q 2 false s1'] in
  f_stale head = true /\ f_drop head = false /\ f_relall head = false /\
  (forall i, (i <= length evs)%nat -> uniq ex_reg (live_run (firstn i evs))) /\
  delivery_latest (snd (sender_run [(1%N, (0%N, new_ring 8))] evs)) 0 d 4 /\
  leases_of (rc_reg (recv_run head (mkrecv [] [] ex_reg) d)) = [((4, 1, ex_b)%N, 1%N)] /\
  rc_store (recv_run head (mkrecv [] [] ex_reg) d) = [((1, 1)%N, s2c s1')].
Proof.
  cbv zeta. split; [reflexivity|]. split; [reflexivity|]. split; [reflexivity|]. split; [ex_uniq|]. split.
  - eapply dv_next; [vm_compute; reflexivity|]. eapply dv_next; [vm_compute; reflexivity|].
    eapply dv_next; [vm_compute; reflexivity|].
    eapply (dv_dup _ 3 1); [lia|vm_compute; reflexivity| |].
    { intros j q' Hj. assert (j = 2%nat) by lia. subst j. vm_compute. intros E; inversion E; subst. discriminate. }
    eapply dv_next; [vm_compute; reflexivity|].
    eapply (dv_dup _ 4 3); [lia|vm_compute; reflexivity|intros j q' Hj; lia|].
    eapply (dv_dup _ 4 1); [lia|vm_compute; reflexivity| |].
    { intros j q' Hj. assert (j = 2 \/ j = 3)%nat by lia. destruct H; subst j; vm_compute; intros E; inversion E; subst; discriminate. }
    apply dv_nil.
  - vm_compute. split; reflexivity.
Qed.
Print Assumptions C11_head_nonvacuous.

(* ------------------------------------------------------------------ bulk sync *)
(* A fresh standby joins after ANY history evs1 of the SRG on the active node (backlog wrapped or not): BulkSync
   (server.go: latest live checkpoint of every session in the window; or, repaired, the session tables when the
   window does not reach back to what the standby has), then any further history evs2 delivered in order by the live
   stream.  Afterwards the standby's store holds exactly the sessions live on the active node, nothing panicked, and
   the stream position is the sender's.  For /repo HEAD (and [repaired]) no further hypothesis is needed.  For flag sets
   that always replay the window (f_window: /repo before cd04fe0) the hypothesis [window_covers] — every live session
   still has an entry in the retained window — is needed (C11_bulk_window_before_cd04fe0_refuted).
   The pool reservations are C11_bulk_then_stream_pools_exact below. *)
Theorem C11_bulk_then_stream_store_converges :
  forall fl g0 cap g evs1 evs2,
  f_range fl = false -> f_stale fl = true -> f_bulk fl = false ->
  g <> 0%N -> (forall e, In e (evs1 ++ evs2) -> s_srg (fst e) = g) ->
  (0 < cap <= max_make)%Z -> (Z.of_nat (length (evs1 ++ evs2)) < two63 - 1)%Z -> evs1 <> [] ->
  (f_window fl = true -> window_covers cap evs1 g) ->
  let y := sys_run fl (sys_init cap [g] g0)
             (ev_ops evs1 ++ [OBulk g] ++ ev_ops evs2 ++ repeat (ODeliver g) (length evs2)) in
  y_live y = live_run (evs1 ++ evs2) /\ y_panics y = O /\ next_of y g = length (y_sent y) /\
  forall k, aget keyeqb k (rc_store (y_recv y)) = aget keyeqb k (expected_store (y_live y)).
Proof. exact bulk_then_stream. Qed.
Print Assumptions C11_bulk_then_stream_store_converges.

(* Historical (fixed in cd04fe0): without the coverage hypothesis — capacity 2, three sessions created, fresh standby,
   bulk sync — session 1 is missing on the standby *)
Definition before_cd04fe0 : flags := mkflags false true false false false true true true.
Definition before_9165119 : flags := mkflags false true false false false false true true.
Theorem C11_bulk_window_before_cd04fe0_refuted :
  exists cap evs1,
  let y := sys_run before_cd04fe0 (sys_init cap [1%N] ex_reg) (ev_ops evs1 ++ [OBulk 1]) in
  next_of y 1 = length (y_sent y) /\ y_panics y = O /\
  exists k, aget keyeqb k (rc_store (y_recv y)) = None /\ aget keyeqb k (expected_store (y_live y)) <> None.
Proof.
  exists 2%Z, [(ex_sess 1 (Some ex_a) 1, false); (ex_sess 2 (Some ex_b) 1, false); (ex_sess 3 None 0, false)].
  vm_compute. split; [reflexivity|]. split; [reflexivity|]. exists (1, 1)%N. split; [reflexivity|discriminate].
Qed.
Print Assumptions C11_bulk_window_before_cd04fe0_refuted.

Example C11_bulk_nonvacuous :
  (* the same wrapped history: /repo HEAD (snapshot when the standby is behind the window) converges; the code before
     cd04fe0 converged when the window covered (capacity 3) *)
  let evs1 := [(ex_sess 1 (Some ex_a) 1, false); (ex_sess 2 (Some ex_b) 1, false); (ex_sess 3 None 0, false)] in
  let evs2 := [(ex_sess 2 (Some ex_b) 1, true)] in
  let ops := ev_ops evs1 ++ [OBulk 1] ++ ev_ops evs2 ++ repeat (ODeliver 1) (length evs2) in
  map fst (rc_store (y_recv (sys_run head (sys_init 2 [1%N] ex_reg) ops))) = [(1, 1); (1, 3)]%N /\
  map fst (rc_store (y_recv (sys_run before_cd04fe0 (sys_init 3 [1%N] ex_reg) ops))) = [(1, 1); (1, 3)]%N /\
  window_covers 3 evs1 1.
Proof.
  cbv zeta. split; [vm_compute; reflexivity|]. split; [vm_compute; reflexivity|].
  apply window_covers_unwrapped. vm_compute. lia.
Qed.
Print Assumptions C11_bulk_nonvacuous.

(* Open finding bulk-sync-lagging-standby-not-converging (/repo HEAD, flag f_lagdel): the standby holds session 1, the
   DELETE is not delivered, a bulk sync follows (FromSequence = 1) and the stream is delivered to the end — the
   session and its lease stay on the standby for ever.  The repaired model (a lagging standby gets a snapshot, and a snapshot means
   "replace all") converges on the same history. *)
Theorem C11_bulk_lagging_head_refuted :
  exists ops,
  let y := sys_run head (sys_init 8 [1%N] ex_reg) ops in
  next_of y 1 = length (y_sent y) /\ y_panics y = O /\ y_live y = [] /\
  rc_store (y_recv y) <> expected_store (y_live y) /\ leases_of (rc_reg (y_recv y)) <> [] /\
  let y' := sys_run repaired (sys_init 8 [1%N] ex_reg) ops in
  rc_store (y_recv y') = [] /\ leases_of (rc_reg (y_recv y')) = [].
Proof.
  exists [OEvent (ex_sess 1 (Some ex_a) 1) false; ODeliver 1; OEvent (ex_sess 1 (Some ex_a) 1) true; OBulk 1; ODeliver 1].
  vm_compute. repeat split; try reflexivity; discriminate.
Qed.
Print Assumptions C11_bulk_lagging_head_refuted.

(* ------------------------------------------------------------------ concurrent handlers of the sender *)
(* The event bus runs every handler call in its own goroutine, and Manager.driveSync calls SetActive on every role
   transition.  With number + push + enqueue atomic (/repo HEAD since 9165119, ~f_race), for EVERY interleaving of handler
   starts, completions and role transitions (failover and failback within one process included) the stream
   (sendCh) carries consecutive sequence numbers in order, the backlog is that stream pushed in order, and Range is
   exact — i.e. the hypothesis [consec] of C11_backlog_range and the stream shape assumed by C11_converges* hold. *)
Theorem C11_sender_atomic_exact :
  forall fl g cap ops from to,
  f_race fl = false -> f_range fl = false -> (N.of_nat (length ops) < n64)%N ->
  (0 < cap <= max_make)%Z -> (0 <= from < two64)%Z -> (0 <= to < two64)%Z ->
  let st := ss_run fl g cap ops in
  consec 1 (ss_chan st) /\ ss_seq st = N.of_nat (length (ss_chan st)) /\
  ss_ring st = fold_left push (ss_chan st) (new_ring cap) /\
  range fl (ss_ring st) from to =
    Ok (map Some (filter (in_range from to) (skipn (length (ss_chan st) - Z.to_nat cap) (ss_chan st)))).
Proof. exact sender_atomic_exact. Qed.
Print Assumptions C11_sender_atomic_exact.

(* Historical (fixed in 9165119; flag f_race): handler 1 takes number 1 and is preempted, handler 2
   takes 2, pushes and enqueues, then handler 1 finishes.  The stream is 2,1; the ring holds 2,1; Range(3,3) returns the
   entry with sequence 1 (outside the range) and Range(1,1) returns nothing although sequence 1 is retained. *)
Theorem C11_sender_race_before_9165119_refuted :
  exists ops,
  let st := ss_run before_9165119 1 4 ops in
  map q_seq (ss_chan st) = [2; 1]%N /\ ~ consec 1 (ss_chan st) /\
  map (option_map q_seq) (ring_list (ss_ring st)) = [Some 2; Some 1]%N /\
  option_map (map (option_map q_seq)) (match range before_9165119 (ss_ring st) 3 3 with Ok l => Some l | _ => None end) = Some [Some 1%N] /\
  range before_9165119 (ss_ring st) 1 1 = Ok [] /\
  (* the same interleaving with atomic handlers *)
  map q_seq (ss_chan (ss_run repaired 1 4 ops)) = [1; 2]%N.
Proof.
  exists [SStart 1 (ex_sess 1 None 0) false; SStart 2 (ex_sess 2 None 0) false; SFinish 2; SFinish 1].
  cbv zeta. split; [vm_compute; reflexivity|]. split.
  - intros H. specialize (H 0%nat _ eq_refl). vm_compute in H. discriminate.
  - vm_compute. repeat split; reflexivity.
Qed.
Print Assumptions C11_sender_race_before_9165119_refuted.

Example C11_sender_roles_nonvacuous :
  (* three updates, failover (an event while not active is not replicated), failback, two more updates, with an
     overlapping pair of handlers at the end: the counter goes on, the ring holds 1..5 in order *)
  let s := ex_sess 1 None 0 in
  let ops := [SStart 1 s false; SFinish 1; SStart 2 s false; SFinish 2; SStart 3 s false; SFinish 3;
              SSetActive false; SStart 4 s false; SFinish 4; SSetActive true;
              SStart 5 s false; SStart 6 s false; SFinish 6; SFinish 5] in
  let st := ss_run head 1 8 ops in
  map q_seq (ss_chan st) = [1; 2; 3; 4; 5]%N /\
  map (option_map q_seq) (ring_list (ss_ring st)) = [Some 1; Some 2; Some 3; Some 4; Some 5]%N /\ ss_seq st = 5%N.
Proof. vm_compute. repeat split; reflexivity. Qed.
Print Assumptions C11_sender_roles_nonvacuous.

(* ... and the standby's pools hold exactly the live sessions' reservations (same hypotheses, plus the receiver's release
   behaviour since 88d6de6, a registry without leases and an active node on which no two live sessions ever claim the
   same family/pool/key).  With C11_bulk_then_stream_store_converges this is the full property for a fresh standby that
   joins at ANY point of ANY history, whether the backlog has wrapped or not, on /repo HEAD. *)
Theorem C11_bulk_then_stream_pools_exact :
  forall fl g0 cap g evs1 evs2,
  f_range fl = false -> f_stale fl = true -> f_bulk fl = false -> f_drop fl = false -> f_relall fl = false ->
  g <> 0%N -> (forall e, In e (evs1 ++ evs2) -> s_srg (fst e) = g) ->
  (0 < cap <= max_make)%Z -> (Z.of_nat (length (evs1 ++ evs2)) < two63 - 1)%Z -> evs1 <> [] ->
  (f_window fl = true -> window_covers cap evs1 g) ->
  fresh g0 ->
  (forall i, (i <= length (evs1 ++ evs2))%nat -> uniq g0 (live_run (firstn i (evs1 ++ evs2)))) ->
  let y := sys_run fl (sys_init cap [g] g0)
             (ev_ops evs1 ++ [OBulk g] ++ ev_ops evs2 ++ repeat (ODeliver g) (length evs2)) in
  forall x sid, lease_at (rc_reg (y_recv y)) x = Some sid <-> In (x, sid) (expected_leases g0 (y_live y)).
Proof. exact bulk_then_stream_pools. Qed.
Print Assumptions C11_bulk_then_stream_pools_exact.

Example C11_bulk_pools_nonvacuous :
  (* three sessions with addresses, capacity 2 (wrapped: /repo HEAD takes the snapshot path), then session 2 is released
     and session 3 takes its address: hypotheses hold for [head]; the standby ends with sessions 1 and 3 *)
  let s1 := ex_sess 1 (Some ex_a) 1 in
  let s2 := ex_sess 2 (Some ex_b) 1 in
  let s3 := ex_sess 3 None 0 in
  let s3' := ex_sess 3 (Some ex_b) 1 in
  let evs1 := [(s1, false); (s2, false); (s3, false)] in
  let evs2 := [(s2, true); (s3', false)] in
  let y := sys_run head (sys_init 2 [1%N] ex_reg)
             (ev_ops evs1 ++ [OBulk 1] ++ ev_ops evs2 ++ repeat (ODeliver 1) (length evs2)) in
  f_window head = false /\ fresh ex_reg /\
  (forall i, (i <= length (evs1 ++ evs2))%nat -> uniq ex_reg (live_run (firstn i (evs1 ++ evs2)))) /\
  leases_of (rc_reg (y_recv y)) = [((4, 1, ex_a)%N, 1%N); ((4, 1, ex_b)%N, 3%N)] /\
  expected_leases ex_reg (y_live y) = [((4, 1, ex_a)%N, 1%N); ((4, 1, ex_b)%N, 3%N)].
Proof.
  cbv zeta. split; [reflexivity|]. split; [exact ex_reg_fresh|]. split; [ex_uniq|]. vm_compute. split; reflexivity.
Qed.
Print Assumptions C11_bulk_pools_nonvacuous.

(* ------------------------------------------------------------------ any number of SRGs *)
(* Independence at the sender: whatever events of other SRGs (or ignored events) are interleaved, SRG g's counter, backlog
   and substream are those of g's own events — so C11_backlog_range / C11_sender_backlog_exact apply per SRG of a sender
   that serves any number of SRGs. *)
Theorem C11_sender_srg_independent :
  forall g evs sn seq b,
  g <> 0%N -> aget N.eqb g sn = Some (seq, b) -> (seq + N.of_nat (length (evs_of g evs)) < n64)%N ->
  sent_of g (snd (sender_run sn evs)) = reqs_from g seq (evs_of g evs) /\
  aget N.eqb g (fst (sender_run sn evs)) =
    Some ((seq + N.of_nat (length (evs_of g evs)))%N, fold_left push (reqs_from g seq (evs_of g evs)) b).
Proof. exact sender_run_srg. Qed.
Print Assumptions C11_sender_srg_independent.

(* /repo HEAD's receiver with any number of SRGs sharing the sender, the one send channel and the receiver: any sender
   state (any SRG set, counters, backlogs), any history of events of configured SRGs, the merged stream delivered in
   the order of the send channel with redelivery of a message only while it is its session's newest delivered one:
   store and pools are exactly those of the live sessions of all SRGs. *)
Theorem C11_converges_head_multi :
  forall g0 sn fl evs d,
  f_stale fl = true -> f_drop fl = false -> f_relall fl = false -> accepted sn evs ->
  let reqs := snd (sender_run sn evs) in
  delivery_latest reqs 0 d (length reqs) ->
  rc_store (recv_run fl (mkrecv [] [] g0) d) = expected_store (live_run evs).
Proof. exact converges_head_multi. Qed.
Print Assumptions C11_converges_head_multi.

Theorem C11_pools_exact_head_multi :
  forall g0 sn fl evs d,
  f_stale fl = true -> f_drop fl = false -> f_relall fl = false -> accepted sn evs ->
  fresh g0 -> (forall i, (i <= length evs)%nat -> uniq g0 (live_run (firstn i evs))) ->
  let reqs := snd (sender_run sn evs) in
  delivery_latest reqs 0 d (length reqs) ->
  forall x sid, lease_at (rc_reg (recv_run fl (mkrecv [] [] g0) d)) x = Some sid <->
                In (x, sid) (expected_leases g0 (live_run evs)).
Proof. exact pools_exact_head_multi. Qed.
Print Assumptions C11_pools_exact_head_multi.

Example C11_multi_srg_nonvacuous :
  (* SRG 1 and SRG 2 interleaved; session 2 (SRG 2) takes over the address session 1 (SRG 1) gave up; duplicates *)
  let s1 := ex_sess 1 (Some ex_a) 1 in
  let s1' := ex_sess 1 None 0 in
  let s2 := mksession KIPoE 2 2 2199023255554 100 7 1 (Some ex_a) 1 None 0 None 0 0 None None 0 3600 in
  let sn := [(1%N, (0%N, new_ring 4)); (2%N, (7%N, new_ring 2))] in
  let evs := [(s1, false); (s1', false); (s2, false)] in
  let reqs := snd (sender_run sn evs) in
  accepted sn evs /\ map (fun q => (q_srg q, q_seq q)) reqs = [(1, 1); (1, 2); (2, 8)]%N /\
  (forall i, (i <= length evs)%nat -> uniq ex_reg (live_run (firstn i evs))) /\
  delivery_latest reqs 0 (firstn 2 reqs ++ skipn 1 reqs ++ skipn 2 reqs) 3 /\
  leases_of (rc_reg (recv_run head (mkrecv [] [] ex_reg) (firstn 2 reqs ++ skipn 1 reqs ++ skipn 2 reqs))) = [((4, 1, ex_a)%N, 2%N)].
Proof.
  cbv zeta. split.
  - intros e [<-|[<-|[<-|[]]]]; split; vm_compute; discriminate.
  - split; [vm_compute; reflexivity|]. split; [ex_uniq|]. split; [|vm_compute; reflexivity].
    eapply dv_next; [vm_compute; reflexivity|]. eapply dv_next; [vm_compute; reflexivity|].
    eapply (dv_dup _ 2 1); [lia|vm_compute; reflexivity|intros j q' Hj; lia|].
    eapply dv_next; [vm_compute; reflexivity|].
    eapply (dv_dup _ 3 2); [lia|vm_compute; reflexivity|intros j q' Hj; lia|]. apply dv_nil.
Qed.
Print Assumptions C11_multi_srg_nonvacuous.

(* ------------------------------------------------------------------ free lists *)
(* For every flag set, every registry whose free lists have no duplicates and contain nothing that is leased (every
   registry built by the constructors: mk_pool_ok, mk_pd_ok) and every list of requests handed to the receiver: an
   address or prefix index that is reserved on the standby is not on its pool's free list — Allocate after a fail-over
   cannot hand it out.  (The check compares the free lists' contents of code and model.) *)
Theorem C11_reserved_not_on_free_list :
  forall fl g0 d l st f p k sid,
  reg_ok g0 -> lease_at (rc_reg (recv_run fl (mkrecv l st g0) d)) (f, p, k) = Some sid ->
  ~ In k (free_at (rc_reg (recv_run fl (mkrecv l st g0) d)) f p).
Proof. exact reserved_not_free. Qed.
Print Assumptions C11_reserved_not_on_free_list.

Example C11_free_list_nonvacuous :
  reg_ok ex_reg /\
  (let g := rc_reg (recv_run head (mkrecv [] [] ex_reg) [ex_q 1 false (ex_sess 1 (Some ex_a) 1)]) in
   lease_at g (4, 1, ex_a)%N = Some 1%N /\ In ex_b (free_at g 4 1) /\ length (free_at g 4 1) = 10%nat).
Proof.
  split.
  - unfold reg_ok, ex_reg. cbn [g_v4 g_na g_pd]. split; [|split]; intros np H;
      repeat (destruct H as [<-|H]; [first [apply mk_pool_ok|apply mk_pd_ok]|]); destruct H.
  - vm_compute. split; [reflexivity|]. split; [|reflexivity]. auto 20.
Qed.
Print Assumptions C11_free_list_nonvacuous.

(* ------------------------------------------------------------------ range replays, repaired receiver *)
(* Every schedule made of gap-free runs that start at or before the first undelivered message and reach at least the
   newest delivered one (single deliveries, duplicates of the newest message, replays of backlog ranges up to the end)
   is an in-order delivery with redelivery of earlier messages ... *)
Theorem C11_runs_are_deliveries : forall reqs m d m', delivery_runs reqs m d m' -> delivery reqs m d m'.
Proof. exact runs_are_deliveries. Qed.
Print Assumptions C11_runs_are_deliveries.

(* ... so for the repaired receiver (which drops what is not above lastSeq), after any history with such range replays
   the store and the pool reservations are exactly those of the live sessions.  (/repo HEAD re-applies the replayed
   messages; its store converges — C11_converges_replays_partial — and its reservations are compared with this
   model's by the check in mode replay; they have no theorem of their own.) *)
Theorem C11_pools_exact_replays :
  forall g0 cap g evs d,
  g <> 0%N -> (forall e, In e evs -> s_srg (fst e) = g) -> (N.of_nat (length evs) < n64)%N ->
  fresh g0 ->
  (forall i, (i <= length evs)%nat -> uniq g0 (live_run (firstn i evs))) ->
  let reqs := snd (sender_run [(g, (0%N, new_ring cap))] evs) in
  delivery_runs reqs 0 d (length reqs) ->
  rc_store (recv_run repaired (mkrecv [] [] g0) d) = expected_store (live_run evs) /\
  forall x sid, lease_at (rc_reg (recv_run repaired (mkrecv [] [] g0) d)) x = Some sid <->
                In (x, sid) (expected_leases g0 (live_run evs)).
Proof. exact pools_exact_replays. Qed.
Print Assumptions C11_pools_exact_replays.

(* ------------------------------------------------------------------ /repo HEAD under range replays: what can be proved *)
(* For /repo HEAD's receiver (and every flag set with the release behaviour of 88d6de6) and ANY list of requests handed to
   it — any order, stale, duplicated, of any session — every reservation is backed by a checkpoint in the store that
   claims it for that owner: the receiver never holds an orphan reservation. *)
Theorem C11_head_reservations_backed :
  forall g0 fl d, f_drop fl = false -> f_relall fl = false -> fresh g0 ->
  backed g0 (recv_run fl (mkrecv [] [] g0) d).
Proof. intros g0 fl d Hd Hr Hf. exact (backed_run g0 fl d Hd Hr _ (backed_fresh g0 Hf)). Qed.
Print Assumptions C11_head_reservations_backed.

(* Hence, after any history with range replays that reach the newest delivered message (delivery_runs), HEAD — which
   re-applies the replayed messages — holds NO reservation that does not belong to a live session (nothing leaks), and
   its store is exact (C11_converges_replays_partial).  PARTIAL: the converse — every address of a live session is
   reserved at the end of the replays — is not proved for HEAD (a replayed old checkpoint can take a reservation away
   for a while; the later messages of the run give it back); it is proved for the repaired receiver
   (C11_pools_exact_replays) and compared with it by the check (mode replay). *)
Theorem C11_pools_sound_replays_head_partial :
  forall g0 cap g fl evs d,
  f_stale fl = true -> f_drop fl = false -> f_relall fl = false ->
  g <> 0%N -> (forall e, In e evs -> s_srg (fst e) = g) -> (N.of_nat (length evs) < n64)%N ->
  fresh g0 ->
  let reqs := snd (sender_run [(g, (0%N, new_ring cap))] evs) in
  delivery_runs reqs 0 d (length reqs) ->
  forall x sid, lease_at (rc_reg (recv_run fl (mkrecv [] [] g0) d)) x = Some sid ->
                In (x, sid) (expected_leases g0 (live_run evs)).
Proof. exact pools_sound_replays. Qed.
Print Assumptions C11_pools_sound_replays_head_partial.

Example C11_replays_head_nonvacuous :
  (* session 1 gives its address up, session 3 takes it; everything delivered, then the whole range is replayed: the
     replayed release of session 1's old checkpoint takes the address away from session 3 for a moment *)
  let s1 := ex_sess 1 (Some ex_a) 1 in
  let s1' := ex_sess 1 None 0 in
  let s3 := ex_sess 3 (Some ex_a) 1 in
  let evs := [(s1, false); (s1', false); (s3, false)] in
  let reqs := snd (sender_run [(1%N, (0%N, new_ring 8))] evs) in
  let d := firstn 3 (skipn 0 reqs) ++ firstn 3 (skipn 0 reqs) ++ [] in
  delivery_runs reqs 0 d 3 /\
  leases_of (rc_reg (recv_run head (mkrecv [] [] ex_reg) (firstn 3 reqs ++ firstn 2 reqs))) = [] /\
  leases_of (rc_reg (recv_run head (mkrecv [] [] ex_reg) d)) = [((4, 1, ex_a)%N, 3%N)] /\
  expected_leases ex_reg (live_run evs) = [((4, 1, ex_a)%N, 3%N)].
Proof.
  cbv zeta. split; [|vm_compute; repeat split; reflexivity].
  apply (dr_run _ 0 0 3); [lia|lia|vm_compute; lia|]. apply (dr_run _ 3 0 3); [lia|lia|vm_compute; lia|]. apply dr_nil.
Qed.
Print Assumptions C11_replays_head_nonvacuous.
