From OV Require Import Common.Base C11.Model C11.Proofs.
Theorem C11_push_cap : forall b q, r_cap (push b q) = r_cap b.
Proof. exact push_cap. Qed.
Print Assumptions C11_push_cap.
