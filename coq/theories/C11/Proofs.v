(* C11/Proofs.v — lemmas about the model in Model.v *)
From OV Require Import Common.Base C11.Model.
From Coq Require Import ZifyBool ZifyNat ZifyN.
Ltac Zify.zify_post_hook ::= Z.div_mod_to_equations.

(* ================================================================== *)
(* 1. the backlog ring                                                 *)
(* ================================================================== *)

Lemma mod_lt2 a c : (0 < c)%nat -> (a < 2 * c)%nat -> (a mod c = if a <? c then a else a - c)%nat.
Proof.
  intros Hc Ha. destruct (Nat.ltb_spec a c) as [H|H].
  - apply Nat.mod_small; exact H.
  - replace a with ((a - c) + 1 * c)%nat at 1 by lia.
    rewrite Nat.mod_add by lia. apply Nat.mod_small; lia.
Qed.

Lemma list_set_length {A} (l : list A) i x : length (list_set l i x) = length l.
Proof. revert i; induction l as [|h r IH]; intros [|i]; simpl; auto. Qed.

Lemma list_set_nth_eq {A} (l : list A) i x : (i < length l)%nat -> nth_error (list_set l i x) i = Some x.
Proof. revert i; induction l as [|h r IH]; intros [|i]; simpl; intros H; try lia; auto. apply IH; lia. Qed.

Lemma list_set_nth_neq {A} (l : list A) i j x : i <> j -> nth_error (list_set l i x) j = nth_error l j.
Proof.
  revert i j; induction l as [|h r IH]; intros [|i] [|j]; simpl; intros H; try reflexivity; try lia.
  apply IH; lia.
Qed.

(* the retained entries, oldest first *)
Definition retain (c : nat) (l : list req) (q : req) : list req :=
  if (length l <? c)%nat then l ++ [q] else tl l ++ [q].

(* representation invariant: ring b of capacity c holds exactly the list l, oldest first *)
Definition ring_inv (c : nat) (b : ring) (l : list req) : Prop :=
  r_cap b = c /\ (0 < c)%nat /\ length (r_entries b) = c /\ (r_head b < c)%nat /\
  r_size b = length l /\ (length l <= c)%nat /\
  forall j, (j < length l)%nat ->
    nth_error (r_entries b) ((r_head b + c - length l + j) mod c) = nth_error (map Some l) j.

Lemma repeat_nth {A} (x : A) n i : (i < n)%nat -> nth_error (repeat x n) i = Some x.
Proof. revert i; induction n; intros [|i] H; simpl; try lia; auto. apply IHn; lia. Qed.

Lemma new_ring_inv cap : (0 < cap)%Z -> ring_inv (Z.to_nat cap) (new_ring cap) [].
Proof.
  intros H. unfold new_ring. destruct (Z.leb_spec cap 0); [lia|].
  unfold ring_inv; simpl. rewrite repeat_length. repeat split; try lia.
Qed.

Lemma push_inv c b l q : ring_inv c b l -> ring_inv c (push b q) (retain c l q).
Proof.
  intros (Hcap & Hc & Hlen & Hh & Hsz & Hle & Hnth).
  unfold ring_inv, push, retain; simpl. rewrite Hcap, Hsz, list_set_length.
  assert (Hh' : ((r_head b + 1) mod c = if (r_head b + 1 <? c)%nat then r_head b + 1 else 0)%nat).
  { rewrite mod_lt2 by lia. destruct (Nat.ltb_spec (r_head b + 1) c); lia. }
  destruct (Nat.ltb_spec (length l) c) as [Hlt|Hge].
  - (* not full: append *)
    rewrite app_length; simpl.
    repeat split; try lia; try (rewrite Hh'; destruct (Nat.ltb_spec (r_head b + 1) c); lia).
    { intros j Hj. rewrite map_app; simpl.
      assert (Hidx : (((r_head b + 1) mod c + c - (length l + 1) + j) mod c = (r_head b + c - length l + j) mod c)%nat).
      { rewrite Hh'. destruct (Nat.ltb_spec (r_head b + 1) c).
        - f_equal; lia.
        - replace (0 + c - (length l + 1) + j)%nat with (c - length l - 1 + j)%nat by lia.
          replace (r_head b + c - length l + j)%nat with ((c - length l - 1 + j) + 1 * c)%nat by lia.
          rewrite Nat.mod_add by lia. reflexivity. }
      rewrite Hidx.
      destruct (Nat.eq_dec j (length l)) as [->|Hne].
      * replace (r_head b + c - length l + length l)%nat with (r_head b + 1 * c)%nat by lia.
        rewrite Nat.mod_add, Nat.mod_small by lia.
        rewrite list_set_nth_eq by lia.
        rewrite nth_error_app2 by (rewrite map_length; lia). rewrite map_length, Nat.sub_diag. reflexivity.
      * rewrite list_set_nth_neq.
        -- rewrite Hnth by lia. rewrite nth_error_app1 by (rewrite map_length; lia). reflexivity.
        -- rewrite mod_lt2 by lia. destruct (Nat.ltb_spec (r_head b + c - length l + j) c); lia. }
  - (* full: the oldest entry is overwritten *)
    assert (Hl : length l = c) by lia.
    destruct l as [|q0 l']; [simpl in *; lia|]. simpl tl. simpl in Hl.
    rewrite app_length; simpl.
    repeat split; try lia; try (rewrite Hh'; destruct (Nat.ltb_spec (r_head b + 1) c); lia).
    { intros j Hj. rewrite map_app; simpl.
      assert (Hidx : (((r_head b + 1) mod c + c - (length l' + 1) + j) mod c = (r_head b + 1 + j) mod c)%nat).
      { rewrite Hh'. destruct (Nat.ltb_spec (r_head b + 1) c).
        - replace (r_head b + 1 + c - (length l' + 1) + j)%nat with (r_head b + 1 + j)%nat by lia. reflexivity.
        - replace (0 + c - (length l' + 1) + j)%nat with j by lia.
          replace (r_head b + 1 + j)%nat with (j + 1 * c)%nat by lia. rewrite Nat.mod_add by lia. reflexivity. }
      rewrite Hidx.
      destruct (Nat.eq_dec j (length l')) as [->|Hne].
      * replace (r_head b + 1 + length l')%nat with (r_head b + 1 * c)%nat by lia.
        rewrite Nat.mod_add, Nat.mod_small by lia.
        rewrite list_set_nth_eq by lia.
        rewrite nth_error_app2 by (rewrite map_length; lia). rewrite map_length, Nat.sub_diag. reflexivity.
      * rewrite list_set_nth_neq.
        -- specialize (Hnth (S j)). simpl in Hnth.
           replace (r_head b + c - S (length l') + S j)%nat with (r_head b + 1 + j)%nat in Hnth by lia.
           rewrite Hnth by lia. rewrite nth_error_app1 by (rewrite map_length; lia). reflexivity.
        -- rewrite mod_lt2 by lia. destruct (Nat.ltb_spec (r_head b + 1 + j) c); lia. }
Qed.

(* the list retained after pushing qs in order *)
Definition retained (c : nat) (qs : list req) : list req := fold_left (retain c) qs [].

Lemma pushes_inv c b l qs : ring_inv c b l -> ring_inv c (fold_left push qs b) (fold_left (retain c) qs l).
Proof. revert b l; induction qs as [|q qs IH]; simpl; intros b l H; [exact H|]. apply IH, push_inv, H. Qed.

Lemma retained_is_suffix c qs : (0 < c)%nat -> retained c qs = skipn (length qs - c) qs.
Proof.
  intros Hc. unfold retained.
  assert (G : forall qs l pre, l = skipn (length pre - c) pre ->
            fold_left (retain c) qs l = skipn (length (pre ++ qs) - c) (pre ++ qs)).
  { clear qs. induction qs as [|q qs IH]; intros l pre Hl; simpl.
    - rewrite app_nil_r. exact Hl.
    - replace (pre ++ q :: qs) with ((pre ++ [q]) ++ qs) by (rewrite <- app_assoc; reflexivity).
      apply IH. subst l. unfold retain. rewrite skipn_length, app_length; simpl.
      destruct (Nat.ltb_spec (length pre - (length pre - c)) c) as [H|H].
      + replace (length pre - c)%nat with 0%nat by lia. replace (length pre + 1 - c)%nat with 0%nat by lia.
        reflexivity.
      + replace (length pre + 1 - c)%nat with (S (length pre - c)) by lia.
        rewrite skipn_app. replace (S (length pre - c) - length pre)%nat with 0%nat by lia. simpl skipn at 2.
        f_equal. clear IH. generalize (length pre - c)%nat as k. intros k.
        assert (K : forall (A : Type) k (l : list A), tl (skipn k l) = skipn (S k) l).
        { intros A k0; induction k0; intros [|x r]; simpl; auto. apply (IHk0 r). }
        apply K. }
  specialize (G qs [] [] eq_refl). simpl in G. exact G.
Qed.

Lemma nth_error_skipn {A} k (l : list A) j : nth_error (skipn k l) j = nth_error l (k + j).
Proof. revert l; induction k; intros [|x r]; simpl; auto. destruct j; reflexivity. Qed.
Lemma nth_error_firstn {A} n (l : list A) j : (j < n)%nat -> nth_error (firstn n l) j = nth_error l j.
Proof. revert l j; induction n; intros [|x r] [|j] H; simpl; auto; try lia. apply IHn; lia. Qed.

(* ---------- consecutive sequence numbers ---------- *)
Definition consec (first : Z) (l : list req) : Prop :=
  forall j q, nth_error l j = Some q -> Z.of_N (q_seq q) = (first + Z.of_nat j)%Z.

Lemma consec_skipn first l k : consec first l -> consec (first + Z.of_nat k) (skipn k l).
Proof.
  intros H j q Hq. rewrite nth_error_skipn in Hq. apply H in Hq. lia.
Qed.

Definition in_range (from to : Z) (q : req) : bool :=
  ((from <=? Z.of_N (q_seq q)) && (Z.of_N (q_seq q) <=? to))%Z.

Lemma filter_none {A} (P : A -> bool) l : (forall x, In x l -> P x = false) -> filter P l = [].
Proof. induction l as [|x l IH]; simpl; intros H; [reflexivity|]. rewrite (H x) by auto. apply IH; auto. Qed.
Lemma filter_all {A} (P : A -> bool) l : (forall x, In x l -> P x = true) -> filter P l = l.
Proof. induction l as [|x l IH]; simpl; intros H; [reflexivity|]. rewrite (H x) by auto. f_equal; apply IH; auto. Qed.

Lemma in_nth_error {A} (x : A) l : In x l -> exists j, (j < length l)%nat /\ nth_error l j = Some x.
Proof.
  intros H. apply In_nth_error in H. destruct H as [j Hj]. exists j; split; [|exact Hj].
  apply nth_error_Some. congruence.
Qed.

(* on a list of consecutive sequence numbers the entries of a range are a contiguous block *)
Lemma filter_consec os l from to k n :
  consec os l -> (0 <= k)%nat -> (k + n <= length l)%nat ->
  (forall j, (j < length l)%nat -> (from <= os + Z.of_nat j <= to)%Z <-> (k <= j < k + n)%nat) ->
  filter (in_range from to) l = firstn n (skipn k l).
Proof.
  intros Hc _ Hkn Hiff.
  rewrite <- (firstn_skipn k l) at 1. rewrite filter_app.
  rewrite <- (firstn_skipn n (skipn k l)) at 1. rewrite filter_app.
  rewrite (filter_none _ (firstn k l)), (filter_all _ (firstn n (skipn k l))), (filter_none _ (skipn n (skipn k l))).
  - simpl. rewrite app_nil_r. reflexivity.
  - intros x Hx. apply in_nth_error in Hx. destruct Hx as (j & Hj & Hn).
    rewrite skipn_length, skipn_length in Hj. rewrite nth_error_skipn, nth_error_skipn in Hn.
    pose proof (Hc _ _ Hn) as Hs. unfold in_range.
    specialize (Hiff (k + (n + j))%nat ltac:(lia)). lia.
  - intros x Hx. apply in_nth_error in Hx. destruct Hx as (j & Hj & Hn).
    rewrite firstn_length, skipn_length in Hj.
    rewrite nth_error_firstn in Hn by lia. rewrite nth_error_skipn in Hn.
    pose proof (Hc _ _ Hn) as Hs. unfold in_range.
    specialize (Hiff (k + j)%nat ltac:(lia)). lia.
  - intros x Hx. apply in_nth_error in Hx. destruct Hx as (j & Hj & Hn).
    rewrite firstn_length in Hj. rewrite nth_error_firstn in Hn by lia.
    pose proof (Hc _ _ Hn) as Hs. unfold in_range.
    specialize (Hiff j ltac:(lia)). lia.
Qed.

Lemma skipn_cons_nth {A} m (l : list A) q : nth_error l m = Some q -> skipn m l = q :: skipn (S m) l.
Proof. revert l; induction m; intros [|y r] E; simpl in *; try discriminate. inversion E; reflexivity. apply IHm; exact E. Qed.

(* ---------- Range ---------- *)
Lemma to_int_id z : (- two63 <= z < two63)%Z -> to_int z = z.
Proof. unfold to_int, two63, two64. intros H. destruct (Z.ltb_spec (z mod 18446744073709551616) 9223372036854775808); lia. Qed.

Lemma oldest_idx_eq c b l : ring_inv c b l -> oldest_idx b = ((r_head b + c - length l) mod c)%nat.
Proof. intros (Hcap & _ & _ & _ & Hsz & _). unfold oldest_idx. rewrite Hcap, Hsz. reflexivity. Qed.

Lemma oldest_entry c b l q0 l' : ring_inv c b l -> l = q0 :: l' -> entry_seq b (oldest_idx b) = Ok (q_seq q0).
Proof.
  intros H ->. rewrite (oldest_idx_eq _ _ _ H). destruct H as (_ & _ & _ & _ & _ & _ & Hnth).
  specialize (Hnth 0%nat ltac:(simpl; lia)). rewrite Nat.add_0_r in Hnth. unfold entry_seq. rewrite Hnth. reflexivity.
Qed.

Lemma collect_spec c b l : ring_inv c b l -> (Z.of_nat c <= max_make)%Z ->
  forall n k i, (k + i + n <= length l)%nat ->
  collect b (Z.of_nat (oldest_idx b) + Z.of_nat k) i n = Ok (map Some (firstn n (skipn (k + i) l))).
Proof.
  intros H Hc. pose proof (oldest_idx_eq _ _ _ H) as Ho.
  destruct H as (Hcap & Hc0 & Hlen & Hh & Hsz & Hle & Hnth).
  induction n as [|n IH]; intros k i Hk; [reflexivity|].
  cbn [collect]. rewrite Hcap.
  set (x := (oldest_idx b + (k + i))%nat).
  assert (Hx : (Z.of_nat (oldest_idx b) + Z.of_nat k + Z.of_nat i = Z.of_nat x)%Z) by (unfold x; lia).
  rewrite Hx.
  assert (Hob : (oldest_idx b < c)%nat) by (rewrite Ho; apply Nat.mod_upper_bound; lia).
  unfold max_make in Hc.
  rewrite to_int_id by (unfold two63; lia).
  rewrite Z.rem_mod_nonneg by lia. rewrite <- Nat2Z.inj_mod.
  destruct (Z.ltb_spec (Z.of_nat (x mod c)) 0); [lia|]. rewrite Nat2Z.id.
  assert (Hi : (x mod c = (r_head b + c - length l + (k + i)) mod c)%nat).
  { unfold x. rewrite Ho. rewrite Nat.add_mod_idemp_l by lia. reflexivity. }
  rewrite Hi, Hnth by lia.
  destruct (nth_error l (k + i)) as [q|] eqn:Eq; [|apply nth_error_None in Eq; lia].
  rewrite nth_error_map, Eq. simpl.
  replace (k + S i)%nat with (k + i + 1)%nat in IH by lia.
  specialize (IH k (S i) ltac:(lia)). rewrite IH.
  assert (Hs : skipn (k + i) l = q :: skipn (k + S i) l).
  { replace (k + S i)%nat with (S (k + i)) by lia. apply skipn_cons_nth, Eq. }
  rewrite Hs. reflexivity.
Qed.

Lemma collect_block c b l so cnt : ring_inv c b l -> (Z.of_nat c <= max_make)%Z ->
  (0 <= so)%Z -> (0 <= cnt)%Z -> (so + cnt <= Z.of_nat (length l))%Z ->
  collect b (Z.of_nat (oldest_idx b) + so) 0 (Z.to_nat cnt) =
  Ok (map Some (firstn (Z.to_nat cnt) (skipn (Z.to_nat so) l))).
Proof.
  intros H Hc Hso Hcnt Hle.
  pose proof (collect_spec c b l H Hc (Z.to_nat cnt) (Z.to_nat so) 0%nat ltac:(lia)) as G.
  rewrite Z2Nat.id in G by lia. rewrite Nat.add_0_r in G. exact G.
Qed.

Lemma range_empty os l from to :
  consec os l -> (forall j, (j < length l)%nat -> ~ (from <= os + Z.of_nat j <= to)%Z) ->
  filter (in_range from to) l = [].
Proof.
  intros Hc H. rewrite (filter_consec os l from to 0 0 Hc); [reflexivity|lia|lia|].
  intros j Hj. split; [intros G; exfalso; exact (H j Hj G)|lia].
Qed.

Lemma range_block os l from to so cnt :
  consec os l -> (0 <= so)%Z -> (0 <= cnt)%Z -> (so + cnt <= Z.of_nat (length l))%Z ->
  (forall j, (j < length l)%nat -> (from <= os + Z.of_nat j <= to)%Z <-> (so <= Z.of_nat j < so + cnt)%Z) ->
  filter (in_range from to) l = firstn (Z.to_nat cnt) (skipn (Z.to_nat so) l).
Proof.
  intros Hc Hso Hcnt Hle H. apply (filter_consec os); try assumption; try lia.
  intros j Hj. rewrite (H j Hj). lia.
Qed.

(* Range before bb5ec1b is exact as long as every number involved is below 2^63 *)
Lemma range_def_exact c b l os from to :
  ring_inv c b l -> (Z.of_nat c <= max_make)%Z -> consec os l ->
  (1 <= os)%Z -> (os + Z.of_nat (length l) <= two63)%Z ->
  (0 <= from < two63)%Z -> (0 <= to < two63)%Z ->
  range_def b from to = Ok (map Some (filter (in_range from to) l)).
Proof.
  intros H Hc Hcs Hos Hmax Hf Ht.
  pose proof H as (Hcap & Hc0 & Hlen & Hh & Hsz & Hle & Hnth).
  unfold range_def. rewrite Hsz.
  destruct l as [|q0 l'].
  { reflexivity. }
  replace (length (q0 :: l') =? 0)%nat with false by reflexivity.
  rewrite (oldest_entry c b (q0 :: l') q0 l' H eq_refl).
  assert (Hq0 : Z.of_N (q_seq q0) = os) by (rewrite (Hcs 0%nat q0 eq_refl); lia).
  rewrite Hq0. set (n := length (q0 :: l')) in *.
  unfold two63, max_make in *.
  set (from' := if (from <? os)%Z then os else from).
  assert (Hf' : (from' = Z.max from os)%Z) by (unfold from'; destruct (Z.ltb_spec from os); lia).
  rewrite (to_int_id (from' - os)) by (unfold two63; lia).
  rewrite (to_int_id (to - from')) by (unfold two63; lia).
  rewrite (to_int_id (to - from' + 1)) by (unfold two63; lia).
  rewrite (to_int_id (from' - os + (to - from' + 1))) by (unfold two63; lia).
  destruct (Z.gtb_spec (from' - os + (to - from' + 1)) (Z.of_nat n)) as [Hgt|Hgt].
  - (* the range runs past the newest entry: clamp *)
    rewrite (to_int_id (Z.of_nat n - (from' - os))) by (unfold two63; lia).
    destruct (Z.leb_spec (Z.of_nat n - (from' - os)) 0) as [Hz|Hz].
    + rewrite (range_empty os); [reflexivity|exact Hcs|]. intros j Hj. fold n in Hj. lia.
    + destruct (Z.ltb_spec 35184372088832 (Z.of_nat n - (from' - os))); [lia|].
      rewrite (collect_block c b (q0 :: l')) by (try assumption; fold n; unfold max_make; lia).
      rewrite (range_block os _ from to (from' - os) (Z.of_nat n - (from' - os))); try assumption; try (fold n; lia);
        try reflexivity; try (intros j Hj; fold n in Hj; lia).
  - destruct (Z.leb_spec (to - from' + 1) 0) as [Hz|Hz].
    + rewrite (range_empty os); [reflexivity|exact Hcs|]. intros j Hj. fold n in Hj. lia.
    + destruct (Z.ltb_spec 35184372088832 (to - from' + 1)); [lia|].
      rewrite (collect_block c b (q0 :: l')) by (try assumption; fold n; unfold max_make; lia).
      rewrite (range_block os _ from to (from' - os) (to - from' + 1)); try assumption; try (fold n; lia);
        try reflexivity; try (intros j Hj; fold n in Hj; lia).
Qed.

(* the repaired Range is exact for every uint64 bound *)
Lemma range_rep_exact c b l os from to :
  ring_inv c b l -> (Z.of_nat c <= max_make)%Z -> consec os l ->
  (0 <= os)%Z -> (os + Z.of_nat (length l) <= two64)%Z ->
  (0 <= from < two64)%Z -> (0 <= to < two64)%Z ->
  range_rep b from to = Ok (map Some (filter (in_range from to) l)).
Proof.
  intros H Hc Hcs Hos Hmax Hf Ht.
  pose proof H as (Hcap & Hc0 & Hlen & Hh & Hsz & Hle & Hnth).
  unfold range_rep. rewrite Hsz.
  destruct l as [|q0 l'].
  { reflexivity. }
  replace (length (q0 :: l') =? 0)%nat with false by reflexivity.
  rewrite (oldest_entry c b (q0 :: l') q0 l' H eq_refl).
  assert (Hq0 : Z.of_N (q_seq q0) = os) by (rewrite (Hcs 0%nat q0 eq_refl); lia).
  rewrite Hq0. set (n := length (q0 :: l')) in *.
  assert (Hn : (1 <= n)%nat) by (unfold n; simpl; lia).
  unfold two64, max_make in *.
  assert (Hns : wrap64 (os + Z.of_nat (n - 1)) = (os + Z.of_nat n - 1)%Z).
  { unfold wrap64, two64. rewrite Z.mod_small by lia. lia. }
  rewrite Hns.
  set (from' := if (from <? os)%Z then os else from).
  assert (Hf' : (from' = Z.max from os)%Z) by (unfold from'; destruct (Z.ltb_spec from os); lia).
  set (to' := if (to >? os + Z.of_nat n - 1)%Z then (os + Z.of_nat n - 1)%Z else to).
  assert (Ht' : (to' = Z.min to (os + Z.of_nat n - 1))%Z) by (unfold to'; destruct (Z.gtb_spec to (os + Z.of_nat n - 1)); lia).
  destruct (Z.gtb_spec from' to') as [Hgt|Hgt].
  - rewrite (range_empty os); [reflexivity|exact Hcs|]. intros j Hj. fold n in Hj. lia.
  - rewrite (to_int_id (from' - os)) by (unfold two63; lia).
    rewrite (to_int_id (to' - from')) by (unfold two63; lia).
    rewrite (to_int_id (to' - from' + 1)) by (unfold two63; lia).
    destruct (Z.leb_spec (to' - from' + 1) 0); [lia|].
    destruct (Z.ltb_spec 35184372088832 (to' - from' + 1)); [lia|].
    rewrite (collect_block c b (q0 :: l')) by (try assumption; fold n; unfold max_make; lia).
    rewrite (range_block os _ from to (from' - os) (to' - from' + 1)); try assumption; try (fold n; lia);
      try reflexivity; try (intros j Hj; fold n in Hj; lia).
Qed.

(* ---------- top-level statements about Range on a ring filled by Push ---------- *)
Lemma pushed_ring_inv cap qs : (0 < cap)%Z ->
  ring_inv (Z.to_nat cap) (fold_left push qs (new_ring cap)) (skipn (length qs - Z.to_nat cap) qs).
Proof.
  intros H. rewrite <- retained_is_suffix by lia. apply pushes_inv, new_ring_inv, H.
Qed.

Lemma backlog_range_repaired cap qs first from to :
  (0 < cap <= max_make)%Z -> consec first qs -> (0 <= first)%Z -> (first + Z.of_nat (length qs) <= two64)%Z ->
  (0 <= from < two64)%Z -> (0 <= to < two64)%Z ->
  range repaired (fold_left push qs (new_ring cap)) from to =
  Ok (map Some (filter (in_range from to) (skipn (length qs - Z.to_nat cap) qs))).
Proof.
  intros Hc Hcs Hf Hm Hfr Hto. unfold range; simpl.
  apply (range_rep_exact (Z.to_nat cap) _ _ (first + Z.of_nat (length qs - Z.to_nat cap))).
  - apply pushed_ring_inv; lia.
  - lia.
  - apply consec_skipn, Hcs.
  - lia.
  - rewrite skipn_length. lia.
  - exact Hfr.
  - exact Hto.
Qed.

Lemma backlog_range_before_fix cap qs first from to :
  (0 < cap <= max_make)%Z -> consec first qs -> (1 <= first)%Z -> (first + Z.of_nat (length qs) <= two63)%Z ->
  (0 <= from < two63)%Z -> (0 <= to < two63)%Z ->
  range defective (fold_left push qs (new_ring cap)) from to =
  Ok (map Some (filter (in_range from to) (skipn (length qs - Z.to_nat cap) qs))).
Proof.
  intros Hc Hcs Hf Hm Hfr Hto. unfold range; simpl.
  apply (range_def_exact (Z.to_nat cap) _ _ (first + Z.of_nat (length qs - Z.to_nat cap))).
  - apply pushed_ring_inv; lia.
  - lia.
  - apply consec_skipn, Hcs.
  - lia.
  - rewrite skipn_length. lia.
  - exact Hfr.
  - exact Hto.
Qed.

(* ================================================================== *)
(* 2. sender: the stream and the backlog                               *)
(* ================================================================== *)
Section AssocFacts.
  Context {K V : Type} (eqb : K -> K -> bool) (eqb_eq : forall a b, eqb a b = true <-> a = b).
  Lemma eqb_refl' a : eqb a a = true. Proof. apply eqb_eq; reflexivity. Qed.
  Lemma eqb_neq a b : a <> b -> eqb a b = false.
  Proof. intros H. destruct (eqb a b) eqn:E; [apply eqb_eq in E; contradiction|reflexivity]. Qed.
  Lemma aget_aset k k' (v : V) l : aget eqb k' (aset eqb k v l) = if eqb k' k then Some v else aget eqb k' l.
  Proof.
    induction l as [|[k0 v0] r IH]; simpl.
    - destruct (eqb k' k); reflexivity.
    - destruct (eqb k k0) eqn:E; simpl.
      + apply eqb_eq in E; subst k0. destruct (eqb k' k); reflexivity.
      + destruct (eqb k' k0) eqn:E2.
        * apply eqb_eq in E2; subst k0. rewrite (eqb_neq k' k); [reflexivity|].
          intros ->. rewrite eqb_refl' in E. discriminate.
        * exact IH.
  Qed.
  Lemma aget_adel k k' (l : list (K * V)) : aget eqb k' (adel eqb k l) = if eqb k' k then None else aget eqb k' l.
  Proof.
    induction l as [|[k0 v0] r IH]; simpl.
    - destruct (eqb k' k); reflexivity.
    - destruct (eqb k k0) eqn:E; simpl.
      + apply eqb_eq in E; subst k0. rewrite IH. destruct (eqb k' k); reflexivity.
      + destruct (eqb k' k0) eqn:E2.
        * apply eqb_eq in E2; subst k0. rewrite (eqb_neq k' k); [reflexivity|].
          intros ->. rewrite eqb_refl' in E. discriminate.
        * exact IH.
  Qed.
End AssocFacts.

Lemma keyeqb_eq a b : keyeqb a b = true <-> a = b.
Proof.
  destruct a as [a1 a2], b as [b1 b2]; unfold keyeqb; simpl.
  rewrite andb_true_iff, !N.eqb_eq. split; [intros [-> ->]; reflexivity|intros H; inversion H; auto].
Qed.

Lemma map_aset {K V W} (eqb : K -> K -> bool) (f : V -> W) k v l :
  map (fun kv => (fst kv, f (snd kv))) (aset eqb k v l) = aset eqb k (f v) (map (fun kv => (fst kv, f (snd kv))) l).
Proof. induction l as [|[k0 v0] r IH]; simpl; [reflexivity|]. destruct (eqb k k0); simpl; [reflexivity|f_equal; exact IH]. Qed.
Lemma map_adel {K V W} (eqb : K -> K -> bool) (f : V -> W) k (l : list (K * V)) :
  map (fun kv => (fst kv, f (snd kv))) (adel eqb k l) = adel eqb k (map (fun kv => (fst kv, f (snd kv))) l).
Proof. induction l as [|[k0 v0] r IH]; simpl; [reflexivity|]. destruct (eqb k k0); simpl; [exact IH|f_equal; exact IH]. Qed.

Definition act_of (rel : bool) : action := if rel then ADelete else AUpdate.
(* the stream of one SRG: sequence numbers seq+1, seq+2, ... *)
Fixpoint reqs_from (g seq : N) (evs : list (session * bool)) : list req :=
  match evs with
  | [] => []
  | (s, rel) :: t => mkreq g (seq + 1) (act_of rel) (s2c s) :: reqs_from g (seq + 1) t
  end.

Lemma reqs_from_length g seq evs : length (reqs_from g seq evs) = length evs.
Proof. revert seq; induction evs as [|[s r] t IH]; simpl; intros; [reflexivity|f_equal; apply IH]. Qed.

Lemma reqs_from_nth g evs : forall seq j q, nth_error (reqs_from g seq evs) j = Some q ->
  q_srg q = g /\ q_seq q = (seq + N.of_nat (S j))%N /\
  exists s rel, nth_error evs j = Some (s, rel) /\ q_act q = act_of rel /\ q_cp q = s2c s.
Proof.
  induction evs as [|[s r] t IH]; intros seq [|j] q H; simpl in *; try discriminate.
  - inversion H; subst; simpl. repeat split; try lia. exists s, r; auto.
  - destruct (IH _ _ _ H) as (A & B & C). repeat split; auto. lia.
Qed.

Lemma reqs_from_consec g seq evs : consec (Z.of_N seq + 1) (reqs_from g seq evs).
Proof. intros j q H. destruct (reqs_from_nth _ _ _ _ _ H) as (_ & B & _). lia. Qed.

Lemma sender_run_shape g evs : forall sn seq b,
  g <> 0%N -> aget N.eqb g sn = Some (seq, b) -> (forall e, In e evs -> s_srg (fst e) = g) ->
  (seq + N.of_nat (length evs) < n64)%N ->
  snd (sender_run sn evs) = reqs_from g seq evs /\
  aget N.eqb g (fst (sender_run sn evs)) = Some ((seq + N.of_nat (length evs))%N, fold_left push (reqs_from g seq evs) b).
Proof.
  induction evs as [|[s rel] t IH]; intros sn seq b Hg Hget Hall Hlt.
  - simpl. rewrite N.add_0_r. auto.
  - simpl. assert (Hs : s_srg s = g) by (apply (Hall (s, rel)); left; reflexivity).
    unfold sender_event. rewrite Hs. destruct (N.eqb_spec g 0); [contradiction|]. rewrite Hget.
    assert (Hseq : n64z (seq + 1) = (seq + 1)%N).
    { unfold n64z. apply N.mod_small. simpl length in Hlt. lia. }
    rewrite Hseq.
    specialize (IH (aset N.eqb g ((seq + 1)%N, push b (mkreq g (seq + 1) (if rel then ADelete else AUpdate) (s2c s))) sn)
                   (seq + 1)%N (push b (mkreq g (seq + 1) (if rel then ADelete else AUpdate) (s2c s))) Hg).
    rewrite (aget_aset N.eqb N.eqb_eq), N.eqb_refl in IH.
    specialize (IH eq_refl (fun e He => Hall e (or_intror He)) ltac:(simpl length in Hlt; lia)).
    destruct (sender_run _ t) as [sn2 l]. simpl in *. destruct IH as [IH1 IH2]. split.
    + rewrite IH1. reflexivity.
    + rewrite IH2. f_equal. f_equal. lia.
Qed.

(* ================================================================== *)
(* 3. receiver: convergence of the replicated store (repaired)         *)
(* ================================================================== *)
Lemma cp_key_s2c s : cp_key (s2c s) = sess_key s.
Proof. unfold cp_key, sess_key, s2c. destruct (s_kind s); reflexivity. Qed.

Lemma recv_update_last fl rc c : rc_last (recv_update fl rc c) = rc_last rc.
Proof. reflexivity. Qed.
Lemma recv_delete_last fl rc c : rc_last (recv_delete fl rc c) = rc_last rc.
Proof. reflexivity. Qed.

Lemma recv_step_applied fl rc q : (last_of rc (q_srg q) < q_seq q)%N ->
  recv_step fl rc q =
  let rc1 := mkrecv (aset N.eqb (q_srg q) (q_seq q) (rc_last rc)) (rc_store rc) (rc_reg rc) in
  match q_act q with ADelete => recv_delete fl rc1 (q_cp q) | _ => recv_update fl rc1 (q_cp q) end.
Proof.
  intros H. unfold recv_step. destruct (N.leb_spec (q_seq q) (last_of rc (q_srg q))); [lia|].
  rewrite andb_false_r. reflexivity.
Qed.

Lemma recv_step_stale rc q : (q_seq q <= last_of rc (q_srg q))%N -> recv_step repaired rc q = rc.
Proof. intros H. unfold recv_step. simpl. destruct (N.leb_spec (q_seq q) (last_of rc (q_srg q))); [reflexivity|lia]. Qed.

Lemma last_of_step fl rc q : (last_of rc (q_srg q) < q_seq q)%N -> last_of (recv_step fl rc q) (q_srg q) = q_seq q.
Proof.
  intros H. rewrite recv_step_applied by exact H. cbv zeta.
  unfold last_of. destruct (q_act q); simpl; rewrite (aget_aset N.eqb N.eqb_eq), N.eqb_refl; reflexivity.
Qed.

Definition live_fold (live : list ((N * N) * session)) (evs : list (session * bool)) :=
  fold_left (fun l e => live_step l (fst e) (snd e)) evs live.

Lemma store_step_event fl rc g seq s rel live :
  last_of rc g = seq -> rc_store rc = expected_store live ->
  let rc' := recv_step fl rc (mkreq g (seq + 1) (act_of rel) (s2c s)) in
  rc_store rc' = expected_store (live_step live s rel) /\ last_of rc' g = (seq + 1)%N.
Proof.
  intros Hl Hs. cbv zeta. split.
  - rewrite recv_step_applied by (simpl; lia). cbv zeta. simpl q_act. simpl q_cp.
    unfold live_step, expected_store. destruct rel; simpl.
    + rewrite map_adel. rewrite cp_key_s2c. fold (expected_store live). rewrite <- Hs. reflexivity.
    + rewrite map_aset. rewrite cp_key_s2c. fold (expected_store live). rewrite <- Hs. reflexivity.
  - apply (last_of_step fl rc (mkreq g (seq + 1) (act_of rel) (s2c s))). simpl. lia.
Qed.

Lemma recv_run_cons fl rc q l : recv_run fl rc (q :: l) = recv_run fl (recv_step fl rc q) l.
Proof. reflexivity. Qed.

Lemma store_inorder fl g evs : forall seq rc live,
  last_of rc g = seq -> rc_store rc = expected_store live ->
  rc_store (recv_run fl rc (reqs_from g seq evs)) = expected_store (live_fold live evs) /\
  last_of (recv_run fl rc (reqs_from g seq evs)) g = (seq + N.of_nat (length evs))%N.
Proof.
  induction evs as [|[s rel] t IH]; intros seq rc live Hl Hs.
  - simpl. rewrite N.add_0_r. auto.
  - cbn [reqs_from]. rewrite recv_run_cons.
    destruct (store_step_event fl rc g seq s rel live Hl Hs) as [A B].
    destruct (IH _ _ _ B A) as [C D]. split; [exact C|]. rewrite D. simpl length. lia.
Qed.

(* any in-order delivery with duplicates has the effect of the in-order stream *)
Lemma delivery_le reqs m d m' : delivery reqs m d m' -> (m <= m')%nat.
Proof. induction 1; lia. Qed.

Lemma delivery_effect g reqs m d m' :
  delivery reqs m d m' ->
  (forall j q, nth_error reqs j = Some q -> q_srg q = g /\ q_seq q = N.of_nat (S j)) ->
  forall rc, last_of rc g = N.of_nat m ->
  recv_run repaired rc d = recv_run repaired rc (firstn (m' - m) (skipn m reqs)).
Proof.
  intros Hd Hshape. induction Hd as [m|m q d m' Hq Hd IH|m k q d m' Hk Hq Hd IH]; intros rc Hl.
  - rewrite Nat.sub_diag. reflexivity.
  - pose proof (delivery_le _ _ _ _ Hd) as Hle.
    rewrite (skipn_cons_nth m reqs q Hq). replace (m' - m)%nat with (S (m' - S m)) by lia.
    cbn [firstn]. rewrite !recv_run_cons.
    apply IH. destruct (Hshape _ _ Hq) as [A B]. rewrite <- A. rewrite last_of_step; [exact B|]. rewrite A, Hl, B. lia.
  - rewrite recv_run_cons.
    destruct (Hshape _ _ Hq) as [A B]. rewrite recv_step_stale by (rewrite A, Hl, B; lia).
    apply IH, Hl.
Qed.

Lemma stream_of_sender cap g evs :
  g <> 0%N -> (forall e, In e evs -> s_srg (fst e) = g) -> (N.of_nat (length evs) < n64)%N ->
  snd (sender_run [(g, (0%N, new_ring cap))] evs) = reqs_from g 0 evs /\
  aget N.eqb g (fst (sender_run [(g, (0%N, new_ring cap))] evs)) =
    Some (N.of_nat (length evs), fold_left push (reqs_from g 0 evs) (new_ring cap)).
Proof.
  intros Hg Hall Hlt.
  apply (sender_run_shape g evs [(g, (0%N, new_ring cap))] 0%N (new_ring cap) Hg); auto.
  simpl. rewrite N.eqb_refl. reflexivity.
Qed.

Lemma stream_shape g evs j q : nth_error (reqs_from g 0 evs) j = Some q -> q_srg q = g /\ q_seq q = N.of_nat (S j).
Proof. intros H. destruct (reqs_from_nth _ _ _ _ _ H) as (A & B & _). split; [exact A|]. rewrite B. lia. Qed.

Lemma delivered_is_inorder g evs d rc :
  last_of rc g = 0%N ->
  delivery (reqs_from g 0 evs) 0 d (length (reqs_from g 0 evs)) ->
  recv_run repaired rc d = recv_run repaired rc (reqs_from g 0 evs).
Proof.
  intros Hl Hd.
  rewrite (delivery_effect g _ _ _ _ Hd (stream_shape g evs) rc Hl).
  rewrite Nat.sub_0_r. simpl skipn. rewrite firstn_all. reflexivity.
Qed.

Lemma converges_store g0 cap g evs d :
  g <> 0%N -> (forall e, In e evs -> s_srg (fst e) = g) -> (N.of_nat (length evs) < n64)%N ->
  let reqs := snd (sender_run [(g, (0%N, new_ring cap))] evs) in
  delivery reqs 0 d (length reqs) ->
  rc_store (recv_run repaired (mkrecv [] [] g0) d) = expected_store (live_run evs) /\
  last_of (recv_run repaired (mkrecv [] [] g0) d) g = N.of_nat (length evs).
Proof.
  intros Hg Hall Hlt reqs Hd. unfold reqs in *.
  destruct (stream_of_sender cap g evs Hg Hall Hlt) as [E _]. rewrite E in Hd.
  rewrite (delivered_is_inorder g evs d (mkrecv [] [] g0) eq_refl Hd).
  destruct (store_inorder repaired g evs 0%N (mkrecv [] [] g0) [] eq_refl eq_refl) as [A B].
  split; [exact A|]. rewrite B. lia.
Qed.

Lemma sender_backlog_exact cap g evs from to :
  g <> 0%N -> (forall e, In e evs -> s_srg (fst e) = g) -> (N.of_nat (length evs) < n64)%N ->
  (0 < cap <= max_make)%Z -> (0 <= from < two64)%Z -> (0 <= to < two64)%Z ->
  exists seq b, aget N.eqb g (fst (sender_run [(g, (0%N, new_ring cap))] evs)) = Some (seq, b) /\
    seq = N.of_nat (length evs) /\
    range repaired b from to =
      Ok (map Some (filter (in_range from to)
            (skipn (length evs - Z.to_nat cap) (snd (sender_run [(g, (0%N, new_ring cap))] evs))))).
Proof.
  intros Hg Hall Hlt Hc Hf Ht.
  destruct (stream_of_sender cap g evs Hg Hall Hlt) as [E1 E2].
  eexists _, _. split; [exact E2|]. split; [reflexivity|]. rewrite E1.
  rewrite <- (reqs_from_length g 0 evs).
  apply (backlog_range_repaired cap _ 1); try assumption; try lia.
  - apply (reqs_from_consec g 0 evs).
  - rewrite reqs_from_length. unfold two64. unfold n64 in Hlt. lia.
Qed.

Lemma checkpoint_identity s :
  let c := s2c s in
  c_sid c = s_sid s /\ c_srg c = s_srg s /\ c_mac c = s_mac s /\ c_ov c = s_ov s /\ c_iv c = s_iv s /\
  c_user c = s_user s /\ cp_key c = sess_key s /\
  (s_kind s <> KL2GW ->
     c_v4 c = s_v4 s /\ c_v6 c = s_v6 s /\ c_v4pool c = s_v4pool s /\ c_napool c = s_napool s /\ c_vrf c = s_vrf s /\
     c_pd c = match s_pd s with Some p => parse_cidr p | None => None end) /\
  (s_kind s = KL2GW -> c_v4 c = None /\ c_v6 c = None /\ c_pd c = None).
Proof.
  cbv zeta. pose proof (cp_key_s2c s) as K. unfold s2c in *.
  destruct (s_kind s); simpl; repeat split; auto; try congruence.
Qed.

(* ================================================================== *)
(* 4. receiver: pool reservations are exactly the live addresses       *)
(* ================================================================== *)
Definition lease_v (pools : list (N * pool)) (p k : N) : option N :=
  match aget N.eqb p pools with Some pl => aget N.eqb k (a_leases (p_al pl)) | None => None end.
Definition lease_d (pools : list (N * pdpool)) (p k : N) : option N :=
  match aget N.eqb p pools with Some d => aget N.eqb k (a_leases (d_al d)) | None => None end.
(* who holds (family, pool, address / prefix index) on the standby *)
Definition lease_at (g : registry) (x : N * N * N) : option N :=
  let '(f, p, k) := x in
  if N.eqb f 4 then lease_v (g_v4 g) p k
  else if N.eqb f 6 then lease_v (g_na g) p k
  else if N.eqb f 7 then lease_d (g_pd g) p k
  else None.

Lemma aget_upd_pool pools n f p :
  aget N.eqb p (upd_pool pools n f) =
  match aget N.eqb p pools with
  | Some pl => Some (if N.eqb p n then mkpool (p_start pl) (p_end pl) (p_excl pl) (f pl) else pl)
  | None => None
  end.
Proof.
  induction pools as [|[n0 pl0] r IH]; simpl; [reflexivity|].
  destruct (N.eqb n0 n) eqn:E1; simpl; destruct (N.eqb p n0) eqn:E2; auto.
  - apply N.eqb_eq in E1, E2. subst. rewrite N.eqb_refl. reflexivity.
  - apply N.eqb_eq in E2. subst. rewrite E1. reflexivity.
Qed.

Lemma aget_upd_pd pools n f p :
  aget N.eqb p (upd_pd pools n f) =
  match aget N.eqb p pools with
  | Some d => Some (if N.eqb p n then mkpd (d_base d) (d_netbits d) (d_plen d) (d_count d) (f d) else d)
  | None => None
  end.
Proof.
  induction pools as [|[n0 d0] r IH]; simpl; [reflexivity|].
  destruct (N.eqb n0 n) eqn:E1; simpl; destruct (N.eqb p n0) eqn:E2; auto.
  - apply N.eqb_eq in E1, E2. subst. rewrite N.eqb_refl. reflexivity.
  - apply N.eqb_eq in E2. subst. rewrite E1. reflexivity.
Qed.

Lemma lease_reserve al a sid k :
  aget N.eqb k (a_leases (a_reserve al a sid)) =
  if N.eqb k a then (match aget N.eqb a (a_leases al) with Some o => Some o | None => Some sid end)
  else aget N.eqb k (a_leases al).
Proof.
  unfold a_reserve. destruct (aget N.eqb a (a_leases al)) as [o|] eqn:E; simpl.
  - destruct (N.eqb_spec k a) as [->|]; [exact E|reflexivity].
  - rewrite (aget_aset N.eqb N.eqb_eq). reflexivity.
Qed.

Lemma lease_release al a back k :
  aget N.eqb k (a_leases (a_release al a back)) = if N.eqb k a then None else aget N.eqb k (a_leases al).
Proof.
  unfold a_release. destruct (aget N.eqb a (a_leases al)) as [o|] eqn:E; simpl.
  - rewrite (aget_adel N.eqb N.eqb_eq). reflexivity.
  - destruct (N.eqb_spec k a) as [->|]; [exact E|reflexivity].
Qed.

Lemma find_upd_pool pools n f a :
  option_map fst (find (fun np => p_contains (snd np) a) (upd_pool pools n f)) =
  option_map fst (find (fun np => p_contains (snd np) a) pools).
Proof.
  induction pools as [|[n0 pl0] r IH]; simpl; [reflexivity|].
  destruct (N.eqb n0 n); simpl; unfold p_contains; simpl; fold (p_contains pl0 a);
    destruct (p_contains pl0 a); simpl; auto.
Qed.

Lemma resolve_v_upd pools n f name a : resolve_v (upd_pool pools n f) name a = resolve_v pools name a.
Proof.
  unfold resolve_v. rewrite aget_upd_pool. destruct (aget N.eqb name pools); [reflexivity|].
  pose proof (find_upd_pool pools n f a) as H.
  destruct (find _ (upd_pool pools n f)), (find _ pools); simpl in H; congruence.
Qed.

Lemma p2i_geo d al a len :
  prefix_to_index (mkpd (d_base d) (d_netbits d) (d_plen d) (d_count d) al) a len = prefix_to_index d a len.
Proof. reflexivity. Qed.

Lemma find_upd_pd pools n f p :
  option_map fst (find (fun np => d_contains (snd np) p) (upd_pd pools n f)) =
  option_map fst (find (fun np => d_contains (snd np) p) pools).
Proof.
  induction pools as [|[n0 d0] r IH]; simpl; [reflexivity|].
  destruct (N.eqb n0 n); simpl; unfold d_contains; simpl; rewrite ?p2i_geo; fold (d_contains d0 p);
    destruct (d_contains d0 p); simpl; auto.
Qed.

Lemma resolve_d_upd pools n f name p : resolve_d (upd_pd pools n f) name p = resolve_d pools name p.
Proof.
  unfold resolve_d. rewrite aget_upd_pd. destruct (aget N.eqb name pools); [reflexivity|].
  pose proof (find_upd_pd pools n f p) as H.
  destruct (find _ (upd_pd pools n f)), (find _ pools); simpl in H; congruence.
Qed.

Lemma resolve_v_exists pools name a n : resolve_v pools name a = Some n -> exists pl, aget N.eqb n pools = Some pl.
Proof.
  unfold resolve_v. destruct (aget N.eqb name pools) as [pl|] eqn:E.
  - intros H; inversion H; subst. eauto.
  - destruct (find _ pools) as [[n0 pl0]|] eqn:F; [|discriminate]. intros H; inversion H; subst; simpl.
    apply find_some in F. destruct F as [F _]. clear -F.
    induction pools as [|[n1 pl1] r IH]; simpl in *; [contradiction|].
    destruct (N.eqb_spec n n1); [eauto|]. destruct F as [F|F]; [inversion F; subst; contradiction|auto].
Qed.

(* effect of a reservation / release on the lease map, one family *)
Lemma lease_v_reserve pools name a sid p k :
  lease_v (reserve_v pools name a sid) p k =
  match resolve_v pools name a with
  | Some n => if N.eqb p n && N.eqb k a
              then (match lease_v pools p k with Some o => Some o | None => Some sid end)
              else lease_v pools p k
  | None => lease_v pools p k
  end.
Proof.
  unfold reserve_v. destruct (resolve_v pools name a) as [n|] eqn:R; [|reflexivity].
  unfold lease_v. rewrite aget_upd_pool.
  destruct (aget N.eqb p pools) as [pl|] eqn:E.
  - destruct (N.eqb_spec p n) as [->|Hp]; simpl; [|reflexivity].
    unfold p_reserve. rewrite lease_reserve. destruct (N.eqb_spec k a) as [->|]; reflexivity.
  - destruct (N.eqb_spec p n) as [->|Hp]; simpl; [|reflexivity].
    destruct (resolve_v_exists _ _ _ _ R) as [pl Hpl]. congruence.
Qed.

Lemma lease_v_release pools name a p k :
  lease_v (release_v pools name a) p k =
  match resolve_v pools name a with
  | Some n => if N.eqb p n && N.eqb k a then None else lease_v pools p k
  | None => lease_v pools p k
  end.
Proof.
  unfold release_v. destruct (resolve_v pools name a) as [n|] eqn:R; [|reflexivity].
  unfold lease_v. rewrite aget_upd_pool.
  destruct (aget N.eqb p pools) as [pl|] eqn:E.
  - destruct (N.eqb_spec p n) as [->|Hp]; simpl; [|reflexivity].
    unfold p_release. rewrite lease_release. destruct (N.eqb_spec k a) as [->|]; reflexivity.
  - destruct (N.eqb p n && N.eqb k a); reflexivity.
Qed.

(* the single (pool, index) a prefix reserves, as resv_cp computes it *)
Definition claim_d (pools : list (N * pdpool)) (name : N) (p : N * N) : option (N * N) :=
  match resolve_d pools name p with
  | Some n => match aget N.eqb n pools with
              | Some d => match prefix_to_index d (fst p) (snd p) with Some i => Some (n, i) | None => None end
              | None => None
              end
  | None => None
  end.

Lemma lease_d_reserve pools name pfx sid p k :
  lease_d (reserve_d pools name pfx sid) p k =
  match claim_d pools name pfx with
  | Some (n, i) => if N.eqb p n && N.eqb k i
                   then (match lease_d pools p k with Some o => Some o | None => Some sid end)
                   else lease_d pools p k
  | None => lease_d pools p k
  end.
Proof.
  unfold reserve_d, claim_d. destruct (resolve_d pools name pfx) as [n|] eqn:R; [|reflexivity].
  unfold lease_d. rewrite aget_upd_pd.
  destruct (aget N.eqb n pools) as [dn|] eqn:En.
  - destruct (aget N.eqb p pools) as [d|] eqn:E.
    + destruct (N.eqb_spec p n) as [->|Hp]; simpl.
      * assert (d = dn) by congruence. subst d. unfold d_reserve.
        destruct (prefix_to_index dn (fst pfx) (snd pfx)) as [i|]; simpl; [|reflexivity].
        rewrite N.eqb_refl. simpl. rewrite lease_reserve. destruct (N.eqb_spec k i) as [->|]; reflexivity.
      * destruct (prefix_to_index dn (fst pfx) (snd pfx)) as [i|]; [|reflexivity].
        destruct (N.eqb_spec p n); [contradiction|reflexivity].
    + destruct (prefix_to_index dn (fst pfx) (snd pfx)) as [i|]; [|reflexivity].
      destruct (N.eqb_spec p n) as [->|]; [congruence|reflexivity].
  - destruct (aget N.eqb p pools) as [d|] eqn:E; [|reflexivity].
    destruct (N.eqb_spec p n) as [->|]; [congruence|reflexivity].
Qed.

Lemma lease_d_release pools name pfx p k :
  lease_d (release_d pools name pfx) p k =
  match claim_d pools name pfx with
  | Some (n, i) => if N.eqb p n && N.eqb k i then None else lease_d pools p k
  | None => lease_d pools p k
  end.
Proof.
  unfold release_d, claim_d. destruct (resolve_d pools name pfx) as [n|] eqn:R; [|reflexivity].
  unfold lease_d. rewrite aget_upd_pd.
  destruct (aget N.eqb n pools) as [dn|] eqn:En.
  - destruct (aget N.eqb p pools) as [d|] eqn:E.
    + destruct (N.eqb_spec p n) as [->|Hp]; simpl.
      * assert (d = dn) by congruence. subst d. unfold d_release.
        destruct (prefix_to_index dn (fst pfx) (snd pfx)) as [i|]; simpl; [|reflexivity].
        rewrite N.eqb_refl. simpl. rewrite lease_release. destruct (N.eqb_spec k i) as [->|]; reflexivity.
      * destruct (prefix_to_index dn (fst pfx) (snd pfx)) as [i|]; [|reflexivity].
        destruct (N.eqb_spec p n); [contradiction|reflexivity].
    + destruct (prefix_to_index dn (fst pfx) (snd pfx)) as [i|]; [|reflexivity].
      destruct (N.eqb_spec p n) as [->|]; [congruence|reflexivity].
  - destruct (aget N.eqb p pools) as [d|] eqn:E; [|reflexivity].
    destruct (N.eqb_spec p n) as [->|]; [congruence|reflexivity].
Qed.

Lemma claim_d_upd pools n f name p : claim_d (upd_pd pools n f) name p = claim_d pools name p.
Proof.
  unfold claim_d. rewrite resolve_d_upd. destruct (resolve_d pools name p) as [m|]; [|reflexivity].
  rewrite aget_upd_pd. destruct (aget N.eqb m pools) as [d|]; [|reflexivity].
  destruct (N.eqb m n); reflexivity.
Qed.

(* ---------- registry level ---------- *)
Definition teqb (a b : N * N * N) : bool :=
  let '(f1, p1, k1) := a in let '(f2, p2, k2) := b in N.eqb f1 f2 && N.eqb p1 p2 && N.eqb k1 k2.
Lemma teqb_eq a b : teqb a b = true <-> a = b.
Proof.
  destruct a as [[f1 p1] k1], b as [[f2 p2] k2]. unfold teqb. rewrite !andb_true_iff, !N.eqb_eq.
  split; [intros [[-> ->] ->]; reflexivity|intros H; inversion H; auto].
Qed.

Definition part4 (g : registry) (c : checkpoint) : list ((N * N * N) * N) :=
  match c_v4 c with
  | Some a => match resolve_v (g_v4 g) (c_v4pool c) a with Some n => [((4%N, n, a), c_sid c)] | None => [] end
  | None => [] end.
Definition part6 (g : registry) (c : checkpoint) : list ((N * N * N) * N) :=
  match c_v6 c with
  | Some a => match resolve_v (g_na g) (c_napool c) a with Some n => [((6%N, n, a), c_sid c)] | None => [] end
  | None => [] end.
Definition part7 (g : registry) (c : checkpoint) : list ((N * N * N) * N) :=
  match c_pd c with
  | Some p => if N.ltb 0 (snd p)
              then match claim_d (g_pd g) (c_pdpool c) p with Some (n, i) => [((7%N, n, i), c_sid c)] | None => [] end
              else []
  | None => [] end.

Lemma resv_parts g c : resv_cp g c = part4 g c ++ part6 g c ++ part7 g c.
Proof.
  unfold resv_cp, part4, part6, part7, claim_d. f_equal. f_equal.
  destruct (c_pd c) as [p|]; [|reflexivity]. destruct (N.ltb 0 (snd p)); [|reflexivity].
  destruct (resolve_d (g_pd g) (c_pdpool c) p) as [n|]; [|reflexivity].
  destruct (aget N.eqb n (g_pd g)) as [d|]; [|reflexivity].
  destruct (prefix_to_index d (fst p) (snd p)); reflexivity.
Qed.

Definition claims (g : registry) (c : checkpoint) : list (N * N * N) := map fst (resv_cp g c).
Definition claimed (g : registry) (c : checkpoint) (x : N * N * N) : bool := existsb (teqb x) (claims g c).

Lemma claimed_parts g c f p k :
  claimed g c (f, p, k) =
  (match c_v4 c with
   | Some a => match resolve_v (g_v4 g) (c_v4pool c) a with Some n => N.eqb f 4 && N.eqb p n && N.eqb k a | None => false end
   | None => false end) ||
  (match c_v6 c with
   | Some a => match resolve_v (g_na g) (c_napool c) a with Some n => N.eqb f 6 && N.eqb p n && N.eqb k a | None => false end
   | None => false end) ||
  (match c_pd c with
   | Some pf => if N.ltb 0 (snd pf)
                then match claim_d (g_pd g) (c_pdpool c) pf with Some (n, i) => N.eqb f 7 && N.eqb p n && N.eqb k i | None => false end
                else false
   | None => false end).
Proof.
  unfold claimed, claims. rewrite resv_parts, !map_app, !existsb_app, orb_assoc.
  unfold part4, part6, part7. f_equal; [f_equal|].
  - destruct (c_v4 c); [|reflexivity]. destruct (resolve_v _ _ _); simpl; [rewrite orb_false_r|]; reflexivity.
  - destruct (c_v6 c); [|reflexivity]. destruct (resolve_v _ _ _); simpl; [rewrite orb_false_r|]; reflexivity.
  - destruct (c_pd c) as [pf|]; [|reflexivity]. destruct (N.ltb 0 (snd pf)); [|reflexivity].
    destruct (claim_d _ _ _) as [[n i]|]; simpl; [rewrite orb_false_r|]; reflexivity.
Qed.

Ltac split_claims g c :=
  destruct (c_v4 c) as [a4|]; [destruct (resolve_v (g_v4 g) (c_v4pool c) a4) as [n4|] eqn:R4|];
  (destruct (c_v6 c) as [a6|]; [destruct (resolve_v (g_na g) (c_napool c) a6) as [n6|] eqn:R6|]);
  (destruct (c_pd c) as [pf|];
   [destruct (N.ltb 0 (snd pf)); [destruct (claim_d (g_pd g) (c_pdpool c) pf) as [[n7 i7]|] eqn:R7|]|]).

Ltac fam_cases f :=
  destruct (N.eqb_spec f 4) as [->|H4]; [cbn; rewrite ?orb_false_r; reflexivity|];
  destruct (N.eqb_spec f 6) as [->|H6]; [cbn; rewrite ?orb_false_r; reflexivity|];
  destruct (N.eqb_spec f 7) as [->|H7]; [cbn; rewrite ?orb_false_r; reflexivity|];
  replace (N.eqb f 4) with false by (symmetry; apply N.eqb_neq; exact H4);
  replace (N.eqb f 6) with false by (symmetry; apply N.eqb_neq; exact H6);
  replace (N.eqb f 7) with false by (symmetry; apply N.eqb_neq; exact H7);
  reflexivity.

Lemma lease_at_reserve_cp g c x :
  lease_at (reserve_cp g c) x =
  if claimed g c x then (match lease_at g x with Some o => Some o | None => Some (c_sid c) end) else lease_at g x.
Proof.
  destruct x as [[f p] k]. rewrite claimed_parts. unfold lease_at, reserve_cp. cbn [g_v4 g_na g_pd].
  split_claims g c; rewrite ?lease_v_reserve, ?lease_d_reserve, ?R4, ?R6, ?R7; fam_cases f.
Qed.

Lemma lease_at_release_cp g c x :
  lease_at (release_cp repaired g c) x = if claimed g c x then None else lease_at g x.
Proof.
  destruct x as [[f p] k]. rewrite claimed_parts. unfold lease_at, release_cp. cbn [g_v4 g_na g_pd f_relall repaired].
  split_claims g c; rewrite ?lease_v_release, ?lease_d_release, ?R4, ?R6, ?R7; fam_cases f.
Qed.

Lemma resolve_v_reserve pools name a sid name' a' : resolve_v (reserve_v pools name a sid) name' a' = resolve_v pools name' a'.
Proof. unfold reserve_v. destruct (resolve_v pools name a); [apply resolve_v_upd|reflexivity]. Qed.
Lemma resolve_v_release pools name a name' a' : resolve_v (release_v pools name a) name' a' = resolve_v pools name' a'.
Proof. unfold release_v. destruct (resolve_v pools name a); [apply resolve_v_upd|reflexivity]. Qed.
Lemma claim_d_reserve pools name p sid name' p' : claim_d (reserve_d pools name p sid) name' p' = claim_d pools name' p'.
Proof. unfold reserve_d. destruct (resolve_d pools name p); [apply claim_d_upd|reflexivity]. Qed.
Lemma claim_d_release pools name p name' p' : claim_d (release_d pools name p) name' p' = claim_d pools name' p'.
Proof. unfold release_d. destruct (resolve_d pools name p); [apply claim_d_upd|reflexivity]. Qed.

Lemma resv_reserve g c c' : resv_cp (reserve_cp g c) c' = resv_cp g c'.
Proof.
  rewrite !resv_parts. unfold part4, part6, part7, reserve_cp. cbn [g_v4 g_na g_pd].
  f_equal; [|f_equal].
  - destruct (c_v4 c'); [|reflexivity]. destruct (c_v4 c); [rewrite resolve_v_reserve|]; reflexivity.
  - destruct (c_v6 c'); [|reflexivity]. destruct (c_v6 c); [rewrite resolve_v_reserve|]; reflexivity.
  - destruct (c_pd c') as [p'|]; [|reflexivity]. destruct (N.ltb 0 (snd p')); [|reflexivity].
    destruct (c_pd c) as [p|]; [|reflexivity]. destruct (N.ltb 0 (snd p)); [rewrite claim_d_reserve|]; reflexivity.
Qed.
Lemma resv_release g c c' : resv_cp (release_cp repaired g c) c' = resv_cp g c'.
Proof.
  rewrite !resv_parts. unfold part4, part6, part7, release_cp. cbn [g_v4 g_na g_pd f_relall repaired].
  f_equal; [|f_equal].
  - destruct (c_v4 c'); [|reflexivity]. destruct (c_v4 c); [rewrite resolve_v_release|]; reflexivity.
  - destruct (c_v6 c'); [|reflexivity]. destruct (c_v6 c); [rewrite resolve_v_release|]; reflexivity.
  - destruct (c_pd c') as [p'|]; [|reflexivity]. destruct (N.ltb 0 (snd p')); [|reflexivity].
    destruct (c_pd c) as [p|]; [|reflexivity]. destruct (N.ltb 0 (snd p)); [rewrite claim_d_release|]; reflexivity.
Qed.

Lemma resv_sid g c x sid : In (x, sid) (resv_cp g c) -> sid = c_sid c.
Proof.
  rewrite resv_parts. unfold part4, part6, part7. rewrite !in_app_iff.
  destruct (c_v4 c); [destruct (resolve_v _ _ _)|]; destruct (c_v6 c); try destruct (resolve_v (g_na g) _ _);
    destruct (c_pd c) as [pf|]; try destruct (N.ltb 0 (snd pf)); try destruct (claim_d _ _ _) as [[? ?]|];
    simpl; intuition; try congruence.
Qed.

Lemma claimed_in g c x : claimed g c x = true <-> In x (claims g c).
Proof.
  unfold claimed. rewrite existsb_exists. split.
  - intros (y & Hy & E). apply teqb_eq in E. subst; exact Hy.
  - intros H. exists x. split; [exact H|apply teqb_eq; reflexivity].
Qed.
Lemma claims_in g c x : In x (claims g c) <-> In (x, c_sid c) (resv_cp g c).
Proof.
  unfold claims. rewrite in_map_iff. split.
  - intros ([x' sid] & E & H). simpl in E; subst x'. rewrite <- (resv_sid _ _ _ _ H). exact H.
  - intros H. exists (x, c_sid c). auto.
Qed.

(* ---------- association lists with unique keys ---------- *)
Section AssocIn.
  Context {K V : Type} (eqb : K -> K -> bool) (eqb_eq : forall a b, eqb a b = true <-> a = b).
  Lemma in_adel k k' (v' : V) l : In (k', v') (adel eqb k l) <-> k' <> k /\ In (k', v') l.
  Proof.
    induction l as [|[k0 v0] r IH]; simpl; [tauto|].
    destruct (eqb k k0) eqn:E.
    - apply eqb_eq in E; subst k0. rewrite IH. split; [tauto|]. intros [A [B|B]]; [inversion B; subst; contradiction|tauto].
    - simpl. rewrite IH. split.
      + intros [B|B]; [inversion B; subst; split; [|auto]|tauto]. intros ->. rewrite (eqb_refl' eqb eqb_eq) in E. discriminate.
      + tauto.
  Qed.
  Lemma keys_adel k (l : list (K * V)) x : In x (map fst (adel eqb k l)) -> In x (map fst l).
  Proof. rewrite !in_map_iff. intros ([k' v'] & E & H). apply in_adel in H. exists (k', v'). tauto. Qed.
  Lemma nodup_adel k (l : list (K * V)) : NoDup (map fst l) -> NoDup (map fst (adel eqb k l)).
  Proof.
    induction l as [|[k0 v0] r IH]; simpl; intros H; [constructor|]. inversion H; subst.
    destruct (eqb k k0); [auto|]. simpl. constructor; [|auto]. intros G. apply keys_adel in G. contradiction.
  Qed.
  Lemma keys_aset k (v : V) l x : In x (map fst (aset eqb k v l)) -> x = k \/ In x (map fst l).
  Proof.
    induction l as [|[k0 v0] r IH]; simpl; [intros [A|[]]; auto|].
    destruct (eqb k k0) eqn:E; simpl; [apply eqb_eq in E; subst; intros [A|A]; auto|]. intros [A|A]; [auto|]. apply IH in A. tauto.
  Qed.
  Lemma nodup_aset k (v : V) l : NoDup (map fst l) -> NoDup (map fst (aset eqb k v l)).
  Proof.
    induction l as [|[k0 v0] r IH]; simpl; intros H; [constructor; [simpl; tauto|constructor]|]. inversion H; subst.
    destruct (eqb k k0) eqn:E; simpl.
    - apply eqb_eq in E; subst. constructor; auto.
    - constructor; [|auto]. intros G. apply keys_aset in G. destruct G as [->|G]; [|contradiction].
      rewrite (eqb_refl' eqb eqb_eq) in E. discriminate.
  Qed.
  Lemma in_aset k (v : V) l k' v' : NoDup (map fst l) ->
    (In (k', v') (aset eqb k v l) <-> (k' = k /\ v' = v) \/ (k' <> k /\ In (k', v') l)).
  Proof.
    induction l as [|[k0 v0] r IH]; simpl; intros H.
    - split; [intros [A|[]]; inversion A; auto|intros [[-> ->]|[_ []]]; auto].
    - inversion H; subst. destruct (eqb k k0) eqn:E; simpl.
      + apply eqb_eq in E; subst k0. split.
        * intros [A|A]; [inversion A; auto|]. right. split; [|auto]. intros ->. apply H2. apply in_map_iff. exists (k, v'); auto.
        * intros [[-> ->]|[A [B|B]]]; [auto|inversion B; subst; contradiction|auto].
      + rewrite (IH H3). split.
        * intros [A|A]; [inversion A; subst; right; split; [|auto]|tauto].
          intros ->. rewrite (eqb_refl' eqb eqb_eq) in E. discriminate.
        * tauto.
  Qed.
  Lemma aget_in k (v : V) l : NoDup (map fst l) -> (aget eqb k l = Some v <-> In (k, v) l).
  Proof.
    induction l as [|[k0 v0] r IH]; simpl; intros H; [split; [discriminate|tauto]|]. inversion H; subst.
    destruct (eqb k k0) eqn:E.
    - apply eqb_eq in E; subst k0. split; [intros A; inversion A; auto|].
      intros [A|A]; [inversion A; auto|]. exfalso. apply H2. apply in_map_iff. exists (k, v); auto.
    - rewrite (IH H3). split; [auto|]. intros [A|A]; [inversion A; subst|auto].
      rewrite (eqb_refl' eqb eqb_eq) in E. discriminate.
  Qed.
  Lemma aget_none k (l : list (K * V)) : aget eqb k l = None -> forall v, ~ In (k, v) l.
  Proof.
    induction l as [|[k0 v0] r IH]; simpl; intros H v; [tauto|]. destruct (eqb k k0) eqn:E; [discriminate|].
    intros [A|A]; [inversion A; subst; rewrite (eqb_refl' eqb eqb_eq) in E; discriminate|exact (IH H v A)].
  Qed.
End AssocIn.

Lemma aget_map {K V W} (eqb : K -> K -> bool) (f : V -> W) k (l : list (K * V)) :
  aget eqb k (map (fun kv => (fst kv, f (snd kv))) l) = option_map f (aget eqb k l).
Proof. induction l as [|[k0 v0] r IH]; simpl; [reflexivity|]. destruct (eqb k k0); [reflexivity|exact IH]. Qed.

(* ---------- no two live sessions claim the same (family, pool, address) ---------- *)
Definition uniq (g0 : registry) (live : list ((N * N) * session)) : Prop :=
  NoDup (map fst (expected_leases g0 live)).

Lemma nodup_app_disjoint {A} (l1 l2 : list A) x : NoDup (l1 ++ l2) -> In x l1 -> In x l2 -> False.
Proof.
  induction l1 as [|y r IH]; simpl; intros H H1 H2; [contradiction|]. inversion H as [|? ? Hn Hd]; subst.
  destruct H1 as [->|H1]; [apply Hn, in_or_app; auto|exact (IH Hd H1 H2)].
Qed.
Lemma nodup_app_r {A} (l1 l2 : list A) : NoDup (l1 ++ l2) -> NoDup l2.
Proof. induction l1; simpl; intros H; [exact H|]. inversion H; auto. Qed.

Lemma uniq_conflict g0 live e1 e2 x :
  uniq g0 live -> NoDup (map fst live) -> In e1 live -> In e2 live -> fst e1 <> fst e2 ->
  In x (claims g0 (s2c (snd e1))) -> In x (claims g0 (s2c (snd e2))) -> False.
Proof.
  unfold uniq, expected_leases, claims.
  induction live as [|e r IH]; simpl; intros Hu Hk H1 H2 Hne C1 C2; [contradiction|].
  rewrite map_app in Hu. inversion Hk as [|? ? Hkn Hkd]; subst.
  assert (T : forall e', In e' r -> In x (map fst (resv_cp g0 (s2c (snd e')))) ->
              In x (map fst (flat_map (fun ks => resv_cp g0 (s2c (snd ks))) r))).
  { intros e' He' Hx. apply in_map_iff in Hx. destruct Hx as (y & Ey & Hy). apply in_map_iff. exists y. split; [exact Ey|].
    apply in_flat_map. exists e'. auto. }
  destruct H1 as [->|H1], H2 as [->|H2].
  - contradiction.
  - exact (nodup_app_disjoint _ _ x Hu C1 (T _ H2 C2)).
  - exact (nodup_app_disjoint _ _ x Hu C2 (T _ H1 C1)).
  - exact (IH (nodup_app_r _ _ Hu) Hkd H1 H2 Hne C1 C2).
Qed.

(* ---------- the invariant ---------- *)
Definition owner (g0 : registry) (live : list ((N * N) * session)) (x : N * N * N) (sid : N) : Prop :=
  exists e, In e live /\ In (x, sid) (resv_cp g0 (s2c (snd e))).

Definition pinv (g0 : registry) (rc : receiver) (live : list ((N * N) * session)) : Prop :=
  rc_store rc = expected_store live /\ NoDup (map fst live) /\
  (forall c', resv_cp (rc_reg rc) c' = resv_cp g0 c') /\
  (forall x sid, lease_at (rc_reg rc) x = Some sid <-> owner g0 live x sid).

Lemma claims_geo g g0 c : (forall c', resv_cp g c' = resv_cp g0 c') -> claims g c = claims g0 c.
Proof. intros H. unfold claims. rewrite H. reflexivity. Qed.

Lemma pinv_release g0 rc live k : pinv g0 rc live ->
  let g1 := match aget keyeqb k (rc_store rc) with
            | Some old => release_cp repaired (rc_reg rc) old | None => rc_reg rc end in
  (forall c', resv_cp g1 c' = resv_cp g0 c') /\
  (forall x sid, lease_at g1 x = Some sid <->
     (owner g0 live x sid /\ forall olds, aget keyeqb k live = Some olds -> ~ In x (claims g0 (s2c olds)))).
Proof.
  intros (Hs & Hnd & Hgeo & Hl). cbv zeta. rewrite Hs. unfold expected_store. rewrite aget_map.
  destruct (aget keyeqb k live) as [olds|]; simpl.
  - split; [intros c'; rewrite resv_release; apply Hgeo|].
    intros x sid. rewrite lease_at_release_cp.
    destruct (claimed (rc_reg rc) (s2c olds) x) eqn:C.
    + apply claimed_in in C. rewrite (claims_geo _ g0 _ Hgeo) in C.
      split; [discriminate|]. intros [_ H]. exfalso. exact (H olds eq_refl C).
    + split.
      * intros H. split; [apply Hl, H|]. intros o E; inversion E; subst o. intros G.
        rewrite <- (claims_geo _ g0 _ Hgeo) in G. apply claimed_in in G. congruence.
      * intros [H _]. apply Hl, H.
  - split; [exact Hgeo|]. intros x sid. split.
    + intros H. split; [apply Hl, H|discriminate].
    + intros [H _]. apply Hl, H.
Qed.

Lemma owner_claims g0 (e : (N * N) * session) x sid :
  In (x, sid) (resv_cp g0 (s2c (snd e))) -> In x (claims g0 (s2c (snd e))).
Proof. intros H. unfold claims. apply in_map_iff. exists (x, sid). auto. Qed.

Lemma pinv_delete g0 rc live s last' :
  pinv g0 rc live -> uniq g0 live ->
  pinv g0 (recv_delete repaired (mkrecv last' (rc_store rc) (rc_reg rc)) (s2c s)) (adel keyeqb (sess_key s) live).
Proof.
  intros Hp Hu. pose proof (pinv_release g0 rc live (sess_key s) Hp) as [Hg1 Hl1].
  destruct Hp as (Hs & Hnd & Hgeo & Hl).
  unfold recv_delete. cbn [f_drop repaired rc_store rc_reg rc_last]. rewrite cp_key_s2c.
  unfold pinv. cbn [rc_store rc_reg]. split; [|split; [|split]].
  - rewrite Hs. unfold expected_store. rewrite map_adel. reflexivity.
  - apply (nodup_adel keyeqb keyeqb_eq), Hnd.
  - exact Hg1.
  - intros x sid. rewrite Hl1. unfold owner. split.
    + intros [(e & He & Hx) Hno]. exists e. split; [|exact Hx].
      destruct e as [k' s']. apply (in_adel keyeqb keyeqb_eq). split; [|exact He].
      intros ->. apply (Hno s'); [apply (aget_in keyeqb keyeqb_eq); assumption|].
      exact (owner_claims g0 (sess_key s, s') x sid Hx).
    + intros (e & He & Hx). destruct e as [k' s']. apply (in_adel keyeqb keyeqb_eq) in He. destruct He as [Hne He].
      split; [exists (k', s'); auto|]. intros olds Eo G.
      apply (aget_in keyeqb keyeqb_eq _ _ _ Hnd) in Eo.
      exact (uniq_conflict g0 live (k', s') (sess_key s, olds) x Hu Hnd He Eo Hne (owner_claims g0 (k', s') x sid Hx) G).
Qed.

Lemma pinv_update g0 rc live s last' :
  pinv g0 rc live -> uniq g0 live -> uniq g0 (aset keyeqb (sess_key s) s live) ->
  pinv g0 (recv_update repaired (mkrecv last' (rc_store rc) (rc_reg rc)) (s2c s)) (aset keyeqb (sess_key s) s live).
Proof.
  intros Hp Hu Hu'. pose proof (pinv_release g0 rc live (sess_key s) Hp) as [Hg1 Hl1].
  destruct Hp as (Hs & Hnd & Hgeo & Hl).
  unfold recv_update. cbn [f_drop repaired rc_store rc_reg rc_last]. rewrite cp_key_s2c.
  set (k := sess_key s) in *.
  set (g1 := match aget keyeqb k (rc_store rc) with
             | Some old => release_cp repaired (rc_reg rc) old | None => rc_reg rc end) in *.
  assert (Hnd' : NoDup (map fst (aset keyeqb k s live))) by (apply (nodup_aset keyeqb keyeqb_eq), Hnd).
  assert (Hin_s : In (k, s) (aset keyeqb k s live)) by (apply (in_aset keyeqb keyeqb_eq _ _ _ _ _ Hnd); auto).
  unfold pinv. cbn [rc_store rc_reg]. split; [|split; [|split]].
  - rewrite Hs. unfold expected_store. rewrite map_aset. reflexivity.
  - exact Hnd'.
  - intros c'. rewrite resv_reserve. apply Hg1.
  - intros x sid. rewrite lease_at_reserve_cp.
    assert (Hcl : claimed g1 (s2c s) x = true <-> In x (claims g0 (s2c s))).
    { rewrite claimed_in. rewrite (claims_geo g1 g0 _ Hg1). tauto. }
    (* an entry of another key that claims x conflicts with (k,s) when s claims x *)
    assert (Hother : forall e sid', In e live -> fst e <> k -> In (x, sid') (resv_cp g0 (s2c (snd e))) ->
                     In x (claims g0 (s2c s)) -> False).
    { intros [k' s'] sid' He Hne Hx Hc.
      assert (He' : In (k', s') (aset keyeqb k s live)) by (apply (in_aset keyeqb keyeqb_eq _ _ _ _ _ Hnd); auto).
      exact (uniq_conflict g0 _ (k', s') (k, s) x Hu' Hnd' He' Hin_s Hne (owner_claims g0 (k', s') x sid' Hx) Hc). }
    destruct (claimed g1 (s2c s) x) eqn:C.
    + assert (Hc : In x (claims g0 (s2c s))) by (apply Hcl; reflexivity).
      assert (Hnone : lease_at g1 x = None).
      { destruct (lease_at g1 x) as [o|] eqn:E; [|reflexivity]. exfalso.
        apply Hl1 in E. destruct E as [(e & He & Hx) Hno].
        destruct e as [k' s']. destruct (keyeqb k' k) eqn:Ek.
        - apply keyeqb_eq in Ek. subst k'. apply (Hno s'); [apply (aget_in keyeqb keyeqb_eq); assumption|].
          exact (owner_claims g0 (k, s') x o Hx).
        - apply (Hother (k', s') o He); [|exact Hx|exact Hc]. simpl. intros ->.
          rewrite (proj2 (keyeqb_eq k k) eq_refl) in Ek. discriminate. }
      rewrite Hnone. split.
      * intros E. inversion E; subst sid. exists (k, s). split; [exact Hin_s|]. apply claims_in, Hc.
      * intros (e & He & Hx). destruct e as [k' s'].
        apply (in_aset keyeqb keyeqb_eq _ _ _ _ _ Hnd) in He. destruct He as [[-> ->]|[Hne He]].
        -- rewrite (resv_sid _ _ _ _ Hx). reflexivity.
        -- exfalso. exact (Hother (k', s') sid He Hne Hx Hc).
    + assert (Hc : ~ In x (claims g0 (s2c s))) by (intros G; apply Hcl in G; congruence).
      rewrite Hl1. split.
      * intros [(e & He & Hx) Hno]. exists e. split; [|exact Hx]. destruct e as [k' s'].
        apply (in_aset keyeqb keyeqb_eq _ _ _ _ _ Hnd). right. split; [|exact He].
        intros ->. apply (Hno s'); [apply (aget_in keyeqb keyeqb_eq); assumption|].
        exact (owner_claims g0 (k, s') x sid Hx).
      * intros (e & He & Hx). destruct e as [k' s'].
        apply (in_aset keyeqb keyeqb_eq _ _ _ _ _ Hnd) in He. destruct He as [[-> ->]|[Hne He]].
        -- exfalso. apply Hc. exact (owner_claims g0 (k, s) x sid Hx).
        -- split; [exists (k', s'); auto|]. intros olds Eo G.
           apply (aget_in keyeqb keyeqb_eq _ _ _ Hnd) in Eo.
           exact (uniq_conflict g0 live (k', s') (k, olds) x Hu Hnd He Eo Hne (owner_claims g0 (k', s') x sid Hx) G).
Qed.

Lemma live_fold_cons live e t : live_fold live (e :: t) = live_fold (live_step live (fst e) (snd e)) t.
Proof. reflexivity. Qed.

Lemma pinv_inorder g0 g evs : forall seq rc live,
  last_of rc g = seq -> pinv g0 rc live ->
  (forall i, (i <= length evs)%nat -> uniq g0 (live_fold live (firstn i evs))) ->
  pinv g0 (recv_run repaired rc (reqs_from g seq evs)) (live_fold live evs).
Proof.
  induction evs as [|[s rel] t IH]; intros seq rc live Hl Hp Hu; [exact Hp|].
  cbn [reqs_from]. rewrite recv_run_cons, live_fold_cons. cbn [fst snd].
  pose proof (Hu 0%nat ltac:(simpl; lia)) as Hu0. simpl in Hu0.
  pose proof (Hu 1%nat ltac:(simpl; lia)) as Hu1. simpl in Hu1. unfold live_fold in Hu1. simpl in Hu1.
  apply (IH (seq + 1)%N).
  - apply (last_of_step repaired rc (mkreq g (seq + 1) (act_of rel) (s2c s))). simpl. lia.
  - rewrite recv_step_applied by (simpl; lia). cbv zeta. cbn [q_act q_cp q_srg q_seq].
    destruct Hp as (Hs & Hrest). unfold live_step in *. destruct rel; simpl act_of.
    + apply (pinv_delete g0 rc live s); [split; assumption|exact Hu0].
    + apply (pinv_update g0 rc live s); [split; assumption|exact Hu0|exact Hu1].
  - intros i Hi. specialize (Hu (S i) ltac:(simpl; lia)). simpl in Hu. exact Hu.
Qed.

(* a registry in which nothing is reserved yet *)
Definition fresh (g : registry) : Prop := forall x, lease_at g x = None.

Lemma owner_expected g0 live x sid : owner g0 live x sid <-> In (x, sid) (expected_leases g0 live).
Proof.
  unfold owner, expected_leases. rewrite in_flat_map. split; intros (e & A & B); exists e; auto.
Qed.

Lemma pools_exact g0 cap g evs d :
  g <> 0%N -> (forall e, In e evs -> s_srg (fst e) = g) -> (N.of_nat (length evs) < n64)%N ->
  fresh g0 ->
  (forall i, (i <= length evs)%nat -> uniq g0 (live_run (firstn i evs))) ->
  let reqs := snd (sender_run [(g, (0%N, new_ring cap))] evs) in
  delivery reqs 0 d (length reqs) ->
  forall x sid, lease_at (rc_reg (recv_run repaired (mkrecv [] [] g0) d)) x = Some sid <->
                In (x, sid) (expected_leases g0 (live_run evs)).
Proof.
  intros Hg Hall Hlt Hf Hu reqs Hd x sid. unfold reqs in *.
  destruct (stream_of_sender cap g evs Hg Hall Hlt) as [E _]. rewrite E in Hd.
  rewrite (delivered_is_inorder g evs d (mkrecv [] [] g0) eq_refl Hd).
  rewrite <- owner_expected.
  assert (P0 : pinv g0 (mkrecv [] [] g0) []).
  { split; [reflexivity|]. split; [constructor|]. split; [reflexivity|].
    intros x' sid'. simpl. rewrite Hf. split; [discriminate|]. intros (e & [] & _). }
  destruct (pinv_inorder g0 g evs 0%N (mkrecv [] [] g0) [] eq_refl P0 Hu) as (_ & _ & _ & Hl).
  apply Hl.
Qed.

Lemma fresh_mk g : (forall np, In np (g_v4 g) -> a_leases (p_al (snd np)) = []) ->
  (forall np, In np (g_na g) -> a_leases (p_al (snd np)) = []) ->
  (forall np, In np (g_pd g) -> a_leases (d_al (snd np)) = []) -> fresh g.
Proof.
  intros H4 H6 H7 [[f p] k]. unfold lease_at, lease_v, lease_d.
  assert (A : forall (P : Type) (l : list (N * P)) n v, aget N.eqb n l = Some v -> In (n, v) l).
  { intros P l n v. induction l as [|[n0 v0] r IH]; simpl; [discriminate|].
    destruct (N.eqb_spec n n0); [intros E; inversion E; subst; auto|auto]. }
  destruct (N.eqb f 4).
  { destruct (aget N.eqb p (g_v4 g)) as [pl|] eqn:E; [|reflexivity]. apply A in E. pose proof (H4 _ E) as Z. simpl in Z. rewrite Z. reflexivity. }
  destruct (N.eqb f 6).
  { destruct (aget N.eqb p (g_na g)) as [pl|] eqn:E; [|reflexivity]. apply A in E. pose proof (H6 _ E) as Z. simpl in Z. rewrite Z. reflexivity. }
  destruct (N.eqb f 7); [|reflexivity].
  destruct (aget N.eqb p (g_pd g)) as [d|] eqn:E; [|reflexivity]. apply A in E. pose proof (H7 _ E) as Z. simpl in Z. rewrite Z. reflexivity.
Qed.

(* ================================================================== *)
(* 5. no sequence comparison: the store converges when every retransmission *)
(*    runs on to the newest delivered message (last writer wins)        *)
(* ================================================================== *)
Definition store_step (st : list ((N * N) * checkpoint)) (q : req) : list ((N * N) * checkpoint) :=
  match q_act q with
  | ADelete => adel keyeqb (cp_key (q_cp q)) st
  | _ => aset keyeqb (cp_key (q_cp q)) (q_cp q) st
  end.

Lemma store_of_step_nocmp fl rc q : f_stale fl = true -> rc_store (recv_step fl rc q) = store_step (rc_store rc) q.
Proof. intros Hs. unfold recv_step, store_step. rewrite Hs. simpl. destruct (q_act q); reflexivity. Qed.

Lemma store_of_run_nocmp fl qs : f_stale fl = true ->
  forall rc, rc_store (recv_run fl rc qs) = fold_left store_step qs (rc_store rc).
Proof.
  intros Hs. induction qs as [|q r IH]; intros rc; [reflexivity|].
  rewrite recv_run_cons, IH, store_of_step_nocmp by exact Hs. reflexivity.
Qed.

Fixpoint last_write (k : N * N) (qs : list req) : option (option checkpoint) :=
  match qs with
  | [] => None
  | q :: r => match last_write k r with
              | Some x => Some x
              | None => if keyeqb k (cp_key (q_cp q))
                        then Some (match q_act q with ADelete => None | _ => Some (q_cp q) end) else None
              end
  end.

Lemma aget_store_run k qs : forall st,
  aget keyeqb k (fold_left store_step qs st) = match last_write k qs with Some r => r | None => aget keyeqb k st end.
Proof.
  induction qs as [|q r IH]; intros st; [reflexivity|]. cbn [fold_left last_write]. rewrite IH.
  destruct (last_write k r); [reflexivity|]. unfold store_step.
  destruct (q_act q); rewrite ?(aget_aset keyeqb keyeqb_eq), ?(aget_adel keyeqb keyeqb_eq);
    destruct (keyeqb k (cp_key (q_cp q))); reflexivity.
Qed.

Lemma last_write_app k l1 l2 :
  last_write k (l1 ++ l2) = match last_write k l2 with Some x => Some x | None => last_write k l1 end.
Proof.
  induction l1 as [|q r IH]; simpl; [destruct (last_write k l2); reflexivity|].
  rewrite IH. destruct (last_write k l2); reflexivity.
Qed.

Lemma firstn_split {A} a b (l : list A) : (a <= b)%nat -> firstn b l = firstn a l ++ firstn (b - a) (skipn a l).
Proof.
  revert b l; induction a as [|a IH]; intros b l H; simpl; [rewrite Nat.sub_0_r; reflexivity|].
  destruct b as [|b]; [lia|]. destruct l as [|x r]; simpl; [destruct (b - a)%nat; reflexivity|].
  f_equal. apply IH. lia.
Qed.

Lemma skipn_skipn {A} a b (l : list A) : skipn a (skipn b l) = skipn (b + a) l.
Proof. revert l; induction b as [|b IH]; intros l; simpl; [reflexivity|]. destruct l; [destruct a; reflexivity|apply IH]. Qed.

Lemma runs_last_write reqs m d m' :
  delivery_runs reqs m d m' ->
  forall pre, (forall k, last_write k pre = last_write k (firstn m reqs)) ->
  forall k, last_write k (pre ++ d) = last_write k (firstn m' reqs).
Proof.
  induction 1 as [m|m a b d m' Ha Hb Hlen Hd IH]; intros pre Hpre k.
  - rewrite app_nil_r. apply Hpre.
  - rewrite app_assoc. apply IH. clear k. intros k.
    set (run := firstn (b - a) (skipn a reqs)).
    rewrite (firstn_split a b reqs) by lia. fold run.
    rewrite !last_write_app. rewrite Hpre.
    rewrite (firstn_split a m reqs) by lia. rewrite last_write_app.
    assert (Hrun : run = firstn (m - a) (skipn a reqs) ++ firstn (b - m) (skipn m reqs)).
    { unfold run. rewrite (firstn_split (m - a) (b - a) (skipn a reqs)) by lia.
      rewrite skipn_skipn. replace (a + (m - a))%nat with m by lia. replace (b - a - (m - a))%nat with (b - m)%nat by lia.
      reflexivity. }
    destruct (last_write k run) as [x|] eqn:E; [reflexivity|].
    rewrite Hrun, last_write_app in E.
    destruct (last_write k (firstn (b - m) (skipn m reqs))); [discriminate|]. rewrite E. reflexivity.
Qed.

Lemma converges_store_replays g0 cap g fl evs d :
  f_stale fl = true ->
  g <> 0%N -> (forall e, In e evs -> s_srg (fst e) = g) -> (N.of_nat (length evs) < n64)%N ->
  let reqs := snd (sender_run [(g, (0%N, new_ring cap))] evs) in
  delivery_runs reqs 0 d (length reqs) ->
  forall k, aget keyeqb k (rc_store (recv_run fl (mkrecv [] [] g0) d)) =
            aget keyeqb k (expected_store (live_run evs)).
Proof.
  intros Hs Hg Hall Hlt reqs Hd k. unfold reqs in *.
  destruct (stream_of_sender cap g evs Hg Hall Hlt) as [E _]. rewrite E in Hd.
  destruct (store_inorder fl g evs 0%N (mkrecv [] [] g0) [] eq_refl eq_refl) as [A _].
  unfold live_run. fold (live_fold [] evs). rewrite <- A.
  rewrite !(store_of_run_nocmp fl _ Hs), !aget_store_run. cbn [rc_store].
  pose proof (runs_last_write _ _ _ _ Hd [] (fun k' => eq_refl) k) as R. simpl in R.
  rewrite R, firstn_all. reflexivity.
Qed.

(* ================================================================== *)
(* 6. /repo HEAD's receiver (no sequence comparison; previous           *)
(*    reservation released pool-aware): store and pools                 *)
(* ================================================================== *)
Lemma recv_update_head fl rc c : f_drop fl = false -> f_relall fl = false -> recv_update fl rc c = recv_update repaired rc c.
Proof.
  intros Hd Hr. unfold recv_update. rewrite Hd. cbn [f_drop repaired].
  destruct (aget keyeqb (cp_key c) (rc_store rc)); [|reflexivity].
  unfold release_cp. rewrite Hr. reflexivity.
Qed.
Lemma recv_delete_head fl rc c : f_drop fl = false -> f_relall fl = false -> recv_delete fl rc c = recv_delete repaired rc c.
Proof.
  intros Hd Hr. unfold recv_delete. rewrite Hd. cbn [f_drop repaired].
  destruct (aget keyeqb (cp_key c) (rc_store rc)); [|reflexivity].
  unfold release_cp. rewrite Hr. reflexivity.
Qed.

Lemma recv_step_head fl rc q : f_stale fl = true -> f_drop fl = false -> f_relall fl = false ->
  recv_step fl rc q =
  let rc1 := mkrecv (aset N.eqb (q_srg q) (q_seq q) (rc_last rc)) (rc_store rc) (rc_reg rc) in
  match q_act q with ADelete => recv_delete repaired rc1 (q_cp q) | _ => recv_update repaired rc1 (q_cp q) end.
Proof.
  intros Hs Hd Hr. unfold recv_step. rewrite Hs. cbn [negb andb]. cbv zeta.
  destruct (q_act q); rewrite ?recv_update_head, ?recv_delete_head by assumption; reflexivity.
Qed.

Lemma aset_same {V} k (v : V) l : aget keyeqb k l = Some v -> aset keyeqb k v l = l.
Proof.
  induction l as [|[k0 v0] r IH]; simpl; [discriminate|]. destruct (keyeqb k k0) eqn:E.
  - intros H; inversion H; subst. apply keyeqb_eq in E. subst. reflexivity.
  - intros H. rewrite IH by exact H. reflexivity.
Qed.
Lemma adel_absent {V} k (l : list ((N * N) * V)) : aget keyeqb k l = None -> adel keyeqb k l = l.
Proof.
  induction l as [|[k0 v0] r IH]; simpl; [reflexivity|]. destruct (keyeqb k k0) eqn:E; [discriminate|].
  intros H. rewrite IH by exact H. reflexivity.
Qed.

Lemma aget_live_step k live s rel :
  aget keyeqb k (live_step live s rel) =
  if keyeqb k (sess_key s) then (if rel then None else Some s) else aget keyeqb k live.
Proof.
  unfold live_step. destruct rel; [apply (aget_adel keyeqb keyeqb_eq)|apply (aget_aset keyeqb keyeqb_eq)].
Qed.

Lemma live_fold_one live s rel : live_fold live [(s, rel)] = live_step live s rel.
Proof. reflexivity. Qed.

Lemma live_fold_app live a b : live_fold live (a ++ b) = live_fold (live_fold live a) b.
Proof. unfold live_fold. apply fold_left_app. Qed.

(* the newest event of a session among those handled so far: handling it again changes nothing *)
Lemma live_latest evs k m s rel :
  nth_error evs k = Some (s, rel) -> (k < m)%nat ->
  (forall j e', (k < j < m)%nat -> nth_error evs j = Some e' -> sess_key (fst e') <> sess_key s) ->
  live_step (live_fold [] (firstn m evs)) s rel = live_fold [] (firstn m evs).
Proof.
  intros Hk Hkm Hlat.
  assert (A : aget keyeqb (sess_key s) (live_fold [] (firstn m evs)) = if rel then None else Some s).
  { assert (G : forall n, (k < n)%nat ->
       (forall j e', (k < j < n)%nat -> nth_error evs j = Some e' -> sess_key (fst e') <> sess_key s) ->
       aget keyeqb (sess_key s) (live_fold [] (firstn n evs)) = if rel then None else Some s).
    { induction n as [|n IH]; intros Hn Hl; [lia|].
      destruct (nth_error evs n) as [[s' rel']|] eqn:En.
      - assert (F : firstn (S n) evs = firstn n evs ++ [(s', rel')]).
        { rewrite (firstn_split n (S n) evs) by lia. f_equal. replace (S n - n)%nat with 1%nat by lia.
          rewrite (skipn_cons_nth n evs _ En). reflexivity. }
        rewrite F, live_fold_app, live_fold_one.
        rewrite aget_live_step.
        destruct (Nat.eq_dec n k) as [->|Hne].
        + rewrite Hk in En. inversion En; subst. rewrite (proj2 (keyeqb_eq _ _) eq_refl). reflexivity.
        + assert (Hd : sess_key s' <> sess_key s) by (apply (Hl n (s', rel')); [lia|exact En]).
          destruct (keyeqb (sess_key s) (sess_key s')) eqn:E; [apply keyeqb_eq in E; congruence|].
          apply IH; [lia|]. intros j e' Hj. apply Hl. lia.
      - assert (F : firstn (S n) evs = firstn n evs).
        { apply nth_error_None in En. rewrite !firstn_all2 by lia. reflexivity. }
        rewrite F. destruct (Nat.eq_dec n k) as [->|Hne]; [congruence|].
        apply IH; [lia|]. intros j e' Hj. apply Hl. lia. }
    apply G; assumption. }
  unfold live_step. destruct rel; [apply adel_absent, A|apply aset_same, A].
Qed.

Lemma firstn_snoc {A} n (l : list A) x : nth_error l n = Some x -> firstn (S n) l = firstn n l ++ [x].
Proof.
  intros H. rewrite (firstn_split n (S n) l) by lia. f_equal. replace (S n - n)%nat with 1%nat by lia.
  rewrite (skipn_cons_nth n l _ H). reflexivity.
Qed.

Lemma head_delivery g0 g fl evs m d m' :
  f_stale fl = true -> f_drop fl = false -> f_relall fl = false ->
  delivery_latest (reqs_from g 0 evs) m d m' ->
  (forall i, (i <= length evs)%nat -> uniq g0 (live_fold [] (firstn i evs))) ->
  forall rc, (m <= length evs)%nat -> pinv g0 rc (live_fold [] (firstn m evs)) ->
  pinv g0 (recv_run fl rc d) (live_fold [] (firstn m' evs)).
Proof.
  intros Hs Hd Hr Hdel Hu.
  induction Hdel as [m|m q d m' Hq Hdel IH|m k q d m' Hk Hq Hlat Hdel IH]; intros rc Hml Hp; [exact Hp| |].
  - rewrite recv_run_cons.
    assert (Hm : (S m <= length evs)%nat).
    { rewrite <- (reqs_from_length g 0 evs). apply nth_error_Some. congruence. }
    apply IH; [exact Hm|].
    destruct (reqs_from_nth _ _ _ _ _ Hq) as (_ & _ & s & rel & He & Ha & Hc).
    rewrite (recv_step_head fl rc q Hs Hd Hr). cbv zeta. rewrite Ha, Hc.
    rewrite (firstn_snoc m evs _ He), live_fold_app, live_fold_one.
    pose proof (Hu m ltac:(lia)) as U0. pose proof (Hu (S m) Hm) as U1.
    rewrite (firstn_snoc m evs _ He), live_fold_app, live_fold_one in U1.
    destruct Hp as (Hst & Hrest). unfold live_step in *. destruct rel; cbn [act_of].
    + apply (pinv_delete g0 rc _ s); [split; assumption|exact U0].
    + apply (pinv_update g0 rc _ s); [split; assumption|exact U0|exact U1].
  - rewrite recv_run_cons. apply IH; [exact Hml|].
    destruct (reqs_from_nth _ _ _ _ _ Hq) as (_ & _ & s & rel & He & Ha & Hc).
    rewrite (recv_step_head fl rc q Hs Hd Hr). cbv zeta. rewrite Ha, Hc.
    assert (Hsame : live_step (live_fold [] (firstn m evs)) s rel = live_fold [] (firstn m evs)).
    { apply (live_latest evs k m s rel He Hk). intros j [s' rel'] Hj Hj'.
      assert (Hlen : (j < length (reqs_from g 0 evs))%nat) by (rewrite reqs_from_length; apply nth_error_Some; congruence).
      destruct (nth_error (reqs_from g 0 evs) j) as [q'|] eqn:Eq'; [|apply nth_error_None in Eq'; lia].
      destruct (reqs_from_nth _ _ _ _ _ Eq') as (_ & _ & s2 & rel2 & He2 & _ & Hc2).
      rewrite Hj' in He2. inversion He2; subst s2 rel2. simpl.
      pose proof (Hlat j q' Hj Eq') as Hne. rewrite Hc2, Hc, !cp_key_s2c in Hne. exact Hne. }
    pose proof (Hu m Hml) as U0.
    destruct Hp as (Hst & Hrest). rewrite <- Hsame. unfold live_step in Hsame |- *. destruct rel; cbn [act_of].
    + apply (pinv_delete g0 rc _ s); [split; assumption|exact U0].
    + apply (pinv_update g0 rc _ s); [split; assumption|exact U0|]. rewrite Hsame. exact U0.
Qed.

Lemma store_step_head fl rc q s rel live :
  f_stale fl = true -> f_drop fl = false -> f_relall fl = false ->
  q_act q = act_of rel -> q_cp q = s2c s -> rc_store rc = expected_store live ->
  rc_store (recv_step fl rc q) = expected_store (live_step live s rel).
Proof.
  intros Hs Hd Hr Ha Hc Hst. rewrite (recv_step_head fl rc q Hs Hd Hr). cbv zeta. rewrite Ha, Hc.
  unfold live_step, expected_store. destruct rel; cbn [act_of].
  - unfold recv_delete. cbn [rc_store]. rewrite map_adel, cp_key_s2c. fold (expected_store live). rewrite <- Hst. reflexivity.
  - unfold recv_update. cbn [rc_store]. rewrite map_aset, cp_key_s2c. fold (expected_store live). rewrite <- Hst. reflexivity.
Qed.

Lemma head_delivery_store g fl evs m d m' :
  f_stale fl = true -> f_drop fl = false -> f_relall fl = false ->
  delivery_latest (reqs_from g 0 evs) m d m' ->
  forall rc, rc_store rc = expected_store (live_fold [] (firstn m evs)) ->
  rc_store (recv_run fl rc d) = expected_store (live_fold [] (firstn m' evs)).
Proof.
  intros Hs Hd Hr Hdel.
  induction Hdel as [m|m q d m' Hq Hdel IH|m k q d m' Hk Hq Hlat Hdel IH]; intros rc Hst; [exact Hst| |].
  - rewrite recv_run_cons. apply IH.
    destruct (reqs_from_nth _ _ _ _ _ Hq) as (_ & _ & s & rel & He & Ha & Hc).
    rewrite (firstn_snoc m evs _ He), live_fold_app, live_fold_one.
    apply (store_step_head fl rc q s rel _ Hs Hd Hr Ha Hc Hst).
  - rewrite recv_run_cons. apply IH.
    destruct (reqs_from_nth _ _ _ _ _ Hq) as (_ & _ & s & rel & He & Ha & Hc).
    assert (Hsame : live_step (live_fold [] (firstn m evs)) s rel = live_fold [] (firstn m evs)).
    { apply (live_latest evs k m s rel He Hk). intros j [s' rel'] Hj Hj'.
      assert (Hlen : (j < length (reqs_from g 0 evs))%nat) by (rewrite reqs_from_length; apply nth_error_Some; congruence).
      destruct (nth_error (reqs_from g 0 evs) j) as [q'|] eqn:Eq'; [|apply nth_error_None in Eq'; lia].
      destruct (reqs_from_nth _ _ _ _ _ Eq') as (_ & _ & s2 & rel2 & He2 & _ & Hc2).
      rewrite Hj' in He2. inversion He2; subst s2 rel2. simpl.
      pose proof (Hlat j q' Hj Eq') as Hne. rewrite Hc2, Hc, !cp_key_s2c in Hne. exact Hne. }
    rewrite <- Hsame. apply (store_step_head fl rc q s rel _ Hs Hd Hr Ha Hc Hst).
Qed.

Lemma converges_head g0 cap g fl evs d :
  f_stale fl = true -> f_drop fl = false -> f_relall fl = false ->
  g <> 0%N -> (forall e, In e evs -> s_srg (fst e) = g) -> (N.of_nat (length evs) < n64)%N ->
  let reqs := snd (sender_run [(g, (0%N, new_ring cap))] evs) in
  delivery_latest reqs 0 d (length reqs) ->
  rc_store (recv_run fl (mkrecv [] [] g0) d) = expected_store (live_run evs).
Proof.
  intros Hs Hd Hr Hg Hall Hlt reqs Hdel. unfold reqs in *.
  destruct (stream_of_sender cap g evs Hg Hall Hlt) as [E _]. rewrite E in Hdel.
  rewrite (head_delivery_store g fl evs 0 d _ Hs Hd Hr Hdel (mkrecv [] [] g0) eq_refl).
  rewrite reqs_from_length, firstn_all. reflexivity.
Qed.

Lemma pools_exact_head g0 cap g fl evs d :
  f_stale fl = true -> f_drop fl = false -> f_relall fl = false ->
  g <> 0%N -> (forall e, In e evs -> s_srg (fst e) = g) -> (N.of_nat (length evs) < n64)%N ->
  fresh g0 ->
  (forall i, (i <= length evs)%nat -> uniq g0 (live_run (firstn i evs))) ->
  let reqs := snd (sender_run [(g, (0%N, new_ring cap))] evs) in
  delivery_latest reqs 0 d (length reqs) ->
  forall x sid, lease_at (rc_reg (recv_run fl (mkrecv [] [] g0) d)) x = Some sid <->
                In (x, sid) (expected_leases g0 (live_run evs)).
Proof.
  intros Hs Hd Hr Hg Hall Hlt Hf Hu reqs Hdel x sid. unfold reqs in *.
  destruct (stream_of_sender cap g evs Hg Hall Hlt) as [E _]. rewrite E in Hdel.
  rewrite <- owner_expected.
  assert (P0 : pinv g0 (mkrecv [] [] g0) (live_fold [] (firstn 0 evs))).
  { split; [reflexivity|]. split; [constructor|]. split; [reflexivity|].
    intros x' sid'. simpl. rewrite Hf. split; [discriminate|]. intros (e & [] & _). }
  pose proof (head_delivery g0 g fl evs 0 d _ Hs Hd Hr Hdel Hu (mkrecv [] [] g0) ltac:(lia) P0) as (_ & _ & _ & Hl).
  rewrite reqs_from_length, firstn_all in Hl. apply Hl.
Qed.

(* ================================================================== *)
(* 7. bulk sync of a fresh standby followed by the live stream          *)
(* ================================================================== *)
Lemma newest_entry c b l q : ring_inv c b l -> nth_error l (length l - 1) = Some q ->
  entry_seq b ((r_head b + r_cap b - 1) mod r_cap b) = Ok (q_seq q).
Proof.
  intros H Hq. pose proof H as (Hcap & Hc0 & Hlen & Hh & Hsz & Hle & Hnth).
  assert (Hl : (0 < length l)%nat) by (destruct l; [destruct (0 - 1)%nat; discriminate|simpl; lia]).
  specialize (Hnth (length l - 1)%nat ltac:(lia)).
  rewrite Hcap. unfold entry_seq.
  replace ((r_head b + c - 1) mod c)%nat with ((r_head b + c - length l + (length l - 1)) mod c)%nat by (f_equal; lia).
  rewrite Hnth, nth_error_map, Hq. reflexivity.
Qed.

Lemma somes_map_some l : somes (map Some l) = (l, false).
Proof. induction l as [|q r IH]; simpl; [reflexivity|]. rewrite IH. reflexivity. Qed.

(* Range(oldest, newest) on the sender's ring is the whole retained window *)
Lemma full_window c b l os :
  ring_inv c b l -> (Z.of_nat c <= max_make)%Z -> consec os l -> (0 <= os)%Z -> (os + Z.of_nat (length l) <= two63)%Z ->
  l <> [] ->
  exists o n, oldest_seq b = Ok o /\ newest_seq b = Ok n /\ Z.of_N o = os /\ Z.of_N n = (os + Z.of_nat (length l) - 1)%Z /\
              range_rep b (Z.of_N o) (Z.of_N n) = Ok (map Some l).
Proof.
  intros H Hc Hcs Hos Hmax Hne.
  pose proof H as (Hcap & Hc0 & Hlen & Hh & Hsz & Hle & Hnth).
  destruct l as [|q0 l'] eqn:El; [contradiction|]. rewrite <- El in *.
  assert (Hl : (0 < length l)%nat) by (rewrite El; simpl; lia).
  destruct (nth_error l (length l - 1)) as [qn|] eqn:En; [|apply nth_error_None in En; lia].
  exists (q_seq q0), (q_seq qn).
  assert (Hq0 : Z.of_N (q_seq q0) = os) by (rewrite (Hcs 0%nat q0); [lia|rewrite El; reflexivity]).
  assert (Hqn : Z.of_N (q_seq qn) = (os + Z.of_nat (length l) - 1)%Z) by (rewrite (Hcs _ _ En); lia).
  unfold oldest_seq, newest_seq. rewrite Hsz.
  destruct (Nat.eqb_spec (length l) 0); [lia|].
  rewrite (oldest_entry c b l q0 l' H El), (newest_entry c b l qn H En).
  repeat split; try assumption.
  rewrite (range_rep_exact c b l os) by (try assumption; unfold two63, two64 in *; lia).
  f_equal. f_equal. apply filter_all. intros x Hx. apply in_nth_error in Hx. destruct Hx as (j & Hj & Hjx).
  unfold in_range. rewrite (Hcs _ _ Hjx). lia.
Qed.

Definition put_cp (st : list ((N * N) * checkpoint)) (c : checkpoint) := aset keyeqb (cp_key c) c st.

Lemma store_of_updates fl cps : forall rc,
  rc_store (fold_left (recv_update fl) cps rc) = fold_left put_cp cps (rc_store rc).
Proof. induction cps as [|c r IH]; intros rc; [reflexivity|]. simpl. rewrite IH. reflexivity. Qed.

Lemma last_write_none k l : last_write k l = None <-> forall q, In q l -> cp_key (q_cp q) <> k.
Proof.
  induction l as [|q r IH]; simpl; [tauto|].
  destruct (last_write k r) eqn:E.
  - split; [discriminate|]. intros H. exfalso.
    assert (G : Some o = None) by (apply IH; intros q' Hq'; apply H; auto). discriminate.
  - destruct (keyeqb k (cp_key (q_cp q))) eqn:Ek.
    + split; [discriminate|]. intros H. apply keyeqb_eq in Ek. exfalso. apply (H q); auto.
    + split; [|reflexivity]. intros _ q' [<-|Hq'].
      * intros Heq. rewrite Heq, (proj2 (keyeqb_eq k k) eq_refl) in Ek. discriminate.
      * apply (proj1 IH eq_refl q' Hq').
Qed.

Lemma has_later_spec k l : has_later k l = true <-> last_write k l <> None.
Proof.
  unfold has_later. rewrite existsb_exists. split.
  - intros (q & Hq & E) H. apply keyeqb_eq in E. apply (proj1 (last_write_none k l) H q Hq). auto.
  - intros H. destruct (existsb (fun q => keyeqb k (cp_key (q_cp q))) l) eqn:Ex.
    + apply existsb_exists in Ex. exact Ex.
    + exfalso. apply H. apply last_write_none. intros q Hq Heq.
      assert (existsb (fun q => keyeqb k (cp_key (q_cp q))) l = true).
      { apply existsb_exists. exists q. split; [exact Hq|]. apply keyeqb_eq. auto. }
      congruence.
Qed.

(* the fixed bulk replay stores, for every session, what its last entry of the window says — unless that is a
   DELETE, which a page of bare checkpoints cannot convey *)
Lemma aget_compact k w : forall st,
  aget keyeqb k (fold_left put_cp (compact w) st) =
  match last_write k w with Some (Some c) => Some c | _ => aget keyeqb k st end.
Proof.
  induction w as [|q r IH]; intros st; [reflexivity|]. cbn [compact last_write].
  destruct (has_later (cp_key (q_cp q)) r) eqn:Hl.
  - rewrite IH. destruct (last_write k r) as [x|] eqn:E; [reflexivity|].
    destruct (keyeqb k (cp_key (q_cp q))) eqn:Ek; [|reflexivity].
    apply keyeqb_eq in Ek. subst k. apply has_later_spec in Hl. contradiction.
  - assert (Hn : last_write (cp_key (q_cp q)) r = None).
    { destruct (last_write (cp_key (q_cp q)) r) eqn:E; [|reflexivity].
      assert (has_later (cp_key (q_cp q)) r = true) by (apply has_later_spec; congruence). congruence. }
    destruct (q_act q) eqn:Ea.
    + cbn [fold_left]. rewrite IH. unfold put_cp. rewrite (aget_aset keyeqb keyeqb_eq).
      destruct (last_write k r) as [[c|]|] eqn:E; [reflexivity| |].
      * destruct (keyeqb k (cp_key (q_cp q))) eqn:Ek; [|reflexivity]. apply keyeqb_eq in Ek. subst k. congruence.
      * destruct (keyeqb k (cp_key (q_cp q))); reflexivity.
    + rewrite IH. destruct (last_write k r) as [x|] eqn:E; [reflexivity|].
      destruct (keyeqb k (cp_key (q_cp q))); reflexivity.
    + cbn [fold_left]. rewrite IH. unfold put_cp. rewrite (aget_aset keyeqb keyeqb_eq).
      destruct (last_write k r) as [[c|]|] eqn:E; [reflexivity| |].
      * destruct (keyeqb k (cp_key (q_cp q))) eqn:Ek; [|reflexivity]. apply keyeqb_eq in Ek. subst k. congruence.
      * destruct (keyeqb k (cp_key (q_cp q))); reflexivity.
Qed.

(* what the standby should hold, as a function of the stream *)
Lemma expected_by_last_write fl g evs k : f_stale fl = true ->
  aget keyeqb k (expected_store (live_run evs)) =
  match last_write k (reqs_from g 0 evs) with Some r => r | None => None end.
Proof.
  intros Hs.
  destruct (store_inorder fl g evs 0%N (mkrecv [] [] (mkreg [] [] [])) [] eq_refl eq_refl) as [A _].
  unfold live_run. fold (live_fold [] evs). rewrite <- A, (store_of_run_nocmp fl _ Hs), aget_store_run. reflexivity.
Qed.

(* ---------- facts about the live set ---------- *)
Definition live_ok (live : list ((N * N) * session)) : Prop :=
  NoDup (map fst live) /\ forall k s, In (k, s) live -> k = sess_key s.

Lemma in_aset_weak {V} k (v : V) l k' v' : In (k', v') (aset keyeqb k v l) -> (k', v') = (k, v) \/ In (k', v') l.
Proof.
  induction l as [|[k0 v0] r IH]; simpl; [intros [A|[]]; auto|].
  destruct (keyeqb k k0); simpl; intros [A|A]; auto. destruct (IH A); auto.
Qed.

Lemma live_ok_step live s rel : live_ok live -> live_ok (live_step live s rel).
Proof.
  intros [Hn Hc]. unfold live_step. destruct rel; split.
  - apply (nodup_adel keyeqb keyeqb_eq), Hn.
  - intros k s' H. apply (in_adel keyeqb keyeqb_eq) in H. apply Hc, H.
  - apply (nodup_aset keyeqb keyeqb_eq), Hn.
  - intros k s' H. apply in_aset_weak in H. destruct H as [H|H]; [inversion H; reflexivity|apply Hc, H].
Qed.
Lemma live_ok_fold evs : forall live, live_ok live -> live_ok (live_fold live evs).
Proof. induction evs as [|[s r] t IH]; intros live H; [exact H|]. rewrite live_fold_cons. apply IH, live_ok_step, H. Qed.

Lemma live_srg g evs : forall live, (forall k s, In (k, s) live -> s_srg s = g) ->
  (forall e, In e evs -> s_srg (fst e) = g) -> forall k s, In (k, s) (live_fold live evs) -> s_srg s = g.
Proof.
  induction evs as [|[s0 r] t IH]; intros live Hl He k s H; [exact (Hl k s H)|].
  rewrite live_fold_cons in H. apply (IH (live_step live s0 r)) in H; [exact H| |intros e' He'; apply He; right; exact He'].
  intros k' s' H'. unfold live_step in H'. cbn [fst snd] in H'. destruct r.
  - apply (in_adel keyeqb keyeqb_eq) in H'. apply (Hl k' s'), H'.
  - apply in_aset_weak in H'. destruct H' as [H'|H']; [inversion H'; subst; apply (He (s0, false)); left; reflexivity|apply (Hl k' s' H')].
Qed.

Lemma filter_id {A} (P : A -> bool) l : (forall x, In x l -> P x = true) -> filter P l = l.
Proof. apply filter_all. Qed.

Lemma fold_put_live live : live_ok live -> forall k st,
  aget keyeqb k (fold_left put_cp (map (fun ks => s2c (snd ks)) live) st) =
  match aget keyeqb k live with Some s => Some (s2c s) | None => aget keyeqb k st end.
Proof.
  induction live as [|[k0 s0] r IH]; intros [Hn Hc] k st; [reflexivity|].
  simpl map. cbn [fold_left]. inversion Hn as [|? ? Hn1 Hn2]; subst.
  rewrite IH by (split; [exact Hn2|intros k' s' H'; apply Hc; right; exact H']).
  assert (Hk0 : k0 = sess_key s0) by (apply Hc; left; reflexivity).
  simpl aget. unfold put_cp. rewrite (aget_aset keyeqb keyeqb_eq), cp_key_s2c, <- Hk0.
  destruct (keyeqb k k0) eqn:E.
  - apply keyeqb_eq in E. subst k. destruct (aget keyeqb k0 r) as [s|] eqn:Er; [|reflexivity].
    exfalso. apply Hn1. apply (aget_in keyeqb keyeqb_eq _ _ _ Hn2) in Er. apply in_map_iff. exists (k0, s). auto.
  - reflexivity.
Qed.

(* ---------- the system run, piece by piece (one SRG) ---------- *)
Definition ev_ops (evs : list (session * bool)) : list op := map (fun e => OEvent (fst e) (snd e)) evs.

Lemma sys_run_cons fl y o os : sys_run fl y (o :: os) = sys_run fl (sys_step fl y o) os.
Proof. reflexivity. Qed.
Lemma sys_run_app fl y a b : sys_run fl y (a ++ b) = sys_run fl (sys_run fl y a) b.
Proof. unfold sys_run. apply fold_left_app. Qed.

Lemma reqs_from_app g a : forall seq b,
  reqs_from g seq (a ++ b) = reqs_from g seq a ++ reqs_from g (seq + N.of_nat (length a)) b.
Proof.
  induction a as [|[s r] t IH]; intros seq b; simpl; [rewrite N.add_0_r; reflexivity|].
  rewrite IH. do 3 f_equal. lia.
Qed.

Lemma sys_events fl g evs : forall y seq b,
  g <> 0%N -> y_sender y = [(g, (seq, b))] -> (forall e, In e evs -> s_srg (fst e) = g) ->
  (seq + N.of_nat (length evs) < n64)%N ->
  sys_run fl y (ev_ops evs) =
  mksys [(g, ((seq + N.of_nat (length evs))%N, fold_left push (reqs_from g seq evs) b))] (y_recv y)
        (y_sent y ++ reqs_from g seq evs) (y_next y) (live_fold (y_live y) evs) (y_panics y).
Proof.
  induction evs as [|[s rel] t IH]; intros y seq b Hg Hy Hall Hlt.
  - simpl. rewrite N.add_0_r, app_nil_r, <- Hy. destruct y; reflexivity.
  - cbn [ev_ops map]. fold (ev_ops t). rewrite sys_run_cons. cbn [sys_step fst snd].
    assert (Hs : s_srg s = g) by (apply (Hall (s, rel)); left; reflexivity).
    unfold event_op, sender_event. rewrite Hy, Hs. destruct (N.eqb_spec g 0); [contradiction|].
    cbn [aget]. rewrite N.eqb_refl.
    assert (Hseq : n64z (seq + 1) = (seq + 1)%N) by (unfold n64z; apply N.mod_small; simpl length in Hlt; lia).
    rewrite Hseq. cbn [aset]. rewrite N.eqb_refl.
    match goal with |- sys_run fl ?Y _ = _ =>
      rewrite (IH Y (seq + 1)%N (push b (mkreq g (seq + 1) (if rel then ADelete else AUpdate) (s2c s))) Hg eq_refl
                  (fun e He => Hall e (or_intror He)) ltac:(simpl length in Hlt; lia)) end.
    cbn [y_recv y_sent y_next y_live y_panics reqs_from fold_left]. rewrite <- app_assoc. simpl app.
    unfold act_of. rewrite live_fold_cons. cbn [fst snd]. f_equal. do 3 f_equal. simpl length. lia.
Qed.

Lemma sent_of_all g l : (forall q, In q l -> q_srg q = g) -> sent_of g l = l.
Proof. intros H. unfold sent_of. apply filter_all. intros q Hq. rewrite (H q Hq). apply N.eqb_refl. Qed.

Lemma sys_delivers fl g j : forall y m,
  y_next y = [(g, m)] -> (forall q, In q (y_sent y) -> q_srg q = g) -> (m + j <= length (y_sent y))%nat ->
  sys_run fl y (repeat (ODeliver g) j) =
  mksys (y_sender y) (recv_run fl (y_recv y) (firstn j (skipn m (y_sent y)))) (y_sent y) [(g, (m + j)%nat)]
        (y_live y) (y_panics y).
Proof.
  induction j as [|j IH]; intros y m Hn Hs Hlen.
  - simpl. rewrite Nat.add_0_r, <- Hn. destruct y; reflexivity.
  - cbn [repeat]. rewrite sys_run_cons. cbn [sys_step].
    unfold next_of. rewrite Hn. cbn [aget]. rewrite N.eqb_refl, (sent_of_all g _ Hs).
    destruct (nth_error (y_sent y) m) as [q|] eqn:Eq; [|apply nth_error_None in Eq; lia].
    cbn [aset]. rewrite N.eqb_refl.
    match goal with |- sys_run fl ?Y _ = _ =>
      rewrite (IH Y (S m) eq_refl Hs ltac:(cbn [y_sent]; lia)) end. cbn [y_sender y_recv y_sent y_live y_panics].
    rewrite (skipn_cons_nth m _ _ Eq). cbn [firstn]. rewrite recv_run_cons.
    replace (m + S j)%nat with (S m + j)%nat by lia. reflexivity.
Qed.

Lemma rc_store_recv_bulk fl rc srg w :
  rc_store (recv_bulk fl rc srg w) = fold_left put_cp (bulk_cps fl w) (rc_store rc).
Proof.
  unfold recv_bulk. rewrite <- (store_of_updates fl).
  destruct (rev w) as [|q ?]; [reflexivity|]. destruct (N.ltb 0 (q_seq q)); reflexivity.
Qed.
Lemma rc_store_recv_snapshot fl rc srg seq cps :
  rc_store (recv_snapshot fl rc srg seq cps) =
  fold_left put_cp cps (rc_store (if f_lagdel fl then rc else purge fl rc srg)).
Proof. unfold recv_snapshot. rewrite <- (store_of_updates fl). destruct (N.ltb 0 seq); reflexivity. Qed.

(* every live session still has an entry in the retained backlog window *)
Definition window_covers (cap : Z) (evs : list (session * bool)) (g : N) : Prop :=
  forall k c, aget keyeqb k (expected_store (live_run evs)) = Some c ->
  exists q, In q (skipn (length evs - Z.to_nat cap) (reqs_from g 0 evs)) /\ cp_key (q_cp q) = k.

(* bulk sync of a fresh standby: afterwards it holds exactly the live sessions, and the stream resumes behind the
   sender's sequence number *)
Lemma bulk_fresh fl g0 cap g evs1 :
  f_range fl = false -> f_stale fl = true -> f_bulk fl = false ->
  g <> 0%N -> (forall e, In e evs1 -> s_srg (fst e) = g) ->
  (0 < cap <= max_make)%Z -> (Z.of_nat (length evs1) < two63 - 1)%Z -> evs1 <> [] ->
  (f_window fl = true -> window_covers cap evs1 g) ->
  let reqs1 := reqs_from g 0 evs1 in
  let y1 := mksys [(g, (N.of_nat (length evs1), fold_left push reqs1 (new_ring cap)))] (mkrecv [] [] g0) reqs1 []
                  (live_run evs1) O in
  exists rcb, sys_step fl y1 (OBulk g) = mksys (y_sender y1) rcb reqs1 [(g, length evs1)] (live_run evs1) O /\
              forall k, aget keyeqb k (rc_store rcb) = aget keyeqb k (expected_store (live_run evs1)).
Proof.
  intros Hfr Hfs Hfb Hg Hall Hcap Hn Hne Hcov reqs1 y1.
  set (c := Z.to_nat cap). set (n1 := length evs1).
  set (w := skipn (n1 - c) reqs1).
  assert (Hn1 : (0 < n1)%nat) by (unfold n1; destruct evs1; [contradiction|simpl; lia]).
  assert (Hlen1 : length reqs1 = n1) by (apply reqs_from_length).
  assert (Hinv : ring_inv c (fold_left push reqs1 (new_ring cap)) w).
  { unfold w. rewrite <- Hlen1. apply pushed_ring_inv. lia. }
  assert (Hcs : consec (1 + Z.of_nat (n1 - c)) w).
  { unfold w. pose proof (consec_skipn 1 reqs1 (n1 - c) (reqs_from_consec g 0 evs1)) as G. exact G. }
  assert (Hwl : length w = (n1 - (n1 - c))%nat) by (unfold w; rewrite skipn_length; lia).
  assert (Hwne : w <> []) by (intros E; rewrite E in Hwl; simpl in Hwl; unfold c in *; lia).
  unfold two63 in *.
  destruct (full_window c _ w (1 + Z.of_nat (n1 - c)) Hinv ltac:(unfold c; lia) Hcs ltac:(lia)
              ltac:(unfold two63; lia) Hwne) as (o & n & Ho & Hnw & Hoz & Hnz & Hrange).
  assert (Hnn : n = N.of_nat n1) by (unfold c in *; lia).
  (* the lookups of both paths *)
  assert (Hexp : forall k, aget keyeqb k (expected_store (live_run evs1)) =
                           match last_write k reqs1 with Some r => r | None => None end).
  { intros k. apply (expected_by_last_write fl g evs1 k Hfs). }
  assert (Hsplit : reqs1 = firstn (n1 - c) reqs1 ++ w) by (unfold w; symmetry; apply firstn_skipn).
  unfold sys_step, bulk_op. cbn [y_sender y1 aget]. rewrite N.eqb_refl, Ho, Hnw.
  destruct (N.eqb_spec o 0) as [E0|_]; [lia|]. destruct (N.eqb_spec n 0) as [E0|_]; [lia|]. cbn [orb].
  unfold range. rewrite Hfr, Hrange, somes_map_some.
  unfold last_of. cbn [y_recv y1 rc_last aget]. rewrite N.add_0_l.
  assert (Hwin : forall rcb,
     rc_store rcb = fold_left put_cp (compact w) [] ->
     (f_window fl = true \/ (n1 <= c)%nat) ->
     forall k, aget keyeqb k (rc_store rcb) = aget keyeqb k (expected_store (live_run evs1))).
  { intros rcb Hst Hwhy k. rewrite Hst, aget_compact, Hexp.
    replace (last_write k reqs1) with (last_write k (firstn (n1 - c) reqs1 ++ w)) by (rewrite <- Hsplit; reflexivity).
    rewrite last_write_app.
    destruct (last_write k w) as [[cp|]|] eqn:Ew; [reflexivity|reflexivity|]. simpl aget.
    destruct Hwhy as [Hw|Hw].
    - destruct (match last_write k (firstn (n1 - c) reqs1) with Some r => r | None => None end) as [cp|] eqn:Ep;
        [|reflexivity].
      exfalso. destruct (Hcov Hw k cp) as (q & Hq & Hk).
      + rewrite Hexp.
        replace (last_write k reqs1) with (last_write k (firstn (n1 - c) reqs1 ++ w)) by (rewrite <- Hsplit; reflexivity).
        rewrite last_write_app, Ew. exact Ep.
      + fold n1 c in Hq. fold reqs1 in Hq. fold w in Hq. apply (proj1 (last_write_none k w) Ew q Hq Hk).
    - replace (n1 - c)%nat with 0%nat by lia. reflexivity. }
  destruct (f_window fl || (N.leb o 1 && (f_lagdel fl || N.eqb 0 0))) eqn:Hpath.
  - (* the window is replayed *)
    rewrite Nat.mul_0_r. cbn [iter_n y_sender y_recv y_sent y_next y_live y_panics y1].
    eexists. split.
    + unfold next_of. cbn [y_next aget]. rewrite Hnn, Nat2N.id, Nat.max_0_l. cbn [aset]. reflexivity.
    + apply Hwin; [rewrite rc_store_recv_bulk; unfold bulk_cps; rewrite Hfb; reflexivity|].
      destruct (f_window fl); [left; reflexivity|right]. cbn [orb] in Hpath.
      destruct (N.leb_spec o 1); [unfold c in *; lia|discriminate].
  - (* snapshot of the session tables *)
    rewrite Nat.mul_0_r. cbn [iter_n y_sender y_recv y_sent y_next y_live y_panics y1].
    eexists. split.
    + unfold next_of. cbn [y_next aget]. fold n1. rewrite Nat2N.id, Nat.max_0_l. cbn [aset]. reflexivity.
    + intros k. rewrite rc_store_recv_snapshot.
      replace (rc_store (if f_lagdel fl then mkrecv [] [] g0 else purge fl (mkrecv [] [] g0) g)) with
        (@nil ((N * N) * checkpoint)) by (destruct (f_lagdel fl); reflexivity).
      unfold snapshot_cps. cbn [y_live].
      assert (Hok : live_ok (live_run evs1)) by (apply (live_ok_fold evs1 []); split; [constructor|intros ? ? []]).
      rewrite (filter_id _ (live_run evs1)).
      * rewrite (fold_put_live _ Hok). unfold expected_store. rewrite aget_map.
        destruct (aget keyeqb k (live_run evs1)); reflexivity.
      * intros [k' s'] Hin. cbn [snd]. apply N.eqb_eq.
        apply (live_srg g evs1 [] (fun _ _ F => match F with end) Hall k' s' Hin).
Qed.

Lemma bulk_then_stream_state fl g0 cap g evs1 evs2 :
  f_range fl = false -> f_stale fl = true -> f_bulk fl = false ->
  g <> 0%N -> (forall e, In e (evs1 ++ evs2) -> s_srg (fst e) = g) ->
  (0 < cap <= max_make)%Z -> (Z.of_nat (length (evs1 ++ evs2)) < two63 - 1)%Z -> evs1 <> [] ->
  (f_window fl = true -> window_covers cap evs1 g) ->
  exists (rcb : receiver) (sn : sender),
    (forall k, aget keyeqb k (rc_store rcb) = aget keyeqb k (expected_store (live_run evs1))) /\
    sys_run fl (sys_init cap [g] g0)
      (ev_ops evs1 ++ [OBulk g] ++ ev_ops evs2 ++ repeat (ODeliver g) (length evs2)) =
    mksys sn (recv_run fl rcb (reqs_from g (N.of_nat (length evs1)) evs2))
          (reqs_from g 0 evs1 ++ reqs_from g (N.of_nat (length evs1)) evs2)
          [(g, (length evs1 + length evs2)%nat)] (live_fold (live_run evs1) evs2) O.
Proof.
  intros Hfr Hfs Hfb Hg Hall Hcap Hn Hne Hcov.
  assert (Hall1 : forall e, In e evs1 -> s_srg (fst e) = g) by (intros e He; apply Hall, in_or_app; auto).
  assert (Hall2 : forall e, In e evs2 -> s_srg (fst e) = g) by (intros e He; apply Hall, in_or_app; auto).
  rewrite app_length in Hn. unfold two63 in Hn.
  assert (Hn64 : (N.of_nat (length evs1) + N.of_nat (length evs2) < n64)%N) by (unfold n64; lia).
  destruct (bulk_fresh fl g0 cap g evs1 Hfr Hfs Hfb Hg Hall1 Hcap ltac:(unfold two63; lia) Hne Hcov) as (rcb & Hb & Hlook).
  cbn zeta in Hb.
  exists rcb. eexists. split; [exact Hlook|].
  rewrite !sys_run_app. unfold sys_init. cbn [map].
  match goal with |- context [sys_run fl ?Y (ev_ops evs1)] =>
    rewrite (sys_events fl g evs1 Y 0%N (new_ring cap) Hg eq_refl Hall1 ltac:(lia)) end.
  cbn [y_recv y_sent y_next y_live y_panics]. rewrite N.add_0_l, app_nil_l.
  change (live_fold [] evs1) with (live_run evs1).
  change (sys_run fl ?Y [OBulk g]) with (sys_step fl Y (OBulk g)). rewrite Hb. cbn [y_sender].
  match goal with |- context [sys_run fl ?Y (ev_ops evs2)] =>
    rewrite (sys_events fl g evs2 Y (N.of_nat (length evs1)) _ Hg eq_refl Hall2 Hn64) end.
  cbn [y_recv y_sent y_next y_live y_panics].
  match goal with |- context [sys_run fl ?Y (repeat _ _)] =>
    rewrite (sys_delivers fl g (length evs2) Y (length evs1) eq_refl) end.
  - cbn [y_live y_panics y_recv y_sent y_next y_sender].
    rewrite skipn_app, reqs_from_length, Nat.sub_diag, skipn_all2 by (rewrite reqs_from_length; lia).
    cbn [skipn app]. rewrite firstn_all2 by (rewrite reqs_from_length; lia).
    reflexivity.
  - cbn [y_sent]. intros q Hq. apply in_app_or in Hq. destruct Hq as [Hq|Hq];
      apply in_nth_error in Hq; destruct Hq as (j & _ & Hj); destruct (reqs_from_nth _ _ _ _ _ Hj) as (A & _); exact A.
  - cbn [y_sent]. rewrite app_length, !reqs_from_length. lia.
Qed.

Lemma bulk_then_stream fl g0 cap g evs1 evs2 :
  f_range fl = false -> f_stale fl = true -> f_bulk fl = false ->
  g <> 0%N -> (forall e, In e (evs1 ++ evs2) -> s_srg (fst e) = g) ->
  (0 < cap <= max_make)%Z -> (Z.of_nat (length (evs1 ++ evs2)) < two63 - 1)%Z -> evs1 <> [] ->
  (f_window fl = true -> window_covers cap evs1 g) ->
  let y := sys_run fl (sys_init cap [g] g0)
             (ev_ops evs1 ++ [OBulk g] ++ ev_ops evs2 ++ repeat (ODeliver g) (length evs2)) in
  y_live y = live_run (evs1 ++ evs2) /\ y_panics y = O /\ next_of y g = length (y_sent y) /\
  forall k, aget keyeqb k (rc_store (y_recv y)) = aget keyeqb k (expected_store (y_live y)).
Proof.
  intros Hfr Hfs Hfb Hg Hall Hcap Hn Hne Hcov y. subst y.
  destruct (bulk_then_stream_state fl g0 cap g evs1 evs2 Hfr Hfs Hfb Hg Hall Hcap Hn Hne Hcov) as (rcb & sn & Hlook & ->).
  cbn [y_live y_panics y_recv y_sent]. unfold next_of. cbn [y_next aget]. rewrite N.eqb_refl.
  assert (Hlive : live_fold (live_run evs1) evs2 = live_run (evs1 ++ evs2)).
  { unfold live_run. change (fold_left _ evs1 []) with (live_fold [] evs1).
    change (fold_left _ (evs1 ++ evs2) []) with (live_fold [] (evs1 ++ evs2)). symmetry. apply live_fold_app. }
  split; [exact Hlive|]. split; [reflexivity|]. split; [rewrite app_length, !reqs_from_length; reflexivity|].
  intros k. rewrite (store_of_run_nocmp fl _ Hfs), aget_store_run, Hlook, Hlive.
  rewrite (expected_by_last_write fl g (evs1 ++ evs2) k Hfs), (expected_by_last_write fl g evs1 k Hfs).
  rewrite reqs_from_app, N.add_0_l, last_write_app.
  destruct (last_write k (reqs_from g (N.of_nat (length evs1)) evs2)); reflexivity.
Qed.

Lemma aset_idem {K V} (eqb : K -> K -> bool) (eqb_eq : forall a b, eqb a b = true <-> a = b) k (v v' : V) l :
  aset eqb k v (aset eqb k v' l) = aset eqb k v l.
Proof.
  induction l as [|[k0 v0] r IH]; simpl.
  - rewrite (eqb_refl' eqb eqb_eq). reflexivity.
  - destruct (eqb k k0) eqn:E; simpl; [rewrite (eqb_refl' eqb eqb_eq); reflexivity|]. rewrite E, IH. reflexivity.
Qed.

(* a delivery whose store write failed, followed by its retransmission, is one successful delivery — for every flag
   set (/repo HEAD has already moved lastSeq when the write fails; nothing consults it) *)
Lemma failed_then_retransmitted fl rc q : recv_step fl (recv_fail fl rc q) q = recv_step fl rc q.
Proof.
  unfold recv_fail. destruct (f_stale fl) eqn:Hs; [|reflexivity].
  unfold recv_step. rewrite Hs. cbn [negb andb rc_last rc_store rc_reg].
  rewrite (aset_idem N.eqb N.eqb_eq). reflexivity.
Qed.

Lemma last_write_some_ex k l : forall x, last_write k l = Some x -> exists q, In q l /\ cp_key (q_cp q) = k.
Proof.
  induction l as [|q r IH]; simpl; intros x; [discriminate|].
  destruct (last_write k r) as [y|] eqn:E.
  - intros _. destruct (IH y eq_refl) as (q' & A & B). exists q'. auto.
  - destruct (keyeqb k (cp_key (q_cp q))) eqn:Ek; [|discriminate]. intros _. apply keyeqb_eq in Ek. exists q. auto.
Qed.

(* a backlog that has not wrapped covers everything *)
Lemma window_covers_unwrapped cap evs g : (length evs <= Z.to_nat cap)%nat -> window_covers cap evs g.
Proof.
  intros H k c Hc. replace (length evs - Z.to_nat cap)%nat with 0%nat by lia. cbn [skipn].
  rewrite (expected_by_last_write head g evs k eq_refl) in Hc.
  destruct (last_write k (reqs_from g 0 evs)) as [x|] eqn:E; [|discriminate].
  exact (last_write_some_ex _ _ x E).
Qed.

(* capacity <= 0 means the default capacity *)
Lemma new_ring_default cap : (cap <= 0)%Z -> new_ring cap = new_ring 10000.
Proof. intros H. unfold new_ring. destruct (Z.leb_spec cap 0); [|lia]. reflexivity. Qed.

Lemma backlog_range_default cap qs first from to :
  (cap <= 0)%Z -> consec first qs -> (0 <= first)%Z -> (first + Z.of_nat (length qs) <= two64)%Z ->
  (0 <= from < two64)%Z -> (0 <= to < two64)%Z ->
  range repaired (fold_left push qs (new_ring cap)) from to =
  Ok (map Some (filter (in_range from to) (skipn (length qs - Z.to_nat 10000) qs))).
Proof.
  intros Hc. rewrite (new_ring_default cap Hc). apply backlog_range_repaired. unfold max_make. lia.
Qed.

(* ================================================================== *)
(* 8. concurrent handlers of the sender                                 *)
(* ================================================================== *)
Lemma ss_repaired_inv fl g cap ops : f_race fl = false -> (N.of_nat (length ops) < n64)%N ->
  exists evs, (length evs <= length ops)%nat /\
    ss_chan (ss_run fl g cap ops) = reqs_from g 0 evs /\
    ss_seq (ss_run fl g cap ops) = N.of_nat (length evs) /\
    ss_ring (ss_run fl g cap ops) = fold_left push (reqs_from g 0 evs) (new_ring cap) /\
    forall i x, aget N.eqb i (ss_pend (ss_run fl g cap ops)) = Some x -> fst x = None.
Proof.
  intros Hr. unfold ss_run.
  induction ops as [|o ops IH] using rev_ind; intros Hlen.
  - exists []. simpl. repeat split; auto. discriminate.
  - rewrite app_length in Hlen. simpl in Hlen.
    destruct (IH ltac:(lia)) as (evs & Hle & Hc & Hs & Hg & Hp). clear IH.
    rewrite fold_left_app. cbn [fold_left]. set (st := fold_left (ss_step fl g) ops (ss_init cap)) in *.
    destruct o as [i s rel|i|b]; unfold ss_step.
    + destruct (ss_active st); cbn [negb]; [|exists evs; rewrite app_length; simpl; repeat split; auto; lia].
      rewrite Hr. exists evs. cbn [ss_chan ss_seq ss_ring ss_pend]. rewrite app_length. simpl.
      repeat split; auto; try lia.
      intros j x. rewrite (aget_aset N.eqb N.eqb_eq). destruct (N.eqb j i); [intros E; inversion E; reflexivity|apply Hp].
    + destruct (aget N.eqb i (ss_pend st)) as [[osq [s rel]]|] eqn:Ei.
      * pose proof (Hp i _ Ei) as Hn. simpl in Hn. subst osq.
        exists (evs ++ [(s, rel)]). cbn [ss_chan ss_seq ss_ring ss_pend]. rewrite !app_length. simpl.
        assert (Hsq : n64z (ss_seq st + 1) = (N.of_nat (length evs) + 1)%N).
        { rewrite Hs. unfold n64z. apply N.mod_small. lia. }
        rewrite Hsq, reqs_from_app, fold_left_app, N.add_0_l. cbn [reqs_from fold_left]. unfold act_of.
        repeat split; try lia.
        -- rewrite Hc. reflexivity.
        -- rewrite Hg. reflexivity.
        -- intros j x. rewrite (aget_adel N.eqb N.eqb_eq). destruct (N.eqb j i); [discriminate|apply Hp].
      * exists evs. rewrite app_length. simpl. repeat split; auto; lia.
    + (* a role transition touches neither the counter nor the ring *)
      exists evs. cbn [ss_chan ss_seq ss_ring ss_pend]. rewrite app_length. simpl. repeat split; auto; lia.
Qed.

Lemma sender_atomic_exact fl g cap ops from to :
  f_race fl = false -> f_range fl = false -> (N.of_nat (length ops) < n64)%N ->
  (0 < cap <= max_make)%Z -> (0 <= from < two64)%Z -> (0 <= to < two64)%Z ->
  let st := ss_run fl g cap ops in
  consec 1 (ss_chan st) /\ ss_seq st = N.of_nat (length (ss_chan st)) /\
  ss_ring st = fold_left push (ss_chan st) (new_ring cap) /\
  range fl (ss_ring st) from to =
    Ok (map Some (filter (in_range from to) (skipn (length (ss_chan st) - Z.to_nat cap) (ss_chan st)))).
Proof.
  intros Hr Hfr Hlen Hcap Hf Ht st. subst st.
  destruct (ss_repaired_inv fl g cap ops Hr Hlen) as (evs & Hle & Hc & Hs & Hg & _).
  rewrite Hc, Hs, Hg, reqs_from_length. split; [apply (reqs_from_consec g 0 evs)|]. split; [reflexivity|]. split; [reflexivity|].
  unfold range. rewrite Hfr.
  pose proof (backlog_range_repaired cap (reqs_from g 0 evs) 1 from to Hcap (reqs_from_consec g 0 evs) ltac:(lia)) as G.
  rewrite reqs_from_length in G. unfold range in G. cbn [f_range repaired] in G.
  apply G; try assumption. unfold two64, n64 in *. lia.
Qed.

(* ================================================================== *)
(* 9. pool reservations after a bulk sync of a fresh standby            *)
(* ================================================================== *)
From Coq Require Import Permutation.

Definition same_elems {A} (l1 l2 : list A) : Prop := forall x, In x l1 <-> In x l2.

Lemma nodup_pairs {K V} (l : list (K * V)) : NoDup (map fst l) -> NoDup l.
Proof.
  induction l as [|[k v] r IH]; simpl; intros H; [constructor|]. inversion H as [|? ? Hn Hd]; subst.
  constructor; [|auto]. intros Hin. apply Hn. apply in_map_iff. exists (k, v). auto.
Qed.

Lemma uniq_same g0 l1 l2 : NoDup (map fst l1) -> NoDup (map fst l2) -> same_elems l1 l2 -> uniq g0 l1 -> uniq g0 l2.
Proof.
  intros H1 H2 Hs Hu. unfold uniq, expected_leases in *.
  assert (P : Permutation l1 l2) by (apply NoDup_Permutation; [apply nodup_pairs, H1|apply nodup_pairs, H2|exact Hs]).
  eapply Permutation_NoDup; [|exact Hu]. apply Permutation_map. apply Permutation_flat_map. exact P.
Qed.

Lemma uniq_prefix g0 (p r : list ((N * N) * session)) : uniq g0 (p ++ r) -> uniq g0 p.
Proof.
  unfold uniq, expected_leases. rewrite flat_map_app, map_app. intros H.
  revert H. generalize (map fst (flat_map (fun ks => resv_cp g0 (s2c (snd ks))) p)) as a.
  generalize (map fst (flat_map (fun ks => resv_cp g0 (s2c (snd ks))) r)) as b.
  intros b a. induction a as [|x a IH]; simpl; intros H; [constructor|]. inversion H as [|? ? Hn Hd]; subst.
  constructor; [intros Hin; apply Hn, in_or_app; auto|auto].
Qed.

Lemma aset_absent {V} k (v : V) l : aget keyeqb k l = None -> aset keyeqb k v l = l ++ [(k, v)].
Proof.
  induction l as [|[k0 v0] r IH]; simpl; [reflexivity|]. destruct (keyeqb k k0); [discriminate|].
  intros H. rewrite IH by exact H. reflexivity.
Qed.

Lemma aget_absent_keys {V} k (l : list ((N * N) * V)) : ~ In k (map fst l) -> aget keyeqb k l = None.
Proof.
  induction l as [|[k0 v0] r IH]; simpl; intros H; [reflexivity|].
  destruct (keyeqb k k0) eqn:E; [apply keyeqb_eq in E; subst; exfalso; apply H; auto|apply IH; auto].
Qed.

Lemma recv_update_eta fl rc c : recv_update fl rc c = recv_update fl (mkrecv (rc_last rc) (rc_store rc) (rc_reg rc)) c.
Proof. destruct rc; reflexivity. Qed.

(* storing the checkpoints of a list of sessions with distinct keys, one after the other *)
Lemma pinv_bulk_updates g0 fl : f_drop fl = false -> f_relall fl = false ->
  forall r p rc, live_ok (p ++ r) -> uniq g0 (p ++ r) -> pinv g0 rc p ->
  pinv g0 (fold_left (recv_update fl) (map (fun ks => s2c (snd ks)) r) rc) (p ++ r).
Proof.
  intros Hd Hr. induction r as [|[k s] r IH]; intros p rc Hok Hu Hp; [rewrite app_nil_r; exact Hp|].
  cbn [map fold_left snd].
  replace (p ++ (k, s) :: r) with ((p ++ [(k, s)]) ++ r) in * by (rewrite <- app_assoc; reflexivity).
  apply IH; [exact Hok|exact Hu|].
  destruct Hok as [Hn Hc].
  assert (Hk : k = sess_key s) by (apply Hc, in_or_app; left; apply in_or_app; right; left; reflexivity).
  assert (Habs : aget keyeqb k p = None).
  { apply aget_absent_keys. rewrite !map_app in Hn. simpl in Hn. rewrite <- app_assoc in Hn.
    intros Hin. apply NoDup_remove_2 in Hn. apply Hn. apply in_or_app. left. exact Hin. }
  rewrite <- (aset_absent k s p Habs). subst k.
  rewrite recv_update_head by assumption. rewrite recv_update_eta.
  apply (pinv_update g0 rc p s); [exact Hp| |].
  - apply (uniq_prefix g0 p ([(sess_key s, s)] ++ r)). rewrite app_assoc. exact Hu.
  - rewrite (aset_absent _ s p Habs). apply (uniq_prefix g0 _ r). exact Hu.
Qed.

Lemma pinv_last g0 rc live l : pinv g0 rc live -> pinv g0 (mkrecv l (rc_store rc) (rc_reg rc)) live.
Proof. intros H. exact H. Qed.

(* the invariant only depends on the live set as a set *)
Lemma pinv_owner_same g0 l1 l2 x sid : same_elems l1 l2 -> owner g0 l1 x sid <-> owner g0 l2 x sid.
Proof. intros Hs. unfold owner. split; intros (e & A & B); exists e; split; auto; apply Hs; auto. Qed.

Lemma same_elems_step l1 l2 s rel : NoDup (map fst l1) -> NoDup (map fst l2) -> same_elems l1 l2 ->
  same_elems (live_step l1 s rel) (live_step l2 s rel).
Proof.
  intros H1 H2 Hs [k v]. unfold live_step. destruct rel.
  - rewrite !(in_adel keyeqb keyeqb_eq). split; intros [A B]; split; auto; apply Hs; auto.
  - rewrite (in_aset keyeqb keyeqb_eq _ _ _ _ _ H1), (in_aset keyeqb keyeqb_eq _ _ _ _ _ H2).
    split; (intros [A|[A B]]; [left; exact A|right; split; [exact A|apply Hs; exact B]]).
Qed.

Lemma live_step_nodup l s rel : NoDup (map fst l) -> NoDup (map fst (live_step l s rel)).
Proof.
  intros H. unfold live_step. destruct rel; [apply (nodup_adel keyeqb keyeqb_eq), H|apply (nodup_aset keyeqb keyeqb_eq), H].
Qed.

Lemma same_elems_fold evs : forall l1 l2, NoDup (map fst l1) -> NoDup (map fst l2) -> same_elems l1 l2 ->
  same_elems (live_fold l1 evs) (live_fold l2 evs) /\ NoDup (map fst (live_fold l1 evs)) /\ NoDup (map fst (live_fold l2 evs)).
Proof.
  induction evs as [|[s rel] t IH]; intros l1 l2 H1 H2 Hs; [auto|].
  rewrite !live_fold_cons. cbn [fst snd].
  apply IH; [apply live_step_nodup, H1|apply live_step_nodup, H2|apply same_elems_step; assumption].
Qed.

(* the in-order stream on top of a state that satisfies the invariant for a permutation of the live set *)
Lemma pinv_stream_perm g0 g fl evs2 : f_stale fl = true -> f_drop fl = false -> f_relall fl = false ->
  forall seq rc l live, NoDup (map fst l) -> NoDup (map fst live) -> same_elems l live ->
  pinv g0 rc l ->
  (forall i, (i <= length evs2)%nat -> uniq g0 (live_fold live (firstn i evs2))) ->
  pinv g0 (recv_run fl rc (reqs_from g seq evs2)) (live_fold l evs2).
Proof.
  intros Hs Hd Hr. induction evs2 as [|[s rel] t IH]; intros seq rc l live Hl Hlive Hsame Hp Hu; [exact Hp|].
  cbn [reqs_from]. rewrite recv_run_cons, live_fold_cons. cbn [fst snd].
  pose proof (Hu 0%nat ltac:(simpl; lia)) as U0. simpl in U0.
  pose proof (Hu 1%nat ltac:(simpl; lia)) as U1. cbn [firstn] in U1. rewrite live_fold_one in U1.
  assert (Hsame' : same_elems (live_step l s rel) (live_step live s rel)) by (apply same_elems_step; assumption).
  assert (Ul0 : uniq g0 l).
  { apply (uniq_same g0 live l Hlive Hl); [intros x; symmetry; apply Hsame|exact U0]. }
  assert (Ul1 : uniq g0 (live_step l s rel)).
  { apply (uniq_same g0 (live_step live s rel) (live_step l s rel)); [apply live_step_nodup, Hlive|apply live_step_nodup, Hl| |exact U1].
    intros x; symmetry; apply Hsame'. }
  apply (IH (seq + 1)%N _ _ (live_step live s rel)); [apply live_step_nodup, Hl|apply live_step_nodup, Hlive|exact Hsame'| |].
  - rewrite (recv_step_head fl rc _ Hs Hd Hr). cbv zeta. cbn [q_act q_cp q_srg q_seq].
    unfold live_step in *. destruct rel; cbn [act_of].
    + apply (pinv_delete g0 rc l s); [exact Hp|exact Ul0].
    + apply (pinv_update g0 rc l s); [exact Hp|exact Ul0|exact Ul1].
  - intros i Hi. specialize (Hu (S i) ltac:(simpl; lia)). simpl in Hu. exact Hu.
Qed.

(* ---------- last writer per session, at the level of events ---------- *)
Fixpoint last_ev (k : N * N) (evs : list (session * bool)) : option (option session) :=
  match evs with
  | [] => None
  | (s, rel) :: r => match last_ev k r with
                     | Some x => Some x
                     | None => if keyeqb k (sess_key s) then Some (if rel then None else Some s) else None
                     end
  end.

Lemma aget_live_fold_last k evs : forall live,
  aget keyeqb k (live_fold live evs) = match last_ev k evs with Some r => r | None => aget keyeqb k live end.
Proof.
  induction evs as [|[s rel] t IH]; intros live; [reflexivity|]. rewrite live_fold_cons, IH. cbn [last_ev fst snd].
  destruct (last_ev k t); [reflexivity|]. rewrite aget_live_step. destruct (keyeqb k (sess_key s)); reflexivity.
Qed.

Lemma last_ev_app k a b : last_ev k (a ++ b) = match last_ev k b with Some x => Some x | None => last_ev k a end.
Proof.
  induction a as [|[s rel] r IH]; simpl; [destruct (last_ev k b); reflexivity|]. rewrite IH. destruct (last_ev k b); reflexivity.
Qed.

Definition later_ev (k : N * N) (r : list (session * bool)) : bool := existsb (fun e => keyeqb k (sess_key (fst e))) r.
Fixpoint compact_ev (evs : list (session * bool)) : list ((N * N) * session) :=
  match evs with
  | [] => []
  | (s, rel) :: r => if later_ev (sess_key s) r then compact_ev r
                     else if rel then compact_ev r else (sess_key s, s) :: compact_ev r
  end.

Lemma last_ev_none k l : last_ev k l = None <-> forall e, In e l -> sess_key (fst e) <> k.
Proof.
  induction l as [|[s rel] r IH]; simpl; [tauto|].
  destruct (last_ev k r) eqn:E.
  - split; [discriminate|]. intros H. exfalso.
    assert (G : Some o = None) by (apply IH; intros e' He'; apply H; auto). discriminate.
  - destruct (keyeqb k (sess_key s)) eqn:Ek.
    + split; [discriminate|]. intros H. apply keyeqb_eq in Ek. exfalso. apply (H (s, rel)); auto.
    + split; [|reflexivity]. intros _ e' [<-|He'].
      * simpl. intros Heq. rewrite Heq, (proj2 (keyeqb_eq k k) eq_refl) in Ek. discriminate.
      * apply (proj1 IH eq_refl e' He').
Qed.

Lemma later_ev_spec k l : later_ev k l = true <-> last_ev k l <> None.
Proof.
  unfold later_ev. rewrite existsb_exists. split.
  - intros (e & He & E) H. apply keyeqb_eq in E. apply (proj1 (last_ev_none k l) H e He). auto.
  - intros H. destruct (existsb (fun e => keyeqb k (sess_key (fst e))) l) eqn:Ex.
    + apply existsb_exists in Ex. exact Ex.
    + exfalso. apply H. apply last_ev_none. intros e He Heq.
      assert (existsb (fun e => keyeqb k (sess_key (fst e))) l = true).
      { apply existsb_exists. exists e. split; [exact He|]. apply keyeqb_eq. auto. }
      congruence.
Qed.

Lemma aget_compact_ev k evs :
  aget keyeqb k (compact_ev evs) = match last_ev k evs with Some (Some s) => Some s | _ => None end.
Proof.
  induction evs as [|[s rel] r IH]; [reflexivity|]. cbn [compact_ev last_ev].
  destruct (later_ev (sess_key s) r) eqn:Hl.
  - rewrite IH. destruct (last_ev k r) as [x|] eqn:E; [reflexivity|].
    destruct (keyeqb k (sess_key s)) eqn:Ek; [|reflexivity].
    apply keyeqb_eq in Ek. subst k. apply later_ev_spec in Hl. contradiction.
  - assert (Hn : last_ev (sess_key s) r = None).
    { destruct (last_ev (sess_key s) r) eqn:E; [|reflexivity].
      assert (later_ev (sess_key s) r = true) by (apply later_ev_spec; congruence). congruence. }
    destruct rel.
    + rewrite IH. destruct (last_ev k r) as [x|] eqn:E; [reflexivity|].
      destruct (keyeqb k (sess_key s)); reflexivity.
    + simpl aget. rewrite IH. destruct (keyeqb k (sess_key s)) eqn:Ek.
      * apply keyeqb_eq in Ek. subst k. rewrite Hn. reflexivity.
      * destruct (last_ev k r) as [[x|]|]; reflexivity.
Qed.

Lemma compact_ev_keys evs k s : In (k, s) (compact_ev evs) -> k = sess_key s /\ exists rel, In (s, rel) evs.
Proof.
  induction evs as [|[s0 rel] r IH]; simpl; [tauto|].
  destruct (later_ev (sess_key s0) r); [intros H; destruct (IH H) as (A & rl & B); split; [exact A|exists rl; auto]|].
  destruct rel; [intros H; destruct (IH H) as (A & rl & B); split; [exact A|exists rl; auto]|].
  intros [H|H]; [inversion H; subst; split; [reflexivity|exists false; auto]|destruct (IH H) as (A & rl & B); split; [exact A|exists rl; auto]].
Qed.

Lemma compact_ev_ok evs : live_ok (compact_ev evs).
Proof.
  split; [|intros k s H; apply (compact_ev_keys evs k s H)].
  induction evs as [|[s rel] r IH]; simpl; [constructor|].
  destruct (later_ev (sess_key s) r) eqn:Hl; [exact IH|]. destruct rel; [exact IH|].
  simpl. constructor; [|exact IH]. intros Hin. apply in_map_iff in Hin. destruct Hin as ([k' s'] & Ek & Hin). simpl in Ek. subst k'.
  destruct (compact_ev_keys r _ _ Hin) as (A & rl & B).
  assert (later_ev (sess_key s) r = true).
  { unfold later_ev. apply existsb_exists. exists (s', rl). split; [exact B|]. apply keyeqb_eq. exact A. }
  congruence.
Qed.

Lemma has_later_reqs g k evs : forall seq, has_later k (reqs_from g seq evs) = later_ev k evs.
Proof.
  induction evs as [|[s rel] r IH]; intros seq; [reflexivity|]. unfold has_later, later_ev in *. cbn [reqs_from existsb q_cp fst].
  rewrite cp_key_s2c. f_equal. apply IH.
Qed.

Lemma compact_reqs g evs : forall seq, compact (reqs_from g seq evs) = map (fun ks => s2c (snd ks)) (compact_ev evs).
Proof.
  induction evs as [|[s rel] r IH]; intros seq; [reflexivity|]. cbn [reqs_from compact compact_ev q_cp q_act].
  rewrite cp_key_s2c, has_later_reqs. destruct (later_ev (sess_key s) r); [apply IH|].
  destruct rel; cbn [act_of]; [apply IH|]. cbn [map snd]. f_equal. apply IH.
Qed.

Lemma reqs_from_skipn g evs : forall m seq, (m <= length evs)%nat ->
  skipn m (reqs_from g seq evs) = reqs_from g (seq + N.of_nat m) (skipn m evs).
Proof.
  induction evs as [|[s rel] r IH]; intros m seq H.
  - destruct m; simpl in *; [reflexivity|lia].
  - destruct m as [|m]; [replace (seq + N.of_nat 0)%N with seq by lia; reflexivity|].
    simpl in H. cbn [reqs_from skipn]. rewrite IH by lia. f_equal. lia.
Qed.

Lemma pinv_recv_bulk g0 fl rc srg w L :
  pinv g0 (fold_left (recv_update fl) (bulk_cps fl w) rc) L -> pinv g0 (recv_bulk fl rc srg w) L.
Proof. unfold recv_bulk. intros H. destruct (rev w) as [|q ?]; [exact H|]. destruct (N.ltb 0 (q_seq q)); exact H. Qed.
Lemma pinv_recv_snapshot g0 fl rc srg seq cps L :
  pinv g0 (fold_left (recv_update fl) cps (if f_lagdel fl then rc else purge fl rc srg)) L ->
  pinv g0 (recv_snapshot fl rc srg seq cps) L.
Proof. unfold recv_snapshot. intros H. destruct (N.ltb 0 seq); exact H. Qed.

Lemma pinv_fresh g0 : fresh g0 -> pinv g0 (mkrecv [] [] g0) [].
Proof.
  intros Hf. split; [reflexivity|]. split; [constructor|]. split; [reflexivity|].
  intros x sid. simpl. rewrite Hf. split; [discriminate|]. intros (e & [] & _).
Qed.

(* the same bulk step, with the pool invariant for a permutation of the live set *)
Lemma bulk_fresh_pinv fl g0 cap g evs1 :
  f_range fl = false -> f_stale fl = true -> f_bulk fl = false ->
  g <> 0%N -> (forall e, In e evs1 -> s_srg (fst e) = g) ->
  (0 < cap <= max_make)%Z -> (Z.of_nat (length evs1) < two63 - 1)%Z -> evs1 <> [] ->
  (f_window fl = true -> window_covers cap evs1 g) ->
  f_drop fl = false -> f_relall fl = false -> fresh g0 -> uniq g0 (live_run evs1) ->
  let reqs1 := reqs_from g 0 evs1 in
  let y1 := mksys [(g, (N.of_nat (length evs1), fold_left push reqs1 (new_ring cap)))] (mkrecv [] [] g0) reqs1 []
                  (live_run evs1) O in
  exists rcb L, sys_step fl y1 (OBulk g) = mksys (y_sender y1) rcb reqs1 [(g, length evs1)] (live_run evs1) O /\
                NoDup (map fst L) /\ same_elems L (live_run evs1) /\ pinv g0 rcb L.
Proof.
  intros Hfr Hfs Hfb Hg Hall Hcap Hn Hne Hcov Hfd Hfrl Hfresh Huniq reqs1 y1.
  set (c := Z.to_nat cap). set (n1 := length evs1).
  set (w := skipn (n1 - c) reqs1).
  assert (Hn1 : (0 < n1)%nat) by (unfold n1; destruct evs1; [contradiction|simpl; lia]).
  assert (Hlen1 : length reqs1 = n1) by (apply reqs_from_length).
  assert (Hinv : ring_inv c (fold_left push reqs1 (new_ring cap)) w).
  { unfold w. rewrite <- Hlen1. apply pushed_ring_inv. lia. }
  assert (Hcs : consec (1 + Z.of_nat (n1 - c)) w).
  { unfold w. pose proof (consec_skipn 1 reqs1 (n1 - c) (reqs_from_consec g 0 evs1)) as G. exact G. }
  assert (Hwl : length w = (n1 - (n1 - c))%nat) by (unfold w; rewrite skipn_length; lia).
  assert (Hwne : w <> []) by (intros E; rewrite E in Hwl; simpl in Hwl; unfold c in *; lia).
  unfold two63 in *.
  destruct (full_window c _ w (1 + Z.of_nat (n1 - c)) Hinv ltac:(unfold c; lia) Hcs ltac:(lia)
              ltac:(unfold two63; lia) Hwne) as (o & n & Ho & Hnw & Hoz & Hnz & Hrange).
  assert (Hnn : n = N.of_nat n1) by (unfold c in *; lia).
  (* the lookups of both paths *)
  assert (Hexp : forall k, aget keyeqb k (expected_store (live_run evs1)) =
                           match last_write k reqs1 with Some r => r | None => None end).
  { intros k. apply (expected_by_last_write fl g evs1 k Hfs). }
  assert (Hsplit : reqs1 = firstn (n1 - c) reqs1 ++ w) by (unfold w; symmetry; apply firstn_skipn).
  assert (Hok1 : live_ok (live_run evs1)) by (apply (live_ok_fold evs1 []); split; [constructor|intros ? ? []]).
  unfold sys_step, bulk_op. cbn [y_sender y1 aget]. rewrite N.eqb_refl, Ho, Hnw.
  destruct (N.eqb_spec o 0) as [E0|_]; [lia|]. destruct (N.eqb_spec n 0) as [E0|_]; [lia|]. cbn [orb].
  unfold range. rewrite Hfr, Hrange, somes_map_some.
  unfold last_of. cbn [y_recv y1 rc_last aget]. rewrite N.add_0_l.
  destruct (f_window fl || (N.leb o 1 && (f_lagdel fl || N.eqb 0 0))) eqn:Hpath.
  - (* window *)
    rewrite Nat.mul_0_r. cbn [iter_n y_sender y_recv y_sent y_next y_live y_panics y1].
    set (W := skipn (n1 - c) evs1).
    assert (Hw : w = reqs_from g (N.of_nat (n1 - c)) W).
    { unfold w, reqs1, W. rewrite reqs_from_skipn by (fold n1; lia). rewrite N.add_0_l. reflexivity. }
    assert (Hwhy : f_window fl = true \/ (n1 <= c)%nat).
    { destruct (f_window fl); [left; reflexivity|right]. cbn [orb] in Hpath.
      destruct (N.leb_spec o 1); [unfold c in *; lia|discriminate]. }
    assert (Hsame : same_elems (compact_ev W) (live_run evs1)).
    { assert (Hlk : forall k, aget keyeqb k (compact_ev W) = aget keyeqb k (live_run evs1)).
      { intros k. rewrite aget_compact_ev. unfold live_run. change (fold_left _ evs1 []) with (live_fold [] evs1).
        rewrite aget_live_fold_last. simpl aget.
        replace (last_ev k evs1) with (last_ev k (firstn (n1 - c) evs1 ++ W)) by (unfold W; rewrite firstn_skipn; reflexivity).
        rewrite last_ev_app.
        destruct (last_ev k W) as [[x|]|] eqn:Ew; [reflexivity|reflexivity|].
        destruct Hwhy as [Hwn|Hwn].
        - destruct (match last_ev k (firstn (n1 - c) evs1) with Some r => r | None => None end) as [sx|] eqn:Ep;
            [|destruct (last_ev k (firstn (n1 - c) evs1)) as [[?|]|]; [discriminate|reflexivity|reflexivity]].
          exfalso.
          assert (Hlive : aget keyeqb k (live_run evs1) = Some sx).
          { unfold live_run. change (fold_left _ evs1 []) with (live_fold [] evs1). rewrite aget_live_fold_last. simpl aget.
            replace (last_ev k evs1) with (last_ev k (firstn (n1 - c) evs1 ++ W)) by (unfold W; rewrite firstn_skipn; reflexivity).
            rewrite last_ev_app, Ew. exact Ep. }
          destruct (Hcov Hwn k (s2c sx)) as (q & Hq & Hk).
          + unfold expected_store. rewrite aget_map, Hlive. reflexivity.
          + fold n1 c reqs1 in Hq. fold w in Hq. rewrite Hw in Hq.
            apply in_nth_error in Hq. destruct Hq as (j & _ & Hj).
            destruct (reqs_from_nth _ _ _ _ _ Hj) as (_ & _ & s' & rel' & He' & _ & Hc').
            apply nth_error_In in He'. apply (proj1 (last_ev_none k W) Ew _ He'). simpl.
            rewrite <- Hk, Hc', cp_key_s2c. reflexivity.
        - replace (n1 - c)%nat with 0%nat by lia. reflexivity. }
      intros [k s]. rewrite <- (aget_in keyeqb keyeqb_eq k s _ (proj1 (compact_ev_ok W))),
                     <- (aget_in keyeqb keyeqb_eq k s _ (proj1 Hok1)), Hlk. tauto. }
    eexists. exists (compact_ev W). split; [|split; [exact (proj1 (compact_ev_ok W))|split; [exact Hsame|]]].
    + unfold next_of. cbn [y_next aget]. rewrite Hnn, Nat2N.id, Nat.max_0_l. cbn [aset]. reflexivity.
    + apply pinv_recv_bulk. unfold bulk_cps. rewrite Hfb, Hw, compact_reqs.
      apply (pinv_bulk_updates g0 fl Hfd Hfrl (compact_ev W) [] _ (compact_ev_ok W)); [|apply pinv_fresh, Hfresh].
      simpl. apply (uniq_same g0 (live_run evs1) (compact_ev W) (proj1 Hok1) (proj1 (compact_ev_ok W)));
        [intros x; symmetry; apply Hsame|exact Huniq].
  - (* snapshot *)
    rewrite Nat.mul_0_r. cbn [iter_n y_sender y_recv y_sent y_next y_live y_panics y1].
    eexists. exists (live_run evs1). split; [|split; [exact (proj1 Hok1)|split; [intros x; tauto|]]].
    + unfold next_of. cbn [y_next aget]. fold n1. rewrite Nat2N.id, Nat.max_0_l. cbn [aset]. reflexivity.
    + apply pinv_recv_snapshot.
      replace (if f_lagdel fl then mkrecv [] [] g0 else purge fl (mkrecv [] [] g0) g) with (mkrecv [] [] g0)
        by (destruct (f_lagdel fl); reflexivity).
      unfold snapshot_cps. cbn [y_live]. rewrite (filter_id _ (live_run evs1)).
      * apply (pinv_bulk_updates g0 fl Hfd Hfrl (live_run evs1) [] _ Hok1 Huniq). apply pinv_fresh, Hfresh.
      * intros [k' s'] Hin. cbn [snd]. apply N.eqb_eq.
        apply (live_srg g evs1 [] (fun _ _ F => match F with end) Hall k' s' Hin).
Qed.

Lemma stream_after_bulk_state fl g0 cap g evs1 evs2 rcb :
  g <> 0%N -> (forall e, In e (evs1 ++ evs2) -> s_srg (fst e) = g) ->
  (Z.of_nat (length (evs1 ++ evs2)) < two63 - 1)%Z ->
  sys_step fl (mksys [(g, (N.of_nat (length evs1), fold_left push (reqs_from g 0 evs1) (new_ring cap)))] (mkrecv [] [] g0)
                     (reqs_from g 0 evs1) [] (live_run evs1) O) (OBulk g) =
    mksys [(g, (N.of_nat (length evs1), fold_left push (reqs_from g 0 evs1) (new_ring cap)))] rcb (reqs_from g 0 evs1)
          [(g, length evs1)] (live_run evs1) O ->
  exists sn,
    sys_run fl (sys_init cap [g] g0)
      (ev_ops evs1 ++ [OBulk g] ++ ev_ops evs2 ++ repeat (ODeliver g) (length evs2)) =
    mksys sn (recv_run fl rcb (reqs_from g (N.of_nat (length evs1)) evs2))
          (reqs_from g 0 evs1 ++ reqs_from g (N.of_nat (length evs1)) evs2)
          [(g, (length evs1 + length evs2)%nat)] (live_fold (live_run evs1) evs2) O.
Proof.
  intros Hg Hall Hn Hb.
  assert (Hall1 : forall e, In e evs1 -> s_srg (fst e) = g) by (intros e He; apply Hall, in_or_app; auto).
  assert (Hall2 : forall e, In e evs2 -> s_srg (fst e) = g) by (intros e He; apply Hall, in_or_app; auto).
  rewrite app_length in Hn. unfold two63 in Hn.
  assert (Hn64 : (N.of_nat (length evs1) + N.of_nat (length evs2) < n64)%N) by (unfold n64; lia).
  eexists.
  rewrite !sys_run_app. unfold sys_init. cbn [map].
  match goal with |- context [sys_run fl ?Y (ev_ops evs1)] =>
    rewrite (sys_events fl g evs1 Y 0%N (new_ring cap) Hg eq_refl Hall1 ltac:(lia)) end.
  cbn [y_recv y_sent y_next y_live y_panics]. rewrite N.add_0_l, app_nil_l.
  change (live_fold [] evs1) with (live_run evs1).
  change (sys_run fl ?Y [OBulk g]) with (sys_step fl Y (OBulk g)). rewrite Hb.
  match goal with |- context [sys_run fl ?Y (ev_ops evs2)] =>
    rewrite (sys_events fl g evs2 Y (N.of_nat (length evs1)) _ Hg eq_refl Hall2 Hn64) end.
  cbn [y_recv y_sent y_next y_live y_panics].
  match goal with |- context [sys_run fl ?Y (repeat _ _)] =>
    rewrite (sys_delivers fl g (length evs2) Y (length evs1) eq_refl) end.
  - cbn [y_live y_panics y_recv y_sent y_next y_sender].
    rewrite skipn_app, reqs_from_length, Nat.sub_diag, skipn_all2 by (rewrite reqs_from_length; lia).
    cbn [skipn app]. rewrite firstn_all2 by (rewrite reqs_from_length; lia).
    reflexivity.
  - cbn [y_sent]. intros q Hq. apply in_app_or in Hq. destruct Hq as [Hq|Hq];
      apply in_nth_error in Hq; destruct Hq as (j & _ & Hj); destruct (reqs_from_nth _ _ _ _ _ Hj) as (A & _); exact A.
  - cbn [y_sent]. rewrite app_length, !reqs_from_length. lia.
Qed.

Lemma live_run_app a b : live_run (a ++ b) = live_fold (live_run a) b.
Proof.
  unfold live_run. change (fold_left _ (a ++ b) []) with (live_fold [] (a ++ b)).
  change (fold_left _ a []) with (live_fold [] a). apply live_fold_app.
Qed.

Lemma bulk_then_stream_pools fl g0 cap g evs1 evs2 :
  f_range fl = false -> f_stale fl = true -> f_bulk fl = false -> f_drop fl = false -> f_relall fl = false ->
  g <> 0%N -> (forall e, In e (evs1 ++ evs2) -> s_srg (fst e) = g) ->
  (0 < cap <= max_make)%Z -> (Z.of_nat (length (evs1 ++ evs2)) < two63 - 1)%Z -> evs1 <> [] ->
  (f_window fl = true -> window_covers cap evs1 g) ->
  fresh g0 ->
  (forall i, (i <= length (evs1 ++ evs2))%nat -> uniq g0 (live_run (firstn i (evs1 ++ evs2)))) ->
  let y := sys_run fl (sys_init cap [g] g0)
             (ev_ops evs1 ++ [OBulk g] ++ ev_ops evs2 ++ repeat (ODeliver g) (length evs2)) in
  forall x sid, lease_at (rc_reg (y_recv y)) x = Some sid <-> In (x, sid) (expected_leases g0 (y_live y)).
Proof.
  intros Hfr Hfs Hfb Hfd Hfrl Hg Hall Hcap Hn Hne Hcov Hfresh Hu y x sid. subst y.
  assert (Hall1 : forall e, In e evs1 -> s_srg (fst e) = g) by (intros e He; apply Hall, in_or_app; auto).
  assert (Hlen : (Z.of_nat (length evs1) < two63 - 1)%Z) by (rewrite app_length in Hn; lia).
  assert (Hu1 : uniq g0 (live_run evs1)).
  { specialize (Hu (length evs1) ltac:(rewrite app_length; lia)). rewrite firstn_app, Nat.sub_diag, firstn_all in Hu.
    cbn [firstn] in Hu. rewrite app_nil_r in Hu. exact Hu. }
  destruct (bulk_fresh_pinv fl g0 cap g evs1 Hfr Hfs Hfb Hg Hall1 Hcap Hlen Hne Hcov Hfd Hfrl Hfresh Hu1)
    as (rcb & L & Hb & HL & Hsame & Hp).
  cbn zeta in Hb. cbn [y_sender] in Hb.
  destruct (stream_after_bulk_state fl g0 cap g evs1 evs2 rcb Hg Hall Hn Hb) as (sn & ->).
  cbn [y_recv y_live].
  assert (Hok1 : live_ok (live_run evs1)) by (apply (live_ok_fold evs1 []); split; [constructor|intros ? ? []]).
  assert (Hu2 : forall i, (i <= length evs2)%nat -> uniq g0 (live_fold (live_run evs1) (firstn i evs2))).
  { intros i Hi. specialize (Hu (length evs1 + i)%nat ltac:(rewrite app_length; lia)).
    rewrite firstn_app, firstn_all2 in Hu by lia. replace (length evs1 + i - length evs1)%nat with i in Hu by lia.
    rewrite live_run_app in Hu. exact Hu. }
  pose proof (pinv_stream_perm g0 g fl evs2 Hfs Hfd Hfrl (N.of_nat (length evs1)) rcb L (live_run evs1) HL (proj1 Hok1)
                Hsame Hp Hu2) as (_ & _ & _ & Hl).
  rewrite Hl, <- owner_expected.
  apply pinv_owner_same. apply (same_elems_fold evs2 L (live_run evs1) HL (proj1 Hok1) Hsame).
Qed.

(* ================================================================== *)
(* 10. any number of SRGs sharing one sender and one receiver           *)
(* ================================================================== *)
(* what /repo HEAD's receiver uses of a stream: the j-th request carries the checkpoint and the action of the j-th
   event; SRG name and sequence number only feed lastSeq, which nothing consults *)
Definition stream_of (evs : list (session * bool)) (reqs : list req) : Prop :=
  length reqs = length evs /\
  forall j q, nth_error reqs j = Some q ->
    exists s rel, nth_error evs j = Some (s, rel) /\ q_act q = act_of rel /\ q_cp q = s2c s.

Lemma head_delivery_gen g0 fl evs reqs m d m' :
  stream_of evs reqs ->
  f_stale fl = true -> f_drop fl = false -> f_relall fl = false ->
  delivery_latest reqs m d m' ->
  (forall i, (i <= length evs)%nat -> uniq g0 (live_fold [] (firstn i evs))) ->
  forall rc, (m <= length evs)%nat -> pinv g0 rc (live_fold [] (firstn m evs)) ->
  pinv g0 (recv_run fl rc d) (live_fold [] (firstn m' evs)).
Proof.
  intros Hstr Hs Hd Hr Hdel Hu.
  induction Hdel as [m|m q d m' Hq Hdel IH|m k q d m' Hk Hq Hlat Hdel IH]; intros rc Hml Hp; [exact Hp| |].
  - rewrite recv_run_cons.
    assert (Hm : (S m <= length evs)%nat).
    { rewrite <- (proj1 Hstr). apply nth_error_Some. congruence. }
    apply IH; [exact Hm|].
    destruct (proj2 Hstr _ _ Hq) as (s & rel & He & Ha & Hc).
    rewrite (recv_step_head fl rc q Hs Hd Hr). cbv zeta. rewrite Ha, Hc.
    rewrite (firstn_snoc m evs _ He), live_fold_app, live_fold_one.
    pose proof (Hu m ltac:(lia)) as U0. pose proof (Hu (S m) Hm) as U1.
    rewrite (firstn_snoc m evs _ He), live_fold_app, live_fold_one in U1.
    destruct Hp as (Hstore & Hrest). unfold live_step in *. destruct rel; cbn [act_of].
    + apply (pinv_delete g0 rc _ s); [split; assumption|exact U0].
    + apply (pinv_update g0 rc _ s); [split; assumption|exact U0|exact U1].
  - rewrite recv_run_cons. apply IH; [exact Hml|].
    destruct (proj2 Hstr _ _ Hq) as (s & rel & He & Ha & Hc).
    rewrite (recv_step_head fl rc q Hs Hd Hr). cbv zeta. rewrite Ha, Hc.
    assert (Hsame : live_step (live_fold [] (firstn m evs)) s rel = live_fold [] (firstn m evs)).
    { apply (live_latest evs k m s rel He Hk). intros j [s' rel'] Hj Hj'.
      assert (Hlen : (j < length reqs)%nat) by (rewrite (proj1 Hstr); apply nth_error_Some; congruence).
      destruct (nth_error reqs j) as [q'|] eqn:Eq'; [|apply nth_error_None in Eq'; lia].
      destruct (proj2 Hstr _ _ Eq') as (s2 & rel2 & He2 & _ & Hc2).
      rewrite Hj' in He2. inversion He2; subst s2 rel2. simpl.
      pose proof (Hlat j q' Hj Eq') as Hne. rewrite Hc2, Hc, !cp_key_s2c in Hne. exact Hne. }
    pose proof (Hu m Hml) as U0.
    destruct Hp as (Hstore & Hrest). rewrite <- Hsame. unfold live_step in Hsame |- *. destruct rel; cbn [act_of].
    + apply (pinv_delete g0 rc _ s); [split; assumption|exact U0].
    + apply (pinv_update g0 rc _ s); [split; assumption|exact U0|]. rewrite Hsame. exact U0.
Qed.

Lemma head_delivery_store_gen fl evs reqs m d m' :
  stream_of evs reqs ->
  f_stale fl = true -> f_drop fl = false -> f_relall fl = false ->
  delivery_latest reqs m d m' ->
  forall rc, rc_store rc = expected_store (live_fold [] (firstn m evs)) ->
  rc_store (recv_run fl rc d) = expected_store (live_fold [] (firstn m' evs)).
Proof.
  intros Hstr Hs Hd Hr Hdel.
  induction Hdel as [m|m q d m' Hq Hdel IH|m k q d m' Hk Hq Hlat Hdel IH]; intros rc Hstore; [exact Hstore| |].
  - rewrite recv_run_cons. apply IH.
    destruct (proj2 Hstr _ _ Hq) as (s & rel & He & Ha & Hc).
    rewrite (firstn_snoc m evs _ He), live_fold_app, live_fold_one.
    apply (store_step_head fl rc q s rel _ Hs Hd Hr Ha Hc Hstore).
  - rewrite recv_run_cons. apply IH.
    destruct (proj2 Hstr _ _ Hq) as (s & rel & He & Ha & Hc).
    assert (Hsame : live_step (live_fold [] (firstn m evs)) s rel = live_fold [] (firstn m evs)).
    { apply (live_latest evs k m s rel He Hk). intros j [s' rel'] Hj Hj'.
      assert (Hlen : (j < length reqs)%nat) by (rewrite (proj1 Hstr); apply nth_error_Some; congruence).
      destruct (nth_error reqs j) as [q'|] eqn:Eq'; [|apply nth_error_None in Eq'; lia].
      destruct (proj2 Hstr _ _ Eq') as (s2 & rel2 & He2 & _ & Hc2).
      rewrite Hj' in He2. inversion He2; subst s2 rel2. simpl.
      pose proof (Hlat j q' Hj Eq') as Hne. rewrite Hc2, Hc, !cp_key_s2c in Hne. exact Hne. }
    rewrite <- Hsame. apply (store_step_head fl rc q s rel _ Hs Hd Hr Ha Hc Hstore).
Qed.


(* every event is for an SRG the sender is configured with *)
Definition accepted (sn : sender) (evs : list (session * bool)) : Prop :=
  forall e, In e evs -> s_srg (fst e) <> 0%N /\ aget N.eqb (s_srg (fst e)) sn <> None.

Lemma accepted_step sn g v evs : aget N.eqb g sn <> None -> accepted sn evs -> accepted (aset N.eqb g v sn) evs.
Proof.
  intros Hg H e He. destruct (H e He) as [A B]. split; [exact A|].
  rewrite (aget_aset N.eqb N.eqb_eq). destruct (N.eqb (s_srg (fst e)) g); [discriminate|exact B].
Qed.

Lemma sender_run_stream evs : forall sn, accepted sn evs -> stream_of evs (snd (sender_run sn evs)).
Proof.
  induction evs as [|[s rel] t IH]; intros sn Ha.
  - split; [reflexivity|]. intros [|j] q H; discriminate.
  - destruct (Ha (s, rel) (or_introl eq_refl)) as [H0 Hc]. cbn [fst] in H0, Hc.
    cbn [sender_run]. unfold sender_event. destruct (N.eqb_spec (s_srg s) 0); [contradiction|].
    destruct (aget N.eqb (s_srg s) sn) as [[seq b]|] eqn:E; [|contradiction].
    set (q := mkreq (s_srg s) (n64z (seq + 1)) (if rel then ADelete else AUpdate) (s2c s)).
    specialize (IH (aset N.eqb (s_srg s) (n64z (seq + 1), push b q) sn)
                   (accepted_step sn _ _ t ltac:(rewrite E; discriminate) (fun e He => Ha e (or_intror He)))).
    destruct (sender_run _ t) as [sn2 l]. cbn [snd] in *. destruct IH as [Hl Hn]. split; [simpl; rewrite Hl; reflexivity|].
    intros [|j] q' H; simpl in H.
    + inversion H; subst q'. exists s, rel. repeat split; destruct rel; reflexivity.
    + exact (Hn j q' H).
Qed.

(* independence at the sender: what SRG g's counter, backlog and substream look like does not depend on the events of
   the other SRGs *)
Definition evs_of (g : N) (evs : list (session * bool)) := filter (fun e => N.eqb (s_srg (fst e)) g) evs.

Lemma sender_run_srg g evs : forall sn seq b,
  g <> 0%N -> aget N.eqb g sn = Some (seq, b) -> (seq + N.of_nat (length (evs_of g evs)) < n64)%N ->
  sent_of g (snd (sender_run sn evs)) = reqs_from g seq (evs_of g evs) /\
  aget N.eqb g (fst (sender_run sn evs)) =
    Some ((seq + N.of_nat (length (evs_of g evs)))%N, fold_left push (reqs_from g seq (evs_of g evs)) b).
Proof.
  induction evs as [|[s rel] t IH]; intros sn seq b Hg Hget Hlt.
  - simpl. rewrite N.add_0_r. auto.
  - cbn [sender_run evs_of filter fst]. fold (evs_of g t). unfold sender_event.
    destruct (N.eqb_spec (s_srg s) g) as [Es|Es].
    + (* an event of g *)
      rewrite Es. destruct (N.eqb_spec g 0); [contradiction|]. rewrite Hget.
      cbn [evs_of filter fst length] in Hlt. rewrite Es, N.eqb_refl in Hlt. fold (evs_of g t) in Hlt. cbn [length] in Hlt.
      assert (Hseq : n64z (seq + 1) = (seq + 1)%N) by (unfold n64z; apply N.mod_small; lia).
      rewrite Hseq.
      specialize (IH (aset N.eqb g ((seq + 1)%N, push b (mkreq g (seq + 1) (if rel then ADelete else AUpdate) (s2c s))) sn)
                     (seq + 1)%N (push b (mkreq g (seq + 1) (if rel then ADelete else AUpdate) (s2c s))) Hg).
      rewrite (aget_aset N.eqb N.eqb_eq), N.eqb_refl in IH. specialize (IH eq_refl ltac:(lia)).
      destruct (sender_run _ t) as [sn2 l]. cbn [fst snd] in *. destruct IH as [I1 I2].
      cbn [sent_of filter q_srg]. rewrite N.eqb_refl. fold (sent_of g l). cbn [reqs_from length fold_left]. unfold act_of. split.
      * rewrite I1. reflexivity.
      * rewrite I2. f_equal. f_equal. lia.
    + (* an event of another SRG, or an ignored one *)
      cbn [evs_of filter fst] in Hlt. destruct (N.eqb_spec (s_srg s) g) as [|_]; [contradiction|]. fold (evs_of g t) in Hlt.
      destruct (N.eqb_spec (s_srg s) 0) as [E0|E0].
      * specialize (IH sn seq b Hg Hget Hlt). destruct (sender_run sn t) as [sn2 l]. exact IH.
      * destruct (aget N.eqb (s_srg s) sn) as [[seq' b']|] eqn:E'.
        -- specialize (IH (aset N.eqb (s_srg s) (n64z (seq' + 1), push b' (mkreq (s_srg s) (n64z (seq' + 1))
                              (if rel then ADelete else AUpdate) (s2c s))) sn) seq b Hg).
           rewrite (aget_aset N.eqb N.eqb_eq) in IH.
           destruct (N.eqb_spec g (s_srg s)) as [Eg|_]; [congruence|]. specialize (IH Hget Hlt).
           destruct (sender_run _ t) as [sn2 l]. cbn [fst snd] in *. destruct IH as [I1 I2].
           cbn [sent_of filter q_srg]. destruct (N.eqb_spec (s_srg s) g); [contradiction|]. auto.
        -- specialize (IH sn seq b Hg Hget Hlt). destruct (sender_run sn t) as [sn2 l]. exact IH.
Qed.

Lemma converges_head_multi g0 sn fl evs d :
  f_stale fl = true -> f_drop fl = false -> f_relall fl = false -> accepted sn evs ->
  let reqs := snd (sender_run sn evs) in
  delivery_latest reqs 0 d (length reqs) ->
  rc_store (recv_run fl (mkrecv [] [] g0) d) = expected_store (live_run evs).
Proof.
  intros Hs Hd Hr Ha reqs Hdel. unfold reqs in *.
  pose proof (sender_run_stream evs sn Ha) as Hst.
  rewrite (head_delivery_store_gen fl evs _ 0 d _ Hst Hs Hd Hr Hdel (mkrecv [] [] g0) eq_refl).
  rewrite (proj1 Hst), firstn_all. reflexivity.
Qed.

Lemma pools_exact_head_multi g0 sn fl evs d :
  f_stale fl = true -> f_drop fl = false -> f_relall fl = false -> accepted sn evs ->
  fresh g0 -> (forall i, (i <= length evs)%nat -> uniq g0 (live_run (firstn i evs))) ->
  let reqs := snd (sender_run sn evs) in
  delivery_latest reqs 0 d (length reqs) ->
  forall x sid, lease_at (rc_reg (recv_run fl (mkrecv [] [] g0) d)) x = Some sid <->
                In (x, sid) (expected_leases g0 (live_run evs)).
Proof.
  intros Hs Hd Hr Ha Hf Hu reqs Hdel x sid. unfold reqs in *.
  pose proof (sender_run_stream evs sn Ha) as Hst.
  rewrite <- owner_expected.
  pose proof (head_delivery_gen g0 fl evs _ 0 d _ Hst Hs Hd Hr Hdel Hu (mkrecv [] [] g0) ltac:(lia)
                (pinv_fresh g0 Hf)) as (_ & _ & _ & Hl).
  rewrite (proj1 Hst), firstn_all in Hl. apply Hl.
Qed.

(* ================================================================== *)
(* 11. the free lists: what is reserved cannot be handed out            *)
(* ================================================================== *)
Definition alloc_ok (al : alloc) : Prop :=
  NoDup (a_free al) /\ forall k, In k (a_free al) -> aget N.eqb k (a_leases al) = None.

Lemma in_remove_first a x l : In x (remove_first a l) -> In x l.
Proof. induction l as [|h r IH]; simpl; [tauto|]. destruct (N.eqb h a); simpl; [auto|]. intros [H|H]; auto. Qed.
Lemma remove_first_nodup a l : NoDup l -> NoDup (remove_first a l) /\ ~ In a (remove_first a l).
Proof.
  induction l as [|h r IH]; simpl; intros H; [split; [constructor|tauto]|]. inversion H as [|? ? Hn Hd]; subst.
  destruct (N.eqb_spec h a) as [->|Hne]; [split; assumption|].
  destruct (IH Hd) as [A B]. split.
  - constructor; [intros Hin; apply Hn, (in_remove_first a h r Hin)|exact A].
  - simpl. intros [E|E]; [contradiction|exact (B E)].
Qed.

Lemma nodup_snoc {A} (l : list A) x : NoDup l -> ~ In x l -> NoDup (l ++ [x]).
Proof.
  induction l as [|h r IH]; simpl; intros Hn Hx; [constructor; [tauto|constructor]|]. inversion Hn as [|? ? Hnh Hnr]; subst.
  constructor; [rewrite in_app_iff; simpl; intros [H|[H|[]]]; [contradiction|subst; tauto]|apply IH; tauto].
Qed.

Lemma a_reserve_ok al k sid : alloc_ok al -> alloc_ok (a_reserve al k sid).
Proof.
  intros [Hn Hf]. unfold a_reserve. destruct (aget N.eqb k (a_leases al)) eqn:E; [split; assumption|].
  destruct (remove_first_nodup k _ Hn) as [A B]. split; [exact A|]. cbn [a_free a_leases].
  intros k' Hk'. rewrite (aget_aset N.eqb N.eqb_eq).
  destruct (N.eqb_spec k' k) as [->|_]; [contradiction|]. apply Hf, (in_remove_first k k' _ Hk').
Qed.

Lemma a_release_ok al k back : alloc_ok al -> alloc_ok (a_release al k back).
Proof.
  intros [Hn Hf]. unfold a_release. destruct (aget N.eqb k (a_leases al)) as [o|] eqn:E; [|split; assumption].
  assert (Hk : ~ In k (a_free al)) by (intros Hin; rewrite (Hf k Hin) in E; discriminate).
  cbn [a_free a_leases]. split.
  - destruct back; [apply nodup_snoc; assumption|exact Hn].
  - intros k' Hk'. simpl. simpl in Hk'. rewrite (aget_adel N.eqb N.eqb_eq). destruct (N.eqb_spec k' k); [reflexivity|].
    apply Hf. destruct back; [apply in_app_or in Hk'; destruct Hk' as [H|[H|[]]]; [exact H|congruence]|exact Hk'].
Qed.

Definition reg_ok (g : registry) : Prop :=
  (forall np, In np (g_v4 g) -> alloc_ok (p_al (snd np))) /\
  (forall np, In np (g_na g) -> alloc_ok (p_al (snd np))) /\
  (forall np, In np (g_pd g) -> alloc_ok (d_al (snd np))).

Lemma upd_pool_ok pools n f :
  (forall np, In np pools -> alloc_ok (p_al (snd np))) -> (forall p, alloc_ok (p_al p) -> alloc_ok (f p)) ->
  forall np, In np (upd_pool pools n f) -> alloc_ok (p_al (snd np)).
Proof.
  intros H Hf np Hin. unfold upd_pool in Hin. apply in_map_iff in Hin. destruct Hin as ([n0 p0] & E & Hin).
  cbn [fst snd] in E. destruct (N.eqb n0 n); subst np; cbn [snd p_al]; [apply Hf, (H _ Hin)|apply (H _ Hin)].
Qed.
Lemma upd_pd_ok pools n f :
  (forall np, In np pools -> alloc_ok (d_al (snd np))) -> (forall d, alloc_ok (d_al d) -> alloc_ok (f d)) ->
  forall np, In np (upd_pd pools n f) -> alloc_ok (d_al (snd np)).
Proof.
  intros H Hf np Hin. unfold upd_pd in Hin. apply in_map_iff in Hin. destruct Hin as ([n0 p0] & E & Hin).
  cbn [fst snd] in E. destruct (N.eqb n0 n); subst np; cbn [snd d_al]; [apply Hf, (H _ Hin)|apply (H _ Hin)].
Qed.

Lemma d_reserve_ok d p sid : alloc_ok (d_al d) -> alloc_ok (d_reserve d p sid).
Proof. intros H. unfold d_reserve. destruct (prefix_to_index d (fst p) (snd p)); [apply a_reserve_ok, H|exact H]. Qed.
Lemma d_release_ok d p : alloc_ok (d_al d) -> alloc_ok (d_release d p).
Proof. intros H. unfold d_release. destruct (prefix_to_index d (fst p) (snd p)); [apply a_release_ok, H|exact H]. Qed.

Lemma reserve_cp_ok g c : reg_ok g -> reg_ok (reserve_cp g c).
Proof.
  intros (H4 & H6 & H7). unfold reserve_cp, reg_ok. cbn [g_v4 g_na g_pd]. split; [|split].
  - destruct (c_v4 c); [|exact H4]. unfold reserve_v. destruct (resolve_v _ _ _); [|exact H4].
    apply upd_pool_ok; [exact H4|intros p Hp; apply a_reserve_ok, Hp].
  - destruct (c_v6 c); [|exact H6]. unfold reserve_v. destruct (resolve_v _ _ _); [|exact H6].
    apply upd_pool_ok; [exact H6|intros p Hp; apply a_reserve_ok, Hp].
  - destruct (c_pd c) as [p|]; [|exact H7]. destruct (N.ltb 0 (snd p)); [|exact H7].
    unfold reserve_d. destruct (resolve_d _ _ _); [|exact H7].
    apply upd_pd_ok; [exact H7|intros d Hd; apply d_reserve_ok, Hd].
Qed.

Lemma release_v_all_ok pools a : (forall np, In np pools -> alloc_ok (p_al (snd np))) ->
  forall np, In np (release_v_all pools a) -> alloc_ok (p_al (snd np)).
Proof.
  intros H np Hin. unfold release_v_all in Hin. apply in_map_iff in Hin. destruct Hin as ([n0 p0] & E & Hin).
  subst np. cbn [snd p_al]. apply a_release_ok, (H _ Hin).
Qed.

Lemma release_cp_ok fl g c : reg_ok g -> reg_ok (release_cp fl g c).
Proof.
  intros (H4 & H6 & H7). unfold release_cp, reg_ok. cbn [g_v4 g_na g_pd]. split; [|split].
  - destruct (c_v4 c); [|exact H4]. destruct (f_relall fl); [apply release_v_all_ok, H4|].
    unfold release_v. destruct (resolve_v _ _ _); [|exact H4].
    apply upd_pool_ok; [exact H4|intros p Hp; apply a_release_ok, Hp].
  - destruct (c_v6 c); [|exact H6]. destruct (f_relall fl); [apply release_v_all_ok, H6|].
    unfold release_v. destruct (resolve_v _ _ _); [|exact H6].
    apply upd_pool_ok; [exact H6|intros p Hp; apply a_release_ok, Hp].
  - destruct (c_pd c) as [p|]; [|exact H7]. destruct (N.ltb 0 (snd p)); [|exact H7].
    destruct (f_relall fl).
    + unfold release_d_first. destruct (find _ _); [|exact H7].
      apply upd_pd_ok; [exact H7|intros d Hd; apply d_release_ok, Hd].
    + unfold release_d. destruct (resolve_d _ _ _); [|exact H7].
      apply upd_pd_ok; [exact H7|intros d Hd; apply d_release_ok, Hd].
Qed.

Lemma recv_step_ok fl rc q : reg_ok (rc_reg rc) -> reg_ok (rc_reg (recv_step fl rc q)).
Proof.
  intros H. unfold recv_step. destruct (negb (f_stale fl) && N.leb (q_seq q) (last_of rc (q_srg q))); [exact H|].
  destruct (q_act q); unfold recv_update, recv_delete; cbn [rc_reg rc_store];
    repeat match goal with
           | |- reg_ok (reserve_cp _ _) => apply reserve_cp_ok
           | |- reg_ok (release_cp _ _ _) => apply release_cp_ok
           | |- reg_ok (if ?b then _ else _) => destruct b
           | |- reg_ok (match ?x with Some _ => _ | None => _ end) => destruct x
           end; exact H.
Qed.

Lemma recv_run_ok fl d : forall rc, reg_ok (rc_reg rc) -> reg_ok (rc_reg (recv_run fl rc d)).
Proof. induction d as [|q r IH]; intros rc H; [exact H|]. rewrite recv_run_cons. apply IH, recv_step_ok, H. Qed.

(* a reserved address / prefix index is not on its pool's free list *)
Definition free_at (g : registry) (f p : N) : list N :=
  if N.eqb f 4 then match aget N.eqb p (g_v4 g) with Some pl => a_free (p_al pl) | None => [] end
  else if N.eqb f 6 then match aget N.eqb p (g_na g) with Some pl => a_free (p_al pl) | None => [] end
  else if N.eqb f 7 then match aget N.eqb p (g_pd g) with Some d => a_free (d_al d) | None => [] end
  else [].

Lemma aget_in_list {V} n (l : list (N * V)) v : aget N.eqb n l = Some v -> In (n, v) l.
Proof.
  induction l as [|[n0 v0] r IH]; simpl; [discriminate|].
  destruct (N.eqb_spec n n0); [intros E; inversion E; subst; auto|auto].
Qed.

Lemma leased_not_free g f p k sid : reg_ok g -> lease_at g (f, p, k) = Some sid -> ~ In k (free_at g f p).
Proof.
  intros (H4 & H6 & H7). unfold lease_at, free_at, lease_v, lease_d.
  destruct (N.eqb f 4).
  { destruct (aget N.eqb p (g_v4 g)) as [pl|] eqn:E; [|discriminate]. intros Hl Hin.
    destruct (H4 _ (aget_in_list _ _ _ E)) as [_ Hf]. cbn [snd] in Hf. rewrite (Hf k Hin) in Hl. discriminate. }
  destruct (N.eqb f 6).
  { destruct (aget N.eqb p (g_na g)) as [pl|] eqn:E; [|discriminate]. intros Hl Hin.
    destruct (H6 _ (aget_in_list _ _ _ E)) as [_ Hf]. cbn [snd] in Hf. rewrite (Hf k Hin) in Hl. discriminate. }
  destruct (N.eqb f 7); [|discriminate].
  destruct (aget N.eqb p (g_pd g)) as [d|] eqn:E; [|discriminate]. intros Hl Hin.
  destruct (H7 _ (aget_in_list _ _ _ E)) as [_ Hf]. cbn [snd] in Hf. rewrite (Hf k Hin) in Hl. discriminate.
Qed.

Lemma reserved_not_free fl g0 d l st f p k sid :
  reg_ok g0 -> lease_at (rc_reg (recv_run fl (mkrecv l st g0) d)) (f, p, k) = Some sid ->
  ~ In k (free_at (rc_reg (recv_run fl (mkrecv l st g0) d)) f p).
Proof. intros H. apply leased_not_free. apply recv_run_ok. exact H. Qed.

(* registries built by the constructors are fine *)
Lemma nseq_lt a n x : In x (nseq a n) -> (a <= x)%N.
Proof. revert a; induction n as [|n IH]; simpl; intros a; [tauto|]. intros [<-|H]; [lia|]. apply IH in H. lia. Qed.
Lemma nseq_nodup a n : NoDup (nseq a n).
Proof. revert a; induction n as [|n IH]; simpl; intros a; constructor; [|apply IH]. intros H. apply nseq_lt in H. lia. Qed.
Lemma mk_pool_ok rs re ex : alloc_ok (p_al (mk_pool rs re ex)).
Proof.
  unfold mk_pool. cbn [p_al]. split; [|reflexivity]. cbn [a_free]. apply NoDup_rev. apply NoDup_filter.
  destruct (N.ltb re rs); [constructor|apply nseq_nodup].
Qed.
Lemma mk_pd_ok net nb pl : alloc_ok (d_al (mk_pd net nb pl)).
Proof. unfold mk_pd. cbn [d_al]. split; [|reflexivity]. cbn [a_free]. apply NoDup_rev, nseq_nodup. Qed.

(* ================================================================== *)
(* 12. range replays on the repaired receiver                           *)
(* ================================================================== *)
(* a gap-free run that starts at or before the first undelivered message is a sequence of duplicates followed by new
   messages: delivery_runs is a special case of delivery *)
Lemma run_is_delivery reqs d m' : forall n i m,
  (i <= m)%nat -> (m <= i + n)%nat -> (i + n <= length reqs)%nat ->
  delivery reqs (i + n) d m' -> delivery reqs m (firstn n (skipn i reqs) ++ d) m'.
Proof.
  induction n as [|n IH]; intros i m Him Hmn Hlen Hd.
  - rewrite Nat.add_0_r in *. replace m with i by lia. exact Hd.
  - destruct (nth_error reqs i) as [q|] eqn:Eq; [|apply nth_error_None in Eq; lia].
    rewrite (skipn_cons_nth i reqs q Eq). cbn [firstn app].
    replace (i + S n)%nat with (S i + n)%nat in Hd by lia.
    destruct (Nat.eq_dec i m) as [->|Hne].
    + apply dl_next; [exact Eq|]. apply IH; try lia. exact Hd.
    + apply (dl_dup reqs m i); [lia|exact Eq|]. apply IH; try lia. exact Hd.
Qed.

Lemma runs_are_deliveries reqs m d m' : delivery_runs reqs m d m' -> delivery reqs m d m'.
Proof.
  induction 1 as [m|m a b d m' Ha Hb Hlen Hd IH]; [apply dl_nil|].
  apply (run_is_delivery reqs d m' (b - a) a m); try lia. replace (a + (b - a))%nat with b by lia. exact IH.
Qed.

Lemma pools_exact_replays g0 cap g evs d :
  g <> 0%N -> (forall e, In e evs -> s_srg (fst e) = g) -> (N.of_nat (length evs) < n64)%N ->
  fresh g0 ->
  (forall i, (i <= length evs)%nat -> uniq g0 (live_run (firstn i evs))) ->
  let reqs := snd (sender_run [(g, (0%N, new_ring cap))] evs) in
  delivery_runs reqs 0 d (length reqs) ->
  rc_store (recv_run repaired (mkrecv [] [] g0) d) = expected_store (live_run evs) /\
  forall x sid, lease_at (rc_reg (recv_run repaired (mkrecv [] [] g0) d)) x = Some sid <->
                In (x, sid) (expected_leases g0 (live_run evs)).
Proof.
  intros Hg Hall Hlt Hf Hu reqs Hd. apply runs_are_deliveries in Hd. split.
  - exact (proj1 (converges_store g0 cap g evs d Hg Hall Hlt Hd)).
  - exact (pools_exact g0 cap g evs d Hg Hall Hlt Hf Hu Hd).
Qed.

(* ================================================================== *)
(* 13. /repo HEAD's receiver under ANY delivery: no orphan reservation   *)
(* ================================================================== *)
(* every reservation is backed by a stored checkpoint that claims it, with that owner *)
Definition backed (g0 : registry) (rc : receiver) : Prop :=
  NoDup (map fst (rc_store rc)) /\
  (forall c', resv_cp (rc_reg rc) c' = resv_cp g0 c') /\
  forall x sid, lease_at (rc_reg rc) x = Some sid ->
    exists k c, In (k, c) (rc_store rc) /\ In (x, sid) (resv_cp g0 c).

Lemma claimed_false_notin g c x : claimed g c x = false -> ~ In x (claims g c).
Proof. intros H Hin. apply claimed_in in Hin. congruence. Qed.

Lemma backed_release g0 rc k : backed g0 rc ->
  let g1 := match aget keyeqb k (rc_store rc) with
            | Some old => release_cp repaired (rc_reg rc) old | None => rc_reg rc end in
  (forall c', resv_cp g1 c' = resv_cp g0 c') /\
  forall x sid, lease_at g1 x = Some sid ->
    exists k' c, k' <> k /\ In (k', c) (rc_store rc) /\ In (x, sid) (resv_cp g0 c).
Proof.
  intros (Hn & Hgeo & Hb). cbv zeta.
  destruct (aget keyeqb k (rc_store rc)) as [old|] eqn:E.
  - split; [intros c'; rewrite resv_release; apply Hgeo|].
    intros x sid Hl. rewrite lease_at_release_cp in Hl.
    destruct (claimed (rc_reg rc) old x) eqn:C; [discriminate|].
    destruct (Hb x sid Hl) as (k' & c & Hin & Hx). exists k', c. split; [|auto].
    intros ->. apply (aget_in keyeqb keyeqb_eq _ _ _ Hn) in Hin. rewrite E in Hin. inversion Hin; subst c.
    apply claimed_false_notin in C. apply C. rewrite (claims_geo _ g0 _ Hgeo). unfold claims.
    apply in_map_iff. exists (x, sid). auto.
  - split; [exact Hgeo|]. intros x sid Hl. destruct (Hb x sid Hl) as (k' & c & Hin & Hx). exists k', c. split; [|auto].
    intros ->. exact (aget_none keyeqb keyeqb_eq _ _ E c Hin).
Qed.

Lemma backed_update g0 rc c l : backed g0 rc -> backed g0 (recv_update repaired (mkrecv l (rc_store rc) (rc_reg rc)) c).
Proof.
  intros Hb. pose proof (backed_release g0 rc (cp_key c) Hb) as [Hg1 Hl1]. destruct Hb as (Hn & Hgeo & _).
  unfold recv_update. cbn [f_drop repaired rc_store rc_reg]. unfold backed. cbn [rc_store rc_reg].
  split; [apply (nodup_aset keyeqb keyeqb_eq), Hn|]. split; [intros c'; rewrite resv_reserve; apply Hg1|].
  intros x sid Hl. rewrite lease_at_reserve_cp in Hl.
  match type of Hl with context [claimed ?G c x] => set (g1 := G) in * end.
  destruct (claimed g1 c x) eqn:C.
  - destruct (lease_at g1 x) as [o|] eqn:El.
    + inversion Hl; subst o. destruct (Hl1 x sid El) as (k' & c0 & Hne & Hin & Hx). exists k', c0. split; [|exact Hx].
      apply (in_aset keyeqb keyeqb_eq _ _ _ _ _ Hn). right. auto.
    + inversion Hl; subst sid. exists (cp_key c), c. split.
      * apply (in_aset keyeqb keyeqb_eq _ _ _ _ _ Hn). left. auto.
      * apply claimed_in in C. rewrite (claims_geo g1 g0 _ Hg1) in C. apply claims_in, C.
  - destruct (Hl1 x sid Hl) as (k' & c0 & Hne & Hin & Hx). exists k', c0. split; [|exact Hx].
    apply (in_aset keyeqb keyeqb_eq _ _ _ _ _ Hn). right. auto.
Qed.

Lemma backed_delete g0 rc c l : backed g0 rc -> backed g0 (recv_delete repaired (mkrecv l (rc_store rc) (rc_reg rc)) c).
Proof.
  intros Hb. pose proof (backed_release g0 rc (cp_key c) Hb) as [Hg1 Hl1]. destruct Hb as (Hn & Hgeo & _).
  unfold recv_delete. cbn [f_drop repaired rc_store rc_reg]. unfold backed. cbn [rc_store rc_reg].
  split; [apply (nodup_adel keyeqb keyeqb_eq), Hn|]. split; [exact Hg1|].
  intros x sid Hl. destruct (Hl1 x sid Hl) as (k' & c0 & Hne & Hin & Hx). exists k', c0. split; [|exact Hx].
  apply (in_adel keyeqb keyeqb_eq). auto.
Qed.

Lemma backed_step g0 fl rc q : f_drop fl = false -> f_relall fl = false -> backed g0 rc -> backed g0 (recv_step fl rc q).
Proof.
  intros Hd Hr Hb. unfold recv_step.
  destruct (negb (f_stale fl) && N.leb (q_seq q) (last_of rc (q_srg q))); [exact Hb|].
  destruct (q_act q); rewrite ?recv_update_head, ?recv_delete_head by assumption;
    [apply (backed_update g0 rc)|apply (backed_delete g0 rc)|apply (backed_update g0 rc)]; exact Hb.
Qed.

Lemma backed_run g0 fl d : f_drop fl = false -> f_relall fl = false ->
  forall rc, backed g0 rc -> backed g0 (recv_run fl rc d).
Proof.
  intros Hd Hr. induction d as [|q r IH]; intros rc Hb; [exact Hb|]. rewrite recv_run_cons. apply IH, backed_step; assumption.
Qed.

Lemma backed_fresh g0 : fresh g0 -> backed g0 (mkrecv [] [] g0).
Proof. intros Hf. split; [constructor|]. split; [reflexivity|]. intros x sid H. simpl in H. rewrite Hf in H. discriminate. Qed.

(* range replays on /repo HEAD: whatever is reserved in the end belongs to a live session (nothing leaks) *)
Lemma pools_sound_replays g0 cap g fl evs d :
  f_stale fl = true -> f_drop fl = false -> f_relall fl = false ->
  g <> 0%N -> (forall e, In e evs -> s_srg (fst e) = g) -> (N.of_nat (length evs) < n64)%N ->
  fresh g0 ->
  let reqs := snd (sender_run [(g, (0%N, new_ring cap))] evs) in
  delivery_runs reqs 0 d (length reqs) ->
  forall x sid, lease_at (rc_reg (recv_run fl (mkrecv [] [] g0) d)) x = Some sid ->
                In (x, sid) (expected_leases g0 (live_run evs)).
Proof.
  intros Hs Hd Hr Hg Hall Hlt Hf reqs Hdel x sid Hl.
  pose proof (backed_run g0 fl d Hd Hr _ (backed_fresh g0 Hf)) as (Hn & _ & Hb).
  destruct (Hb x sid Hl) as (k & c & Hin & Hx).
  pose proof (converges_store_replays g0 cap g fl evs d Hs Hg Hall Hlt Hdel k) as Hk.
  apply (aget_in keyeqb keyeqb_eq _ _ _ Hn) in Hin. rewrite Hin in Hk. symmetry in Hk.
  unfold expected_store in Hk. rewrite aget_map in Hk.
  destruct (aget keyeqb k (live_run evs)) as [s|] eqn:El; [|discriminate]. inversion Hk; subst c.
  unfold expected_leases. apply in_flat_map. exists (k, s). split; [|exact Hx].
  assert (Hok : live_ok (live_run evs)) by (apply (live_ok_fold evs []); split; [constructor|intros ? ? []]).
  apply (aget_in keyeqb keyeqb_eq _ _ _ (proj1 Hok)). exact El.
Qed.
