(* C11/Proofs.v — lemmas about the model in Model.v *)
From OV Require Import Common.Base C11.Model.
From Coq Require Import ZifyBool ZifyNat ZifyN.

Lemma push_cap b q : r_cap (push b q) = r_cap b.
Proof. reflexivity. Qed.
