(* C11/Proofs.v — lemmas about the model in Model.v *)
From OV Require Import Common.Base C11.Model.
From Coq Require Import ZifyBool ZifyNat ZifyN.
Ltac Zify.zify_post_hook ::= Z.div_mod_to_equations.

(* ================================================================== *)
(* 1. the backlog ring                                                 *)
(* ================================================================== *)

Lemma mod_lt2 a c : (0 < c)%nat -> (a < 2 * c)%nat -> (a mod c = if a <? c then a else a - c)%nat.
Proof.
  intros Hc Ha. destruct (Nat.ltb_spec a c) as [H|H].
  - apply Nat.mod_small; exact H.
  - replace a with ((a - c) + 1 * c)%nat at 1 by lia.
    rewrite Nat.mod_add by lia. apply Nat.mod_small; lia.
Qed.

Lemma list_set_length {A} (l : list A) i x : length (list_set l i x) = length l.
Proof. revert i; induction l as [|h r IH]; intros [|i]; simpl; auto. Qed.

Lemma list_set_nth_eq {A} (l : list A) i x : (i < length l)%nat -> nth_error (list_set l i x) i = Some x.
Proof. revert i; induction l as [|h r IH]; intros [|i]; simpl; intros H; try lia; auto. apply IH; lia. Qed.

Lemma list_set_nth_neq {A} (l : list A) i j x : i <> j -> nth_error (list_set l i x) j = nth_error l j.
Proof.
  revert i j; induction l as [|h r IH]; intros [|i] [|j]; simpl; intros H; try reflexivity; try lia.
  apply IH; lia.
Qed.

(* the retained entries, oldest first *)
Definition retain (c : nat) (l : list req) (q : req) : list req :=
  if (length l <? c)%nat then l ++ [q] else tl l ++ [q].

(* representation invariant: ring b of capacity c holds exactly the list l, oldest first *)
Definition ring_inv (c : nat) (b : ring) (l : list req) : Prop :=
  r_cap b = c /\ (0 < c)%nat /\ length (r_entries b) = c /\ (r_head b < c)%nat /\
  r_size b = length l /\ (length l <= c)%nat /\
  forall j, (j < length l)%nat ->
    nth_error (r_entries b) ((r_head b + c - length l + j) mod c) = nth_error (map Some l) j.

Lemma repeat_nth {A} (x : A) n i : (i < n)%nat -> nth_error (repeat x n) i = Some x.
Proof. revert i; induction n; intros [|i] H; simpl; try lia; auto. apply IHn; lia. Qed.

Lemma new_ring_inv cap : (0 < cap)%Z -> ring_inv (Z.to_nat cap) (new_ring cap) [].
Proof.
  intros H. unfold new_ring. destruct (Z.leb_spec cap 0); [lia|].
  unfold ring_inv; simpl. rewrite repeat_length. repeat split; try lia.
Qed.

Lemma push_inv c b l q : ring_inv c b l -> ring_inv c (push b q) (retain c l q).
Proof.
  intros (Hcap & Hc & Hlen & Hh & Hsz & Hle & Hnth).
  unfold ring_inv, push, retain; simpl. rewrite Hcap, Hsz, list_set_length.
  assert (Hh' : ((r_head b + 1) mod c = if (r_head b + 1 <? c)%nat then r_head b + 1 else 0)%nat).
  { rewrite mod_lt2 by lia. destruct (Nat.ltb_spec (r_head b + 1) c); lia. }
  destruct (Nat.ltb_spec (length l) c) as [Hlt|Hge].
  - (* not full: append *)
    rewrite app_length; simpl.
    repeat split; try lia; try (rewrite Hh'; destruct (Nat.ltb_spec (r_head b + 1) c); lia).
    { intros j Hj. rewrite map_app; simpl.
      assert (Hidx : (((r_head b + 1) mod c + c - (length l + 1) + j) mod c = (r_head b + c - length l + j) mod c)%nat).
      { rewrite Hh'. destruct (Nat.ltb_spec (r_head b + 1) c).
        - f_equal; lia.
        - replace (0 + c - (length l + 1) + j)%nat with (c - length l - 1 + j)%nat by lia.
          replace (r_head b + c - length l + j)%nat with ((c - length l - 1 + j) + 1 * c)%nat by lia.
          rewrite Nat.mod_add by lia. reflexivity. }
      rewrite Hidx.
      destruct (Nat.eq_dec j (length l)) as [->|Hne].
      * replace (r_head b + c - length l + length l)%nat with (r_head b + 1 * c)%nat by lia.
        rewrite Nat.mod_add, Nat.mod_small by lia.
        rewrite list_set_nth_eq by lia.
        rewrite nth_error_app2 by (rewrite map_length; lia). rewrite map_length, Nat.sub_diag. reflexivity.
      * rewrite list_set_nth_neq.
        -- rewrite Hnth by lia. rewrite nth_error_app1 by (rewrite map_length; lia). reflexivity.
        -- rewrite mod_lt2 by lia. destruct (Nat.ltb_spec (r_head b + c - length l + j) c); lia. }
  - (* full: the oldest entry is overwritten *)
    assert (Hl : length l = c) by lia.
    destruct l as [|q0 l']; [simpl in *; lia|]. simpl tl. simpl in Hl.
    rewrite app_length; simpl.
    repeat split; try lia; try (rewrite Hh'; destruct (Nat.ltb_spec (r_head b + 1) c); lia).
    { intros j Hj. rewrite map_app; simpl.
      assert (Hidx : (((r_head b + 1) mod c + c - (length l' + 1) + j) mod c = (r_head b + 1 + j) mod c)%nat).
      { rewrite Hh'. destruct (Nat.ltb_spec (r_head b + 1) c).
        - replace (r_head b + 1 + c - (length l' + 1) + j)%nat with (r_head b + 1 + j)%nat by lia. reflexivity.
        - replace (0 + c - (length l' + 1) + j)%nat with j by lia.
          replace (r_head b + 1 + j)%nat with (j + 1 * c)%nat by lia. rewrite Nat.mod_add by lia. reflexivity. }
      rewrite Hidx.
      destruct (Nat.eq_dec j (length l')) as [->|Hne].
      * replace (r_head b + 1 + length l')%nat with (r_head b + 1 * c)%nat by lia.
        rewrite Nat.mod_add, Nat.mod_small by lia.
        rewrite list_set_nth_eq by lia.
        rewrite nth_error_app2 by (rewrite map_length; lia). rewrite map_length, Nat.sub_diag. reflexivity.
      * rewrite list_set_nth_neq.
        -- specialize (Hnth (S j)). simpl in Hnth.
           replace (r_head b + c - S (length l') + S j)%nat with (r_head b + 1 + j)%nat in Hnth by lia.
           rewrite Hnth by lia. rewrite nth_error_app1 by (rewrite map_length; lia). reflexivity.
        -- rewrite mod_lt2 by lia. destruct (Nat.ltb_spec (r_head b + 1 + j) c); lia. }
Qed.

(* the list retained after pushing qs in order *)
Definition retained (c : nat) (qs : list req) : list req := fold_left (retain c) qs [].

Lemma pushes_inv c b l qs : ring_inv c b l -> ring_inv c (fold_left push qs b) (fold_left (retain c) qs l).
Proof. revert b l; induction qs as [|q qs IH]; simpl; intros b l H; [exact H|]. apply IH, push_inv, H. Qed.

Lemma retained_is_suffix c qs : (0 < c)%nat -> retained c qs = skipn (length qs - c) qs.
Proof.
  intros Hc. unfold retained.
  assert (G : forall qs l pre, l = skipn (length pre - c) pre ->
            fold_left (retain c) qs l = skipn (length (pre ++ qs) - c) (pre ++ qs)).
  { clear qs. induction qs as [|q qs IH]; intros l pre Hl; simpl.
    - rewrite app_nil_r. exact Hl.
    - replace (pre ++ q :: qs) with ((pre ++ [q]) ++ qs) by (rewrite <- app_assoc; reflexivity).
      apply IH. subst l. unfold retain. rewrite skipn_length, app_length; simpl.
      destruct (Nat.ltb_spec (length pre - (length pre - c)) c) as [H|H].
      + replace (length pre - c)%nat with 0%nat by lia. replace (length pre + 1 - c)%nat with 0%nat by lia.
        reflexivity.
      + replace (length pre + 1 - c)%nat with (S (length pre - c)) by lia.
        rewrite skipn_app. replace (S (length pre - c) - length pre)%nat with 0%nat by lia. simpl skipn at 2.
        f_equal. clear IH. generalize (length pre - c)%nat as k. intros k.
        assert (K : forall (A : Type) k (l : list A), tl (skipn k l) = skipn (S k) l).
        { intros A k0; induction k0; intros [|x r]; simpl; auto. apply (IHk0 r). }
        apply K. }
  specialize (G qs [] [] eq_refl). simpl in G. exact G.
Qed.

Lemma nth_error_skipn {A} k (l : list A) j : nth_error (skipn k l) j = nth_error l (k + j).
Proof. revert l; induction k; intros [|x r]; simpl; auto. destruct j; reflexivity. Qed.
Lemma nth_error_firstn {A} n (l : list A) j : (j < n)%nat -> nth_error (firstn n l) j = nth_error l j.
Proof. revert l j; induction n; intros [|x r] [|j] H; simpl; auto; try lia. apply IHn; lia. Qed.

(* ---------- consecutive sequence numbers ---------- *)
Definition consec (first : Z) (l : list req) : Prop :=
  forall j q, nth_error l j = Some q -> Z.of_N (q_seq q) = (first + Z.of_nat j)%Z.

Lemma consec_skipn first l k : consec first l -> consec (first + Z.of_nat k) (skipn k l).
Proof.
  intros H j q Hq. rewrite nth_error_skipn in Hq. apply H in Hq. lia.
Qed.

Definition in_range (from to : Z) (q : req) : bool :=
  ((from <=? Z.of_N (q_seq q)) && (Z.of_N (q_seq q) <=? to))%Z.

Lemma filter_none {A} (P : A -> bool) l : (forall x, In x l -> P x = false) -> filter P l = [].
Proof. induction l as [|x l IH]; simpl; intros H; [reflexivity|]. rewrite (H x) by auto. apply IH; auto. Qed.
Lemma filter_all {A} (P : A -> bool) l : (forall x, In x l -> P x = true) -> filter P l = l.
Proof. induction l as [|x l IH]; simpl; intros H; [reflexivity|]. rewrite (H x) by auto. f_equal; apply IH; auto. Qed.

Lemma in_nth_error {A} (x : A) l : In x l -> exists j, (j < length l)%nat /\ nth_error l j = Some x.
Proof.
  intros H. apply In_nth_error in H. destruct H as [j Hj]. exists j; split; [|exact Hj].
  apply nth_error_Some. congruence.
Qed.

(* on a list of consecutive sequence numbers the entries of a range are a contiguous block *)
Lemma filter_consec os l from to k n :
  consec os l -> (0 <= k)%nat -> (k + n <= length l)%nat ->
  (forall j, (j < length l)%nat -> (from <= os + Z.of_nat j <= to)%Z <-> (k <= j < k + n)%nat) ->
  filter (in_range from to) l = firstn n (skipn k l).
Proof.
  intros Hc _ Hkn Hiff.
  rewrite <- (firstn_skipn k l) at 1. rewrite filter_app.
  rewrite <- (firstn_skipn n (skipn k l)) at 1. rewrite filter_app.
  rewrite (filter_none _ (firstn k l)), (filter_all _ (firstn n (skipn k l))), (filter_none _ (skipn n (skipn k l))).
  - simpl. rewrite app_nil_r. reflexivity.
  - intros x Hx. apply in_nth_error in Hx. destruct Hx as (j & Hj & Hn).
    rewrite skipn_length, skipn_length in Hj. rewrite nth_error_skipn, nth_error_skipn in Hn.
    pose proof (Hc _ _ Hn) as Hs. unfold in_range.
    specialize (Hiff (k + (n + j))%nat ltac:(lia)). lia.
  - intros x Hx. apply in_nth_error in Hx. destruct Hx as (j & Hj & Hn).
    rewrite firstn_length, skipn_length in Hj.
    rewrite nth_error_firstn in Hn by lia. rewrite nth_error_skipn in Hn.
    pose proof (Hc _ _ Hn) as Hs. unfold in_range.
    specialize (Hiff (k + j)%nat ltac:(lia)). lia.
  - intros x Hx. apply in_nth_error in Hx. destruct Hx as (j & Hj & Hn).
    rewrite firstn_length in Hj. rewrite nth_error_firstn in Hn by lia.
    pose proof (Hc _ _ Hn) as Hs. unfold in_range.
    specialize (Hiff j ltac:(lia)). lia.
Qed.

Lemma skipn_cons_nth {A} m (l : list A) q : nth_error l m = Some q -> skipn m l = q :: skipn (S m) l.
Proof. revert l; induction m; intros [|y r] E; simpl in *; try discriminate. inversion E; reflexivity. apply IHm; exact E. Qed.

(* ---------- Range ---------- *)
Lemma to_int_id z : (- two63 <= z < two63)%Z -> to_int z = z.
Proof. unfold to_int, two63, two64. intros H. destruct (Z.ltb_spec (z mod 18446744073709551616) 9223372036854775808); lia. Qed.

Lemma oldest_idx_eq c b l : ring_inv c b l -> oldest_idx b = ((r_head b + c - length l) mod c)%nat.
Proof. intros (Hcap & _ & _ & _ & Hsz & _). unfold oldest_idx. rewrite Hcap, Hsz. reflexivity. Qed.

Lemma oldest_entry c b l q0 l' : ring_inv c b l -> l = q0 :: l' -> entry_seq b (oldest_idx b) = Ok (q_seq q0).
Proof.
  intros H ->. rewrite (oldest_idx_eq _ _ _ H). destruct H as (_ & _ & _ & _ & _ & _ & Hnth).
  specialize (Hnth 0%nat ltac:(simpl; lia)). rewrite Nat.add_0_r in Hnth. unfold entry_seq. rewrite Hnth. reflexivity.
Qed.

Lemma collect_spec c b l : ring_inv c b l -> (Z.of_nat c <= max_make)%Z ->
  forall n k i, (k + i + n <= length l)%nat ->
  collect b (Z.of_nat (oldest_idx b) + Z.of_nat k) i n = Ok (map Some (firstn n (skipn (k + i) l))).
Proof.
  intros H Hc. pose proof (oldest_idx_eq _ _ _ H) as Ho.
  destruct H as (Hcap & Hc0 & Hlen & Hh & Hsz & Hle & Hnth).
  induction n as [|n IH]; intros k i Hk; [reflexivity|].
  cbn [collect]. rewrite Hcap.
  set (x := (oldest_idx b + (k + i))%nat).
  assert (Hx : (Z.of_nat (oldest_idx b) + Z.of_nat k + Z.of_nat i = Z.of_nat x)%Z) by (unfold x; lia).
  rewrite Hx.
  assert (Hob : (oldest_idx b < c)%nat) by (rewrite Ho; apply Nat.mod_upper_bound; lia).
  unfold max_make in Hc.
  rewrite to_int_id by (unfold two63; lia).
  rewrite Z.rem_mod_nonneg by lia. rewrite <- Nat2Z.inj_mod.
  destruct (Z.ltb_spec (Z.of_nat (x mod c)) 0); [lia|]. rewrite Nat2Z.id.
  assert (Hi : (x mod c = (r_head b + c - length l + (k + i)) mod c)%nat).
  { unfold x. rewrite Ho. rewrite Nat.add_mod_idemp_l by lia. reflexivity. }
  rewrite Hi, Hnth by lia.
  destruct (nth_error l (k + i)) as [q|] eqn:Eq; [|apply nth_error_None in Eq; lia].
  rewrite nth_error_map, Eq. simpl.
  replace (k + S i)%nat with (k + i + 1)%nat in IH by lia.
  specialize (IH k (S i) ltac:(lia)). rewrite IH.
  assert (Hs : skipn (k + i) l = q :: skipn (k + S i) l).
  { replace (k + S i)%nat with (S (k + i)) by lia. apply skipn_cons_nth, Eq. }
  rewrite Hs. reflexivity.
Qed.

Lemma collect_block c b l so cnt : ring_inv c b l -> (Z.of_nat c <= max_make)%Z ->
  (0 <= so)%Z -> (0 <= cnt)%Z -> (so + cnt <= Z.of_nat (length l))%Z ->
  collect b (Z.of_nat (oldest_idx b) + so) 0 (Z.to_nat cnt) =
  Ok (map Some (firstn (Z.to_nat cnt) (skipn (Z.to_nat so) l))).
Proof.
  intros H Hc Hso Hcnt Hle.
  pose proof (collect_spec c b l H Hc (Z.to_nat cnt) (Z.to_nat so) 0%nat ltac:(lia)) as G.
  rewrite Z2Nat.id in G by lia. rewrite Nat.add_0_r in G. exact G.
Qed.

Lemma range_empty os l from to :
  consec os l -> (forall j, (j < length l)%nat -> ~ (from <= os + Z.of_nat j <= to)%Z) ->
  filter (in_range from to) l = [].
Proof.
  intros Hc H. rewrite (filter_consec os l from to 0 0 Hc); [reflexivity|lia|lia|].
  intros j Hj. split; [intros G; exfalso; exact (H j Hj G)|lia].
Qed.

Lemma range_block os l from to so cnt :
  consec os l -> (0 <= so)%Z -> (0 <= cnt)%Z -> (so + cnt <= Z.of_nat (length l))%Z ->
  (forall j, (j < length l)%nat -> (from <= os + Z.of_nat j <= to)%Z <-> (so <= Z.of_nat j < so + cnt)%Z) ->
  filter (in_range from to) l = firstn (Z.to_nat cnt) (skipn (Z.to_nat so) l).
Proof.
  intros Hc Hso Hcnt Hle H. apply (filter_consec os); try assumption; try lia.
  intros j Hj. rewrite (H j Hj). lia.
Qed.

(* what the code does today is exact as long as every number involved is below 2^63 *)
Lemma range_def_exact c b l os from to :
  ring_inv c b l -> (Z.of_nat c <= max_make)%Z -> consec os l ->
  (1 <= os)%Z -> (os + Z.of_nat (length l) <= two63)%Z ->
  (0 <= from < two63)%Z -> (0 <= to < two63)%Z ->
  range_def b from to = Ok (map Some (filter (in_range from to) l)).
Proof.
  intros H Hc Hcs Hos Hmax Hf Ht.
  pose proof H as (Hcap & Hc0 & Hlen & Hh & Hsz & Hle & Hnth).
  unfold range_def. rewrite Hsz.
  destruct l as [|q0 l'].
  { reflexivity. }
  replace (length (q0 :: l') =? 0)%nat with false by reflexivity.
  rewrite (oldest_entry c b (q0 :: l') q0 l' H eq_refl).
  assert (Hq0 : Z.of_N (q_seq q0) = os) by (rewrite (Hcs 0%nat q0 eq_refl); lia).
  rewrite Hq0. set (n := length (q0 :: l')) in *.
  unfold two63, max_make in *.
  set (from' := if (from <? os)%Z then os else from).
  assert (Hf' : (from' = Z.max from os)%Z) by (unfold from'; destruct (Z.ltb_spec from os); lia).
  rewrite (to_int_id (from' - os)) by (unfold two63; lia).
  rewrite (to_int_id (to - from')) by (unfold two63; lia).
  rewrite (to_int_id (to - from' + 1)) by (unfold two63; lia).
  rewrite (to_int_id (from' - os + (to - from' + 1))) by (unfold two63; lia).
  destruct (Z.gtb_spec (from' - os + (to - from' + 1)) (Z.of_nat n)) as [Hgt|Hgt].
  - (* the range runs past the newest entry: clamp *)
    rewrite (to_int_id (Z.of_nat n - (from' - os))) by (unfold two63; lia).
    destruct (Z.leb_spec (Z.of_nat n - (from' - os)) 0) as [Hz|Hz].
    + rewrite (range_empty os); [reflexivity|exact Hcs|]. intros j Hj. fold n in Hj. lia.
    + destruct (Z.ltb_spec 35184372088832 (Z.of_nat n - (from' - os))); [lia|].
      rewrite (collect_block c b (q0 :: l')) by (try assumption; fold n; unfold max_make; lia).
      rewrite (range_block os _ from to (from' - os) (Z.of_nat n - (from' - os))); try assumption; try (fold n; lia);
        try reflexivity; try (intros j Hj; fold n in Hj; lia).
  - destruct (Z.leb_spec (to - from' + 1) 0) as [Hz|Hz].
    + rewrite (range_empty os); [reflexivity|exact Hcs|]. intros j Hj. fold n in Hj. lia.
    + destruct (Z.ltb_spec 35184372088832 (to - from' + 1)); [lia|].
      rewrite (collect_block c b (q0 :: l')) by (try assumption; fold n; unfold max_make; lia).
      rewrite (range_block os _ from to (from' - os) (to - from' + 1)); try assumption; try (fold n; lia);
        try reflexivity; try (intros j Hj; fold n in Hj; lia).
Qed.

(* the repaired Range is exact for every uint64 bound *)
Lemma range_rep_exact c b l os from to :
  ring_inv c b l -> (Z.of_nat c <= max_make)%Z -> consec os l ->
  (0 <= os)%Z -> (os + Z.of_nat (length l) <= two64)%Z ->
  (0 <= from < two64)%Z -> (0 <= to < two64)%Z ->
  range_rep b from to = Ok (map Some (filter (in_range from to) l)).
Proof.
  intros H Hc Hcs Hos Hmax Hf Ht.
  pose proof H as (Hcap & Hc0 & Hlen & Hh & Hsz & Hle & Hnth).
  unfold range_rep. rewrite Hsz.
  destruct l as [|q0 l'].
  { reflexivity. }
  replace (length (q0 :: l') =? 0)%nat with false by reflexivity.
  rewrite (oldest_entry c b (q0 :: l') q0 l' H eq_refl).
  assert (Hq0 : Z.of_N (q_seq q0) = os) by (rewrite (Hcs 0%nat q0 eq_refl); lia).
  rewrite Hq0. set (n := length (q0 :: l')) in *.
  assert (Hn : (1 <= n)%nat) by (unfold n; simpl; lia).
  unfold two64, max_make in *.
  assert (Hns : wrap64 (os + Z.of_nat (n - 1)) = (os + Z.of_nat n - 1)%Z).
  { unfold wrap64, two64. rewrite Z.mod_small by lia. lia. }
  rewrite Hns.
  set (from' := if (from <? os)%Z then os else from).
  assert (Hf' : (from' = Z.max from os)%Z) by (unfold from'; destruct (Z.ltb_spec from os); lia).
  set (to' := if (to >? os + Z.of_nat n - 1)%Z then (os + Z.of_nat n - 1)%Z else to).
  assert (Ht' : (to' = Z.min to (os + Z.of_nat n - 1))%Z) by (unfold to'; destruct (Z.gtb_spec to (os + Z.of_nat n - 1)); lia).
  destruct (Z.gtb_spec from' to') as [Hgt|Hgt].
  - rewrite (range_empty os); [reflexivity|exact Hcs|]. intros j Hj. fold n in Hj. lia.
  - rewrite (to_int_id (from' - os)) by (unfold two63; lia).
    rewrite (to_int_id (to' - from')) by (unfold two63; lia).
    rewrite (to_int_id (to' - from' + 1)) by (unfold two63; lia).
    destruct (Z.leb_spec (to' - from' + 1) 0); [lia|].
    destruct (Z.ltb_spec 35184372088832 (to' - from' + 1)); [lia|].
    rewrite (collect_block c b (q0 :: l')) by (try assumption; fold n; unfold max_make; lia).
    rewrite (range_block os _ from to (from' - os) (to' - from' + 1)); try assumption; try (fold n; lia);
      try reflexivity; try (intros j Hj; fold n in Hj; lia).
Qed.

(* ---------- top-level statements about Range on a ring filled by Push ---------- *)
Lemma pushed_ring_inv cap qs : (0 < cap)%Z ->
  ring_inv (Z.to_nat cap) (fold_left push qs (new_ring cap)) (skipn (length qs - Z.to_nat cap) qs).
Proof.
  intros H. rewrite <- retained_is_suffix by lia. apply pushes_inv, new_ring_inv, H.
Qed.

Lemma backlog_range_repaired cap qs first from to :
  (0 < cap <= max_make)%Z -> consec first qs -> (0 <= first)%Z -> (first + Z.of_nat (length qs) <= two64)%Z ->
  (0 <= from < two64)%Z -> (0 <= to < two64)%Z ->
  range repaired (fold_left push qs (new_ring cap)) from to =
  Ok (map Some (filter (in_range from to) (skipn (length qs - Z.to_nat cap) qs))).
Proof.
  intros Hc Hcs Hf Hm Hfr Hto. unfold range; simpl.
  apply (range_rep_exact (Z.to_nat cap) _ _ (first + Z.of_nat (length qs - Z.to_nat cap))).
  - apply pushed_ring_inv; lia.
  - lia.
  - apply consec_skipn, Hcs.
  - lia.
  - rewrite skipn_length. lia.
  - exact Hfr.
  - exact Hto.
Qed.

Lemma backlog_range_today cap qs first from to :
  (0 < cap <= max_make)%Z -> consec first qs -> (1 <= first)%Z -> (first + Z.of_nat (length qs) <= two63)%Z ->
  (0 <= from < two63)%Z -> (0 <= to < two63)%Z ->
  range defective (fold_left push qs (new_ring cap)) from to =
  Ok (map Some (filter (in_range from to) (skipn (length qs - Z.to_nat cap) qs))).
Proof.
  intros Hc Hcs Hf Hm Hfr Hto. unfold range; simpl.
  apply (range_def_exact (Z.to_nat cap) _ _ (first + Z.of_nat (length qs - Z.to_nat cap))).
  - apply pushed_ring_inv; lia.
  - lia.
  - apply consec_skipn, Hcs.
  - lia.
  - rewrite skipn_length. lia.
  - exact Hfr.
  - exact Hto.
Qed.

(* ================================================================== *)
(* 2. sender: the stream and the backlog                               *)
(* ================================================================== *)
Section AssocFacts.
  Context {K V : Type} (eqb : K -> K -> bool) (eqb_eq : forall a b, eqb a b = true <-> a = b).
  Lemma eqb_refl' a : eqb a a = true. Proof. apply eqb_eq; reflexivity. Qed.
  Lemma eqb_neq a b : a <> b -> eqb a b = false.
  Proof. intros H. destruct (eqb a b) eqn:E; [apply eqb_eq in E; contradiction|reflexivity]. Qed.
  Lemma aget_aset k k' (v : V) l : aget eqb k' (aset eqb k v l) = if eqb k' k then Some v else aget eqb k' l.
  Proof.
    induction l as [|[k0 v0] r IH]; simpl.
    - destruct (eqb k' k); reflexivity.
    - destruct (eqb k k0) eqn:E; simpl.
      + apply eqb_eq in E; subst k0. destruct (eqb k' k); reflexivity.
      + destruct (eqb k' k0) eqn:E2.
        * apply eqb_eq in E2; subst k0. rewrite (eqb_neq k' k); [reflexivity|].
          intros ->. rewrite eqb_refl' in E. discriminate.
        * exact IH.
  Qed.
  Lemma aget_adel k k' (l : list (K * V)) : aget eqb k' (adel eqb k l) = if eqb k' k then None else aget eqb k' l.
  Proof.
    induction l as [|[k0 v0] r IH]; simpl.
    - destruct (eqb k' k); reflexivity.
    - destruct (eqb k k0) eqn:E; simpl.
      + apply eqb_eq in E; subst k0. rewrite IH. destruct (eqb k' k); reflexivity.
      + destruct (eqb k' k0) eqn:E2.
        * apply eqb_eq in E2; subst k0. rewrite (eqb_neq k' k); [reflexivity|].
          intros ->. rewrite eqb_refl' in E. discriminate.
        * exact IH.
  Qed.
End AssocFacts.

Lemma keyeqb_eq a b : keyeqb a b = true <-> a = b.
Proof.
  destruct a as [a1 a2], b as [b1 b2]; unfold keyeqb; simpl.
  rewrite andb_true_iff, !N.eqb_eq. split; [intros [-> ->]; reflexivity|intros H; inversion H; auto].
Qed.

Lemma map_aset {K V W} (eqb : K -> K -> bool) (f : V -> W) k v l :
  map (fun kv => (fst kv, f (snd kv))) (aset eqb k v l) = aset eqb k (f v) (map (fun kv => (fst kv, f (snd kv))) l).
Proof. induction l as [|[k0 v0] r IH]; simpl; [reflexivity|]. destruct (eqb k k0); simpl; [reflexivity|f_equal; exact IH]. Qed.
Lemma map_adel {K V W} (eqb : K -> K -> bool) (f : V -> W) k (l : list (K * V)) :
  map (fun kv => (fst kv, f (snd kv))) (adel eqb k l) = adel eqb k (map (fun kv => (fst kv, f (snd kv))) l).
Proof. induction l as [|[k0 v0] r IH]; simpl; [reflexivity|]. destruct (eqb k k0); simpl; [exact IH|f_equal; exact IH]. Qed.

Definition act_of (rel : bool) : action := if rel then ADelete else AUpdate.
(* the stream of one SRG: sequence numbers seq+1, seq+2, ... *)
Fixpoint reqs_from (g seq : N) (evs : list (session * bool)) : list req :=
  match evs with
  | [] => []
  | (s, rel) :: t => mkreq g (seq + 1) (act_of rel) (s2c s) :: reqs_from g (seq + 1) t
  end.

Lemma reqs_from_length g seq evs : length (reqs_from g seq evs) = length evs.
Proof. revert seq; induction evs as [|[s r] t IH]; simpl; intros; [reflexivity|f_equal; apply IH]. Qed.

Lemma reqs_from_nth g evs : forall seq j q, nth_error (reqs_from g seq evs) j = Some q ->
  q_srg q = g /\ q_seq q = (seq + N.of_nat (S j))%N /\
  exists s rel, nth_error evs j = Some (s, rel) /\ q_act q = act_of rel /\ q_cp q = s2c s.
Proof.
  induction evs as [|[s r] t IH]; intros seq [|j] q H; simpl in *; try discriminate.
  - inversion H; subst; simpl. repeat split; try lia. exists s, r; auto.
  - destruct (IH _ _ _ H) as (A & B & C). repeat split; auto. lia.
Qed.

Lemma reqs_from_consec g seq evs : consec (Z.of_N seq + 1) (reqs_from g seq evs).
Proof. intros j q H. destruct (reqs_from_nth _ _ _ _ _ H) as (_ & B & _). lia. Qed.

Lemma sender_run_shape g evs : forall sn seq b,
  g <> 0%N -> aget N.eqb g sn = Some (seq, b) -> (forall e, In e evs -> s_srg (fst e) = g) ->
  (seq + N.of_nat (length evs) < n64)%N ->
  snd (sender_run sn evs) = reqs_from g seq evs /\
  aget N.eqb g (fst (sender_run sn evs)) = Some ((seq + N.of_nat (length evs))%N, fold_left push (reqs_from g seq evs) b).
Proof.
  induction evs as [|[s rel] t IH]; intros sn seq b Hg Hget Hall Hlt.
  - simpl. rewrite N.add_0_r. auto.
  - simpl. assert (Hs : s_srg s = g) by (apply (Hall (s, rel)); left; reflexivity).
    unfold sender_event. rewrite Hs. destruct (N.eqb_spec g 0); [contradiction|]. rewrite Hget.
    assert (Hseq : n64z (seq + 1) = (seq + 1)%N).
    { unfold n64z. apply N.mod_small. simpl length in Hlt. lia. }
    rewrite Hseq.
    specialize (IH (aset N.eqb g ((seq + 1)%N, push b (mkreq g (seq + 1) (if rel then ADelete else AUpdate) (s2c s))) sn)
                   (seq + 1)%N (push b (mkreq g (seq + 1) (if rel then ADelete else AUpdate) (s2c s))) Hg).
    rewrite (aget_aset N.eqb N.eqb_eq), N.eqb_refl in IH.
    specialize (IH eq_refl (fun e He => Hall e (or_intror He)) ltac:(simpl length in Hlt; lia)).
    destruct (sender_run _ t) as [sn2 l]. simpl in *. destruct IH as [IH1 IH2]. split.
    + rewrite IH1. reflexivity.
    + rewrite IH2. f_equal. f_equal. lia.
Qed.

(* ================================================================== *)
(* 3. receiver: convergence of the replicated store (repaired)         *)
(* ================================================================== *)
Lemma cp_key_s2c s : cp_key (s2c s) = sess_key s.
Proof. unfold cp_key, sess_key, s2c. destruct (s_kind s); reflexivity. Qed.

Lemma recv_update_last fl rc c : rc_last (recv_update fl rc c) = rc_last rc.
Proof. reflexivity. Qed.
Lemma recv_delete_last fl rc c : rc_last (recv_delete fl rc c) = rc_last rc.
Proof. reflexivity. Qed.

Lemma recv_step_applied fl rc q : (last_of rc (q_srg q) < q_seq q)%N ->
  recv_step fl rc q =
  let rc1 := mkrecv (aset N.eqb (q_srg q) (q_seq q) (rc_last rc)) (rc_store rc) (rc_reg rc) in
  match q_act q with ADelete => recv_delete fl rc1 (q_cp q) | _ => recv_update fl rc1 (q_cp q) end.
Proof.
  intros H. unfold recv_step. destruct (N.leb_spec (q_seq q) (last_of rc (q_srg q))); [lia|].
  rewrite andb_false_r. reflexivity.
Qed.

Lemma recv_step_stale rc q : (q_seq q <= last_of rc (q_srg q))%N -> recv_step repaired rc q = rc.
Proof. intros H. unfold recv_step. simpl. destruct (N.leb_spec (q_seq q) (last_of rc (q_srg q))); [reflexivity|lia]. Qed.

Lemma last_of_step fl rc q : (last_of rc (q_srg q) < q_seq q)%N -> last_of (recv_step fl rc q) (q_srg q) = q_seq q.
Proof.
  intros H. rewrite recv_step_applied by exact H. cbv zeta.
  unfold last_of. destruct (q_act q); simpl; rewrite (aget_aset N.eqb N.eqb_eq), N.eqb_refl; reflexivity.
Qed.

Definition live_fold (live : list ((N * N) * session)) (evs : list (session * bool)) :=
  fold_left (fun l e => live_step l (fst e) (snd e)) evs live.

Lemma store_step_event fl rc g seq s rel live :
  last_of rc g = seq -> rc_store rc = expected_store live ->
  let rc' := recv_step fl rc (mkreq g (seq + 1) (act_of rel) (s2c s)) in
  rc_store rc' = expected_store (live_step live s rel) /\ last_of rc' g = (seq + 1)%N.
Proof.
  intros Hl Hs. cbv zeta. split.
  - rewrite recv_step_applied by (simpl; lia). cbv zeta. simpl q_act. simpl q_cp.
    unfold live_step, expected_store. destruct rel; simpl.
    + rewrite map_adel. rewrite cp_key_s2c. fold (expected_store live). rewrite <- Hs. reflexivity.
    + rewrite map_aset. rewrite cp_key_s2c. fold (expected_store live). rewrite <- Hs. reflexivity.
  - apply (last_of_step fl rc (mkreq g (seq + 1) (act_of rel) (s2c s))). simpl. lia.
Qed.

Lemma recv_run_cons fl rc q l : recv_run fl rc (q :: l) = recv_run fl (recv_step fl rc q) l.
Proof. reflexivity. Qed.

Lemma store_inorder fl g evs : forall seq rc live,
  last_of rc g = seq -> rc_store rc = expected_store live ->
  rc_store (recv_run fl rc (reqs_from g seq evs)) = expected_store (live_fold live evs) /\
  last_of (recv_run fl rc (reqs_from g seq evs)) g = (seq + N.of_nat (length evs))%N.
Proof.
  induction evs as [|[s rel] t IH]; intros seq rc live Hl Hs.
  - simpl. rewrite N.add_0_r. auto.
  - cbn [reqs_from]. rewrite recv_run_cons.
    destruct (store_step_event fl rc g seq s rel live Hl Hs) as [A B].
    destruct (IH _ _ _ B A) as [C D]. split; [exact C|]. rewrite D. simpl length. lia.
Qed.

(* any in-order delivery with duplicates has the effect of the in-order stream *)
Lemma delivery_le reqs m d m' : delivery reqs m d m' -> (m <= m')%nat.
Proof. induction 1; lia. Qed.

Lemma delivery_effect g reqs m d m' :
  delivery reqs m d m' ->
  (forall j q, nth_error reqs j = Some q -> q_srg q = g /\ q_seq q = N.of_nat (S j)) ->
  forall rc, last_of rc g = N.of_nat m ->
  recv_run repaired rc d = recv_run repaired rc (firstn (m' - m) (skipn m reqs)).
Proof.
  intros Hd Hshape. induction Hd as [m|m q d m' Hq Hd IH|m k q d m' Hk Hq Hd IH]; intros rc Hl.
  - rewrite Nat.sub_diag. reflexivity.
  - pose proof (delivery_le _ _ _ _ Hd) as Hle.
    rewrite (skipn_cons_nth m reqs q Hq). replace (m' - m)%nat with (S (m' - S m)) by lia.
    cbn [firstn]. rewrite !recv_run_cons.
    apply IH. destruct (Hshape _ _ Hq) as [A B]. rewrite <- A. rewrite last_of_step; [exact B|]. rewrite A, Hl, B. lia.
  - rewrite recv_run_cons.
    destruct (Hshape _ _ Hq) as [A B]. rewrite recv_step_stale by (rewrite A, Hl, B; lia).
    apply IH, Hl.
Qed.

Lemma stream_of_sender cap g evs :
  g <> 0%N -> (forall e, In e evs -> s_srg (fst e) = g) -> (N.of_nat (length evs) < n64)%N ->
  snd (sender_run [(g, (0%N, new_ring cap))] evs) = reqs_from g 0 evs /\
  aget N.eqb g (fst (sender_run [(g, (0%N, new_ring cap))] evs)) =
    Some (N.of_nat (length evs), fold_left push (reqs_from g 0 evs) (new_ring cap)).
Proof.
  intros Hg Hall Hlt.
  apply (sender_run_shape g evs [(g, (0%N, new_ring cap))] 0%N (new_ring cap) Hg); auto.
  simpl. rewrite N.eqb_refl. reflexivity.
Qed.

Lemma stream_shape g evs j q : nth_error (reqs_from g 0 evs) j = Some q -> q_srg q = g /\ q_seq q = N.of_nat (S j).
Proof. intros H. destruct (reqs_from_nth _ _ _ _ _ H) as (A & B & _). split; [exact A|]. rewrite B. lia. Qed.

Lemma delivered_is_inorder g evs d rc :
  last_of rc g = 0%N ->
  delivery (reqs_from g 0 evs) 0 d (length (reqs_from g 0 evs)) ->
  recv_run repaired rc d = recv_run repaired rc (reqs_from g 0 evs).
Proof.
  intros Hl Hd.
  rewrite (delivery_effect g _ _ _ _ Hd (stream_shape g evs) rc Hl).
  rewrite Nat.sub_0_r. simpl skipn. rewrite firstn_all. reflexivity.
Qed.

Lemma converges_store g0 cap g evs d :
  g <> 0%N -> (forall e, In e evs -> s_srg (fst e) = g) -> (N.of_nat (length evs) < n64)%N ->
  let reqs := snd (sender_run [(g, (0%N, new_ring cap))] evs) in
  delivery reqs 0 d (length reqs) ->
  rc_store (recv_run repaired (mkrecv [] [] g0) d) = expected_store (live_run evs) /\
  last_of (recv_run repaired (mkrecv [] [] g0) d) g = N.of_nat (length evs).
Proof.
  intros Hg Hall Hlt reqs Hd. unfold reqs in *.
  destruct (stream_of_sender cap g evs Hg Hall Hlt) as [E _]. rewrite E in Hd.
  rewrite (delivered_is_inorder g evs d (mkrecv [] [] g0) eq_refl Hd).
  destruct (store_inorder repaired g evs 0%N (mkrecv [] [] g0) [] eq_refl eq_refl) as [A B].
  split; [exact A|]. rewrite B. lia.
Qed.

Lemma sender_backlog_exact cap g evs from to :
  g <> 0%N -> (forall e, In e evs -> s_srg (fst e) = g) -> (N.of_nat (length evs) < n64)%N ->
  (0 < cap <= max_make)%Z -> (0 <= from < two64)%Z -> (0 <= to < two64)%Z ->
  exists seq b, aget N.eqb g (fst (sender_run [(g, (0%N, new_ring cap))] evs)) = Some (seq, b) /\
    seq = N.of_nat (length evs) /\
    range repaired b from to =
      Ok (map Some (filter (in_range from to)
            (skipn (length evs - Z.to_nat cap) (snd (sender_run [(g, (0%N, new_ring cap))] evs))))).
Proof.
  intros Hg Hall Hlt Hc Hf Ht.
  destruct (stream_of_sender cap g evs Hg Hall Hlt) as [E1 E2].
  eexists _, _. split; [exact E2|]. split; [reflexivity|]. rewrite E1.
  rewrite <- (reqs_from_length g 0 evs).
  apply (backlog_range_repaired cap _ 1); try assumption; try lia.
  - apply (reqs_from_consec g 0 evs).
  - rewrite reqs_from_length. unfold two64. unfold n64 in Hlt. lia.
Qed.

Lemma checkpoint_identity s :
  let c := s2c s in
  c_sid c = s_sid s /\ c_srg c = s_srg s /\ c_mac c = s_mac s /\ c_ov c = s_ov s /\ c_iv c = s_iv s /\
  c_user c = s_user s /\ cp_key c = sess_key s /\
  (s_kind s <> KL2GW ->
     c_v4 c = s_v4 s /\ c_v6 c = s_v6 s /\ c_v4pool c = s_v4pool s /\ c_napool c = s_napool s /\ c_vrf c = s_vrf s /\
     c_pd c = match s_pd s with Some p => parse_cidr p | None => None end) /\
  (s_kind s = KL2GW -> c_v4 c = None /\ c_v6 c = None /\ c_pd c = None).
Proof.
  cbv zeta. pose proof (cp_key_s2c s) as K. unfold s2c in *.
  destruct (s_kind s); simpl; repeat split; auto; try congruence.
Qed.
