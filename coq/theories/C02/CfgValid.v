(* C02/CfgValid.v — Config.Validate (validateSubscriberPoolOverlap, /repo 1d4c0cb) establishes the disjointness
   hypothesis of the uniqueness theorems: a configuration that passes [cfg_valid] has [pools_disjoint]. *)
From OV Require Import Common.Base C02.Model C02.Proofs.
From Coq Require Import ZifyBool ZifyN.
Open Scope N_scope.

(* the ranges lie in the address space (true of everything a configuration can express) *)
Definition geom_fits (g : geom) : Prop :=
  match g with
  | GRange _ hi _ => hi < two128
  | GPfx base _ count shift => base + count * 2 ^ shift <= two128
  end.

Lemma contains_span p x :
  geom_fits (p_geom p) -> contains p x = true ->
  fst (pool_span p) <= fst x mod two128 /\ fst x mod two128 <= snd (pool_span p).
Proof.
  assert (H128 : two128 <> 0) by (unfold two128; discriminate).
  unfold contains, pool_span. destruct (p_geom p) as [lo hi ex|base plen count shift]; cbn [geom_fits slot_of fst snd].
  - intros Hfit. destruct ((lo <=? fst x) && (fst x <=? hi)) eqn:E; [|discriminate]. intros _.
    apply andb_true_iff in E. destruct E as [E1 E2]. apply N.leb_le in E1. apply N.leb_le in E2.
    rewrite N.mod_small by lia. lia.
  - intros Hfit. destruct (snd x =? plen); [|discriminate].
    set (sz := count * 2 ^ shift) in *.
    destruct ((fst x + two128 - base) mod two128 <? sz) eqn:E; [|discriminate]. intros _. apply N.ltb_lt in E.
    set (X := fst x mod two128). assert (HX : X < two128) by (apply N.mod_lt; exact H128).
    assert (Ed : (fst x + two128 - base) mod two128 = (X + two128 - base) mod two128).
    { pose proof (N.div_mod (fst x) two128 H128) as D. fold X in D.
      replace (fst x + two128 - base) with ((X + two128 - base) + (fst x / two128) * two128) by lia.
      apply N.mod_add. exact H128. }
    rewrite Ed in E. destruct (N.le_gt_cases base X) as [Hb|Hb].
    + replace (X + two128 - base) with ((X - base) + 1 * two128) in E by lia.
      rewrite N.mod_add in E by exact H128. rewrite N.mod_small in E by lia. lia.
    + rewrite N.mod_small in E by lia. lia.
Qed.

Lemma cfg_valid_disjoint ps :
  (forall p, In p ps -> geom_fits (p_geom p)) -> cfg_valid ps = true -> pools_disjoint (mkReg ps []).
Proof.
  intros Hfit Hv p q x Hp Hq Hf Hvrf Hcp Hcq. cbn [pools] in Hp, Hq.
  unfold cfg_valid in Hv. rewrite forallb_forall in Hv. specialize (Hv p Hp).
  rewrite forallb_forall in Hv. specialize (Hv q Hq).
  apply orb_true_iff in Hv. destruct Hv as [Hv|Ha].
  - apply orb_true_iff in Hv. destruct Hv as [Hv|Hn].
    + apply orb_true_iff in Hv. destruct Hv as [Hs|Hn].
      * apply same_pool_spec. exact Hs.
      * apply negb_true_iff in Hn. assert (fam_eqb (p_fam p) (p_fam q) = true) by (apply fam_eqb_spec; exact Hf).
        congruence.
    + apply negb_true_iff in Hn. apply N.eqb_neq in Hn. contradiction.
  - exfalso. destruct (contains_span p x (Hfit p Hp) Hcp) as [A1 B1].
    destruct (contains_span q x (Hfit q Hq) Hcq) as [A2 B2].
    unfold spans_apart in Ha. destruct (pool_span p) as [a1 b1], (pool_span q) as [a2 b2]. cbn [fst snd] in *.
    repeat (apply orb_true_iff in Ha; destruct Ha as [Ha|Ha]); apply N.ltb_lt in Ha; lia.
Qed.

(* uniqueness for every configuration that Config.Validate accepts *)
Lemma unique_validated ps ss st :
  NoDup (map pool_id ps) -> Forall pool_wf ps -> kinds_ok (mkReg ps []) -> resettable (mkReg ps []) ->
  (forall p, In p ps -> geom_fits (p_geom p)) -> cfg_valid ps = true ->
  NoDup (map s_id ss) -> Forall fresh_sess ss ->
  reach Repaired (init_state ps ss) st ->
  forall s1 s2 f x, In s1 (st_sess st) -> In s2 (st_sess st) -> s_vrf s1 = s_vrf s2 ->
    holds s1 f = Some x -> holds s2 f = Some x -> s1 = s2.
Proof.
  intros Hnd Hwf Hk Hrs Hfit Hv. apply unique_all; auto. apply cfg_valid_disjoint; auto.
Qed.
