(* C02/HeadSafe.v — where the code at /repo HEAD ([Head]) provably behaves like the Repaired model: an INPUT-level
   condition on the configuration (pool signatures), the AAA answer carried by the op and the addresses the session
   already has.  [safe_step] is the boolean the driver evaluates; [head_step_safe] lifts the primitive-level trigger
   lemmas of Proofs.v to [step]. *)
From OV Require Import Common.Base C02.Model C02.Proofs.
From Coq Require Import ZifyBool ZifyN.
Open Scope N_scope.

Lemma bindl_ext_in {A B} (l : list A) (f g : A -> list B) :
  (forall a, In a l -> f a = g a) -> bindl l f = bindl l g.
Proof.
  unfold bindl. induction l as [|a l IH]; intros H; [reflexivity|]. cbn [flat_map].
  rewrite (H a (or_introl eq_refl)), IH; [reflexivity|]. intros b Hb. apply H. right; exact Hb.
Qed.

(* the address lies in some pool of the family, and every pool that contains it belongs to the subscriber's VRF *)
Definition AddrSafe (r : reg) (f : fam) (vrf : N) (x : item) : Prop :=
  (exists p, In p (fam_pools f r) /\ contains p x = true) /\
  (forall p, In p (fam_pools f r) -> contains p x = true -> p_vrf p = vrf).
Definition OAddrSafe (r : reg) (f : fam) (vrf : N) (x : option item) : Prop :=
  forall i, x = Some i -> AddrSafe r f vrf i.
(* a pool override names no pool of another VRF *)
Definition OvSafe (r : reg) (f : fam) (vrf : N) (ov : option N) : Prop :=
  forall k p, ov = Some k -> In p (fam_pools f r) -> p_key p = k -> p_vrf p = vrf.

Lemma psig_fields p q : psig p = psig q ->
  p_fam p = p_fam q /\ p_key p = p_key q /\ p_vrf p = p_vrf q /\ p_geom p = p_geom q.
Proof. unfold psig. intros H. inversion H. auto. Qed.

Lemma fam_pools_shape r r' f p' :
  same_shape r r' -> In p' (fam_pools f r') -> exists p, In p (fam_pools f r) /\ psig p = psig p'.
Proof.
  intros Hs Hin. apply fam_pools_in in Hin. destruct Hin as [Hin Hf].
  destruct (same_shape_in _ _ _ Hs Hin) as (p & Hp & E). exists p. split; [|exact E].
  unfold fam_pools. apply filter_In. split; [exact Hp|]. apply fam_eqb_spec.
  destruct (psig_fields _ _ E) as (A & _). congruence.
Qed.

Lemma contains_sig p q x : psig p = psig q -> contains p x = contains q x.
Proof. intros E. destruct (psig_fields _ _ E) as (_ & _ & _ & G). unfold contains. rewrite G. reflexivity. Qed.

Lemma AddrSafe_shape r r' f vrf x : same_shape r r' -> AddrSafe r f vrf x -> AddrSafe r' f vrf x.
Proof.
  intros Hs [(p & Hp & Hc) Hall]. split.
  - destruct (fam_pools_shape _ _ f p (same_shape_sym _ _ Hs) Hp) as (p' & Hp' & E).
    exists p'. split; [exact Hp'|]. rewrite (contains_sig _ _ x E). exact Hc.
  - intros p' Hp' Hc'. destruct (fam_pools_shape _ _ f p' Hs Hp') as (q & Hq & E).
    destruct (psig_fields _ _ E) as (_ & _ & V & _). rewrite <- V. apply Hall; [exact Hq|].
    rewrite (contains_sig _ _ x E). exact Hc'.
Qed.
Lemma OAddrSafe_shape r r' f vrf x : same_shape r r' -> OAddrSafe r f vrf x -> OAddrSafe r' f vrf x.
Proof. intros Hs H i Hi. eapply AddrSafe_shape; eauto. Qed.
Lemma OvSafe_shape r r' f vrf ov : same_shape r r' -> OvSafe r f vrf ov -> OvSafe r' f vrf ov.
Proof.
  intros Hs H k p' Hk Hp' Hkey. destruct (fam_pools_shape _ _ f p' Hs Hp') as (q & Hq & E).
  destruct (psig_fields _ _ E) as (_ & K & V & _). rewrite <- V. apply (H k q Hk Hq). congruence.
Qed.

Lemma acquire_eq f prof ov vrf sid cur r :
  OAddrSafe r f vrf cur -> OvSafe r f vrf ov ->
  acquire Head f prof ov vrf sid cur r = acquire Repaired f prof ov vrf sid cur r.
Proof.
  intros Ha Ho. unfold acquire. destruct cur as [x|].
  - destruct (Ha x eq_refl) as [A B]. rewrite (trigger_reserve f x vrf sid r A B). reflexivity.
  - destruct prof as [pf|]; [|reflexivity]. rewrite (trigger_override f pf ov vrf sid r Ho). reflexivity.
Qed.

Lemma acquire_shape f prof ov vrf sid cur r r1 a pk ok :
  reg_ok r -> In (r1, a, pk, ok) (acquire Repaired f prof ov vrf sid cur r) -> reg_ok r1 /\ same_shape r r1.
Proof.
  intros Hok. unfold acquire. destruct cur as [x|].
  - intros Hc. apply in_map_iff in Hc. destruct Hc as ([r' ok'] & E & Hc). inversion E; subst.
    destruct (reserve_cont_ok _ _ _ _ _ _ _ Hok Hc) as [A _]. destruct (A Hok) as (B & C & _). auto.
  - destruct prof as [pf|].
    + intros Hc. apply in_map_iff in Hc. destruct Hc as ([r' res] & E & Hc).
      destruct (alloc_from_profile_ok _ _ _ _ _ _ _ _ Hok Hc) as [A _]. destruct (A Hok) as (B & C & _).
      destruct res as [[x k]|]; inversion E; subst; auto.
    + intros [E|[]]. inversion E; subst. split; [exact Hok|reflexivity].
Qed.

(* ------------------------------------------------------------------ PPPoE authentication / re-authentication *)
Definition pa_safe (st : state) (s : sess) (vrf : N) (s4 s6 : option N) (spd : option item) (o4 o6 : option N) : Prop :=
  let r := st_reg st in
  let ov4 := match s_prof4 s with Some _ => o4 | None => None end in
  let ov6 := match s_prof6 s with Some _ => o6 | None => None end in
  let cur4 := match s4 with Some _ => s4 | None => s_a4 s end in
  let cur6 := match s6 with Some _ => s6 | None => s_a6 s end in
  let curd := match spd with Some _ => spd | None => s_ad s end in
  OAddrSafe r F4 vrf (oitem cur4) /\ OvSafe r F4 vrf ov4 /\
  OAddrSafe r F6 vrf (oitem cur6) /\ OvSafe r F6 vrf ov6 /\ OAddrSafe r FD vrf curd.

Lemma step_pa_eq st s vrf s4 s6 spd o4 o6 od :
  reg_ok (st_reg st) -> pa_safe st s vrf s4 s6 spd o4 o6 ->
  step_pa Head st s vrf s4 s6 spd o4 o6 od = step_pa Repaired st s vrf s4 s6 spd o4 o6 od.
Proof.
  intros Hok (A4 & O4 & A6 & O6 & AD). unfold step_pa.
  rewrite (acquire_eq _ _ _ _ _ _ _ A4 O4). apply bindl_ext_in. intros [[[r1 a4] p4] ok4] H1.
  destruct (acquire_shape _ _ _ _ _ _ _ _ _ _ _ Hok H1) as [Hok1 Hs1].
  rewrite (acquire_eq _ _ _ _ _ _ _ (OAddrSafe_shape _ _ _ _ _ Hs1 A6) (OvSafe_shape _ _ _ _ _ Hs1 O6)).
  apply bindl_ext_in. intros [[[r2 a6] p6] ok6] H2.
  destruct (acquire_shape _ _ _ _ _ _ _ _ _ _ _ Hok1 H2) as [Hok2 Hs2].
  assert (E : pa_pd Head (match spd with Some _ => spd | None => s_ad s end) vrf (s_id s) r2 =
              pa_pd Repaired (match spd with Some _ => spd | None => s_ad s end) vrf (s_id s) r2).
  { unfold pa_pd. destruct (match spd with Some _ => spd | None => s_ad s end) as [x|] eqn:Ex; [|reflexivity].
    assert (Hs : same_shape (st_reg st) r2) by (unfold same_shape in *; congruence).
    destruct (AddrSafe_shape _ _ _ _ _ Hs (AD x eq_refl)) as [P Q].
    rewrite (trigger_reserve FD x vrf (s_id s) r2 P Q). reflexivity. }
  rewrite E. reflexivity.
Qed.

(* ------------------------------------------------------------------ IPoE DISCOVER / REQUEST and SOLICIT / REQUEST *)
Definition id_safe (st : state) (s0 : sess) : Prop :=
  OAddrSafe (st_reg st) F4 (s_vrf s0) (oitem (s_a4 s0)) /\ OvSafe (st_reg st) F4 (s_vrf s0) (s_ov4 s0).
Lemma step_id_core_eq st s0 isreq bind rq :
  id_safe st s0 -> step_id_core Head st s0 isreq bind rq = step_id_core Repaired st s0 isreq bind rq.
Proof.
  intros [A O]. unfold step_id_core. destruct (s_prof4 s0) as [pf|] eqn:Ep; [|reflexivity].
  rewrite <- Ep. rewrite (acquire_eq _ _ _ _ _ _ _ A O). reflexivity.
Qed.

Definition is_safe (st : state) (s0 : sess) : Prop :=
  OAddrSafe (st_reg st) F6 (s_vrf s0) (oitem (s_a6 s0)) /\ OvSafe (st_reg st) F6 (s_vrf s0) (s_ov6 s0) /\
  OAddrSafe (st_reg st) FD (s_vrf s0) (s_ad s0) /\ OvSafe (st_reg st) FD (s_vrf s0) (s_ovd s0).
Lemma step_is_core_eq st s0 isreq :
  reg_ok (st_reg st) -> is_safe st s0 -> step_is_core Head st s0 isreq = step_is_core Repaired st s0 isreq.
Proof.
  intros Hok (A6 & O6 & AD & OD). unfold step_is_core. destruct (s_prof6 s0) as [pf|] eqn:Ep; [|reflexivity].
  rewrite <- Ep. rewrite (acquire_eq _ _ _ _ _ _ _ A6 O6). apply bindl_ext_in. intros [[[r1 a6] k6] ok6] H1.
  destruct (acquire_shape _ _ _ _ _ _ _ _ _ _ _ Hok H1) as [Hok1 Hs1].
  destruct (negb ok6); [reflexivity|].
  rewrite (acquire_eq _ _ _ _ _ _ _ (OAddrSafe_shape _ _ _ _ _ Hs1 AD) (OvSafe_shape _ _ _ _ _ Hs1 OD)).
  reflexivity.
Qed.

(* ------------------------------------------------------------------ releases *)
(* no pool of the family leases the slot of x to anybody but s *)
Definition RelSafe (r : reg) (f : fam) (x : item) (s : N) : Prop :=
  forall p sl o, In p (pools r) -> p_fam p = f -> raw_slot (p_geom p) x = Some sl -> lease_of p sl = Some o -> o = s.
Definition ORelSafe (r : reg) (f : fam) (x : option item) (s : N) : Prop := forall i, x = Some i -> RelSafe r f i s.
(* r' has the pools of r with at most the leases of r, and the same ledger *)
Definition sub (r r' : reg) : Prop :=
  statics r' = statics r /\
  forall p', In p' (pools r') -> exists p, In p (pools r) /\ psig p = psig p' /\
                                           forall sl t, lease_of p' sl = Some t -> lease_of p sl = Some t.
Lemma sub_refl r : sub r r.
Proof. split; [reflexivity|]. intros p Hp. exists p. auto. Qed.
Lemma sub_trans r1 r2 r3 : sub r1 r2 -> sub r2 r3 -> sub r1 r3.
Proof.
  intros [S1 H1] [S2 H2]. split; [congruence|]. intros p3 Hp3.
  destruct (H2 p3 Hp3) as (p2 & Hp2 & E2 & L2). destruct (H1 p2 Hp2) as (p1 & Hp1 & E1 & L1).
  exists p1. split; [exact Hp1|split; [congruence|]]. intros sl t Ht. apply L1, L2, Ht.
Qed.
Lemma RelSafe_sub r r' f x s : sub r r' -> RelSafe r f x s -> RelSafe r' f x s.
Proof.
  intros [_ H] Hr p' sl o Hp' Hf Hs Hl. destruct (H p' Hp') as (p & Hp & E & L).
  destruct (psig_fields _ _ E) as (F & _ & _ & G). apply (Hr p sl o Hp); [congruence|rewrite G; exact Hs|apply L; exact Hl].
Qed.
Lemma ORelSafe_sub r r' f x s : sub r r' -> ORelSafe r f x s -> ORelSafe r' f x s.
Proof. intros Hs H i Hi. eapply RelSafe_sub; eauto. Qed.

Lemma pool_release_sig v p sl s : psig (pool_release v p sl s) = psig p.
Proof.
  unfold pool_release. destruct (lease_of p sl); [|reflexivity]. destruct (owner_ok v _ s); reflexivity.
Qed.
Lemma sub_map r (G : pool -> pool) :
  (forall p, In p (pools r) -> psig (G p) = psig p /\ forall sl t, lease_of (G p) sl = Some t -> lease_of p sl = Some t) ->
  sub r (mkReg (map G (pools r)) (statics r)).
Proof.
  intros H. split; [reflexivity|]. cbn [pools]. intros p' Hp'. apply in_map_iff in Hp'. destruct Hp' as (p & <- & Hp).
  exists p. destruct (H p Hp) as [A B]. auto.
Qed.
Lemma sub_release_all v f x s r : sub r (release_all v f x s r).
Proof.
  unfold release_all. apply sub_map. intros p _. destruct (fam_eqb (p_fam p) f); [|auto].
  destruct (raw_slot (p_geom p) x) as [sl|]; [|auto]. split; [apply pool_release_sig|apply release_lease_sub].
Qed.
Lemma sub_upd_release v r p0 sl s : In p0 (pools r) -> sub r (upd_pool r (pool_release v p0 sl s)).
Proof.
  intros H0. unfold upd_pool. split; [reflexivity|]. cbn [pools]. intros p' Hp'.
  apply in_map_iff in Hp'. destruct Hp' as (p & E & Hp).
  destruct (same_pool p (pool_release v p0 sl s)).
  - subst p'. exists p0. split; [exact H0|split; [symmetry; apply pool_release_sig|apply release_lease_sub]].
  - subst p'. exists p. auto.
Qed.
Lemma sub_release_pool v f key x s r : sub r (release_pool v f key x s r).
Proof.
  unfold release_pool. destruct (find _ (fam_pools f r)) as [p|] eqn:E; [|apply sub_refl].
  destruct (raw_slot (p_geom p) x) as [sl|]; [|apply sub_refl].
  apply sub_upd_release. apply find_in in E. destruct E as [E _]. apply fam_pools_in in E. apply E.
Qed.
Lemma release_static_nil f x vrf s r : statics r = [] -> release_static Repaired f x vrf s r = r.
Proof. intros H. unfold release_static. change (d5 Repaired) with false. cbv iota. rewrite H. reflexivity. Qed.
Lemma release_static_eq f x vrf s r :
  statics r = [] -> release_static Head f x vrf s r = release_static Repaired f x vrf s r.
Proof. intros H. rewrite release_static_nil; [reflexivity|exact H]. Qed.
Lemma sub_release_ip f x vrf s r r' : statics r = [] -> In r' (release_ip Repaired f x vrf s r) -> sub r r'.
Proof.
  intros Hst. unfold release_ip. rewrite (release_static_nil _ _ _ _ _ Hst).
  assert (HD : In r' (match filter (fun p => contains p x) (fam_pools FD r) with
                      | [] => [r]
                      | cs => map (fun p => match slot_of (p_geom p) x with
                                            | Some sl => upd_pool r (pool_release Repaired p sl s)
                                            | None => r end) cs
                      end) -> sub r r').
  { destruct (filter (fun p => contains p x) (fam_pools FD r)) as [|c cs] eqn:Ef.
    - intros [<-|[]]. apply sub_refl.
    - intros Hin. apply in_map_iff in Hin. destruct Hin as (p & E & Hp).
      assert (Hpf : In p (filter (fun p => contains p x) (fam_pools FD r))) by (rewrite Ef; exact Hp).
      apply filter_In in Hpf. destruct Hpf as [Hpf _]. apply fam_pools_in in Hpf.
      destruct (slot_of (p_geom p) x); subst r'; [apply sub_upd_release; apply Hpf|apply sub_refl]. }
  destruct f; [intros [<-|[]]; apply sub_release_all|intros [<-|[]]; apply sub_release_all|exact HD].
Qed.

Lemma slot_raw g x sl : slot_of g x = Some sl -> raw_slot g x = Some sl.
Proof.
  destruct g as [lo hi ex|b pl c sh]; [|auto]. cbn [slot_of raw_slot].
  destruct ((lo <=? fst x) && (fst x <=? hi)); [auto|discriminate].
Qed.
Lemma release_all_eq f x s r : RelSafe r f x s -> release_all Head f x s r = release_all Repaired f x s r.
Proof.
  intros H. unfold release_all. f_equal. apply map_ext_in. intros p Hp.
  destruct (fam_eqb (p_fam p) f) eqn:Ef; [|reflexivity]. apply fam_eqb_spec in Ef.
  destruct (raw_slot (p_geom p) x) as [sl|] eqn:Es; [|reflexivity].
  apply trigger_release. intros o Ho. exact (H p sl o Hp Ef Es Ho).
Qed.
Lemma release_pool_eq f key x s r : RelSafe r f x s -> release_pool Head f key x s r = release_pool Repaired f key x s r.
Proof.
  intros H. unfold release_pool. destruct (find _ (fam_pools f r)) as [p|] eqn:E; [|reflexivity].
  destruct (raw_slot (p_geom p) x) as [sl|] eqn:Es; [|reflexivity].
  apply find_in in E. destruct E as [E _]. apply fam_pools_in in E. destruct E as [Hp Hf].
  rewrite (trigger_release p sl s); [reflexivity|]. intros o Ho. exact (H p sl o Hp Hf Es Ho).
Qed.
Lemma release_ip_eq f x vrf s r :
  statics r = [] -> RelSafe r f x s -> release_ip Head f x vrf s r = release_ip Repaired f x vrf s r.
Proof.
  intros Hst H. unfold release_ip. rewrite (release_static_eq _ _ _ _ _ Hst), (release_static_nil _ _ _ _ _ Hst).
  destruct f; try (rewrite (release_all_eq _ _ _ _ H); reflexivity).
  destruct (filter (fun p => contains p x) (fam_pools FD r)) as [|c cs] eqn:Ef; [reflexivity|].
  apply map_ext_in. intros p Hp.
  assert (Hpf : In p (filter (fun p => contains p x) (fam_pools FD r))) by (rewrite Ef; exact Hp).
  apply filter_In in Hpf. destruct Hpf as [Hpf _]. apply fam_pools_in in Hpf. destruct Hpf as [Hin Hf].
  destruct (slot_of (p_geom p) x) as [sl|] eqn:Es; [|reflexivity].
  rewrite (trigger_release p sl s); [reflexivity|]. intros o Ho. exact (H p sl o Hin Hf (slot_raw _ _ _ Es) Ho).
Qed.

(* "release this address: by pool name when one was recorded, else by address" and "release this item by address" *)
Definition rel_named (v : variant) (f : fam) (a pk : option N) (vrf s : N) (r : reg) : list reg :=
  match a with
  | Some a => match pk with
              | Some k => [release_pool v f k (addr_item a) s r]
              | None => release_ip v f (addr_item a) vrf s r
              end
  | None => [r]
  end.
Definition rel_item (v : variant) (f : fam) (x : option item) (vrf s : N) (r : reg) : list reg :=
  match x with Some x => release_ip v f x vrf s r | None => [r] end.
Lemma rel_named_eq f a pk vrf s r :
  statics r = [] -> ORelSafe r f (oitem a) s -> rel_named Head f a pk vrf s r = rel_named Repaired f a pk vrf s r.
Proof.
  intros Hst H. unfold rel_named. destruct a as [a|]; [|reflexivity]. pose proof (H _ eq_refl) as Hr.
  destruct pk as [k|]; [rewrite (release_pool_eq _ _ _ _ _ Hr); reflexivity|apply release_ip_eq; auto].
Qed.
Lemma rel_named_sub f a pk vrf s r r' : statics r = [] -> In r' (rel_named Repaired f a pk vrf s r) -> sub r r'.
Proof.
  intros Hst. unfold rel_named. destruct a as [a|]; [|intros [<-|[]]; apply sub_refl].
  destruct pk as [k|]; [intros [<-|[]]; apply sub_release_pool|apply sub_release_ip; exact Hst].
Qed.
Lemma rel_item_eq f x vrf s r :
  statics r = [] -> ORelSafe r f x s -> rel_item Head f x vrf s r = rel_item Repaired f x vrf s r.
Proof. intros Hst H. unfold rel_item. destruct x as [x|]; [|reflexivity]. apply release_ip_eq; auto. Qed.
Lemma rel_item_sub f x vrf s r r' : statics r = [] -> In r' (rel_item Repaired f x vrf s r) -> sub r r'.
Proof.
  intros Hst. unfold rel_item. destruct x as [x|]; [apply sub_release_ip; exact Hst|intros [<-|[]]; apply sub_refl].
Qed.
Lemma sub_statics r r' : sub r r' -> statics r = [] -> statics r' = [].
Proof. intros [E _] H. congruence. Qed.

(* PPPoE terminate *)
Definition pt_safe (st : state) (s : sess) : Prop :=
  let r := st_reg st in
  statics r = [] /\ ORelSafe r F4 (oitem (s_a4 s)) (s_id s) /\ ORelSafe r F6 (oitem (s_a6 s)) (s_id s) /\
  ORelSafe r FD (s_ad s) (s_id s).
Lemma step_pt_shape v st s :
  step_pt v st s =
  bindl (rel_named v F4 (s_a4 s) (s_p4 s) (s_vrf s) (s_id s) (st_reg st)) (fun r1 =>
    bindl (rel_named v F6 (s_a6 s) (s_p6 s) (s_vrf s) (s_id s) r1) (fun r2 =>
      map (fun r3 => (mkState r3 (put_sess (set_live s false) (st_sess st)) (st_prov st), OPt))
          (rel_item v FD (s_ad s) (s_vrf s) (s_id s) r2))).
Proof. reflexivity. Qed.
Lemma step_pt_eq st s : pt_safe st s -> step_pt Head st s = step_pt Repaired st s.
Proof.
  intros (Hst & R4 & R6 & RD). rewrite !step_pt_shape.
  rewrite (rel_named_eq _ _ _ _ _ _ Hst R4). apply bindl_ext_in. intros r1 H1.
  pose proof (rel_named_sub _ _ _ _ _ _ _ Hst H1) as S1. pose proof (sub_statics _ _ S1 Hst) as Hst1.
  rewrite (rel_named_eq _ _ _ _ _ _ Hst1 (ORelSafe_sub _ _ _ _ _ S1 R6)). apply bindl_ext_in. intros r2 H2.
  pose proof (rel_named_sub _ _ _ _ _ _ _ Hst1 H2) as S2. pose proof (sub_statics _ _ S2 Hst1) as Hst2.
  rewrite (rel_item_eq _ _ _ _ _ Hst2 (ORelSafe_sub _ _ _ _ _ S2 (ORelSafe_sub _ _ _ _ _ S1 RD))). reflexivity.
Qed.

(* provider lease tables *)
Definition mac_lease (pr : prov) (mac : N) : option lease :=
  match assoc mac (by_mac pr) with Some id => lassoc id (objs pr) | None => None end.
Definition prov_safe (r : reg) (pr : prov) (mac s : N) : Prop :=
  forall l, mac_lease pr mac = Some l -> RelSafe r F4 (l_ip l, 0) s.
Lemma prov_release_eq pr r mac s :
  prov_safe r pr mac s -> prov_release Head pr r mac s = prov_release Repaired pr r mac s.
Proof.
  intros H. unfold prov_release. unfold prov_safe, mac_lease in H.
  destruct (assoc mac (by_mac pr)) as [id|]; [|reflexivity]. destruct (lassoc id (objs pr)) as [l|]; [|reflexivity].
  destruct (l_pool l) as [k|]; [|reflexivity]. rewrite (release_pool_eq _ _ _ _ _ (H l eq_refl)). reflexivity.
Qed.
Lemma prov_release_sub v pr r mac s pr' r' : prov_release v pr r mac s = (pr', r') -> sub r r'.
Proof.
  unfold prov_release. destruct (assoc mac (by_mac pr)) as [id|]; [|intros E; inversion E; apply sub_refl].
  destruct (lassoc id (objs pr)) as [l|]; [|intros E; inversion E; apply sub_refl].
  intros E; inversion E. destruct (l_pool l); [apply sub_release_pool|apply sub_refl].
Qed.
Lemma prov_safe_sub r r' pr mac s : sub r r' -> prov_safe r pr mac s -> prov_safe r' pr mac s.
Proof. intros Hs H l Hl. eapply RelSafe_sub; eauto. Qed.

Definition prov6_safe (r : reg) (q : prov6) (duid s : N) : Prop :=
  (forall a t pool, passoc duid (n_iana q) = Some (a, t, pool) -> RelSafe r F6 (a, 0) s) /\
  (forall x t pool, passoc duid (n_pd q) = Some (x, t, pool) -> RelSafe r FD x s).
Lemma prov6_release_eq q r duid s :
  prov6_safe r q duid s -> prov6_release Head q r duid s = prov6_release Repaired q r duid s.
Proof.
  intros [H6 HD]. unfold prov6_release.
  destruct (passoc duid (n_iana q)) as [[[a t] pool]|] eqn:E6.
  - assert (E : match pool with Some k => release_pool Head F6 k (a, 0) s r | None => r end =
                match pool with Some k => release_pool Repaired F6 k (a, 0) s r | None => r end).
    { destruct pool as [k|]; [|reflexivity]. apply release_pool_eq. eapply H6; reflexivity. }
    rewrite E. cbn [n_pd].
    destruct (passoc duid (n_pd q)) as [[[x t'] pool']|] eqn:ED; [|reflexivity].
    destruct pool' as [k'|]; [|reflexivity].
    rewrite release_pool_eq; [reflexivity|].
    assert (S : sub r (match pool with Some k => release_pool Repaired F6 k (a, 0) s r | None => r end))
      by (destruct pool; [apply sub_release_pool|apply sub_refl]).
    eapply RelSafe_sub; [exact S|]. eapply HD; reflexivity.
  - destruct (passoc duid (n_pd q)) as [[[x t'] pool']|] eqn:ED; [|reflexivity].
    destruct pool' as [k'|]; [|reflexivity]. rewrite release_pool_eq; [reflexivity|]. eapply HD; reflexivity.
Qed.
Lemma prov6_release_sub v q r duid s q' r' : prov6_release v q r duid s = (q', r') -> sub r r'.
Proof.
  unfold prov6_release.
  destruct (passoc duid (n_iana q)) as [[[a t] pool]|].
  - cbn [n_pd]. assert (S : sub r (match pool with Some k => release_pool v F6 k (a, 0) s r | None => r end))
      by (destruct pool; [apply sub_release_pool|apply sub_refl]).
    destruct (passoc duid (n_pd q)) as [[[x t'] pool']|]; intros E; inversion E; [|exact S].
    destruct pool'; [eapply sub_trans; [exact S|apply sub_release_pool]|exact S].
  - destruct (passoc duid (n_pd q)) as [[[x t'] pool']|]; intros E; inversion E; [|apply sub_refl].
    destruct pool'; [apply sub_release_pool|apply sub_refl].
Qed.
Lemma prov6_safe_sub r r' q duid s : sub r r' -> prov6_safe r q duid s -> prov6_safe r' q duid s.
Proof. intros Hs [A B]. split; intros; eapply RelSafe_sub; eauto. Qed.

Lemma prov_release_p6 v pr r mac s pr' r' : prov_release v pr r mac s = (pr', r') -> p6 pr' = p6 pr.
Proof.
  unfold prov_release. destruct (assoc mac (by_mac pr)) as [id|]; [|intros E; inversion E; reflexivity].
  destruct (lassoc id (objs pr)) as [l|]; intros E; inversion E; reflexivity.
Qed.

(* IPoE releases: DHCPRELEASE / reaper stand-in (IR), admin terminate (IT), DHCPv6 RELEASE (IL) *)
Definition rel_safe (st : state) (s : sess) : Prop :=
  let r := st_reg st in
  statics r = [] /\ ORelSafe r F4 (oitem (s_b4 s)) (s_id s) /\ ORelSafe r F6 (oitem (s_b6 s)) (s_id s) /\
  ORelSafe r FD (s_bd s) (s_id s) /\ prov_safe r (st_prov st) (s_mac s) (s_id s) /\
  prov6_safe r (p6 (st_prov st)) (s_mac s) (s_id s).

Lemma step_rel_shape v st s ir r6 :
  step_rel v st s ir r6 =
  bindl (rel_item v F4 (oitem (s_b4 s)) (s_vrf s) (s_id s) (st_reg st)) (fun r1 =>
    let '(pr', r2) := if ir then prov_release v (st_prov st) r1 (s_mac s) (s_id s) else (st_prov st, r1) in
    bindl (rel_item v F6 (oitem (s_b6 s)) (s_vrf s) (s_id s) r2) (fun r3 =>
      map (fun r4 =>
             let '(q', r5) := if r6 then prov6_release v (p6 pr') r4 (s_mac s) (s_id s) else (p6 pr', r4) in
             (mkState r5 (put_sess (set_live s false) (st_sess st)) (unckpt (with_p6 pr' q') (s_id s)), ORel ir))
          (rel_item v FD (s_bd s) (s_vrf s) (s_id s) r3))).
Proof. unfold step_rel, rel_item. destruct (s_b4 s), (s_b6 s); reflexivity. Qed.

Lemma step_rel_eq st s ir r6 : rel_safe st s -> step_rel Head st s ir r6 = step_rel Repaired st s ir r6.
Proof.
  intros (Hst & R4 & R6 & RD & P4 & P6). rewrite !step_rel_shape.
  rewrite (rel_item_eq _ _ _ _ _ Hst R4). apply bindl_ext_in. intros r1 H1.
  pose proof (rel_item_sub _ _ _ _ _ _ Hst H1) as S1. pose proof (sub_statics _ _ S1 Hst) as Hst1.
  assert (E2 : (if ir then prov_release Head (st_prov st) r1 (s_mac s) (s_id s) else (st_prov st, r1)) =
               (if ir then prov_release Repaired (st_prov st) r1 (s_mac s) (s_id s) else (st_prov st, r1))).
  { destruct ir; [|reflexivity]. apply prov_release_eq. eapply prov_safe_sub; eauto. }
  rewrite E2.
  destruct (if ir then prov_release Repaired (st_prov st) r1 (s_mac s) (s_id s) else (st_prov st, r1))
    as [pr' r2] eqn:Epr.
  assert (S2 : sub r1 r2 /\ p6 pr' = p6 (st_prov st)).
  { destruct ir; [|inversion Epr; subst; split; [apply sub_refl|reflexivity]].
    split; [eapply prov_release_sub; eauto|eapply prov_release_p6; eauto]. }
  destruct S2 as [S2 Ep6]. pose proof (sub_trans _ _ _ S1 S2) as S02. pose proof (sub_statics _ _ S02 Hst) as Hst2.
  rewrite (rel_item_eq _ _ _ _ _ Hst2 (ORelSafe_sub _ _ _ _ _ S02 R6)). apply bindl_ext_in. intros r3 H3.
  pose proof (rel_item_sub _ _ _ _ _ _ Hst2 H3) as S3. pose proof (sub_trans _ _ _ S02 S3) as S03.
  pose proof (sub_statics _ _ S03 Hst) as Hst3.
  rewrite (rel_item_eq _ _ _ _ _ Hst3 (ORelSafe_sub _ _ _ _ _ S03 RD)). apply map_ext_in. intros r4 H4.
  pose proof (rel_item_sub _ _ _ _ _ _ Hst3 H4) as S4. pose proof (sub_trans _ _ _ S03 S4) as S04.
  destruct r6; [|reflexivity].
  rewrite Ep6. rewrite (prov6_release_eq _ _ _ _ (prov6_safe_sub _ _ _ _ _ S04 P6)). reflexivity.
Qed.

Lemma step_rel4p_shape v st s :
  step_rel4p v st s =
  map (fun r1 => let '(pr', r2) := prov_release v (st_prov st) r1 (s_mac s) (s_id s) in
                 let s' := drop4 s in (mkState r2 (put_sess s' (st_sess st)) (ckpt pr' s'), ORel true))
      (rel_item v F4 (oitem (s_b4 s)) (s_vrf s) (s_id s) (st_reg st)).
Proof. unfold step_rel4p, rel_item. destruct (s_b4 s); reflexivity. Qed.
Lemma step_rel4p_eq st s : rel_safe st s -> step_rel4p Head st s = step_rel4p Repaired st s.
Proof.
  intros (Hst & R4 & _ & _ & P4 & _). rewrite !step_rel4p_shape.
  rewrite (rel_item_eq _ _ _ _ _ Hst R4). apply map_ext_in. intros r1 H1.
  pose proof (rel_item_sub _ _ _ _ _ _ Hst H1) as S1.
  rewrite (prov_release_eq _ _ _ _ (prov_safe_sub _ _ _ _ _ S1 P4)). reflexivity.
Qed.

Lemma step_rel6_shape v st s :
  step_rel6 v st s =
  let '(q1, r1) := prov6_release v (p6 (st_prov st)) (st_reg st) (s_mac s) (s_id s) in
  bindl (rel_item v F6 (oitem (s_b6 s)) (s_vrf s) (s_id s) r1) (fun r2 =>
    map (fun r3 =>
           let pr1 := with_p6 (st_prov st) q1 in
           match s_b4 s with
           | Some _ => let s' := drop6 s in (mkState r3 (put_sess s' (st_sess st)) (ckpt pr1 s'), ORel6)
           | None => let '(pr2, r4) := prov_release v pr1 r3 (s_mac s) (s_id s) in
                     (mkState r4 (put_sess (set_live s false) (st_sess st)) (unckpt pr2 (s_id s)), ORel6)
           end) (rel_item v FD (s_bd s) (s_vrf s) (s_id s) r2)).
Proof. unfold step_rel6, rel_item. destruct (s_b6 s); reflexivity. Qed.
Lemma step_rel6_eq st s : rel_safe st s -> step_rel6 Head st s = step_rel6 Repaired st s.
Proof.
  intros (Hst & _ & R6 & RD & P4 & P6). rewrite !step_rel6_shape.
  rewrite (prov6_release_eq _ _ _ _ P6).
  destruct (prov6_release Repaired (p6 (st_prov st)) (st_reg st) (s_mac s) (s_id s)) as [q1 r1] eqn:Eq.
  pose proof (prov6_release_sub _ _ _ _ _ _ _ Eq) as S1. pose proof (sub_statics _ _ S1 Hst) as Hst1.
  rewrite (rel_item_eq _ _ _ _ _ Hst1 (ORelSafe_sub _ _ _ _ _ S1 R6)). apply bindl_ext_in. intros r2 H2.
  pose proof (rel_item_sub _ _ _ _ _ _ Hst1 H2) as S2. pose proof (sub_trans _ _ _ S1 S2) as S02.
  pose proof (sub_statics _ _ S02 Hst) as Hst2.
  rewrite (rel_item_eq _ _ _ _ _ Hst2 (ORelSafe_sub _ _ _ _ _ S02 RD)). apply map_ext_in. intros r3 H3.
  pose proof (rel_item_sub _ _ _ _ _ _ Hst2 H3) as S3. pose proof (sub_trans _ _ _ S02 S3) as S03.
  destruct (s_b4 s); [reflexivity|].
  assert (PS : prov_safe r3 (with_p6 (st_prov st) q1) (s_mac s) (s_id s)).
  { intros l Hl. eapply RelSafe_sub; [exact S03|]. apply P4. exact Hl. }
  cbv zeta. rewrite (prov_release_eq _ _ _ _ PS). reflexivity.
Qed.

(* ================================================================== the boolean the driver evaluates *)
Definition addr_safeb (r : reg) (f : fam) (vrf : N) (x : item) : bool :=
  let cs := filter (fun p => contains p x) (fam_pools f r) in
  negb (isnil cs) && forallb (fun p => p_vrf p =? vrf) cs.
Definition oaddr_safeb (r : reg) (f : fam) (vrf : N) (x : option item) : bool :=
  match x with Some i => addr_safeb r f vrf i | None => true end.
Definition ov_safeb (r : reg) (f : fam) (vrf : N) (ov : option N) : bool :=
  match ov with
  | Some k => forallb (fun p => negb (p_key p =? k) || (p_vrf p =? vrf)) (fam_pools f r)
  | None => true
  end.
Definition rel_safeb (r : reg) (f : fam) (x : item) (s : N) : bool :=
  forallb (fun p => negb (fam_eqb (p_fam p) f) ||
                    match raw_slot (p_geom p) x with
                    | Some sl => match lease_of p sl with Some o => o =? s | None => true end
                    | None => true
                    end) (pools r).
Definition orel_safeb (r : reg) (f : fam) (x : option item) (s : N) : bool :=
  match x with Some i => rel_safeb r f i s | None => true end.
Definition prov_safeb (r : reg) (pr : prov) (mac s : N) : bool :=
  match mac_lease pr mac with Some l => rel_safeb r F4 (l_ip l, 0) s | None => true end.
Definition prov6_safeb (r : reg) (q : prov6) (duid s : N) : bool :=
  match passoc duid (n_iana q) with Some (a, _, _) => rel_safeb r F6 (a, 0) s | None => true end &&
  match passoc duid (n_pd q) with Some (x, _, _) => rel_safeb r FD x s | None => true end.

Lemma addr_safeb_spec r f vrf x : addr_safeb r f vrf x = true -> AddrSafe r f vrf x.
Proof.
  unfold addr_safeb. intros H. apply andb_true_iff in H. destruct H as [Hn Hall].
  rewrite forallb_forall in Hall. split.
  - destruct (filter (fun p => contains p x) (fam_pools f r)) as [|c cs] eqn:Ef; [discriminate|].
    assert (Hc : In c (filter (fun p => contains p x) (fam_pools f r))) by (rewrite Ef; left; reflexivity).
    apply filter_In in Hc. exists c. exact Hc.
  - intros p Hp Hc. apply N.eqb_eq. apply Hall. apply filter_In. auto.
Qed.
Lemma oaddr_safeb_spec r f vrf x : oaddr_safeb r f vrf x = true -> OAddrSafe r f vrf x.
Proof. intros H i ->. apply addr_safeb_spec. exact H. Qed.
Lemma ov_safeb_spec r f vrf ov : ov_safeb r f vrf ov = true -> OvSafe r f vrf ov.
Proof.
  intros H k p -> Hp Hk. cbn [ov_safeb] in H. rewrite forallb_forall in H. specialize (H p Hp).
  apply orb_true_iff in H. destruct H as [H|H]; [|apply N.eqb_eq; exact H].
  apply negb_true_iff in H. apply N.eqb_neq in H. contradiction.
Qed.
Lemma rel_safeb_spec r f x s : rel_safeb r f x s = true -> RelSafe r f x s.
Proof.
  unfold rel_safeb. rewrite forallb_forall. intros H p sl o Hp Hf Hs Hl. specialize (H p Hp).
  apply orb_true_iff in H. destruct H as [H|H].
  - apply negb_true_iff in H. assert (fam_eqb (p_fam p) f = true) by (apply fam_eqb_spec; exact Hf). congruence.
  - rewrite Hs, Hl in H. apply N.eqb_eq in H. exact H.
Qed.
Lemma orel_safeb_spec r f x s : orel_safeb r f x s = true -> ORelSafe r f x s.
Proof. intros H i ->. apply rel_safeb_spec. exact H. Qed.
Lemma prov_safeb_spec r pr mac s : prov_safeb r pr mac s = true -> prov_safe r pr mac s.
Proof. unfold prov_safeb. intros H l Hl. rewrite Hl in H. apply rel_safeb_spec. exact H. Qed.
Lemma prov6_safeb_spec r q duid s : prov6_safeb r q duid s = true -> prov6_safe r q duid s.
Proof.
  unfold prov6_safeb. intros H. apply andb_true_iff in H. destruct H as [A B]. split.
  - intros a t pool E. rewrite E in A. apply rel_safeb_spec. exact A.
  - intros x t pool E. rewrite E in B. apply rel_safeb_spec. exact B.
Qed.

Definition pa_safeb (st : state) (s : sess) (vrf : N) (s4 s6 : option N) (spd : option item) (o4 o6 : option N) : bool :=
  let r := st_reg st in
  let ov4 := match s_prof4 s with Some _ => o4 | None => None end in
  let ov6 := match s_prof6 s with Some _ => o6 | None => None end in
  let cur4 := match s4 with Some _ => s4 | None => s_a4 s end in
  let cur6 := match s6 with Some _ => s6 | None => s_a6 s end in
  let curd := match spd with Some _ => spd | None => s_ad s end in
  oaddr_safeb r F4 vrf (oitem cur4) && ov_safeb r F4 vrf ov4 &&
  oaddr_safeb r F6 vrf (oitem cur6) && ov_safeb r F6 vrf ov6 && oaddr_safeb r FD vrf curd.
Definition id_safeb (st : state) (s0 : sess) : bool :=
  oaddr_safeb (st_reg st) F4 (s_vrf s0) (oitem (s_a4 s0)) && ov_safeb (st_reg st) F4 (s_vrf s0) (s_ov4 s0).
Definition is_safeb (st : state) (s0 : sess) : bool :=
  oaddr_safeb (st_reg st) F6 (s_vrf s0) (oitem (s_a6 s0)) && ov_safeb (st_reg st) F6 (s_vrf s0) (s_ov6 s0) &&
  oaddr_safeb (st_reg st) FD (s_vrf s0) (s_ad s0) && ov_safeb (st_reg st) FD (s_vrf s0) (s_ovd s0).
Definition pt_safeb (st : state) (s : sess) : bool :=
  let r := st_reg st in
  isnil (statics r) && orel_safeb r F4 (oitem (s_a4 s)) (s_id s) && orel_safeb r F6 (oitem (s_a6 s)) (s_id s) &&
  orel_safeb r FD (s_ad s) (s_id s).
Definition rel_safeb_sess (st : state) (s : sess) : bool :=
  let r := st_reg st in
  isnil (statics r) && orel_safeb r F4 (oitem (s_b4 s)) (s_id s) && orel_safeb r F6 (oitem (s_b6 s)) (s_id s) &&
  orel_safeb r FD (s_bd s) (s_id s) && prov_safeb r (st_prov st) (s_mac s) (s_id s) &&
  prov6_safeb r (p6 (st_prov st)) (s_mac s) (s_id s).

(* INPUT-level condition for one step: what the AAA answer supplies (and what the session already has) lies in a
   pool of the subscriber's VRF and in no pool of another one; overrides name no foreign-VRF pool; a release only
   touches slots that are free or leased to the releasing session; the out-of-pool ledger is empty.  Restart is
   not covered (its re-reservation conflicts depend on the whole image store). *)
Definition safe_step (st : state) (o : op) : bool :=
  match o with
  | PA sid vrf s4 s6 spd o4 o6 od =>
      match find_sess sid st with
      | Some s => if s_ppp s && s_live s then pa_safeb st s vrf s4 s6 spd o4 o6 else true
      | None => true
      end
  | PT sid => match find_sess sid st with Some s => if s_ppp s then pt_safeb st s else true | None => true end
  | ID isreq bind rq sid vrf s4 o4 =>
      match find_sess sid st with
      | Some s => if negb (s_ppp s) && s_live s then id_safeb st (id_ctx s vrf s4 o4) else true
      | None => true
      end
  | IS isreq sid vrf s6 spd o6 od =>
      match find_sess sid st with
      | Some s => if negb (s_ppp s) && s_live s then is_safeb st (mark_duid isreq (is_ctx s vrf s6 spd o6 od)) else true
      | None => true
      end
  | IR sid | IL sid | IT sid | IE sid =>
      match find_sess sid st with
      | Some s => if negb (s_ppp s) && s_live s then rel_safeb_sess st s else true
      | None => true
      end
  | Restart => false
  | HR _ _ _ _ => true          (* no open finding touches Reserve*InPool *)
  | HL _ _ _ _ => false         (* Release*InPool has no owner argument (d2): not covered by the condition *)
  | PS _ _ | PR _ | PX _ => false   (* PPPoE DHCPv6 over PPP: not covered by the condition (releases by address, d2) *)
  | PI _ _ | IA _ | IM _ | IC _ _ _ _ _ _ _ _ => true
  end.

Lemma isnil_spec {A} (l : list A) : isnil l = true -> l = [].
Proof. destruct l; [reflexivity|discriminate]. Qed.
Lemma pa_safeb_spec st s vrf s4 s6 spd o4 o6 : pa_safeb st s vrf s4 s6 spd o4 o6 = true -> pa_safe st s vrf s4 s6 spd o4 o6.
Proof.
  unfold pa_safeb, pa_safe. cbv zeta. intros H. repeat (apply andb_true_iff in H; destruct H as [H ?]).
  split; [|split; [|split; [|split]]]; auto using oaddr_safeb_spec, ov_safeb_spec.
Qed.
Lemma id_safeb_spec st s0 : id_safeb st s0 = true -> id_safe st s0.
Proof. unfold id_safeb, id_safe. intros H. apply andb_true_iff in H. destruct H. auto using oaddr_safeb_spec, ov_safeb_spec. Qed.
Lemma is_safeb_spec st s0 : is_safeb st s0 = true -> is_safe st s0.
Proof.
  unfold is_safeb, is_safe. cbv zeta. intros H. repeat (apply andb_true_iff in H; destruct H as [H ?]).
  split; [|split; [|split]]; auto using oaddr_safeb_spec, ov_safeb_spec.
Qed.
Lemma pt_safeb_spec st s : pt_safeb st s = true -> pt_safe st s.
Proof.
  unfold pt_safeb, pt_safe. cbv zeta. intros H. repeat (apply andb_true_iff in H; destruct H as [H ?]).
  split; [|split; [|split]]; auto using orel_safeb_spec, isnil_spec.
Qed.
Lemma rel_safeb_sess_spec st s : rel_safeb_sess st s = true -> rel_safe st s.
Proof.
  unfold rel_safeb_sess, rel_safe. cbv zeta. intros H. repeat (apply andb_true_iff in H; destruct H as [H ?]).
  split; [|split; [|split; [|split; [|split]]]]; auto using orel_safeb_spec, isnil_spec, prov_safeb_spec, prov6_safeb_spec.
Qed.

Lemma head_step_safe st o :
  reg_ok (st_reg st) -> safe_step st o = true -> step Head st o = step Repaired st o.
Proof.
  intros Hok. unfold safe_step, step.
  destruct o as [sid vrf s4 s6 spd o4 o6 od|sid a|sid|isreq bind rq sid vrf s4 o4|isreq sid vrf s6 spd o6 od|sid|sid| |sid|sid|sid|sid vrf s4 o4 s6 spd o6 od|sid|hf key hx sid|hf key hx sid|isreq sid|sid|sid];
    try discriminate; try reflexivity;
    destruct (find_sess sid st) as [s|]; try reflexivity.
  - destruct (s_ppp s && s_live s); [|reflexivity]. intros H. apply step_pa_eq; [exact Hok|apply pa_safeb_spec; exact H].
  - destruct (s_ppp s); [|reflexivity]. intros H. apply step_pt_eq. apply pt_safeb_spec; exact H.
  - destruct (negb (s_ppp s) && s_live s); [|reflexivity]. intros H. unfold step_id.
    apply step_id_core_eq. apply id_safeb_spec; exact H.
  - destruct (negb (s_ppp s) && s_live s); [|reflexivity]. intros H. unfold step_is.
    apply step_is_core_eq; [exact Hok|apply is_safeb_spec; exact H].
  - destruct (negb (s_ppp s) && s_live s); [|reflexivity]. intros H. apply rel_safeb_sess_spec in H.
    destruct (v6bound s); [apply step_rel4p_eq; exact H|apply step_rel_eq; exact H].
  - destruct (negb (s_ppp s) && s_live s); [|reflexivity]. intros H. apply step_rel6_eq. apply rel_safeb_sess_spec; exact H.
  - destruct (negb (s_ppp s) && s_live s); [|reflexivity]. intros H. apply step_rel_eq. apply rel_safeb_sess_spec; exact H.
  - destruct (negb (s_ppp s) && s_live s); [|reflexivity]. intros H. apply step_rel_eq. apply rel_safeb_sess_spec; exact H.
Qed.

(* histories all of whose steps meet the input-level condition *)
Inductive reach_safe (st0 : state) : state -> Prop :=
| rs_init : reach_safe st0 st0
| rs_step st o st' ot : reach_safe st0 st -> safe_step st o = true ->
                        In (st', ot) (step Head st o) -> reach_safe st0 st'.

Lemma reach_safe_benign ps ss st :
  NoDup (map pool_id ps) -> Forall pool_wf ps -> kinds_ok (mkReg ps []) -> resettable (mkReg ps []) ->
  NoDup (map s_id ss) -> Forall fresh_sess ss ->
  reach_safe (init_state ps ss) st -> reach_benign (init_state ps ss) st.
Proof.
  intros Hnd Hwf Hk Hrs Hns Hfr Hr. induction Hr as [|st o st' ot Hr IH Hs Hin]; [constructor|].
  assert (Hok : reg_ok (st_reg st)).
  { pose proof (reach_benign_repaired _ _ IH) as HR.
    assert (Hinv : inv K1 st).
    { eapply (reach_inv K1 K1_shape (fun r H => proj1 H) (fun r H => proj2 H)); [|exact HR].
      apply init_inv; auto. split; auto. }
    destruct Hinv as [[Hok _] _]. exact Hok. }
  exact (rb_step _ st o st' ot IH (head_step_safe st o Hok Hs) Hin).
Qed.

Lemma head_unique_safe ps ss st :
  NoDup (map pool_id ps) -> Forall pool_wf ps -> kinds_ok (mkReg ps []) -> resettable (mkReg ps []) ->
  pools_disjoint (mkReg ps []) ->
  NoDup (map s_id ss) -> Forall fresh_sess ss ->
  reach_safe (init_state ps ss) st ->
  forall s1 s2 f x, In s1 (st_sess st) -> In s2 (st_sess st) -> s_vrf s1 = s_vrf s2 ->
    holds s1 f = Some x -> holds s2 f = Some x -> s1 = s2.
Proof.
  intros Hnd Hwf Hk Hrs Hd Hns Hfr Hr. eapply head_unique; eauto. apply reach_safe_benign; auto.
Qed.

(* executable check of a whole history along the first candidates (for witnesses) *)
Fixpoint all_safe (st : state) (ops : list op) : bool :=
  match ops with
  | [] => true
  | o :: r => safe_step st o && match step Head st o with (st', _) :: _ => all_safe st' r | [] => true end
  end.
Lemma all_safe_reach st0 ops : forall st, reach_safe st0 st -> all_safe st ops = true ->
  reach_safe st0 (run_first Head st ops).
Proof.
  induction ops as [|o r IH]; cbn [all_safe run_first]; intros st Hr H; [exact Hr|].
  apply andb_true_iff in H. destruct H as [Hs H].
  destruct (step Head st o) as [|[st' ot] cs] eqn:E; [exact Hr|].
  apply IH; [|exact H]. eapply rs_step; [exact Hr|exact Hs|]. rewrite E. left; reflexivity.
Qed.
