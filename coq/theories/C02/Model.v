(* C02/Model.v — executable model of the address-relevant behaviour of
     pkg/allocator/pool.go, prefix.go     PoolAllocator / PrefixAllocator (Allocate, Reserve, Release, Contains)
     pkg/allocator/registry.go            AllocateFromProfile / AllocateIANAFromProfile / AllocatePDFromProfile,
                                          ReserveIP / ReserveIANA / ReservePD (containment walk, Go map order),
                                          Release / ReleaseIANA / ReleasePD (by pool), ReleaseIP / ReleaseIANAByIP
                                          (all pools), ReleasePDByPrefix (first containing pool)
     pkg/allocator/context.go             NewContext (AAA attributes are read per family only when a profile exists)
     pkg/dhcp/resolve.go                  ResolveV4, ResolveV6 (address decisions only)
     plugins/dhcp4/local/provider.go      reserveIP (renew / expiry take-over / conflict), ReleaseLease
     internal/pppoe/session.go            startNCP (allocate / reserve / 100.64.0.1 fall-back), onIPCPUp,
                                          terminate; pkg/ppp/ipcp.go ProcessConfReq (address option)
     internal/ipoe                        the release sequences of handleRelease (IR), handleDHCPv6Release (IL),
                                          handleSubscriberTerminate (IT) and the reaper of cleanupSessions (IE)
   Definitions only; proofs are in Proofs.v.

   Variants are records of defect flags: [Repaired] has none and is the behaviour for which the property theorems
   are proved; [Head] is what /repo HEAD implements (four flag findings still open); [Defective] has every defect ever
   recorded (the tree before any fix) and is kept for the historical refutation witnesses only.
   Choices Go leaves open (which free address Allocate returns, Go map iteration order in the containment
   walks) are modelled as a list of candidate successor states; the driver follows the candidate that the
   implementation took. *)
From OV Require Import Common.Base.
Open Scope N_scope.

(* which recorded defects a variant reproduces; Repaired = none, Defective = all (the tree before any fix).
   Intermediate combinations exist so that the check keeps working while fixes are applied one by one. *)
Record variant := mkV {
  d1 : bool;   (* startNCP falls back to the constant 100.64.0.1 *)
  d2 : bool;   (* releases are not owner-checked *)
  d3 : bool;   (* DHCPv4 expiry take-over releases the registry lease by address *)
  d4 : bool;   (* a DISCOVER/REQUEST whose address resolution failed is answered from the DHCPv4 lease table *)
  d5 : bool;   (* AAA addresses outside every pool are not recorded *)
  d7 : bool;   (* the unresolved answer dereferences a nil pool (panic) when the lease address is in no provider
                  pool network; fixed: error, no answer *)
  d9 : bool;   (* the containment walk of Reserve* and the AAA pool override ignore the subscriber's VRF *)
  d8 : bool;   (* restore keeps an address of the persisted image although re-reserving it conflicted (only logged) *)
  d10 : bool;  (* ReservePD treats an AAA prefix whose length differs from the pool's delegated length as "in no
                  pool" (prefixToIndex), although it may cover, or lie inside, the pool network: it is accepted and
                  the pool goes on delegating prefixes that overlap it.  Repaired: such a prefix is refused (and so is
                  one that overlaps another subscriber's out-of-pool prefix) *)
  d6 : bool    (* component level only (used by the stage-B event mapping in ocaml/C02_run.ml, not by [step]):
                  a REQUEST that waited for AAA / session creation is ACKed by forwardPendingDHCPv4 /
                  forwardLatePendingPackets without handleAck, so the session does not record the address *)
}.
Definition Repaired : variant := mkV false false false false false false false false false false.
(* the code at /repo HEAD.  Fixed there (flag off): constant fall-back d1 (24c9504), expiry take-over d3 (58e16d0),
   unresolved answer d4 (d5fadd1), pending ACK d6 (b04c868), nil pool d7 (d114f02), AAA prefix overlapping a
   delegation pool d10 (23daa44).  Still present: unchecked release
   d2, untracked out-of-pool statics d5, restore keeps a conflicting address d8, VRF-blind walk / override d9. *)
Definition Head : variant := mkV false true false false true false true true false false.
Definition Defective : variant := mkV true true true true true true true true true true.
Inductive fam := F4 | F6 | FD.
Definition fam_eqb (a b : fam) : bool :=
  match a, b with F4, F4 | F6, F6 | FD, FD => true | _, _ => false end.

(* an address item: (address, prefix length); the length is 0 for plain IPv4 / IPv6 addresses *)
Definition item := (N * N)%type.
Definition item_eqb (x y : item) : bool := (fst x =? fst y) && (snd x =? snd y).

Definition two64 : N := 18446744073709551616.
Definition two128 : N := 340282366920938463463374607431768211456.

(* pool geometry: an address range with exclusions, or a delegated-prefix pool *)
Inductive geom :=
| GRange (lo hi : N) (excl : list N)
| GPfx (base plen count shift : N).

(* Contains + index: PoolAllocator.Contains / PrefixAllocator.prefixToIndex (64-bit truncation included) *)
Definition slot_of (g : geom) (x : item) : option N :=
  match g with
  | GRange lo hi _ => if (lo <=? fst x) && (fst x <=? hi) then Some (fst x) else None
  | GPfx base plen count shift =>
      if snd x =? plen then
        let d := (fst x + two128 - base) mod two128 in
        (* the address must lie inside the pool network (fix c2652db in /repo), then the 64-bit index *)
        if d <? count * 2 ^ shift then
          let i := (d / 2 ^ shift) mod two64 in
          if i <? count then Some i else None
        else None
      else None
  end.
(* the address a slot stands for: identity / PrefixAllocator.indexToIPNet *)
Definition item_of (g : geom) (sl : N) : item :=
  match g with
  | GRange _ _ _ => (sl, 0)
  | GPfx base plen _ shift => ((base + sl * 2 ^ shift) mod two128, plen)
  end.
(* Release looks the lease up without a range check *)
Definition raw_slot (g : geom) (x : item) : option N :=
  match g with
  | GRange _ _ _ => Some (fst x)
  | GPfx _ _ _ _ => slot_of g x
  end.

Record pool := mkPool {
  p_fam : fam; p_key : N; p_prof : N; p_vrf : N; p_geom : geom;
  p_leases : list (N * N);   (* slot -> session id  (map[netip.Addr]string / map[uint64]string) *)
  p_free : list N            (* free list *)
}.

Fixpoint assoc (k : N) (l : list (N * N)) : option N :=
  match l with
  | [] => None
  | (a, b) :: r => if a =? k then Some b else assoc k r
  end.
Fixpoint unassoc (k : N) (l : list (N * N)) : list (N * N) :=
  match l with
  | [] => []
  | (a, b) :: r => if a =? k then unassoc k r else (a, b) :: unassoc k r
  end.
Definition setassoc (k v : N) (l : list (N * N)) : list (N * N) := (k, v) :: unassoc k l.
Fixpoint remove1 (k : N) (l : list N) : list N :=
  match l with
  | [] => []
  | a :: r => if a =? k then r else a :: remove1 k r
  end.
Definition memN (k : N) (l : list N) : bool := existsb (N.eqb k) l.
Definition isnil {A} (l : list A) : bool := match l with [] => true | _ => false end.

Fixpoint nseq (a : N) (n : nat) : list N :=
  match n with O => [] | S k => a :: nseq (N.succ a) k end.
Definition init_free (g : geom) : list N :=
  match g with
  | GRange lo hi excl =>
      if hi <? lo then [] else filter (fun a => negb (memN a excl)) (nseq lo (N.to_nat (hi - lo + 1)))
  | GPfx _ _ count _ => nseq 0 (N.to_nat count)
  end.
Definition new_pool (f : fam) (key prof vrf : N) (g : geom) : pool :=
  mkPool f key prof vrf g [] (init_free g).

Definition with_lf (p : pool) (l : list (N * N)) (fr : list N) : pool :=
  mkPool (p_fam p) (p_key p) (p_prof p) (p_vrf p) (p_geom p) l fr.
Definition lease_of (p : pool) (sl : N) : option N := assoc sl (p_leases p).
Definition contains (p : pool) (x : item) : bool :=
  match slot_of (p_geom p) x with Some _ => true | None => false end.

(* Allocate with the free slot the implementation chose; Reserve of an unleased slot *)
Definition pool_take (p : pool) (sl s : N) : pool :=
  with_lf p (setassoc sl s (p_leases p)) (remove1 sl (p_free p)).
(* Reserve: refused iff leased to somebody else *)
Definition pool_reserve (p : pool) (sl s : N) : option pool :=
  match lease_of p sl with
  | Some o => if o =? s then Some p else None
  | None => Some (pool_take p sl s)
  end.
(* Release.  R2 (Repaired): only the owner's release frees the lease. *)
Definition owner_ok (v : variant) (o s : N) : bool :=
  if d2 v then true else o =? s.
(* only an address the pool may hand out goes back on the free list (PoolAllocator.assignable, fix d00d766
   in /repo): never an excluded or out-of-range address that a Reserve recorded *)
Definition assignable (g : geom) (sl : N) : bool :=
  match g with
  | GRange lo hi ex => (lo <=? sl) && (sl <=? hi) && negb (memN sl ex)
  | GPfx _ _ _ _ => true
  end.
Definition pool_release (v : variant) (p : pool) (sl s : N) : pool :=
  match lease_of p sl with
  | Some o => if owner_ok v o s
              then with_lf p (unassoc sl (p_leases p))
                           (if assignable (p_geom p) sl then p_free p ++ [sl] else p_free p)
              else p
  | None => p
  end.

(* ---------------------------------------------------------------- registry *)
Definition skey := (fam * N * item)%type.     (* (family, VRF, address) *)
Definition skey_eqb (a b : skey) : bool :=
  match a, b with (f1, v1, x1), (f2, v2, x2) => fam_eqb f1 f2 && (v1 =? v2) && item_eqb x1 x2 end.
Record reg := mkReg {
  pools : list pool;
  statics : list (skey * N)    (* R5 (Repaired only): AAA-supplied addresses outside every pool, per VRF *)
}.
Fixpoint sassoc (k : skey) (l : list (skey * N)) : option N :=
  match l with [] => None | (a, b) :: r => if skey_eqb a k then Some b else sassoc k r end.
Fixpoint sunassoc (k : skey) (l : list (skey * N)) : list (skey * N) :=
  match l with [] => [] | (a, b) :: r => if skey_eqb a k then sunassoc k r else (a, b) :: sunassoc k r end.

Definition same_pool (p q : pool) : bool := fam_eqb (p_fam p) (p_fam q) && (p_key p =? p_key q).
Definition upd_pool (r : reg) (p' : pool) : reg :=
  mkReg (map (fun p => if same_pool p p' then p' else p) (pools r)) (statics r).
Definition fam_pools (f : fam) (r : reg) : list pool := filter (fun p => fam_eqb (p_fam p) f) (pools r).

(* Allocate*FromProfile: override pool first (any VRF), then the profile's pools of the subscriber's VRF in
   order; the first one that is not exhausted answers.  One candidate per free slot of that pool. *)
Definition alloc_in (r : reg) (p : pool) (s : N) : list (reg * option (item * N)) :=
  map (fun sl => (upd_pool r (pool_take p sl s), Some (item_of (p_geom p) sl, p_key p))) (p_free p).
Definition alloc_walk (f : fam) (prof vrf s : N) (r : reg) : list (reg * option (item * N)) :=
  match find (fun p => (p_prof p =? prof) && (p_vrf p =? vrf) && negb (isnil (p_free p))) (fam_pools f r) with
  | Some p => alloc_in r p s
  | None => [(r, None)]
  end.
Definition alloc_from_profile (v : variant) (f : fam) (prof : N) (ov : option N) (vrf s : N) (r : reg)
  : list (reg * option (item * N)) :=
  match ov with
  | Some k =>
      (* R9 (Repaired): an override naming a pool of another VRF is ignored *)
      match find (fun p => (p_prof p =? prof) && (p_key p =? k) && (d9 v || (p_vrf p =? vrf))) (fam_pools f r) with
      | Some p => if isnil (p_free p) then alloc_walk f prof vrf s r else alloc_in r p s
      | None => alloc_walk f prof vrf s r
      end
  | None => alloc_walk f prof vrf s r
  end.

(* ReserveIP / ReserveIANA / ReservePD: the first pool (Go map order: any) that contains the address decides.
   No containing pool: the code accepts without recording anything; R5 records it per VRF. *)
Definition reserve_in (r : reg) (p : pool) (x : item) (s : N) : reg * bool :=
  match slot_of (p_geom p) x with
  | Some sl => match pool_reserve p sl s with
               | Some p' => (upd_pool r p', true)
               | None => (r, false)
               end
  | None => (r, true)
  end.
(* the block of addresses a prefix stands for overlaps the network of a PD pool / another prefix *)
Definition pfx_block (x : item) : N * N :=
  let sz := 2 ^ (128 - snd x) in ((fst x / sz) * sz, sz).
Definition pfx_overlaps_net (g : geom) (x : item) : bool :=
  match g with
  | GPfx base _ count shift =>
      let (lo, sz) := pfx_block x in (lo <? base + count * 2 ^ shift) && (base <? lo + sz)
  | GRange _ _ _ => false
  end.
Definition pfx_overlap (x y : item) : bool :=
  let (lx, sx) := pfx_block x in let (ly, sy) := pfx_block y in (lx <? ly + sy) && (ly <? lx + sx).
(* R10 (Repaired): an AAA prefix that is no delegation of any pool of the VRF but overlaps one of their networks,
   or overlaps an out-of-pool prefix recorded for somebody else, is a conflict *)
Definition pd_conflict (v : variant) (f : fam) (x : item) (vrf s : N) (r : reg) : bool :=
  match f with
  | FD => negb (d10 v) &&
          (existsb (fun p => (d9 v || (p_vrf p =? vrf)) && pfx_overlaps_net (p_geom p) x) (fam_pools FD r) ||
           existsb (fun e : skey * N => match e with
                                        | ((FD, v', y), o) => (v' =? vrf) && negb (o =? s) && pfx_overlap x y
                                        | _ => false
                                        end) (statics r))
  | _ => false
  end.
Definition reserve_cont (v : variant) (f : fam) (x : item) (vrf s : N) (r : reg) : list (reg * bool) :=
  (* R9 (Repaired): only pools of the subscriber's VRF are candidates *)
  match filter (fun p => contains p x && (d9 v || (p_vrf p =? vrf))) (fam_pools f r) with
  | [] =>
      if pd_conflict v f x vrf s r then [(r, false)]
      else if d5 v then [(r, true)]
      else match sassoc (f, vrf, x) (statics r) with
           | Some o => [(r, o =? s)]
           | None => [(mkReg (pools r) (((f, vrf, x), s) :: statics r), true)]
           end
  | cs => map (fun p => reserve_in r p x s) cs
  end.

(* Release(poolName, ip) *)
Definition release_pool (v : variant) (f : fam) (key : N) (x : item) (s : N) (r : reg) : reg :=
  match find (fun p => p_key p =? key) (fam_pools f r) with
  | Some p => match raw_slot (p_geom p) x with
              | Some sl => upd_pool r (pool_release v p sl s)
              | None => r
              end
  | None => r
  end.
Definition release_static (v : variant) (f : fam) (x : item) (vrf s : N) (r : reg) : reg :=
  if d5 v then r
  else match sassoc (f, vrf, x) (statics r) with
       | Some o => if o =? s then mkReg (pools r) (sunassoc (f, vrf, x) (statics r)) else r
       | None => r
       end.
(* ReleaseIP / ReleaseIANAByIP: every pool of the family; ReleasePDByPrefix: the first containing pool *)
Definition release_all (v : variant) (f : fam) (x : item) (s : N) (r : reg) : reg :=
  mkReg (map (fun p => if fam_eqb (p_fam p) f
                       then match raw_slot (p_geom p) x with
                            | Some sl => pool_release v p sl s
                            | None => p
                            end
                       else p) (pools r)) (statics r).
Definition release_ip (v : variant) (f : fam) (x : item) (vrf s : N) (r : reg) : list reg :=
  let r0 := release_static v f x vrf s r in
  match f with
  | FD => match filter (fun p => contains p x) (fam_pools FD r0) with
          | [] => [r0]
          | cs => map (fun p => match slot_of (p_geom p) x with
                                | Some sl => upd_pool r0 (pool_release v p sl s)
                                | None => r0
                                end) cs
          end
  | _ => [release_all v f x s r0]
  end.

(* Reserve{IP,IANA,PD}InPool / Release{IP,IANA,PD}InPool (used by the HA sync receiver for the sessions the active
   node checkpoints to the standby): the pool NAMED by the key - looked up among the pools of THAT family, the same
   name may exist in another family - when there is one, otherwise the first pool of the family that contains the
   address (any VRF, Go map order: one candidate each); no containing pool: nothing is recorded (a prefix that
   overlaps a delegation pool without being one of its delegations is refused, 23daa44). *)
Definition reserve_named (v : variant) (f : fam) (key : option N) (x : item) (s : N) (r : reg) : list (reg * bool) :=
  match (match key with Some k => find (fun p => p_key p =? k) (fam_pools f r) | None => None end) with
  | Some p => [reserve_in r p x s]
  | None =>
      match filter (fun p => contains p x) (fam_pools f r) with
      | [] => [(r, match f with
                   | FD => d10 v || negb (existsb (fun p => pfx_overlaps_net (p_geom p) x) (fam_pools FD r))
                   | _ => true
                   end)]
      | cs => map (fun p => reserve_in r p x s) cs
      end
  end.
Definition release_named (v : variant) (f : fam) (key : option N) (x : item) (s : N) (r : reg) : list reg :=
  match (match key with Some k => find (fun p => p_key p =? k) (fam_pools f r) | None => None end) with
  | Some p => match raw_slot (p_geom p) x with
              | Some sl => [upd_pool r (pool_release v p sl s)]
              | None => [r]
              end
  | None =>
      match filter (fun p => contains p x) (fam_pools f r) with
      | [] => [r]
      | cs => map (fun p => match slot_of (p_geom p) x with
                            | Some sl => upd_pool r (pool_release v p sl s)
                            | None => r
                            end) cs
      end
  end.

(* ---------------------------------------------------------------- DHCPv4 local provider lease table *)
Record lease := mkLease { l_ip : N; l_mac : N; l_sid : N; l_pool : option N; l_exp : bool }.
(* a subscriber session (defined here because the opdb store below keeps session images) *)
(* PPPoE, DHCPv6 over PPP (internal/pppoe/dhcpv6.go): the allocation context's IPv6 address / prefix - what ResolveV6
   re-stakes or allocates; it is NOT cleared when a RELEASE unbinds the session's recorded IPv6Address / IPv6Prefix -
   and whether the session has recorded the client's DUID. *)
Record pppx := mkX { x_c6 : option N; x_cd : option item; x_du : bool }.
Definition nox : pppx := mkX None None false.
Record sess := mkSess {
  s_id : N; s_ppp : bool; s_prof4 : option N; s_prof6 : option N; s_mac : N;
  s_live : bool;
  s_started : bool;            (* PPPoE: AAA answered (AllocCtx built); IPoE: allocation context exists *)
  s_vrf : N;
  s_ov4 : option N; s_ov6 : option N; s_ovd : option N;      (* pool overrides *)
  s_a4 : option N; s_a6 : option N; s_ad : option item;      (* PPPoE: IPv4Address/IPv6Address/IPv6Prefix;
                                                                IPoE: ctx.IPv4Address/IPv6Address/IPv6Prefix *)
  s_p4 : option N; s_p6 : option N;                          (* PPPoE allocatedPool / allocatedIANAPool *)
  s_told : option N;           (* PPPoE: IPCP peer address; IPoE: yiaddr of the last OFFER/ACK *)
  s_ipcp : bool;               (* PPPoE: an IPCP Configure-Request has been processed;
                                  IPoE: the session knows the client's DUID (a DHCPv6 SOLICIT was seen) *)
  s_b4 : option N; s_b6 : option N; s_bd : option item;      (* IPoE: bound (ACKed / advertised) *)
  s_x : pppx                   (* PPPoE: DHCPv6 over PPP *)
}.

(* plugins/dhcp6/local lease tables (Resolved path).  Lease objects are immutable once created apart from their
   expiry, and only SessionID is read through the by-address / by-prefix tables, so values are stored directly. *)
Fixpoint iassoc {A} (k : item) (l : list (item * A)) : option A :=
  match l with [] => None | (a, b) :: r => if item_eqb a k then Some b else iassoc k r end.
Fixpoint iunassoc {A} (k : item) (l : list (item * A)) : list (item * A) :=
  match l with [] => [] | (a, b) :: r => if item_eqb a k then iunassoc k r else (a, b) :: iunassoc k r end.
Fixpoint passoc {A} (k : N) (l : list (N * A)) : option A :=
  match l with [] => None | (a, b) :: r => if a =? k then Some b else passoc k r end.
Fixpoint punassoc {A} (k : N) (l : list (N * A)) : list (N * A) :=
  match l with [] => [] | (a, b) :: r => if a =? k then punassoc k r else (a, b) :: punassoc k r end.
Record prov6 := mkProv6 {
  n_iana : list (N * (N * N * option N));      (* ianaLeases   : DUID -> (address, session, pool name) *)
  n_addr : list (N * N);                       (* leasesByAddr : address -> session of the lease stored there *)
  n_pd : list (N * (item * N * option N));     (* pdLeases     : DUID -> (prefix, session, pool name) *)
  n_pfx : list (item * N)                      (* leasesByPfx  : prefix -> session *)
}.
Record prov := mkProv {
  objs : list (N * lease);     (* lease objects (Go pointers) *)
  by_mac : list (N * N);       (* p.leases     : MAC -> object *)
  by_ip : list (N * N);        (* p.leasesByIP : IP  -> object *)
  next_obj : N;
  p6 : prov6;
  store : list (N * sess)     (* opdb: session id -> the image written by the last checkpoint (json of the session);
                                 the only part of [prov] that survives a restart *)
}.
Fixpoint lassoc (k : N) (l : list (N * lease)) : option lease :=
  match l with [] => None | (a, b) :: r => if a =? k then Some b else lassoc k r end.
Definition lset (k : N) (v : lease) (l : list (N * lease)) : list (N * lease) :=
  map (fun e => if fst e =? k then (k, v) else e) l.
Definition prov_new (pr : prov) (ip mac sid : N) (pool : option N) : prov :=
  let id := next_obj pr in
  mkProv ((id, mkLease ip mac sid pool false) :: objs pr) (setassoc mac id (by_mac pr))
         (setassoc ip id (by_ip pr)) (id + 1) (p6 pr) (store pr).

(* Provider.reserveIP.  R3 (Repaired): the expiry take-over drops the stale lease without touching the
   registry (the registry lease belongs to whoever holds it now). *)
Definition prov_reserve (v : variant) (pr : prov) (r : reg) (ip mac sid : N) (pool : option N)
  : prov * reg * bool :=
  match assoc ip (by_ip pr) with
  | Some id =>
      match lassoc id (objs pr) with
      | Some l =>
          if l_mac l =? mac then
            let l' := mkLease (l_ip l) (l_mac l) (l_sid l) (l_pool l) false in
            (mkProv (lset id l' (objs pr)) (by_mac pr) (by_ip pr) (next_obj pr) (p6 pr) (store pr), r, true)
          else if l_exp l then
            let r' := match d3 v, l_pool l with
                      | true, Some k => release_pool Defective F4 k (l_ip l, 0) (l_sid l) r
                      | _, _ => r
                      end in
            let pr' := mkProv (objs pr) (unassoc (l_mac l) (by_mac pr)) (unassoc ip (by_ip pr)) (next_obj pr) (p6 pr) (store pr) in
            (prov_new pr' ip mac sid pool, r', true)
          else (pr, r, false)
      | None => (pr, r, false)
      end
  | None => (prov_new pr ip mac sid pool, r, true)
  end.
(* Provider.ReleaseLease(mac), called on behalf of session sid: the lease-table entry of the MAC is dropped and
   its registry lease released by pool name.  R4 (Repaired) is R2 applied here: the registry lease is freed
   only if it belongs to the session on whose behalf the release runs. *)
Definition prov_release (v : variant) (pr : prov) (r : reg) (mac sid : N) : prov * reg :=
  match assoc mac (by_mac pr) with
  | Some id =>
      match lassoc id (objs pr) with
      | Some l =>
          let r' := match l_pool l with
                    | Some k => release_pool v F4 k (l_ip l, 0) sid r
                    | None => r
                    end in
          (mkProv (objs pr) (unassoc mac (by_mac pr)) (unassoc (l_ip l) (by_ip pr)) (next_obj pr) (p6 pr) (store pr), r')
      | None => (pr, r)
      end
  | None => (pr, r)
  end.
Definition prov_age (pr : prov) (mac : N) : prov :=
  match assoc mac (by_mac pr) with
  | Some id =>
      match lassoc id (objs pr) with
      | Some l => mkProv (lset id (mkLease (l_ip l) (l_mac l) (l_sid l) (l_pool l) true) (objs pr))
                         (by_mac pr) (by_ip pr) (next_obj pr) (p6 pr) (store pr)
      | None => pr
      end
  | None => pr
  end.

Definition with_p6 (pr : prov) (q : prov6) : prov :=
  mkProv (objs pr) (by_mac pr) (by_ip pr) (next_obj pr) q (store pr).
(* checkpointSession / deleteSessionCheckpoint *)
Definition ckpt (pr : prov) (s : sess) : prov :=
  mkProv (objs pr) (by_mac pr) (by_ip pr) (next_obj pr) (p6 pr) ((s_id s, s) :: punassoc (s_id s) (store pr)).
Definition unckpt (pr : prov) (sid : N) : prov :=
  mkProv (objs pr) (by_mac pr) (by_ip pr) (next_obj pr) (p6 pr) (punassoc sid (store pr)).
(* Provider.handleSolicit / handleRequest with Resolved (client asks for IA_NA and IA_PD; DUID = MAC):
   a retried SOLICIT of the same session is answered without touching the tables; otherwise reserveIANA, then
   reservePD; a table entry of another session is a conflict (error, no answer; an IA_NA entry written before a
   PD conflict stays). *)
Definition prov6_resolved (q : prov6) (sid duid : N) (isreq : bool) (a6 : option N) (ad : option item)
           (k6 kd : option N) : prov6 * bool :=
  let have6 := match a6 with
               | None => true
               | Some _ => match passoc duid (n_iana q) with Some (_, s', _) => s' =? sid | None => false end
               end in
  let haved := match ad with
               | None => true
               | Some _ => match passoc duid (n_pd q) with Some (_, s', _) => s' =? sid | None => false end
               end in
  if negb isreq && have6 && haved then (q, true) else
  (* the resolver names the pool only in the call that takes the address from it; re-reserving the same address /
     prefix for the same session keeps the name the old lease recorded (/repo 277708f) *)
  let k6 := match k6, a6 with
            | None, Some a => match passoc duid (n_iana q) with
                              | Some (a', s', pool') => if (s' =? sid) && (a' =? a) then pool' else None
                              | None => None
                              end
            | _, _ => k6
            end in
  let kd := match kd, ad with
            | None, Some x => match passoc duid (n_pd q) with
                              | Some (x', s', pool') => if (s' =? sid) && item_eqb x' x then pool' else None
                              | None => None
                              end
            | _, _ => kd
            end in
  let r6 := match a6 with
            | None => Some q
            | Some a => match assoc a (n_addr q) with
                        | Some s' => if s' =? sid
                                     then Some (mkProv6 ((duid, (a, sid, k6)) :: punassoc duid (n_iana q))
                                                        (setassoc a sid (n_addr q)) (n_pd q) (n_pfx q))
                                     else None
                        | None => Some (mkProv6 ((duid, (a, sid, k6)) :: punassoc duid (n_iana q))
                                                (setassoc a sid (n_addr q)) (n_pd q) (n_pfx q))
                        end
            end in
  match r6 with
  | None => (q, false)
  | Some q1 =>
      match ad with
      | None => (q1, true)
      | Some x => match iassoc x (n_pfx q1) with
                  | Some s' => if s' =? sid
                               then (mkProv6 (n_iana q1) (n_addr q1) ((duid, (x, sid, kd)) :: punassoc duid (n_pd q1))
                                             ((x, sid) :: iunassoc x (n_pfx q1)), true)
                               else (q1, false)
                  | None => (mkProv6 (n_iana q1) (n_addr q1) ((duid, (x, sid, kd)) :: punassoc duid (n_pd q1))
                                     ((x, sid) :: iunassoc x (n_pfx q1)), true)
                  end
      end
  end.
(* Provider.ReleaseLease(duid) on behalf of session sid: registry release by pool name (only when the lease
   recorded one), table entries dropped *)
Definition prov6_release (v : variant) (q : prov6) (r : reg) (duid sid : N) : prov6 * reg :=
  let '(q1, r1) := match passoc duid (n_iana q) with
                   | Some (a, _, pool) =>
                       (mkProv6 (punassoc duid (n_iana q)) (unassoc a (n_addr q)) (n_pd q) (n_pfx q),
                        match pool with Some k => release_pool v F6 k (a, 0) sid r | None => r end)
                   | None => (q, r)
                   end in
  match passoc duid (n_pd q1) with
  | Some (x, _, pool) =>
      (mkProv6 (n_iana q1) (n_addr q1) (punassoc duid (n_pd q1)) (iunassoc x (n_pfx q1)),
       match pool with Some k => release_pool v FD k x sid r1 | None => r1 end)
  | None => (q1, r1)
  end.

(* ---------------------------------------------------------------- sessions *)

Record state := mkState { st_reg : reg; st_sess : list sess; st_prov : prov }.

Definition find_sess (id : N) (st : state) : option sess := find (fun s => s_id s =? id) (st_sess st).
Definition put_sess (s' : sess) (l : list sess) : list sess :=
  map (fun s => if s_id s =? s_id s' then s' else s) l.

Inductive op :=
| PA (sid vrf : N) (s4 s6 : option N) (spd : option item) (o4 o6 od : option N)
| PI (sid : N) (a : option N)
| PT (sid : N)
| ID (isreq bind : bool) (rq : option N) (sid vrf : N) (s4 o4 : option N)
    (* bind: the ACK is recorded (handleAck); rq: the address a REQUEST names in option 50 *)
| IS (isreq : bool) (sid vrf : N) (s6 : option N) (spd : option item) (o6 od : option N)
| IR (sid : N)
| IL (sid : N)       (* DHCPv6 RELEASE *)
| Restart
| IT (sid : N)
| IA (sid : N)
| IM (sid : N)       (* a SOLICIT arrives while the session waits for AAA / creation: only its DUID is recorded *)
| IC (sid vrf : N) (s4 o4 s6 : option N) (spd : option item) (o6 od : option N)
| IE (sid : N)       (* lease expiry: cleanupSessions reaps the session *)
| HR (f : fam) (key : option N) (x : item) (sid : N)   (* HA sync: Reserve*InPool for a session of the peer node *)
| HL (f : fam) (key : option N) (x : item) (sid : N)   (* HA sync: Release*InPool *)
| PS (isreq : bool) (sid : N)   (* PPPoE, DHCPv6 over PPP: SOLICIT / REQUEST (internal/pppoe/dhcpv6.go forwardDHCPv6) *)
| PR (sid : N)                  (* PPPoE, DHCPv6 over PPP: RELEASE *)
| PX (sid : N).                 (* PPPoE teardown, after terminate: releaseDHCPv6Lease(DUID) *)
    (* component level: handleAAAResponse builds the allocator context from all AAA attributes before any pending
       packet is replayed (at function level ID / IS build it on first use, with their own family's attributes) *)

Inductive pires := PiAck (a : option N) | PiNak (a : N) | PiRej | PiNoReply.
Inductive idres := IdNil | IdErr | IdTold (a : N) | IdPanic.
Inductive out :=
| OSkip
| OPa (v4 v6 : option N) (pd : option item) (p4 p6 : option N) (told : option N)
| OPi (r : pires) (v4 : option N)
| OPt
| OId (isreq : bool) (r : idres) (ctx4 : option N)
| OIs (isreq : bool) (adv : option (option N * option item)) (err : bool) (ctx6 : option N) (ctxd : option item)
| ORel (ir : bool)
| ORel6
| ORestart
| OIa
| OHa (ok : bool)
| OPs (isreq : bool) (adv : option (option N * option item)) (rec6 : option N) (recd : option item)
| OPr.

Definition fallback_addr : N := 1681915905.   (* 100.64.0.1 *)

Definition bindl {A B} (l : list A) (f : A -> list B) : list B := flat_map f l.

(* the shared "address already supplied ? reserve : allocate" step of startNCP and ResolveV4/V6.
   Result: (registry, address now recorded, pool it was allocated from, ok)
   ok = false only on a reservation conflict. *)
Definition acquire (v : variant) (f : fam) (prof : option N) (ov : option N) (vrf sid : N)
           (cur : option item) (r : reg) : list (reg * option item * option N * bool) :=
  match cur with
  | None =>
      match prof with
      | None => [(r, None, None, true)]
      | Some pf =>
          map (fun c => match c with
                        | (r', Some (x, k)) => (r', Some x, Some k, true)
                        | (r', None) => (r', None, None, true)
                        end) (alloc_from_profile v f pf ov vrf sid r)
      end
  | Some x =>
      map (fun c : reg * bool => let (r', ok) := c in (r', Some x, None, ok)) (reserve_cont v f x vrf sid r)
  end.

Definition addr_item (a : N) : item := (a, 0).
Definition oitem (a : option N) : option item := option_map addr_item a.
Definition oaddr (x : option item) : option N := option_map fst x.

Definition set_live (s : sess) (b : bool) : sess :=
  mkSess (s_id s) (s_ppp s) (s_prof4 s) (s_prof6 s) (s_mac s) b (s_started s) (s_vrf s) (s_ov4 s) (s_ov6 s)
         (s_ovd s) (s_a4 s) (s_a6 s) (s_ad s) (s_p4 s) (s_p6 s) (s_told s) (s_ipcp s) (s_b4 s) (s_b6 s) (s_bd s) (s_x s).

(* PPPoE: onAuthResult(true, attrs) -> extractIPFromAttributes, buildAllocContext, startNCP *)
Definition okopt {A} (ok : bool) (a : option A) : option A := if ok then a else None.
(* R1 (Repaired): no constant fall-back, and 0.0.0.0 is no address; without an address IPCP is not started *)
Definition pa_addr (v : variant) (a4 : option item) : option item :=
  match a4 with
  | None => if d1 v then Some (addr_item fallback_addr) else None
  | Some i => if negb (d1 v) && (fst i =? 0) then None else a4
  end.
Definition pa_sess (s : sess) (vrf : N) (ov4 ov6 : option N) (a4 a6 ad : option item) (p4 p6 : option N) (x : pppx)
  : sess :=
  mkSess (s_id s) true (s_prof4 s) (s_prof6 s) (s_mac s) true true vrf ov4 ov6 None
         (oaddr a4) (oaddr a6) ad p4 p6 (oaddr a4) false None None None x.
Definition pa_pd (v : variant) (spd : option item) (vrf sid : N) (r2 : reg) : list (reg * option item) :=
  match spd with
  | Some x => map (fun c : reg * bool => (fst c, okopt (snd c) (Some x))) (reserve_cont v FD x vrf sid r2)
  | None => [(r2, None)]
  end.
Definition step_pa (v : variant) (st : state) (s : sess) (vrf : N) (s4 s6 : option N) (spd : option item)
           (o4 o6 od : option N) : list (state * out) :=
  (* the same code runs at the first authentication and at every RE-authentication after an LCP renegotiation
     (onLCPDown, then onAuthResult again): extractIPFromAttributes overwrites an address only when AAA supplies
     one, the allocation context is rebuilt from the new answer, startNCP reserves what the session already has
     (or allocates when it has nothing), and the pool names recorded at allocation time (allocatedPool,
     allocatedIANAPool) stay unless a new allocation replaces them. *)
  let ov4 := match s_prof4 s with Some _ => o4 | None => None end in
  let ov6 := match s_prof6 s with Some _ => o6 | None => None end in
  let cur4 := match s4 with Some _ => s4 | None => s_a4 s end in
  let cur6 := match s6 with Some _ => s6 | None => s_a6 s end in
  let curd := match spd with Some _ => spd | None => s_ad s end in
  bindl (acquire v F4 (s_prof4 s) ov4 vrf (s_id s) (oitem cur4) (st_reg st)) (fun c4 =>
    match c4 with (r1, a4, p4, ok4) =>
    (* reservation conflict: s.IPv4Address = nil *)
    bindl (acquire v F6 (s_prof6 s) ov6 vrf (s_id s) (oitem cur6) r1) (fun c6 =>
      match c6 with (r2, a6, p6, ok6) =>
      map (fun cd : reg * option item =>
        let a4' := pa_addr v (okopt ok4 a4) in
        let p4' := match p4 with Some _ => p4 | None => s_p4 s end in
        let p6' := match p6 with Some _ => p6 | None => s_p6 s end in
        (* the fresh allocation context: the AAA attributes, and the address allocateIANAFromPool hands to it *)
        let c6 := match s6 with Some _ => s6 | None => match s_a6 s with None => oaddr a6 | Some _ => None end end in
        (mkState (fst cd) (put_sess (pa_sess s vrf ov4 ov6 a4' (okopt ok6 a6) (snd cd) p4' p6'
                                             (mkX c6 spd (x_du (s_x s)))) (st_sess st)) (st_prov st),
         OPa (oaddr a4') (oaddr (okopt ok6 a6)) (snd cd) p4' p6' (oaddr a4'))) (pa_pd v curd vrf (s_id s) r2)
      end)
    end).

(* IPCP Configure-Request from the peer (after it acknowledged ours): ipcp.ProcessConfReq + onIPCPUp.
   Only an acknowledged request opens IPCP (this-layer-up -> onIPCPUp); after a Configure-Nak or -Reject the peer
   sends another request, so several exchanges per authentication are possible.  A Nak'ed or rejected proposal
   leaves NOTHING behind: a later request without an IP-Address option is acknowledged and the address assigned in
   startNCP stays the recorded one. *)
Definition pi_upd (s : sess) (a4 : option N) (opened : bool) : sess :=
  mkSess (s_id s) true (s_prof4 s) (s_prof6 s) (s_mac s) (s_live s) true (s_vrf s) (s_ov4 s) (s_ov6 s)
         (s_ovd s) a4 (s_a6 s) (s_ad s) (s_p4 s) (s_p6 s) (s_told s) opened None None None (s_x s).
Definition pi_res (st : state) (s : sess) (a4 : option N) (r : pires) : list (state * out) :=
  let opened := match r with PiAck _ => true | _ => false end in
  [(mkState (st_reg st) (put_sess (pi_upd s a4 opened) (st_sess st)) (st_prov st), OPi r a4)].
Definition step_pi (st : state) (s : sess) (a : option N) : list (state * out) :=
  match s_told s with
  | None => pi_res st s (s_a4 s) PiNoReply
  | Some t =>
      let usable := negb (t =? 0) in
      match a with
      | Some x =>
          if usable && negb (x =? t) then pi_res st s (s_a4 s) (PiNak t)
          else if x =? 0 then pi_res st s (s_a4 s) PiRej
          else pi_res st s (Some x) (PiAck (Some x))
      | None => pi_res st s (s_a4 s) (PiAck None)   (* no address option: the assigned address stays (fix 95b0af2) *)
      end
  end.

(* SessionState.terminate *)
Definition step_pt (v : variant) (st : state) (s : sess) : list (state * out) :=
  let r0 := st_reg st in
  let r4s := match s_a4 s with
             | Some a => match s_p4 s with
                         | Some k => [release_pool v F4 k (addr_item a) (s_id s) r0]
                         | None => release_ip v F4 (addr_item a) (s_vrf s) (s_id s) r0
                         end
             | None => [r0]
             end in
  bindl r4s (fun r1 =>
    let r6s := match s_a6 s with
               | Some a => match s_p6 s with
                           | Some k => [release_pool v F6 k (addr_item a) (s_id s) r1]
                           | None => release_ip v F6 (addr_item a) (s_vrf s) (s_id s) r1
                           end
               | None => [r1]
               end in
    bindl r6s (fun r2 =>
      let rds := match s_ad s with
                 | Some x => release_ip v FD x (s_vrf s) (s_id s) r2
                 | None => [r2]
                 end in
      map (fun r3 => (mkState r3 (put_sess (set_live s false) (st_sess st)) (st_prov st), OPt)) rds)).

(* IPoE: (NewContext on first use) ResolveV4 + local provider DISCOVER/REQUEST; REQUEST binds (handleAck) *)
Definition id_ctx (s : sess) (vrf : N) (s4 o4 : option N) : sess :=
  if s_started s then s else
    mkSess (s_id s) false (s_prof4 s) (s_prof6 s) (s_mac s) true true vrf
           (match s_prof4 s with Some _ => o4 | None => None end) None None
           (match s_prof4 s with Some _ => s4 | None => None end) None None None None None false
           None None None (s_x s).
(* The IPoE component hands the packet to the provider even when resolution failed (Resolved = nil).  The
   provider then answers from its lease table: DISCOVER -> OFFER of the MAC's existing lease; REQUEST -> ACK
   (and renewal) when the requested address (option 50) equals the MAC's lease.  Nothing is reserved in the
   registry.  R6 (Repaired, flag d4): no answer. *)
(* the provider's own pool table: one network per configured IPv4 pool (harness convention: the /16 of the
   pool's first address).  An existing lease whose address lies in none of them makes buildOffer/buildAck
   dereference a nil *IPPool: the handler panics (result None below). *)
Definition prov_net_has (r : reg) (x : N) : bool :=
  existsb (fun p => match p_geom p with GRange lo _ _ => x / 65536 =? lo / 65536 | _ => false end) (fam_pools F4 r).
Definition unresolved (v : variant) (r : reg) (pr : prov) (s0 : sess) (isreq : bool) (rq : option N)
  : option (prov * option N) :=
  if d4 v then
    match assoc (s_mac s0) (by_mac pr) with
    | Some id =>
        match lassoc id (objs pr) with
        | Some l =>
            if isreq then
              match rq with
              | Some t => if t =? l_ip l
                          then if prov_net_has r (l_ip l)
                               then Some (mkProv (lset id (mkLease (l_ip l) (l_mac l) (l_sid l) (l_pool l) false) (objs pr))
                                                 (by_mac pr) (by_ip pr) (next_obj pr) (p6 pr) (store pr), Some (l_ip l))
                               else (if d7 v then Some (pr, None) else None)
                          else None
              | None => None
              end
            else if prov_net_has r (l_ip l) then Some (pr, Some (l_ip l))
                 else (if d7 v then Some (pr, None) else None)
        | None => None
        end
    | None => None
    end
  else None.
Definition told_sess (s : sess) (x : N) (bind : bool) : sess :=
  mkSess (s_id s) false (s_prof4 s) (s_prof6 s) (s_mac s) true true (s_vrf s) (s_ov4 s) (s_ov6 s) (s_ovd s)
         (s_a4 s) (s_a6 s) (s_ad s) None None (Some x) (s_ipcp s) (if bind then Some x else s_b4 s) (s_b6 s) (s_bd s) (s_x s).
Definition id_nil (v : variant) (st : state) (r : reg) (s : sess) (isreq bind : bool) (rq : option N)
  : list (state * out) :=
  match unresolved v r (st_prov st) s isreq rq with
  | Some (pr', Some x) =>
      let s' := told_sess s x bind in
      [(mkState r (put_sess s' (st_sess st)) (if bind then ckpt pr' s' else pr'), OId isreq (IdTold x) (s_a4 s))]
  | Some (_, None) => [(mkState r (put_sess s (st_sess st)) (st_prov st), OId isreq IdPanic (s_a4 s))]
  | None => [(mkState r (put_sess s (st_sess st)) (st_prov st), OId isreq IdNil (s_a4 s))]
  end.
Definition step_id_core (v : variant) (st : state) (s0 : sess) (isreq bind : bool) (rq : option N)
  : list (state * out) :=
  match s_prof4 s0 with
  | None => id_nil v st (st_reg st) s0 isreq bind rq
  | Some _ =>
    bindl (acquire v F4 (s_prof4 s0) (s_ov4 s0) (s_vrf s0) (s_id s0) (oitem (s_a4 s0)) (st_reg st)) (fun c =>
      match c with (r1, a4, pk, ok) =>
      let s1 := mkSess (s_id s0) false (s_prof4 s0) (s_prof6 s0) (s_mac s0) true true (s_vrf s0) (s_ov4 s0)
                       (s_ov6 s0) (s_ovd s0) (oaddr a4) (s_a6 s0) (s_ad s0) None None (s_told s0) (s_ipcp s0)
                       (s_b4 s0) (s_b6 s0) (s_bd s0) (s_x s0) in
      match (if ok then oaddr a4 else None) with
      | None => id_nil v st r1 s1 isreq bind rq
      | Some x =>
          match prov_reserve v (st_prov st) r1 x (s_mac s0) (s_id s0) pk with
          | (pr', r2, true) =>
              let s2 := mkSess (s_id s1) false (s_prof4 s1) (s_prof6 s1) (s_mac s1) true true (s_vrf s1)
                               (s_ov4 s1) (s_ov6 s1) (s_ovd s1) (s_a4 s1) (s_a6 s1) (s_ad s1) None None (Some x)
                               (s_ipcp s1) (if bind then Some x else s_b4 s1) (s_b6 s1) (s_bd s1) (s_x s1) in
              (* handleAck checkpoints the session *)
              [(mkState r2 (put_sess s2 (st_sess st)) (if bind then ckpt pr' s2 else pr'), OId isreq (IdTold x) (s_a4 s2))]
          | (pr', r2, false) => [(mkState r2 (put_sess s1 (st_sess st)) pr', OId isreq IdErr (s_a4 s1))]
          end
      end
      end)
  end.
Definition step_id (v : variant) (st : state) (s : sess) (isreq bind : bool) (rq : option N) (vrf : N)
           (s4 o4 : option N) : list (state * out) := step_id_core v st (id_ctx s vrf s4 o4) isreq bind rq.

(* IPoE: (NewContext on first use) ResolveV6; at function level the advertised binding is the bound one *)
Definition is_ctx (s : sess) (vrf : N) (s6 : option N) (spd : option item) (o6 od : option N) : sess :=
  if s_started s then s else
    mkSess (s_id s) false (s_prof4 s) (s_prof6 s) (s_mac s) true true vrf None
           (match s_prof6 s with Some _ => o6 | None => None end)
           (match s_prof6 s with Some _ => od | None => None end)
           None (match s_prof6 s with Some _ => s6 | None => None end)
           (match s_prof6 s with Some _ => spd | None => None end) None None None false
           None None None (s_x s).
Definition ic_ctx (s : sess) (vrf : N) (s4 o4 s6 : option N) (spd : option item) (o6 od : option N) : sess :=
  mkSess (s_id s) false (s_prof4 s) (s_prof6 s) (s_mac s) true true vrf
         (match s_prof4 s with Some _ => o4 | None => None end)
         (match s_prof6 s with Some _ => o6 | None => None end)
         (match s_prof6 s with Some _ => od | None => None end)
         (match s_prof4 s with Some _ => s4 | None => None end)
         (match s_prof6 s with Some _ => s6 | None => None end)
         (match s_prof6 s with Some _ => spd | None => None end) None None None (s_ipcp s)
         None None None (s_x s).
(* handleDHCPv6Solicit records the client's DUID in the session (handleDHCPv6Request does not) *)
Definition mark_duid (isreq : bool) (s : sess) : sess :=
  if isreq then s else
  mkSess (s_id s) (s_ppp s) (s_prof4 s) (s_prof6 s) (s_mac s) (s_live s) (s_started s) (s_vrf s) (s_ov4 s) (s_ov6 s)
         (s_ovd s) (s_a4 s) (s_a6 s) (s_ad s) (s_p4 s) (s_p6 s) (s_told s) true (s_b4 s) (s_b6 s) (s_bd s) (s_x s).
Definition is_mk (s0 : sess) (a6 : option N) (ad : option item) (b6 : option N) (bd : option item) : sess :=
  mkSess (s_id s0) false (s_prof4 s0) (s_prof6 s0) (s_mac s0) true true (s_vrf s0) (s_ov4 s0) (s_ov6 s0)
         (s_ovd s0) (s_a4 s0) a6 ad None None (s_told s0) (s_ipcp s0) (s_b4 s0) b6 bd (s_x s0).
Definition step_is_core (v : variant) (st : state) (s0 : sess) (isreq : bool) : list (state * out) :=
  match s_prof6 s0 with
  | None => [(mkState (st_reg st) (put_sess s0 (st_sess st)) (st_prov st), OIs isreq None false (s_a6 s0) (s_ad s0))]
  | Some _ =>
    bindl (acquire v F6 (s_prof6 s0) (s_ov6 s0) (s_vrf s0) (s_id s0) (oitem (s_a6 s0)) (st_reg st)) (fun c6 =>
      match c6 with (r1, a6, k6, ok6) =>
      if negb ok6 then
        [(mkState r1 (put_sess s0 (st_sess st)) (st_prov st), OIs isreq None false (s_a6 s0) (s_ad s0))]
      else
      bindl (acquire v FD (s_prof6 s0) (s_ovd s0) (s_vrf s0) (s_id s0) (s_ad s0) r1) (fun cd =>
        match cd with (r2, ad, kd, okd) =>
        if negb okd then
          [(mkState r2 (put_sess (is_mk s0 (oaddr a6) (s_ad s0) (s_b6 s0) (s_bd s0)) (st_sess st)) (st_prov st),
            OIs isreq None false (oaddr a6) (s_ad s0))]
        else
          match a6, ad with
          | None, None =>
              [(mkState r2 (put_sess (is_mk s0 None None (s_b6 s0) (s_bd s0)) (st_sess st)) (st_prov st),
                OIs isreq None false None None)]
          | _, _ =>
              (* the real local DHCPv6 provider: SOLICIT -> ADVERTISE, REQUEST -> REPLY (which binds) *)
              match prov6_resolved (p6 (st_prov st)) (s_id s0) (s_mac s0) isreq (oaddr a6) ad k6 kd with
              | (q', true) =>
                  (* only the REPLY binds (handleDHCPv6Reply), and it checkpoints the session *)
                  let s' := if isreq then is_mk s0 (oaddr a6) ad (oaddr a6) ad
                            else is_mk s0 (oaddr a6) ad (s_b6 s0) (s_bd s0) in
                  let pr' := with_p6 (st_prov st) q' in
                  [(mkState r2 (put_sess s' (st_sess st)) (if isreq then ckpt pr' s' else pr'),
                    OIs isreq (Some (oaddr a6, ad)) false (oaddr a6) ad)]
              | (q', false) =>
                  [(mkState r2 (put_sess (is_mk s0 (oaddr a6) ad (s_b6 s0) (s_bd s0)) (st_sess st)) (with_p6 (st_prov st) q'),
                    OIs isreq None true (oaddr a6) ad)]
              end
          end
        end)
      end)
  end.
Definition step_is (v : variant) (st : state) (s : sess) (isreq : bool) (vrf : N) (s6 : option N) (spd : option item)
           (o6 od : option N) : list (state * out) :=
  step_is_core v st (mark_duid isreq (is_ctx s vrf s6 spd o6 od)) isreq.

(* ---------------------------------------------------------------- PPPoE: DHCPv6 over PPP (internal/pppoe/dhcpv6.go)
   forwardDHCPv6 calls dhcp.ResolveV6 on the session's allocation context for EVERY message type: an address / prefix
   the context has is re-staked (a conflict: not resolved), a missing one is allocated and stored in the context.
   Result: registry, context address, context prefix, and - when resolved - (IA_NA, IA_PD, pool names). *)
Definition with_x (s : sess) (x : pppx) (a6 : option N) (ad : option item) : sess :=
  mkSess (s_id s) (s_ppp s) (s_prof4 s) (s_prof6 s) (s_mac s) (s_live s) (s_started s) (s_vrf s) (s_ov4 s) (s_ov6 s)
         (s_ovd s) (s_a4 s) a6 ad (s_p4 s) (s_p6 s) (s_told s) (s_ipcp s) (s_b4 s) (s_b6 s) (s_bd s) x.
Definition pr_sess (s : sess) (x : pppx) : sess :=
  mkSess (s_id s) (s_ppp s) (s_prof4 s) (s_prof6 s) (s_mac s) (s_live s) (s_started s) (s_vrf s) (s_ov4 s) (s_ov6 s)
         (s_ovd s) (s_a4 s) None None (s_p4 s) (s_p6 s) (s_told s) (s_ipcp s) None None None x.
Definition resolve6 (v : variant) (s : sess) (r : reg)
  : list (reg * option N * option item * option (option N * option item * option N * option N)) :=
  let x := s_x s in
  match s_prof6 s with
  | None => [(r, x_c6 x, x_cd x, None)]
  | Some _ =>
      bindl (acquire v F6 (s_prof6 s) (s_ov6 s) (s_vrf s) (s_id s) (oitem (x_c6 x)) r) (fun c6 =>
        match c6 with (r1, a6, k6, ok6) =>
        if negb ok6 then [(r1, x_c6 x, x_cd x, None)]
        else map (fun cd : reg * option item * option N * bool =>
                    match cd with (r2, ad, kd, okd) =>
                    if negb okd then (r2, oaddr a6, x_cd x, None)
                    else match a6, ad with
                         | None, None => (r2, None, None, None)
                         | _, _ => (r2, oaddr a6, ad, Some (oaddr a6, ad, k6, kd))
                         end
                    end) (acquire v FD (s_prof6 s) (s_ovd s) (s_vrf s) (s_id s) (x_cd x) r1)
        end)
  end.
(* SOLICIT -> ADVERTISE, REQUEST -> REPLY; only the REPLY binds (bindDHCPv6: IPv6Address / IPv6Prefix := the REPLY's).
   Not resolved: NO answer - this is the Repaired behaviour and what the IPoE component does since d5fadd1; the
   PPPoE path of /repo still hands the packet to the provider (finding, not a model variant: see notes). *)
Definition step_ps (v : variant) (st : state) (s : sess) (isreq : bool) : list (state * out) :=
  map (fun c : reg * option N * option item * option (option N * option item * option N * option N) =>
         match c with (r2, c6, cd, res) =>
         let x' := mkX c6 cd true in
         match res with
         | None => (mkState r2 (put_sess (with_x s x' (s_a6 s) (s_ad s)) (st_sess st)) (st_prov st),
                    OPs isreq None (s_a6 s) (s_ad s))
         | Some (a6, ad, k6, kd) =>
             match prov6_resolved (p6 (st_prov st)) (s_id s) (s_mac s) isreq a6 ad k6 kd with
             | (q', true) =>
                 let s' := if isreq then with_x s x' a6 ad else with_x s x' (s_a6 s) (s_ad s) in
                 (mkState r2 (put_sess s' (st_sess st)) (with_p6 (st_prov st) q'),
                  OPs isreq (Some (a6, ad)) (s_a6 s') (s_ad s'))
             | (q', false) =>
                 (mkState r2 (put_sess (with_x s x' (s_a6 s) (s_ad s)) (st_sess st)) (with_p6 (st_prov st) q'),
                  OPs isreq None (s_a6 s) (s_ad s))
             end
         end
         end) (resolve6 v s (st_reg st)).
(* RELEASE: ResolveV6 first (as for every message), the provider drops its leases (registry release by the pool names
   they recorded), unbindDHCPv6 releases the recorded address and prefix by address and clears them; the allocation
   context keeps its address and prefix *)
Definition step_pr (v : variant) (st : state) (s : sess) : list (state * out) :=
  bindl (resolve6 v s (st_reg st)) (fun c =>
    match c with (r2, c6, cd, _) =>
    let '(q1, r3) := prov6_release v (p6 (st_prov st)) r2 (s_mac s) (s_id s) in
    let r6s := match s_a6 s with
               | Some a => release_ip v F6 (addr_item a) (s_vrf s) (s_id s) r3
               | None => [r3]
               end in
    bindl r6s (fun r4 =>
      let rds := match s_ad s with
                 | Some x => release_ip v FD x (s_vrf s) (s_id s) r4
                 | None => [r4]
                 end in
      map (fun r5 => (mkState r5 (put_sess (pr_sess s (mkX c6 cd true)) (st_sess st))
                              (with_p6 (st_prov st) q1), OPr)) rds)
    end).

(* IPoE full-release sequences.  ir: the DHCPv4 provider's ReleaseLease(mac) runs; r6: the DHCPv6 provider's
   ReleaseLease(duid) runs.
     handleRelease (DHCPRELEASE, session deleted):  ir = true,  r6 = the session recorded a DUID
     handleSubscriberTerminate (admin):             ir = false, r6 = false
     cleanupSessions (lease expiry reaper):         ir = true,  r6 = false - the reaper releases all three families
       by address and the DHCPv4 lease, deletes the session and its image, and never calls the DHCPv6 provider *)
Definition step_rel (v : variant) (st : state) (s : sess) (ir r6 : bool) : list (state * out) :=
  let r0 := st_reg st in
  let r4s := match s_b4 s with
             | Some a => release_ip v F4 (addr_item a) (s_vrf s) (s_id s) r0
             | None => [r0]
             end in
  bindl r4s (fun r1 =>
    let '(pr', r2) := if ir then prov_release v (st_prov st) r1 (s_mac s) (s_id s) else (st_prov st, r1) in
    let r6s := match s_b6 s with
               | Some a => release_ip v F6 (addr_item a) (s_vrf s) (s_id s) r2
               | None => [r2]
               end in
    bindl r6s (fun r3 =>
      let rds := match s_bd s with
                 | Some x => release_ip v FD x (s_vrf s) (s_id s) r3
                 | None => [r3]
                 end in
      map (fun r4 =>
             (* the DHCPv6 lease is released through the DUID the session recorded, if any *)
             let '(q', r5) := if r6 then prov6_release v (p6 pr') r4 (s_mac s) (s_id s) else (p6 pr', r4) in
             (mkState r5 (put_sess (set_live s false) (st_sess st)) (unckpt (with_p6 pr' q') (s_id s)), ORel ir)) rds)).

(* handleRelease of a unified session whose DHCPv6 bindings stay: only IPv4 is given back, the session lives on
   and is checkpointed *)
Definition drop4 (s : sess) : sess :=
  mkSess (s_id s) (s_ppp s) (s_prof4 s) (s_prof6 s) (s_mac s) (s_live s) (s_started s) (s_vrf s) (s_ov4 s) (s_ov6 s)
         (s_ovd s) (s_a4 s) (s_a6 s) (s_ad s) (s_p4 s) (s_p6 s) None (s_ipcp s) None (s_b6 s) (s_bd s) (s_x s).
Definition drop6 (s : sess) : sess :=
  mkSess (s_id s) (s_ppp s) (s_prof4 s) (s_prof6 s) (s_mac s) (s_live s) (s_started s) (s_vrf s) (s_ov4 s) (s_ov6 s)
         (s_ovd s) (s_a4 s) (s_a6 s) (s_ad s) (s_p4 s) (s_p6 s) (s_told s) (s_ipcp s) (s_b4 s) None None (s_x s).
Definition v6bound (s : sess) : bool :=
  match s_b6 s, s_bd s with None, None => false | _, _ => true end.
Definition step_rel4p (v : variant) (st : state) (s : sess) : list (state * out) :=
  let r4s := match s_b4 s with
             | Some a => release_ip v F4 (addr_item a) (s_vrf s) (s_id s) (st_reg st)
             | None => [st_reg st]
             end in
  map (fun r1 =>
         let '(pr', r2) := prov_release v (st_prov st) r1 (s_mac s) (s_id s) in
         let s' := drop4 s in
         (mkState r2 (put_sess s' (st_sess st)) (ckpt pr' s'), ORel true)) r4s.
(* handleDHCPv6Release: the provider handles the RELEASE, the bindings are released by address; a session with a
   bound IPv4 address lives on (checkpointed), otherwise it is deleted (DHCPv4 lease entry and image dropped) *)
Definition step_rel6 (v : variant) (st : state) (s : sess) : list (state * out) :=
  let '(q1, r1) := prov6_release v (p6 (st_prov st)) (st_reg st) (s_mac s) (s_id s) in
  let r6s := match s_b6 s with
             | Some a => release_ip v F6 (addr_item a) (s_vrf s) (s_id s) r1
             | None => [r1]
             end in
  bindl r6s (fun r2 =>
    let rds := match s_bd s with
               | Some x => release_ip v FD x (s_vrf s) (s_id s) r2
               | None => [r2]
               end in
    map (fun r3 =>
           let pr1 := with_p6 (st_prov st) q1 in
           match s_b4 s with
           | Some _ => let s' := drop6 s in (mkState r3 (put_sess s' (st_sess st)) (ckpt pr1 s'), ORel6)
           | None => let '(pr2, r4) := prov_release v pr1 r3 (s_mac s) (s_id s) in
                     (mkState r4 (put_sess (set_live s false) (st_sess st)) (unckpt pr2 (s_id s)), ORel6)
           end) rds).

Definition new_sess (id : N) (ppp : bool) (prof4 prof6 : option N) (mac : N) : sess :=
  mkSess id ppp prof4 prof6 mac true false 0 None None None None None None None None None false None None None nox.
(* restart: registry, provider tables and sessions are gone; restoreSessions brings back every session that has
   an image (installInMemoryState re-reserves the image's addresses; a conflict is only logged: flag d8).
   PPPoE sessions are outside this model's restore and simply end. *)
Definition reset_pool (p : pool) : pool := with_lf p [] (init_free (p_geom p)).
Definition reserve_first (v : variant) (f : fam) (x : option item) (vrf sid : N) (r : reg) : reg * option item :=
  match x with
  | None => (r, None)
  | Some i => match reserve_cont v f i vrf sid r with
              | (r', ok) :: _ => (r', if ok || d8 v then Some i else None)
              | [] => (r, if d8 v then Some i else None)
              end
  end.
Definition restore_one (v : variant) (st0 : list (N * sess)) (acc : reg * list sess) (s : sess) : reg * list sess :=
  let (r, done) := acc in
  match (if s_ppp s then None else passoc (s_id s) st0) with
  | None =>
      (* a subscriber that has not arrived yet is unaffected; an established session without an image is gone *)
      (r, done ++ [if s_started s then set_live s false
                   else new_sess (s_id s) (s_ppp s) (s_prof4 s) (s_prof6 s) (s_mac s)])
  | Some im =>
      let '(r1, b4) := reserve_first v F4 (oitem (s_b4 im)) (s_vrf im) (s_id s) r in
      let '(r2, b6) := reserve_first v F6 (oitem (s_b6 im)) (s_vrf im) (s_id s) r1 in
      let '(r3, bd) := reserve_first v FD (s_bd im) (s_vrf im) (s_id s) r2 in
      (r3, done ++ [mkSess (s_id s) false (s_prof4 im) (s_prof6 im) (s_mac im) true true (s_vrf im) (s_ov4 im)
                           (s_ov6 im) (s_ovd im) (s_a4 im) (s_a6 im) (s_ad im) None None (oaddr b4) (s_ipcp im)
                           (oaddr b4) (oaddr b6) bd (s_x im)])
  end.
Definition step_restart (v : variant) (st : state) : list (state * out) :=
  let r0 := mkReg (map reset_pool (pools (st_reg st))) [] in
  let st0 := store (st_prov st) in
  let (r', ss) := fold_left (restore_one v st0) (st_sess st) (r0, []) in
  [(mkState r' ss (mkProv [] [] [] 0 (mkProv6 [] [] [] []) st0), ORestart)].

Definition skip (st : state) : list (state * out) := [(st, OSkip)].

Definition step (v : variant) (st : state) (o : op) : list (state * out) :=
  match o with
  | PA sid vrf s4 s6 spd o4 o6 od =>
      match find_sess sid st with
      | Some s => if s_ppp s && s_live s then step_pa v st s vrf s4 s6 spd o4 o6 od else skip st
      | None => skip st
      end
  | PI sid a =>
      match find_sess sid st with
      | Some s => if s_ppp s && s_live s && s_started s && negb (s_ipcp s) then step_pi st s a else skip st
      | None => skip st
      end
  | PT sid =>
      match find_sess sid st with
      | Some s => if s_ppp s then step_pt v st s else skip st
      | None => skip st
      end
  | ID isreq bind rq sid vrf s4 o4 =>
      match find_sess sid st with
      | Some s => if negb (s_ppp s) && s_live s then step_id v st s isreq bind rq vrf s4 o4 else skip st
      | None => skip st
      end
  | IS isreq sid vrf s6 spd o6 od =>
      match find_sess sid st with
      | Some s => if negb (s_ppp s) && s_live s then step_is v st s isreq vrf s6 spd o6 od else skip st
      | None => skip st
      end
  | Restart => step_restart v st
  | IL sid =>
      match find_sess sid st with
      | Some s => if negb (s_ppp s) && s_live s then step_rel6 v st s else skip st
      | None => skip st
      end
  | IR sid =>
      match find_sess sid st with
      | Some s => if negb (s_ppp s) && s_live s
                  then (if v6bound s then step_rel4p v st s else step_rel v st s true (s_ipcp s)) else skip st
      | None => skip st
      end
  | IT sid =>
      match find_sess sid st with
      | Some s => if negb (s_ppp s) && s_live s then step_rel v st s false false else skip st
      | None => skip st
      end
  | IA sid =>
      match find_sess sid st with
      | Some s => if negb (s_ppp s) then [(mkState (st_reg st) (st_sess st) (prov_age (st_prov st) (s_mac s)), OIa)]
                  else skip st
      | None => skip st
      end
  | IM sid =>
      (* processDHCPv6Packet stores sess.DHCPv6DUID before it looks at the AAA state *)
      match find_sess sid st with
      | Some s => if negb (s_ppp s)
                  then [(mkState (st_reg st) (put_sess (mark_duid false s) (st_sess st)) (st_prov st), OSkip)]
                  else skip st
      | None => skip st
      end
  | HR f key x sid =>
      (* sid names a session of the peer node: no local session has that id *)
      match find_sess sid st with
      | Some _ => skip st
      | None => map (fun c : reg * bool => (mkState (fst c) (st_sess st) (st_prov st), OHa (snd c)))
                    (reserve_named v f key x sid (st_reg st))
      end
  | HL f key x sid =>
      match find_sess sid st with
      | Some _ => skip st
      | None => map (fun r' => (mkState r' (st_sess st) (st_prov st), OHa true)) (release_named v f key x sid (st_reg st))
      end
  | PS isreq sid =>
      match find_sess sid st with
      | Some s => if s_ppp s && s_live s && s_started s then step_ps v st s isreq else skip st
      | None => skip st
      end
  | PR sid =>
      match find_sess sid st with
      | Some s => if s_ppp s && s_live s && s_started s then step_pr v st s else skip st
      | None => skip st
      end
  | PX sid =>
      match find_sess sid st with
      | Some s => if s_ppp s && negb (s_live s) && x_du (s_x s)
                  then let '(q1, r1) := prov6_release v (p6 (st_prov st)) (st_reg st) (s_mac s) (s_id s) in
                       [(mkState r1 (st_sess st) (with_p6 (st_prov st) q1), OSkip)]
                  else skip st
      | None => skip st
      end
  | IE sid =>
      match find_sess sid st with
      | Some s => if negb (s_ppp s) && s_live s then step_rel v st s true false else skip st
      | None => skip st
      end
  | IC sid vrf s4 o4 s6 spd o6 od =>
      match find_sess sid st with
      | Some s => if negb (s_ppp s) && s_live s && negb (s_started s)
                  then [(mkState (st_reg st) (put_sess (ic_ctx s vrf s4 o4 s6 spd o6 od) (st_sess st)) (st_prov st),
                         OSkip)]
                  else skip st
      | None => skip st
      end
  end.

(* Config.Validate -> validateSubscriberPoolOverlap (/repo 1d4c0cb): the ranges of two pools of one family and one VRF
   must be disjoint, across all profiles (an empty range overlaps nothing; PD pools: the pool networks).  A
   configuration that fails is rejected at load time: nothing is built from it. *)
Definition pool_span (p : pool) : N * N :=
  match p_geom p with
  | GRange lo hi _ => (lo, hi)
  | GPfx base _ count shift => (base, base + count * 2 ^ shift - 1)
  end.
Definition spans_apart (p q : pool) : bool :=
  let (a1, b1) := pool_span p in let (a2, b2) := pool_span q in
  (b1 <? a1) || (b2 <? a2) || (b1 <? a2) || (b2 <? a1).
Definition cfg_valid (ps : list pool) : bool :=
  forallb (fun p => forallb (fun q => same_pool p q || negb (fam_eqb (p_fam p) (p_fam q)) ||
                                      negb (p_vrf p =? p_vrf q) || spans_apart p q) ps) ps.

Definition init_state (ps : list pool) (ss : list sess) : state :=
  mkState (mkReg ps []) ss (mkProv [] [] [] 0 (mkProv6 [] [] [] []) []).

(* ---------------------------------------------------------------- property-level observables *)
(* what a live session has been told / records as its own address in a family *)
Definition holds (s : sess) (f : fam) : option item :=
  if s_live s then
    if s_ppp s then
      match f with F4 => oitem (s_a4 s) | F6 => oitem (s_a6 s) | FD => s_ad s end
    else
      match f with F4 => oitem (s_told s) | F6 => oitem (s_b6 s) | FD => s_bd s end
  else None.

(* reachability: any choice of candidates *)
Inductive reach (v : variant) (st0 : state) : state -> Prop :=
| reach_init : reach v st0 st0
| reach_step st o st' ot : reach v st0 st -> In (st', ot) (step v st o) -> reach v st0 st'.

(* executable run for witnesses: always follow the first candidate *)
Fixpoint run_first (v : variant) (st : state) (ops : list op) : state :=
  match ops with
  | [] => st
  | o :: r => match step v st o with
              | (st', _) :: _ => run_first v st' r
              | [] => st
              end
  end.
