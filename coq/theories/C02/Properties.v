From OV Require Import Common.Base C02.Model C02.Proofs.
Example C02_placeholder : fallback_addr = 1681915905%N.
Proof. reflexivity. Qed.
Print Assumptions C02_placeholder.
