(* C02/Properties.v — property theorems (Repaired model; Head = /repo HEAD) and refutation witnesses (Defective =
   the tree before any fix).
   Each theorem is closed by [exact] of a lemma from Proofs.v (or vm_compute for concrete witnesses). *)
From OV Require Import Common.Base C02.Model C02.Proofs C02.HeadSafe C02.Told C02.CfgValid.
Open Scope N_scope.

(* Release frees only the releasing session's own leases: every release path of the model — Release by pool
   name, ReleaseIP/ReleaseIANAByIP over all pools, ReleasePDByPrefix, the DHCPv4 provider's ReleaseLease —
   leaves whatever any OTHER session owns (pool lease or recorded static address) untouched, in every
   well-formed registry, for every address, family and VRF. *)
Theorem C02_release_only_own :
  forall r s, reg_ok r ->
  (forall f key x, let r' := release_pool Repaired f key x s r in
     reg_ok r' /\ forall t f' v y, t <> s -> owns r f' v y t -> owns r' f' v y t) /\
  (forall f x vrf r', In r' (release_ip Repaired f x vrf s r) ->
     reg_ok r' /\ forall t f' v y, t <> s -> owns r f' v y t -> owns r' f' v y t) /\
  (forall pr mac pr' r', prov_release Repaired pr r mac s = (pr', r') ->
     reg_ok r' /\ forall t f' v y, t <> s -> owns r f' v y t -> owns r' f' v y t).
Proof.
  intros r s Hok. split; [|split].
  - intros f key x r'. destruct (release_pool_ok f key x s r Hok) as (A & _ & C).
    split; [exact A|]. intros t f' v y Ht. apply C. exact Ht.
  - intros f x vrf r' H. destruct (release_ip_ok _ _ _ _ _ _ H Hok) as (A & _ & C).
    split; [exact A|]. intros t f' v y Ht. apply C. exact Ht.
  - intros pr mac pr' r' H. destruct (prov_release_ok _ _ _ _ _ _ H Hok) as (A & _ & C).
    split; [exact A|]. intros t f' v y Ht. apply C. exact Ht.
Qed.
Print Assumptions C02_release_only_own.

(* Allocation never takes anything away from anybody, and what it answers is owned by the asking session —
   for every choice of free slot, override and VRF walk. *)
Theorem C02_allocate_owned :
  forall f prof ov vrf s r r' res, reg_ok r -> In (r', res) (alloc_from_profile Repaired f prof ov vrf s r) ->
  reg_ok r' /\ (forall t f' v y, owns r f' v y t -> owns r' f' v y t) /\
  (res = None \/ exists x k, res = Some (x, k) /\ owns r' f vrf x s).
Proof.
  intros f prof ov vrf s r r' res Hok Hc.
  destruct (alloc_from_profile_ok _ _ _ _ _ _ _ _ Hok Hc) as [A B].
  destruct (A Hok) as (A1 & _ & A3). repeat split; try apply A1; auto.
  intros t f' v y. apply A3. exact I.
Qed.
Print Assumptions C02_allocate_owned.

(* Reserving an AAA-supplied address (inside a pool: any containing pool Go's map order may pick; outside
   every pool: the per-VRF ledger) either is refused or makes the session its owner; nobody else loses
   anything. *)
Theorem C02_reserve_owned_or_refused :
  forall f x vrf s r r' ok, reg_ok r -> In (r', ok) (reserve_cont Repaired f x vrf s r) ->
  reg_ok r' /\ (forall t f' v y, owns r f' v y t -> owns r' f' v y t) /\ (ok = true -> owns r' f vrf x s).
Proof.
  intros f x vrf s r r' ok Hok Hc.
  destruct (reserve_cont_ok _ _ _ _ _ _ _ Hok Hc) as [A B].
  destruct (A Hok) as (A1 & _ & A3). repeat split; try apply A1; auto.
  intros t f' v y. apply A3. exact I.
Qed.
Print Assumptions C02_reserve_owned_or_refused.

(* the DHCPv4 provider's reserveIP (renewal, expiry take-over, conflict) never changes the registry *)
Theorem C02_provider_reserve_keeps_registry :
  forall pr r ip mac sid pool pr' r' ok, prov_reserve Repaired pr r ip mac sid pool = (pr', r', ok) -> r' = r.
Proof. exact prov_reserve_reg. Qed.
Print Assumptions C02_provider_reserve_keeps_registry.

(* one owner per (family, VRF, address) *)
Theorem C02_one_owner :
  forall r f v x s t, reg_ok r -> pools_disjoint r -> owns r f v x s -> owns r f v x t -> s = t.
Proof. exact owns_functional. Qed.
Print Assumptions C02_one_owner.

(* Hypotheses on the configuration (not on the history): pool ids distinct, pools well-formed at start (true of
   every range pool: C02_initial_pools_wf; PD pools need the index round-trip [geom_ok]), address-family pools are
   range pools [kinds_ok], subscriber ids distinct, sessions start without addresses.

   C02_told_is_recorded — in EVERY state reachable in the Repaired model by ANY history over the whole event
   alphabet (PA PI PT ID IQ IS IV IR IL IT IA and Restart, any arguments, any candidate choice; Restart = the
   process dies, registry/provider tables/sessions are lost and restoreSessions rebuilds them from the persisted
   images), for every session:
   what it holds (PPPoE: recorded IPv4/IPv6/PD; IPoE: last OFFER/ACK yiaddr, IA_NA/PD bound by the last REPLY - ADVERTISEd but not yet REPLYed values are not part of [holds]) is owned by that
   session in the registry (leased to it in a pool containing it, or recorded for it in its VRF's static ledger);
   for PPPoE the recorded IPv4 address is the IPCP-told one (or none), and the told one is owned while live. *)
Theorem C02_told_is_recorded :
  forall ps ss st,
  NoDup (map pool_id ps) -> Forall pool_wf ps -> kinds_ok (mkReg ps []) -> resettable (mkReg ps []) ->
  NoDup (map s_id ss) -> Forall fresh_sess ss ->
  reach Repaired (init_state ps ss) st ->
  forall s, In s (st_sess st) ->
    (forall f x, holds s f = Some x -> owns (st_reg st) f (s_vrf s) x (s_id s)) /\
    (s_ppp s = true ->
       (s_a4 s = None \/ s_a4 s = s_told s) /\
       (s_live s = true -> forall t, s_told s = Some t -> owns (st_reg st) F4 (s_vrf s) (t, 0) (s_id s))).
Proof. exact told_is_recorded_all. Qed.
Print Assumptions C02_told_is_recorded.

(* C02_unique — with pools of a family pairwise disjoint, in every reachable state two sessions of one VRF that
   hold the same IPv4 address / IPv6 address / delegated prefix are the same session. *)
Theorem C02_unique :
  forall ps ss st,
  NoDup (map pool_id ps) -> Forall pool_wf ps -> kinds_ok (mkReg ps []) -> resettable (mkReg ps []) ->
  pools_disjoint (mkReg ps []) ->
  NoDup (map s_id ss) -> Forall fresh_sess ss ->
  reach Repaired (init_state ps ss) st ->
  forall s1 s2 f x, In s1 (st_sess st) -> In s2 (st_sess st) -> s_vrf s1 = s_vrf s2 ->
    holds s1 f = Some x -> holds s2 f = Some x -> s1 = s2.
Proof. exact unique_all. Qed.
Print Assumptions C02_unique.

(* The disjointness hypothesis of C02_unique is what Config.Validate establishes since /repo 1d4c0cb
   (validateSubscriberPoolOverlap): [cfg_valid] - the ranges of two pools of one family and one VRF are disjoint - is
   checked on every configuration before anything is built from it (harness: the real Config.Validate; model:
   cfg_valid; a configuration that fails ends as "rejected-config").  [geom_fits]: ranges lie in the address space. *)
Theorem C02_validated_config_disjoint :
  forall ps, (forall p, In p ps -> geom_fits (p_geom p)) -> cfg_valid ps = true -> pools_disjoint (mkReg ps []).
Proof. exact cfg_valid_disjoint. Qed.
Print Assumptions C02_validated_config_disjoint.

Theorem C02_unique_validated :
  forall ps ss st,
  NoDup (map pool_id ps) -> Forall pool_wf ps -> kinds_ok (mkReg ps []) -> resettable (mkReg ps []) ->
  (forall p, In p ps -> geom_fits (p_geom p)) -> cfg_valid ps = true ->
  NoDup (map s_id ss) -> Forall fresh_sess ss ->
  reach Repaired (init_state ps ss) st ->
  forall s1 s2 f x, In s1 (st_sess st) -> In s2 (st_sess st) -> s_vrf s1 = s_vrf s2 ->
    holds s1 f = Some x -> holds s2 f = Some x -> s1 = s2.
Proof. exact unique_validated. Qed.
Print Assumptions C02_unique_validated.

(* range pools are well-formed again after a reset (hypothesis [resettable] of the two theorems above) *)
Theorem C02_range_pools_resettable :
  forall ps, (forall p, In p ps -> exists lo hi ex, p_geom p = GRange lo hi ex) -> resettable (mkReg ps []).
Proof. exact range_resettable. Qed.
Print Assumptions C02_range_pools_resettable.

(* every configuration of range pools and well-formed PD pools meets [resettable]; fresh pools are [pool_wf] *)
Theorem C02_config_pools_wf :
  forall ps, (forall p, In p ps -> (exists lo hi ex, p_geom p = GRange lo hi ex) \/ pd_geom_wf (p_geom p)) ->
  resettable (mkReg ps []) /\ (Forall (fun p => p = reset_pool p) ps -> Forall pool_wf ps).
Proof. exact cfg_resettable. Qed.
Print Assumptions C02_config_pools_wf.

(* initial registries built from address ranges are well-formed *)
Theorem C02_initial_pools_wf :
  forall f key prof vrf lo hi ex, pool_wf (new_pool f key prof vrf (GRange lo hi ex)).
Proof. exact new_pool_wf_range. Qed.
Print Assumptions C02_initial_pools_wf.

(* ------------------------------------------------------------------ witnesses *)
Definition a1 : N := 167772161.   (* 10.0.0.1 *)
Definition a2 : N := 167772162.
Definition holds_of (st : state) (sid : N) (f : fam) : option item :=
  match find_sess sid st with Some s => holds s f | None => None end.

(* D1: pool of one address, three PPPoE subscribers *)
Definition w1_init := init_state [new_pool F4 1 0 0 (GRange a1 a1 [])]
                                 [new_sess 1 true (Some 0) None 1; new_sess 2 true (Some 0) None 2; new_sess 3 true (Some 0) None 3].
Definition w1_ops := [PA 1 0 None None None None None None; PA 2 0 None None None None None None;
                      PA 3 0 None None None None None None; PI 2 (Some fallback_addr)].
(* before fix 24c9504: sessions 2 and 3, same VRF, both live, both hold 100.64.0.1 (and IPCP acked it for 2) *)
Theorem C02_unique_refuted :
  let st := run_first Defective w1_init w1_ops in
  holds_of st 2 F4 = Some (fallback_addr, 0) /\ holds_of st 3 F4 = Some (fallback_addr, 0).
Proof. vm_compute. split; reflexivity. Qed.
Print Assumptions C02_unique_refuted.

(* D2: overlapping pools in VRF 1 and VRF 2; IPoE session 1 (VRF 1) releases 10.0.0.1 by IP *)
Definition w2_init := init_state [new_pool F4 1 0 1 (GRange a1 a1 []); new_pool F4 2 0 2 (GRange a1 a1 [])]
                                 [new_sess 1 false (Some 0) None 1; new_sess 2 true (Some 0) None 2; new_sess 3 true (Some 0) None 3].
Definition w2_ops := [ID true true None 1 1 None None; PA 2 2 None None None None None None; IR 1;
                      PA 3 2 None None None None None None].
(* still open at HEAD (unchecked release): session 2 (VRF 2, still live) and session 3 (VRF 2) both hold 10.0.0.1 *)
Theorem C02_release_only_own_refuted :
  let st := run_first Defective w2_init w2_ops in
  holds_of st 2 F4 = Some (a1, 0) /\ holds_of st 3 F4 = Some (a1, 0).
Proof. vm_compute. split; reflexivity. Qed.
Print Assumptions C02_release_only_own_refuted.

(* D3: admin terminate keeps the DHCPv4 lease; after its expiry the take-over frees the new holder's lease *)
Definition w3_init := init_state [new_pool F4 1 0 0 (GRange a1 a1 [])]
                                 [new_sess 1 false (Some 0) None 1; new_sess 2 false (Some 0) None 2; new_sess 3 true (Some 0) None 3].
Definition w3_ops := [ID false false None 1 0 None None; ID true true None 1 0 None None; IT 1; IA 1; ID false false None 2 0 (Some a1) None;
                      PA 3 0 None None None None None None].
(* before fix 58e16d0: session 2 is offered 10.0.0.1, the registry holds nothing for it, session 3 gets 10.0.0.1 *)
Theorem C02_told_is_recorded_refuted :
  let st := run_first Defective w3_init w3_ops in
  holds_of st 2 F4 = Some (a1, 0) /\ holds_of st 3 F4 = Some (a1, 0) /\
  map (fun p => p_leases p) (pools (st_reg st)) = [[(a1, 3)]].
Proof. vm_compute. repeat split; reflexivity. Qed.
Print Assumptions C02_told_is_recorded_refuted.

(* non-vacuity: the same three histories in the Repaired model keep every held address distinct and owned *)
Example C02_nonvacuous :
  (let st := run_first Repaired w1_init w1_ops in
   holds_of st 1 F4 = Some (a1, 0) /\ holds_of st 2 F4 = None /\ holds_of st 3 F4 = None) /\
  (let st := run_first Repaired w2_init w2_ops in
   holds_of st 2 F4 = Some (a1, 0) /\ holds_of st 3 F4 = None) /\
  (let st := run_first Repaired w3_init w3_ops in
   holds_of st 2 F4 = Some (a1, 0) /\ holds_of st 3 F4 = None /\
   map (fun p => p_leases p) (pools (st_reg st)) = [[(a1, 2)]]) /\
  reg_ok (st_reg w2_init) /\ pools_disjoint (st_reg w2_init) /\   (* the same subnet in VRF 1 and VRF 2 is fine *)
  reg_ok (st_reg w1_init) /\ pools_disjoint (st_reg w1_init).
Proof.
  split; [vm_compute; repeat split; reflexivity|].
  split; [vm_compute; repeat split; reflexivity|].
  split; [vm_compute; repeat split; reflexivity|].
  split.
  { split; [simpl; constructor; [simpl; intros [H|[]]; discriminate H|constructor; [simpl; tauto|constructor]]|].
    constructor; [apply new_pool_wf_range|constructor; [apply new_pool_wf_range|constructor]]. }
  split.
  { intros p q x Hp Hq _ Hv _ _. simpl in Hp, Hq.
    destruct Hp as [<-|[<-|[]]], Hq as [<-|[<-|[]]]; try reflexivity; discriminate Hv. }
  split.
  { split; [simpl; constructor; [simpl; tauto|constructor]|]. constructor; [apply new_pool_wf_range|constructor]. }
  intros p q x Hp Hq _ _ _ _. simpl in Hp, Hq. destruct Hp as [<-|[]], Hq as [<-|[]]. reflexivity.
Qed.
Print Assumptions C02_nonvacuous.

(* non-vacuity of C02_unique / C02_told_is_recorded: a configuration meeting every hypothesis, a reachable state in
   which two live sessions of one VRF hold (different) addresses *)
Definition w4_ps := [new_pool F4 1 0 0 (GRange a1 a2 [])].
Definition w4_ss := [new_sess 1 true (Some 0) None 1; new_sess 2 false (Some 0) None 2].
Definition w4_ops := [PA 1 0 None None None None None None; ID true true None 2 0 None None; PI 1 (Some a1); Restart;
                      ID true true None 2 0 None None].
Example C02_unique_nonvacuous :
  NoDup (map pool_id w4_ps) /\ Forall pool_wf w4_ps /\ kinds_ok (mkReg w4_ps []) /\ resettable (mkReg w4_ps []) /\
  pools_disjoint (mkReg w4_ps []) /\
  NoDup (map s_id w4_ss) /\ Forall fresh_sess w4_ss /\
  (let st := run_first Repaired (init_state w4_ps w4_ss) w4_ops in
   reach Repaired (init_state w4_ps w4_ss) st /\
   holds_of st 1 F4 = None /\ holds_of st 2 F4 = Some (a2, 0)).   (* the PPPoE session ends at the restart *)
Proof.
  split; [simpl; constructor; [simpl; tauto|constructor]|].
  split; [constructor; [apply new_pool_wf_range|constructor]|].
  split; [intros p [<-|[]] _ sl; reflexivity|].
  split; [apply range_resettable; intros p [<-|[]]; eexists _, _, _; reflexivity|].
  split; [intros p q x [<-|[]] [<-|[]] _ _ _ _; reflexivity|].
  split; [simpl; constructor; [simpl; intros [H|[]]; discriminate H|constructor; [simpl; tauto|constructor]]|].
  split; [constructor; [apply fresh_new|constructor; [apply fresh_new|constructor]]|].
  split; [apply run_first_reach; constructor|vm_compute; split; reflexivity].
Qed.
Print Assumptions C02_unique_nonvacuous.

(* DISJ is needed: two pools of one VRF (two profiles) that share an address hand it out independently - in the Repaired
   model too.  /repo enforces it at configuration load since 1d4c0cb (finding "pools-overlap-within-vrf-accepted",
   fixed): this configuration fails cfg_valid. *)
Definition w8_ps := [new_pool F4 1 0 0 (GRange a1 a1 []); new_pool F4 2 1 0 (GRange a1 a2 [])].
Definition w8_ss := [new_sess 1 true (Some 0) None 1; new_sess 2 true (Some 1) None 2].
Definition w8_ops := [PA 1 0 None None None None None None; PA 2 0 None None None None None None].
Theorem C02_unique_needs_disjoint_pools :
  let st := run_first Repaired (init_state w8_ps w8_ss) w8_ops in
  holds_of st 1 F4 = Some (a1, 0) /\ holds_of st 2 F4 = Some (a1, 0).
Proof. vm_compute. split; reflexivity. Qed.
Print Assumptions C02_unique_needs_disjoint_pools.
Example C02_overlapping_config_rejected : cfg_valid w8_ps = false /\ cfg_valid w4_ps = true.
Proof. vm_compute. split; reflexivity. Qed.
Print Assumptions C02_overlapping_config_rejected.

(* ------------------------------------------------------------------ IPoE: told = recorded *)
(* In every reachable state an IPoE session that records an IPv4 address (sess.IPv4, written by handleAck)
   records exactly the address of its last OFFER/ACK, which is also the address of its allocation context. *)
Theorem C02_ipoe_recorded_is_told :
  forall ps ss st, Forall fresh_sess ss -> reach Repaired (init_state ps ss) st ->
  forall s, In s (st_sess st) -> s_ppp s = false ->
    s_b4 s = None \/ (s_b4 s = s_told s /\ s_a4 s = s_b4 s).
Proof. exact ipoe_recorded_is_told. Qed.
Print Assumptions C02_ipoe_recorded_is_told.

(* ... and the direction the clause (and the fixed defect d6) is about: told => recorded.  Whatever address an IPoE
   subscriber is SENT - OFFER or ACK yiaddr, DHCPv6 REPLY IA_NA / IA_PD - is, right after that step, the session's
   told / bound value and owned by the session in the registry of its VRF; an ACK is recorded as sess.IPv4.  (The op
   is the one the code at HEAD performs: every ACK goes through handleAck, bind = isreq.)  A model with d6 - an ACK
   that leaves s_b4 empty - falsifies the third conjunct. *)
Theorem C02_ipoe_v4_told_is_recorded :
  forall ps ss, NoDup (map pool_id ps) -> Forall pool_wf ps -> kinds_ok (mkReg ps []) -> resettable (mkReg ps []) ->
  NoDup (map s_id ss) -> Forall fresh_sess ss ->
  forall st isreq rq sid vrf s4 o4 st' x c,
  reach Repaired (init_state ps ss) st ->
  In (st', OId isreq (IdTold x) c) (step Repaired st (ID isreq isreq rq sid vrf s4 o4)) ->
  exists s', find_sess sid st' = Some s' /\ s_told s' = Some x /\ (isreq = true -> s_b4 s' = Some x) /\
             owns (st_reg st') F4 (s_vrf s') (x, 0) sid.
Proof. exact ipoe_v4_told_is_recorded. Qed.
Print Assumptions C02_ipoe_v4_told_is_recorded.

Theorem C02_ipoe_v6_reply_is_recorded :
  forall ps ss, NoDup (map pool_id ps) -> Forall pool_wf ps -> kinds_ok (mkReg ps []) -> resettable (mkReg ps []) ->
  NoDup (map s_id ss) -> Forall fresh_sess ss ->
  forall st sid vrf s6 spd o6 od st' a6 ad e c6 cd,
  reach Repaired (init_state ps ss) st ->
  In (st', OIs true (Some (a6, ad)) e c6 cd) (step Repaired st (IS true sid vrf s6 spd o6 od)) ->
  exists s', find_sess sid st' = Some s' /\ s_b6 s' = a6 /\ s_bd s' = ad /\
             (forall a, a6 = Some a -> owns (st_reg st') F6 (s_vrf s') (a, 0) sid) /\
             (forall x, ad = Some x -> owns (st_reg st') FD (s_vrf s') x sid).
Proof. exact ipoe_v6_reply_is_recorded. Qed.
Print Assumptions C02_ipoe_v6_reply_is_recorded.

(* PPPoE: the IPCP-acknowledged address equals the recorded one, over any number of Configure-Request exchanges of one
   authentication.  [told_ok] holds of every PPPoE session of a reachable state (invariant behind C02_told_is_recorded).
   A Configure-Nak'ed or rejected proposal leaves nothing behind: the next request - also one without an IP-Address
   option - is answered from the told address alone (seeded C02_r2 remembered the Nak'ed proposal). *)
Theorem C02_ipcp_ack_is_recorded :
  forall st s a st' r v4,
  told_ok s -> s_ppp s = true -> In (st', OPi r v4) (step_pi st s a) ->
  (exists b, st_sess st' = put_sess (pi_upd s v4 b) (st_sess st)) /\
  (forall x, r = PiAck (Some x) -> v4 = Some x /\ s_told s = Some x) /\
  ((forall x, r <> PiAck (Some x)) -> v4 = s_a4 s).
Proof. exact pi_ack_is_recorded. Qed.
Print Assumptions C02_ipcp_ack_is_recorded.

(* HA sync entry points (Reserve*InPool): the pool a key names is looked up among the pools of the address's OWN family
   - an IPv4 pool and an IA_NA pool may carry the same name - and the reservation is made there.  Example: pools "1" in
   both families; the peer's session 1000 reserves IA_NA address v6a in pool "1"; the local subscriber that connects
   afterwards is given the other address of the IA_NA pool (seeded C02_r3 looked the name up in the IPv4 map). *)
Theorem C02_reserve_named_own_family :
  forall v f k x s r p c,
  find (fun p => p_key p =? k) (fam_pools f r) = Some p ->
  In c (reserve_named v f (Some k) x s r) -> c = reserve_in r p x s /\ p_fam p = f.
Proof.
  intros v f k x s r p c Hf. unfold reserve_named. rewrite Hf. intros [<-|[]]. split; [reflexivity|].
  apply find_in in Hf. destruct Hf as [Hf _]. apply fam_pools_in in Hf. apply Hf.
Qed.
Print Assumptions C02_reserve_named_own_family.
Definition v6a : N := 42540766411282592875350729025363378177.
Definition w9_ps := [new_pool F4 1 0 0 (GRange a1 a2 []); new_pool F6 1 0 0 (GRange v6a (v6a + 1) [])].
Definition w9_ss := [new_sess 2 false None (Some 0) 2].
Definition w9_ops := [HR F6 (Some 1) (v6a, 0) 1000; IS true 2 0 None None None None].
Example C02_ha_named_reserve_example :
  let st := run_first Repaired (init_state w9_ps w9_ss) w9_ops in
  holds_of st 2 F6 = Some (v6a + 1, 0) /\
  (forall p, In p (pools (st_reg st)) -> p_fam p = F4 -> p_leases p = []).
Proof. vm_compute. split; [reflexivity|]. intros p [<-|[<-|[]]]; [reflexivity|discriminate]. Qed.
Print Assumptions C02_ha_named_reserve_example.

(* ------------------------------------------------------------------ the code at /repo HEAD *)
(* [Head] = the variant /repo HEAD implements (fixed: constant fall-back 24c9504, expiry take-over 58e16d0,
   unresolved answers d5fadd1, pending ACK b04c868, nil pool d114f02, overlapping AAA prefix 23daa44; still open: unchecked release, untracked
   out-of-pool statics, VRF-blind containment walk / override, restore keeping conflicting addresses).
   [reach_benign]: at every step of the history HEAD has exactly the successors of the Repaired model, i.e. none of
   the open-finding triggers fires at that step (the driver evaluates exactly this per case, mode "benign").
   C02_head_triggers characterises the triggers at the primitives: outside them the variants coincide. *)
Theorem C02_head_told_is_recorded :
  forall ps ss st,
  NoDup (map pool_id ps) -> Forall pool_wf ps -> kinds_ok (mkReg ps []) -> resettable (mkReg ps []) ->
  NoDup (map s_id ss) -> Forall fresh_sess ss ->
  reach_benign (init_state ps ss) st ->
  forall s, In s (st_sess st) ->
    (forall f x, holds s f = Some x -> owns (st_reg st) f (s_vrf s) x (s_id s)) /\
    (s_ppp s = true ->
       (s_a4 s = None \/ s_a4 s = s_told s) /\
       (s_live s = true -> forall t, s_told s = Some t -> owns (st_reg st) F4 (s_vrf s) (t, 0) (s_id s))) /\
    (s_ppp s = false -> s_b4 s = None \/ (s_b4 s = s_told s /\ s_a4 s = s_b4 s)).
Proof. exact head_told_is_recorded. Qed.
Print Assumptions C02_head_told_is_recorded.

Theorem C02_head_unique :
  forall ps ss st,
  NoDup (map pool_id ps) -> Forall pool_wf ps -> kinds_ok (mkReg ps []) -> resettable (mkReg ps []) ->
  pools_disjoint (mkReg ps []) ->
  NoDup (map s_id ss) -> Forall fresh_sess ss ->
  reach_benign (init_state ps ss) st ->
  forall s1 s2 f x, In s1 (st_sess st) -> In s2 (st_sess st) -> s_vrf s1 = s_vrf s2 ->
    holds s1 f = Some x -> holds s2 f = Some x -> s1 = s2.
Proof. exact head_unique. Qed.
Print Assumptions C02_head_unique.

(* where HEAD and Repaired can differ at all: exactly the recorded findings *)
Theorem C02_head_triggers :
  (* release-frees-foreign-lease: only a release of a slot leased to somebody else *)
  (forall p sl s, (forall o, lease_of p sl = Some o -> o = s) ->
     pool_release Head p sl s = pool_release Repaired p sl s) /\
  (* static-outside-pools-untracked / reserve-ignores-vrf: only an address in no pool, or in a pool of another VRF *)
  (forall f x vrf s r, (exists p, In p (fam_pools f r) /\ contains p x = true) ->
     (forall p, In p (fam_pools f r) -> contains p x = true -> p_vrf p = vrf) ->
     reserve_cont Head f x vrf s r = reserve_cont Repaired f x vrf s r) /\
  (* an unresolved DISCOVER/REQUEST is never answered (fixed in /repo d5fadd1) *)
  (forall r pr s isreq rq, unresolved Head r pr s isreq rq = None) /\
  (* pool override: only when it names a pool of another VRF *)
  (forall f prof ov vrf s r,
     (forall k p, ov = Some k -> In p (fam_pools f r) -> p_key p = k -> p_vrf p = vrf) ->
     alloc_from_profile Head f prof ov vrf s r = alloc_from_profile Repaired f prof ov vrf s r) /\
  (* restore keeping a conflicting address: only when a re-reservation is refused *)
  (forall f x vrf sid r, reserve_cont Head f x vrf sid r = reserve_cont Repaired f x vrf sid r ->
     (forall r' ok cs, reserve_cont Repaired f x vrf sid r = (r', ok) :: cs -> ok = true) ->
     reserve_first Head f (Some x) vrf sid r = reserve_first Repaired f (Some x) vrf sid r).
Proof.
  split; [exact trigger_release|]. split; [exact trigger_reserve|]. split; [exact trigger_unresolved|].
  split; [exact trigger_override|exact trigger_restore].
Qed.
Print Assumptions C02_head_triggers.

(* ------------------------------------------------------------------ HEAD, input-level condition *)
(* [safe_step st o] (HeadSafe.v) is a boolean over the pool signatures, the AAA answer the op carries, the addresses
   the session already has and - for releases - the leases of the slots to be released: every supplied address lies
   in a pool of the subscriber's VRF and in no pool of another VRF, overrides name no foreign-VRF pool, a release
   touches only slots that are free or leased to the releasing session, the out-of-pool ledger is empty.  Under it
   the code at HEAD takes exactly the steps of the Repaired model (the primitive-level trigger lemmas lifted to
   [step], every op except Restart).  The driver evaluates the hypothesis of the reach_benign theorems literally
   (mode "benign": step Head st o = step Repaired st o by structural equality) and reports the measured share of
   generated histories in the evidence (distribution: head_benign_share). *)
Theorem C02_head_step_safe :
  forall st o, reg_ok (st_reg st) -> safe_step st o = true -> step Head st o = step Repaired st o.
Proof. exact head_step_safe. Qed.
Print Assumptions C02_head_step_safe.

Theorem C02_head_safe_is_benign :
  forall ps ss st,
  NoDup (map pool_id ps) -> Forall pool_wf ps -> kinds_ok (mkReg ps []) -> resettable (mkReg ps []) ->
  NoDup (map s_id ss) -> Forall fresh_sess ss ->
  reach_safe (init_state ps ss) st -> reach_benign (init_state ps ss) st.
Proof. exact reach_safe_benign. Qed.
Print Assumptions C02_head_safe_is_benign.

(* uniqueness for the code at HEAD on every history whose steps meet the input-level condition *)
Theorem C02_head_unique_safe :
  forall ps ss st,
  NoDup (map pool_id ps) -> Forall pool_wf ps -> kinds_ok (mkReg ps []) -> resettable (mkReg ps []) ->
  pools_disjoint (mkReg ps []) ->
  NoDup (map s_id ss) -> Forall fresh_sess ss ->
  reach_safe (init_state ps ss) st ->
  forall s1 s2 f x, In s1 (st_sess st) -> In s2 (st_sess st) -> s_vrf s1 = s_vrf s2 ->
    holds s1 f = Some x -> holds s2 f = Some x -> s1 = s2.
Proof. exact head_unique_safe. Qed.
Print Assumptions C02_head_unique_safe.

(* non-vacuity of reach_safe / reach_benign: AAA static inside the pool, dynamic allocation, IPCP, DHCPRELEASE,
   PPPoE terminate and a re-connect that is given the released address - every step meets the condition *)
Definition w6_ps := [new_pool F4 1 0 0 (GRange a1 a2 [])].
Definition w6_ss := [new_sess 1 true (Some 0) None 1; new_sess 2 false (Some 0) None 2; new_sess 3 true (Some 0) None 3].
Definition w6_ops := [PA 1 0 (Some a2) None None None None None; ID true true None 2 0 None None; PI 1 (Some a2);
                      IR 2; PT 1; PA 3 0 None None None None None None].
Example C02_head_safe_nonvacuous :
  NoDup (map pool_id w6_ps) /\ Forall pool_wf w6_ps /\ kinds_ok (mkReg w6_ps []) /\ resettable (mkReg w6_ps []) /\
  pools_disjoint (mkReg w6_ps []) /\
  NoDup (map s_id w6_ss) /\ Forall fresh_sess w6_ss /\
  (let st := run_first Head (init_state w6_ps w6_ss) w6_ops in
   reach_safe (init_state w6_ps w6_ss) st /\ reach_benign (init_state w6_ps w6_ss) st /\
   holds_of st 1 F4 = None /\ holds_of st 2 F4 = None /\ holds_of st 3 F4 = Some (a1, 0)).
Proof.
  assert (H1 : NoDup (map pool_id w6_ps)) by (simpl; constructor; [simpl; tauto|constructor]).
  assert (H2 : Forall pool_wf w6_ps) by (constructor; [apply new_pool_wf_range|constructor]).
  assert (H3 : kinds_ok (mkReg w6_ps [])) by (intros p [<-|[]] _ sl; reflexivity).
  assert (H4 : resettable (mkReg w6_ps [])) by (apply range_resettable; intros p [<-|[]]; eexists _, _, _; reflexivity).
  assert (H6 : NoDup (map s_id w6_ss)).
  { simpl. repeat constructor; simpl; intuition discriminate. }
  assert (H7 : Forall fresh_sess w6_ss) by (repeat constructor; apply fresh_new).
  assert (HS : reach_safe (init_state w6_ps w6_ss) (run_first Head (init_state w6_ps w6_ss) w6_ops)).
  { apply all_safe_reach; [constructor|vm_compute; reflexivity]. }
  split; [exact H1|]. split; [exact H2|]. split; [exact H3|]. split; [exact H4|].
  split; [intros p q x [<-|[]] [<-|[]] _ _ _ _; reflexivity|].
  split; [exact H6|]. split; [exact H7|].
  split; [exact HS|]. split; [apply reach_safe_benign; assumption|].
  vm_compute. repeat split; reflexivity.
Qed.
Print Assumptions C02_head_safe_nonvacuous.

(* ------------------------------------------------------------------ delegated prefixes do not OVERLAP *)
(* Two sessions of one VRF whose delegated prefixes lie inside PD pools of that VRF (well-formed geometry; the
   networks of different PD pools of a VRF do not overlap) never hold overlapping prefixes - containment, not
   just equality. *)
Theorem C02_pd_no_overlap :
  forall ps ss st,
  NoDup (map pool_id ps) -> Forall pool_wf ps -> kinds_ok (mkReg ps []) -> resettable (mkReg ps []) ->
  pools_disjoint (mkReg ps []) -> pd_cfg ps -> pd_apart ps ->
  NoDup (map s_id ss) -> Forall fresh_sess ss ->
  reach Repaired (init_state ps ss) st ->
  forall s1 s2 x y, In s1 (st_sess st) -> In s2 (st_sess st) -> s_vrf s1 = s_vrf s2 ->
    holds s1 FD = Some x -> holds s2 FD = Some y ->
    (exists p, In p ps /\ p_fam p = FD /\ p_vrf p = s_vrf s1 /\ contains p x = true) ->
    (exists q, In q ps /\ p_fam q = FD /\ p_vrf q = s_vrf s2 /\ contains q y = true) ->
    fst x < two128 -> fst y < two128 ->
    overlap x y -> s1 = s2.
Proof. exact pd_no_overlap_all. Qed.
Print Assumptions C02_pd_no_overlap.

(* non-vacuity of the PD instance: a /62 -> /64 pool meets every hypothesis; two sessions get different prefixes *)
Definition pdbase : N := 42540766411282597579270467821299040256.    (* 2001:db8:100:: *)
Definition pdg : geom := GPfx pdbase 64 4 64.
Definition w5_ps := [new_pool FD 9 0 0 pdg].
Definition w5_ss := [new_sess 1 false None (Some 0) 1; new_sess 2 false None (Some 0) 2].
Definition w5_ops := [IS true 1 0 None None None None; IS true 2 0 None None None None].
Lemma pdg_geom : pd_geom_wf pdg.
Proof.
  unfold pdg, pd_geom_wf. split; [reflexivity|split; [vm_compute; discriminate|split; [vm_compute; reflexivity|]]].
  split; vm_compute; discriminate.
Qed.
Print Assumptions pdg_geom.
Lemma pdg_wf : pool_wf (new_pool FD 9 0 0 pdg).
Proof. apply new_pool_wf_pd. exact pdg_geom. Qed.
Print Assumptions pdg_wf.
Example C02_pd_nonvacuous :
  NoDup (map pool_id w5_ps) /\ Forall pool_wf w5_ps /\ kinds_ok (mkReg w5_ps []) /\ resettable (mkReg w5_ps []) /\
  pools_disjoint (mkReg w5_ps []) /\ pd_cfg w5_ps /\ pd_apart w5_ps /\
  NoDup (map s_id w5_ss) /\ Forall fresh_sess w5_ss /\
  (let st := run_first Repaired (init_state w5_ps w5_ss) w5_ops in
   reach Repaired (init_state w5_ps w5_ss) st /\
   holds_of st 1 FD = Some (pdbase, 64) /\ holds_of st 2 FD = Some (pdbase + 2 ^ 64, 64) /\
   ~ overlap (pdbase, 64) (pdbase + 2 ^ 64, 64) /\ overlap (pdbase, 64) (pdbase + 5, 64)).
Proof.
  split; [simpl; constructor; [simpl; tauto|constructor]|].
  split; [constructor; [exact pdg_wf|constructor]|].
  split; [intros p [<-|[]] Hf; exfalso; apply Hf; reflexivity|].
  split; [intros p [<-|[]]; exact pdg_wf|].
  split; [intros p q x [<-|[]] [<-|[]] _ _ _ _; reflexivity|].
  split; [intros p [<-|[]] _; exact pdg_geom|].
  split; [intros p q x y [<-|[]] [<-|[]] _ _ _ Hn; exfalso; apply Hn; reflexivity|].
  split; [simpl; constructor; [simpl; intros [H|[]]; discriminate H|constructor; [simpl; tauto|constructor]]|].
  split; [constructor; [apply fresh_new|constructor; [apply fresh_new|constructor]]|].
  split; [apply run_first_reach; constructor|].
  split; [vm_compute; reflexivity|]. split; [vm_compute; reflexivity|].
  split; [unfold overlap; vm_compute; discriminate|unfold overlap; vm_compute; reflexivity].
Qed.
Print Assumptions C02_pd_nonvacuous.

(* Finding "pd-static-prefix-overlaps-pool" (flag d10, fixed in /repo 23daa44; the refutation runs on Defective, the
   tree before the fix): an AAA Delegated-IPv6-Prefix whose length differed from the
   pool's delegated length was "in no pool" for ReservePD (prefixToIndex compares the lengths first), so a /56 that
   covers a /62 -> /64 pool is accepted and the pool goes on delegating /64s inside it.  C02_pd_no_overlap excludes
   this by hypothesis (both prefixes are delegations of a pool); the Repaired model refuses such a prefix. *)
Definition w7_ops := [IS true 1 0 None (Some (pdbase, 56)) None None; IS true 2 0 None None None None].
Theorem C02_pd_static_overlap_refuted :
  let st := run_first Defective (init_state w5_ps w5_ss) w7_ops in
  holds_of st 1 FD = Some (pdbase, 56) /\ holds_of st 2 FD = Some (pdbase, 64) /\ overlap (pdbase, 56) (pdbase, 64).
Proof. vm_compute. repeat split; reflexivity. Qed.
Print Assumptions C02_pd_static_overlap_refuted.
Theorem C02_pd_static_overlap_repaired :
  let st := run_first Repaired (init_state w5_ps w5_ss) w7_ops in
  holds_of st 1 FD = None /\ holds_of st 2 FD = Some (pdbase, 64).
Proof. vm_compute. split; reflexivity. Qed.
Print Assumptions C02_pd_static_overlap_repaired.

(* PPPoE, DHCPv6 over PPP (internal/pppoe/dhcpv6.go; ops PS / PR / PX are part of [step], so C02_told_is_recorded and
   C02_unique cover them: every reachable state, every history).  Told => recorded for the REPLY: the IA_NA address
   and delegated prefix of a REPLY are what bindDHCPv6 records, and the session owns them in its VRF.  A request
   that ResolveV6 cannot resolve is NOT answered in this model (finding pppoe-dhcp6-unresolved-answered-by-provider:
   /repo still hands it to the provider). *)
Theorem C02_pppoe_v6_reply_is_recorded :
  forall ps ss, NoDup (map pool_id ps) -> Forall pool_wf ps -> kinds_ok (mkReg ps []) -> resettable (mkReg ps []) ->
  NoDup (map s_id ss) -> Forall fresh_sess ss ->
  forall st sid st' a6 ad r6 rd,
  reach Repaired (init_state ps ss) st ->
  In (st', OPs true (Some (a6, ad)) r6 rd) (step Repaired st (PS true sid)) ->
  r6 = a6 /\ rd = ad /\
  exists s', find_sess sid st' = Some s' /\ s_a6 s' = a6 /\ s_ad s' = ad /\
             (forall a, a6 = Some a -> owns (st_reg st') F6 (s_vrf s') (a, 0) sid) /\
             (forall x, ad = Some x -> owns (st_reg st') FD (s_vrf s') x sid).
Proof. exact pppoe_v6_reply_is_recorded. Qed.
Print Assumptions C02_pppoe_v6_reply_is_recorded.

(* non-vacuity, and the scenario of the finding in the Repaired model: 1 binds (v6a, prefix 0), releases, 3 connects
   and is given v6a; 1 solicits again - its context still carries v6a, the reservation conflicts, nothing is answered
   and nothing recorded: session 3 alone holds v6a *)
Definition w10_ps := [new_pool F6 3 0 0 (GRange v6a (v6a + 1) []); new_pool FD 9 0 0 pdg].
Definition w10_ss := [new_sess 1 true None (Some 0) 1; new_sess 2 true None (Some 0) 2; new_sess 3 true None (Some 0) 3].
Definition w10_ops := [PA 1 0 None None None None None None; PS true 1; PA 2 0 None None None None None None; PR 1;
                       PA 3 0 None None None None None None; PS false 1; PS true 1].
Example C02_pppoe_v6_nonvacuous :
  let st2 := run_first Repaired (init_state w10_ps w10_ss) (firstn 2 w10_ops) in
  let st := run_first Repaired (init_state w10_ps w10_ss) w10_ops in
  reach Repaired (init_state w10_ps w10_ss) st /\
  holds_of st2 1 F6 = Some (v6a, 0) /\ holds_of st2 1 FD = Some (pdbase, 64) /\
  holds_of st 1 F6 = None /\ holds_of st 1 FD = None /\ holds_of st 3 F6 = Some (v6a, 0).
Proof. split; [apply run_first_reach; constructor|vm_compute; repeat split; reflexivity]. Qed.
Print Assumptions C02_pppoe_v6_nonvacuous.
