(* C02/Proofs.v — ownership invariant of the Repaired model and its consequences. *)
From OV Require Import Common.Base C02.Model.
From Coq Require Import ZifyBool ZifyN.
Open Scope N_scope.

(* ------------------------------------------------------------------ association lists *)
Lemma assoc_setassoc_eq k v l : assoc k (setassoc k v l) = Some v.
Proof. unfold setassoc; simpl. rewrite N.eqb_refl. reflexivity. Qed.
Lemma assoc_unassoc_eq k l : assoc k (unassoc k l) = None.
Proof.
  induction l as [|[a b] r IH]; simpl; auto.
  destruct (a =? k) eqn:E; auto. simpl. rewrite E. exact IH.
Qed.
Lemma assoc_unassoc_neq k k' l : k <> k' -> assoc k' (unassoc k l) = assoc k' l.
Proof.
  intros Hn. induction l as [|[a b] r IH]; simpl; auto.
  destruct (a =? k) eqn:E.
  - apply N.eqb_eq in E. subst a. destruct (k =? k') eqn:E2; [apply N.eqb_eq in E2; contradiction|exact IH].
  - simpl. destruct (a =? k'); auto.
Qed.
Lemma assoc_setassoc_neq k k' v l : k <> k' -> assoc k' (setassoc k v l) = assoc k' l.
Proof.
  intros Hn. unfold setassoc; simpl.
  destruct (k =? k') eqn:E; [apply N.eqb_eq in E; contradiction|]. apply assoc_unassoc_neq; exact Hn.
Qed.

Lemma remove1_in x k l : In x (remove1 k l) -> In x l.
Proof.
  induction l as [|a r IH]; simpl; auto.
  destruct (a =? k); simpl; intuition.
Qed.
Lemma remove1_nodup k l : NoDup l -> NoDup (remove1 k l) /\ ~ In k (remove1 k l).
Proof.
  induction 1 as [|a r Hn Hd IH]; simpl.
  - split; [constructor|tauto].
  - destruct (a =? k) eqn:E.
    + apply N.eqb_eq in E; subst a. split; assumption.
    + destruct IH as [IH1 IH2]. split.
      * constructor; [|exact IH1]. intros Hin; apply Hn; eapply remove1_in; exact Hin.
      * simpl. intros [H|H]; [subst a; rewrite N.eqb_refl in E; discriminate|tauto].
Qed.

Lemma nodup_snoc (l : list N) a : NoDup l -> ~ In a l -> NoDup (l ++ [a]).
Proof.
  induction 1 as [|b r Hb Hr IH]; simpl; intros Hn.
  - constructor; [tauto|constructor].
  - constructor.
    + intros Hin. apply in_app_or in Hin. destruct Hin as [Hin|[Hin|[]]]; [contradiction|].
      subst. apply Hn. left; reflexivity.
    + apply IH. intros Hin; apply Hn; right; exact Hin.
Qed.

(* ------------------------------------------------------------------ pools *)
Definition geom_ok (g : geom) : Prop :=
  forall x sl, slot_of g x = Some sl -> slot_of g (item_of g sl) = Some sl.
Definition valid_slot (p : pool) (sl : N) : Prop :=
  slot_of (p_geom p) (item_of (p_geom p) sl) = Some sl.

Lemma geom_ok_range lo hi ex : geom_ok (GRange lo hi ex).
Proof.
  intros [a l] sl; simpl.
  destruct ((lo <=? a) && (a <=? hi)) eqn:E; [|discriminate].
  intros H; inversion H; subst sl. rewrite E. reflexivity.
Qed.

Definition pool_wf (p : pool) : Prop :=
  geom_ok (p_geom p) /\ NoDup (p_free p) /\
  (forall sl, In sl (p_free p) -> lease_of p sl = None) /\
  (forall sl, In sl (p_free p) -> valid_slot p sl) /\
  (forall sl s, lease_of p sl = Some s -> valid_slot p sl).

Lemma take_lease p sl s sl' :
  lease_of (pool_take p sl s) sl' = if sl =? sl' then Some s else lease_of p sl'.
Proof.
  unfold lease_of, pool_take, with_lf; cbn [p_leases].
  destruct (sl =? sl') eqn:E.
  - apply N.eqb_eq in E; subst. apply assoc_setassoc_eq.
  - apply assoc_setassoc_neq. intros ->. rewrite N.eqb_refl in E; discriminate.
Qed.

Lemma take_wf p sl s :
  pool_wf p -> lease_of p sl = None -> valid_slot p sl -> pool_wf (pool_take p sl s).
Proof.
  intros (Hg & Hnd & Hfl & Hfv & Hlv) Hnone Hval.
  destruct (remove1_nodup sl _ Hnd) as [Hnd' Hnin].
  unfold pool_wf, valid_slot in *. simpl p_geom. simpl p_free.
  repeat split; auto.
  - intros sl' Hin. rewrite take_lease.
    destruct (sl =? sl') eqn:E; [apply N.eqb_eq in E; subst; contradiction|].
    apply Hfl. eapply remove1_in; exact Hin.
  - intros sl' Hin. apply Hfv. eapply remove1_in; exact Hin.
  - intros sl' s'. rewrite take_lease. destruct (sl =? sl') eqn:E.
    + apply N.eqb_eq in E; subst. intros _. exact Hval.
    + apply Hlv.
Qed.

Lemma release_lease_other p sl s sl' t :
  lease_of p sl' = Some t -> t <> s -> lease_of (pool_release Repaired p sl s) sl' = Some t.
Proof.
  intros Hl Hn. unfold pool_release.
  destruct (lease_of p sl) as [o|] eqn:E; [|exact Hl].
  unfold owner_ok, Repaired; cbn [d2]. destruct (o =? s) eqn:Eo; [|exact Hl].
  apply N.eqb_eq in Eo; subst o.
  unfold lease_of; simpl.
  assert (sl <> sl') by (intros ->; rewrite Hl in E; inversion E; contradiction).
  rewrite assoc_unassoc_neq; auto.
Qed.

Lemma release_lease_sub v p sl s sl' t :
  lease_of (pool_release v p sl s) sl' = Some t -> lease_of p sl' = Some t.
Proof.
  unfold pool_release. destruct (lease_of p sl) as [o|] eqn:E; auto.
  destruct (owner_ok v o s); auto.
  unfold lease_of; simpl. destruct (N.eq_dec sl sl') as [->|Hn].
  - rewrite assoc_unassoc_eq. discriminate.
  - rewrite assoc_unassoc_neq; auto.
Qed.

Lemma release_wf v p sl s : pool_wf p -> pool_wf (pool_release v p sl s).
Proof.
  intros W. unfold pool_release.
  destruct (lease_of p sl) as [o|] eqn:E; auto.
  destruct (owner_ok v o s); auto.
  destruct W as (Hg & Hnd & Hfl & Hfv & Hlv).
  assert (Hnf : ~ In sl (p_free p)) by (intros Hin; rewrite (Hfl _ Hin) in E; discriminate).
  assert (Hls : forall sl', sl' = sl \/ lease_of p sl' = None ->
                assoc sl' (unassoc sl (p_leases p)) = None).
  { intros sl' [->|H]; [apply assoc_unassoc_eq|].
    destruct (N.eq_dec sl sl') as [->|Hn]; [apply assoc_unassoc_eq|rewrite assoc_unassoc_neq; auto]. }
  unfold pool_wf, valid_slot in *. simpl p_geom; simpl p_free.
  destruct (assignable (p_geom p) sl).
  - repeat split; auto.
    + apply nodup_snoc; auto.
    + intros sl' Hin. unfold lease_of; simpl. apply Hls. apply in_app_or in Hin.
      destruct Hin as [Hin|[<-|[]]]; auto.
    + intros sl' Hin. apply in_app_or in Hin. destruct Hin as [Hin|[<-|[]]]; auto. eapply Hlv; exact E.
    + intros sl' s'. unfold lease_of; simpl. destruct (N.eq_dec sl sl') as [->|Hn].
      * rewrite assoc_unassoc_eq. discriminate.
      * rewrite assoc_unassoc_neq; auto. apply Hlv.
  - repeat split; auto.
    + intros sl' Hin. unfold lease_of; simpl. apply Hls. right. apply Hfl; exact Hin.
    + intros sl' s'. unfold lease_of; simpl. destruct (N.eq_dec sl sl') as [->|Hn].
      * rewrite assoc_unassoc_eq. discriminate.
      * rewrite assoc_unassoc_neq; auto. apply Hlv.
Qed.

(* ------------------------------------------------------------------ registry *)
Definition pool_id (p : pool) : fam * N := (p_fam p, p_key p).
Definition psig (p : pool) : fam * N * N * geom := (p_fam p, p_key p, p_vrf p, p_geom p).

Lemma fam_eqb_spec a b : fam_eqb a b = true <-> a = b.
Proof. destruct a, b; simpl; split; intros H; try discriminate; auto. Qed.
Lemma same_pool_spec p q : same_pool p q = true <-> pool_id p = pool_id q.
Proof.
  unfold same_pool, pool_id. rewrite andb_true_iff, fam_eqb_spec, N.eqb_eq.
  split; [intros [-> ->]; reflexivity | intros H; inversion H; auto].
Qed.
Lemma psig_id p q : psig p = psig q -> pool_id p = pool_id q.
Proof. unfold psig, pool_id. intros H; inversion H; reflexivity. Qed.

Lemma nodup_id_eq (l : list pool) p q :
  NoDup (map pool_id l) -> In p l -> In q l -> pool_id p = pool_id q -> p = q.
Proof.
  induction l as [|a r IH]; simpl; [tauto|].
  intros Hn Hp Hq He. inversion Hn as [|? ? Hna Hnr]; subst.
  destruct Hp as [->|Hp], Hq as [->|Hq]; auto.
  - exfalso. apply Hna. rewrite He. apply in_map; exact Hq.
  - exfalso. apply Hna. rewrite <- He. apply in_map; exact Hp.
Qed.

Definition reg_ok (r : reg) : Prop := NoDup (map pool_id (pools r)) /\ Forall pool_wf (pools r).

Definition owns (r : reg) (f : fam) (vrf : N) (x : item) (s : N) : Prop :=
  (exists p sl, In p (pools r) /\ p_fam p = f /\ p_vrf p = vrf /\ slot_of (p_geom p) x = Some sl /\
                lease_of p sl = Some s)
  \/ ((forall p, In p (pools r) -> p_fam p = f -> p_vrf p = vrf -> slot_of (p_geom p) x = None) /\
      sassoc (f, vrf, x) (statics r) = Some s).

Definition same_shape (r r' : reg) : Prop := map psig (pools r') = map psig (pools r).
Definition pres (P : N -> Prop) (r r' : reg) : Prop :=
  forall t f v x, P t -> owns r f v x t -> owns r' f v x t.
Definition step_ok (P : N -> Prop) (r r' : reg) : Prop :=
  reg_ok r -> reg_ok r' /\ same_shape r r' /\ pres P r r'.

Lemma step_ok_refl P r : step_ok P r r.
Proof. intros H; repeat split; auto; try apply H. intros t f v x _ Ho; exact Ho. Qed.
Lemma step_ok_trans P r1 r2 r3 : step_ok P r1 r2 -> step_ok P r2 r3 -> step_ok P r1 r3.
Proof.
  intros H12 H23 Hok. destruct (H12 Hok) as (Hok2 & Hs2 & Hp2). destruct (H23 Hok2) as (Hok3 & Hs3 & Hp3).
  repeat split; try apply Hok3.
  - unfold same_shape in *. congruence.
  - intros t f v x Pt Ho. apply Hp3; auto.
Qed.
Lemma step_ok_weaken (P Q : N -> Prop) r r' : (forall t, Q t -> P t) -> step_ok P r r' -> step_ok Q r r'.
Proof.
  intros HPQ H Hok. destruct (H Hok) as (A & B & C). repeat split; try apply A; auto.
  intros t f v x Qt. apply C; auto.
Qed.

(* a pool-wise transformation that keeps signatures, well-formedness and the leases of sessions in P *)
Lemma map_pools_ok (P : N -> Prop) r (G : pool -> pool) :
  (reg_ok r -> forall q, In q (pools r) ->
     psig (G q) = psig q /\ pool_wf (G q) /\
     (forall sl t, P t -> lease_of q sl = Some t -> lease_of (G q) sl = Some t)) ->
  step_ok P r (mkReg (map G (pools r)) (statics r)).
Proof.
  intros HG Hok. specialize (HG Hok). destruct Hok as [Hnd Hwf].
  assert (Hsig : map psig (map G (pools r)) = map psig (pools r)).
  { rewrite map_map. apply map_ext_in. intros q Hq. apply HG; exact Hq. }
  split; [split|split].
  - simpl. assert (Hid : map pool_id (map G (pools r)) = map pool_id (pools r)).
    { rewrite map_map. apply map_ext_in. intros q Hq. apply psig_id. apply HG; exact Hq. }
    rewrite Hid. exact Hnd.
  - simpl. apply Forall_forall. intros q' Hq'. apply in_map_iff in Hq'. destruct Hq' as (q & <- & Hq).
    apply HG; exact Hq.
  - exact Hsig.
  - intros t f v x Pt [ (p & sl & Hin & Hf & Hv & Hs & Hl) | [Hnone Hst] ].
    + left. exists (G p), sl. destruct (HG p Hin) as (Hsg & _ & Hls).
      unfold psig in Hsg. inversion Hsg as [[Hf' Hk' Hv' Hg']].
      repeat split; simpl.
      * apply in_map; exact Hin.
      * congruence.
      * congruence.
      * rewrite Hg'. exact Hs.
      * apply Hls; auto.
    + right. split; [|exact Hst]. simpl. intros p' Hin' Hf' Hv'.
      apply in_map_iff in Hin'. destruct Hin' as (q & <- & Hq).
      destruct (HG q Hq) as (Hsg & _ & _). unfold psig in Hsg. inversion Hsg as [[Hf2 Hk2 Hv2 Hg2]].
      rewrite Hg2. apply Hnone; auto; congruence.
Qed.

Lemma upd_pool_ok (P : N -> Prop) r p p' :
  In p (pools r) -> psig p' = psig p -> (pool_wf p -> pool_wf p') ->
  (forall sl t, P t -> lease_of p sl = Some t -> lease_of p' sl = Some t) ->
  step_ok P r (upd_pool r p').
Proof.
  intros Hin Hsig Hwf Hls. unfold upd_pool. apply map_pools_ok.
  intros [Hnd HF] q Hq. destruct (same_pool q p') eqn:E.
  - apply same_pool_spec in E. assert (q = p).
    { eapply nodup_id_eq; eauto. rewrite E. apply psig_id; exact Hsig. }
    subst q. split; [exact Hsig|split].
    + apply Hwf. eapply Forall_forall in HF; eauto.
    + exact Hls.
  - split; [reflexivity|split].
    + eapply Forall_forall in HF; eauto.
    + intros sl t _ Hl; exact Hl.
Qed.

Lemma upd_pool_in r p p' : In p (pools r) -> psig p' = psig p -> In p' (pools (upd_pool r p')).
Proof.
  intros Hin Hsig. unfold upd_pool; simpl. apply in_map_iff. exists p. split; auto.
  assert (same_pool p p' = true) by (apply same_pool_spec; symmetry; apply psig_id; exact Hsig).
  rewrite H. reflexivity.
Qed.

Lemma fam_pools_in f r p : In p (fam_pools f r) -> In p (pools r) /\ p_fam p = f.
Proof.
  unfold fam_pools. intros H. apply filter_In in H. destruct H as [H1 H2].
  apply fam_eqb_spec in H2. auto.
Qed.

Definition anyone (t : N) : Prop := True.
Definition other_than (s : N) (t : N) : Prop := t <> s.

(* ---- allocation: nobody loses anything, the answer is owned by the session *)
Lemma alloc_in_ok r p s f vrf r' res :
  reg_ok r -> In p (pools r) -> p_fam p = f -> p_vrf p = vrf -> In (r', res) (alloc_in r p s) ->
  step_ok anyone r r' /\ exists x k, res = Some (x, k) /\ owns r' f vrf x s.
Proof.
  intros Hok Hin Hf Hv Hc. unfold alloc_in in Hc. apply in_map_iff in Hc.
  destruct Hc as (sl & Heq & Hsl). inversion Heq; subst r' res; clear Heq.
  assert (Hwf : pool_wf p) by (destruct Hok as [_ HF]; eapply Forall_forall in HF; eauto).
  destruct Hwf as (Hg & Hnd & Hfl & Hfv & Hlv).
  assert (Hsig : psig (pool_take p sl s) = psig p) by reflexivity.
  split.
  - apply upd_pool_ok with (p := p); auto.
    + intros W. apply take_wf; auto.
    + intros sl' t _ Hl. rewrite take_lease. destruct (sl =? sl') eqn:E; auto.
      apply N.eqb_eq in E; subst sl'. rewrite (Hfl _ Hsl) in Hl. discriminate.
  - eexists _, _. split; [reflexivity|]. left. exists (pool_take p sl s), sl.
    repeat split.
    + apply upd_pool_in with (p := p); auto.
    + exact Hf.
    + exact Hv.
    + apply Hfv; exact Hsl.
    + rewrite take_lease, N.eqb_refl. reflexivity.
Qed.

Lemma find_in {A} (g : A -> bool) l a : find g l = Some a -> In a l /\ g a = true.
Proof. intros H. apply find_some in H. exact H. Qed.

Lemma alloc_walk_ok f prof vrf s r r' res :
  reg_ok r -> In (r', res) (alloc_walk f prof vrf s r) ->
  step_ok anyone r r' /\ (res = None \/ exists x k, res = Some (x, k) /\ owns r' f vrf x s).
Proof.
  intros Hok. unfold alloc_walk.
  destruct (find _ (fam_pools f r)) as [p|] eqn:E.
  - apply find_in in E. destruct E as [E Ec]. apply fam_pools_in in E. destruct E as [Hin Hf].
    assert (Hv : p_vrf p = vrf).
    { apply andb_true_iff in Ec. destruct Ec as [Ec _]. apply andb_true_iff in Ec. destruct Ec as [_ Ec].
      apply N.eqb_eq; exact Ec. }
    intros Hc. destruct (alloc_in_ok _ _ _ _ _ _ _ Hok Hin Hf Hv Hc) as [A B]. split; auto.
  - intros [H|[]]. inversion H; subst. split; [apply step_ok_refl|left; reflexivity].
Qed.

Lemma alloc_from_profile_ok f prof ov vrf s r r' res :
  reg_ok r -> In (r', res) (alloc_from_profile Repaired f prof ov vrf s r) ->
  step_ok anyone r r' /\ (res = None \/ exists x k, res = Some (x, k) /\ owns r' f vrf x s).
Proof.
  intros Hok. unfold alloc_from_profile. change (d9 Repaired) with false. cbn [orb].
  destruct ov as [k|]; [|apply alloc_walk_ok; exact Hok].
  destruct (find _ (fam_pools f r)) as [p|] eqn:E; [|apply alloc_walk_ok; exact Hok].
  destruct (isnil (p_free p)); [apply alloc_walk_ok; exact Hok|].
  apply find_in in E. destruct E as [E Ec]. apply fam_pools_in in E. destruct E as [Hin Hf].
  assert (Hv : p_vrf p = vrf).
  { apply andb_true_iff in Ec. destruct Ec as [_ Ec]. apply N.eqb_eq; exact Ec. }
  intros Hc. destruct (alloc_in_ok _ _ _ _ _ _ _ Hok Hin Hf Hv Hc) as [A B]. split; auto.
Qed.

(* ---- reservation: nobody loses anything; on success the address is owned by the session *)
Lemma reserve_in_ok r p x s f vrf r' ok :
  reg_ok r -> In p (pools r) -> p_fam p = f -> p_vrf p = vrf -> contains p x = true ->
  reserve_in r p x s = (r', ok) ->
  step_ok anyone r r' /\ (ok = true -> owns r' f vrf x s).
Proof.
  intros Hok Hin Hf Hv Hc. unfold reserve_in, contains in *.
  destruct (slot_of (p_geom p) x) as [sl|] eqn:Es; [|discriminate].
  assert (Hwf : pool_wf p) by (destruct Hok as [_ HF]; eapply Forall_forall in HF; eauto).
  destruct Hwf as (Hg & Hnd & Hfl & Hfv & Hlv).
  unfold pool_reserve. destruct (lease_of p sl) as [o|] eqn:El.
  - destruct (o =? s) eqn:Eo; intros H; inversion H; subst r' ok; clear H.
    + apply N.eqb_eq in Eo; subst o. split.
      * apply upd_pool_ok with (p := p); auto.
      * intros _. left. exists p, sl. repeat split; auto. apply upd_pool_in with (p := p); auto.
    + split; [apply step_ok_refl|discriminate].
  - intros H; inversion H; subst r' ok; clear H. split.
    + apply upd_pool_ok with (p := p); auto.
      * intros W. apply take_wf; auto. unfold valid_slot. eapply Hg; exact Es.
      * intros sl' t _ Hl. rewrite take_lease. destruct (sl =? sl') eqn:E; auto.
        apply N.eqb_eq in E; subst sl'. rewrite El in Hl; discriminate.
    + intros _. left. exists (pool_take p sl s), sl. repeat split; auto.
      * apply upd_pool_in with (p := p); auto.
      * rewrite take_lease, N.eqb_refl. reflexivity.
Qed.

Lemma item_eqb_spec x y : item_eqb x y = true <-> x = y.
Proof.
  destruct x, y; unfold item_eqb; simpl. rewrite andb_true_iff, !N.eqb_eq.
  split; [intros [-> ->]; reflexivity|intros H; inversion H; auto].
Qed.
Lemma skey_eqb_spec a b : skey_eqb a b = true <-> a = b.
Proof.
  destruct a as [[f1 v1] x1], b as [[f2 v2] x2]; simpl.
  rewrite !andb_true_iff, fam_eqb_spec, N.eqb_eq, item_eqb_spec.
  split; [intros [[-> ->] ->]; reflexivity|intros H; inversion H; auto].
Qed.
Lemma sassoc_cons k a b l : sassoc k ((a, b) :: l) = if skey_eqb a k then Some b else sassoc k l.
Proof. reflexivity. Qed.
Lemma sassoc_sunassoc_neq k k' l : k <> k' -> sassoc k' (sunassoc k l) = sassoc k' l.
Proof.
  intros Hn. induction l as [|[a b] r IH]; simpl; auto.
  destruct (skey_eqb a k) eqn:E.
  - apply skey_eqb_spec in E; subst a. destruct (skey_eqb k k') eqn:E2; [apply skey_eqb_spec in E2; contradiction|exact IH].
  - simpl. destruct (skey_eqb a k'); auto.
Qed.

Lemma filter_nil_none {A} (g : A -> bool) l : filter g l = [] -> forall a, In a l -> g a = false.
Proof.
  intros H a Hin. destruct (g a) eqn:E; auto.
  assert (In a (filter g l)) by (apply filter_In; auto). rewrite H in H0. destruct H0.
Qed.

Lemma reserve_cont_ok f x vrf s r r' ok :
  reg_ok r -> In (r', ok) (reserve_cont Repaired f x vrf s r) ->
  step_ok anyone r r' /\ (ok = true -> owns r' f vrf x s).
Proof.
  intros Hok. unfold reserve_cont. change (d5 Repaired) with false. change (d9 Repaired) with false.
  cbn [orb]. cbv iota.
  destruct (filter (fun p => contains p x && (p_vrf p =? vrf)) (fam_pools f r)) as [|c cs] eqn:Ef.
  - assert (Hnone : forall p, In p (pools r) -> p_fam p = f -> p_vrf p = vrf -> slot_of (p_geom p) x = None).
    { intros p Hin Hf Hv. pose proof (filter_nil_none _ _ Ef p) as H.
      assert (In p (fam_pools f r)) by (unfold fam_pools; apply filter_In; split; auto; apply fam_eqb_spec; auto).
      specialize (H H0). cbv beta in H. rewrite Hv, N.eqb_refl, andb_true_r in H. unfold contains in H.
      destruct (slot_of (p_geom p) x); [discriminate|reflexivity]. }
    destruct (pd_conflict Repaired f x vrf s r);
      [intros [H|[]]; inversion H; subst r' ok; split; [apply step_ok_refl|intros; discriminate]|].
    destruct (sassoc (f, vrf, x) (statics r)) as [o|] eqn:Es.
    + intros [H|[]]. inversion H; subst r' ok. split; [apply step_ok_refl|].
      intros Ho. apply N.eqb_eq in Ho; subst o. right. split; auto.
    + intros [H|[]]. inversion H; subst r' ok; clear H. split.
      * intros _. split; [exact Hok|split; [reflexivity|]].
        intros t f' v' x' _ [Hl|[Hn Hs]]; [left; exact Hl|right]. split; [exact Hn|].
        cbn [statics]. rewrite sassoc_cons. destruct (skey_eqb (f, vrf, x) (f', v', x')) eqn:E; [|exact Hs].
        apply skey_eqb_spec in E. inversion E; subst. rewrite Es in Hs. discriminate.
      * intros _. right. split; [exact Hnone|]. cbn [statics]. rewrite sassoc_cons.
        assert (skey_eqb (f, vrf, x) (f, vrf, x) = true) by (apply skey_eqb_spec; reflexivity).
        rewrite H. reflexivity.
  - rewrite <- Ef. intros Hc. apply in_map_iff in Hc. destruct Hc as (p & Heq & Hp).
    apply filter_In in Hp. destruct Hp as [Hp Hcon]. apply fam_pools_in in Hp. destruct Hp as [Hin Hf].
    apply andb_true_iff in Hcon. destruct Hcon as [Hcon Hv]. apply N.eqb_eq in Hv.
    destruct (reserve_in_ok _ _ _ _ _ _ _ _ Hok Hin Hf Hv Hcon Heq) as [A B]. split; auto.
Qed.

(* ---- release (Repaired): sessions other than the releasing one lose nothing *)
Lemma release_pool_ok f key x s r :
  step_ok (other_than s) r (release_pool Repaired f key x s r).
Proof.
  unfold release_pool. destruct (find _ (fam_pools f r)) as [p|] eqn:E; [|apply step_ok_refl].
  apply find_in in E. destruct E as [E _]. apply fam_pools_in in E. destruct E as [Hin Hf].
  destruct (raw_slot (p_geom p) x) as [sl|]; [|apply step_ok_refl].
  apply upd_pool_ok with (p := p); auto.
  - unfold pool_release. destruct (lease_of p sl); [destruct (owner_ok Repaired n s)|]; reflexivity.
  - apply release_wf.
  - intros sl' t Ht Hl. apply release_lease_other; auto.
Qed.

Lemma release_static_ok f x vrf s r :
  step_ok (other_than s) r (release_static Repaired f x vrf s r).
Proof.
  unfold release_static. change (d5 Repaired) with false. cbv iota.
  destruct (sassoc (f, vrf, x) (statics r)) as [o|] eqn:Es; [|apply step_ok_refl].
  destruct (o =? s) eqn:Eo; [|apply step_ok_refl]. apply N.eqb_eq in Eo; subst o.
  intros Hok. split; [exact Hok|split; [reflexivity|]].
  intros t f' v' x' Ht [Hl|[Hn Hs]]; [left; exact Hl|right]. split; [exact Hn|]. cbn [statics].
  destruct (skey_eqb (f, vrf, x) (f', v', x')) eqn:E.
  - apply skey_eqb_spec in E. inversion E; subst. rewrite Es in Hs. unfold other_than in Ht. congruence.
  - rewrite sassoc_sunassoc_neq; auto. intros H. rewrite <- skey_eqb_spec in H. congruence.
Qed.

Lemma release_all_ok f x s r : step_ok (other_than s) r (release_all Repaired f x s r).
Proof.
  unfold release_all. apply map_pools_ok. intros [Hnd HF] q Hq.
  assert (Hwf : pool_wf q) by (eapply Forall_forall in HF; eauto).
  destruct (fam_eqb (p_fam q) f); [|split; [reflexivity|split; [exact Hwf|intros ? ? _ H; exact H]]].
  destruct (raw_slot (p_geom q) x) as [sl|]; [|split; [reflexivity|split; [exact Hwf|intros ? ? _ H; exact H]]].
  split; [|split].
  - unfold pool_release. destruct (lease_of q sl); [destruct (owner_ok Repaired n s)|]; reflexivity.
  - apply release_wf; exact Hwf.
  - intros sl' t Ht Hl. apply release_lease_other; auto.
Qed.

Lemma release_ip_ok f x vrf s r r' :
  In r' (release_ip Repaired f x vrf s r) -> step_ok (other_than s) r r'.
Proof.
  unfold release_ip. pose proof (release_static_ok f x vrf s r) as H0.
  set (r0 := release_static Repaired f x vrf s r) in *.
  assert (Hall : forall f', step_ok (other_than s) r (release_all Repaired f' x s r0)).
  { intros f'. eapply step_ok_trans; [exact H0|apply release_all_ok]. }
  destruct f; try (intros [<-|[]]; apply Hall).
  destruct (filter (fun p => contains p x) (fam_pools FD r0)) as [|c cs] eqn:Ef.
  - intros [<-|[]]; exact H0.
  - rewrite <- Ef. intros Hc. apply in_map_iff in Hc. destruct Hc as (p & <- & Hp).
    apply filter_In in Hp. destruct Hp as [Hp _]. apply fam_pools_in in Hp. destruct Hp as [Hin Hf].
    destruct (slot_of (p_geom p) x) as [sl|]; [|exact H0].
    eapply step_ok_trans; [exact H0|].
    apply upd_pool_ok with (p := p); auto.
    + unfold pool_release. destruct (lease_of p sl); [destruct (owner_ok Repaired n s)|]; reflexivity.
    + apply release_wf.
    + intros sl' t Ht Hl. apply release_lease_other; auto.
Qed.

(* HA sync entry points: Reserve*InPool never disturbs anybody, Release*InPool (Repaired) only the named session *)
Lemma reserve_in_any r p x s r' ok :
  reg_ok r -> In p (pools r) -> reserve_in r p x s = (r', ok) -> step_ok anyone r r'.
Proof.
  intros Hok Hin E. destruct (contains p x) eqn:Ec.
  - destruct (reserve_in_ok _ _ _ _ _ _ _ _ Hok Hin eq_refl eq_refl Ec E) as [A _]. exact A.
  - unfold reserve_in in E. unfold contains in Ec. destruct (slot_of (p_geom p) x); [discriminate|].
    inversion E; subst. apply step_ok_refl.
Qed.
Lemma reserve_named_ok v f key x s r r' ok :
  reg_ok r -> In (r', ok) (reserve_named v f key x s r) -> step_ok anyone r r'.
Proof.
  intros Hok. unfold reserve_named.
  destruct (match key with Some k => find (fun p => p_key p =? k) (fam_pools f r) | None => None end) as [p|] eqn:Ek.
  - intros [E|[]]. destruct key as [k|]; [|discriminate]. apply find_in in Ek. destruct Ek as [Ek _].
    apply fam_pools_in in Ek. destruct Ek as [Hin _]. eapply reserve_in_any; eauto.
  - destruct (filter (fun p => contains p x) (fam_pools f r)) as [|c cs] eqn:Ef.
    + intros [E|[]]. inversion E; subst. apply step_ok_refl.
    + rewrite <- Ef. intros Hc. apply in_map_iff in Hc. destruct Hc as (p & E & Hp).
      apply filter_In in Hp. destruct Hp as [Hp _]. apply fam_pools_in in Hp. destruct Hp as [Hin _].
      eapply reserve_in_any; eauto.
Qed.
Lemma release_named_ok f key x s r r' :
  In r' (release_named Repaired f key x s r) -> step_ok (other_than s) r r'.
Proof.
  unfold release_named.
  assert (Hupd : forall p sl, In p (pools r) -> step_ok (other_than s) r (upd_pool r (pool_release Repaired p sl s))).
  { intros p sl Hin. apply upd_pool_ok with (p := p); auto.
    - unfold pool_release. destruct (lease_of p sl); [destruct (owner_ok Repaired n s)|]; reflexivity.
    - apply release_wf.
    - intros sl' t Ht Hl. apply release_lease_other; auto. }
  destruct (match key with Some k => find (fun p => p_key p =? k) (fam_pools f r) | None => None end) as [p|] eqn:Ek.
  - destruct key as [k|]; [|discriminate]. apply find_in in Ek. destruct Ek as [Ek _].
    apply fam_pools_in in Ek. destruct Ek as [Hin _].
    destruct (raw_slot (p_geom p) x) as [sl|]; intros [<-|[]]; [apply Hupd; exact Hin|apply step_ok_refl].
  - destruct (filter (fun p => contains p x) (fam_pools f r)) as [|c cs] eqn:Ef.
    + intros [<-|[]]. apply step_ok_refl.
    + rewrite <- Ef. intros Hc. apply in_map_iff in Hc. destruct Hc as (p & <- & Hp).
      apply filter_In in Hp. destruct Hp as [Hp _]. apply fam_pools_in in Hp. destruct Hp as [Hin _].
      destruct (slot_of (p_geom p) x) as [sl|]; [apply Hupd; exact Hin|apply step_ok_refl].
Qed.

(* the DHCPv4 provider never touches another session's registry lease (Repaired) *)
Lemma prov_release_ok pr r mac s pr' r' :
  prov_release Repaired pr r mac s = (pr', r') -> step_ok (other_than s) r r'.
Proof.
  unfold prov_release. destruct (assoc mac (by_mac pr)); [|intros H; inversion H; apply step_ok_refl].
  destruct (lassoc n (objs pr)) as [l|]; [|intros H; inversion H; apply step_ok_refl].
  intros H; inversion H; subst. destruct (l_pool l); [apply release_pool_ok|apply step_ok_refl].
Qed.
Lemma prov6_release_ok q r duid s q' r' :
  prov6_release Repaired q r duid s = (q', r') -> step_ok (other_than s) r r'.
Proof.
  unfold prov6_release.
  destruct (match passoc duid (n_iana q) with
            | Some (a, _, pool) =>
                (mkProv6 (punassoc duid (n_iana q)) (unassoc a (n_addr q)) (n_pd q) (n_pfx q),
                 match pool with Some k => release_pool Repaired F6 k (a, 0) s r | None => r end)
            | None => (q, r)
            end) as [q1 r1] eqn:E1.
  assert (H1 : step_ok (other_than s) r r1).
  { destruct (passoc duid (n_iana q)) as [[[a s'] pool]|]; inversion E1; subst; [|apply step_ok_refl].
    destruct pool; [apply release_pool_ok|apply step_ok_refl]. }
  destruct (passoc duid (n_pd q1)) as [[[x s'] pool]|]; intros H; inversion H; subst; [|exact H1].
  destruct pool; [|exact H1]. eapply step_ok_trans; [exact H1|apply release_pool_ok].
Qed.
Lemma prov_reserve_reg pr r ip mac sid pool pr' r' ok :
  prov_reserve Repaired pr r ip mac sid pool = (pr', r', ok) -> r' = r.
Proof.
  unfold prov_reserve. destruct (assoc ip (by_ip pr)); [|intros H; inversion H; reflexivity].
  destruct (lassoc n (objs pr)) as [l|]; [|intros H; inversion H; reflexivity].
  destruct (l_mac l =? mac); [intros H; inversion H; reflexivity|].
  destruct (l_exp l); intros H; inversion H; reflexivity.
Qed.

(* ---- frame: an operation on family f leaves every other family's ownership alone (for every session) *)
Definition frame (f : fam) (r r' : reg) : Prop :=
  forall t f' v x, f' <> f -> owns r f' v x t -> owns r' f' v x t.
Lemma frame_refl f r : frame f r r.
Proof. intros t f' v x _ H; exact H. Qed.
Lemma frame_trans f r1 r2 r3 : frame f r1 r2 -> frame f r2 r3 -> frame f r1 r3.
Proof. intros A B t f' v x Hn H. apply B; auto. Qed.

Lemma map_pools_frame f r (G : pool -> pool) :
  (forall q, In q (pools r) -> (p_fam q <> f -> G q = q) /\ (p_fam q = f -> p_fam (G q) = f)) ->
  frame f r (mkReg (map G (pools r)) (statics r)).
Proof.
  intros HG t f' v x Hn [ (p & sl & Hin & Hf & Hv & Hs & Hl) | [Hnone Hst] ].
  - left. exists p, sl. repeat split; auto. simpl.
    assert (G p = p) by (apply HG; auto; congruence). rewrite <- H. apply in_map; exact Hin.
  - right. split; [|exact Hst]. simpl. intros p' Hin' Hf' Hv'.
    apply in_map_iff in Hin'. destruct Hin' as (q & <- & Hq). destruct (HG q Hq) as [A B].
    destruct (fam_eqb (p_fam q) f) eqn:E.
    + apply fam_eqb_spec in E. rewrite (B E) in Hf'. congruence.
    + assert (p_fam q <> f) by (intros H; apply fam_eqb_spec in H; congruence).
      rewrite (A H) in *. apply Hnone; auto.
Qed.

Lemma upd_pool_frame f r p' : p_fam p' = f -> frame f r (upd_pool r p').
Proof.
  intros Hf. unfold upd_pool. apply map_pools_frame. intros q Hq. split.
  - intros Hn. destruct (same_pool q p') eqn:E; auto.
    apply same_pool_spec in E. unfold pool_id in E. inversion E. congruence.
  - intros Hq'. destruct (same_pool q p'); congruence.
Qed.

Lemma release_pool_frame v f key x s r : frame f r (release_pool v f key x s r).
Proof.
  unfold release_pool. destruct (find _ (fam_pools f r)) as [p|] eqn:E; [|apply frame_refl].
  apply find_in in E. destruct E as [E _]. apply fam_pools_in in E. destruct E as [Hin Hf].
  destruct (raw_slot (p_geom p) x) as [sl|]; [|apply frame_refl].
  apply upd_pool_frame. unfold pool_release. destruct (lease_of p sl); [destruct (owner_ok v n s)|]; exact Hf.
Qed.

Lemma release_static_frame v f x vrf s r : frame f r (release_static v f x vrf s r).
Proof.
  unfold release_static. destruct (d5 v); [apply frame_refl|].
  destruct (sassoc (f, vrf, x) (statics r)) as [o|]; [|apply frame_refl].
  destruct (o =? s); [|apply frame_refl].
  intros t f' v' x' Hn [Hl|[Hnone Hs]]; [left; exact Hl|right]. split; [exact Hnone|]. cbn [statics].
  rewrite sassoc_sunassoc_neq; auto. intros H. inversion H. congruence.
Qed.

Lemma release_all_frame v f x s r : frame f r (release_all v f x s r).
Proof.
  unfold release_all. apply map_pools_frame. intros q Hq. split.
  - intros Hn. destruct (fam_eqb (p_fam q) f) eqn:E; auto. apply fam_eqb_spec in E. contradiction.
  - intros Hf. destruct (fam_eqb (p_fam q) f); auto. destruct (raw_slot (p_geom q) x) as [sl|]; auto.
    unfold pool_release. destruct (lease_of q sl); [destruct (owner_ok v n s)|]; exact Hf.
Qed.

Lemma release_ip_frame v f x vrf s r r' : In r' (release_ip v f x vrf s r) -> frame f r r'.
Proof.
  unfold release_ip. pose proof (release_static_frame v f x vrf s r) as H0.
  set (r0 := release_static v f x vrf s r) in *.
  assert (Hall : frame f r (release_all v f x s r0)).
  { eapply frame_trans; [exact H0|apply release_all_frame]. }
  destruct f; try (intros [<-|[]]; exact Hall).
  destruct (filter (fun p => contains p x) (fam_pools FD r0)) as [|c cs] eqn:Ef.
  - intros [<-|[]]; exact H0.
  - rewrite <- Ef. intros Hc. apply in_map_iff in Hc. destruct Hc as (p & <- & Hp).
    apply filter_In in Hp. destruct Hp as [Hp _]. apply fam_pools_in in Hp. destruct Hp as [Hin Hf].
    destruct (slot_of (p_geom p) x) as [sl|]; [|exact H0].
    eapply frame_trans; [exact H0|]. apply upd_pool_frame.
    unfold pool_release. destruct (lease_of p sl); [destruct (owner_ok v n s)|]; exact Hf.
Qed.

Lemma prov_release_frame v pr r mac s pr' r' : prov_release v pr r mac s = (pr', r') -> frame F4 r r'.
Proof.
  unfold prov_release. destruct (assoc mac (by_mac pr)); [|intros H; inversion H; apply frame_refl].
  destruct (lassoc n (objs pr)) as [l|]; [|intros H; inversion H; apply frame_refl].
  intros H; inversion H; subst. destruct (l_pool l); [apply release_pool_frame|apply frame_refl].
Qed.

(* the DHCPv6 provider's release touches IA_NA and PD pools only *)
Lemma prov6_release_keeps4 v q r duid s q' r' :
  prov6_release v q r duid s = (q', r') -> forall t vv x, owns r F4 vv x t -> owns r' F4 vv x t.
Proof.
  unfold prov6_release.
  destruct (match passoc duid (n_iana q) with
            | Some (a, _, pool) =>
                (mkProv6 (punassoc duid (n_iana q)) (unassoc a (n_addr q)) (n_pd q) (n_pfx q),
                 match pool with Some k => release_pool v F6 k (a, 0) s r | None => r end)
            | None => (q, r)
            end) as [q1 r1] eqn:E1.
  assert (H1 : forall t vv x, owns r F4 vv x t -> owns r1 F4 vv x t).
  { destruct (passoc duid (n_iana q)) as [[[a s'] pool]|]; inversion E1; subst; auto.
    destruct pool; auto. intros t vv x. apply release_pool_frame. discriminate. }
  destruct (passoc duid (n_pd q1)) as [[[x s'] pool]|]; intros H; inversion H; subst; auto.
  destruct pool; auto. intros t vv y Ho. apply release_pool_frame; [discriminate|]. apply H1; exact Ho.
Qed.

(* ---- one owner per (family, VRF, address) when pools of a family do not overlap *)
Definition pools_disjoint (r : reg) : Prop :=
  forall p q x, In p (pools r) -> In q (pools r) -> p_fam p = p_fam q -> p_vrf p = p_vrf q ->
                contains p x = true -> contains q x = true -> pool_id p = pool_id q.

Lemma owns_functional r f v x s t :
  reg_ok r -> pools_disjoint r -> owns r f v x s -> owns r f v x t -> s = t.
Proof.
  intros [Hnd _] Hd [ (p & sl & Hp & Hf & Hv & Hs & Hl) | [Hn Hst] ]
         [ (q & sl' & Hq & Hf' & Hv' & Hs' & Hl') | [Hn' Hst'] ].
  - assert (p = q).
    { eapply nodup_id_eq; eauto. apply Hd with (x := x); auto; try congruence;
      unfold contains; [rewrite Hs|rewrite Hs']; reflexivity. }
    subst q. rewrite Hs in Hs'. inversion Hs'; subst sl'. rewrite Hl in Hl'. inversion Hl'; reflexivity.
  - rewrite (Hn' p Hp Hf Hv) in Hs. discriminate.
  - rewrite (Hn q Hq Hf' Hv') in Hs'. discriminate.
  - rewrite Hst in Hst'. inversion Hst'; reflexivity.
Qed.

(* ---- uniqueness from the ownership invariant *)
Definition told_is_owned (st : state) : Prop :=
  forall s f x, In s (st_sess st) -> holds s f = Some x -> owns (st_reg st) f (s_vrf s) x (s_id s).

Lemma unique_from_ownership st s1 s2 f x :
  reg_ok (st_reg st) -> pools_disjoint (st_reg st) -> told_is_owned st ->
  In s1 (st_sess st) -> In s2 (st_sess st) -> s_vrf s1 = s_vrf s2 ->
  holds s1 f = Some x -> holds s2 f = Some x -> s_id s1 = s_id s2.
Proof.
  intros Hok Hd Hinv H1 H2 Hv Hh1 Hh2.
  pose proof (Hinv _ _ _ H1 Hh1) as O1. pose proof (Hinv _ _ _ H2 Hh2) as O2.
  rewrite Hv in O1. eapply owns_functional; eauto.
Qed.

Lemma init_reg_ok ps :
  NoDup (map pool_id ps) -> Forall pool_wf ps -> reg_ok (mkReg ps []).
Proof. intros; split; assumption. Qed.

Lemma new_pool_wf_range f key prof vrf lo hi ex : pool_wf (new_pool f key prof vrf (GRange lo hi ex)).
Proof.
  assert (Hseq : forall n a x, In x (nseq a n) -> a <= x < a + N.of_nat n).
  { induction n as [|n IH]; simpl; intros a x; [tauto|]. intros [<-|H]; [lia|]. apply IH in H. lia. }
  assert (Hnd : forall n a, NoDup (nseq a n)).
  { induction n as [|n IH]; simpl; intros a; constructor; auto. intros H. apply Hseq in H. lia. }
  unfold pool_wf, new_pool, valid_slot, lease_of; simpl p_geom; simpl p_free; simpl p_leases.
  split; [apply geom_ok_range|]. split; [|split; [|split]].
  - unfold init_free. destruct (hi <? lo); [constructor|]. apply NoDup_filter. apply Hnd.
  - reflexivity.
  - intros sl. unfold init_free. destruct (hi <? lo) eqn:E; [intros []|].
    intros H. apply filter_In in H. destruct H as [H _]. apply Hseq in H.
    cbn [item_of slot_of fst]. apply N.ltb_ge in E.
    assert ((lo <=? sl) && (sl <=? hi) = true) by lia. rewrite H0. reflexivity.
  - simpl. discriminate.
Qed.

(* ================================================================== session-level invariant (Repaired) *)
Definition kinds_ok (r : reg) : Prop :=
  forall p, In p (pools r) -> p_fam p <> FD -> forall sl, snd (item_of (p_geom p) sl) = 0.

Lemma same_shape_in r r' p' : same_shape r r' -> In p' (pools r') -> exists p, In p (pools r) /\ psig p = psig p'.
Proof.
  intros Hs Hin. apply (in_map psig) in Hin. rewrite Hs in Hin. apply in_map_iff in Hin.
  destruct Hin as (p & E & Hp). exists p; auto.
Qed.
Lemma same_shape_sym r r' : same_shape r r' -> same_shape r' r.
Proof. unfold same_shape; congruence. Qed.

Lemma kinds_ok_shape r r' : same_shape r r' -> kinds_ok r -> kinds_ok r'.
Proof.
  intros Hs Hk p' Hin Hf sl. destruct (same_shape_in _ _ _ Hs Hin) as (p & Hp & E).
  assert (Eg : p_geom p' = p_geom p) by (unfold psig in E; congruence).
  assert (Ef : p_fam p' = p_fam p) by (unfold psig in E; congruence).
  rewrite Eg. apply Hk; auto. congruence.
Qed.
Lemma pools_disjoint_shape r r' : same_shape r r' -> pools_disjoint r -> pools_disjoint r'.
Proof.
  intros Hs Hd p' q' x Hp' Hq' Hf Hvv Hc1 Hc2.
  destruct (same_shape_in _ _ _ Hs Hp') as (p & Hp & E1). destruct (same_shape_in _ _ _ Hs Hq') as (q & Hq & E2).
  assert (A3 : p_geom p = p_geom p') by (unfold psig in E1; congruence).
  assert (B3 : p_geom q = p_geom q') by (unfold psig in E2; congruence).
  assert (A1 : p_fam p = p_fam p') by (unfold psig in E1; congruence).
  assert (B1 : p_fam q = p_fam q') by (unfold psig in E2; congruence).
  assert (A4 : p_vrf p = p_vrf p') by (unfold psig in E1; congruence).
  assert (B4 : p_vrf q = p_vrf q') by (unfold psig in E2; congruence).
  assert (pool_id p = pool_id q).
  { apply Hd with (x := x); auto; try congruence; unfold contains in *; [rewrite A3|rewrite B3]; assumption. }
  apply psig_id in E1. apply psig_id in E2. congruence.
Qed.

Lemma nodup_map_inj {A B} (g : A -> B) (l : list A) a b :
  NoDup (map g l) -> In a l -> In b l -> g a = g b -> a = b.
Proof.
  induction l as [|c r IH]; simpl; [tauto|].
  intros Hn Ha Hb He. inversion Hn as [|? ? Hc Hr]; subst.
  destruct Ha as [->|Ha], Hb as [->|Hb]; auto.
  - exfalso. apply Hc. rewrite He. apply in_map; exact Hb.
  - exfalso. apply Hc. rewrite <- He. apply in_map; exact Ha.
Qed.

Section Invariant.
(* K: any registry predicate that depends on the pools' signatures only and implies kinds_ok
   (instantiated with kinds_ok, and with kinds_ok /\ pools_disjoint) *)
Variable K : reg -> Prop.
Hypothesis K_shape : forall r r', same_shape r r' -> K r -> K r'.
Hypothesis K_kinds : forall r, K r -> kinds_ok r.
Hypothesis K_reset : forall r, K r -> forall p, In p (pools r) -> pool_wf (reset_pool p).

Definition rinv (r : reg) : Prop := reg_ok r /\ K r.
Lemma rinv_step P r r' : rinv r -> step_ok P r r' -> rinv r' /\ pres P r r'.
Proof.
  intros [Hok Hk] H. destruct (H Hok) as (A & B & C). split; [split|]; auto. eapply K_shape; eauto.
Qed.

(* ---- allocation answers of address families carry prefix length 0 *)
Lemma alloc_in_kind r p s r' x k :
  kinds_ok r -> In p (pools r) -> p_fam p <> FD -> In (r', Some (x, k)) (alloc_in r p s) -> snd x = 0.
Proof.
  intros Hk Hin Hf Hc. unfold alloc_in in Hc. apply in_map_iff in Hc. destruct Hc as (sl & E & _).
  inversion E; subst. apply Hk; auto.
Qed.
Lemma alloc_walk_kind f prof vrf s r r' x k :
  kinds_ok r -> f <> FD -> In (r', Some (x, k)) (alloc_walk f prof vrf s r) -> snd x = 0.
Proof.
  intros Hk Hf. unfold alloc_walk. destruct (find _ (fam_pools f r)) as [p|] eqn:E.
  - apply find_in in E. destruct E as [E _]. apply fam_pools_in in E. destruct E as [Hin Hfp].
    apply alloc_in_kind; auto. congruence.
  - intros [H|[]]. inversion H.
Qed.
Lemma alloc_from_profile_kind f prof ov vrf s r r' x k :
  kinds_ok r -> f <> FD -> In (r', Some (x, k)) (alloc_from_profile Repaired f prof ov vrf s r) -> snd x = 0.
Proof.
  intros Hk Hf. unfold alloc_from_profile.
  destruct ov as [kk|]; [|apply alloc_walk_kind; auto].
  destruct (find _ (fam_pools f r)) as [p|] eqn:E; [|apply alloc_walk_kind; auto].
  destruct (isnil (p_free p)); [apply alloc_walk_kind; auto|].
  apply find_in in E. destruct E as [E _]. apply fam_pools_in in E. destruct E as [Hin Hfp].
  apply alloc_in_kind; auto. congruence.
Qed.

Lemma acquire_ok f prof ov vrf sid cur r r1 a pk ok :
  rinv r -> (f <> FD -> forall i, cur = Some i -> snd i = 0) ->
  In (r1, a, pk, ok) (acquire Repaired f prof ov vrf sid cur r) ->
  step_ok anyone r r1 /\ (ok = true -> forall i, a = Some i -> owns r1 f vrf i sid) /\
  (f <> FD -> forall i, a = Some i -> snd i = 0).
Proof.
  intros [Hok Hk] Hcur. apply K_kinds in Hk. unfold acquire. destruct cur as [x|].
  - intros Hc. apply in_map_iff in Hc. destruct Hc as ([r' ok'] & E & Hc). inversion E; subst; clear E.
    destruct (reserve_cont_ok _ _ _ _ _ _ _ Hok Hc) as [A B]. split; [exact A|split].
    + intros Ho i Hi. assert (i = x) by congruence. subst i. apply B. exact Ho.
    + intros Hf i Hi. assert (i = x) by congruence. subst i. apply Hcur; auto.
  - destruct prof as [pf|].
    + intros Hc. apply in_map_iff in Hc. destruct Hc as ([r' res] & E & Hc).
      destruct (alloc_from_profile_ok _ _ _ _ _ _ _ _ Hok Hc) as [A B].
      destruct res as [[x k]|]; inversion E; subst; clear E.
      * split; [exact A|split].
        -- intros _ i Hi. inversion Hi; subst. destruct B as [B|(x' & k' & B & Ho)]; [discriminate|].
           inversion B; subst. apply Ho.
        -- intros Hf i Hi. inversion Hi; subst. eapply alloc_from_profile_kind; eauto.
      * split; [exact A|split]; intros; discriminate.
    + intros [E|[]]. inversion E; subst. split; [apply step_ok_refl|split]; intros; discriminate.
Qed.

(* ---- what a session claims, and the state invariant *)
Definition oo (r : reg) (v i : N) (f : fam) (x : option item) : Prop :=
  forall y, x = Some y -> owns r f v y i.
Definition sess_ok (r : reg) (s : sess) : Prop :=
  s_live s = true ->
  (s_ppp s = true -> oo r (s_vrf s) (s_id s) F4 (oitem (s_a4 s)) /\ oo r (s_vrf s) (s_id s) F6 (oitem (s_a6 s)) /\
                     oo r (s_vrf s) (s_id s) FD (s_ad s)) /\
  oo r (s_vrf s) (s_id s) F4 (oitem (s_told s)) /\ oo r (s_vrf s) (s_id s) F6 (oitem (s_b6 s)) /\
  oo r (s_vrf s) (s_id s) FD (s_bd s).
(* PPPoE: the recorded address is the one told (or nothing), and the told address is a usable one *)
Definition told_ok (s : sess) : Prop :=
  s_ppp s = true -> s_told s <> Some 0 /\ (s_a4 s = None \/ s_a4 s = s_told s).

Definition inv (st : state) : Prop :=
  rinv (st_reg st) /\ NoDup (map s_id (st_sess st)) /\
  Forall (sess_ok (st_reg st)) (st_sess st) /\ Forall told_ok (st_sess st).

Lemma oo_pres (P : N -> Prop) r r' v i f x : pres P r r' -> P i -> oo r v i f x -> oo r' v i f x.
Proof. intros Hp Pi Ho y Hy. apply Hp; auto. Qed.
Lemma oo_none r v i f : oo r v i f None.
Proof. intros y H; discriminate. Qed.

Lemma sess_ok_pres (P : N -> Prop) r r' s : pres P r r' -> P (s_id s) -> sess_ok r s -> sess_ok r' s.
Proof.
  intros Hp Pi Hs Hl. destruct (Hs Hl) as (A & B & C & D).
  split; [|split; [|split]]; try (eapply oo_pres; eauto).
  intros Hppp. destruct (A Hppp) as (A1 & A2 & A3). repeat split; eapply oo_pres; eauto.
Qed.

Lemma put_sess_ids s' l : map s_id (put_sess s' l) = map s_id l.
Proof.
  unfold put_sess. rewrite map_map. apply map_ext. intros a.
  destruct (s_id a =? s_id s') eqn:E; auto. apply N.eqb_eq in E. auto.
Qed.

Lemma inv_update st s s' r' pr' :
  inv st -> In s (st_sess st) -> s_id s' = s_id s ->
  step_ok (other_than (s_id s)) (st_reg st) r' ->
  (rinv r' -> sess_ok r' s') -> told_ok s' ->
  inv (mkState r' (put_sess s' (st_sess st)) pr').
Proof.
  intros (Hr & Hnd & Hs & Ht) Hin Hid Hstep Hs' Ht'.
  destruct (rinv_step _ _ _ Hr Hstep) as [Hr' Hp].
  unfold inv; cbn [st_reg st_sess]. split; [exact Hr'|split; [|split]].
  - rewrite put_sess_ids. exact Hnd.
  - apply Forall_forall. intros t Hti. unfold put_sess in Hti. apply in_map_iff in Hti.
    destruct Hti as (t0 & E & Ht0). destruct (s_id t0 =? s_id s') eqn:Eid.
    + subst t. apply Hs'; exact Hr'.
    + subst t. eapply sess_ok_pres; [exact Hp| |eapply Forall_forall in Hs; eauto].
      unfold other_than. intros H. rewrite H, <- Hid, N.eqb_refl in Eid. discriminate.
  - apply Forall_forall. intros t Hti. unfold put_sess in Hti. apply in_map_iff in Hti.
    destruct Hti as (t0 & E & Ht0). destruct (s_id t0 =? s_id s'); subst t; auto.
    eapply Forall_forall in Ht; eauto.
Qed.

Lemma anyone_other s r r' : step_ok anyone r r' -> step_ok (other_than s) r r'.
Proof. apply step_ok_weaken. intros; exact I. Qed.

Lemma find_sess_in sid st s : find_sess sid st = Some s -> In s (st_sess st) /\ s_id s = sid.
Proof. unfold find_sess. intros H. apply find_in in H. destruct H as [H1 H2]. apply N.eqb_eq in H2. auto. Qed.

Lemma inv_sess st s : inv st -> In s (st_sess st) -> sess_ok (st_reg st) s /\ told_ok s.
Proof. intros (_ & _ & Hs & Ht) Hin. split; eapply Forall_forall; eauto. Qed.

Lemma oitem_some a i : oitem a = Some i -> exists x, a = Some x /\ i = (x, 0).
Proof. destruct a; simpl; intros H; inversion H; eauto. Qed.
Lemma oitem_oaddr (a : option item) : (forall i, a = Some i -> snd i = 0) -> oitem (oaddr a) = a.
Proof. destruct a as [[x l]|]; simpl; auto. intros H. specialize (H _ eq_refl). simpl in H. subst. reflexivity. Qed.

(* ---------------------------------------------------------------- PI *)
Lemma pi_upd_inv st s X b :
  inv st -> In s (st_sess st) -> s_ppp s = true ->
  (X = s_a4 s \/ X = s_told s \/ X = None) ->
  inv (mkState (st_reg st) (put_sess (pi_upd s X b) (st_sess st)) (st_prov st)).
Proof.
  intros Hinv Hin Hppp HX. destruct (inv_sess _ _ Hinv Hin) as [Hs Ht].
  apply inv_update with (s := s); [exact Hinv|exact Hin|reflexivity|apply step_ok_refl| |].
  - intros _ Hl. cbn in Hl. destruct (Hs Hl) as (A & B & C & D). destruct (A Hppp) as (A1 & A2 & A3).
    cbn. split; [intros _; split; [|split]; auto|split; [auto|split; apply oo_none]].
    destruct HX as [->|[->| ->]]; auto. apply oo_none.
  - intros _. cbn. destruct (Ht Hppp) as [T1 T2]. split; auto.
    destruct HX as [->|[->| ->]]; auto.
Qed.

Lemma step_pi_inv st s a st' o :
  inv st -> In s (st_sess st) -> s_ppp s = true -> In (st', o) (step_pi st s a) -> inv st'.
Proof.
  intros Hinv Hin Hppp. destruct (inv_sess _ _ Hinv Hin) as [_ Ht]. destruct (Ht Hppp) as [T1 _].
  unfold step_pi, pi_res. destruct (s_told s) as [t|] eqn:Et.
  - destruct a as [x|].
    + destruct (negb (t =? 0) && negb (x =? t)) eqn:E1.
      * intros [E|[]]; inversion E; subst. apply pi_upd_inv; auto.
      * destruct (x =? 0) eqn:E2.
        -- intros [E|[]]; inversion E; subst. apply pi_upd_inv; auto.
        -- intros [E|[]]; inversion E; subst. apply pi_upd_inv; auto. right; left.
           destruct (N.eqb_spec t 0) as [->|Hn]; [exfalso; apply T1; reflexivity|].
           destruct (N.eqb_spec x t) as [->|Hn2]; [symmetry; exact Et|]. simpl in E1. discriminate.
    + intros [E|[]]; inversion E; subst. apply pi_upd_inv; auto.
  - intros [E|[]]; inversion E; subst. apply pi_upd_inv; auto.
Qed.

(* ---------------------------------------------------------------- releases: PT, IR, IT *)
Lemma rel_addr_ok f (a : option N) (pk : option N) vrf sid r r1 :
  In r1 (match a with
         | Some a => match pk with
                     | Some k => [release_pool Repaired f k (addr_item a) sid r]
                     | None => release_ip Repaired f (addr_item a) vrf sid r
                     end
         | None => [r]
         end) -> step_ok (other_than sid) r r1.
Proof.
  destruct a as [a|]; [|intros [<-|[]]; apply step_ok_refl].
  destruct pk as [k|]; [intros [<-|[]]; apply release_pool_ok|apply release_ip_ok].
Qed.
Lemma rel_item_ok f (x : option item) vrf sid r r1 :
  In r1 (match x with Some x => release_ip Repaired f x vrf sid r | None => [r] end) ->
  step_ok (other_than sid) r r1.
Proof. destruct x; [apply release_ip_ok|intros [<-|[]]; apply step_ok_refl]. Qed.

Lemma dead_inv st s r' pr' :
  inv st -> In s (st_sess st) -> step_ok (other_than (s_id s)) (st_reg st) r' ->
  inv (mkState r' (put_sess (set_live s false) (st_sess st)) pr').
Proof.
  intros Hinv Hin Hstep. destruct (inv_sess _ _ Hinv Hin) as [_ Ht].
  apply inv_update with (s := s); [exact Hinv|exact Hin|reflexivity|exact Hstep| |].
  - intros _ Hl. cbn in Hl. discriminate.
  - exact Ht.
Qed.

Lemma step_pt_inv st s st' o :
  inv st -> In s (st_sess st) -> In (st', o) (step_pt Repaired st s) -> inv st'.
Proof.
  intros Hinv Hin. unfold step_pt, bindl. intros H.
  apply in_flat_map in H. destruct H as (r1 & H1 & H).
  apply in_flat_map in H. destruct H as (r2 & H2 & H).
  apply in_map_iff in H. destruct H as (r3 & E & H3). inversion E; subst; clear E.
  apply dead_inv; auto.
  eapply step_ok_trans; [eapply rel_addr_ok; exact H1|].
  eapply step_ok_trans; [eapply rel_addr_ok; exact H2|].
  eapply rel_item_ok; exact H3.
Qed.

Lemma step_rel_inv st s ir r6 st' o :
  inv st -> In s (st_sess st) -> In (st', o) (step_rel Repaired st s ir r6) -> inv st'.
Proof.
  intros Hinv Hin. unfold step_rel, bindl. intros H.
  apply in_flat_map in H. destruct H as (r1 & H1 & H).
  destruct (if ir then prov_release Repaired (st_prov st) r1 (s_mac s) (s_id s) else (st_prov st, r1))
    as [pr' r2] eqn:Ep.
  apply in_flat_map in H. destruct H as (r3 & H3 & H).
  apply in_map_iff in H. destruct H as (r4 & E & H4).
  destruct (if r6 then prov6_release Repaired (p6 pr') r4 (s_mac s) (s_id s) else (p6 pr', r4)) as [q' r5] eqn:E6.
  inversion E; subst; clear E.
  apply dead_inv; auto.
  eapply step_ok_trans; [eapply rel_item_ok with (x := oitem (s_b4 s)) | ].
  { destruct (s_b4 s); exact H1. }
  eapply step_ok_trans with (r2 := r2).
  { destruct ir; [eapply prov_release_ok; exact Ep|inversion Ep; subst; apply step_ok_refl]. }
  eapply step_ok_trans; [eapply rel_item_ok with (x := oitem (s_b6 s)) | ].
  { destruct (s_b6 s); exact H3. }
  eapply step_ok_trans; [eapply rel_item_ok; exact H4|].
  destruct r6; [eapply prov6_release_ok; exact E6|inversion E6; subst; apply step_ok_refl].
Qed.

(* ---------------------------------------------------------------- IPoE: ID / IQ / IS *)
Lemma ipoe_sess_ok r s' :
  s_ppp s' = false ->
  oo r (s_vrf s') (s_id s') F4 (oitem (s_told s')) -> oo r (s_vrf s') (s_id s') F6 (oitem (s_b6 s')) ->
  oo r (s_vrf s') (s_id s') FD (s_bd s') -> sess_ok r s'.
Proof. intros Hp A B C _. split; [intros H; congruence|auto]. Qed.

Lemma ipoe_told_ok s' : s_ppp s' = false -> told_ok s'.
Proof. intros H H'. congruence. Qed.

(* facts about the (possibly fresh) allocation context of an IPoE session *)
Definition ctx_of (st : state) (s s0 : sess) : Prop :=
  In s (st_sess st) /\ s_id s0 = s_id s /\ s_ppp s0 = false /\ s_live s0 = true /\ sess_ok (st_reg st) s0.

Lemma id_ctx_of st s vrf s4 o4 :
  inv st -> In s (st_sess st) -> s_ppp s = false -> s_live s = true -> ctx_of st s (id_ctx s vrf s4 o4).
Proof.
  intros Hinv Hin Hp Hl. unfold id_ctx, ctx_of. destruct (s_started s).
  - split; [exact Hin|split; [reflexivity|split; [exact Hp|split; [exact Hl|]]]].
    destruct (inv_sess _ _ Hinv Hin) as [X _]; exact X.
  - split; [exact Hin|split; [reflexivity|split; [reflexivity|split; [reflexivity|]]]].
    apply ipoe_sess_ok; cbn; auto using oo_none.
Qed.
Lemma is_ctx_of st s vrf s6 spd o6 od :
  inv st -> In s (st_sess st) -> s_ppp s = false -> s_live s = true -> ctx_of st s (is_ctx s vrf s6 spd o6 od).
Proof.
  intros Hinv Hin Hp Hl. unfold is_ctx, ctx_of. destruct (s_started s).
  - split; [exact Hin|split; [reflexivity|split; [exact Hp|split; [exact Hl|]]]].
    destruct (inv_sess _ _ Hinv Hin) as [X _]; exact X.
  - split; [exact Hin|split; [reflexivity|split; [reflexivity|split; [reflexivity|]]]].
    apply ipoe_sess_ok; cbn; auto using oo_none.
Qed.

Lemma mark_duid_ctx st s s0 isreq : ctx_of st s s0 -> ctx_of st s (mark_duid isreq s0).
Proof.
  unfold mark_duid. destruct isreq; [auto|]. intros (A & B & C & D & E).
  unfold ctx_of. cbn [s_id s_ppp s_live].
  split; [exact A|split; [exact B|split; [exact C|split; [exact D|]]]].
  intros Hl. exact (E D).
Qed.

Lemma oitem_kind (a : option N) i : oitem a = Some i -> snd i = 0.
Proof. intros H. apply oitem_some in H. destruct H as (x & _ & ->). reflexivity. Qed.

Lemma id_nil_repaired st r s isreq bind rq :
  id_nil Repaired st r s isreq bind rq = [(mkState r (put_sess s (st_sess st)) (st_prov st), OId isreq IdNil (s_a4 s))].
Proof. reflexivity. Qed.

Lemma step_id_core_inv st s s0 isreq bind rq st' o :
  inv st -> ctx_of st s s0 -> In (st', o) (step_id_core Repaired st s0 isreq bind rq) -> inv st'.
Proof.
  intros Hinv (Hin & Hid & Hp & Hl & Hs0). pose proof Hinv as (Hr & _).
  destruct (Hs0 Hl) as (_ & OT & O6 & OD).
  unfold step_id_core. destruct (s_prof4 s0) as [pf|] eqn:Epf.
  2:{ rewrite id_nil_repaired. intros [E|[]]; inversion E; subst.
      apply inv_update with (s := s); [exact Hinv|exact Hin|exact Hid|apply step_ok_refl|intros _; exact Hs0|].
      apply ipoe_told_ok; exact Hp. }
  unfold bindl. intros H. apply in_flat_map in H. destruct H as ([[[r1 a4] pk] ok] & Hc & H).
  rewrite id_nil_repaired in H.
  destruct (acquire_ok F4 _ _ _ _ _ _ _ _ _ _ Hr (fun _ i Hi => oitem_kind _ _ Hi) Hc) as (A & B & C).
  destruct (rinv_step _ _ _ Hr A) as [Hr1 Hp1].
  assert (Hcarry : forall f x, oo (st_reg st) (s_vrf s0) (s_id s0) f x -> oo r1 (s_vrf s0) (s_id s0) f x).
  { intros f x. apply oo_pres with (P := anyone); [exact Hp1|exact I]. }
  assert (Hs1 : forall a4' b4', sess_ok r1
            (mkSess (s_id s0) false (s_prof4 s0) (s_prof6 s0) (s_mac s0) true true (s_vrf s0) (s_ov4 s0)
                    (s_ov6 s0) (s_ovd s0) a4' (s_a6 s0) (s_ad s0) None None (s_told s0) false
                    b4' (s_b6 s0) (s_bd s0) (s_x s0))).
  { intros a4' b4'. apply ipoe_sess_ok; cbn; auto. }
  cbv zeta in H. revert H.
  destruct (if ok then oaddr a4 else None) as [x|] eqn:Ex.
  - destruct (prov_reserve Repaired (st_prov st) r1 x (s_mac s0) (s_id s0) pk) as [[pr' r2] okp] eqn:Epr.
    pose proof (prov_reserve_reg _ _ _ _ _ _ _ _ _ Epr) as ->.
    destruct okp; intros [E|[]]; inversion E; subst; clear E.
    + apply inv_update with (s := s);
        [exact Hinv|exact Hin|exact Hid|apply anyone_other; exact A| |apply ipoe_told_ok; reflexivity].
      intros _. apply ipoe_sess_ok; cbn; auto.
      destruct ok; [|discriminate]. destruct a4 as [i|]; [|discriminate]. cbn in Ex. inversion Ex; subst.
      intros y Hy. inversion Hy; subst. pose proof (C ltac:(discriminate) i eq_refl) as Hk.
      destruct i as [ia il]; cbn in *; subst il. apply B; auto.
    + apply inv_update with (s := s);
        [exact Hinv|exact Hin|exact Hid|apply anyone_other; exact A|intros _; apply ipoe_sess_ok; cbn; auto|apply ipoe_told_ok; reflexivity].
  - intros [E|[]]; inversion E; subst; clear E.
    apply inv_update with (s := s);
      [exact Hinv|exact Hin|exact Hid|apply anyone_other; exact A|intros _; apply ipoe_sess_ok; cbn; auto|apply ipoe_told_ok; reflexivity].
Qed.

Lemma oo_oaddr r v i f (a : option item) :
  (forall j, a = Some j -> snd j = 0) -> (forall j, a = Some j -> owns r f v j i) -> oo r v i f (oitem (oaddr a)).
Proof. intros Hk0 O. rewrite oitem_oaddr; auto. Qed.

Lemma not_fd_fd (P : Prop) : FD <> FD -> P.
Proof. intros H; exfalso; apply H; reflexivity. Qed.

Lemma step_is_core_inv st s s0 isreq st' o :
  inv st -> ctx_of st s s0 -> In (st', o) (step_is_core Repaired st s0 isreq) -> inv st'.
Proof.
  intros Hinv (Hin & Hid & Hp & Hl & Hs0). pose proof Hinv as (Hr & _).
  destruct (Hs0 Hl) as (_ & OT & O6 & OD).
  unfold step_is_core. destruct (s_prof6 s0) as [pf|] eqn:Epf.
  2:{ intros [E|[]]; inversion E; subst.
      apply inv_update with (s := s); [exact Hinv|exact Hin|exact Hid|apply step_ok_refl|intros _; exact Hs0|].
      apply ipoe_told_ok; exact Hp. }
  unfold bindl. intros H. apply in_flat_map in H. destruct H as ([[[r1 a6] pk6] ok6] & Hc & H).
  destruct (acquire_ok F6 _ _ _ _ _ _ _ _ _ _ Hr (fun _ i Hi => oitem_kind _ _ Hi) Hc) as (A & B & C).
  destruct (rinv_step _ _ _ Hr A) as [Hr1 Hp1].
  destruct ok6; cbn [negb] in H.
  2:{ destruct H as [E|[]]; inversion E; subst.
      apply inv_update with (s := s); [exact Hinv|exact Hin|exact Hid|apply anyone_other; exact A| |apply ipoe_told_ok; exact Hp].
      intros _. eapply sess_ok_pres with (P := anyone); [exact Hp1|exact I|exact Hs0]. }
  apply in_flat_map in H. destruct H as ([[[r2 ad] pkd] okd] & Hcd & H).
  destruct (acquire_ok FD _ _ _ _ _ _ _ _ _ _ Hr1 (fun Hn => not_fd_fd _ Hn) Hcd) as (A2 & B2 & _).
  destruct (rinv_step _ _ _ Hr1 A2) as [Hr2 Hp2].
  assert (A12 : step_ok anyone (st_reg st) r2) by (eapply step_ok_trans; eauto).
  assert (Hcarry : forall f x, oo (st_reg st) (s_vrf s0) (s_id s0) f x -> oo r2 (s_vrf s0) (s_id s0) f x).
  { intros f x Ho. apply oo_pres with (P := anyone) (r := r1); [exact Hp2|exact I|].
    apply oo_pres with (P := anyone) (r := st_reg st); [exact Hp1|exact I|exact Ho]. }
  assert (O6' : oo r2 (s_vrf s0) (s_id s0) F6 (oitem (oaddr a6))).
  { apply oo_pres with (P := anyone) (r := r1); [exact Hp2|exact I|].
    apply oo_oaddr; [apply C; discriminate|apply B; reflexivity]. }
  destruct okd; cbn [negb] in H.
  2:{ destruct H as [E|[]]; inversion E; subst.
      apply inv_update with (s := s);
        [exact Hinv|exact Hin|exact Hid|apply anyone_other; exact A12| |apply ipoe_told_ok; reflexivity].
      intros _. apply ipoe_sess_ok; cbn; auto. }
  assert (OD' : oo r2 (s_vrf s0) (s_id s0) FD ad) by (intros y Hy; apply B2; auto).
  assert (Hfin : forall a6' ad' b6' bd' pr',
            oo r2 (s_vrf s0) (s_id s0) F6 (oitem b6') -> oo r2 (s_vrf s0) (s_id s0) FD bd' ->
            inv (mkState r2 (put_sess (is_mk s0 a6' ad' b6' bd') (st_sess st)) pr')).
  { intros a6' ad' b6' bd' pr' X Y.
    apply inv_update with (s := s);
      [exact Hinv|exact Hin|exact Hid|apply anyone_other; exact A12| |apply ipoe_told_ok; reflexivity].
    intros _; apply ipoe_sess_ok; cbn; auto. }
  destruct a6 as [i6|]; [|destruct ad as [id'|]]; cbv beta iota zeta in H;
    try (destruct (prov6_resolved _ _ _ _ _ _ _ _) as [q' [|]]);
    try (destruct isreq);
    destruct H as [E|[]]; inversion E; subst; apply Hfin; auto using oo_none.
Qed.

(* ---------------------------------------------------------------- PPPoE: PA *)
Lemma pa_addr_repaired (e : option item) j :
  pa_addr Repaired e = Some j -> e = Some j /\ fst j <> 0.
Proof.
  unfold pa_addr. change (d1 Repaired) with false. cbn [negb andb].
  destruct e as [i|]; [|discriminate]. destruct (fst i =? 0) eqn:E; [discriminate|].
  intros H; inversion H; subst. split; auto. apply N.eqb_neq; exact E.
Qed.

Lemma pa_pd_ok spd vrf sid r2 r3 ad :
  reg_ok r2 -> In (r3, ad) (pa_pd Repaired spd vrf sid r2) ->
  step_ok anyone r2 r3 /\ (forall y, ad = Some y -> owns r3 FD vrf y sid).
Proof.
  intros Hok. unfold pa_pd. destruct spd as [x|].
  - intros H. apply in_map_iff in H. destruct H as ([r' ok] & E & Hc). cbn in E. inversion E; subst; clear E.
    destruct (reserve_cont_ok _ _ _ _ _ _ _ Hok Hc) as [A B]. split; [exact A|].
    intros y Hy. destruct ok; cbn in Hy; [|discriminate]. inversion Hy; subst. apply B; reflexivity.
  - intros [E|[]]. inversion E; subst. split; [apply step_ok_refl|intros; discriminate].
Qed.

Lemma okopt_some {A} ok (a : option A) j : okopt ok a = Some j -> ok = true /\ a = Some j.
Proof. destruct ok; cbn; [auto|discriminate]. Qed.

Lemma step_pa_inv st s vrf s4 s6 spd o4 o6 od st' o :
  inv st -> In s (st_sess st) ->
  In (st', o) (step_pa Repaired st s vrf s4 s6 spd o4 o6 od) -> inv st'.
Proof.
  intros Hinv Hin. pose proof Hinv as (Hr & _).
  unfold step_pa, bindl. intros H.
  apply in_flat_map in H. destruct H as ([[[r1 a4] p4] ok4] & Hc4 & H).
  destruct (acquire_ok F4 _ _ _ _ _ _ _ _ _ _ Hr (fun _ i Hi => oitem_kind _ _ Hi) Hc4) as (A1 & B1 & C1).
  destruct (rinv_step _ _ _ Hr A1) as [Hr1 Hp1].
  apply in_flat_map in H. destruct H as ([[[r2 a6] p6] ok6] & Hc6 & H).
  destruct (acquire_ok F6 _ _ _ _ _ _ _ _ _ _ Hr1 (fun _ i Hi => oitem_kind _ _ Hi) Hc6) as (A2 & B2 & C2).
  destruct (rinv_step _ _ _ Hr1 A2) as [Hr2 Hp2].
  apply in_map_iff in H. destruct H as ([r3 ad] & E & Hd). cbn [fst snd] in E. inversion E; subst; clear E.
  destruct (pa_pd_ok _ _ _ _ _ _ (proj1 Hr2) Hd) as [A3 B3].
  destruct (rinv_step _ _ _ Hr2 A3) as [Hr3 Hp3].
  assert (A13 : step_ok anyone (st_reg st) r3).
  { eapply step_ok_trans; [exact A1|]. eapply step_ok_trans; eauto. }
  apply inv_update with (s := s); [exact Hinv|exact Hin|reflexivity|apply anyone_other; exact A13| |].
  - intros _ _. cbn.
    assert (O4 : oo r3 vrf (s_id s) F4 (oitem (oaddr (pa_addr Repaired (okopt ok4 a4))))).
    { apply oo_oaddr.
      - intros j Hj. apply pa_addr_repaired in Hj. destruct Hj as [Hj _]. apply okopt_some in Hj.
        destruct Hj as [_ Hj]. apply C1; [discriminate|exact Hj].
      - intros j Hj. apply pa_addr_repaired in Hj. destruct Hj as [Hj _]. apply okopt_some in Hj.
        destruct Hj as [Hok Hj]. apply Hp3; [exact I|]. apply Hp2; [exact I|]. apply B1; auto. }
    split; [intros _; split; [exact O4|split]|split; [exact O4|split; apply oo_none]].
    + apply oo_oaddr.
      * intros j Hj. apply okopt_some in Hj. destruct Hj as [_ Hj]. apply C2; [discriminate|exact Hj].
      * intros j Hj. apply okopt_some in Hj. destruct Hj as [Hok Hj]. apply Hp3; [exact I|]. apply B2; auto.
    + intros y Hy. apply B3; exact Hy.
  - intros _. cbn. split; [|right; reflexivity].
    destruct (pa_addr Repaired (okopt ok4 a4)) as [j|] eqn:Ej; cbn; [|discriminate].
    apply pa_addr_repaired in Ej. destruct Ej as [_ Hn]. intros H. inversion H. contradiction.
Qed.

(* ---------------------------------------------------------------- partial releases of a dual-stack session *)
Lemma step_rel4p_inv st s st' o :
  inv st -> In s (st_sess st) -> s_ppp s = false -> s_live s = true ->
  In (st', o) (step_rel4p Repaired st s) -> inv st'.
Proof.
  intros Hinv Hin Hp Hl. destruct (inv_sess _ _ Hinv Hin) as [Hs _]. destruct (Hs Hl) as (_ & OT & O6 & OD).
  unfold step_rel4p. intros H. apply in_map_iff in H. destruct H as (r1 & E & H1).
  destruct (prov_release Repaired (st_prov st) r1 (s_mac s) (s_id s)) as [pr' r2] eqn:Ep.
  inversion E; subst; clear E.
  assert (A1 : step_ok (other_than (s_id s)) (st_reg st) r1).
  { eapply rel_item_ok with (x := oitem (s_b4 s)). destruct (s_b4 s); exact H1. }
  assert (F1 : frame F4 (st_reg st) r1).
  { destruct (s_b4 s); [eapply release_ip_frame; exact H1|destruct H1 as [<-|[]]; apply frame_refl]. }
  pose proof (prov_release_ok _ _ _ _ _ _ Ep) as A2. pose proof (prov_release_frame _ _ _ _ _ _ _ Ep) as F2.
  apply inv_update with (s := s);
    [exact Hinv|exact Hin|reflexivity|eapply step_ok_trans; eauto| |apply ipoe_told_ok; exact Hp].
  intros _. apply ipoe_sess_ok; cbn; [exact Hp|apply oo_none| |].
  - intros y Hy. apply F2; [discriminate|]. apply F1; [discriminate|]. apply O6; exact Hy.
  - intros y Hy. apply F2; [discriminate|]. apply F1; [discriminate|]. apply OD; exact Hy.
Qed.

Lemma step_rel6_inv st s st' o :
  inv st -> In s (st_sess st) -> s_ppp s = false -> s_live s = true ->
  In (st', o) (step_rel6 Repaired st s) -> inv st'.
Proof.
  intros Hinv Hin Hp Hl. destruct (inv_sess _ _ Hinv Hin) as [Hs _]. destruct (Hs Hl) as (_ & OT & _ & _).
  unfold step_rel6.
  destruct (prov6_release Repaired (p6 (st_prov st)) (st_reg st) (s_mac s) (s_id s)) as [q1 r1] eqn:E6.
  unfold bindl. intros H. apply in_flat_map in H. destruct H as (r2 & H2 & H).
  apply in_map_iff in H. destruct H as (r3 & E & H3).
  pose proof (prov6_release_ok _ _ _ _ _ _ E6) as A0. pose proof (prov6_release_keeps4 _ _ _ _ _ _ _ E6) as K0.
  assert (A2 : step_ok (other_than (s_id s)) r1 r2).
  { eapply rel_item_ok with (x := oitem (s_b6 s)). destruct (s_b6 s); exact H2. }
  assert (F2 : frame F6 r1 r2).
  { destruct (s_b6 s); [eapply release_ip_frame; exact H2|destruct H2 as [<-|[]]; apply frame_refl]. }
  assert (A3 : step_ok (other_than (s_id s)) r2 r3) by (eapply rel_item_ok; exact H3).
  assert (F3 : frame FD r2 r3).
  { destruct (s_bd s); [eapply release_ip_frame; exact H3|destruct H3 as [<-|[]]; apply frame_refl]. }
  assert (A03 : step_ok (other_than (s_id s)) (st_reg st) r3).
  { eapply step_ok_trans; [exact A0|]. eapply step_ok_trans; eauto. }
  destruct (s_b4 s) as [b|] eqn:Eb.
  - inversion E; subst; clear E.
    apply inv_update with (s := s);
      [exact Hinv|exact Hin|reflexivity|exact A03| |apply ipoe_told_ok; exact Hp].
    intros _. apply ipoe_sess_ok; cbn; [exact Hp| |apply oo_none|apply oo_none].
    intros y Hy. apply F3; [discriminate|]. apply F2; [discriminate|]. apply K0. apply OT; exact Hy.
  - destruct (prov_release Repaired (with_p6 (st_prov st) q1) r3 (s_mac s) (s_id s)) as [pr2 r4] eqn:Ep.
    inversion E; subst; clear E. apply dead_inv; auto.
    eapply step_ok_trans; [exact A03|]. eapply prov_release_ok; exact Ep.
Qed.

(* ---------------------------------------------------------------- restart *)
Lemma reserve_first_ok f x vrf sid r r' y :
  reg_ok r -> reserve_first Repaired f x vrf sid r = (r', y) ->
  step_ok anyone r r' /\ (forall i, y = Some i -> owns r' f vrf i sid /\ x = Some i).
Proof.
  intros Hok. unfold reserve_first. destruct x as [i|].
  2:{ intros H; inversion H; subst. split; [apply step_ok_refl|intros; discriminate]. }
  change (d8 Repaired) with false. destruct (reserve_cont Repaired f i vrf sid r) as [|[r1 ok] cs] eqn:E.
  - intros H; inversion H; subst. split; [apply step_ok_refl|intros; discriminate].
  - assert (Hc : In (r1, ok) (reserve_cont Repaired f i vrf sid r)) by (rewrite E; left; reflexivity).
    destruct (reserve_cont_ok _ _ _ _ _ _ _ Hok Hc) as [A B].
    rewrite orb_false_r. intros H; inversion H; subst. split; [exact A|].
    intros j Hj. destruct ok; [|discriminate]. inversion Hj; subst. split; auto.
Qed.

Lemma restore_one_ok st0 r done s r' done' :
  rinv r -> Forall (sess_ok r) done -> Forall told_ok done -> told_ok s ->
  restore_one Repaired st0 (r, done) s = (r', done') ->
  rinv r' /\ Forall (sess_ok r') done' /\ Forall told_ok done' /\ map s_id done' = map s_id done ++ [s_id s].
Proof.
  intros Hr Hd Ht Hts. unfold restore_one.
  destruct (if s_ppp s then None else passoc (s_id s) st0) as [im|].
  2:{ intros H; inversion H; subst. split; [exact Hr|split; [|split]].
      - apply Forall_app. split; [exact Hd|constructor; [|constructor]].
        destruct (s_started s); [intros Hl; cbn in Hl; discriminate|].
        intros _. cbn. repeat split; try (intros _; repeat split); apply oo_none.
      - apply Forall_app. split; [exact Ht|constructor; [|constructor]].
        destruct (s_started s); [exact Hts|]. intros _. cbn. split; [discriminate|left; reflexivity].
      - rewrite map_app. destruct (s_started s); reflexivity. }
  destruct (reserve_first Repaired F4 (oitem (s_b4 im)) (s_vrf im) (s_id s) r) as [r1 b4] eqn:E1.
  destruct (reserve_first Repaired F6 (oitem (s_b6 im)) (s_vrf im) (s_id s) r1) as [r2 b6] eqn:E2.
  destruct (reserve_first Repaired FD (s_bd im) (s_vrf im) (s_id s) r2) as [r3 bd] eqn:E3.
  intros H; inversion H; subst; clear H.
  destruct (reserve_first_ok _ _ _ _ _ _ _ (proj1 Hr) E1) as [A1 B1].
  destruct (rinv_step _ _ _ Hr A1) as [Hr1 P1].
  destruct (reserve_first_ok _ _ _ _ _ _ _ (proj1 Hr1) E2) as [A2 B2].
  destruct (rinv_step _ _ _ Hr1 A2) as [Hr2 P2].
  destruct (reserve_first_ok _ _ _ _ _ _ _ (proj1 Hr2) E3) as [A3 B3].
  destruct (rinv_step _ _ _ Hr2 A3) as [Hr3 P3].
  split; [exact Hr3|split; [|split]].
  - apply Forall_app. split.
    + eapply Forall_impl; [|exact Hd]. intros t Hto.
      eapply sess_ok_pres with (P := anyone); [exact P3|exact I|].
      eapply sess_ok_pres with (P := anyone); [exact P2|exact I|].
      eapply sess_ok_pres with (P := anyone); [exact P1|exact I|exact Hto].
    + constructor; [|constructor]. apply ipoe_sess_ok; cbn; [reflexivity| | |].
      * apply oo_oaddr.
        -- intros j Hj. destruct (B1 j Hj) as [_ Hx]. eapply oitem_kind; exact Hx.
        -- intros j Hj. apply P3; [exact I|]. apply P2; [exact I|]. apply B1; exact Hj.
      * apply oo_oaddr.
        -- intros j Hj. destruct (B2 j Hj) as [_ Hx]. eapply oitem_kind; exact Hx.
        -- intros j Hj. apply P3; [exact I|]. apply B2; exact Hj.
      * intros j Hj. apply B3; exact Hj.
  - apply Forall_app. split; [exact Ht|constructor; [apply ipoe_told_ok; reflexivity|constructor]].
  - rewrite map_app. reflexivity.
Qed.

Lemma restore_fold_ok st0 l : forall r done r' done',
  rinv r -> Forall (sess_ok r) done -> Forall told_ok done -> Forall told_ok l ->
  fold_left (restore_one Repaired st0) l (r, done) = (r', done') ->
  rinv r' /\ Forall (sess_ok r') done' /\ Forall told_ok done' /\ map s_id done' = map s_id done ++ map s_id l.
Proof.
  induction l as [|s l IH]; cbn [fold_left map]; intros r done r' done' Hr Hd Ht Htl H.
  - inversion H; subst. rewrite app_nil_r. auto.
  - inversion Htl as [|? ? Hts Htl']; subst.
    destruct (restore_one Repaired st0 (r, done) s) as [r1 d1] eqn:E.
    destruct (restore_one_ok _ _ _ _ _ _ Hr Hd Ht Hts E) as (A & B & C & D).
    destruct (IH _ _ _ _ A B C Htl' H) as (A' & B' & C' & D').
    split; [exact A'|split; [exact B'|split; [exact C'|]]]. rewrite D', D, <- app_assoc. reflexivity.
Qed.

Lemma reset_shape r : same_shape r (mkReg (map reset_pool (pools r)) []).
Proof. unfold same_shape; simpl. rewrite map_map. apply map_ext. reflexivity. Qed.

Lemma step_restart_inv st st' o : inv st -> In (st', o) (step_restart Repaired st) -> inv st'.
Proof.
  intros (Hr & Hnd & Hs & Ht). unfold step_restart.
  destruct (fold_left (restore_one Repaired (store (st_prov st))) (st_sess st)
              (mkReg (map reset_pool (pools (st_reg st))) [], [])) as [r' ss] eqn:E.
  intros [H|[]]; inversion H; subst; clear H.
  assert (Hr0 : rinv (mkReg (map reset_pool (pools (st_reg st))) [])).
  { destruct Hr as [[Hn Hw] HK]. split; [split|].
    - simpl. rewrite map_map. exact Hn.
    - simpl. apply Forall_forall. intros p' Hp'. apply in_map_iff in Hp'. destruct Hp' as (p & <- & Hp).
      eapply K_reset; eauto.
    - eapply K_shape; [apply reset_shape|exact HK]. }
  destruct (restore_fold_ok _ _ _ _ _ _ Hr0 (Forall_nil _) (Forall_nil _) Ht E) as (A & B & C & D).
  unfold inv; cbn [st_reg st_sess]. repeat split; auto; try apply A. rewrite D. exact Hnd.
Qed.

(* ---------------------------------------------------------------- PPPoE: DHCPv6 over PPP *)
Lemma resolve6_ok s r r' c6 cd res :
  rinv r -> In (r', c6, cd, res) (resolve6 Repaired s r) ->
  step_ok anyone r r' /\
  (forall a6 ad k6 kd, res = Some (a6, ad, k6, kd) ->
     oo r' (s_vrf s) (s_id s) F6 (oitem a6) /\ oo r' (s_vrf s) (s_id s) FD ad).
Proof.
  intros Hr. unfold resolve6. destruct (s_prof6 s) as [pf|].
  2:{ intros [E|[]]; inversion E; subst. split; [apply step_ok_refl|intros; discriminate]. }
  unfold bindl. intros H. apply in_flat_map in H. destruct H as ([[[r1 a6] k6] ok6] & Hc & H).
  destruct (acquire_ok F6 _ _ _ _ _ _ _ _ _ _ Hr (fun _ i Hi => oitem_kind _ _ Hi) Hc) as (A & B & C).
  destruct (rinv_step _ _ _ Hr A) as [Hr1 Hp1].
  destruct ok6; cbn [negb] in H.
  2:{ destruct H as [E|[]]; inversion E; subst. split; [exact A|intros; discriminate]. }
  apply in_map_iff in H. destruct H as ([[[r2 ad] kd] okd] & E & Hcd).
  destruct (acquire_ok FD _ _ _ _ _ _ _ _ _ _ Hr1 (fun Hn => not_fd_fd _ Hn) Hcd) as (A2 & B2 & _).
  destruct (rinv_step _ _ _ Hr1 A2) as [Hr2 Hp2].
  assert (A12 : step_ok anyone r r2) by (eapply step_ok_trans; eauto).
  destruct okd; cbn [negb] in E.
  2:{ inversion E; subst. split; [exact A12|intros; discriminate]. }
  assert (O6 : oo r2 (s_vrf s) (s_id s) F6 (oitem (oaddr a6))).
  { apply oo_pres with (P := anyone) (r := r1); [exact Hp2|exact I|].
    apply oo_oaddr; [apply C; discriminate|apply B; reflexivity]. }
  assert (OD : oo r2 (s_vrf s) (s_id s) FD ad) by (intros y Hy; apply B2; auto).
  destruct a6 as [i6|]; [|destruct ad as [id'|]]; inversion E; subst; (split; [exact A12|]);
    intros a6' ad' k6' kd' Hres; inversion Hres; subst; auto.
Qed.

Lemma ppp_sess_ok r s' :
  oo r (s_vrf s') (s_id s') F4 (oitem (s_a4 s')) -> oo r (s_vrf s') (s_id s') F6 (oitem (s_a6 s')) ->
  oo r (s_vrf s') (s_id s') FD (s_ad s') -> oo r (s_vrf s') (s_id s') F4 (oitem (s_told s')) ->
  oo r (s_vrf s') (s_id s') F6 (oitem (s_b6 s')) -> oo r (s_vrf s') (s_id s') FD (s_bd s') -> sess_ok r s'.
Proof. intros A B C D E F _. repeat split; auto. Qed.

Lemma step_ps_inv st s isreq st' o :
  inv st -> In s (st_sess st) -> s_live s = true -> In (st', o) (step_ps Repaired st s isreq) -> inv st'.
Proof.
  intros Hinv Hin Hl. pose proof Hinv as (Hr & _). destruct (inv_sess _ _ Hinv Hin) as [Hs Ht].
  unfold step_ps. intros H. apply in_map_iff in H. destruct H as ([[[r2 c6] cd] res] & E & Hc).
  destruct (resolve6_ok _ _ _ _ _ _ Hr Hc) as [A B]. destruct (rinv_step _ _ _ Hr A) as [Hr2 Hp2].
  assert (Hs2 : sess_ok r2 s) by (eapply sess_ok_pres with (P := anyone); [exact Hp2|exact I|exact Hs]).
  destruct (Hs2 Hl) as (X & OT & O6 & OD).
  assert (Hfin : forall x a6' ad' pr',
            oo r2 (s_vrf s) (s_id s) F6 (oitem a6') -> oo r2 (s_vrf s) (s_id s) FD ad' ->
            (s_ppp s = true -> oo r2 (s_vrf s) (s_id s) F4 (oitem (s_a4 s))) ->
            inv (mkState r2 (put_sess (with_x s x a6' ad') (st_sess st)) pr')).
  { intros x a6' ad' pr' Y6 YD Y4.
    apply inv_update with (s := s); [exact Hinv|exact Hin|reflexivity|apply anyone_other; exact A| |exact Ht].
    intros _ _. cbn. split; [intros Hp; repeat split; auto|repeat split; auto]. }
  assert (Y4 : s_ppp s = true -> oo r2 (s_vrf s) (s_id s) F4 (oitem (s_a4 s))) by (intros Hp; apply (X Hp)).
  assert (Yk6 : s_ppp s = true -> oo r2 (s_vrf s) (s_id s) F6 (oitem (s_a6 s))) by (intros Hp; apply (X Hp)).
  assert (Ykd : s_ppp s = true -> oo r2 (s_vrf s) (s_id s) FD (s_ad s)) by (intros Hp; apply (X Hp)).
  destruct (s_ppp s) eqn:Ep.
  2:{ (* not a PPPoE session: the recorded fields are not constrained *)
      destruct res as [[[[a6 ad] k6] kd]|]; [destruct (prov6_resolved _ _ _ _ _ _ _ _) as [q' [|]]; [destruct isreq|]|];
        inversion E; subst;
        (apply inv_update with (s := s); [exact Hinv|exact Hin|reflexivity|apply anyone_other; exact A| |exact Ht]);
        intros _ _; cbn; (split; [intros Hp; rewrite Ep in Hp; discriminate|repeat split; auto]). }
  destruct res as [[[[a6 ad] k6] kd]|].
  - destruct (B _ _ _ _ eq_refl) as [N6 ND].
    destruct (prov6_resolved _ _ _ _ _ _ _ _) as [q' [|]]; [destruct isreq|]; inversion E; subst; apply Hfin; auto.
  - inversion E; subst. apply Hfin; auto.
Qed.

Lemma step_pr_inv st s st' o :
  inv st -> In s (st_sess st) -> s_live s = true -> In (st', o) (step_pr Repaired st s) -> inv st'.
Proof.
  intros Hinv Hin Hl. pose proof Hinv as (Hr & _). destruct (inv_sess _ _ Hinv Hin) as [Hs Ht].
  unfold step_pr, bindl. intros H. apply in_flat_map in H. destruct H as ([[[r2 c6] cd] res] & Hc & H).
  destruct (resolve6_ok _ _ _ _ _ _ Hr Hc) as [A _]. destruct (rinv_step _ _ _ Hr A) as [Hr2 Hp2].
  assert (Hs2 : sess_ok r2 s) by (eapply sess_ok_pres with (P := anyone); [exact Hp2|exact I|exact Hs]).
  destruct (Hs2 Hl) as (X & OT & _ & _).
  destruct (prov6_release Repaired (p6 (st_prov st)) r2 (s_mac s) (s_id s)) as [q1 r3] eqn:E6.
  apply in_flat_map in H. destruct H as (r4 & H4 & H). apply in_map_iff in H. destruct H as (r5 & E & H5).
  pose proof (prov6_release_ok _ _ _ _ _ _ E6) as A3. pose proof (prov6_release_keeps4 _ _ _ _ _ _ _ E6) as K3.
  assert (A4 : step_ok (other_than (s_id s)) r3 r4).
  { eapply rel_item_ok with (x := oitem (s_a6 s)). destruct (s_a6 s); exact H4. }
  assert (F4' : frame F6 r3 r4).
  { destruct (s_a6 s); [eapply release_ip_frame; exact H4|destruct H4 as [<-|[]]; apply frame_refl]. }
  assert (A5 : step_ok (other_than (s_id s)) r4 r5) by (eapply rel_item_ok; exact H5).
  assert (F5 : frame FD r4 r5).
  { destruct (s_ad s); [eapply release_ip_frame; exact H5|destruct H5 as [<-|[]]; apply frame_refl]. }
  assert (A05 : step_ok (other_than (s_id s)) (st_reg st) r5).
  { eapply step_ok_trans; [apply anyone_other; exact A|]. eapply step_ok_trans; [exact A3|].
    eapply step_ok_trans; eauto. }
  assert (Keep : forall y, oo r2 (s_vrf s) (s_id s) F4 y -> oo r5 (s_vrf s) (s_id s) F4 y).
  { intros y Ho z Hz. apply F5; [discriminate|]. apply F4'; [discriminate|]. apply K3. apply Ho; exact Hz. }
  inversion E; subst; clear E.
  apply inv_update with (s := s); [exact Hinv|exact Hin|reflexivity|exact A05| |exact Ht].
  intros _ _. cbn. split; [intros Hp; destruct (X Hp) as (X4 & _); repeat split; auto using oo_none|].
  repeat split; auto using oo_none.
Qed.

(* a registry change on behalf of a session that has ended *)
Lemma inv_reg_dead st s r' pr' :
  inv st -> In s (st_sess st) -> s_live s = false -> step_ok (other_than (s_id s)) (st_reg st) r' ->
  inv (mkState r' (st_sess st) pr').
Proof.
  intros (Hr & Hnd & Hs & Ht) Hin Hl Hstep. destruct (rinv_step _ _ _ Hr Hstep) as [Hr' Hp].
  unfold inv; cbn [st_reg st_sess]. split; [exact Hr'|split; [exact Hnd|split; [|exact Ht]]].
  apply Forall_forall. intros t Hti. destruct (N.eq_dec (s_id t) (s_id s)) as [E|Hn].
  - assert (t = s) by (eapply nodup_map_inj; eauto). subst t. intros Hl'. congruence.
  - eapply sess_ok_pres; [exact Hp|exact Hn|eapply Forall_forall in Hs; eauto].
Qed.

(* a registry change on behalf of an id that no local session has *)
Lemma inv_reg_step st r' pr' sid :
  inv st -> find_sess sid st = None -> step_ok (other_than sid) (st_reg st) r' ->
  inv (mkState r' (st_sess st) pr').
Proof.
  intros (Hr & Hnd & Hs & Ht) Hf Hstep. destruct (rinv_step _ _ _ Hr Hstep) as [Hr' Hp].
  unfold inv; cbn [st_reg st_sess]. split; [exact Hr'|split; [exact Hnd|split; [|exact Ht]]].
  apply Forall_forall. intros t Hti. eapply sess_ok_pres; [exact Hp| |eapply Forall_forall in Hs; eauto].
  unfold other_than. intros E. unfold find_sess in Hf. pose proof (find_none _ _ Hf t Hti) as H.
  cbv beta in H. rewrite E, N.eqb_refl in H. discriminate.
Qed.

(* ---------------------------------------------------------------- every step, every history *)
Lemma step_inv st o st' ot : inv st -> In (st', ot) (step Repaired st o) -> inv st'.
Proof.
  intros Hinv. unfold step, skip.
  destruct o as [sid vrf s4 s6 spd o4 o6 od|sid a|sid|isreq bind rq sid vrf s4 o4|isreq sid vrf s6 spd o6 od|sid|sid| |sid|sid|sid|sid vrf s4 o4 s6 spd o6 od|sid|hf key hx sid|hf key hx sid|isreq sid|sid|sid];
    try (apply step_restart_inv; exact Hinv);
    destruct (find_sess sid st) as [s|] eqn:Ef;
    try (intros [E|[]]; inversion E; subst; exact Hinv);
    try destruct (find_sess_in _ _ _ Ef) as [Hin Hid].
  - destruct (s_ppp s && s_live s); [apply step_pa_inv; auto|].
    intros [E|[]]; inversion E; subst; exact Hinv.
  - destruct (s_ppp s) eqn:Ep; cbn [andb]; [|intros [E|[]]; inversion E; subst; exact Hinv].
    destruct (s_live s && s_started s && negb (s_ipcp s)); [apply step_pi_inv; auto|].
    intros [E|[]]; inversion E; subst; exact Hinv.
  - destruct (s_ppp s); [apply step_pt_inv; auto|intros [E|[]]; inversion E; subst; exact Hinv].
  - destruct (s_ppp s) eqn:Ep; cbn [negb andb]; [intros [E|[]]; inversion E; subst; exact Hinv|].
    destruct (s_live s) eqn:El; [|intros [E|[]]; inversion E; subst; exact Hinv].
    unfold step_id. apply step_id_core_inv with (s := s); auto. apply id_ctx_of; auto.
  - destruct (s_ppp s) eqn:Ep; cbn [negb andb]; [intros [E|[]]; inversion E; subst; exact Hinv|].
    destruct (s_live s) eqn:El; [|intros [E|[]]; inversion E; subst; exact Hinv].
    unfold step_is. apply step_is_core_inv with (s := s); auto. apply mark_duid_ctx. apply is_ctx_of; auto.
  - destruct (s_ppp s) eqn:Ep; cbn [negb andb]; [intros [E|[]]; inversion E; subst; exact Hinv|].
    destruct (s_live s) eqn:El; [|intros [E|[]]; inversion E; subst; exact Hinv].
    destruct (v6bound s); [apply step_rel4p_inv; auto|apply step_rel_inv; auto].
  - destruct (s_ppp s) eqn:Ep; cbn [negb andb]; [intros [E|[]]; inversion E; subst; exact Hinv|].
    destruct (s_live s) eqn:El; [|intros [E|[]]; inversion E; subst; exact Hinv].
    apply step_rel6_inv; auto.
  - destruct (negb (s_ppp s) && s_live s); [apply step_rel_inv; auto|intros [E|[]]; inversion E; subst; exact Hinv].
  - destruct (negb (s_ppp s)); intros [E|[]]; inversion E; subst; exact Hinv.
  - destruct (negb (s_ppp s)); [|intros [E|[]]; inversion E; subst; exact Hinv].
    intros [E|[]]; inversion E; subst.
    apply inv_update with (s := s); auto.
    + apply step_ok_refl.
    + intros _. destruct Hinv as (_ & _ & Hs & _). eapply Forall_forall in Hs; [|exact Hin]. exact Hs.
    + destruct Hinv as (_ & _ & _ & Ht). eapply Forall_forall in Ht; [|exact Hin]. exact Ht.
  - destruct (negb (s_ppp s) && s_live s && negb (s_started s)); [|intros [E|[]]; inversion E; subst; exact Hinv].
    intros [E|[]]; inversion E; subst.
    apply inv_update with (s := s); auto.
    + apply step_ok_refl.
    + intros _ _. unfold ic_ctx; cbn [s_ppp s_told s_b6 s_bd s_vrf s_id oitem].
      split; [intros X; discriminate|]. repeat split; apply oo_none.
    + unfold told_ok, ic_ctx; cbn [s_ppp]. intros X; discriminate.
  - destruct (negb (s_ppp s) && s_live s); [apply step_rel_inv; auto|intros [E|[]]; inversion E; subst; exact Hinv].
  - intros H. apply in_map_iff in H. destruct H as ([r' ok] & E & Hc). inversion E; subst.
    destruct Hinv as [[Hok Hk] Hrest]. eapply inv_reg_step; [split; [split|]; eauto|exact Ef|].
    eapply step_ok_weaken; [|eapply reserve_named_ok; eauto]. intros; exact I.
  - intros H. apply in_map_iff in H. destruct H as (r' & E & Hc). inversion E; subst.
    eapply inv_reg_step; [exact Hinv|exact Ef|]. eapply release_named_ok; exact Hc.
  - destruct (s_ppp s); cbn [andb]; [|intros [E|[]]; inversion E; subst; exact Hinv].
    destruct (s_live s) eqn:El; cbn [andb]; [|intros [E|[]]; inversion E; subst; exact Hinv].
    destruct (s_started s); [apply step_ps_inv; auto|intros [E|[]]; inversion E; subst; exact Hinv].
  - destruct (s_ppp s); cbn [andb]; [|intros [E|[]]; inversion E; subst; exact Hinv].
    destruct (s_live s) eqn:El; cbn [andb]; [|intros [E|[]]; inversion E; subst; exact Hinv].
    destruct (s_started s); [apply step_pr_inv; auto|intros [E|[]]; inversion E; subst; exact Hinv].
  - destruct (s_ppp s); cbn [andb]; [|intros [E|[]]; inversion E; subst; exact Hinv].
    destruct (s_live s) eqn:El; cbn [negb andb]; [intros [E|[]]; inversion E; subst; exact Hinv|].
    destruct (x_du (s_x s)); [|intros [E|[]]; inversion E; subst; exact Hinv].
    destruct (prov6_release Repaired (p6 (st_prov st)) (st_reg st) (s_mac s) (s_id s)) as [q1 r1] eqn:E6.
    intros [E|[]]; inversion E; subst. eapply inv_reg_dead; [exact Hinv|exact Hin|exact El|].
    eapply prov6_release_ok; exact E6.
Qed.

Lemma reach_inv st0 st : inv st0 -> reach Repaired st0 st -> inv st.
Proof. intros H0 Hr. induction Hr; [exact H0|]. eapply step_inv; eauto. Qed.


Lemma reach_rinv st0 st : inv st0 -> reach Repaired st0 st -> rinv (st_reg st).
Proof. intros H0 Hr. apply (reach_inv _ _ H0 Hr). Qed.

End Invariant.

(* ---------------------------------------------------------------- the property theorems *)
Definition fresh_sess (s : sess) : Prop :=
  s_a4 s = None /\ s_a6 s = None /\ s_ad s = None /\ s_told s = None /\ s_b6 s = None /\ s_bd s = None /\
  s_b4 s = None.

Lemma fresh_new id ppp p4 p6 mac : fresh_sess (new_sess id ppp p4 p6 mac).
Proof. repeat split. Qed.

Lemma init_inv (K : reg -> Prop) ps ss :
  NoDup (map pool_id ps) -> Forall pool_wf ps -> K (mkReg ps []) ->
  NoDup (map s_id ss) -> Forall fresh_sess ss -> inv K (init_state ps ss).
Proof.
  intros Hnd Hwf HK Hns Hfr. unfold inv, init_state; cbn [st_reg st_sess].
  split; [split; [split; assumption|exact HK]|split; [exact Hns|split]].
  - apply Forall_forall. intros s Hs. eapply Forall_forall in Hfr; eauto.
    destruct Hfr as (A & B & C & D & E & F & _). intros _.
    rewrite A, B, C, D, E, F. cbn. repeat split; try (intros _; repeat split); apply oo_none.
  - apply Forall_forall. intros s Hs. eapply Forall_forall in Hfr; eauto.
    destruct Hfr as (A & _ & _ & D & _). intros _. rewrite A, D. split; [discriminate|left; reflexivity].
Qed.

Lemma holds_owned (K : reg -> Prop) st s f x :
  inv K st -> In s (st_sess st) -> holds s f = Some x -> owns (st_reg st) f (s_vrf s) x (s_id s).
Proof.
  intros Hinv Hin Hh. destruct (inv_sess K _ _ Hinv Hin) as [Hs _]. unfold holds in Hh.
  destruct (s_live s) eqn:El; [|discriminate]. destruct (Hs El) as (A & B & C & D).
  destruct (s_ppp s) eqn:Ep.
  - destruct (A eq_refl) as (A1 & A2 & A3). destruct f; [apply A1|apply A2|apply A3]; exact Hh.
  - destruct f; [apply B|apply C|apply D]; exact Hh.
Qed.

(* every pool is well-formed again after a reset to its initial contents (restart) *)
Definition resettable (r : reg) : Prop := forall p, In p (pools r) -> pool_wf (reset_pool p).
Lemma reset_is_new p : reset_pool p = new_pool (p_fam p) (p_key p) (p_prof p) (p_vrf p) (p_geom p).
Proof. reflexivity. Qed.
Lemma resettable_shape r r' : same_shape r r' -> resettable r -> resettable r'.
Proof.
  intros Hs Hr p' Hin. destruct (same_shape_in _ _ _ Hs Hin) as (p & Hp & E). specialize (Hr p Hp).
  assert (Eg : p_geom p' = p_geom p) by (unfold psig in E; congruence).
  rewrite reset_is_new in *. unfold pool_wf, valid_slot, lease_of, new_pool in *. cbn in *. rewrite Eg. exact Hr.
Qed.
Definition K1 (r : reg) : Prop := kinds_ok r /\ resettable r.
Lemma K1_shape r r' : same_shape r r' -> K1 r -> K1 r'.
Proof. intros Hs [A B]. split; [eapply kinds_ok_shape|eapply resettable_shape]; eauto. Qed.
Definition Kd (r : reg) : Prop := K1 r /\ pools_disjoint r.
Lemma Kd_shape r r' : same_shape r r' -> Kd r -> Kd r'.
Proof. intros Hs [A B]. split; [eapply K1_shape|eapply pools_disjoint_shape]; eauto. Qed.


Lemma told_is_recorded_all ps ss st :
  NoDup (map pool_id ps) -> Forall pool_wf ps -> kinds_ok (mkReg ps []) -> resettable (mkReg ps []) ->
  NoDup (map s_id ss) -> Forall fresh_sess ss ->
  reach Repaired (init_state ps ss) st ->
  forall s, In s (st_sess st) ->
    (forall f x, holds s f = Some x -> owns (st_reg st) f (s_vrf s) x (s_id s)) /\
    (s_ppp s = true ->
       (s_a4 s = None \/ s_a4 s = s_told s) /\
       (s_live s = true -> forall t, s_told s = Some t -> owns (st_reg st) F4 (s_vrf s) (t, 0) (s_id s))).
Proof.
  intros Hnd Hwf Hk Hrs Hns Hfr Hreach s Hin.
  assert (Hinv : inv K1 st).
  { eapply (reach_inv K1 K1_shape (fun r H => proj1 H) (fun r H => proj2 H)); [|exact Hreach].
    apply init_inv; auto. split; auto. }
  split.
  - intros f x. apply (holds_owned K1); auto.
  - intros Hp. destruct (inv_sess K1 _ _ Hinv Hin) as [Hs Ht]. split; [apply Ht; exact Hp|].
    intros Hl t Htold. destruct (Hs Hl) as (_ & B & _). apply B. rewrite Htold. reflexivity.
Qed.

Lemma unique_all ps ss st :
  NoDup (map pool_id ps) -> Forall pool_wf ps -> kinds_ok (mkReg ps []) -> resettable (mkReg ps []) ->
  pools_disjoint (mkReg ps []) ->
  NoDup (map s_id ss) -> Forall fresh_sess ss ->
  reach Repaired (init_state ps ss) st ->
  forall s1 s2 f x, In s1 (st_sess st) -> In s2 (st_sess st) -> s_vrf s1 = s_vrf s2 ->
    holds s1 f = Some x -> holds s2 f = Some x -> s1 = s2.
Proof.
  intros Hnd Hwf Hk Hrs Hd Hns Hfr Hreach s1 s2 f x H1 H2 Hv Hh1 Hh2.
  assert (Hinv : inv Kd st).
  { eapply (reach_inv Kd Kd_shape (fun r H => proj1 (proj1 H)) (fun r H => proj2 (proj1 H))); [|exact Hreach].
    apply init_inv; auto. split; [split|]; auto. }
  pose proof Hinv as ((Hok & _ & Hdis) & Hids & _).
  pose proof (holds_owned Kd _ _ _ _ Hinv H1 Hh1) as O1.
  pose proof (holds_owned Kd _ _ _ _ Hinv H2 Hh2) as O2.
  rewrite Hv in O1. pose proof (owns_functional _ _ _ _ _ _ Hok Hdis O1 O2) as Hid.
  eapply nodup_map_inj; eauto.
Qed.

Lemma run_first_reach v st0 ops : forall st, reach v st0 st -> reach v st0 (run_first v st ops).
Proof.
  induction ops as [|o r IH]; simpl; intros st Hr; auto.
  destruct (step v st o) as [|[st' ot] cs] eqn:E; auto.
  apply IH. eapply reach_step; [exact Hr|]. rewrite E. left; reflexivity.
Qed.

Lemma range_resettable ps :
  (forall p, In p ps -> exists lo hi ex, p_geom p = GRange lo hi ex) -> resettable (mkReg ps []).
Proof.
  intros H p Hin. destruct (H p Hin) as (lo & hi & ex & E). rewrite reset_is_new, E. apply new_pool_wf_range.
Qed.

(* ================================================================== IPoE: the recorded address is the told one *)
(* For an IPoE session: whenever an IPv4 address is recorded (sess.IPv4, set by handleAck), it is the address of
   the last OFFER/ACK and the address the allocation context carries.  Holds for sessions and for their images. *)
Definition recI (s : sess) : Prop := s_b4 s = None \/ (s_b4 s = s_told s /\ s_a4 s = s_b4 s).
Definition rec_ok (s : sess) : Prop := s_ppp s = false -> recI s.
Definition img_ok (e : N * sess) : Prop := recI (snd e).
Definition rec_inv (st : state) : Prop := Forall rec_ok (st_sess st) /\ Forall img_ok (store (st_prov st)).

Lemma put_sess_forall (P : sess -> Prop) s' l : Forall P l -> P s' -> Forall P (put_sess s' l).
Proof.
  intros Hl Hs. unfold put_sess. apply Forall_forall. intros t Ht. apply in_map_iff in Ht.
  destruct Ht as (t0 & <- & Ht0). destruct (s_id t0 =? s_id s'); auto. eapply Forall_forall in Hl; eauto.
Qed.
Lemma punassoc_forall {A} (P : N * A -> Prop) k l : Forall P l -> Forall P (punassoc k l).
Proof.
  induction 1 as [|[a b] r Hh Hr IH]; simpl; [constructor|]. destruct (a =? k); auto.
Qed.
Lemma rec_put st s' r' pr' :
  rec_inv st -> rec_ok s' -> Forall img_ok (store pr') -> rec_inv (mkState r' (put_sess s' (st_sess st)) pr').
Proof. intros [A B] Hs Hst. split; [apply put_sess_forall; auto|exact Hst]. Qed.
Lemma store_ckpt_ok pr s : Forall img_ok (store pr) -> recI s -> Forall img_ok (store (ckpt pr s)).
Proof. intros H Hs. unfold ckpt; cbn [store]. constructor; [exact Hs|apply punassoc_forall; exact H]. Qed.
Lemma store_unckpt_ok pr k : Forall img_ok (store pr) -> Forall img_ok (store (unckpt pr k)).
Proof. intros H. apply punassoc_forall; exact H. Qed.
Lemma prov_reserve_store v pr r ip mac sid pool pr' r' ok :
  prov_reserve v pr r ip mac sid pool = (pr', r', ok) -> store pr' = store pr.
Proof.
  unfold prov_reserve, prov_new. destruct (assoc ip (by_ip pr)); [|intros H; inversion H; reflexivity].
  destruct (lassoc n (objs pr)) as [l|]; [|intros H; inversion H; reflexivity].
  destruct (l_mac l =? mac); [intros H; inversion H; reflexivity|].
  destruct (l_exp l); intros H; inversion H; reflexivity.
Qed.
Lemma prov_release_store v pr r mac s pr' r' : prov_release v pr r mac s = (pr', r') -> store pr' = store pr.
Proof.
  unfold prov_release. destruct (assoc mac (by_mac pr)); [|intros H; inversion H; reflexivity].
  destruct (lassoc n (objs pr)); intros H; inversion H; reflexivity.
Qed.
Lemma acquire_cur v f prof ov vrf sid i r r1 a pk ok :
  In (r1, a, pk, ok) (acquire v f prof ov vrf sid (Some i) r) -> a = Some i.
Proof.
  unfold acquire. intros H. apply in_map_iff in H. destruct H as ([r' ok'] & E & _). inversion E; reflexivity.
Qed.

Lemma step_id_core_rec st s0 isreq bind rq st' o :
  rec_inv st -> rec_ok s0 -> s_ppp s0 = false ->
  In (st', o) (step_id_core Repaired st s0 isreq bind rq) -> rec_inv st'.
Proof.
  intros Hinv H0 Hp. pose proof Hinv as [_ Hst]. unfold step_id_core.
  destruct (s_prof4 s0); [|rewrite id_nil_repaired; intros [E|[]]; inversion E; subst; apply rec_put; auto].
  unfold bindl. intros H. apply in_flat_map in H. destruct H as ([[[r1 a4] pk] ok] & Hc & H).
  rewrite id_nil_repaired in H. cbv zeta in H.
  assert (Ha : forall x, s_b4 s0 = Some x -> oaddr a4 = Some x).
  { intros x Hx. destruct (H0 Hp) as [E|[_ E]]; [congruence|]. rewrite Hx in E.
    rewrite E in Hc. change (oitem (Some x)) with (Some (addr_item x)) in Hc.
    apply acquire_cur in Hc. subst a4. reflexivity. }
  assert (Hkeep : forall a, a = oaddr a4 -> recI
            (mkSess (s_id s0) false (s_prof4 s0) (s_prof6 s0) (s_mac s0) true true (s_vrf s0) (s_ov4 s0)
                    (s_ov6 s0) (s_ovd s0) a (s_a6 s0) (s_ad s0) None None (s_told s0) (s_ipcp s0)
                    (s_b4 s0) (s_b6 s0) (s_bd s0) (s_x s0))).
  { intros a ->. unfold recI; cbn. destruct (s_b4 s0) as [y|] eqn:Eb; [|left; reflexivity]. right.
    destruct (H0 Hp) as [E|[E1 E2]]; [congruence|]. split; [congruence|]. rewrite (Ha y eq_refl). reflexivity. }
  revert H. destruct (if ok then oaddr a4 else None) as [x|] eqn:Ex.
  - destruct (prov_reserve Repaired (st_prov st) r1 x (s_mac s0) (s_id s0) pk) as [[pr' r2] okp] eqn:Epr.
    pose proof (prov_reserve_store _ _ _ _ _ _ _ _ _ _ Epr) as Es.
    assert (Hx : oaddr a4 = Some x) by (destruct ok; [exact Ex|discriminate]).
    destruct okp; intros [E|[]]; inversion E; subst; clear E.
    + set (s2 := mkSess _ _ _ _ _ _ _ _ _ _ _ _ _ _ _ _ _ _ _ _ _ _).
      assert (R2 : recI s2).
      { subst s2. unfold recI; cbn. destruct bind; [right; split; [reflexivity|exact Hx]|].
        destruct (s_b4 s0) as [y|] eqn:Eb; [|left; reflexivity]. right.
        pose proof (Ha y eq_refl) as Hy. rewrite Hx in Hy. inversion Hy; subst. split; [reflexivity|exact Hx]. }
      apply rec_put; [exact Hinv|intros _; exact R2|].
      destruct bind; [apply store_ckpt_ok; [rewrite Es|]; auto|rewrite Es; auto].
    + apply rec_put; [exact Hinv|intros _; apply Hkeep; reflexivity|rewrite Es; exact Hst].
  - intros [E|[]]; inversion E; subst; clear E.
    apply rec_put; [exact Hinv|intros _; apply Hkeep; reflexivity|exact Hst].
Qed.

Lemma is_mk_rec s0 a b c d : recI s0 -> recI (is_mk s0 a b c d).
Proof. intros H. exact H. Qed.

Lemma step_is_core_rec st s0 isreq st' o :
  rec_inv st -> recI s0 -> s_ppp s0 = false ->
  In (st', o) (step_is_core Repaired st s0 isreq) -> rec_inv st'.
Proof.
  intros Hinv H0 Hp. pose proof Hinv as [_ Hst]. unfold step_is_core.
  assert (Hfin : forall a b c d r' pr', Forall img_ok (store pr') ->
            rec_inv (mkState r' (put_sess (is_mk s0 a b c d) (st_sess st)) pr')).
  { intros. apply rec_put; auto. intros _. apply is_mk_rec; exact H0. }
  assert (Hfin0 : forall r', rec_inv (mkState r' (put_sess s0 (st_sess st)) (st_prov st))).
  { intros. apply rec_put; auto. intros _; exact H0. }
  destruct (s_prof6 s0); [|intros [E|[]]; inversion E; subst; apply Hfin0].
  unfold bindl. intros H. apply in_flat_map in H. destruct H as ([[[r1 a6] k6] ok6] & Hc & H).
  destruct ok6; cbn [negb] in H; [|destruct H as [E|[]]; inversion E; subst; apply Hfin0].
  apply in_flat_map in H. destruct H as ([[[r2 ad] kd] okd] & Hcd & H).
  destruct okd; cbn [negb] in H; [|destruct H as [E|[]]; inversion E; subst; apply Hfin; exact Hst].
  destruct a6 as [i6|]; [|destruct ad as [i7|]]; cbv beta iota zeta in H;
    try (destruct (prov6_resolved _ _ _ _ _ _ _ _) as [q' [|]]);
    try (destruct isreq);
    destruct H as [E|[]]; inversion E; subst; apply Hfin; auto;
    try (apply store_ckpt_ok; [exact Hst|apply is_mk_rec; exact H0]).
Qed.

Lemma reserve_first_val v f x vrf sid r r' y : reserve_first v f x vrf sid r = (r', y) -> y = None \/ y = x.
Proof.
  unfold reserve_first. destruct x as [i|]; [|intros H; inversion H; auto].
  destruct (reserve_cont v f i vrf sid r) as [|[r1 ok] cs]; intros H; inversion H; subst.
  - destruct (d8 v); auto.
  - destruct (ok || d8 v); auto.
Qed.

Lemma passoc_in {A} k (l : list (N * A)) a : passoc k l = Some a -> In (k, a) l.
Proof.
  induction l as [|[x y] r IH]; simpl; [discriminate|]. destruct (x =? k) eqn:E.
  - apply N.eqb_eq in E; subst. intros H; inversion H; auto.
  - intros H; right; auto.
Qed.

Lemma restore_one_rec v st0 r done s r2 done2 :
  Forall img_ok st0 -> Forall rec_ok done -> rec_ok s ->
  restore_one v st0 (r, done) s = (r2, done2) -> Forall rec_ok done2.
Proof.
  intros Hst Hd Hs. unfold restore_one.
  destruct (if s_ppp s then None else passoc (s_id s) st0) as [im|] eqn:Eim.
  2:{ intros H; inversion H; subst. apply Forall_app. split; [exact Hd|constructor; [|constructor]].
      destruct (s_started s); [exact Hs|]. intros _. left; reflexivity. }
  destruct (reserve_first v F4 (oitem (s_b4 im)) (s_vrf im) (s_id s) r) as [r1 b4] eqn:E1.
  destruct (reserve_first v F6 (oitem (s_b6 im)) (s_vrf im) (s_id s) r1) as [r3 b6] eqn:E2.
  destruct (reserve_first v FD (s_bd im) (s_vrf im) (s_id s) r3) as [r4 bd] eqn:E3.
  intros H; inversion H; subst; clear H.
  apply Forall_app. split; [exact Hd|constructor; [|constructor]].
  intros _. unfold recI; cbn.
  destruct (reserve_first_val _ _ _ _ _ _ _ _ E1) as [-> | ->]; [left; reflexivity|].
  destruct (s_b4 im) as [z|] eqn:Eb; [|left; reflexivity]. right. cbn. split; [reflexivity|].
  assert (Hi : img_ok (s_id s, im)).
  { destruct (s_ppp s); [discriminate|]. eapply Forall_forall in Hst; [exact Hst|]. apply passoc_in; exact Eim. }
  destruct Hi as [E|[_ E]]; cbn in *; congruence.
Qed.

Lemma restore_fold_rec v st0 l : forall r done r2 done2,
  Forall img_ok st0 -> Forall rec_ok done -> Forall rec_ok l ->
  fold_left (restore_one v st0) l (r, done) = (r2, done2) -> Forall rec_ok done2.
Proof.
  induction l as [|s l IH]; cbn [fold_left]; intros r done r2 done2 Hst Hd Hl H.
  - inversion H; subst; exact Hd.
  - inversion Hl as [|? ? Hs Hl2]; subst.
    destruct (restore_one v st0 (r, done) s) as [r1 d1] eqn:E.
    eapply IH; [exact Hst| |exact Hl2|exact H].
    eapply restore_one_rec; [exact Hst|exact Hd|exact Hs|exact E].
Qed.

Lemma rec_ppp s' : s_ppp s' = true -> rec_ok s'.
Proof. intros H H'. congruence. Qed.

Lemma step_rec st o st' ot : rec_inv st -> In (st', ot) (step Repaired st o) -> rec_inv st'.
Proof.
  intros Hinv. pose proof Hinv as [Hss Hst]. unfold step, skip.
  assert (Hfind : forall sid s, find_sess sid st = Some s -> rec_ok s).
  { intros sid s Hf. unfold find_sess in Hf. apply find_in in Hf. destruct Hf as [Hf _].
    eapply Forall_forall in Hss; eauto. }
  destruct o as [sid vrf s4 s6 spd o4 o6 od|sid a|sid|isreq bind rq sid vrf s4 o4|isreq sid vrf s6 spd o6 od|sid|sid| |sid|sid|sid|sid vrf s4 o4 s6 spd o6 od|sid|hf key hx sid|hf key hx sid|isreq sid|sid|sid].
  8:{ unfold step_restart.
      destruct (fold_left (restore_one Repaired (store (st_prov st))) (st_sess st)
                  (mkReg (map reset_pool (pools (st_reg st))) [], [])) as [r2 ss] eqn:E.
      intros [H|[]]; inversion H; subst. split; cbn [st_sess st_prov store].
      - eapply restore_fold_rec; [exact Hst|constructor|exact Hss|exact E].
      - exact Hst. }
  all: destruct (find_sess sid st) as [s|] eqn:Ef; try (intros [E|[]]; inversion E; subst; exact Hinv);
       try pose proof (Hfind _ _ Ef) as Hs.
  - destruct (s_ppp s && s_live s); [|intros [E|[]]; inversion E; subst; exact Hinv].
    unfold step_pa, bindl. intros H.
    apply in_flat_map in H. destruct H as ([[[r1 a4] p4] ok4] & _ & H).
    apply in_flat_map in H. destruct H as ([[[r2 a6] p6] ok6] & _ & H).
    apply in_map_iff in H. destruct H as ([r3 ad] & E & _). inversion E; subst.
    apply rec_put; auto. apply rec_ppp; reflexivity.
  - destruct (s_ppp s && s_live s && s_started s && negb (s_ipcp s)); [|intros [E|[]]; inversion E; subst; exact Hinv].
    unfold step_pi, pi_res. destruct (s_told s) as [t|]; [destruct a as [x|]|];
      try destruct (negb (t =? 0) && negb (x =? t)); try destruct (x =? 0);
      intros [E|[]]; inversion E; subst; apply rec_put; auto; apply rec_ppp; reflexivity.
  - destruct (s_ppp s); [|intros [E|[]]; inversion E; subst; exact Hinv].
    unfold step_pt, bindl. intros H.
    apply in_flat_map in H. destruct H as (r1 & _ & H). apply in_flat_map in H. destruct H as (r2 & _ & H).
    apply in_map_iff in H. destruct H as (r3 & E & _). inversion E; subst. apply rec_put; auto.
  - destruct (s_ppp s) eqn:Ep; cbn [negb andb]; [intros [E|[]]; inversion E; subst; exact Hinv|].
    destruct (s_live s); [|intros [E|[]]; inversion E; subst; exact Hinv].
    unfold step_id. apply step_id_core_rec; auto.
    + unfold id_ctx. destruct (s_started s); [exact Hs|]. intros _. left; reflexivity.
    + unfold id_ctx. destruct (s_started s); [exact Ep|reflexivity].
  - destruct (s_ppp s) eqn:Ep; cbn [negb andb]; [intros [E|[]]; inversion E; subst; exact Hinv|].
    destruct (s_live s); [|intros [E|[]]; inversion E; subst; exact Hinv].
    unfold step_is. apply step_is_core_rec; auto.
    + unfold mark_duid, is_ctx. destruct isreq; destruct (s_started s); try (exact (Hs Ep)); left; reflexivity.
    + unfold mark_duid, is_ctx. destruct isreq; destruct (s_started s); auto.
  - destruct (s_ppp s) eqn:Ep; cbn [negb andb]; [intros [E|[]]; inversion E; subst; exact Hinv|].
    destruct (s_live s); [|intros [E|[]]; inversion E; subst; exact Hinv].
    destruct (v6bound s).
    + unfold step_rel4p. intros H. apply in_map_iff in H. destruct H as (r1 & E & _).
      destruct (prov_release Repaired (st_prov st) r1 (s_mac s) (s_id s)) as [pr2 r2] eqn:Epr.
      inversion E; subst. pose proof (prov_release_store _ _ _ _ _ _ _ Epr) as Es.
      apply rec_put; [exact Hinv|intros _; left; reflexivity|].
      apply store_ckpt_ok; [rewrite Es; exact Hst|left; reflexivity].
    + unfold step_rel, bindl. intros H. apply in_flat_map in H. destruct H as (r1 & _ & H).
      destruct (prov_release Repaired (st_prov st) r1 (s_mac s) (s_id s)) as [pr2 r2] eqn:Epr.
      apply in_flat_map in H. destruct H as (r3 & _ & H). apply in_map_iff in H. destruct H as (r4 & E & _).
      destruct (if s_ipcp s then prov6_release Repaired (p6 pr2) r4 (s_mac s) (s_id s) else (p6 pr2, r4)) as [q2 r5].
      inversion E; subst. pose proof (prov_release_store _ _ _ _ _ _ _ Epr) as Es.
      apply rec_put; auto. apply store_unckpt_ok. cbn [store with_p6]. rewrite Es; exact Hst.
  - destruct (s_ppp s) eqn:Ep; cbn [negb andb]; [intros [E|[]]; inversion E; subst; exact Hinv|].
    destruct (s_live s); [|intros [E|[]]; inversion E; subst; exact Hinv].
    unfold step_rel6.
    destruct (prov6_release Repaired (p6 (st_prov st)) (st_reg st) (s_mac s) (s_id s)) as [q1 r1].
    unfold bindl. intros H. apply in_flat_map in H. destruct H as (r2 & _ & H).
    apply in_map_iff in H. destruct H as (r3 & E & _).
    destruct (s_b4 s) eqn:Eb.
    + inversion E; subst.
      assert (R : recI (drop6 s)).
      { unfold recI; cbn. rewrite Eb. destruct (Hs Ep) as [X|X]; [congruence|right; rewrite <- Eb; exact X]. }
      apply rec_put; [exact Hinv|intros _; exact R|]. apply store_ckpt_ok; [exact Hst|exact R].
    + destruct (prov_release Repaired (with_p6 (st_prov st) q1) r3 (s_mac s) (s_id s)) as [pr2 r4] eqn:Epr.
      inversion E; subst. pose proof (prov_release_store _ _ _ _ _ _ _ Epr) as Es.
      apply rec_put; auto. apply store_unckpt_ok. rewrite Es. exact Hst.
  - destruct (negb (s_ppp s) && s_live s); [|intros [E|[]]; inversion E; subst; exact Hinv].
    unfold step_rel, bindl. intros H. apply in_flat_map in H. destruct H as (r1 & _ & H).
    cbv iota beta in H.
    apply in_flat_map in H. destruct H as (r3 & _ & H). apply in_map_iff in H. destruct H as (r4 & E & _).
    inversion E; subst. apply rec_put; auto. apply store_unckpt_ok. exact Hst.
  - destruct (negb (s_ppp s)); intros [E|[]]; inversion E; subst; try exact Hinv.
    split; [exact Hss|]. unfold prov_age. cbn [st_prov].
    destruct (assoc (s_mac s) (by_mac (st_prov st))); [|exact Hst].
    destruct (lassoc n (objs (st_prov st))); exact Hst.
  - destruct (negb (s_ppp s)); intros [E|[]]; inversion E; subst; try exact Hinv.
    apply rec_put; [exact Hinv| |exact Hst]. exact Hs.
  - destruct (negb (s_ppp s) && s_live s && negb (s_started s)); intros [E|[]]; inversion E; subst; try exact Hinv.
    apply rec_put; [exact Hinv| |exact Hst]. intros _. left. reflexivity.
  - destruct (negb (s_ppp s) && s_live s); [|intros [E|[]]; inversion E; subst; exact Hinv].
    unfold step_rel, bindl. intros H. apply in_flat_map in H. destruct H as (r1 & _ & H).
    destruct (prov_release Repaired (st_prov st) r1 (s_mac s) (s_id s)) as [pr2 r2] eqn:Epr.
    apply in_flat_map in H. destruct H as (r3 & _ & H). apply in_map_iff in H. destruct H as (r4 & E & _).
    inversion E; subst. pose proof (prov_release_store _ _ _ _ _ _ _ Epr) as Es.
    apply rec_put; auto. apply store_unckpt_ok. cbn [store with_p6]. rewrite Es; exact Hst.
  - intros H. apply in_map_iff in H. destruct H as (c & E & _). inversion E; subst. split; [exact Hss|exact Hst].
  - intros H. apply in_map_iff in H. destruct H as (c & E & _). inversion E; subst. split; [exact Hss|exact Hst].
  - destruct (s_ppp s) eqn:Ep; cbn [andb]; [|intros [E|[]]; inversion E; subst; exact Hinv].
    destruct (s_live s && s_started s); [|intros [E|[]]; inversion E; subst; exact Hinv].
    unfold step_ps. intros H. apply in_map_iff in H. destruct H as ([[[r2 c6] cd] res] & E & _).
    destruct res as [[[[a6 ad] k6] kd]|]; [destruct (prov6_resolved _ _ _ _ _ _ _ _) as [q' [|]]; [destruct isreq|]|];
      inversion E; subst; (apply rec_put; [exact Hinv|apply rec_ppp; exact Ep|exact Hst]).
  - destruct (s_ppp s) eqn:Ep; cbn [andb]; [|intros [E|[]]; inversion E; subst; exact Hinv].
    destruct (s_live s && s_started s); [|intros [E|[]]; inversion E; subst; exact Hinv].
    unfold step_pr, bindl. intros H. apply in_flat_map in H. destruct H as ([[[r2 c6] cd] res] & _ & H).
    destruct (prov6_release Repaired (p6 (st_prov st)) r2 (s_mac s) (s_id s)) as [q1 r3].
    apply in_flat_map in H. destruct H as (r4 & _ & H). apply in_map_iff in H. destruct H as (r5 & E & _).
    inversion E; subst. apply rec_put; [exact Hinv|apply rec_ppp; exact Ep|exact Hst].
  - destruct (s_ppp s && negb (s_live s) && x_du (s_x s)); [|intros [E|[]]; inversion E; subst; exact Hinv].
    destruct (prov6_release Repaired (p6 (st_prov st)) (st_reg st) (s_mac s) (s_id s)) as [q1 r1].
    intros [E|[]]; inversion E; subst. split; [exact Hss|exact Hst].
Qed.

Lemma reach_rec st0 st : rec_inv st0 -> reach Repaired st0 st -> rec_inv st.
Proof. intros H0 Hr. induction Hr; [exact H0|]. eapply step_rec; eauto. Qed.

Lemma ipoe_recorded_is_told ps ss st :
  Forall fresh_sess ss -> reach Repaired (init_state ps ss) st ->
  forall s, In s (st_sess st) -> s_ppp s = false ->
    s_b4 s = None \/ (s_b4 s = s_told s /\ s_a4 s = s_b4 s).
Proof.
  intros Hfr Hreach s Hin Hp.
  assert (H0 : rec_inv (init_state ps ss)).
  { split; [|constructor]. cbn. eapply Forall_impl; [|exact Hfr].
    intros t (_ & _ & _ & _ & _ & _ & G) _. left; exact G. }
  destruct (reach_rec _ _ H0 Hreach) as [Hss _]. eapply Forall_forall in Hss; [|exact Hin]. exact (Hss Hp).
Qed.

(* ================================================================== the code at /repo HEAD *)
(* A history is benign when, at every step, the variant HEAD implements has exactly the successors of the
   Repaired model (same states, same outputs): none of the recorded triggers fires at that step.  The trigger
   lemmas below say what the recorded known findings are at the level of the primitives: outside them the two
   variants coincide. *)
Inductive reach_benign (st0 : state) : state -> Prop :=
| rb_init : reach_benign st0 st0
| rb_step st o st' ot : reach_benign st0 st -> step Head st o = step Repaired st o ->
                        In (st', ot) (step Head st o) -> reach_benign st0 st'.

Lemma reach_benign_repaired st0 st : reach_benign st0 st -> reach Repaired st0 st.
Proof.
  induction 1 as [|st o st' ot Hr IH He Hin]; [constructor|].
  eapply reach_step; [exact IH|]. rewrite <- He. exact Hin.
Qed.

(* known finding "release-frees-foreign-lease": the only difference is a release of a slot leased to somebody else *)
Lemma trigger_release p sl s :
  (forall o, lease_of p sl = Some o -> o = s) -> pool_release Head p sl s = pool_release Repaired p sl s.
Proof.
  intros H. unfold pool_release. destruct (lease_of p sl) as [o|] eqn:E; [|reflexivity].
  rewrite (H o eq_refl). unfold owner_ok, Head, Repaired; cbn. rewrite N.eqb_refl. reflexivity.
Qed.

(* known findings "static-outside-pools-untracked" and "reserve-ignores-vrf": the only differences are an address
   that lies in no pool, or in a pool of another VRF *)
Lemma trigger_reserve f x vrf s r :
  (exists p, In p (fam_pools f r) /\ contains p x = true) ->
  (forall p, In p (fam_pools f r) -> contains p x = true -> p_vrf p = vrf) ->
  reserve_cont Head f x vrf s r = reserve_cont Repaired f x vrf s r.
Proof.
  intros (p0 & Hin0 & Hc0) Hv. unfold reserve_cont.
  change (d9 Head) with true. change (d9 Repaired) with false. cbn [orb].
  assert (E : filter (fun p => contains p x && true) (fam_pools f r) =
              filter (fun p => contains p x && (p_vrf p =? vrf)) (fam_pools f r)).
  { apply filter_ext_in. intros p Hp. destruct (contains p x) eqn:Ec; [|reflexivity].
    rewrite (Hv p Hp Ec), N.eqb_refl. reflexivity. }
  rewrite <- E. destruct (filter (fun p => contains p x && true) (fam_pools f r)) as [|c cs] eqn:Ef; [|reflexivity].
  exfalso. pose proof (filter_nil_none _ _ Ef p0 Hin0) as H. cbv beta in H.
  rewrite Hc0 in H. discriminate.
Qed.

(* "dhcp4-unresolved-answered-from-lease-table" is fixed in /repo (d5fadd1): HEAD never answers an unresolved request *)
Lemma trigger_unresolved r pr s isreq rq : unresolved Head r pr s isreq rq = None.
Proof. reflexivity. Qed.

(* the AAA pool override matters only when it names a pool of another VRF *)
Lemma trigger_override f prof ov vrf s r :
  (forall k p, ov = Some k -> In p (fam_pools f r) -> p_key p = k -> p_vrf p = vrf) ->
  alloc_from_profile Head f prof ov vrf s r = alloc_from_profile Repaired f prof ov vrf s r.
Proof.
  intros H. unfold alloc_from_profile. destruct ov as [k|]; [|reflexivity].
  change (d9 Head) with true. change (d9 Repaired) with false. cbn [orb].
  assert (E : forall l, (forall p, In p l -> In p (fam_pools f r)) ->
              find (fun p => (p_prof p =? prof) && (p_key p =? k) && true) l =
              find (fun p => (p_prof p =? prof) && (p_key p =? k) && (p_vrf p =? vrf)) l).
  { induction l as [|p l IH]; intros Hl; [reflexivity|]. cbn [find].
    destruct ((p_prof p =? prof) && (p_key p =? k)) eqn:Ec; cbn [andb].
    - apply andb_true_iff in Ec. destruct Ec as [_ Ek]. apply N.eqb_eq in Ek.
      rewrite (H k p eq_refl (Hl p (or_introl eq_refl)) Ek), N.eqb_refl. reflexivity.
    - apply IH. intros q Hq. apply Hl. right; exact Hq. }
  rewrite (E _ (fun p Hp => Hp)). reflexivity.
Qed.

(* restore: "keeps a conflicting address" matters only when a re-reservation is refused *)
Lemma trigger_restore f x vrf sid r :
  reserve_cont Head f x vrf sid r = reserve_cont Repaired f x vrf sid r ->
  (forall r' ok cs, reserve_cont Repaired f x vrf sid r = (r', ok) :: cs -> ok = true) ->
  reserve_first Head f (Some x) vrf sid r = reserve_first Repaired f (Some x) vrf sid r.
Proof.
  intros E Hok. unfold reserve_first. rewrite E.
  destruct (reserve_cont Repaired f x vrf sid r) as [|[r' ok] cs] eqn:Ec.
  - (* no candidate: cannot happen (reserve_cont always answers), both keep nothing in Repaired only *)
    exfalso. unfold reserve_cont in Ec.
    destruct (filter _ (fam_pools f r)) as [|c cs']; [|discriminate].
    change (d5 Repaired) with false in Ec. cbv iota in Ec.
    destruct (pd_conflict Repaired f x vrf sid r); [discriminate|].
    destruct (sassoc (f, vrf, x) (statics r)); discriminate.
  - rewrite (Hok _ _ _ eq_refl). reflexivity.
Qed.

Lemma head_told_is_recorded ps ss st :
  NoDup (map pool_id ps) -> Forall pool_wf ps -> kinds_ok (mkReg ps []) -> resettable (mkReg ps []) ->
  NoDup (map s_id ss) -> Forall fresh_sess ss ->
  reach_benign (init_state ps ss) st ->
  forall s, In s (st_sess st) ->
    (forall f x, holds s f = Some x -> owns (st_reg st) f (s_vrf s) x (s_id s)) /\
    (s_ppp s = true ->
       (s_a4 s = None \/ s_a4 s = s_told s) /\
       (s_live s = true -> forall t, s_told s = Some t -> owns (st_reg st) F4 (s_vrf s) (t, 0) (s_id s))) /\
    (s_ppp s = false -> s_b4 s = None \/ (s_b4 s = s_told s /\ s_a4 s = s_b4 s)).
Proof.
  intros Hnd Hwf Hk Hrs Hns Hfr Hb s Hin. apply reach_benign_repaired in Hb.
  destruct (told_is_recorded_all _ _ _ Hnd Hwf Hk Hrs Hns Hfr Hb s Hin) as [A B].
  split; [exact A|split; [exact B|]]. intros Hp. eapply ipoe_recorded_is_told; eauto.
Qed.

Lemma head_unique ps ss st :
  NoDup (map pool_id ps) -> Forall pool_wf ps -> kinds_ok (mkReg ps []) -> resettable (mkReg ps []) ->
  pools_disjoint (mkReg ps []) ->
  NoDup (map s_id ss) -> Forall fresh_sess ss ->
  reach_benign (init_state ps ss) st ->
  forall s1 s2 f x, In s1 (st_sess st) -> In s2 (st_sess st) -> s_vrf s1 = s_vrf s2 ->
    holds s1 f = Some x -> holds s2 f = Some x -> s1 = s2.
Proof.
  intros Hnd Hwf Hk Hrs Hd Hns Hfr Hb. apply reach_benign_repaired in Hb. eapply unique_all; eauto.
Qed.

(* ================================================================== delegated prefixes: no overlap *)
(* two prefixes overlap when, cut to the shorter length, they are the same block *)
Definition overlap (x y : item) : Prop :=
  let l := N.min (snd x) (snd y) in fst x / 2 ^ (128 - l) = fst y / 2 ^ (128 - l).

(* a well-formed PD pool geometry: aligned base, the pool network fits below 2^128, at most 2^64 prefixes *)
Definition pd_geom_wf (g : geom) : Prop :=
  match g with
  | GPfx base plen count shift =>
      shift = 128 - plen /\ plen <= 128 /\ base mod 2 ^ shift = 0 /\
      base + count * 2 ^ shift <= two128 /\ count <= two64
  | GRange _ _ _ => False
  end.

Lemma pd_slot_char base plen count shift a i :
  pd_geom_wf (GPfx base plen count shift) -> a < two128 ->
  slot_of (GPfx base plen count shift) (a, plen) = Some i ->
  base <= a /\ a / 2 ^ shift = base / 2 ^ shift + i /\ i < count.
Proof.
  intros (Hs & Hp & Hal & Hfit & Hc) Ha. unfold slot_of. cbn [fst snd]. rewrite N.eqb_refl.
  set (c := 2 ^ shift) in *. assert (Hc0 : c <> 0) by (apply N.pow_nonzero; discriminate).
  destruct ((a + two128 - base) mod two128 <? count * c) eqn:E1; [|discriminate].
  apply N.ltb_lt in E1.
  assert (Hba : base <= a).
  { destruct (N.le_gt_cases base a) as [H|H]; [exact H|]. exfalso.
    rewrite N.mod_small in E1 by lia. lia. }
  assert (Hd : (a + two128 - base) mod two128 = a - base).
  { replace (a + two128 - base) with ((a - base) + 1 * two128) by lia.
    rewrite N.mod_add by (unfold two128; discriminate). apply N.mod_small. lia. }
  rewrite Hd in *.
  destruct (((a - base) / c) mod two64 <? count) eqn:E2; [|discriminate].
  intros H; inversion H; subst i; clear H.
  assert (Hq : (a - base) / c < count).
  { apply N.div_lt_upper_bound; [exact Hc0|]. lia. }
  rewrite N.mod_small by lia.
  split; [exact Hba|split; [|exact Hq]].
  apply N.div_exact in Hal; [|exact Hc0].
  replace a with ((a - base) + (base / c) * c) at 1 by lia.
  rewrite N.div_add by exact Hc0. lia.
Qed.

Lemma pd_same_pool_no_overlap base plen count shift a1 a2 i j :
  pd_geom_wf (GPfx base plen count shift) -> a1 < two128 -> a2 < two128 ->
  slot_of (GPfx base plen count shift) (a1, plen) = Some i ->
  slot_of (GPfx base plen count shift) (a2, plen) = Some j ->
  overlap (a1, plen) (a2, plen) -> i = j.
Proof.
  intros Hg H1 H2 S1 S2 Ho. pose proof Hg as (Hs & _).
  destruct (pd_slot_char _ _ _ _ _ _ Hg H1 S1) as (_ & E1 & _).
  destruct (pd_slot_char _ _ _ _ _ _ Hg H2 S2) as (_ & E2 & _).
  unfold overlap in Ho. cbn [fst snd] in Ho. rewrite N.min_id, <- Hs in Ho. lia.
Qed.

Lemma pd_slot_len base plen count shift x i : slot_of (GPfx base plen count shift) x = Some i -> snd x = plen.
Proof. unfold slot_of. destruct (snd x =? plen) eqn:E; [intros _; apply N.eqb_eq; exact E|discriminate]. Qed.

(* configuration hypotheses for the PD statement *)
Definition pd_cfg (ps : list pool) : Prop := forall p, In p ps -> p_fam p = FD -> pd_geom_wf (p_geom p).
Definition pd_apart (ps : list pool) : Prop :=
  forall p q x y, In p ps -> In q ps -> p_fam p = FD -> p_fam q = FD -> p_vrf p = p_vrf q ->
                  pool_id p <> pool_id q -> contains p x = true -> contains q y = true -> ~ overlap x y.

Definition Ks (r0 : reg) (r : reg) : Prop := Kd r /\ same_shape r0 r.
Lemma Ks_shape r0 r r' : same_shape r r' -> Ks r0 r -> Ks r0 r'.
Proof.
  intros Hs [A B]. split; [eapply Kd_shape; eauto|]. unfold same_shape in *. congruence.
Qed.

Lemma pd_no_overlap_all ps ss st :
  NoDup (map pool_id ps) -> Forall pool_wf ps -> kinds_ok (mkReg ps []) -> resettable (mkReg ps []) ->
  pools_disjoint (mkReg ps []) -> pd_cfg ps -> pd_apart ps ->
  NoDup (map s_id ss) -> Forall fresh_sess ss ->
  reach Repaired (init_state ps ss) st ->
  forall s1 s2 x y, In s1 (st_sess st) -> In s2 (st_sess st) -> s_vrf s1 = s_vrf s2 ->
    holds s1 FD = Some x -> holds s2 FD = Some y ->
    (exists p, In p ps /\ p_fam p = FD /\ p_vrf p = s_vrf s1 /\ contains p x = true) ->
    (exists q, In q ps /\ p_fam q = FD /\ p_vrf q = s_vrf s2 /\ contains q y = true) ->
    fst x < two128 -> fst y < two128 ->
    overlap x y -> s1 = s2.
Proof.
  intros Hnd Hwf Hk Hrs Hd Hcfg Hap Hns Hfr Hreach s1 s2 x y H1 H2 Hv Hh1 Hh2 (p0 & Hp0 & Hf0 & Hv0 & Hc0)
         (q0 & Hq0 & Hg0 & Hw0 & Hd0) Hx Hy Ho.
  set (r0 := mkReg ps []).
  assert (Hinv : inv (Ks r0) st).
  { eapply (reach_inv (Ks r0) (Ks_shape r0) (fun r H => proj1 (proj1 (proj1 H))) (fun r H => proj2 (proj1 (proj1 H))));
      [|exact Hreach]. apply init_inv; auto. split; [split; [split|]; auto|reflexivity]. }
  pose proof Hinv as (((Hnd' & _) & (_ & Hshape)) & Hids & _).
  pose proof (holds_owned (Ks r0) _ _ _ _ Hinv H1 Hh1) as O1.
  pose proof (holds_owned (Ks r0) _ _ _ _ Hinv H2 Hh2) as O2.
  (* back and forth between the configured pools and the pools of the reached state *)
  assert (Hback : forall p', In p' (pools (st_reg st)) -> exists p, In p ps /\ psig p = psig p').
  { intros p' Hp'. exact (same_shape_in r0 _ _ Hshape Hp'). }
  assert (Hfwd : forall p, In p ps -> exists p', In p' (pools (st_reg st)) /\ psig p' = psig p).
  { intros p Hp. assert (Hs' : same_shape (st_reg st) r0) by (apply same_shape_sym; exact Hshape).
    exact (same_shape_in _ _ _ Hs' Hp). }
  assert (L1 : exists p sl, In p (pools (st_reg st)) /\ p_fam p = FD /\ p_vrf p = s_vrf s1 /\
                            slot_of (p_geom p) x = Some sl /\ lease_of p sl = Some (s_id s1)).
  { destruct O1 as [L|[Hn _]]; [exact L|]. exfalso. destruct (Hfwd _ Hp0) as (p' & Hp' & E).
    assert (slot_of (p_geom p') x = None) by (apply Hn; auto; unfold psig in E; congruence).
    unfold contains in Hc0. replace (p_geom p0) with (p_geom p') in Hc0 by (unfold psig in E; congruence).
    rewrite H in Hc0. discriminate. }
  assert (L2 : exists p sl, In p (pools (st_reg st)) /\ p_fam p = FD /\ p_vrf p = s_vrf s2 /\
                            slot_of (p_geom p) y = Some sl /\ lease_of p sl = Some (s_id s2)).
  { destruct O2 as [L|[Hn _]]; [exact L|]. exfalso. destruct (Hfwd _ Hq0) as (p' & Hp' & E).
    assert (slot_of (p_geom p') y = None) by (apply Hn; auto; unfold psig in E; congruence).
    unfold contains in Hd0. replace (p_geom q0) with (p_geom p') in Hd0 by (unfold psig in E; congruence).
    rewrite H in Hd0. discriminate. }
  destruct L1 as (p1 & i & P1 & F1 & V1 & S1 & LL1). destruct L2 as (p2 & j & P2 & F2 & V2 & S2 & LL2).
  destruct (Hback _ P1) as (c1 & C1 & E1). destruct (Hback _ P2) as (c2 & C2 & E2).
  assert (Hid : s_id s1 = s_id s2).
  { destruct (N.eq_dec (p_key p1) (p_key p2)) as [Ek|Nk].
    - assert (p1 = p2) by (eapply nodup_id_eq; eauto; unfold pool_id; congruence). subst p2.
      assert (Hgw : pd_geom_wf (p_geom p1)).
      { replace (p_geom p1) with (p_geom c1) by (unfold psig in E1; congruence).
        apply Hcfg; auto. unfold psig in E1; congruence. }
      destruct (p_geom p1) as [|base plen count shift] eqn:Eg; [destruct Hgw|].
      pose proof (pd_slot_len _ _ _ _ _ _ S1) as Lx. pose proof (pd_slot_len _ _ _ _ _ _ S2) as Ly.
      destruct x as [a1 l1], y as [a2 l2]; cbn [fst snd] in *; subst l1 l2.
      assert (i = j) by exact (pd_same_pool_no_overlap base plen count shift a1 a2 i j Hgw Hx Hy S1 S2 Ho).
      subst j. congruence.
    - exfalso. eapply (Hap c1 c2 x y); eauto; try (unfold psig in *; congruence).
      + unfold pool_id. unfold psig in *. intros H. inversion H. congruence.
      + unfold contains. replace (p_geom c1) with (p_geom p1) by (unfold psig in E1; congruence). rewrite S1. reflexivity.
      + unfold contains. replace (p_geom c2) with (p_geom p2) by (unfold psig in E2; congruence). rewrite S2. reflexivity. }
  eapply nodup_map_inj; eauto.
Qed.

(* ---- PD pools with a well-formed geometry are well-formed pools (discharges pool_wf / resettable for PD) *)
Lemma slot_lt b p c s x sl : slot_of (GPfx b p c s) x = Some sl -> sl < c.
Proof.
  unfold slot_of. destruct (snd x =? p); [|discriminate].
  destruct (_ <? c * 2 ^ s); [|discriminate].
  destruct (_ <? c) eqn:E; [|discriminate]. intros H; inversion H; subst. apply N.ltb_lt; exact E.
Qed.

Lemma pd_roundtrip b p c s sl :
  pd_geom_wf (GPfx b p c s) -> sl < c -> slot_of (GPfx b p c s) (item_of (GPfx b p c s) sl) = Some sl.
Proof.
  intros (Hs & Hp & Hal & Hfit & Hc) Hl. unfold item_of, slot_of. cbn [fst snd]. rewrite N.eqb_refl.
  set (k := 2 ^ s) in *. assert (Hk : k <> 0) by (apply N.pow_nonzero; discriminate).
  assert (Hsm : b + sl * k < two128).
  { assert (sl * k < c * k) by (apply N.mul_lt_mono_pos_r; lia). lia. }
  rewrite (N.mod_small (b + sl * k)) by exact Hsm.
  replace (b + sl * k + two128 - b) with (sl * k + 1 * two128) by lia.
  rewrite N.mod_add by (unfold two128; discriminate).
  assert (Hlt : sl * k < c * k) by (apply N.mul_lt_mono_pos_r; lia).
  rewrite (N.mod_small (sl * k)) by lia.
  assert (E1 : (sl * k <? c * k) = true) by (apply N.ltb_lt; exact Hlt). rewrite E1.
  rewrite N.div_mul by exact Hk. rewrite N.mod_small by lia.
  assert (E2 : (sl <? c) = true) by (apply N.ltb_lt; exact Hl). rewrite E2. reflexivity.
Qed.

Lemma pd_geom_ok g : pd_geom_wf g -> geom_ok g.
Proof.
  destruct g as [|b p c s]; [intros []|]. intros Hg x sl H. apply pd_roundtrip; [exact Hg|].
  eapply slot_lt; exact H.
Qed.

Lemma new_pool_wf_pd f key prof vrf g : pd_geom_wf g -> pool_wf (new_pool f key prof vrf g).
Proof.
  intros Hg. pose proof (pd_geom_ok g Hg) as Hok. destruct g as [|b p c s]; [destruct Hg|].
  assert (Hseq : forall n a x, In x (nseq a n) -> a <= x < a + N.of_nat n).
  { induction n as [|n IH]; simpl; intros a x; [tauto|]. intros [<-|H]; [lia|]. apply IH in H. lia. }
  assert (Hnd : forall n a, NoDup (nseq a n)).
  { induction n as [|n IH]; simpl; intros a; constructor; auto. intros H. apply Hseq in H. lia. }
  unfold pool_wf, new_pool, valid_slot, lease_of; cbn [p_geom p_free p_leases init_free].
  split; [exact Hok|split; [apply Hnd|split; [reflexivity|split]]].
  - intros sl H. apply Hseq in H. apply pd_roundtrip; [exact Hg|]. lia.
  - simpl. discriminate.
Qed.

Lemma cfg_resettable ps :
  (forall p, In p ps -> (exists lo hi ex, p_geom p = GRange lo hi ex) \/ pd_geom_wf (p_geom p)) ->
  resettable (mkReg ps []) /\ (Forall (fun p => p = reset_pool p) ps -> Forall pool_wf ps).
Proof.
  intros H. assert (R : resettable (mkReg ps [])).
  { intros p Hin. rewrite reset_is_new. destruct (H p Hin) as [(lo & hi & ex & E)|Hg].
    - rewrite E. apply new_pool_wf_range.
    - apply new_pool_wf_pd; exact Hg. }
  split; [exact R|]. intros Hf. apply Forall_forall. intros p Hin.
  eapply Forall_forall in Hf; [|exact Hin]. rewrite Hf. apply R; exact Hin.
Qed.
