From OV Require Import Common.Base C02.Model.
