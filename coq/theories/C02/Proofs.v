(* C02/Proofs.v — ownership invariant of the Repaired model and its consequences. *)
From OV Require Import Common.Base C02.Model.
From Coq Require Import ZifyBool ZifyN.
Open Scope N_scope.

(* ------------------------------------------------------------------ association lists *)
Lemma assoc_setassoc_eq k v l : assoc k (setassoc k v l) = Some v.
Proof. unfold setassoc; simpl. rewrite N.eqb_refl. reflexivity. Qed.
Lemma assoc_unassoc_eq k l : assoc k (unassoc k l) = None.
Proof.
  induction l as [|[a b] r IH]; simpl; auto.
  destruct (a =? k) eqn:E; auto. simpl. rewrite E. exact IH.
Qed.
Lemma assoc_unassoc_neq k k' l : k <> k' -> assoc k' (unassoc k l) = assoc k' l.
Proof.
  intros Hn. induction l as [|[a b] r IH]; simpl; auto.
  destruct (a =? k) eqn:E.
  - apply N.eqb_eq in E. subst a. destruct (k =? k') eqn:E2; [apply N.eqb_eq in E2; contradiction|exact IH].
  - simpl. destruct (a =? k'); auto.
Qed.
Lemma assoc_setassoc_neq k k' v l : k <> k' -> assoc k' (setassoc k v l) = assoc k' l.
Proof.
  intros Hn. unfold setassoc; simpl.
  destruct (k =? k') eqn:E; [apply N.eqb_eq in E; contradiction|]. apply assoc_unassoc_neq; exact Hn.
Qed.

Lemma remove1_in x k l : In x (remove1 k l) -> In x l.
Proof.
  induction l as [|a r IH]; simpl; auto.
  destruct (a =? k); simpl; intuition.
Qed.
Lemma remove1_nodup k l : NoDup l -> NoDup (remove1 k l) /\ ~ In k (remove1 k l).
Proof.
  induction 1 as [|a r Hn Hd IH]; simpl.
  - split; [constructor|tauto].
  - destruct (a =? k) eqn:E.
    + apply N.eqb_eq in E; subst a. split; assumption.
    + destruct IH as [IH1 IH2]. split.
      * constructor; [|exact IH1]. intros Hin; apply Hn; eapply remove1_in; exact Hin.
      * simpl. intros [H|H]; [subst a; rewrite N.eqb_refl in E; discriminate|tauto].
Qed.

Lemma nodup_snoc (l : list N) a : NoDup l -> ~ In a l -> NoDup (l ++ [a]).
Proof.
  induction 1 as [|b r Hb Hr IH]; simpl; intros Hn.
  - constructor; [tauto|constructor].
  - constructor.
    + intros Hin. apply in_app_or in Hin. destruct Hin as [Hin|[Hin|[]]]; [contradiction|].
      subst. apply Hn. left; reflexivity.
    + apply IH. intros Hin; apply Hn; right; exact Hin.
Qed.

(* ------------------------------------------------------------------ pools *)
Definition geom_ok (g : geom) : Prop :=
  forall x sl, slot_of g x = Some sl -> slot_of g (item_of g sl) = Some sl.
Definition valid_slot (p : pool) (sl : N) : Prop :=
  slot_of (p_geom p) (item_of (p_geom p) sl) = Some sl.

Lemma geom_ok_range lo hi ex : geom_ok (GRange lo hi ex).
Proof.
  intros [a l] sl; simpl.
  destruct ((lo <=? a) && (a <=? hi)) eqn:E; [|discriminate].
  intros H; inversion H; subst sl. rewrite E. reflexivity.
Qed.

Definition pool_wf (p : pool) : Prop :=
  geom_ok (p_geom p) /\ NoDup (p_free p) /\
  (forall sl, In sl (p_free p) -> lease_of p sl = None) /\
  (forall sl, In sl (p_free p) -> valid_slot p sl) /\
  (forall sl s, lease_of p sl = Some s -> valid_slot p sl).

Lemma take_lease p sl s sl' :
  lease_of (pool_take p sl s) sl' = if sl =? sl' then Some s else lease_of p sl'.
Proof.
  unfold lease_of, pool_take, with_lf; cbn [p_leases].
  destruct (sl =? sl') eqn:E.
  - apply N.eqb_eq in E; subst. apply assoc_setassoc_eq.
  - apply assoc_setassoc_neq. intros ->. rewrite N.eqb_refl in E; discriminate.
Qed.

Lemma take_wf p sl s :
  pool_wf p -> lease_of p sl = None -> valid_slot p sl -> pool_wf (pool_take p sl s).
Proof.
  intros (Hg & Hnd & Hfl & Hfv & Hlv) Hnone Hval.
  destruct (remove1_nodup sl _ Hnd) as [Hnd' Hnin].
  unfold pool_wf, valid_slot in *. simpl p_geom. simpl p_free.
  repeat split; auto.
  - intros sl' Hin. rewrite take_lease.
    destruct (sl =? sl') eqn:E; [apply N.eqb_eq in E; subst; contradiction|].
    apply Hfl. eapply remove1_in; exact Hin.
  - intros sl' Hin. apply Hfv. eapply remove1_in; exact Hin.
  - intros sl' s'. rewrite take_lease. destruct (sl =? sl') eqn:E.
    + apply N.eqb_eq in E; subst. intros _. exact Hval.
    + apply Hlv.
Qed.

Lemma release_lease_other p sl s sl' t :
  lease_of p sl' = Some t -> t <> s -> lease_of (pool_release Repaired p sl s) sl' = Some t.
Proof.
  intros Hl Hn. unfold pool_release.
  destruct (lease_of p sl) as [o|] eqn:E; [|exact Hl].
  unfold owner_ok, Repaired; cbn [d2]. destruct (o =? s) eqn:Eo; [|exact Hl].
  apply N.eqb_eq in Eo; subst o.
  unfold lease_of; simpl.
  assert (sl <> sl') by (intros ->; rewrite Hl in E; inversion E; contradiction).
  rewrite assoc_unassoc_neq; auto.
Qed.

Lemma release_lease_sub v p sl s sl' t :
  lease_of (pool_release v p sl s) sl' = Some t -> lease_of p sl' = Some t.
Proof.
  unfold pool_release. destruct (lease_of p sl) as [o|] eqn:E; auto.
  destruct (owner_ok v o s); auto.
  unfold lease_of; simpl. destruct (N.eq_dec sl sl') as [->|Hn].
  - rewrite assoc_unassoc_eq. discriminate.
  - rewrite assoc_unassoc_neq; auto.
Qed.

Lemma release_wf v p sl s : pool_wf p -> pool_wf (pool_release v p sl s).
Proof.
  intros W. unfold pool_release.
  destruct (lease_of p sl) as [o|] eqn:E; auto.
  destruct (owner_ok v o s); auto.
  destruct W as (Hg & Hnd & Hfl & Hfv & Hlv).
  assert (Hnf : ~ In sl (p_free p)) by (intros Hin; rewrite (Hfl _ Hin) in E; discriminate).
  unfold pool_wf, valid_slot in *. simpl p_geom; simpl p_free.
  repeat split; auto.
  - apply nodup_snoc; auto.
  - intros sl' Hin. unfold lease_of; simpl. apply in_app_or in Hin. destruct Hin as [Hin|[<-|[]]].
    + assert (sl <> sl') by (intros ->; contradiction). rewrite assoc_unassoc_neq; auto. apply Hfl; auto.
    + apply assoc_unassoc_eq.
  - intros sl' Hin. apply in_app_or in Hin. destruct Hin as [Hin|[<-|[]]]; auto. eapply Hlv; exact E.
  - intros sl' s'. unfold lease_of; simpl. destruct (N.eq_dec sl sl') as [->|Hn].
    + rewrite assoc_unassoc_eq. discriminate.
    + rewrite assoc_unassoc_neq; auto. apply Hlv.
Qed.

(* ------------------------------------------------------------------ registry *)
Definition pool_id (p : pool) : fam * N := (p_fam p, p_key p).
Definition psig (p : pool) : fam * N * geom := (p_fam p, p_key p, p_geom p).

Lemma fam_eqb_spec a b : fam_eqb a b = true <-> a = b.
Proof. destruct a, b; simpl; split; intros H; try discriminate; auto. Qed.
Lemma same_pool_spec p q : same_pool p q = true <-> pool_id p = pool_id q.
Proof.
  unfold same_pool, pool_id. rewrite andb_true_iff, fam_eqb_spec, N.eqb_eq.
  split; [intros [-> ->]; reflexivity | intros H; inversion H; auto].
Qed.
Lemma psig_id p q : psig p = psig q -> pool_id p = pool_id q.
Proof. unfold psig, pool_id. intros H; inversion H; reflexivity. Qed.

Lemma nodup_id_eq (l : list pool) p q :
  NoDup (map pool_id l) -> In p l -> In q l -> pool_id p = pool_id q -> p = q.
Proof.
  induction l as [|a r IH]; simpl; [tauto|].
  intros Hn Hp Hq He. inversion Hn as [|? ? Hna Hnr]; subst.
  destruct Hp as [->|Hp], Hq as [->|Hq]; auto.
  - exfalso. apply Hna. rewrite He. apply in_map; exact Hq.
  - exfalso. apply Hna. rewrite <- He. apply in_map; exact Hp.
Qed.

Definition reg_ok (r : reg) : Prop := NoDup (map pool_id (pools r)) /\ Forall pool_wf (pools r).

Definition owns (r : reg) (f : fam) (vrf : N) (x : item) (s : N) : Prop :=
  (exists p sl, In p (pools r) /\ p_fam p = f /\ slot_of (p_geom p) x = Some sl /\ lease_of p sl = Some s)
  \/ ((forall p, In p (pools r) -> p_fam p = f -> slot_of (p_geom p) x = None) /\
      sassoc (f, vrf, x) (statics r) = Some s).

Definition same_shape (r r' : reg) : Prop := map psig (pools r') = map psig (pools r).
Definition pres (P : N -> Prop) (r r' : reg) : Prop :=
  forall t f v x, P t -> owns r f v x t -> owns r' f v x t.
Definition step_ok (P : N -> Prop) (r r' : reg) : Prop :=
  reg_ok r -> reg_ok r' /\ same_shape r r' /\ pres P r r'.

Lemma step_ok_refl P r : step_ok P r r.
Proof. intros H; repeat split; auto; try apply H. intros t f v x _ Ho; exact Ho. Qed.
Lemma step_ok_trans P r1 r2 r3 : step_ok P r1 r2 -> step_ok P r2 r3 -> step_ok P r1 r3.
Proof.
  intros H12 H23 Hok. destruct (H12 Hok) as (Hok2 & Hs2 & Hp2). destruct (H23 Hok2) as (Hok3 & Hs3 & Hp3).
  repeat split; try apply Hok3.
  - unfold same_shape in *. congruence.
  - intros t f v x Pt Ho. apply Hp3; auto.
Qed.
Lemma step_ok_weaken (P Q : N -> Prop) r r' : (forall t, Q t -> P t) -> step_ok P r r' -> step_ok Q r r'.
Proof.
  intros HPQ H Hok. destruct (H Hok) as (A & B & C). repeat split; try apply A; auto.
  intros t f v x Qt. apply C; auto.
Qed.

(* a pool-wise transformation that keeps signatures, well-formedness and the leases of sessions in P *)
Lemma map_pools_ok (P : N -> Prop) r (G : pool -> pool) :
  (reg_ok r -> forall q, In q (pools r) ->
     psig (G q) = psig q /\ pool_wf (G q) /\
     (forall sl t, P t -> lease_of q sl = Some t -> lease_of (G q) sl = Some t)) ->
  step_ok P r (mkReg (map G (pools r)) (statics r)).
Proof.
  intros HG Hok. specialize (HG Hok). destruct Hok as [Hnd Hwf].
  assert (Hsig : map psig (map G (pools r)) = map psig (pools r)).
  { rewrite map_map. apply map_ext_in. intros q Hq. apply HG; exact Hq. }
  split; [split|split].
  - simpl. assert (Hid : map pool_id (map G (pools r)) = map pool_id (pools r)).
    { rewrite map_map. apply map_ext_in. intros q Hq. apply psig_id. apply HG; exact Hq. }
    rewrite Hid. exact Hnd.
  - simpl. apply Forall_forall. intros q' Hq'. apply in_map_iff in Hq'. destruct Hq' as (q & <- & Hq).
    apply HG; exact Hq.
  - exact Hsig.
  - intros t f v x Pt [ (p & sl & Hin & Hf & Hs & Hl) | [Hnone Hst] ].
    + left. exists (G p), sl. destruct (HG p Hin) as (Hsg & _ & Hls).
      unfold psig in Hsg. inversion Hsg as [[Hf' Hk' Hg']].
      repeat split; simpl.
      * apply in_map; exact Hin.
      * congruence.
      * rewrite Hg'. exact Hs.
      * apply Hls; auto.
    + right. split; [|exact Hst]. simpl. intros p' Hin' Hf'.
      apply in_map_iff in Hin'. destruct Hin' as (q & <- & Hq).
      destruct (HG q Hq) as (Hsg & _ & _). unfold psig in Hsg. inversion Hsg as [[Hf2 Hk2 Hg2]].
      rewrite Hg2. apply Hnone; auto. congruence.
Qed.

Lemma upd_pool_ok (P : N -> Prop) r p p' :
  In p (pools r) -> psig p' = psig p -> (pool_wf p -> pool_wf p') ->
  (forall sl t, P t -> lease_of p sl = Some t -> lease_of p' sl = Some t) ->
  step_ok P r (upd_pool r p').
Proof.
  intros Hin Hsig Hwf Hls. unfold upd_pool. apply map_pools_ok.
  intros [Hnd HF] q Hq. destruct (same_pool q p') eqn:E.
  - apply same_pool_spec in E. assert (q = p).
    { eapply nodup_id_eq; eauto. rewrite E. apply psig_id; exact Hsig. }
    subst q. split; [exact Hsig|split].
    + apply Hwf. eapply Forall_forall in HF; eauto.
    + exact Hls.
  - split; [reflexivity|split].
    + eapply Forall_forall in HF; eauto.
    + intros sl t _ Hl; exact Hl.
Qed.

Lemma upd_pool_in r p p' : In p (pools r) -> psig p' = psig p -> In p' (pools (upd_pool r p')).
Proof.
  intros Hin Hsig. unfold upd_pool; simpl. apply in_map_iff. exists p. split; auto.
  assert (same_pool p p' = true) by (apply same_pool_spec; symmetry; apply psig_id; exact Hsig).
  rewrite H. reflexivity.
Qed.

Lemma fam_pools_in f r p : In p (fam_pools f r) -> In p (pools r) /\ p_fam p = f.
Proof.
  unfold fam_pools. intros H. apply filter_In in H. destruct H as [H1 H2].
  apply fam_eqb_spec in H2. auto.
Qed.

Definition anyone (t : N) : Prop := True.
Definition other_than (s : N) (t : N) : Prop := t <> s.

(* ---- allocation: nobody loses anything, the answer is owned by the session *)
Lemma alloc_in_ok r p s f r' res :
  reg_ok r -> In p (pools r) -> p_fam p = f -> In (r', res) (alloc_in r p s) ->
  step_ok anyone r r' /\ exists x k, res = Some (x, k) /\ forall v, owns r' f v x s.
Proof.
  intros Hok Hin Hf Hc. unfold alloc_in in Hc. apply in_map_iff in Hc.
  destruct Hc as (sl & Heq & Hsl). inversion Heq; subst r' res; clear Heq.
  assert (Hwf : pool_wf p) by (destruct Hok as [_ HF]; eapply Forall_forall in HF; eauto).
  destruct Hwf as (Hg & Hnd & Hfl & Hfv & Hlv).
  assert (Hsig : psig (pool_take p sl s) = psig p) by reflexivity.
  split.
  - apply upd_pool_ok with (p := p); auto.
    + intros W. apply take_wf; auto.
    + intros sl' t _ Hl. rewrite take_lease. destruct (sl =? sl') eqn:E; auto.
      apply N.eqb_eq in E; subst sl'. rewrite (Hfl _ Hsl) in Hl. discriminate.
  - eexists _, _. split; [reflexivity|]. intros v. left. exists (pool_take p sl s), sl.
    repeat split.
    + apply upd_pool_in with (p := p); auto.
    + exact Hf.
    + apply Hfv; exact Hsl.
    + rewrite take_lease, N.eqb_refl. reflexivity.
Qed.

Lemma find_in {A} (g : A -> bool) l a : find g l = Some a -> In a l /\ g a = true.
Proof. intros H. apply find_some in H. exact H. Qed.

Lemma alloc_walk_ok f prof vrf s r r' res :
  reg_ok r -> In (r', res) (alloc_walk f prof vrf s r) ->
  step_ok anyone r r' /\ (res = None \/ exists x k, res = Some (x, k) /\ forall v, owns r' f v x s).
Proof.
  intros Hok. unfold alloc_walk.
  destruct (find _ (fam_pools f r)) as [p|] eqn:E.
  - apply find_in in E. destruct E as [E _]. apply fam_pools_in in E. destruct E as [Hin Hf].
    intros Hc. destruct (alloc_in_ok _ _ _ _ _ _ Hok Hin Hf Hc) as [A B]. split; auto.
  - intros [H|[]]. inversion H; subst. split; [apply step_ok_refl|left; reflexivity].
Qed.

Lemma alloc_from_profile_ok f prof ov vrf s r r' res :
  reg_ok r -> In (r', res) (alloc_from_profile f prof ov vrf s r) ->
  step_ok anyone r r' /\ (res = None \/ exists x k, res = Some (x, k) /\ forall v, owns r' f v x s).
Proof.
  intros Hok. unfold alloc_from_profile.
  destruct ov as [k|]; [|apply alloc_walk_ok; exact Hok].
  destruct (find _ (fam_pools f r)) as [p|] eqn:E; [|apply alloc_walk_ok; exact Hok].
  destruct (isnil (p_free p)); [apply alloc_walk_ok; exact Hok|].
  apply find_in in E. destruct E as [E _]. apply fam_pools_in in E. destruct E as [Hin Hf].
  intros Hc. destruct (alloc_in_ok _ _ _ _ _ _ Hok Hin Hf Hc) as [A B]. split; auto.
Qed.

(* ---- reservation: nobody loses anything; on success the address is owned by the session *)
Lemma reserve_in_ok r p x s f r' ok :
  reg_ok r -> In p (pools r) -> p_fam p = f -> contains p x = true -> reserve_in r p x s = (r', ok) ->
  step_ok anyone r r' /\ (ok = true -> forall v, owns r' f v x s).
Proof.
  intros Hok Hin Hf Hc. unfold reserve_in, contains in *.
  destruct (slot_of (p_geom p) x) as [sl|] eqn:Es; [|discriminate].
  assert (Hwf : pool_wf p) by (destruct Hok as [_ HF]; eapply Forall_forall in HF; eauto).
  destruct Hwf as (Hg & Hnd & Hfl & Hfv & Hlv).
  unfold pool_reserve. destruct (lease_of p sl) as [o|] eqn:El.
  - destruct (o =? s) eqn:Eo; intros H; inversion H; subst r' ok; clear H.
    + apply N.eqb_eq in Eo; subst o. split.
      * apply upd_pool_ok with (p := p); auto.
      * intros _ v. left. exists p, sl. repeat split; auto. apply upd_pool_in with (p := p); auto.
    + split; [apply step_ok_refl|discriminate].
  - intros H; inversion H; subst r' ok; clear H. split.
    + apply upd_pool_ok with (p := p); auto.
      * intros W. apply take_wf; auto. unfold valid_slot. eapply Hg; exact Es.
      * intros sl' t _ Hl. rewrite take_lease. destruct (sl =? sl') eqn:E; auto.
        apply N.eqb_eq in E; subst sl'. rewrite El in Hl; discriminate.
    + intros _ v. left. exists (pool_take p sl s), sl. repeat split; auto.
      * apply upd_pool_in with (p := p); auto.
      * rewrite take_lease, N.eqb_refl. reflexivity.
Qed.

Lemma item_eqb_spec x y : item_eqb x y = true <-> x = y.
Proof.
  destruct x, y; unfold item_eqb; simpl. rewrite andb_true_iff, !N.eqb_eq.
  split; [intros [-> ->]; reflexivity|intros H; inversion H; auto].
Qed.
Lemma skey_eqb_spec a b : skey_eqb a b = true <-> a = b.
Proof.
  destruct a as [[f1 v1] x1], b as [[f2 v2] x2]; simpl.
  rewrite !andb_true_iff, fam_eqb_spec, N.eqb_eq, item_eqb_spec.
  split; [intros [[-> ->] ->]; reflexivity|intros H; inversion H; auto].
Qed.
Lemma sassoc_cons k a b l : sassoc k ((a, b) :: l) = if skey_eqb a k then Some b else sassoc k l.
Proof. reflexivity. Qed.
Lemma sassoc_sunassoc_neq k k' l : k <> k' -> sassoc k' (sunassoc k l) = sassoc k' l.
Proof.
  intros Hn. induction l as [|[a b] r IH]; simpl; auto.
  destruct (skey_eqb a k) eqn:E.
  - apply skey_eqb_spec in E; subst a. destruct (skey_eqb k k') eqn:E2; [apply skey_eqb_spec in E2; contradiction|exact IH].
  - simpl. destruct (skey_eqb a k'); auto.
Qed.

Lemma filter_nil_none {A} (g : A -> bool) l : filter g l = [] -> forall a, In a l -> g a = false.
Proof.
  intros H a Hin. destruct (g a) eqn:E; auto.
  assert (In a (filter g l)) by (apply filter_In; auto). rewrite H in H0. destruct H0.
Qed.

Lemma reserve_cont_ok f x vrf s r r' ok :
  reg_ok r -> In (r', ok) (reserve_cont Repaired f x vrf s r) ->
  step_ok anyone r r' /\ (ok = true -> owns r' f vrf x s).
Proof.
  intros Hok. unfold reserve_cont. change (d5 Repaired) with false. cbv iota.
  destruct (filter (fun p => contains p x) (fam_pools f r)) as [|c cs] eqn:Ef.
  - assert (Hnone : forall p, In p (pools r) -> p_fam p = f -> slot_of (p_geom p) x = None).
    { intros p Hin Hf. pose proof (filter_nil_none _ _ Ef p) as H.
      assert (In p (fam_pools f r)) by (unfold fam_pools; apply filter_In; split; auto; apply fam_eqb_spec; auto).
      specialize (H H0). unfold contains in H. destruct (slot_of (p_geom p) x); [discriminate|reflexivity]. }
    destruct (sassoc (f, vrf, x) (statics r)) as [o|] eqn:Es.
    + intros [H|[]]. inversion H; subst r' ok. split; [apply step_ok_refl|].
      intros Ho. apply N.eqb_eq in Ho; subst o. right. split; auto.
    + intros [H|[]]. inversion H; subst r' ok; clear H. split.
      * intros _. split; [exact Hok|split; [reflexivity|]].
        intros t f' v' x' _ [Hl|[Hn Hs]]; [left; exact Hl|right]. split; [exact Hn|].
        cbn [statics]. rewrite sassoc_cons. destruct (skey_eqb (f, vrf, x) (f', v', x')) eqn:E; [|exact Hs].
        apply skey_eqb_spec in E. inversion E; subst. rewrite Es in Hs. discriminate.
      * intros _. right. split; [exact Hnone|]. cbn [statics]. rewrite sassoc_cons.
        assert (skey_eqb (f, vrf, x) (f, vrf, x) = true) by (apply skey_eqb_spec; reflexivity).
        rewrite H. reflexivity.
  - rewrite <- Ef. intros Hc. apply in_map_iff in Hc. destruct Hc as (p & Heq & Hp).
    apply filter_In in Hp. destruct Hp as [Hp Hcon]. apply fam_pools_in in Hp. destruct Hp as [Hin Hf].
    destruct (reserve_in_ok _ _ _ _ _ _ _ Hok Hin Hf Hcon Heq) as [A B]. split; auto.
Qed.

(* ---- release (Repaired): sessions other than the releasing one lose nothing *)
Lemma release_pool_ok f key x s r :
  step_ok (other_than s) r (release_pool Repaired f key x s r).
Proof.
  unfold release_pool. destruct (find _ (fam_pools f r)) as [p|] eqn:E; [|apply step_ok_refl].
  apply find_in in E. destruct E as [E _]. apply fam_pools_in in E. destruct E as [Hin Hf].
  destruct (raw_slot (p_geom p) x) as [sl|]; [|apply step_ok_refl].
  apply upd_pool_ok with (p := p); auto.
  - unfold pool_release. destruct (lease_of p sl); [destruct (owner_ok Repaired n s)|]; reflexivity.
  - apply release_wf.
  - intros sl' t Ht Hl. apply release_lease_other; auto.
Qed.

Lemma release_static_ok f x vrf s r :
  step_ok (other_than s) r (release_static Repaired f x vrf s r).
Proof.
  unfold release_static. change (d5 Repaired) with false. cbv iota.
  destruct (sassoc (f, vrf, x) (statics r)) as [o|] eqn:Es; [|apply step_ok_refl].
  destruct (o =? s) eqn:Eo; [|apply step_ok_refl]. apply N.eqb_eq in Eo; subst o.
  intros Hok. split; [exact Hok|split; [reflexivity|]].
  intros t f' v' x' Ht [Hl|[Hn Hs]]; [left; exact Hl|right]. split; [exact Hn|]. cbn [statics].
  destruct (skey_eqb (f, vrf, x) (f', v', x')) eqn:E.
  - apply skey_eqb_spec in E. inversion E; subst. rewrite Es in Hs. unfold other_than in Ht. congruence.
  - rewrite sassoc_sunassoc_neq; auto. intros H. rewrite <- skey_eqb_spec in H. congruence.
Qed.

Lemma release_all_ok f x s r : step_ok (other_than s) r (release_all Repaired f x s r).
Proof.
  unfold release_all. apply map_pools_ok. intros [Hnd HF] q Hq.
  assert (Hwf : pool_wf q) by (eapply Forall_forall in HF; eauto).
  destruct (fam_eqb (p_fam q) f); [|split; [reflexivity|split; [exact Hwf|intros ? ? _ H; exact H]]].
  destruct (raw_slot (p_geom q) x) as [sl|]; [|split; [reflexivity|split; [exact Hwf|intros ? ? _ H; exact H]]].
  split; [|split].
  - unfold pool_release. destruct (lease_of q sl); [destruct (owner_ok Repaired n s)|]; reflexivity.
  - apply release_wf; exact Hwf.
  - intros sl' t Ht Hl. apply release_lease_other; auto.
Qed.

Lemma release_ip_ok f x vrf s r r' :
  In r' (release_ip Repaired f x vrf s r) -> step_ok (other_than s) r r'.
Proof.
  unfold release_ip. pose proof (release_static_ok f x vrf s r) as H0.
  set (r0 := release_static Repaired f x vrf s r) in *.
  assert (Hall : forall f', step_ok (other_than s) r (release_all Repaired f' x s r0)).
  { intros f'. eapply step_ok_trans; [exact H0|apply release_all_ok]. }
  destruct f; try (intros [<-|[]]; apply Hall).
  destruct (filter (fun p => contains p x) (fam_pools FD r0)) as [|c cs] eqn:Ef.
  - intros [<-|[]]; exact H0.
  - rewrite <- Ef. intros Hc. apply in_map_iff in Hc. destruct Hc as (p & <- & Hp).
    apply filter_In in Hp. destruct Hp as [Hp _]. apply fam_pools_in in Hp. destruct Hp as [Hin Hf].
    destruct (slot_of (p_geom p) x) as [sl|]; [|exact H0].
    eapply step_ok_trans; [exact H0|].
    apply upd_pool_ok with (p := p); auto.
    + unfold pool_release. destruct (lease_of p sl); [destruct (owner_ok Repaired n s)|]; reflexivity.
    + apply release_wf.
    + intros sl' t Ht Hl. apply release_lease_other; auto.
Qed.

(* the DHCPv4 provider never touches another session's registry lease (Repaired) *)
Lemma prov_release_ok pr r mac s pr' r' :
  prov_release Repaired pr r mac s = (pr', r') -> step_ok (other_than s) r r'.
Proof.
  unfold prov_release. destruct (assoc mac (by_mac pr)); [|intros H; inversion H; apply step_ok_refl].
  destruct (lassoc n (objs pr)) as [l|]; [|intros H; inversion H; apply step_ok_refl].
  intros H; inversion H; subst. destruct (l_pool l); [apply release_pool_ok|apply step_ok_refl].
Qed.
Lemma prov_reserve_reg pr r ip mac sid pool pr' r' ok :
  prov_reserve Repaired pr r ip mac sid pool = (pr', r', ok) -> r' = r.
Proof.
  unfold prov_reserve. destruct (assoc ip (by_ip pr)); [|intros H; inversion H; reflexivity].
  destruct (lassoc n (objs pr)) as [l|]; [|intros H; inversion H; reflexivity].
  destruct (l_mac l =? mac); [intros H; inversion H; reflexivity|].
  destruct (l_exp l); intros H; inversion H; reflexivity.
Qed.

(* ---- one owner per (family, VRF, address) when pools of a family do not overlap *)
Definition pools_disjoint (r : reg) : Prop :=
  forall p q x, In p (pools r) -> In q (pools r) -> p_fam p = p_fam q ->
                contains p x = true -> contains q x = true -> pool_id p = pool_id q.

Lemma owns_functional r f v x s t :
  reg_ok r -> pools_disjoint r -> owns r f v x s -> owns r f v x t -> s = t.
Proof.
  intros [Hnd _] Hd [ (p & sl & Hp & Hf & Hs & Hl) | [Hn Hst] ] [ (q & sl' & Hq & Hf' & Hs' & Hl') | [Hn' Hst'] ].
  - assert (p = q).
    { eapply nodup_id_eq; eauto. apply Hd with (x := x); auto; try congruence;
      unfold contains; [rewrite Hs|rewrite Hs']; reflexivity. }
    subst q. rewrite Hs in Hs'. inversion Hs'; subst sl'. rewrite Hl in Hl'. inversion Hl'; reflexivity.
  - rewrite (Hn' p Hp Hf) in Hs. discriminate.
  - rewrite (Hn q Hq Hf') in Hs'. discriminate.
  - rewrite Hst in Hst'. inversion Hst'; reflexivity.
Qed.

(* ---- uniqueness from the ownership invariant *)
Definition told_is_owned (st : state) : Prop :=
  forall s f x, In s (st_sess st) -> holds s f = Some x -> owns (st_reg st) f (s_vrf s) x (s_id s).

Lemma unique_from_ownership st s1 s2 f x :
  reg_ok (st_reg st) -> pools_disjoint (st_reg st) -> told_is_owned st ->
  In s1 (st_sess st) -> In s2 (st_sess st) -> s_vrf s1 = s_vrf s2 ->
  holds s1 f = Some x -> holds s2 f = Some x -> s_id s1 = s_id s2.
Proof.
  intros Hok Hd Hinv H1 H2 Hv Hh1 Hh2.
  pose proof (Hinv _ _ _ H1 Hh1) as O1. pose proof (Hinv _ _ _ H2 Hh2) as O2.
  rewrite Hv in O1. eapply owns_functional; eauto.
Qed.

Lemma init_reg_ok ps :
  NoDup (map pool_id ps) -> Forall pool_wf ps -> reg_ok (mkReg ps []).
Proof. intros; split; assumption. Qed.

Lemma new_pool_wf_range f key prof vrf lo hi ex : pool_wf (new_pool f key prof vrf (GRange lo hi ex)).
Proof.
  assert (Hseq : forall n a x, In x (nseq a n) -> a <= x < a + N.of_nat n).
  { induction n as [|n IH]; simpl; intros a x; [tauto|]. intros [<-|H]; [lia|]. apply IH in H. lia. }
  assert (Hnd : forall n a, NoDup (nseq a n)).
  { induction n as [|n IH]; simpl; intros a; constructor; auto. intros H. apply Hseq in H. lia. }
  unfold pool_wf, new_pool, valid_slot, lease_of; simpl p_geom; simpl p_free; simpl p_leases.
  split; [apply geom_ok_range|]. split; [|split; [|split]].
  - unfold init_free. destruct (hi <? lo); [constructor|]. apply NoDup_filter. apply Hnd.
  - reflexivity.
  - intros sl. unfold init_free. destruct (hi <? lo) eqn:E; [intros []|].
    intros H. apply filter_In in H. destruct H as [H _]. apply Hseq in H.
    cbn [item_of slot_of fst]. apply N.ltb_ge in E.
    assert ((lo <=? sl) && (sl <=? hi) = true) by lia. rewrite H0. reflexivity.
  - simpl. discriminate.
Qed.
