From Coq Require Import Extraction ExtrOcamlBasic.
From OV Require Import Common.Base C02.Model.
Extraction Language OCaml.
Extraction "C02_model.ml" step init_state new_pool new_sess holds Repaired Defective v6bound.
