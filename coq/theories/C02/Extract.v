From Coq Require Import Extraction ExtrOcamlBasic.
From OV Require Import Common.Base C02.Model C02.Proofs C02.HeadSafe.
Extraction Language OCaml.
Extraction "C02_model.ml" step init_state new_pool new_sess holds Repaired Head Defective v6bound safe_step cfg_valid.
