(* C02/Told.v — IPoE, direction "told => recorded": every address the subscriber is SENT (OFFER / ACK, DHCPv6 REPLY)
   is, in the state right after that step, recorded by its session and owned by it in the registry (Repaired model;
   every ACK is recorded, as in /repo since b04c868). *)
From OV Require Import Common.Base C02.Model C02.Proofs.
Open Scope N_scope.

Lemma find_put l s s' :
  find (fun t => s_id t =? s_id s') l = Some s -> find (fun t => s_id t =? s_id s') (put_sess s' l) = Some s'.
Proof.
  unfold put_sess. induction l as [|t l IH]; cbn [find map]; [discriminate|].
  destruct (s_id t =? s_id s') eqn:E.
  - intros _. rewrite N.eqb_refl. reflexivity.
  - rewrite E. exact IH.
Qed.

Lemma id_told_shape st s0 isreq bind rq st' x c :
  In (st', OId isreq (IdTold x) c) (step_id_core Repaired st s0 isreq bind rq) ->
  exists s2, st_sess st' = put_sess s2 (st_sess st) /\ s_id s2 = s_id s0 /\ s_told s2 = Some x /\
             (bind = true -> s_b4 s2 = Some x) /\ s_live s2 = true /\ s_ppp s2 = false.
Proof.
  unfold step_id_core. destruct (s_prof4 s0) as [pf|].
  2:{ rewrite id_nil_repaired. intros [H|[]]. inversion H. }
  unfold bindl. intros H. apply in_flat_map in H. destruct H as ([[[r1 a4] pk] ok] & _ & H).
  destruct (if ok then oaddr a4 else None) as [y|].
  2:{ rewrite id_nil_repaired in H. destruct H as [H|[]]. inversion H. }
  destruct (prov_reserve Repaired (st_prov st) r1 y (s_mac s0) (s_id s0) pk) as [[pr' r2] [|]].
  - destruct H as [H|[]]. inversion H; subst. eexists. split; [reflexivity|].
    cbn [s_id s_told s_b4 s_live s_ppp]. repeat split. intros ->. reflexivity.
  - destruct H as [H|[]]. inversion H.
Qed.

Lemma is_reply_shape st s0 st' a6 ad e c6 cd :
  In (st', OIs true (Some (a6, ad)) e c6 cd) (step_is_core Repaired st s0 true) ->
  exists s2, st_sess st' = put_sess s2 (st_sess st) /\ s_id s2 = s_id s0 /\ s_b6 s2 = a6 /\ s_bd s2 = ad /\
             s_live s2 = true /\ s_ppp s2 = false.
Proof.
  unfold step_is_core. destruct (s_prof6 s0) as [pf|].
  2:{ intros [H|[]]. inversion H. }
  unfold bindl. intros H. apply in_flat_map in H. destruct H as ([[[r1 x6] k6] ok6] & _ & H).
  destruct (negb ok6). { destruct H as [H|[]]. inversion H. }
  apply in_flat_map in H. destruct H as ([[[r2 xd] kd] okd] & _ & H).
  destruct (negb okd). { destruct H as [H|[]]. inversion H. }
  destruct x6 as [i6|], xd as [id|];
    try (destruct (prov6_resolved _ _ _ _ _ _ _ _) as [q' [|]]; destruct H as [H|[]]; inversion H; subst;
         eexists; split; [reflexivity|]; cbn; repeat split; reflexivity).
  destruct H as [H|[]]. inversion H.
Qed.

Section Told.
Variables (ps : list pool) (ss : list sess).
Hypothesis Hnd : NoDup (map pool_id ps).
Hypothesis Hwf : Forall pool_wf ps.
Hypothesis Hk : kinds_ok (mkReg ps []).
Hypothesis Hrs : resettable (mkReg ps []).
Hypothesis Hns : NoDup (map s_id ss).
Hypothesis Hfr : Forall fresh_sess ss.

Lemma reach_inv1 st : reach Repaired (init_state ps ss) st -> inv K1 st.
Proof.
  intros Hr. eapply (reach_inv K1 K1_shape (fun r H => proj1 H) (fun r H => proj2 H)); [|exact Hr].
  apply init_inv; auto. split; auto.
Qed.

(* DHCPv4: the OFFER's / ACK's yiaddr is the session's told address, owned by it; an ACK is also recorded (sess.IPv4) *)
Lemma ipoe_v4_told_is_recorded st isreq rq sid vrf s4 o4 st' x c :
  reach Repaired (init_state ps ss) st ->
  In (st', OId isreq (IdTold x) c) (step Repaired st (ID isreq isreq rq sid vrf s4 o4)) ->
  exists s', find_sess sid st' = Some s' /\ s_told s' = Some x /\ (isreq = true -> s_b4 s' = Some x) /\
             owns (st_reg st') F4 (s_vrf s') (x, 0) sid.
Proof.
  intros Hr Hin. pose proof (reach_inv1 _ Hr) as Hinv.
  assert (Hinv' : inv K1 st').
  { eapply (step_inv K1 K1_shape (fun r H => proj1 H) (fun r H => proj2 H)); eauto. }
  cbn [step] in Hin. destruct (find_sess sid st) as [s|] eqn:Ef; [|destruct Hin as [H|[]]; inversion H].
  destruct (negb (s_ppp s) && s_live s); [|destruct Hin as [H|[]]; inversion H].
  unfold step_id in Hin. apply id_told_shape in Hin. destruct Hin as (s2 & Es & Eid & Et & Eb & El & Ep).
  assert (Hsid : s_id (id_ctx s vrf s4 o4) = sid).
  { destruct (find_sess_in _ _ _ Ef) as [_ Hid]. unfold id_ctx. destruct (s_started s); exact Hid. }
  assert (Hf' : find_sess sid st' = Some s2).
  { unfold find_sess in *. rewrite Es. rewrite <- Hsid, <- Eid. apply find_put with (s := s).
    rewrite Eid, Hsid. exact Ef. }
  exists s2. split; [exact Hf'|split; [exact Et|split; [exact Eb|]]].
  destruct (find_sess_in _ _ _ Hf') as [Hin2 Hid2].
  destruct (inv_sess K1 _ _ Hinv' Hin2) as [Hs _]. destruct (Hs El) as (_ & B & _).
  rewrite <- Hid2. apply B. rewrite Et. reflexivity.
Qed.

(* DHCPv6: the REPLY's IA_NA address and delegated prefix are the session's bound ones, owned by it *)
Lemma ipoe_v6_reply_is_recorded st sid vrf s6 spd o6 od st' a6 ad e c6 cd :
  reach Repaired (init_state ps ss) st ->
  In (st', OIs true (Some (a6, ad)) e c6 cd) (step Repaired st (IS true sid vrf s6 spd o6 od)) ->
  exists s', find_sess sid st' = Some s' /\ s_b6 s' = a6 /\ s_bd s' = ad /\
             (forall a, a6 = Some a -> owns (st_reg st') F6 (s_vrf s') (a, 0) sid) /\
             (forall x, ad = Some x -> owns (st_reg st') FD (s_vrf s') x sid).
Proof.
  intros Hr Hin. pose proof (reach_inv1 _ Hr) as Hinv.
  assert (Hinv' : inv K1 st').
  { eapply (step_inv K1 K1_shape (fun r H => proj1 H) (fun r H => proj2 H)); eauto. }
  cbn [step] in Hin. destruct (find_sess sid st) as [s|] eqn:Ef; [|destruct Hin as [H|[]]; inversion H].
  destruct (negb (s_ppp s) && s_live s); [|destruct Hin as [H|[]]; inversion H].
  unfold step_is in Hin. apply is_reply_shape in Hin. destruct Hin as (s2 & Es & Eid & E6 & Ed & El & Ep).
  assert (Hsid : s_id (mark_duid true (is_ctx s vrf s6 spd o6 od)) = sid).
  { destruct (find_sess_in _ _ _ Ef) as [_ Hid]. unfold mark_duid, is_ctx. destruct (s_started s); exact Hid. }
  assert (Hf' : find_sess sid st' = Some s2).
  { unfold find_sess in *. rewrite Es. rewrite <- Hsid, <- Eid. apply find_put with (s := s).
    rewrite Eid, Hsid. exact Ef. }
  exists s2. split; [exact Hf'|split; [exact E6|split; [exact Ed|]]].
  destruct (find_sess_in _ _ _ Hf') as [Hin2 Hid2].
  destruct (inv_sess K1 _ _ Hinv' Hin2) as [Hs _]. destruct (Hs El) as (_ & _ & B6 & BD).
  rewrite <- Hid2. split.
  - intros a Ha. apply B6. rewrite E6, Ha. reflexivity.
  - intros x Hx. apply BD. rewrite Ed, Hx. reflexivity.
Qed.
(* PPPoE, DHCPv6 over PPP: the REPLY's IA_NA address and delegated prefix are what bindDHCPv6 records as the session's
   IPv6Address / IPv6Prefix, and the session owns them in the registry of its VRF *)
Lemma pppoe_v6_reply_is_recorded st sid st' a6 ad r6 rd :
  reach Repaired (init_state ps ss) st ->
  In (st', OPs true (Some (a6, ad)) r6 rd) (step Repaired st (PS true sid)) ->
  r6 = a6 /\ rd = ad /\
  exists s', find_sess sid st' = Some s' /\ s_a6 s' = a6 /\ s_ad s' = ad /\
             (forall a, a6 = Some a -> owns (st_reg st') F6 (s_vrf s') (a, 0) sid) /\
             (forall x, ad = Some x -> owns (st_reg st') FD (s_vrf s') x sid).
Proof.
  intros Hr Hin. pose proof (reach_inv1 _ Hr) as Hinv.
  assert (Hinv' : inv K1 st').
  { eapply (step_inv K1 K1_shape (fun r H => proj1 H) (fun r H => proj2 H)); eauto. }
  cbn [step] in Hin. destruct (find_sess sid st) as [s|] eqn:Ef; [|destruct Hin as [H|[]]; inversion H].
  destruct (s_ppp s) eqn:Ep; cbn [andb] in Hin; [|destruct Hin as [H|[]]; inversion H].
  destruct (s_live s) eqn:El; cbn [andb] in Hin; [|destruct Hin as [H|[]]; inversion H].
  destruct (s_started s); [|destruct Hin as [H|[]]; inversion H].
  unfold step_ps in Hin. apply in_map_iff in Hin. destruct Hin as ([[[r2 c6] cd] res] & E & _).
  destruct (find_sess_in _ _ _ Ef) as [_ Hid].
  destruct res as [[[[b6 bd] k6] kd]|]; [|inversion E].
  destruct (prov6_resolved _ _ _ _ _ _ _ _) as [q' [|]]; inversion E; subst; clear E.
  split; [reflexivity|split; [reflexivity|]].
  match goal with
  | |- exists s', find_sess _ (mkState _ (put_sess ?S _) _) = _ /\ _ => set (s2 := S)
  end.
  assert (Hf' : find_sess (s_id s) (mkState r2 (put_sess s2 (st_sess st)) (with_p6 (st_prov st) q')) = Some s2).
  { unfold find_sess; cbn [st_sess]. change (s_id s) with (s_id s2). apply find_put with (s := s). exact Ef. }
  exists s2. split; [exact Hf'|split; [reflexivity|split; [reflexivity|]]].
  destruct (find_sess_in _ _ _ Hf') as [Hin2 _].
  destruct (inv_sess K1 _ _ Hinv' Hin2) as [Hs _]. destruct (Hs El) as (X & _). destruct (X Ep) as (_ & X6 & XD).
  split.
  - intros a Ha. apply X6. cbn. rewrite Ha. reflexivity.
  - intros x Hx. apply XD. cbn. exact Hx.
Qed.
End Told.

(* PPPoE / IPCP: whatever the peer proposes, and in whatever order (a Nak'ed or rejected proposal first, a request
   without an IP-Address option afterwards), the address the session records after the exchange is the one it had or
   the one it was told; an acknowledged address IS the told one.  A proposal that was not acknowledged leaves nothing
   behind. *)
Lemma pi_ack_is_recorded st s a st' r v4 :
  told_ok s -> s_ppp s = true -> In (st', OPi r v4) (step_pi st s a) ->
  (exists b, st_sess st' = put_sess (pi_upd s v4 b) (st_sess st)) /\
  (forall x, r = PiAck (Some x) -> v4 = Some x /\ s_told s = Some x) /\
  ((forall x, r <> PiAck (Some x)) -> v4 = s_a4 s).
Proof.
  intros Ht Hp. destruct (Ht Hp) as [T0 _]. unfold step_pi, pi_res.
  destruct (s_told s) as [t|] eqn:Et.
  - destruct a as [x|].
    + destruct (negb (t =? 0) && negb (x =? t)) eqn:E1; [|destruct (x =? 0) eqn:E2];
        intros [E|[]]; inversion E; subst; (split; [eexists; reflexivity|split]);
        try (intros y Hy; discriminate Hy); try (intros _; reflexivity).
      * intros y Hy. inversion Hy; subst y. split; [reflexivity|].
        destruct (N.eqb_spec t 0) as [->|Hn]; [exfalso; apply T0; reflexivity|].
        destruct (N.eqb_spec x t) as [->|Hn2]; [reflexivity|]. simpl in E1. discriminate.
      * intros H. exfalso. apply (H x). reflexivity.
    + intros [E|[]]; inversion E; subst. split; [eexists; reflexivity|split]; [intros y Hy; discriminate Hy|reflexivity].
  - intros [E|[]]; inversion E; subst. split; [eexists; reflexivity|split]; [intros y Hy; discriminate Hy|reflexivity].
Qed.
