(* C01/Properties.v — the property theorems only.  Each is closed by [exact] of a lemma from
   Proofs.v / ProofsPD.v / ProofsReg.v and followed by Print Assumptions.

   Vocabulary.  A history is a list of calls; Allocate calls carry the implementation's answer
   ([obs]) and a history is *accepted* ([pool_run .. = Some ..]) when every answer was admissible
   (drawn from the free list / exhaustion with an empty free list).  Theorems quantify over every
   accepted history, i.e. over every allocation policy, including the code's own (C01_lifo_is_accepted).
   [ledger evs] is the ownership map recomputed from the observable events only.
   Variants: [Repaired] = what /repo does now (every fixes/C01_*.patch is committed there) - the theorems;
   [V4Pd] = before 2cd02c0 (NewPrefixAllocator accepted an IPv4 network for a PD pool);
   [Unguarded] = before a1ebdc8 / 1de6b72 (range loops unguarded, PD prefix length unvalidated);
   [SharedVrf], [Defective] = still earlier states of the code (see Model.v).  The `_refuted` statements are
   historical witnesses of defects that are fixed; the correspondence check compares with [Repaired] only. *)
From OV Require Import Common.Base C01.Model C01.Proofs C01.ProofsPD C01.ProofsReg C01.ProofsLedger.
Local Open Scope N_scope.

(* ================================================================ PoolAllocator (IPv4, IPv6 IA_NA) *)

(* the allocator's lease map is exactly what a caller can reconstruct from the answers it saw *)
Theorem C01_ledger_agrees :
  forall v c ks st evs, pool_run v c ks = Some (st, evs) -> leases st = ledger evs.
Proof. exact ledger_agrees. Qed.
Print Assumptions C01_ledger_agrees.

(* confined + unique: whatever Allocate hands out, in any history (reserve/release of excluded,
   out-of-range, foreign-family, nil addresses included), lies inside the range, is not excluded
   (gateway included), and is held by nobody at that moment *)
Theorem C01_confined_unique :
  forall c ks st evs pre s obs a post,
    pool_run Repaired c ks = Some (st, evs) -> evs = pre ++ (CAlloc s obs, OAddr a) :: post ->
    assignable c a = true /\ lm_lookup a (ledger pre) = None.
Proof. exact alloc_confined_unique. Qed.
Print Assumptions C01_confined_unique.

(* a reservation succeeds only if nobody else holds the address, and is refused only if somebody else does *)
Theorem C01_unique_reserve :
  forall v c ks st evs pre s a o post,
    pool_run v c ks = Some (st, evs) -> evs = pre ++ (CReserve (Some a) s, o) :: post ->
    (o = OOk /\ (lm_lookup a (ledger pre) = None \/ lm_lookup a (ledger pre) = Some s)) \/
    (o = OReserved /\ exists s', lm_lookup a (ledger pre) = Some s' /\ s' <> s).
Proof. exact reserve_unique. Qed.
Print Assumptions C01_unique_reserve.

(* nothing leaks: after any history the free list is a duplicate-free enumeration of
   assignable minus held *)
Theorem C01_no_leak :
  forall c ks st evs, pool_run Repaired c ks = Some (st, evs) ->
    NoDup (free st) /\
    forall a, In a (free st) <-> (assignable c a = true /\ lm_lookup a (ledger evs) = None).
Proof. exact free_is_assignable_minus_held. Qed.
Print Assumptions C01_no_leak.

(* hence Available() = |assignable| - |held and assignable| *)
Theorem C01_available_count :
  forall c ks st evs, pool_run Repaired c ks = Some (st, evs) ->
    (length (free st) + length (filter (fun a => lm_mem a (ledger evs)) (assignable_list c))
     = length (assignable_list c))%nat.
Proof. exact available_count. Qed.
Print Assumptions C01_available_count.

(* exhaustion is reported only when no assignable address is free *)
Theorem C01_exhausted_only_when_full :
  forall c ks st evs pre s obs post,
    pool_run Repaired c ks = Some (st, evs) -> evs = pre ++ (CAlloc s obs, OExhausted) :: post ->
    forall a, assignable c a = true -> lm_lookup a (ledger pre) <> None.
Proof. exact exhausted_only_when_full. Qed.
Print Assumptions C01_exhausted_only_when_full.

(* a released assignable address is allocatable again at once *)
Theorem C01_release_then_allocatable :
  forall c ks st evs a st1 o s,
    pool_run Repaired c ks = Some (st, evs) ->
    pool_step Repaired c st (CRelease (Some a)) = Some (st1, o) -> assignable c a = true ->
    exists st2, pool_step Repaired c st1 (CAlloc s (Some a)) = Some (st2, OAddr a).
Proof.
  intros c ks st evs a st1 o s H. apply release_then_allocatable.
  eapply inv_run; [apply inv_init | exact H].
Qed.
Print Assumptions C01_release_then_allocatable.

(* the policy the code implements (pop the end of the free slice) is always an accepted answer, so
   the theorems above are about the real allocator and not about an empty set of histories *)
Theorem C01_lifo_is_accepted :
  forall c ks st evs s, pool_run Repaired c ks = Some (st, evs) ->
    pool_step Repaired c st (CAlloc s (lifo_choice st)) = Some (alloc_lifo st s).
Proof. exact lifo_progress. Qed.
Print Assumptions C01_lifo_is_accepted.

(* historical (fixed in d00d766): the earlier code violated confinement: Reserve(excluded) / Release / Allocate *)
Definition ex_pool : pcfg := {| p_fam := V4; p_lo := 167772410; p_hi := 167772421; p_excl := [(V4, 167772415)] |}.
Theorem C01_confined_refuted :
  exists c ks st evs s obs a,
    pool_run Defective c ks = Some (st, evs) /\ In (CAlloc s obs, OAddr a) evs /\ assignable c a = false.
Proof.
  exists ex_pool,
    [CReserve (Some (V4, 167772415)) 3; CRelease (Some (V4, 167772415)); CAlloc 1 (Some (V4, 167772415))].
  eexists. eexists. exists 1, (Some (V4, 167772415)), (V4, 167772415).
  split; [vm_compute; reflexivity|]. split; [right; right; left; reflexivity | vm_compute; reflexivity].
Qed.
Print Assumptions C01_confined_refuted.

(* the same history is rejected by the repaired model at the Allocate *)
Example C01_confined_repaired_rejects :
  pool_run Repaired ex_pool
    [CReserve (Some (V4, 167772415)) 3; CRelease (Some (V4, 167772415)); CAlloc 1 (Some (V4, 167772415))] = None.
Proof. vm_compute. reflexivity. Qed.
Print Assumptions C01_confined_repaired_rejects.

(* non-vacuity: a history over 10.0.0.250-10.0.1.5 minus 10.0.0.255 with allocation, conflict,
   release, re-allocation, direction change and exhaustion of a 2-address pool is accepted *)
Example C01_pool_nonvacuous :
  (exists st evs,
     pool_run Repaired ex_pool
       [CAlloc 1 (Some (V4, 167772410)); CReserve (Some (V4, 167772410)) 2; CReserve (Some (V6, 281470849515967)) 2;
        CRelease (Some (V4, 167772410)); CSetDir false; CAlloc 3 (Some (V4, 167772421)); CAvail] = Some (st, evs)
     /\ map snd evs = [OAddr (V4, 167772410); OReserved; OOk; OOk; OOk; OAddr (V4, 167772421); ONum 10]) /\
  (exists st evs,
     pool_run Repaired {| p_fam := V6; p_lo := 5; p_hi := 6; p_excl := [] |}
       [CAlloc 1 (Some (V6, 5)); CAlloc 2 (Some (V6, 6)); CAlloc 3 None] = Some (st, evs)).
Proof. split; eexists; eexists; vm_compute; [split|]; reflexivity. Qed.
Print Assumptions C01_pool_nonvacuous.

(* ---------------------------------------------------------------- the range loop of buildFreeList / parseExcludeRange *)
(* [range_loop] is `for addr := lo; addr.Compare(hi) <= 0; addr = addr.Next()` with netip's Next()
   (zero Addr after the last address of a family) and Compare (zero Addr below every address).
   Historical (fixed in a1ebdc8): with the unguarded condition, when the range end is the last address of its family (255.255.255.255, ffff:..:ffff)
   or the range runs from an IPv4 to an IPv6 address, the loop runs out of ANY amount of fuel:
   NewPoolAllocator / newRegistry never return (and allocate without bound). *)
Theorem C01_range_loop_diverges :
  forall v lo hi, snd lo <= fam_max (fst lo) -> range_terminates v lo hi = false ->
    forall fuel, range_loop false fuel (XA lo) hi = None.
Proof. exact range_terminates_false_diverges. Qed.
Print Assumptions C01_range_loop_diverges.

Theorem C01_range_unguarded_refuted :
  pool_geom Unguarded (V4, 4294967290) (V4, 4294967295) [] = None /\
  pool_geom Unguarded (V6, 5) (V6, 340282366920938463463374607431768211455) [] = None /\
  pool_geom Unguarded (V4, 167772161) (V6, 5) [] = None.
Proof. vm_compute. repeat split; reflexivity. Qed.
Print Assumptions C01_range_unguarded_refuted.

(* in every other case, and always with the repaired loop condition (`addr.IsValid() && ...`), the loop
   returns exactly lo..hi after hi+1-lo iterations: this is the [range_addrs] every pool theorem uses *)
Theorem C01_range_loop_terminates :
  forall g f lo hi, hi <= fam_max f -> (g = true \/ hi < fam_max f) ->
    range_loop g (S (N.to_nat (hi + 1 - lo))) (XA (f, lo)) (f, hi) =
    Some (map XA (range_addrs {| p_fam := f; p_lo := lo; p_hi := hi; p_excl := [] |})).
Proof. intros g f lo hi H1 H2. apply (range_loop_terminates g f hi H1 H2). reflexivity. Qed.
Print Assumptions C01_range_loop_terminates.

(* repaired, NewPoolAllocator returns for every pair of range ends *)
Theorem C01_pool_new_total : forall lo hi excl, pool_geom Repaired lo hi excl <> None.
Proof. intros lo hi excl. unfold pool_geom. simpl. destruct (fam_eqb _ _); discriminate. Qed.
Print Assumptions C01_pool_new_total.

(* ================================================================ PrefixAllocator (IPv6 PD) *)

(* every index of the pool maps to a prefix that is aligned, inside the network, below 2^128, and
   maps back to the same index — for all network lengths, prefix lengths <= 128 with at most 63
   delegated bits, all bases; carries across the 64-bit word boundary included *)
Theorem C01_pd_roundtrip :
  forall v c i, pd_wf c = true -> i < pd_count c ->
    let P := index_to_prefix c i in
    prefix_to_index v c (Pfx (Some (V6, P)) (pd_plen c) 128) = Some i /\
    P mod Sh c = 0 /\ P / Mn c = pd_base c / Mn c /\ P < W128.
Proof. exact pd_roundtrip. Qed.
Print Assumptions C01_pd_roundtrip.

(* (repaired) a prefix argument is accepted only if it lies inside the pool network, and then its
   masked address is exactly the prefix of the index: foreign and below-base prefixes are rejected,
   and two arguments with the same index denote the same delegated prefix *)
Theorem C01_pd_injective :
  forall c p i A, pd_wf c = true -> prefix_to_index Repaired c p = Some i -> pfx_num p = Some A -> A < W128 ->
    i < pd_count c /\ (A / Sh c) * Sh c = index_to_prefix c i /\ A / Mn c = pd_base c / Mn c.
Proof. exact pd_injective. Qed.
Print Assumptions C01_pd_injective.

Theorem C01_pd_same_index_same_prefix :
  forall c p q i A B, pd_wf c = true ->
    prefix_to_index Repaired c p = Some i -> prefix_to_index Repaired c q = Some i ->
    pfx_num p = Some A -> pfx_num q = Some B -> A < W128 -> B < W128 -> A / Sh c = B / Sh c.
Proof. exact pd_same_index_same_prefix. Qed.
Print Assumptions C01_pd_same_index_same_prefix.

(* historical (fixed in c2652db): the earlier code accepted 2101:db8::/72 for the pool 2001:db8::/64 -> /72 (index 0), and
   2001:db8:0:0:1::5/128 for 2001:db8::/120 -> /128 *)
Definition ex_pd : pdcfg := {| pd_net := 42540766411282592856903984951653826560; pd_nbits := 64; pd_plen := 72; pd_v4 := false |}.
Definition ex_foreign : N := 43869994407067508729807792011934171136.
Theorem C01_pd_injective_refuted :
  exists c p i A, pd_wf c = true /\ prefix_to_index Defective c p = Some i /\ pfx_num p = Some A /\ A < W128 /\
    (A / Sh c) * Sh c <> index_to_prefix c i /\ A / Mn c <> pd_base c / Mn c.
Proof.
  exists ex_pd, (Pfx (Some (V6, ex_foreign)) 72 128), 0, ex_foreign.
  vm_compute. repeat split; try reflexivity; discriminate.
Qed.
Print Assumptions C01_pd_injective_refuted.

(* ... with the consequence that one prefix is delegated to two sessions *)
Theorem C01_pd_unique_refuted :
  exists c ks st evs ip,
    pd_run Defective c ks = Some (st, evs) /\
    map snd evs = [QPfx ip 72 128; QOk; QPfx ip 72 128] /\
    (forall k o p, In (k, o) evs -> k = PRelease p -> prefix_to_index Repaired c p = None).
Proof.
  exists ex_pd, [PAlloc 1 (Some (pd_net ex_pd, 72, 128)); PRelease (Pfx (Some (V6, ex_foreign)) 72 128);
                 PAlloc 2 (Some (pd_net ex_pd, 72, 128))].
  eexists. eexists. exists (pd_net ex_pd). split; [vm_compute; reflexivity|]. split; [reflexivity|].
  intros k o p [H|[H|[H|[]]]] E; inversion H; subst; try discriminate.
  inversion H1; subst. vm_compute. reflexivity.
Qed.
Print Assumptions C01_pd_unique_refuted.

(* (repaired) every delegated prefix of every accepted history is a /plen inside the network, aligned,
   and its index is held by nobody according to the ledger of the earlier events *)
Theorem C01_pd_confined_unique :
  forall c ks st evs pre s obs ip ones bits post,
    pd_wf c = true ->
    pd_run Repaired c ks = Some (st, evs) -> evs = pre ++ (PAlloc s obs, QPfx ip ones bits) :: post ->
    exists i, i < pd_count c /\ ip = index_to_prefix c i /\ ones = pd_plen c /\ bits = 128 /\
              ip mod Sh c = 0 /\ ip / Mn c = pd_base c / Mn c /\
              lm_lookup (key_of_idx i) (pd_ledger Repaired c pre) = None.
Proof. exact pd_alloc_confined_unique. Qed.
Print Assumptions C01_pd_confined_unique.

Theorem C01_pd_exhausted_only_when_full :
  forall c ks st evs pre s obs post,
    pd_wf c = true ->
    pd_run Repaired c ks = Some (st, evs) -> evs = pre ++ (PAlloc s obs, QExhausted) :: post ->
    forall i, i < pd_count c -> lm_lookup (key_of_idx i) (pd_ledger Repaired c pre) <> None.
Proof. exact pd_exhausted_only_when_full. Qed.
Print Assumptions C01_pd_exhausted_only_when_full.

(* PD history-level statements mirroring the pool ones; keys of the ledger are indices, tied to
   prefixes by C01_pd_injective / C01_pd_roundtrip *)
Theorem C01_pd_ledger_agrees :
  forall v c ks st evs, pd_plen c <= 128 -> pd_run v c ks = Some (st, evs) -> leases st = pd_ledger v c evs.
Proof. exact pd_ledger_agrees. Qed.
Print Assumptions C01_pd_ledger_agrees.

(* nothing leaks: free list = duplicate-free enumeration of the unheld indices; free + held = count *)
Theorem C01_pd_no_leak :
  forall c ks st evs, pd_wf c = true -> pd_run Repaired c ks = Some (st, evs) ->
    NoDup (free st) /\
    (forall a, In a (free st) <->
       exists i, a = key_of_idx i /\ i < pd_count c /\
                 lm_lookup (key_of_idx i) (pd_ledger Repaired c evs) = None) /\
    (length (free st) +
     length (filter (fun a => lm_mem a (pd_ledger Repaired c evs)) (assignable_list (pd_pool_cfg c)))
     = length (assignable_list (pd_pool_cfg c)))%nat.
Proof. exact pd_no_leak. Qed.
Print Assumptions C01_pd_no_leak.

(* Reserve of a prefix: no-op when it is not one of the pool's; otherwise granted iff nobody else holds its index *)
Theorem C01_pd_unique_reserve :
  forall v c ks st evs pre p s o post, pd_plen c <= 128 ->
    pd_run v c ks = Some (st, evs) -> evs = pre ++ (PReserve p s, o) :: post ->
    match prefix_to_index v c p with
    | None => o = QOk
    | Some i =>
        (o = QOk /\ (lm_lookup (key_of_idx i) (pd_ledger v c pre) = None \/
                     lm_lookup (key_of_idx i) (pd_ledger v c pre) = Some s)) \/
        (o = QReserved /\ exists s', lm_lookup (key_of_idx i) (pd_ledger v c pre) = Some s' /\ s' <> s)
    end.
Proof. exact pd_unique_reserve. Qed.
Print Assumptions C01_pd_unique_reserve.

(* a released prefix can be delegated again in the next step *)
Theorem C01_pd_release_then_allocatable :
  forall c ks st evs p i st1 o s, pd_wf c = true -> pd_run Repaired c ks = Some (st, evs) ->
    pd_step Repaired c st (PRelease p) = Some (st1, o) -> prefix_to_index Repaired c p = Some i ->
    exists st2, pd_step Repaired c st1 (PAlloc s (Some (index_to_prefix c i, pd_plen c, 128)))
                = Some (st2, QPfx (index_to_prefix c i) (pd_plen c) 128).
Proof. exact pd_release_then_allocatable. Qed.
Print Assumptions C01_pd_release_then_allocatable.

(* historical (fixed in 1de6b72): NewPrefixAllocator accepted prefix lengths above 128 (PDPool.PrefixLength is a
   uint8 that nothing else validates): every index then yielded the base address with a nil mask, so one address is
   delegated to as many sessions as the pool has indices.  Repaired: such a pool is refused. *)
Definition ex_pd_big : pdcfg := {| pd_net := 42540766411282592856903984951653826560; pd_nbits := 120; pd_plen := 130; pd_v4 := false |}.
Theorem C01_pd_plen_unvalidated_refuted :
  pd_new Unguarded ex_pd_big = true /\
  exists st evs ip,
    pd_run Unguarded ex_pd_big [PAlloc 1 (Some (pd_net ex_pd_big, 0, 0)); PAlloc 2 (Some (pd_net ex_pd_big, 0, 0))]
      = Some (st, evs) /\
    map snd evs = [QPfx ip 0 0; QPfx ip 0 0].
Proof. split; [reflexivity|]. eexists. eexists. eexists. split; vm_compute; reflexivity. Qed.
Print Assumptions C01_pd_plen_unvalidated_refuted.

Theorem C01_pd_plen_validated :
  forall c, pd_new Repaired c = true -> pd_net c < W128 -> pd_wf c = true.
Proof.
  intros c H N. unfold pd_new in H. unfold pd_wf. cbn [unguarded v4pd orb] in H.
  apply andb_true_iff in H. destruct H as [H H3]. apply andb_true_iff in H. destruct H as [H1 H2].
  apply negb_true_iff in H3. rewrite H3 in *. rewrite H1, H2. apply N.ltb_lt in N. rewrite N. reflexivity.
Qed.
Print Assumptions C01_pd_plen_validated.

(* non-vacuity: a /62 network given unmasked, /66 prefixes: index 7 spills from the low into the high
   64-bit word; the repaired model rejects the foreign prefix; a history with conflict *)
Example C01_pd_nonvacuous :
  pd_wf {| pd_net := 42540766411282592935302647264919420927; pd_nbits := 62; pd_plen := 66; pd_v4 := false |} = true /\
  index_to_prefix {| pd_net := 42540766411282592935302647264919420927; pd_nbits := 62; pd_plen := 66; pd_v4 := false |} 7
    = 42540766411282592930690961246492033024 + 2 ^ 64 + 3 * 2 ^ 62 /\
  prefix_to_index Repaired ex_pd (Pfx (Some (V6, ex_foreign)) 72 128) = None /\
  (exists st evs, pd_run Repaired ex_pd
     [PAlloc 1 (Some (pd_net ex_pd, 72, 128)); PRelease (Pfx (Some (V6, ex_foreign)) 72 128);
      PReserve (Pfx (Some (V6, pd_net ex_pd + 5)) 72 128) 2; PAvail] = Some (st, evs)
     /\ map snd evs = [QPfx (pd_net ex_pd) 72 128; QOk; QReserved; QNum 255]).
Proof. vm_compute. repeat split; try reflexivity. eexists; eexists; split; reflexivity. Qed.
Print Assumptions C01_pd_nonvacuous.

(* ================================================================ Registry: IPv4, IA_NA and PD families *)

(* every allocator of every family keeps the pool invariant through every registry history (allocate
   from profile, release in a named pool, reserve in pool, reserve by containment walk, release in
   pool, release by address from every pool / by prefix from the first containing pool, direction
   change): its free list is a duplicate-free enumeration of assignable minus held.
   For a PD allocator the keys are indices; C01_pd_injective ties them to prefixes. *)
Theorem C01_registry_no_leak :
  forall pfs ks st evs f k ac ps,
    reg_run_from Repaired (reg_init Repaired pfs) ks = Some (st, evs) ->
    assoc_find key_eqb k (r_allocs st f) = Some (ac, ps) ->
    NoDup (free ps) /\
    forall a, In a (free ps) <-> (assignable (acfg_pool ac) a = true /\ lm_lookup a (leases ps) = None).
Proof.
  intros pfs ks st evs f k ac ps H E. eapply rinv_find; [|exact E].
  eapply rinv_run; [apply rinv_init | exact H].
Qed.
Print Assumptions C01_registry_no_leak.

(* AllocateFromProfile / AllocateIANAFromProfile / AllocatePDFromProfile answered (k, o):
   o is confined to allocator k and held by nobody there (address: in range, not excluded; prefix: a
   /plen of the pool, aligned, index unheld); and either the override names k, or k is in the profile's
   list of that family, has the subscriber's VRF, the override (if any) had nothing free, and every
   earlier same-VRF pool of the list had nothing free *)
Theorem C01_profile_order :
  forall pfs ks st evs f pf ov vrf s k o st' r,
    reg_run_from Repaired (reg_init Repaired pfs) ks = Some (st, evs) ->
    reg_step Repaired st (RAlloc f pf ov vrf s (Some (k, o))) = Some (st', r) ->
    r = ROAns k o /\
    (exists ac ps, assoc_find key_eqb k (r_allocs st f) = Some (ac, ps) /\ answer_ok ac ps o) /\
    ((ov <> 0 /\ k = (pf, ov)) \/
     (exists l1 l2, pools_of st f pf = l1 ++ k :: l2 /\ vrf_of Repaired st f k = vrf /\
                    (ov = 0 \/ has_free st f (pf, ov) = false) /\
                    forall k', In k' l1 -> vrf_of Repaired st f k' = vrf -> has_free st f k' = false)).
Proof.
  intros pfs ks st evs f pf ov vrf s k o st' r H. apply alloc_answer.
  eapply rinv_run; [apply rinv_init | exact H].
Qed.
Print Assumptions C01_profile_order.

(* exhaustion through a profile only when the override and every same-VRF pool of the profile are full *)
Theorem C01_profile_exhausted :
  forall st f pf ov vrf s st' o,
    reg_step Repaired st (RAlloc f pf ov vrf s None) = Some (st', o) ->
    (ov = 0 \/ has_free st f (pf, ov) = false) /\
    forall k, In k (pools_of st f pf) -> vrf_of Repaired st f k = vrf -> has_free st f k = false.
Proof. exact alloc_exhausted. Qed.
Print Assumptions C01_profile_exhausted.

(* "has no free address" means what it says *)
Theorem C01_has_free_spec :
  forall pfs ks st evs f k, reg_run_from Repaired (reg_init Repaired pfs) ks = Some (st, evs) ->
    (has_free st f k = true <->
     exists ac ps a, assoc_find key_eqb k (r_allocs st f) = Some (ac, ps) /\
                     assignable (acfg_pool ac) a = true /\ lm_lookup a (leases ps) = None).
Proof.
  intros pfs ks st evs f k H. apply has_free_spec. eapply rinv_run; [apply rinv_init | exact H].
Qed.
Print Assumptions C01_has_free_spec.

(* the list walked is the profile's pools in ascending priority (IPv4) / configuration order (IA_NA, PD) *)
Theorem C01_profile_list_sorted :
  forall v st pf,
    pools_of (init_profile v st pf) (rf_fam pf) (rf_name pf) =
      map (fun p => (rf_name pf, rp_name p))
          (match rf_fam pf with F4 => sort_by_prio (rf_pools pf) | _ => rf_pools pf end) /\
    Sorted.StronglySorted prio_le (sort_by_prio (rf_pools pf)) /\
    Permutation.Permutation (sort_by_prio (rf_pools pf)) (rf_pools pf).
Proof.
  intros v st pf. split; [apply init_profile_pools | apply sort_by_prio_spec].
Qed.
Print Assumptions C01_profile_list_sorted.

(* ---- the override clause.  DECISION: "draws only from pools of the subscriber's VRF, in priority order
   unless an override names a pool" is read as: an override (AAA attribute / service group naming a pool)
   exempts the allocation from the VRF filter AND from the order, and from nothing else: the pool must
   belong to the named profile, and its answers are confined and unheld like any other (C01_profile_order).
   Upstream pins exactly this for all three families: registry_test.go "pool override bypasses VRF check".
   The three statements below make the exemption explicit. *)

(* every answer that is NOT from the override pool comes from a pool of the subscriber's VRF in the profile's list *)
Theorem C01_vrf_confined_unless_override :
  forall pfs ks st evs f pf ov vrf s k o st' r,
    reg_run_from Repaired (reg_init Repaired pfs) ks = Some (st, evs) ->
    reg_step Repaired st (RAlloc f pf ov vrf s (Some (k, o))) = Some (st', r) ->
    (ov = 0 \/ k <> (pf, ov)) ->
    vrf_of Repaired st f k = vrf /\ In k (pools_of st f pf).
Proof.
  intros pfs ks st evs f pf ov vrf s k o st' r H. apply alloc_non_override_vrf.
  eapply rinv_run; [apply rinv_init | exact H].
Qed.
Print Assumptions C01_vrf_confined_unless_override.

(* the override pool is used whenever it has something free - no condition on its VRF *)
Theorem C01_override_ignores_vrf :
  forall st f pf ov vrf, ov <> 0 -> has_free st f (pf, ov) = true ->
    alloc_target Repaired st f pf ov vrf = Some (pf, ov).
Proof. exact alloc_override_scope. Qed.
Print Assumptions C01_override_ignores_vrf.

(* override or not, an answer never comes from a pool of another profile *)
Theorem C01_answers_within_profile :
  forall pfs ks st evs f pf ov vrf s k o st' r,
    reg_run_from Repaired (reg_init Repaired pfs) ks = Some (st, evs) ->
    reg_step Repaired st (RAlloc f pf ov vrf s (Some (k, o))) = Some (st', r) -> fst k = pf.
Proof.
  intros pfs ks st evs f pf ov vrf s k o st' r H. apply alloc_within_profile.
  - eapply rinv_run; [apply rinv_init | exact H].
  - eapply linv_run; [apply linv_init | exact H].
Qed.
Print Assumptions C01_answers_within_profile.

(* a registry call changes an allocator's lease map only by the ledger update (C01_ledger_agrees's
   [ledger_step]) of the one pool call it makes and the answer that call gave *)
Theorem C01_registry_ledger_step :
  forall v st f k mk st' o, on_pool v st f k mk = Some (st', o) ->
    exists ac ps ps' pc, assoc_find key_eqb k (r_allocs st f) = Some (ac, ps) /\ mk ac = Some pc /\
      assoc_find key_eqb k (r_allocs st' f) = Some (ac, ps') /\ leases ps' = ledger_step (leases ps) (pc, o).
Proof. exact on_pool_ledger. Qed.
Print Assumptions C01_registry_ledger_step.

(* ---- configuration -> geometry (initV4Pools / initV6Pools): the gateway (the pool's, else the IPv4
   profile's) and every exclude entry / exclude range are unassignable in the allocator that is built;
   with C01_confined_unique / C01_profile_order they are never handed out *)
Theorem C01_gateway_never_assignable :
  forall v f sp c g, spec_geom v f sp = Some (Some (APool c)) -> eff_gw f sp = SAddr g ->
    assignable c (unmap g) = false.
Proof. exact spec_gateway_excluded. Qed.
Print Assumptions C01_gateway_never_assignable.

Theorem C01_excludes_never_assignable :
  forall v sp c, spec_geom v F4 sp = Some (Some (APool c)) ->
    (forall a, In (SAddr a, SEmpty) (sp_excl sp) -> assignable c (unmap a) = false) /\
    (forall a b n, In (SAddr a, SAddr b) (sp_excl sp) -> fst a = fst b -> snd a <= n <= snd b ->
                   assignable c (unmap (fst a, n)) = false).
Proof.
  intros v sp c H. split.
  - intros a. apply (spec_exclude_single v). exact H.
  - intros a b n. apply (spec_exclude_range v). exact H.
Qed.
Print Assumptions C01_excludes_never_assignable.

(* in every reachable registry state the VRF a pool is filed under is exactly what the configuration of
   ITS OWN family says: the last non-empty VRF configured for that "profile/pool" key in a pool list of
   that family ([cfg_vrf] is a function of the configuration only).  With C01_vrf_confined_unless_override:
   a non-override answer comes from a pool whose own configuration names the subscriber's VRF. *)
Theorem C01_vrf_is_configured :
  forall pfs ks st evs f k,
    reg_run_from Repaired (reg_init Repaired pfs) ks = Some (st, evs) ->
    vrf_of Repaired st f k = cfg_vrf f k pfs.
Proof. exact reachable_vrf. Qed.
Print Assumptions C01_vrf_is_configured.

(* historical (fixed in 85029df): the earlier code kept ONE pool->VRF map keyed "profile/pool": an IA_NA pool in VRF 7 made the
   equally named PD pool (configured without VRF) serve VRF-7 subscribers and refuse default-VRF ones *)
Theorem C01_vrf_per_family_refuted :
  exists pfs f k vrf s o st' r,
    (forall pf p, In pf pfs -> rf_fam pf = f -> In p (rf_pools pf) -> rp_vrf p = 0) /\
    vrf <> 0 /\
    reg_step SharedVrf (reg_init SharedVrf pfs) (RAlloc f 1 0 vrf s (Some (k, o))) = Some (st', r) /\
    reg_step SharedVrf (reg_init SharedVrf pfs) (RAlloc f 1 0 0 s None) = Some (reg_init SharedVrf pfs, ROExhausted).
Proof.
  exists ex_collide, FPD, (1, 1), 7, 9, (OP 42540766411282592856903984951653826560 56 128).
  eexists. eexists. split.
  - intros pf p [<-|[<-|[]]] Hf; simpl in Hf; try discriminate. intros [<-|[]]. reflexivity.
  - split; [discriminate|]. split; vm_compute; reflexivity.
Qed.
Print Assumptions C01_vrf_per_family_refuted.

Example C01_vrf_repaired :
  reg_step Repaired (reg_init Repaired ex_collide) (RAlloc FPD 1 0 7 9 None)
    = Some (reg_init Repaired ex_collide, ROExhausted) /\
  exists st', reg_step Repaired (reg_init Repaired ex_collide)
    (RAlloc FPD 1 0 0 9 (Some ((1, 1), OP 42540766411282592856903984951653826560 56 128)))
    = Some (st', ROAns (1, 1) (OP 42540766411282592856903984951653826560 56 128)).
Proof. split; [vm_compute; reflexivity | eexists; vm_compute; reflexivity]. Qed.
Print Assumptions C01_vrf_repaired.

(* ResolveV4 / ResolveV6 (pkg/dhcp/resolve.go) keep every allocator's invariant, and ResolveV4 hands
   out either the caller's address after a successful reservation or an AllocateFromProfile answer
   (to which C01_profile_order applies) *)
Theorem C01_resolve_keeps_invariant :
  forall st, RInv st ->
    (forall pf ov vrf s have obs wobs st' r,
       resolve4 Repaired st pf ov vrf s have obs wobs = Some (st', r) -> RInv st') /\
    (forall pf naov pdov vrf s hna hpd ona opd wna wpd st' r,
       resolve6 Repaired st pf naov pdov vrf s hna hpd ona opd wna wpd = Some (st', r) -> RInv st').
Proof.
  intros st F. split.
  - intros. eapply resolve4_inv; eauto.
  - intros. eapply resolve6_inv; eauto.
Qed.
Print Assumptions C01_resolve_keeps_invariant.

Theorem C01_resolve4_answer :
  forall st pf ov vrf s have obs wobs st' a pool,
    resolve4 Repaired st pf ov vrf s have obs wobs = Some (st', R4 a pool) ->
    (have = Some a /\ pool = None /\
     reg_step Repaired st (RReserve F4 (RA (Some a)) s wobs) = Some (st', ROOk)) \/
    (have = None /\ exists k, pool = Some k /\
       reg_step Repaired st (RAlloc F4 pf ov vrf s obs) = Some (st', ROAns k (OA a))).
Proof. exact resolve4_answer. Qed.
Print Assumptions C01_resolve4_answer.

(* non-vacuity: IPv4 pools in VRF 1 (priorities 5 and 1) and one without VRF; a VRF-1 subscriber is
   served from the priority-1 pool first, then the priority-5 pool, then exhaustion; the VRF-less pool
   is never used for it; an override naming the VRF-less pool (1,3) IS honoured for the VRF-1 subscriber
   (the override is exempt from the VRF filter, see above); a PD pool answers; ResolveV6 allocates both parts *)
Definition ex_reg : list rprofile :=
  [ {| rf_name := 1; rf_fam := F4;
       rf_pools := [ {| rp_name := 1; rp_prio := 5; rp_vrf := 1;
                        rp_cfg := Some (APool {| p_fam := V4; p_lo := 10; p_hi := 10; p_excl := [] |}) |};
                     {| rp_name := 2; rp_prio := 1; rp_vrf := 1;
                        rp_cfg := Some (APool {| p_fam := V4; p_lo := 20; p_hi := 20; p_excl := [] |}) |};
                     {| rp_name := 3; rp_prio := 0; rp_vrf := 0;
                        rp_cfg := Some (APool {| p_fam := V4; p_lo := 30; p_hi := 31; p_excl := [] |}) |} ] |};
    {| rf_name := 2; rf_fam := FNA;
       rf_pools := [ {| rp_name := 1; rp_prio := 0; rp_vrf := 0;
                        rp_cfg := Some (APool {| p_fam := V6; p_lo := 4096; p_hi := 4097; p_excl := [] |}) |} ] |};
    {| rf_name := 2; rf_fam := FPD;
       rf_pools := [ {| rp_name := 1; rp_prio := 0; rp_vrf := 0; rp_cfg := Some (APd ex_pd) |} ] |} ].
Example C01_registry_nonvacuous :
  pools_of (reg_init Repaired ex_reg) F4 1 = [(1, 3); (1, 2); (1, 1)] /\
  (exists st evs,
    reg_run_from Repaired (reg_init Repaired ex_reg)
      [RAlloc F4 1 0 1 7 (Some ((1, 2), OA (V4, 20))); RAlloc F4 1 0 1 8 (Some ((1, 1), OA (V4, 10)));
       RAlloc F4 1 0 1 9 None; RAlloc F4 1 3 1 9 (Some ((1, 3), OA (V4, 30)));
       RAlloc FPD 2 0 0 4 (Some ((2, 1), OP (pd_net ex_pd) 72 128));
       RReserve FPD (RP (Pfx (Some (V6, pd_net ex_pd)) 72 128)) 5 (Some (2, 1));
       RReleaseByValue FPD (RP (Pfx (Some (V6, pd_net ex_pd + 9)) 72 128)) (Some (2, 1));
       RAlloc FPD 2 0 0 6 (Some ((2, 1), OP (pd_net ex_pd) 72 128))] = Some (st, evs)
    /\ map snd evs = [ROAns (1, 2) (OA (V4, 20)); ROAns (1, 1) (OA (V4, 10)); ROExhausted; ROAns (1, 3) (OA (V4, 30));
                      ROAns (2, 1) (OP (pd_net ex_pd) 72 128); ROReserved; ROOk;
                      ROAns (2, 1) (OP (pd_net ex_pd) 72 128)]) /\
  (exists st r, resolve6 Repaired (reg_init Repaired ex_reg) 2 0 0 0 3 None None
                  (Some ((2, 1), OA (V6, 4096))) (Some ((2, 1), OP (pd_net ex_pd) 72 128)) None None = Some (st, r)
                /\ r6_nil r = false).
Proof.
  split; [vm_compute; reflexivity|]. split.
  - eexists. eexists. split; vm_compute; reflexivity.
  - eexists. eexists. split; vm_compute; reflexivity.
Qed.
Print Assumptions C01_registry_nonvacuous.

(* ---- re-entry.  A session calls ResolveV4 again with the context of its earlier call (REQUEST after DISCOVER,
   renew, retry); releases through the registry leave the context alone.  Contract: whatever ResolveV4 returns
   is, after the call, leased to the calling session in an IPv4 allocator - through the allocation or the
   reservation the call just made - unless no IPv4 allocator contains it.  Nothing the context remembers
   (AllocatedPool) can stand in for that reservation. *)
Theorem C01_resolve4_stakes_its_answer :
  forall v st s cx obs wobs st' cx' a pool,
    resolve4_ctx v st s cx obs wobs = Some (st', cx', R4 a pool) ->
    (exists k ac ps' a', (a' = a \/ a' = unmap a) /\
        assoc_find key_eqb k (r_allocs st' F4) = Some (ac, ps') /\ lm_lookup a' (leases ps') = Some s) \/
    (c4_addr cx = Some a /\ st' = st /\
     forall e, In e (r_allocs st F4) -> acontains v (fst (snd e)) (RA (Some a)) = false).
Proof. exact resolve4_ctx_staked. Qed.
Print Assumptions C01_resolve4_stakes_its_answer.

(* the interleaving: session 1 is given 30, 30 is released behind its back, session 2 is given 30,
   session 1 re-enters with its kept context (address 30, AllocatedPool 1/3): refused *)
Definition ex_reentry : option res4 :=
  let cx := {| c4_pf := 1; c4_ov := 0; c4_vrf := 0; c4_addr := None; c4_pool := None |} in
  match resolve4_ctx Repaired (reg_init Repaired ex_reg) 1 cx (Some ((1, 3), OA (V4, 30))) None with
  | Some (st1, cx1, R4 _ _) =>
      match reg_step Repaired st1 (RReleaseByValue F4 (RA (Some (V4, 30))) None) with
      | Some (st2, _) =>
          match resolve4_ctx Repaired st2 2 cx (Some ((1, 3), OA (V4, 30))) None with
          | Some (st3, _, R4 _ _) =>
              match resolve4_ctx Repaired st3 1 cx1 None (Some (1, 3)) with
              | Some (_, _, r) => Some r | None => None end
          | _ => None end
      | None => None end
  | _ => None end.
Example C01_reentry_conflict_detected : ex_reentry = Some R4Nil.
Proof. vm_compute. reflexivity. Qed.
Print Assumptions C01_reentry_conflict_detected.

(* ================================================================ registry-level ledger over observables *)
(* [registry_ledger v pfs evs f k] is the lease map of pool k of family f recomputed from the configuration
   and the OBSERVABLE events of a registry history only: calls, answers, and the pool a containment walk
   stopped at.  (A release has no session argument in this API: Release(x) ends whoever's lease of x in the
   pools it addresses - ReleaseIP / ReleaseIANAByIP in every pool of the family.  That is the contract
   the ledger transcribes; who may call it is C02's subject.) *)
Theorem C01_registry_ledger_agrees :
  forall v pfs ks st evs f k ac ps,
    reg_run_from v (reg_init v pfs) ks = Some (st, evs) ->
    assoc_find key_eqb k (r_allocs st f) = Some (ac, ps) ->
    leases ps = registry_ledger v pfs evs f k /\ cfg_of (reg_init v pfs) f k = Some ac.
Proof. exact registry_ledger_agrees. Qed.
Print Assumptions C01_registry_ledger_agrees.

(* uniqueness + confinement per (family, pool) over whole histories, stated over the ledger of the EARLIER
   observable events: whatever Allocate{,IANA,PD}FromProfile answers is assignable in the answering allocator
   (in range and not excluded / an index of the PD pool) and held by nobody there *)
Theorem C01_registry_alloc_unique :
  forall pfs ks st evs pre f pf ov vrf s obs k o post,
    reg_run_from Repaired (reg_init Repaired pfs) ks = Some (st, evs) ->
    evs = pre ++ (RAlloc f pf ov vrf s obs, ROAns k o) :: post ->
    exists ac a, cfg_of (reg_init Repaired pfs) f k = Some ac /\ aobs_key Repaired ac o = Some a /\
                 assignable (acfg_pool ac) a = true /\
                 lm_lookup a (registry_ledger Repaired pfs pre f k) = None.
Proof. exact registry_alloc_unique. Qed.
Print Assumptions C01_registry_alloc_unique.

(* a Reserve{IP,IANA,PD} walk that stopped at pool k is granted only if the ledger shows nobody else holding it there *)
Theorem C01_registry_reserve_unique :
  forall v pfs ks st evs pre f x s k post,
    reg_run_from v (reg_init v pfs) ks = Some (st, evs) ->
    evs = pre ++ (RReserve f x s (Some k), ROOk) :: post ->
    exists ac a, cfg_of (reg_init v pfs) f k = Some ac /\ akey v ac x = Some a /\
      (lm_lookup a (registry_ledger v pfs pre f k) = None \/
       lm_lookup a (registry_ledger v pfs pre f k) = Some s).
Proof. exact registry_reserve_unique. Qed.
Print Assumptions C01_registry_reserve_unique.

(* every PD allocator the (repaired) configuration step creates is in the domain of the PD arithmetic
   theorems, so answer_ok's `ip = index_to_prefix c i` gives alignment and containment by C01_pd_roundtrip *)
Theorem C01_spec_pd_wf :
  forall sp c, spec_geom Repaired FPD sp = Some (Some (APd c)) -> pd_net c < W128 -> pd_wf c = true.
Proof.
  intros sp c H N. unfold spec_geom in H. destruct (sp_net sp) as [[na bits]|]; [|discriminate].
  destruct (pd_new Repaired _) eqn:E; [|discriminate]. inversion H; subst c; clear H.
  apply C01_pd_plen_validated; assumption.
Qed.
Print Assumptions C01_spec_pd_wf.

(* ResolveV6 counterpart of C01_resolve4_stakes_its_answer: after a call that did not return nil, the
   IA_NA address in the context is leased to the caller in an IA_NA allocator (by this call's allocation, or
   by this call's reservation when the context brought it), a prefix allocated by this call is leased to
   the caller in a PD allocator, and a prefix the context brought was reserved for the caller - or no
   allocator of that family contains the value.  Nothing in the context (AllocatedIANAPool / AllocatedPDPool)
   substitutes for that. *)
Theorem C01_resolve6_stakes_its_answer :
  forall v st s cx obsna obspd wna wpd st' cx' r,
    resolve6_ctx v st s cx obsna obspd wna wpd = Some (st', cx', r) -> r6_nil r = false ->
    (forall a, r6_na r = Some a ->
       match c6_na cx with
       | None => staked_ans v st' FNA s (OA a)
       | Some b => b = a /\ (staked v st' FNA s (RA (Some a)) \/ unmanaged v st FNA (RA (Some a)))
       end) /\
    (forall o, r6_pd r = Some o -> c6_pd cx = None /\ staked_ans v st' FPD s o) /\
    (forall p, c6_pd cx = Some p -> staked v st' FPD s (RP p) \/ unmanaged v st FPD (RP p)).
Proof.
  intros v st s cx obsna obspd wna wpd st' cx' r H. unfold resolve6_ctx in H.
  destruct (resolve6 v st (c6_pf cx) (c6_naov cx) (c6_pdov cx) (c6_vrf cx) s (c6_na cx) (c6_pd cx) obsna obspd wna wpd)
    as [[st1 r1]|] eqn:E; [|discriminate].
  inversion H; subst. eapply resolve6_staked; eauto.
Qed.
Print Assumptions C01_resolve6_stakes_its_answer.

(* historical (fixed in 2cd02c0): NewPrefixAllocator accepted an IPv4 network; the index
   arithmetic then ran on ::ffff:10.0.0.0 and the second "prefix" of 10.0.0.0/24 -> /26 is 0:40::ffff:a00:0 *)
Definition ex_pd_v4 : pdcfg := {| pd_net := 167772160; pd_nbits := 24; pd_plen := 26; pd_v4 := true |}.
Theorem C01_pd_ipv4_network_refuted :
  pd_new V4Pd ex_pd_v4 = true /\ pd_new Repaired ex_pd_v4 = false /\
  pd_base ex_pd_v4 = 281470849515520 /\                       (* ::ffff:10.0.0.0 *)
  index_to_prefix ex_pd_v4 1 = 5070602400912917887457662337024.   (* 0:40::ffff:a00:0 *)
Proof. vm_compute. repeat split; reflexivity. Qed.
Print Assumptions C01_pd_ipv4_network_refuted.

(* ---- ReservePD / ReservePDInPool since 23daa44: a prefix that no PD pool contains (it is not one of any
   pool's delegations) leaves every allocator untouched; it is REFUSED when it overlaps the network of some
   PD pool (another length covering the network or lying inside it, or the delegated length at a position
   Contains rejects) and accepted as an unmanaged prefix otherwise *)
Theorem C01_reserve_pd_overlap_refused :
  forall v st p s st' r,
    reg_step v st (RReserve FPD (RP p) s None) = Some (st', r) ->
    st' = st /\ (forall e, In e (r_allocs st FPD) -> acontains v (fst (snd e)) (RP p) = false) /\
    ((pd_overlap v st (RP p) = true /\ r = ROOverlap) \/ (pd_overlap v st (RP p) = false /\ r = ROOk)).
Proof. exact reserve_pd_no_pool. Qed.
Print Assumptions C01_reserve_pd_overlap_refused.

Theorem C01_overlaps_spec :
  forall v c ip ones bits, overlaps v c (Pfx ip ones bits) = true ->
    prefix_to_index v c (Pfx ip ones bits) = None /\ bits = 128 /\
    exists A, norm ip = Some (V6, A) /\
              A / 2 ^ (128 - N.min (pd_nbits c) ones) = pd_base c / 2 ^ (128 - N.min (pd_nbits c) ones).
Proof. exact overlaps_spec. Qed.
Print Assumptions C01_overlaps_spec.

(* 2001:db8::/64 -> /72 (ex_pd): the covering /56 and an enclosed /80 are refused, a /72 elsewhere is accepted *)
Example C01_reserve_pd_overlap_nonvacuous :
  let st := reg_init Repaired ex_reg in
  reg_step Repaired st (RReserve FPD (RP (Pfx (Some (V6, pd_net ex_pd)) 56 128)) 1 None) = Some (st, ROOverlap) /\
  reg_step Repaired st (RReserve FPD (RP (Pfx (Some (V6, pd_net ex_pd + 65536)) 80 128)) 1 None) = Some (st, ROOverlap) /\
  reg_step Repaired st (RReserve FPD (RP (Pfx (Some (V6, pd_net ex_pd + 2 ^ 100)) 72 128)) 1 None) = Some (st, ROOk).
Proof. vm_compute. repeat split; reflexivity. Qed.
Print Assumptions C01_reserve_pd_overlap_nonvacuous.

(* ================================================================ profile order over the observable trace *)
(* [pool_full v pfs evs f k]: every assignable key of the allocator configured under k is held according to the
   ledger of the events evs (vacuous when no allocator was created for k).  The two statements below mention only
   the configuration (pools_of (reg_init ..), cfg_vrf) and the ledger of the EARLIER observable events. *)
Theorem C01_profile_order_trace :
  forall pfs ks st evs pre f pf ov vrf s obs k o post,
    reg_run_from Repaired (reg_init Repaired pfs) ks = Some (st, evs) ->
    evs = pre ++ (RAlloc f pf ov vrf s obs, ROAns k o) :: post ->
    (ov <> 0 /\ k = (pf, ov)) \/
    (exists l1 l2, pools_of (reg_init Repaired pfs) f pf = l1 ++ k :: l2 /\ cfg_vrf f k pfs = vrf /\
       (ov = 0 \/ pool_full Repaired pfs pre f (pf, ov)) /\
       forall k', In k' l1 -> cfg_vrf f k' pfs = vrf -> pool_full Repaired pfs pre f k').
Proof. exact profile_order_trace. Qed.
Print Assumptions C01_profile_order_trace.

Theorem C01_profile_exhausted_trace :
  forall pfs ks st evs pre f pf ov vrf s obs post,
    reg_run_from Repaired (reg_init Repaired pfs) ks = Some (st, evs) ->
    evs = pre ++ (RAlloc f pf ov vrf s obs, ROExhausted) :: post ->
    (ov = 0 \/ pool_full Repaired pfs pre f (pf, ov)) /\
    forall k, In k (pools_of (reg_init Repaired pfs) f pf) -> cfg_vrf f k pfs = vrf -> pool_full Repaired pfs pre f k.
Proof. exact profile_exhausted_trace. Qed.
Print Assumptions C01_profile_exhausted_trace.

(* ================================================================ no registry *)
(* GetGlobalRegistry() == nil (before InitGlobalRegistry / after ResetGlobalRegistry) and nil *Registry receivers:
   nothing is ever handed out, no reservation is ever refused *)
Theorem C01_nil_registry_hands_out_nothing :
  forall k o, reg_step_nil k = Some o -> (forall kk oo, o <> ROAns kk oo) /\ o <> ROReserved /\ o <> ROOverlap.
Proof. exact reg_step_nil_spec. Qed.
Print Assumptions C01_nil_registry_hands_out_nothing.

(* ResolveV4 with whatever registry there is: the offered address is staked for the caller (or unmanaged), or
   there is no registry and it is exactly the address the context brought - never an invented one.  This makes
   the "a registry exists" premise of C01_resolve4_stakes_its_answer explicit. *)
Theorem C01_resolve4_stakes_or_no_registry :
  forall v r s cx obs wobs r' cx' a pool,
    resolve4_ctx_opt v r s cx obs wobs = Some (r', cx', R4 a pool) ->
    match r with
    | Some st =>
        exists st', r' = Some st' /\
        ((exists k ac ps' a', (a' = a \/ a' = unmap a) /\
            assoc_find key_eqb k (r_allocs st' F4) = Some (ac, ps') /\ lm_lookup a' (leases ps') = Some s) \/
         (c4_addr cx = Some a /\ st' = st /\
          forall e, In e (r_allocs st F4) -> acontains v (fst (snd e)) (RA (Some a)) = false))
    | None => r' = None /\ c4_addr cx = Some a /\ pool = None /\ cx' = cx
    end.
Proof. exact resolve4_opt_staked. Qed.
Print Assumptions C01_resolve4_stakes_or_no_registry.

Example C01_no_registry_nonvacuous :
  resolve4_ctx_opt Repaired None 1 {| c4_pf := 1; c4_ov := 0; c4_vrf := 0; c4_addr := None; c4_pool := None |} None None
    = Some (None, {| c4_pf := 1; c4_ov := 0; c4_vrf := 0; c4_addr := None; c4_pool := None |}, R4Nil) /\
  (exists cx, resolve4_ctx_opt Repaired None 1 {| c4_pf := 1; c4_ov := 0; c4_vrf := 0; c4_addr := Some (V4, 30); c4_pool := None |} None None
    = Some (None, cx, R4 (V4, 30) None)) /\
  reg_step_opt Repaired None (RAlloc F4 1 0 0 1 None) = Some (None, ROExhausted).
Proof. vm_compute. repeat split; try reflexivity. eexists; reflexivity. Qed.
Print Assumptions C01_no_registry_nonvacuous.

(* the list C01_profile_order_trace speaks about, from the configuration: with one pool list per (family,
   profile name) - which the two Go maps of profiles guarantee - it is that profile's pools in ascending
   priority (stable insertion sort) for IPv4 and in configuration order for IA_NA and PD *)
Theorem C01_walked_list_is_configured :
  forall v pfs pf, NoDup (map (fun p => (rf_fam p, rf_name p)) pfs) -> In pf pfs ->
    pools_of (reg_init v pfs) (rf_fam pf) (rf_name pf) = ordered_keys pf.
Proof. exact reg_init_pools. Qed.
Print Assumptions C01_walked_list_is_configured.

(* ================================================================ allocator.NewContext: AAA attributes -> offer *)
(* which attribute decides what: the context of a session with an IPv4 profile carries an address iff
   "ipv4_address" is a string that parses (the 16-byte form net.ParseIP returns); absent, non-string or
   unparseable leaves it nil; "pool" (a string) is the override; without a profile name nothing is read *)
Theorem C01_new_context4 :
  forall pf vrf at4,
    let cx := new_context4 pf vrf at4 in
    c4_pf cx = pf /\ c4_vrf cx = vrf /\ c4_pool cx = None /\
    (forall b, c4_addr cx = Some b <-> pf <> 0 /\ exists a, at_v4 at4 = AvStr (Some a) /\ b = go_parse_ip a) /\
    c4_ov cx = (if N.eqb pf 0 then 0 else match at_pool at4 with AvStr n => n | _ => 0 end).
Proof. exact new_context4_fields. Qed.
Print Assumptions C01_new_context4.

(* end to end: what ResolveV4 offers for a context - with C01_new_context4: if AAA supplied a parseable address it
   is that address and nothing else (never silently replaced by a pool address), otherwise it is an answer of
   AllocateFromProfile for the profile, the AAA "pool" override and the VRF (C01_profile_order_trace then applies);
   either way C01_resolve4_stakes_or_no_registry says it is staked for the session *)
Theorem C01_aaa_to_offer :
  forall v r s cx obs wobs r' cx' b pool,
    resolve4_ctx_opt v r s cx obs wobs = Some (r', cx', R4 b pool) ->
    match c4_addr cx with
    | Some a0 => b = a0 /\ pool = None
    | None => exists st st' k, r = Some st /\ r' = Some st' /\ pool = Some k /\
                reg_step v st (RAlloc F4 (c4_pf cx) (c4_ov cx) (c4_vrf cx) s obs) = Some (st', ROAns k (OA b))
    end.
Proof. exact resolve4_from_context. Qed.
Print Assumptions C01_aaa_to_offer.

Example C01_new_context_nonvacuous :
  c4_addr (new_context4 1 0 {| at_v4 := AvStr (Some (V4, 30)); at_pool := AvStr 3 |}) = Some (V6, 281470681743390) /\
  c4_ov (new_context4 1 0 {| at_v4 := AvStr (Some (V4, 30)); at_pool := AvStr 3 |}) = 3 /\
  c4_addr (new_context4 1 0 {| at_v4 := AvStr None; at_pool := AvNotString |}) = None /\
  c4_addr (new_context4 0 0 {| at_v4 := AvStr (Some (V4, 30)); at_pool := AvStr 3 |}) = None /\
  c6_pd (new_context6 1 0 {| at_v6 := AvAbsent; at_pd := AvStr (Some ((V6, pd_net ex_pd + 77), 72));
                             at_napool := AvAbsent; at_pdpool := AvAbsent |}) = Some (Pfx (Some (V6, pd_net ex_pd)) 72 128).
Proof. vm_compute. repeat split; reflexivity. Qed.
Print Assumptions C01_new_context_nonvacuous.

(* the IPv6 half of NewContext: "ipv6_address" (net.ParseIP), "ipv6_prefix" (net.ParseCIDR: the masked network
   with its CIDR mask; None when the text is no CIDR), "iana_pool" / "pd_pool" overrides; with C01_resolve6_stakes_its_answer
   whatever of these the context carries after a ResolveV6 that did not return nil is staked for the session *)
Theorem C01_new_context6 :
  forall pf vrf at6,
    let cx := new_context6 pf vrf at6 in
    c6_pf cx = pf /\ c6_vrf cx = vrf /\ c6_napool cx = None /\ c6_pdpool cx = None /\
    (forall b, c6_na cx = Some b <-> pf <> 0 /\ exists a, at_v6 at6 = AvStr (Some a) /\ b = go_parse_ip a) /\
    (forall p, c6_pd cx = Some p <->
               pf <> 0 /\ exists a len, at_pd at6 = AvStr (Some (a, len)) /\ go_parse_cidr a len = Some p) /\
    c6_naov cx = (if N.eqb pf 0 then 0 else match at_napool at6 with AvStr n => n | _ => 0 end) /\
    c6_pdov cx = (if N.eqb pf 0 then 0 else match at_pdpool at6 with AvStr n => n | _ => 0 end).
Proof. exact new_context6_fields. Qed.
Print Assumptions C01_new_context6.

(* ================================================================ direction changes (HA role changes) *)
(* PoolAllocator/PrefixAllocator.SetDirection: no lease changes; under the invariant the free list is only permuted *)
Theorem C01_direction_change_pool :
  forall c ks st evs b st' o,
    pool_run Repaired c ks = Some (st, evs) -> pool_step Repaired c st (CSetDir b) = Some (st', o) ->
    leases st' = leases st /\ Permutation.Permutation (free st') (free st).
Proof.
  intros c ks st evs b st' o H S.
  destruct (setdir_pool_safe c st b st' o) as [L [P _]]; [eapply inv_run; [apply inv_init | exact H] | exact S | auto].
Qed.
Print Assumptions C01_direction_change_pool.

(* Registry.SetAllocDirection: no lease map and no allocator geometry changes in any family; together with
   C01_registry_alloc_unique (whose histories contain direction changes anywhere) whatever is handed out after any
   number of role changes is assignable and unheld *)
Theorem C01_direction_change_registry :
  forall v st b st' o, reg_step v st (RSetDir b) = Some (st', o) ->
    (forall f k, leases_of st' f k = leases_of st f k) /\ (forall f k, cfg_of st' f k = cfg_of st f k).
Proof. exact setdir_registry_safe. Qed.
Print Assumptions C01_direction_change_registry.

(* what a direction means for the code's own policy (pop the end of the slice): right after the free list was
   (re)built - at construction and at every real direction change - it takes the LOWEST free assignable address
   when ascending, the HIGHEST when descending.  Model-level statement about the transcribed policy; the
   correspondence does not constrain which free address an implementation picks. *)
Theorem C01_direction_semantics :
  forall c m b,
    let st := {| free := build_free c m b; leases := m; asc := b |} in
    match lifo_choice st with
    | Some a => In a (free st) /\
                forall x, In x (free st) -> x <> a -> if b then snd a < snd x else snd x < snd a
    | None => free st = []
    end.
Proof. exact rebuilt_direction. Qed.
Print Assumptions C01_direction_semantics.

(* ResolveV6 twin of C01_resolve4_stakes_or_no_registry *)
Theorem C01_resolve6_stakes_or_no_registry :
  forall v r s cx obsna obspd wna wpd r' cx' x,
    resolve6_ctx_opt v r s cx obsna obspd wna wpd = Some (r', cx', x) -> r6_nil x = false ->
    match r with
    | Some st =>
        exists st', r' = Some st' /\
        (forall a, r6_na x = Some a ->
           match c6_na cx with
           | None => staked_ans v st' FNA s (OA a)
           | Some b => b = a /\ (staked v st' FNA s (RA (Some a)) \/ unmanaged v st FNA (RA (Some a)))
           end) /\
        (forall o, r6_pd x = Some o -> c6_pd cx = None /\ staked_ans v st' FPD s o) /\
        (forall p, c6_pd cx = Some p -> staked v st' FPD s (RP p) \/ unmanaged v st FPD (RP p))
    | None =>
        r' = None /\ cx' = cx /\ r6_na x = c6_na cx /\ r6_pd x = None /\ r6_napool x = None /\ r6_pdpool x = None /\
        (c6_na cx <> None \/ c6_pd cx <> None)
    end.
Proof. exact resolve6_opt_staked. Qed.
Print Assumptions C01_resolve6_stakes_or_no_registry.

Example C01_direction_nonvacuous :
  lifo_choice (pool_init ex_pool) = Some (V4, 167772410) /\
  (exists st o, pool_step Repaired ex_pool (pool_init ex_pool) (CSetDir false) = Some (st, o) /\
                lifo_choice st = Some (V4, 167772421)).
Proof. split; [vm_compute; reflexivity | eexists; eexists; split; vm_compute; reflexivity]. Qed.
Print Assumptions C01_direction_nonvacuous.
