From OV Require Import Common.Base C01.Model.
Example C01_placeholder : pool_run Repaired {| p_fam := V4; p_lo := 1; p_hi := 2; p_excl := [] |} [] <> None.
Proof. vm_compute. discriminate. Qed.
Print Assumptions C01_placeholder.
