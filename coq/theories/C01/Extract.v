From Coq Require Import Extraction ExtrOcamlBasic.
From OV Require Import Common.Base C01.Model.
Extraction Language OCaml.
Extraction "C01_model.ml" pool_init pool_call pool_step alloc_lifo lifo_choice ledger assignable contains
  pd_init pd_step pd_valid pd_wf index_to_prefix prefix_to_index pd_count
  pool_geom pd_new reg_config reg_init reg_step pd_overlap overlaps alloc_target acontains akey r_allocs pools_of resolve4 resolve6 resolve4_ctx resolve6_ctx reg_step_opt resolve4_ctx_opt resolve6_ctx_opt new_context4 new_context6.
