(* C01/Proofs.v — invariants of the PoolAllocator state machine (all histories). *)
From Coq Require Import ZifyBool ZifyNat ZifyN Permutation.
From OV Require Import Common.Base C01.Model.
Local Open Scope N_scope.

(* ---------------------------------------------------------------- equality on addresses *)
Lemma fam_eqb_eq a b : fam_eqb a b = true <-> a = b.
Proof. destruct a, b; simpl; split; congruence. Qed.

Lemma addr_eqb_eq a b : addr_eqb a b = true <-> a = b.
Proof.
  destruct a as [f n], b as [g m]; unfold addr_eqb; simpl.
  rewrite andb_true_iff, fam_eqb_eq, N.eqb_eq. split; [intros [-> ->]; reflexivity | intros H; inversion H; auto].
Qed.
Lemma addr_eqb_refl a : addr_eqb a a = true.
Proof. apply addr_eqb_eq; reflexivity. Qed.
Lemma addr_eqb_neq a b : addr_eqb a b = false <-> a <> b.
Proof.
  split; intros H.
  - intros E. apply addr_eqb_eq in E. congruence.
  - destruct (addr_eqb a b) eqn:E; [apply addr_eqb_eq in E; contradiction | reflexivity].
Qed.
Lemma addr_eqb_sym a b : addr_eqb a b = addr_eqb b a.
Proof.
  destruct (addr_eqb a b) eqn:E.
  - apply addr_eqb_eq in E; subst; symmetry; apply addr_eqb_refl.
  - symmetry. apply addr_eqb_neq. apply addr_eqb_neq in E. congruence.
Qed.
Lemma addr_dec (a b : addr) : {a = b} + {a <> b}.
Proof. destruct (addr_eqb a b) eqn:E; [left; apply addr_eqb_eq; auto | right; apply addr_eqb_neq; auto]. Qed.

Lemma mem_addr_In a l : mem_addr a l = true <-> In a l.
Proof.
  unfold mem_addr. rewrite existsb_exists. split.
  - intros [x [Hx E]]. apply addr_eqb_eq in E; subst; auto.
  - intros H. exists a; split; auto using addr_eqb_refl.
Qed.

(* ---------------------------------------------------------------- lease map *)
Lemma lm_lookup_insert a b s m :
  lm_lookup a (lm_insert b s m) = if addr_eqb a b then Some s else lm_lookup a m.
Proof.
  unfold lm_lookup, lm_insert, lm_remove. simpl.
  destruct (addr_eqb a b) eqn:E; [reflexivity|].
  induction m as [|[k v] m IH]; simpl; [reflexivity|].
  destruct (addr_eqb b k) eqn:Ebk; simpl.
  - apply addr_eqb_eq in Ebk; subst k. rewrite E. exact IH.
  - destruct (addr_eqb a k); [reflexivity | exact IH].
Qed.

Lemma lm_lookup_remove a b m :
  lm_lookup a (lm_remove b m) = if addr_eqb a b then None else lm_lookup a m.
Proof.
  unfold lm_lookup, lm_remove.
  destruct (addr_eqb a b) eqn:E.
  - apply addr_eqb_eq in E; subst b.
    induction m as [|[k v] m IH]; simpl; [reflexivity|].
    destruct (addr_eqb a k) eqn:Eak; simpl; [exact IH|]. rewrite Eak. exact IH.
  - induction m as [|[k v] m IH]; simpl; [reflexivity|].
    destruct (addr_eqb b k) eqn:Ebk; simpl.
    + apply addr_eqb_eq in Ebk; subst k. rewrite E. exact IH.
    + destruct (addr_eqb a k); [reflexivity | exact IH].
Qed.

Lemma lm_mem_lookup a m : lm_mem a m = false <-> lm_lookup a m = None.
Proof. unfold lm_mem. destruct (lm_lookup a m); split; congruence. Qed.

(* ---------------------------------------------------------------- remove_first *)
Lemma remove_first_notin a l : ~ In a l -> remove_first a l = l.
Proof.
  induction l as [|x r IH]; simpl; intros H; [reflexivity|].
  destruct (addr_eqb x a) eqn:E.
  - apply addr_eqb_eq in E; subst; exfalso; auto.
  - rewrite IH; auto.
Qed.

Lemma remove_first_In a l x : NoDup l -> (In x (remove_first a l) <-> In x l /\ x <> a).
Proof.
  induction l as [|y r IH]; simpl; intros ND.
  - tauto.
  - inversion ND as [|? ? Hy NDr]; subst.
    destruct (addr_eqb y a) eqn:E.
    + apply addr_eqb_eq in E; subst y. split.
      * intros H; split; auto. intros ->; contradiction.
      * intros [[H|H] Hne]; [congruence | exact H].
    + apply addr_eqb_neq in E. simpl. rewrite IH by assumption. split.
      * intros [H | [H Hne]]; [subst; auto | auto].
      * intros [[H|H] Hne]; auto.
Qed.

Lemma remove_first_NoDup a l : NoDup l -> NoDup (remove_first a l).
Proof.
  induction l as [|y r IH]; simpl; intros ND; [constructor|].
  inversion ND as [|? ? Hy NDr]; subst.
  destruct (addr_eqb y a); [assumption|].
  constructor; [|auto]. rewrite remove_first_In by assumption. tauto.
Qed.

Lemma remove_first_length a l : In a l -> S (length (remove_first a l)) = length l.
Proof.
  induction l as [|y r IH]; simpl; intros H; [contradiction|].
  destruct (addr_eqb y a) eqn:E; [reflexivity|].
  simpl. f_equal. apply IH. destruct H as [H|H]; [|exact H].
  subst. rewrite addr_eqb_refl in E. discriminate.
Qed.

(* ---------------------------------------------------------------- the range *)
Lemma range_addrs_In c a : In a (range_addrs c) <-> in_range c a = true.
Proof.
  unfold range_addrs, in_range. rewrite in_map_iff. destruct a as [f n]; simpl.
  rewrite !andb_true_iff, fam_eqb_eq, !N.leb_le. split.
  - intros [i [E Hi]]. apply in_seq in Hi. inversion E; subst. repeat split; lia.
  - intros [[-> H1] H2]. exists (N.to_nat (n - p_lo c)). split.
    + f_equal. lia.
    + apply in_seq. lia.
Qed.

Lemma range_addrs_NoDup c : NoDup (range_addrs c).
Proof.
  unfold range_addrs. apply FinFun.Injective_map_NoDup; [|apply seq_NoDup].
  intros i j E. inversion E. lia.
Qed.

Lemma NoDup_filter {A} (f : A -> bool) l : NoDup l -> NoDup (filter f l).
Proof.
  induction l as [|x r IH]; simpl; intros ND; [constructor|].
  inversion ND; subst. destruct (f x); [constructor|]; auto.
  rewrite filter_In. tauto.
Qed.

Lemma NoDup_snoc {A} (l : list A) a : NoDup l -> ~ In a l -> NoDup (l ++ [a]).
Proof.
  induction l as [|x r IH]; simpl; intros ND H.
  - constructor; [intros []|constructor].
  - inversion ND; subst. constructor.
    + rewrite in_app_iff. simpl. intros [?|[?|[]]]; [contradiction | subst; tauto].
    + apply IH; tauto.
Qed.

(* ---------------------------------------------------------------- the invariant *)
Definition Inv (c : pcfg) (st : pstate) : Prop :=
  NoDup (free st) /\
  forall a, In a (free st) <-> (assignable c a = true /\ lm_lookup a (leases st) = None).

Lemma build_free_spec c m b :
  NoDup (build_free c m b) /\
  forall a, In a (build_free c m b) <-> (assignable c a = true /\ lm_lookup a m = None).
Proof.
  unfold build_free.
  set (l := filter _ (range_addrs c)).
  assert (ND : NoDup l) by (apply NoDup_filter, range_addrs_NoDup).
  assert (M : forall a, In a l <-> (assignable c a = true /\ lm_lookup a m = None)).
  { intros a. unfold l. rewrite filter_In, range_addrs_In. unfold assignable.
    rewrite !andb_true_iff, !negb_true_iff, lm_mem_lookup. tauto. }
  destruct b.
  - split; [apply NoDup_rev; exact ND | intros a; rewrite <- in_rev; apply M].
  - split; assumption.
Qed.

Lemma inv_init c : Inv c (pool_init c).
Proof. unfold Inv, pool_init; cbn [free leases]. apply (build_free_spec c [] true). Qed.

Lemma inv_step c st k st' o :
  Inv c st -> pool_step Repaired c st k = Some (st', o) -> Inv c st'.
Proof.
  intros [ND M] H. destruct k as [s [a|] | [a|] s | [a|] | b | ]; simpl in H.
  - (* alloc, answer a *)
    destruct (mem_addr a (free st)) eqn:E; [|discriminate]. inversion H; subst; clear H.
    apply mem_addr_In in E. split; simpl.
    + apply remove_first_NoDup; exact ND.
    + intros x. rewrite remove_first_In by exact ND. rewrite lm_lookup_insert, M.
      destruct (addr_eqb x a) eqn:Ex.
      * apply addr_eqb_eq in Ex. subst. split; [tauto | intros [_ ?]; discriminate].
      * apply addr_eqb_neq in Ex. tauto.
  - revert H. destruct (free st) eqn:F; intros H; inversion H; subst. unfold Inv; rewrite F; split; assumption.
  - (* reserve *)
    destruct (lm_lookup a (leases st)) as [s'|] eqn:L.
    + destruct (N.eqb s' s) eqn:Es; inversion H; subst; clear H; [|split; assumption].
      split; simpl; [exact ND|]. intros x. rewrite lm_lookup_insert, M.
      destruct (addr_eqb x a) eqn:Ex.
      * apply addr_eqb_eq in Ex. subst. rewrite L. split; intros [_ ?]; discriminate.
      * tauto.
    + inversion H; subst; clear H. split; simpl.
      * apply remove_first_NoDup; exact ND.
      * intros x. rewrite remove_first_In by exact ND. rewrite lm_lookup_insert, M.
        destruct (addr_eqb x a) eqn:Ex.
        -- apply addr_eqb_eq in Ex. subst. split; [tauto | intros [_ ?]; discriminate].
        -- apply addr_eqb_neq in Ex. tauto.
  - inversion H; subst; split; assumption.
  - (* release *)
    destruct (lm_lookup a (leases st)) as [s'|] eqn:L; [|inversion H; subst; split; assumption].
    inversion H; subst; clear H. simpl.
    assert (Hna : ~ In a (free st)) by (rewrite M, L; intros [_ ?]; discriminate).
    destruct (assignable c a) eqn:As; split; simpl.
    + apply NoDup_snoc; assumption.
    + intros x. rewrite in_app_iff, lm_lookup_remove, M. simpl.
      destruct (addr_eqb x a) eqn:Ex.
      * apply addr_eqb_eq in Ex. subst. tauto.
      * apply addr_eqb_neq in Ex. split; [intros [?|[?|[]]]; [tauto | congruence] | tauto].
    + exact ND.
    + intros x. rewrite lm_lookup_remove, M.
      destruct (addr_eqb x a) eqn:Ex.
      * apply addr_eqb_eq in Ex. subst. rewrite L, As. split; intros [? ?]; discriminate.
      * tauto.
  - inversion H; subst; split; assumption.
  - (* set direction *)
    destruct (Bool.eqb b (asc st)); inversion H; subst; clear H; [split; assumption|].
    unfold Inv; simpl. apply build_free_spec.
  - inversion H; subst; split; assumption.
Qed.

(* ---------------------------------------------------------------- histories *)
Lemma inv_call c st k st' o :
  Inv c st -> pool_call Repaired c st k = Some (st', o) -> Inv c st'.
Proof. unfold pool_call. apply inv_step. Qed.

Lemma inv_run c : forall ks st st' evs,
  Inv c st -> pool_run_from Repaired c st ks = Some (st', evs) -> Inv c st'.
Proof.
  induction ks as [|k r IH]; simpl; intros st st' evs HI H.
  - inversion H; subst; exact HI.
  - destruct (pool_call Repaired c st k) as [[st1 o]|] eqn:E; [|discriminate].
    destruct (pool_run_from Repaired c st1 r) as [[st2 evs']|] eqn:R; [|discriminate].
    inversion H; subst. eapply IH; [eapply inv_call; eauto | eauto].
Qed.

Lemma lm_remove_absent a m : lm_lookup a m = None -> lm_remove a m = m.
Proof.
  unfold lm_lookup, lm_remove. induction m as [|[k v] m IH]; simpl; [reflexivity|].
  destruct (addr_eqb a k) eqn:E; simpl; [discriminate|]. intros H. rewrite IH; auto.
Qed.

Lemma ledger_step_agrees v c st k st' o :
  pool_step v c st k = Some (st', o) -> leases st' = ledger_step (leases st) (k, o).
Proof.
  intros H. destruct k as [s [a|] | [a|] s | [a|] | b | ]; simpl in H.
  - destruct (mem_addr a (free st)); inversion H; subst; reflexivity.
  - destruct (free st); inversion H; subst; reflexivity.
  - destruct (lm_lookup a (leases st)) as [s'|] eqn:L.
    + destruct (N.eqb s' s); inversion H; subst; reflexivity.
    + inversion H; subst; reflexivity.
  - inversion H; subst; reflexivity.
  - destruct (lm_lookup a (leases st)) as [s'|] eqn:L; inversion H; subst; simpl.
    + reflexivity.
    + symmetry; apply lm_remove_absent; exact L.
  - inversion H; subst; reflexivity.
  - destruct (Bool.eqb b (asc st)); inversion H; subst; reflexivity.
  - inversion H; subst; reflexivity.
Qed.

Lemma ledger_run v c : forall ks st st' evs,
  pool_run_from v c st ks = Some (st', evs) -> leases st' = fold_left ledger_step evs (leases st).
Proof.
  induction ks as [|k r IH]; simpl; intros st st' evs H.
  - inversion H; subst; reflexivity.
  - destruct (pool_call v c st k) as [[st1 o]|] eqn:E; [|discriminate].
    destruct (pool_run_from v c st1 r) as [[st2 evs']|] eqn:R; [|discriminate].
    inversion H; subst. cbn [fold_left]. unfold pool_call in E. apply ledger_step_agrees in E.
    rewrite <- E. eapply IH; eauto.
Qed.

Lemma ledger_agrees v c ks st evs :
  pool_run v c ks = Some (st, evs) -> leases st = ledger evs.
Proof. intros H. apply ledger_run in H. exact H. Qed.

(* an event of an accepted history: the state before it was reached by the events before it *)
Lemma run_split v c : forall ks st st' evs pre e post,
  pool_run_from v c st ks = Some (st', evs) -> evs = pre ++ e :: post ->
  exists ks1 st1 st2,
    pool_run_from v c st ks1 = Some (st1, pre) /\ pool_step v c st1 (fst e) = Some (st2, snd e).
Proof.
  induction ks as [|k r IH]; simpl; intros st st' evs pre e post H E.
  - inversion H; subst. destruct pre; discriminate.
  - destruct (pool_call v c st k) as [[st1 o]|] eqn:C; [|discriminate].
    destruct (pool_run_from v c st1 r) as [[st2 evs']|] eqn:R; [|discriminate].
    injection H as Hst Hev. rewrite E in Hev. clear E.
    destruct pre as [|p pre]; simpl in Hev; injection Hev as Hp Hevs.
    + subst e. exists [], st, st1. split; [reflexivity | exact C].
    + destruct (IH _ _ _ _ _ _ R Hevs) as [ks1 [sa [sb [H1 H2]]]].
      exists (k :: ks1), sa, sb. split; [|exact H2]. simpl. rewrite C, H1. subst p. reflexivity.
Qed.

(* ---------------------------------------------------------------- property statements *)
(* every Allocate answer of every accepted history is assignable and held by nobody *)
Lemma alloc_confined_unique c ks st evs pre s obs a post :
  pool_run Repaired c ks = Some (st, evs) -> evs = pre ++ (CAlloc s obs, OAddr a) :: post ->
  assignable c a = true /\ lm_lookup a (ledger pre) = None.
Proof.
  intros H E. destruct (run_split _ _ _ _ _ _ _ _ _ H E) as [ks1 [st1 [st2 [H1 H2]]]].
  assert (HI : Inv c st1) by (eapply inv_run; [apply inv_init | exact H1]).
  rewrite <- (ledger_agrees _ _ _ _ _ H1).
  simpl in H2. destruct obs as [b|].
  - destruct (mem_addr b (free st1)) eqn:M; [|discriminate]. inversion H2; subst.
    apply mem_addr_In in M. apply HI in M. exact M.
  - destruct (free st1); inversion H2.
Qed.

Lemma reserve_unique v c ks st evs pre s a o post :
  pool_run v c ks = Some (st, evs) -> evs = pre ++ (CReserve (Some a) s, o) :: post ->
  (o = OOk /\ (lm_lookup a (ledger pre) = None \/ lm_lookup a (ledger pre) = Some s)) \/
  (o = OReserved /\ exists s', lm_lookup a (ledger pre) = Some s' /\ s' <> s).
Proof.
  intros H E. destruct (run_split _ _ _ _ _ _ _ _ _ H E) as [ks1 [st1 [st2 [H1 H2]]]].
  rewrite <- (ledger_agrees _ _ _ _ _ H1). simpl in H2.
  destruct (lm_lookup a (leases st1)) as [s'|].
  - destruct (N.eqb_spec s' s); inversion H2; subst; [left; auto | right; split; eauto].
  - inversion H2; subst; left; auto.
Qed.

(* exhaustion is reported only when every assignable address is held *)
Lemma exhausted_only_when_full c ks st evs pre s obs post :
  pool_run Repaired c ks = Some (st, evs) -> evs = pre ++ (CAlloc s obs, OExhausted) :: post ->
  forall a, assignable c a = true -> lm_lookup a (ledger pre) <> None.
Proof.
  intros H E a As. destruct (run_split _ _ _ _ _ _ _ _ _ H E) as [ks1 [st1 [st2 [H1 H2]]]].
  assert (HI : Inv c st1) by (eapply inv_run; [apply inv_init | exact H1]).
  rewrite <- (ledger_agrees _ _ _ _ _ H1). intros L.
  assert (In a (free st1)) as Hin by (apply HI; auto).
  simpl in H2. destruct obs as [b|].
  - destruct (mem_addr b (free st1)); inversion H2.
  - destruct (free st1); [contradiction | discriminate].
Qed.

(* the free list is exactly assignable minus held, without duplicates *)
Lemma free_is_assignable_minus_held c ks st evs :
  pool_run Repaired c ks = Some (st, evs) ->
  NoDup (free st) /\
  forall a, In a (free st) <-> (assignable c a = true /\ lm_lookup a (ledger evs) = None).
Proof.
  intros H. rewrite <- (ledger_agrees _ _ _ _ _ H).
  eapply inv_run; [apply inv_init | exact H].
Qed.

Definition assignable_list (c : pcfg) : list addr :=
  filter (fun a => negb (is_excluded c a)) (range_addrs c).

Lemma filter_partition_length {A} (f : A -> bool) l :
  (length (filter f l) + length (filter (fun x => negb (f x)) l) = length l)%nat.
Proof. induction l as [|x r IH]; simpl; [reflexivity|]. destruct (f x); simpl; lia. Qed.

Lemma available_count c ks st evs :
  pool_run Repaired c ks = Some (st, evs) ->
  (length (free st) + length (filter (fun a => lm_mem a (ledger evs)) (assignable_list c))
   = length (assignable_list c))%nat.
Proof.
  intros H. destruct (free_is_assignable_minus_held _ _ _ _ H) as [ND M].
  rewrite <- (filter_partition_length (fun a => lm_mem a (ledger evs)) (assignable_list c)).
  rewrite Nat.add_comm. f_equal.
  apply Permutation_length. apply NoDup_Permutation; [exact ND | |].
  - apply NoDup_filter, NoDup_filter, range_addrs_NoDup.
  - intros a. rewrite M. unfold assignable_list. rewrite !filter_In, range_addrs_In.
    unfold assignable. rewrite andb_true_iff, !negb_true_iff, lm_mem_lookup. tauto.
Qed.

(* a released assignable address can be allocated immediately *)
Lemma release_then_allocatable c st a st1 o s :
  Inv c st -> pool_step Repaired c st (CRelease (Some a)) = Some (st1, o) -> assignable c a = true ->
  exists st2, pool_step Repaired c st1 (CAlloc s (Some a)) = Some (st2, OAddr a).
Proof.
  intros HI H As.
  assert (HI1 : Inv c st1) by (eapply inv_step; eauto).
  assert (L : lm_lookup a (leases st1) = None).
  { simpl in H. destruct (lm_lookup a (leases st)) eqn:E; inversion H; subst; simpl; [|exact E].
    rewrite lm_lookup_remove, addr_eqb_refl. reflexivity. }
  assert (In a (free st1)) as Hin by (apply HI1; auto).
  simpl. apply mem_addr_In in Hin. rewrite Hin. eexists; reflexivity.
Qed.

(* the policy the code implements (pop the end of the free slice) is an accepted choice *)
Lemma remove_first_last a l : ~ In a l -> remove_first a (l ++ [a]) = l.
Proof.
  induction l as [|x r IH]; simpl; intros H.
  - rewrite addr_eqb_refl. reflexivity.
  - destruct (addr_eqb x a) eqn:E; [apply addr_eqb_eq in E; subst; tauto|]. rewrite IH; tauto.
Qed.

Lemma lifo_admissible v c st s :
  NoDup (free st) -> pool_step v c st (CAlloc s (lifo_choice st)) = Some (alloc_lifo st s).
Proof.
  intros ND. unfold lifo_choice, alloc_lifo.
  destruct (rev (free st)) as [|a r] eqn:R.
  - assert (free st = []) as F by (rewrite <- (rev_involutive (free st)), R; reflexivity).
    simpl. rewrite F. reflexivity.
  - assert (free st = rev r ++ [a]) as F by (rewrite <- (rev_involutive (free st)), R; reflexivity).
    simpl. rewrite F in *.
    assert (mem_addr a (rev r ++ [a]) = true) as M by (apply mem_addr_In, in_or_app; right; left; reflexivity).
    rewrite M. rewrite remove_first_last; [reflexivity|].
    apply NoDup_remove_2 in ND. rewrite app_nil_r in ND. exact ND.
Qed.

Lemma lifo_progress c ks st evs s :
  pool_run Repaired c ks = Some (st, evs) ->
  pool_step Repaired c st (CAlloc s (lifo_choice st)) = Some (alloc_lifo st s).
Proof.
  intros H. apply lifo_admissible. eapply inv_run; [apply inv_init | exact H].
Qed.

(* generic counting consequence of the invariant *)
Lemma inv_count c st : Inv c st ->
  (length (free st) + length (filter (fun a => lm_mem a (leases st)) (assignable_list c))
   = length (assignable_list c))%nat.
Proof.
  intros [ND M].
  rewrite <- (filter_partition_length (fun a => lm_mem a (leases st)) (assignable_list c)).
  rewrite Nat.add_comm. f_equal.
  apply Permutation_length. apply NoDup_Permutation; [exact ND | |].
  - apply NoDup_filter, NoDup_filter, range_addrs_NoDup.
  - intros a. rewrite M. unfold assignable_list. rewrite !filter_In, range_addrs_In.
    unfold assignable. rewrite andb_true_iff, !negb_true_iff, lm_mem_lookup. tauto.
Qed.

(* ---------------------------------------------------------------- the range loop *)
Set Default Timeout 60.
Lemma xz_loops hi : forall fuel n, range_loop false fuel (XZ n) hi = None.
Proof.
  induction fuel as [|k IH]; intros n; [reflexivity|].
  cbn [range_loop xvalid xle negb orb andb xnext].
  destruct (N.eqb n (fam_max V6)); rewrite IH; reflexivity.
Qed.

(* before a1ebdc8 (unguarded condition): when the range end is the last address of its family, or the range runs from IPv4 to
   IPv6, the loop condition never becomes false *)
Lemma range_loop_step g k x hi :
  range_loop g (S k) x hi =
  if (negb g || xvalid x) && xle x hi
  then match range_loop g k (xnext x) hi with Some l => Some (x :: l) | None => None end
  else Some [].
Proof. reflexivity. Qed.

Lemma xle_same f n h : xle (XA (f, n)) (f, h) = N.leb n h.
Proof. destruct f; reflexivity. Qed.

Lemma range_loop_diverges hi : forall fuel lo,
  snd lo <= fam_max (fst lo) -> xle (XA lo) hi = true ->
  fam_eqb (fst lo) (fst hi) && N.ltb (snd hi) (fam_max (fst hi)) = false ->
  range_loop false fuel (XA lo) hi = None.
Proof.
  destruct hi as [fh h].
  induction fuel as [|k IH]; intros [f n] Hn Hle Hc; [reflexivity|].
  rewrite range_loop_step, Hle.
  change (negb false || xvalid (XA (f, n))) with true. cbv beta iota. rewrite andb_true_l.
  change (xnext (XA (f, n))) with (if N.eqb n (fam_max f) then XZ 0 else XA (f, n + 1)).
  assert (Hn' : n <= fam_max f) by exact Hn.
  destruct (N.eqb_spec n (fam_max f)) as [E|E]; [rewrite xz_loops; reflexivity|].
  rewrite IH; [reflexivity | | | exact Hc].
  - change (n + 1 <= fam_max f). lia.
  - destruct f, fh.
    + rewrite xle_same. assert (Hc' : N.ltb h (fam_max V4) = false) by exact Hc.
      apply N.leb_le. apply N.ltb_ge in Hc'. lia.
    + reflexivity.
    + discriminate Hle.
    + rewrite xle_same. assert (Hc' : N.ltb h (fam_max V6) = false) by exact Hc.
      apply N.leb_le. apply N.ltb_ge in Hc'. lia.
Qed.

Lemma range_terminates_false_diverges v lo hi :
  snd lo <= fam_max (fst lo) -> range_terminates v lo hi = false ->
  forall fuel, range_loop false fuel (XA lo) hi = None.
Proof.
  unfold range_terminates. intros Hn H fuel.
  apply orb_false_iff in H. destruct H as [H H3]. apply orb_false_iff in H. destruct H as [_ H2].
  apply negb_false_iff in H2. apply range_loop_diverges; assumption.
Qed.

Lemma seq_map_shift (g : N -> addr) lo k :
  map (fun i => g (lo + N.of_nat i)) (seq 1 k) = map (fun i => g (lo + 1 + N.of_nat i)) (seq 0 k).
Proof.
  rewrite <- seq_shift, map_map. apply map_ext. intros i. f_equal. lia.
Qed.

(* same family, and either the guarded (repaired) condition or a range end below the last address:
   the loop returns exactly the addresses lo..hi *)
Lemma range_loop_terminates g f hi : hi <= fam_max f -> (g = true \/ hi < fam_max f) ->
  forall k lo, k = N.to_nat (hi + 1 - lo) ->
  range_loop g (S k) (XA (f, lo)) (f, hi) =
  Some (map XA (map (fun i => (f, lo + N.of_nat i)) (seq 0%nat k))).
Proof.
  intros Hh Hg. induction k as [|k IH]; intros lo Hk.
  - rewrite range_loop_step, xle_same.
    assert (N.leb lo hi = false) as E by (apply N.leb_gt; lia).
    rewrite E, andb_false_r. reflexivity.
  - assert (Hlo : lo <= hi) by lia.
    rewrite range_loop_step, xle_same.
    assert (N.leb lo hi = true) as E by (apply N.leb_le; exact Hlo).
    rewrite E. change (xvalid (XA (f, lo))) with true. rewrite orb_true_r, andb_true_l.
    change (xnext (XA (f, lo))) with (if N.eqb lo (fam_max f) then XZ 0 else XA (f, lo + 1)).
    destruct (N.eqb_spec lo (fam_max f)) as [El|El].
    + (* lo = hi = last address: only the guarded loop gets here *)
      assert (hi = fam_max f) by lia. destruct Hg as [->|Hg]; [|lia].
      assert (k = 0%nat) by lia. subst k.
      rewrite range_loop_step. change (negb true || xvalid (XZ 0)) with false. rewrite andb_false_l.
      cbn [seq map]. rewrite N.add_0_r. reflexivity.
    + rewrite (IH (lo + 1)) by lia.
      cbn [seq map]. rewrite N.add_0_r. f_equal. f_equal. f_equal.
      symmetry. apply (seq_map_shift (fun n => (f, n)) lo k).
Qed.
