(* C01/ProofsPD.v — the prefix-delegation index arithmetic on two 64-bit words. *)
From Coq Require Import ZifyBool ZifyNat ZifyN.
From OV Require Import Common.Base C01.Model.
Local Open Scope N_scope.
Ltac Zify.zify_post_hook ::= Z.div_mod_to_equations.

Lemma W64_pow : W64 = 2 ^ 64. Proof. reflexivity. Qed.
Lemma W128_pow : W128 = 2 ^ 128. Proof. reflexivity. Qed.
Lemma W128_sq : W128 = W64 * W64. Proof. reflexivity. Qed.
Lemma pow2_pos k : 0 < 2 ^ k.
Proof. apply N.neq_0_lt_0, N.pow_nonzero. discriminate. Qed.
Lemma pow2_nz k : 2 ^ k <> 0.
Proof. apply N.pow_nonzero. discriminate. Qed.

(* a*2^k | b = a*2^k + b  when b < 2^k *)
Lemma lor_disjoint a b k : b < 2 ^ k -> N.lor (a * 2 ^ k) b = a * 2 ^ k + b.
Proof.
  intros H.
  assert (L : N.land (a * 2 ^ k) b = 0).
  { apply N.bits_inj. intros n. rewrite N.land_spec, N.bits_0.
    destruct (N.lt_ge_cases n k) as [Hn|Hn].
    - rewrite N.mul_pow2_bits_low by exact Hn. reflexivity.
    - rewrite <- (N.mod_small b (2 ^ k)) by exact H.
      rewrite N.mod_pow2_bits_high by exact Hn. apply andb_false_r. }
  rewrite <- N.lxor_lor by exact L. symmetry. apply N.add_nocarry_lxor. exact L.
Qed.

(* uint64 addition with carry into the high word *)
Lemma add_words B ah al :
  B < W128 -> ah < W64 -> al < W64 -> B + ah * W64 + al < W128 ->
  ((B / W64 + ah + (if ((B mod W64 + al) mod W64) <? (B mod W64) then 1 else 0)) mod W64) * W64
  + (B mod W64 + al) mod W64 = B + ah * W64 + al.
Proof.
  unfold W64, W128. intros HB Hh Hl Hs.
  destruct (N.ltb_spec ((B mod 18446744073709551616 + al) mod 18446744073709551616)
                       (B mod 18446744073709551616)); lia.
Qed.

(* uint64 subtraction with borrow out of the high word *)
Lemma sub_words A B :
  A < W128 -> B <= A ->
  (A / W64 + W64 + W64 - B / W64 - (if (A mod W64) <? (B mod W64) then 1 else 0)) mod W64 = (A - B) / W64 /\
  (A mod W64 + W64 - B mod W64) mod W64 = (A - B) mod W64.
Proof.
  unfold W64, W128. intros HA HB.
  destruct (N.ltb_spec (A mod 18446744073709551616) (B mod 18446744073709551616)); split; lia.
Qed.

(* ---------------------------------------------------------------- geometry of a well-formed pool *)
Definition Sh (c : pdcfg) : N := 2 ^ (128 - pd_plen c).
Definition Mn (c : pdcfg) : N := 2 ^ (128 - pd_nbits c).

Lemma wf_unpack c : pd_wf c = true ->
  pd_nbits c <= pd_plen c /\ pd_plen c - pd_nbits c <= 63 /\ pd_plen c <= 128 /\ pd_net c < W128.
Proof.
  unfold pd_wf, pd_valid. rewrite !andb_true_iff, !N.leb_le, N.ltb_lt. tauto.
Qed.
Lemma wf_v6 c : pd_wf c = true -> pd_v4 c = false.
Proof. unfold pd_wf. rewrite !andb_true_iff, negb_true_iff. tauto. Qed.
Lemma base_v6 c : pd_v4 c = false -> pd_base c = (pd_net c / Mn c) * Mn c.
Proof. intros H. unfold pd_base, Mn. rewrite H. reflexivity. Qed.

Lemma Mn_split c : pd_wf c = true -> Mn c = pd_count c * Sh c.
Proof.
  intros H. apply wf_unpack in H. unfold Mn, pd_count, Sh.
  rewrite <- N.pow_add_r. f_equal. lia.
Qed.

Lemma count_le c : pd_wf c = true -> pd_count c <= 2 ^ 63.
Proof.
  intros H. apply wf_unpack in H. unfold pd_count. apply N.pow_le_mono_r; [discriminate | lia].
Qed.

Lemma base_aligned c : pd_v4 c = false -> pd_base c mod Mn c = 0.
Proof. intros H. rewrite (base_v6 c H). apply N.mod_mul. apply pow2_nz. Qed.

Lemma base_div c : pd_v4 c = false -> pd_base c / Mn c = pd_net c / Mn c.
Proof. intros H. rewrite (base_v6 c H). apply N.div_mul. apply pow2_nz. Qed.

Lemma base_top c : pd_wf c = true -> pd_base c + Mn c <= W128.
Proof.
  intros H. pose proof (wf_unpack _ H) as [H1 [H2 [H3 H4]]].
  rewrite (base_v6 c (wf_v6 c H)).
  assert (E : W128 = 2 ^ pd_nbits c * Mn c).
  { unfold Mn. rewrite <- N.pow_add_r, W128_pow. f_equal. lia. }
  assert (pd_net c / Mn c < 2 ^ pd_nbits c).
  { apply N.div_lt_upper_bound; [apply pow2_nz|]. rewrite N.mul_comm, <- E. exact H4. }
  rewrite E. nia.
Qed.

(* ---------------------------------------------------------------- indexToIPNet *)
Lemma itp_spec c i : pd_wf c = true -> i < pd_count c -> index_to_prefix c i = pd_base c + i * Sh c.
Proof.
  intros H Hi. pose proof (wf_unpack _ H) as [H1 [H2 [H3 H4]]].
  pose proof (base_top _ H) as HT. pose proof (Mn_split _ H) as HM. pose proof (count_le _ H) as HC.
  assert (HiS : pd_base c + i * Sh c < W128).
  { assert (i * Sh c < pd_count c * Sh c) by (apply N.mul_lt_mono_pos_r; [apply pow2_pos | exact Hi]). lia. }
  assert (HB : pd_base c < W128) by (pose proof (pow2_pos (128 - pd_nbits c)); unfold Mn in HT; lia).
  assert (Hi64 : i < W64) by (unfold W64; assert (2 ^ 63 = 9223372036854775808) by reflexivity; lia).
  unfold index_to_prefix. fold (Sh c).
  destruct (N.ltb_spec 128 (pd_plen c)) as [Hbig|_]; [lia|].
  destruct (N.leb_spec 64 (128 - pd_plen c)) as [Hs|Hs].
  - (* shift >= 64 *)
    set (T := 2 ^ (128 - pd_plen c - 64)).
    assert (ES : Sh c = T * W64).
    { unfold Sh, T. rewrite W64_pow, <- N.pow_add_r. f_equal. lia. }
    assert (HT64 : i * T < W64).
    { apply (N.mul_lt_mono_pos_r W64); [reflexivity|]. rewrite <- N.mul_assoc, <- ES, <- W128_sq. lia. }
    rewrite (N.mod_small (i * T) W64) by exact HT64.
    rewrite ES, N.mul_assoc.
    pose proof (add_words (pd_base c) (i * T) 0 HB HT64 ltac:(reflexivity)) as AW.
    rewrite !N.add_0_r in AW. rewrite N.add_0_r. apply AW. rewrite ES, N.mul_assoc in HiS. exact HiS.
  - destruct (N.eqb_spec (128 - pd_plen c) 0) as [Hz|Hz].
    + (* shift = 0 *)
      assert (ES : Sh c = 1) by (unfold Sh; rewrite Hz; reflexivity).
      rewrite ES, N.mul_1_r in *.
      pose proof (add_words (pd_base c) 0 i HB ltac:(reflexivity) Hi64) as AW.
      rewrite N.mul_0_l, !N.add_0_r in AW. rewrite N.add_0_r. apply AW. exact HiS.
    + (* 0 < shift < 64 *)
      set (T := 2 ^ (64 - (128 - pd_plen c))).
      assert (EW : W64 = Sh c * T).
      { unfold Sh, T. rewrite W64_pow, <- N.pow_add_r. f_equal. lia. }
      assert (Hdiv : i * Sh c / W64 = i / T).
      { rewrite EW, (N.mul_comm i). apply N.div_mul_cancel_l; apply pow2_nz. }
      assert (Hsplit : i * Sh c = (i / T) * W64 + (i * Sh c) mod W64).
      { rewrite <- Hdiv. pose proof (N.div_mod (i * Sh c) W64 ltac:(discriminate)) as DM. rewrite (N.mul_comm W64) in DM. exact DM. }
      assert (HhT : i / T < W64).
      { apply N.le_lt_trans with i; [|exact Hi64]. apply N.div_le_upper_bound; [apply pow2_nz|].
        pose proof (pow2_pos (64 - (128 - pd_plen c))). fold T in H0. nia. }
      assert (HlT : (i * Sh c) mod W64 < W64) by (apply N.mod_lt; discriminate).
      pose proof (add_words (pd_base c) (i / T) ((i * Sh c) mod W64) HB HhT HlT) as AW.
      rewrite AW; [rewrite <- N.add_assoc, <- Hsplit; reflexivity | rewrite <- N.add_assoc, <- Hsplit; exact HiS].
Qed.

(* ---------------------------------------------------------------- prefixToIndex *)
(* the index expression of prefixToIndex as a function of the 128-bit address number *)
Definition pti_idx (c : pdcfg) (A : N) : N :=
  let B := pd_base c in
  let addrHi := A / W64 in let addrLo := A mod W64 in
  let baseHi := B / W64 in let baseLo := B mod W64 in
  let diffLo := (addrLo + W64 - baseLo) mod W64 in
  let borrow := if N.ltb addrLo baseLo then 1 else 0 in
  let diffHi := (addrHi + W64 + W64 - baseHi - borrow) mod W64 in
  let shift := 128 - pd_plen c in
  if N.leb 64 shift then diffHi / N.pow 2 (shift - 64)
  else if N.eqb shift 0 then diffLo
  else N.lor ((diffHi * N.pow 2 (64 - shift)) mod W64) (diffLo / N.pow 2 shift).

Definition inside (c : pdcfg) (A : N) : bool := N.eqb (A / Mn c) (pd_base c / Mn c).

Lemma pti_unfold v c ip ones bits :
  prefix_to_index v c (Pfx ip ones bits) =
  if negb (N.eqb bits 128) || negb (N.eqb ones (pd_plen c)) then None else
  match norm ip with
  | None => None
  | Some a =>
      if negb (is_defective v) && negb (inside c (as16 a)) then None
      else if N.leb (pd_count c) (pti_idx c (as16 a)) then None else Some (pti_idx c (as16 a))
  end.
Proof. reflexivity. Qed.

(* inside the network: the distance from the base is below 2^(128-nbits) *)
Lemma inside_dist c A : pd_v4 c = false -> inside c A = true -> pd_base c <= A /\ A - pd_base c < Mn c /\ A - pd_base c = A mod Mn c.
Proof.
  intros V6. unfold inside. rewrite N.eqb_eq. intros E.
  pose proof (N.div_mod A (Mn c) (pow2_nz _)) as HA.
  pose proof (N.div_mod (pd_base c) (Mn c) (pow2_nz _)) as HB.
  rewrite (base_aligned c V6), N.add_0_r in HB.
  pose proof (N.mod_lt A (Mn c) (pow2_nz _)) as HL.
  rewrite E in HA. rewrite <- HB in HA. lia.
Qed.

Lemma pti_spec c A :
  pd_wf c = true -> A < W128 -> pd_base c <= A -> A - pd_base c < Mn c ->
  pti_idx c A = (A - pd_base c) / Sh c.
Proof.
  intros H HA HBA HD. pose proof (wf_unpack _ H) as [H1 [H2 [H3 H4]]].
  pose proof (Mn_split _ H) as HM. pose proof (count_le _ H) as HC.
  destruct (sub_words A (pd_base c) HA HBA) as [EH EL].
  unfold pti_idx. cbv zeta. rewrite EH, EL. clear EH EL.
  set (D := A - pd_base c) in *.
  assert (HDW : D < 2 ^ 63 * Sh c).
  { rewrite HM in HD. pose proof (pow2_pos (128 - pd_plen c)). fold (Sh c) in H0. nia. }
  fold (Sh c).
  destruct (N.leb_spec 64 (128 - pd_plen c)) as [Hs|Hs].
  - assert (ES : Sh c = W64 * 2 ^ (128 - pd_plen c - 64)).
    { unfold Sh. rewrite W64_pow, <- N.pow_add_r. f_equal. lia. }
    rewrite ES. apply N.div_div; [discriminate | apply pow2_nz].
  - destruct (N.eqb_spec (128 - pd_plen c) 0) as [Hz|Hz].
    + assert (ES : Sh c = 1) by (unfold Sh; rewrite Hz; reflexivity).
      rewrite ES in *. rewrite N.div_1_r. apply N.mod_small.
      unfold W64. assert (2 ^ 63 = 9223372036854775808) by reflexivity. lia.
    + set (T := 2 ^ (64 - (128 - pd_plen c))).
      assert (EW : W64 = T * Sh c).
      { unfold Sh, T. rewrite W64_pow, <- N.pow_add_r. f_equal. lia. }
      assert (HS0 : Sh c <> 0) by apply pow2_nz.
      assert (HT0 : T <> 0) by apply pow2_nz.
      assert (Hhi : D / W64 < Sh c).
      { apply N.div_lt_upper_bound; [discriminate|].
        assert (2 ^ 63 < W64) by reflexivity. pose proof (pow2_pos (128 - pd_plen c)). fold (Sh c) in H5. nia. }
      assert (Hmul : D / W64 * T < W64).
      { apply N.lt_le_trans with (Sh c * T); [apply N.mul_lt_mono_pos_r; [apply pow2_pos | exact Hhi] | rewrite EW; lia]. }
      rewrite (N.mod_small _ _ Hmul).
      assert (Hlo : D mod W64 / Sh c < T).
      { apply N.div_lt_upper_bound; [exact HS0|]. rewrite N.mul_comm, <- EW. apply N.mod_lt. discriminate. }
      unfold T in Hlo |- *. rewrite lor_disjoint by exact Hlo. fold T.
      pose proof (N.div_mod D W64 ltac:(discriminate)) as DM.
      set (q := D / W64) in *. set (r := D mod W64) in *.
      assert (ED : D = q * T * Sh c + r).
      { rewrite DM at 1. replace (W64 * q) with (q * T * Sh c); [reflexivity|]. rewrite EW. lia. }
      rewrite ED. rewrite N.div_add_l by exact HS0. reflexivity.
Qed.

(* round trip: every index of the pool maps to a prefix that maps back *)
Lemma pd_roundtrip v c i :
  pd_wf c = true -> i < pd_count c ->
  let P := index_to_prefix c i in
  prefix_to_index v c (Pfx (Some (V6, P)) (pd_plen c) 128) = Some i /\
  P mod Sh c = 0 /\ P / Mn c = pd_base c / Mn c /\ P < W128.
Proof.
  intros H Hi. cbv zeta. rewrite itp_spec by assumption.
  pose proof (wf_unpack _ H) as [H1 [H2 [H3 H4]]].
  pose proof (base_top _ H) as HT. pose proof (Mn_split _ H) as HM.
  set (P := pd_base c + i * Sh c).
  assert (HiS : i * Sh c < Mn c).
  { rewrite HM. apply N.mul_lt_mono_pos_r; [apply pow2_pos | exact Hi]. }
  assert (HP : P < W128) by (unfold P; lia).
  assert (Hin : P / Mn c = pd_base c / Mn c).
  { unfold P. rewrite (N.div_mod (pd_base c) (Mn c)) at 1 by apply pow2_nz.
    rewrite (base_aligned c (wf_v6 c H)), N.add_0_r, N.mul_comm, N.div_add_l by apply pow2_nz.
    rewrite (N.div_small _ _ HiS). apply N.add_0_r. }
  assert (Hal : P mod Sh c = 0).
  { unfold P. rewrite N.mod_add by apply pow2_nz.
    rewrite (N.div_mod (pd_base c) (Mn c)) by apply pow2_nz.
    rewrite (base_aligned c (wf_v6 c H)), N.add_0_r, HM, (N.mul_comm (pd_count c)), <- N.mul_assoc, N.mul_comm.
    apply N.mod_mul, pow2_nz. }
  split; [|auto].
  rewrite pti_unfold. rewrite !N.eqb_refl. simpl negb. simpl orb.
  (* the address is not a v4-mapped one unless it is, in which case As16 maps it back *)
  assert (EA : as16 (unmap (V6, P)) = P).
  { unfold unmap. destruct (N.eqb_spec (P / 4294967296) 65535) as [E|E]; cbn [as16]; [|reflexivity].
    pose proof (N.div_mod P 4294967296 ltac:(discriminate)) as DM. rewrite E in DM.
    rewrite DM at 2. reflexivity. }
  unfold norm. rewrite EA.
  assert (inside c P = true) as Hins by (unfold inside; apply N.eqb_eq; exact Hin).
  rewrite Hins. rewrite andb_false_r.
  rewrite pti_spec; try assumption; try (unfold P; lia).
  replace (P - pd_base c) with (i * Sh c) by (unfold P; lia).
  rewrite N.div_mul by apply pow2_nz.
  destruct (N.leb_spec (pd_count c) i); [lia | reflexivity].
Qed.

(* the address number prefixToIndex works on *)
Definition pfx_num (p : pfx) : option N :=
  match p with
  | PNil => None
  | Pfx ip _ _ => match norm ip with Some a => Some (as16 a) | None => None end
  end.

(* repaired: an accepted prefix is a /plen inside the network and its masked address is the index's prefix *)
Lemma pd_injective c p i A :
  pd_wf c = true -> prefix_to_index Repaired c p = Some i -> pfx_num p = Some A -> A < W128 ->
  i < pd_count c /\ (A / Sh c) * Sh c = index_to_prefix c i /\ A / Mn c = pd_base c / Mn c.
Proof.
  intros H Hp Hn HA. destruct p as [|ip ones bits]; [discriminate|].
  rewrite pti_unfold in Hp. simpl in Hn.
  destruct (negb (bits =? 128) || negb (ones =? pd_plen c)); [discriminate|].
  destruct (norm ip) as [a|]; [|discriminate]. inversion Hn; subst A; clear Hn.
  simpl is_defective in Hp. simpl negb in Hp. rewrite andb_true_l in Hp.
  destruct (inside c (as16 a)) eqn:Hins; [|discriminate]. simpl in Hp.
  destruct (N.leb_spec (pd_count c) (pti_idx c (as16 a))) as [Hc|Hc]; [discriminate|].
  inversion Hp; subst i; clear Hp.
  destruct (inside_dist _ _ (wf_v6 c H) Hins) as [HB [HD HE]].
  split; [exact Hc|]. split; [|unfold inside in Hins; apply N.eqb_eq in Hins; exact Hins].
  rewrite itp_spec by assumption.
  rewrite pti_spec by assumption.
  set (A := as16 a) in *. set (D := A - pd_base c) in *.
  (* base is a multiple of Sh *)
  pose proof (Mn_split _ H) as HM.
  assert (HBS : pd_base c = (pd_base c / Mn c * pd_count c) * Sh c).
  { rewrite (N.div_mod (pd_base c) (Mn c)) at 1 by apply pow2_nz.
    rewrite (base_aligned c (wf_v6 c H)), N.add_0_r, HM. lia. }
  assert (EA : A = pd_base c + D) by (unfold D; lia).
  rewrite EA at 1. rewrite HBS at 1. rewrite N.div_add_l by apply pow2_nz.
  rewrite N.mul_add_distr_r, <- HBS. reflexivity.
Qed.

(* two accepted prefix arguments with the same index denote the same /plen prefix *)
Lemma pd_same_index_same_prefix c p q i A B :
  pd_wf c = true -> prefix_to_index Repaired c p = Some i -> prefix_to_index Repaired c q = Some i ->
  pfx_num p = Some A -> pfx_num q = Some B -> A < W128 -> B < W128 -> A / Sh c = B / Sh c.
Proof.
  intros H Hp Hq HA HB LA LB.
  destruct (pd_injective _ _ _ _ H Hp HA LA) as [_ [E1 _]].
  destruct (pd_injective _ _ _ _ H Hq HB LB) as [_ [E2 _]].
  rewrite <- E2 in E1. apply N.mul_cancel_r in E1; [exact E1 | apply pow2_nz].
Qed.

(* ================================================================ PD histories *)
From OV Require Import C01.Proofs.

Definition PInv (c : pdcfg) (st : pstate) : Prop := Inv (pd_pool_cfg c) st.

Ltac pd_cbn H := cbn -[prefix_to_index index_to_prefix pool_step lifo_choice N.ltb] in H.

Lemma pd_inv_step c st k st' o : PInv c st -> pd_step Repaired c st k = Some (st', o) -> PInv c st'.
Proof.
  unfold PInv. intros HI H. destruct k as [s [[[ip ones] bits]|] | p s | p | p | b | ]; pd_cbn H.
  - destruct (N.ltb 128 (pd_plen c)).
    + destruct (lifo_choice st) as [a|]; [|discriminate].
      destruct ((ip =? pd_base c) && (ones =? 0) && (bits =? 0)); [|discriminate].
      destruct (pool_step Repaired (pd_pool_cfg c) st (CAlloc s (Some a))) as [[st1 o1]|] eqn:E; [|discriminate].
      inversion H; subst. eapply inv_step; eauto.
    + destruct (prefix_to_index Repaired c (Pfx (Some (V6, ip)) ones bits)) as [i|]; [|discriminate].
      destruct (index_to_prefix c i =? ip); [|discriminate].
      destruct (pool_step Repaired (pd_pool_cfg c) st (CAlloc s (Some (key_of_idx i)))) as [[st1 o1]|] eqn:E; [|discriminate].
      inversion H; subst. eapply inv_step; eauto.
  - destruct (pool_step Repaired (pd_pool_cfg c) st (CAlloc s None)) as [[st1 o1]|] eqn:E; [|discriminate].
    inversion H; subst. eapply inv_step; eauto.
  - destruct (prefix_to_index Repaired c p) as [i|]; [|inversion H; subst; exact HI].
    destruct (pool_step Repaired (pd_pool_cfg c) st (CReserve (Some (key_of_idx i)) s)) as [[st1 o1]|] eqn:E; [|discriminate].
    inversion H; subst. eapply inv_step; eauto.
  - destruct (prefix_to_index Repaired c p) as [i|]; [|inversion H; subst; exact HI].
    destruct (pool_step Repaired (pd_pool_cfg c) st (CRelease (Some (key_of_idx i)))) as [[st1 o1]|] eqn:E; [|discriminate].
    inversion H; subst. eapply inv_step; eauto.
  - inversion H; subst; exact HI.
  - destruct (pool_step Repaired (pd_pool_cfg c) st (CSetDir b)) as [[st1 o1]|] eqn:E; [|discriminate].
    inversion H; subst. eapply inv_step; eauto.
  - inversion H; subst; exact HI.
Qed.

Lemma pd_inv_run c : forall ks st st' evs,
  PInv c st -> pd_run_from Repaired c st ks = Some (st', evs) -> PInv c st'.
Proof.
  induction ks as [|k r IH]; simpl; intros st st' evs HI H.
  - inversion H; subst; exact HI.
  - destruct (pd_step Repaired c st k) as [[st1 o]|] eqn:E; [|discriminate].
    destruct (pd_run_from Repaired c st1 r) as [[st2 evs']|] eqn:R; [|discriminate].
    inversion H; subst. eapply IH; [eapply pd_inv_step; eauto | eauto].
Qed.

Lemma pd_ledger_step_agrees v c st k st' o :
  pd_plen c <= 128 ->
  pd_step v c st k = Some (st', o) -> leases st' = pd_ledger_step v c (leases st) (k, o).
Proof.
  intros W H. assert (HB : N.ltb 128 (pd_plen c) = false) by (apply N.ltb_ge; exact W).
  destruct k as [s [[[ip ones] bits]|] | p s | p | p | b | ]; pd_cbn H.
  - rewrite HB in H. unfold pd_ledger_step.
    destruct (prefix_to_index v c (Pfx (Some (V6, ip)) ones bits)) as [i|] eqn:P; [|discriminate].
    destruct (index_to_prefix c i =? ip); [|discriminate].
    destruct (pool_step v (pd_pool_cfg c) st (CAlloc s (Some (key_of_idx i)))) as [[st1 o1]|] eqn:E; [|discriminate].
    inversion H; subst. rewrite P. simpl in E.
    destruct (mem_addr (key_of_idx i) (free st)); inversion E; subst; reflexivity.
  - destruct (pool_step v (pd_pool_cfg c) st (CAlloc s None)) as [[st1 o1]|] eqn:E; [|discriminate].
    inversion H; subst. simpl in E. destruct (free st); inversion E; subst; reflexivity.
  - unfold pd_ledger_step. destruct (prefix_to_index v c p) as [i|] eqn:P.
    + destruct (pool_step v (pd_pool_cfg c) st (CReserve (Some (key_of_idx i)) s)) as [[st1 o1]|] eqn:E; [|discriminate].
      inversion H; subst. apply ledger_step_agrees in E. rewrite E.
      destruct o1; simpl; try rewrite P; reflexivity.
    + inversion H; subst. reflexivity.
  - unfold pd_ledger_step. destruct (prefix_to_index v c p) as [i|] eqn:P.
    + destruct (pool_step v (pd_pool_cfg c) st (CRelease (Some (key_of_idx i)))) as [[st1 o1]|] eqn:E; [|discriminate].
      inversion H; subst. apply ledger_step_agrees in E. rewrite E. reflexivity.
    + inversion H; subst. reflexivity.
  - inversion H; subst; reflexivity.
  - destruct (pool_step v (pd_pool_cfg c) st (CSetDir b)) as [[st1 o1]|] eqn:E; [|discriminate].
    inversion H; subst. simpl in E. destruct (Bool.eqb b (asc st)); inversion E; subst; reflexivity.
  - inversion H; subst; reflexivity.
Qed.

Lemma pd_ledger_run v c : pd_plen c <= 128 -> forall ks st st' evs,
  pd_run_from v c st ks = Some (st', evs) -> leases st' = fold_left (pd_ledger_step v c) evs (leases st).
Proof.
  intros W. induction ks as [|k r IH]; simpl; intros st st' evs H.
  - inversion H; subst; reflexivity.
  - destruct (pd_step v c st k) as [[st1 o]|] eqn:E; [|discriminate].
    destruct (pd_run_from v c st1 r) as [[st2 evs']|] eqn:R; [|discriminate].
    inversion H; subst. cbn [fold_left]. apply pd_ledger_step_agrees in E; [|exact W]. rewrite <- E. eapply IH; eauto.
Qed.

(* the allocator's lease map (keyed by index) is what a caller reconstructs from the answers *)
Lemma pd_ledger_agrees v c ks st evs :
  pd_plen c <= 128 -> pd_run v c ks = Some (st, evs) -> leases st = pd_ledger v c evs.
Proof. intros W H. apply (pd_ledger_run v c W) in H. exact H. Qed.

Lemma pd_run_split v c : forall ks st st' evs pre e post,
  pd_run_from v c st ks = Some (st', evs) -> evs = pre ++ e :: post ->
  exists ks1 st1 st2,
    pd_run_from v c st ks1 = Some (st1, pre) /\ pd_step v c st1 (fst e) = Some (st2, snd e).
Proof.
  induction ks as [|k r IH]; simpl; intros st st' evs pre e post H E.
  - inversion H; subst. destruct pre; discriminate.
  - destruct (pd_step v c st k) as [[st1 o]|] eqn:C; [|discriminate].
    destruct (pd_run_from v c st1 r) as [[st2 evs']|] eqn:R; [|discriminate].
    injection H as Hst Hev. rewrite E in Hev. clear E.
    destruct pre as [|p pre]; simpl in Hev; injection Hev as Hp Hevs.
    + subst e. exists [], st, st1. split; [reflexivity | exact C].
    + destruct (IH _ _ _ _ _ _ R Hevs) as [ks1 [sa [sb [H1 H2]]]].
      exists (k :: ks1), sa, sb. split; [|exact H2]. simpl. rewrite C, H1. subst p. reflexivity.
Qed.

Lemma wf_plen c : pd_wf c = true -> pd_plen c <= 128.
Proof. intros H. apply wf_unpack in H. tauto. Qed.

Lemma pd_assignable_idx c i : assignable (pd_pool_cfg c) (key_of_idx i) = true <-> i < pd_count c.
Proof.
  unfold assignable, in_range, is_excluded, pd_pool_cfg, key_of_idx; simpl.
  rewrite andb_true_r, andb_true_iff, !N.leb_le. unfold pd_count.
  pose proof (pow2_pos (pd_plen c - pd_nbits c)). lia.
Qed.

(* every delegated prefix of every accepted history: a /plen inside the network, aligned, and its
   index is held by nobody according to the ledger of the earlier events *)
Lemma pd_alloc_confined_unique c ks st evs pre s obs ip ones bits post :
  pd_wf c = true ->
  pd_run Repaired c ks = Some (st, evs) -> evs = pre ++ (PAlloc s obs, QPfx ip ones bits) :: post ->
  exists i, i < pd_count c /\ ip = index_to_prefix c i /\ ones = pd_plen c /\ bits = 128 /\
            ip mod Sh c = 0 /\ ip / Mn c = pd_base c / Mn c /\
            lm_lookup (key_of_idx i) (pd_ledger Repaired c pre) = None.
Proof.
  intros W H E. destruct (pd_run_split _ _ _ _ _ _ _ _ _ H E) as [ks1 [st1 [st2 [H1 H2]]]].
  assert (HI : PInv c st1) by (eapply pd_inv_run; [apply inv_init | exact H1]).
  rewrite <- (pd_ledger_agrees _ _ _ _ _ (wf_plen _ W) H1).
  assert (HB : N.ltb 128 (pd_plen c) = false) by (apply N.ltb_ge, wf_plen, W).
  pd_cbn H2. destruct obs as [[[ip' ones'] bits']|].
  - rewrite HB in H2.
    destruct (prefix_to_index Repaired c (Pfx (Some (V6, ip')) ones' bits')) as [i|] eqn:P; [|discriminate].
    destruct (N.eqb_spec (index_to_prefix c i) ip') as [EI|]; [|discriminate].
    destruct (pool_step Repaired (pd_pool_cfg c) st1 (CAlloc s (Some (key_of_idx i)))) as [[sx ox]|] eqn:EP; [|discriminate].
    simpl in EP. destruct (mem_addr (key_of_idx i) (free st1)) eqn:M; [|discriminate].
    inversion H2; subst; clear H2.
    apply mem_addr_In in M. apply HI in M. destruct M as [As L].
    assert (Hi : i < pd_count c) by (apply pd_assignable_idx; exact As).
    destruct (pd_roundtrip Repaired c i W Hi) as [_ [R1 [R2 _]]].
    exists i. repeat split; auto.
    + rewrite pti_unfold in P.
      destruct (N.eqb_spec bits 128); destruct (N.eqb_spec ones (pd_plen c)); simpl in P; try discriminate; auto.
    + rewrite pti_unfold in P.
      destruct (N.eqb_spec bits 128); simpl in P; try discriminate; auto.
  - destruct (pool_step Repaired (pd_pool_cfg c) st1 (CAlloc s None)) as [[sx ox]|]; inversion H2.
Qed.

(* exhaustion only when every index is held *)
Lemma pd_exhausted_only_when_full c ks st evs pre s obs post :
  pd_wf c = true ->
  pd_run Repaired c ks = Some (st, evs) -> evs = pre ++ (PAlloc s obs, QExhausted) :: post ->
  forall i, i < pd_count c -> lm_lookup (key_of_idx i) (pd_ledger Repaired c pre) <> None.
Proof.
  intros W H E i Hi. destruct (pd_run_split _ _ _ _ _ _ _ _ _ H E) as [ks1 [st1 [st2 [H1 H2]]]].
  assert (HI : PInv c st1) by (eapply pd_inv_run; [apply inv_init | exact H1]).
  rewrite <- (pd_ledger_agrees _ _ _ _ _ (wf_plen _ W) H1).
  assert (HB : N.ltb 128 (pd_plen c) = false) by (apply N.ltb_ge, wf_plen, W).
  intros L.
  assert (In (key_of_idx i) (free st1)) as Hin.
  { apply HI. split; [|exact L]. apply pd_assignable_idx. exact Hi. }
  pd_cbn H2. destruct obs as [[[ip' ones'] bits']|].
  - rewrite HB in H2.
    destruct (prefix_to_index Repaired c (Pfx (Some (V6, ip')) ones' bits')) as [j|]; [|discriminate].
    destruct (index_to_prefix c j =? ip'); [|discriminate].
    destruct (pool_step Repaired (pd_pool_cfg c) st1 (CAlloc s (Some (key_of_idx j)))) as [[sx ox]|]; inversion H2.
  - simpl in H2. destruct (free st1); [contradiction | discriminate].
Qed.

(* nothing leaks: the free list is exactly the unheld indices of the pool, without duplicates *)
Lemma pd_no_leak c ks st evs :
  pd_wf c = true -> pd_run Repaired c ks = Some (st, evs) ->
  NoDup (free st) /\
  (forall a, In a (free st) <->
     exists i, a = key_of_idx i /\ i < pd_count c /\ lm_lookup (key_of_idx i) (pd_ledger Repaired c evs) = None) /\
  (length (free st) + length (filter (fun a => lm_mem a (pd_ledger Repaired c evs)) (assignable_list (pd_pool_cfg c)))
   = length (assignable_list (pd_pool_cfg c)))%nat.
Proof.
  intros W H. assert (HI : PInv c st) by (eapply pd_inv_run; [apply inv_init | exact H]).
  rewrite <- (pd_ledger_agrees _ _ _ _ _ (wf_plen _ W) H).
  split; [apply HI|]. split; [|apply inv_count; exact HI].
  intros a. destruct HI as [_ M]. rewrite M. split.
  - intros [As L]. destruct a as [f n].
    assert (f = V6).
    { unfold assignable, in_range, pd_pool_cfg in As. simpl in As.
      rewrite !andb_true_iff in As. destruct As as [[[Ef _] _] _]. destruct f; [discriminate | reflexivity]. }
    subst f. exists n. split; [reflexivity|]. split; [apply pd_assignable_idx; exact As | exact L].
  - intros [i [-> [Hi L]]]. split; [apply pd_assignable_idx; exact Hi | exact L].
Qed.

(* a reservation succeeds only if nobody else holds the prefix's index; a prefix that is not one of
   the pool's (foreign, wrong length, nil) is a no-op *)
Lemma pd_unique_reserve v c ks st evs pre p s o post :
  pd_plen c <= 128 ->
  pd_run v c ks = Some (st, evs) -> evs = pre ++ (PReserve p s, o) :: post ->
  match prefix_to_index v c p with
  | None => o = QOk
  | Some i =>
      (o = QOk /\ (lm_lookup (key_of_idx i) (pd_ledger v c pre) = None \/
                   lm_lookup (key_of_idx i) (pd_ledger v c pre) = Some s)) \/
      (o = QReserved /\ exists s', lm_lookup (key_of_idx i) (pd_ledger v c pre) = Some s' /\ s' <> s)
  end.
Proof.
  intros W H E. destruct (pd_run_split _ _ _ _ _ _ _ _ _ H E) as [ks1 [st1 [st2 [H1 H2]]]].
  rewrite <- (pd_ledger_agrees _ _ _ _ _ W H1). pd_cbn H2.
  destruct (prefix_to_index v c p) as [i|]; [|inversion H2; reflexivity].
  destruct (pool_step v (pd_pool_cfg c) st1 (CReserve (Some (key_of_idx i)) s)) as [[sx ox]|] eqn:EP; [|discriminate].
  inversion H2; subst; clear H2. simpl in EP.
  destruct (lm_lookup (key_of_idx i) (leases st1)) as [s'|].
  - destruct (N.eqb_spec s' s); inversion EP; subst; simpl; [left; auto | right; split; eauto].
  - inversion EP; subst; simpl; left; auto.
Qed.

(* a released prefix can be delegated again at once *)
Lemma pd_release_then_allocatable c ks st evs p i st1 o s :
  pd_wf c = true -> pd_run Repaired c ks = Some (st, evs) ->
  pd_step Repaired c st (PRelease p) = Some (st1, o) -> prefix_to_index Repaired c p = Some i ->
  exists st2, pd_step Repaired c st1 (PAlloc s (Some (index_to_prefix c i, pd_plen c, 128)))
              = Some (st2, QPfx (index_to_prefix c i) (pd_plen c) 128).
Proof.
  intros W H HR P.
  assert (HI : PInv c st) by (eapply pd_inv_run; [apply inv_init | exact H]).
  assert (HB : N.ltb 128 (pd_plen c) = false) by (apply N.ltb_ge, wf_plen, W).
  assert (Hi : i < pd_count c).
  { destruct p as [|ip ones bits]; [discriminate|]. rewrite pti_unfold in P.
    destruct (negb (bits =? 128) || negb (ones =? pd_plen c)); [discriminate|].
    destruct (norm ip); [|discriminate].
    destruct (negb (is_defective Repaired) && negb (inside c (as16 a))); [discriminate|].
    destruct (N.leb_spec (pd_count c) (pti_idx c (as16 a))); inversion P; subst; assumption. }
  pd_cbn HR. rewrite P in HR.
  destruct (pool_step Repaired (pd_pool_cfg c) st (CRelease (Some (key_of_idx i)))) as [[sx ox]|] eqn:ER; [|discriminate].
  inversion HR; subst; clear HR.
  destruct (release_then_allocatable (pd_pool_cfg c) st (key_of_idx i) st1 ox s HI ER) as [st2 HA];
    [apply pd_assignable_idx; exact Hi|].
  exists st2. cbn -[prefix_to_index index_to_prefix pool_step lifo_choice N.ltb]. rewrite HB.
  destruct (pd_roundtrip Repaired c i W Hi) as [RT _]. cbv zeta in RT. rewrite RT.
  rewrite N.eqb_refl. rewrite HA. reflexivity.
Qed.
