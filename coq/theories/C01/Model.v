(* C01/Model.v — executable model of
     pkg/allocator/pool.go      PoolAllocator   (NewPoolAllocator, buildFreeList, SetDirection,
                                                 Allocate, Release, Reserve, Contains, Available)
     pkg/allocator/prefix.go    PrefixAllocator (same state machine on indices; indexToIPNet,
                                                 prefixToIndex on two 64-bit words)
     pkg/allocator/registry.go  Registry        (initV4Pools / initV6Pools, Allocate*FromProfile,
                                                 Release*, Reserve*InPool, ReserveIP, ReleaseIP,
                                                 SetAllocDirection)
   Definitions only; proofs are in Proofs.v / ProofsPD.v / ProofsReg.v.

   Addresses are (family, number) pairs: what netip.Addr is after AddrFromSlice.
   [variant] selects between the current behaviour and the behaviour of places where earlier code violated the
   property (Defective) and the repaired behaviour (Repaired) for which the theorems hold. *)
From OV Require Import Common.Base.
Local Open Scope N_scope.

(* Repaired  : what /repo does now - every recorded defect is fixed there - and what the theorems are about.
   The other variants are EARLIER states of the code, kept only as the subjects of the `_refuted`
   theorems (historical witnesses); the correspondence check no longer uses them:
   Defective : before d00d766 / c2652db (Release pushed unassignable addresses back on the free list;
               prefixToIndex accepted foreign prefixes) - and everything below
   SharedVrf : before 85029df (one poolVRFs map shared by the three pool families) - and everything below
   Unguarded : before a1ebdc8 / 1de6b72 (range loops of buildFreeList / parseExcludeRange ran past the last
               address; NewPrefixAllocator accepted prefix lengths above 128) - and the one below
   V4Pd      : before 2cd02c0 (NewPrefixAllocator accepted an IPv4 network for a PD pool, see pd_new) *)
Inductive variant := Repaired | Defective | SharedVrf | Unguarded | V4Pd.
Definition is_defective (v : variant) : bool := match v with Defective => true | _ => false end.
Definition shared_vrf (v : variant) : bool := match v with Defective | SharedVrf => true | _ => false end.
Definition unguarded (v : variant) : bool := match v with Repaired | V4Pd => false | _ => true end.
Definition v4pd (v : variant) : bool := match v with Repaired => false | _ => true end.

Inductive family := V4 | V6.
Definition fam_eqb (a b : family) : bool :=
  match a, b with V4, V4 | V6, V6 => true | _, _ => false end.
Definition addr := (family * N)%type.
Definition addr_eqb (a b : addr) : bool := fam_eqb (fst a) (fst b) && N.eqb (snd a) (snd b).
Definition sid := N.

(* netip.Addr.Unmap: ::ffff:a.b.c.d  ->  a.b.c.d *)
Definition unmap (a : addr) : addr :=
  match a with
  | (V6, n) => if N.eqb (n / 4294967296) 65535 then (V4, n mod 4294967296) else a
  | _ => a
  end.
(* netip.AddrFromSlice + Unmap; None = nil slice or a slice that is not 4 or 16 bytes long *)
Definition norm (raw : option addr) : option addr :=
  match raw with Some a => Some (unmap a) | None => None end.

(* ---------------------------------------------------------------- lease map (Go map[Addr]string) *)
Definition lease_map := list (addr * sid).
Definition lm_remove (a : addr) (m : lease_map) : lease_map :=
  filter (fun p => negb (addr_eqb a (fst p))) m.
Definition lm_lookup (a : addr) (m : lease_map) : option sid :=
  match find (fun p => addr_eqb a (fst p)) m with Some p => Some (snd p) | None => None end.
Definition lm_insert (a : addr) (s : sid) (m : lease_map) : lease_map := (a, s) :: lm_remove a m.
Definition lm_mem (a : addr) (m : lease_map) : bool :=
  match lm_lookup a m with Some _ => true | None => false end.

(* ---------------------------------------------------------------- pool geometry *)
Record pcfg := { p_fam : family; p_lo : N; p_hi : N; p_excl : list addr (* as passed, before Unmap *) }.

Definition mem_addr (a : addr) (l : list addr) : bool := existsb (addr_eqb a) l.
Definition is_excluded (c : pcfg) (a : addr) : bool := mem_addr a (map unmap (p_excl c)).
(* PoolAllocator.Contains: Compare orders by family first, so a foreign family is never inside *)
Definition in_range (c : pcfg) (a : addr) : bool :=
  fam_eqb (fst a) (p_fam c) && N.leb (p_lo c) (snd a) && N.leb (snd a) (p_hi c).
Definition assignable (c : pcfg) (a : addr) : bool := in_range c a && negb (is_excluded c a).

(* for addr := rangeStart; addr <= rangeEnd; addr = addr.Next() *)
Definition range_addrs (c : pcfg) : list addr :=
  map (fun i => (p_fam c, p_lo c + N.of_nat i)%N) (seq 0%nat (N.to_nat (p_hi c + 1 - p_lo c))).

Record pstate := { free : list addr; leases : lease_map; asc : bool }.

(* buildFreeList: range minus excluded minus leased; ascending = lowest address at the END
   of the slice (Allocate pops the end) *)
Definition build_free (c : pcfg) (m : lease_map) (ascending : bool) : list addr :=
  let addrs := filter (fun a => negb (is_excluded c a) && negb (lm_mem a m)) (range_addrs c) in
  if ascending then rev addrs else addrs.

Definition pool_init (c : pcfg) : pstate :=
  {| free := build_free c [] true; leases := []; asc := true |}.

(* ---------------------------------------------------------------- the range loop, literally *)
(* `for addr := start; addr.Compare(end) <= 0; addr = addr.Next()` of buildFreeList and
   parseExcludeRange.  netip.Addr.Next() of the last address of a family is the zero Addr, which
   Compare orders BELOW every address; Next() of a zero-zone Addr stays zero-zoned.  XZ n is an Addr
   with the zero zone (the zero Addr when n = 0). *)
Inductive xaddr := XZ (n : N) | XA (a : addr).
Definition fam_max (f : family) : N :=
  match f with V4 => 4294967295 | V6 => 340282366920938463463374607431768211455 end.
Definition xnext (x : xaddr) : xaddr :=
  match x with
  | XA (f, n) => if N.eqb n (fam_max f) then XZ 0 else XA (f, n + 1)
  | XZ n => if N.eqb n (fam_max V6) then XZ 0 else XZ (n + 1)
  end.
(* x.Compare(hi) <= 0: shorter addresses first (zero Addr: length 0, IPv4: 32, IPv6: 128) *)
Definition xle (x : xaddr) (hi : addr) : bool :=
  match x with
  | XZ _ => true
  | XA (f, n) => match f, fst hi with V4, V6 => true | V6, V4 => false | _, _ => N.leb n (snd hi) end
  end.
Definition xvalid (x : xaddr) : bool := match x with XA _ => true | XZ _ => false end.
(* guarded = the repaired loop condition `addr.IsValid() && addr.Compare(end) <= 0`; None = out of fuel *)
Fixpoint range_loop (guarded : bool) (fuel : nat) (x : xaddr) (hi : addr) : option (list xaddr) :=
  match fuel with
  | O => None
  | S k =>
      if (negb guarded || xvalid x) && xle x hi
      then match range_loop guarded k (xnext x) hi with Some l => Some (x :: l) | None => None end
      else Some []
  end.
(* does the loop from lo to hi terminate?  (proved against range_loop in Proofs.v) *)
Definition range_terminates (v : variant) (lo hi : addr) : bool :=
  negb (unguarded v) || negb (xle (XA lo) hi) ||
  (fam_eqb (fst lo) (fst hi) && N.ltb (snd hi) (fam_max (fst hi))).

(* NewPoolAllocator(rangeStart, rangeEnd, exclude): None = never returns.
   Range ends of different families: before a1ebdc8, IPv4..IPv6 ran off the end of the IPv4 space
   (never returns) and IPv6..IPv4 is an empty range that contains nothing; repaired, both are
   the empty range. *)
Definition empty_geom (excl : list addr) : pcfg := {| p_fam := V4; p_lo := 1; p_hi := 0; p_excl := excl |}.
Definition pool_geom (v : variant) (lo hi : addr) (excl : list addr) : option pcfg :=
  let lo := unmap lo in let hi := unmap hi in
  if range_terminates v lo hi
  then if fam_eqb (fst lo) (fst hi)
       then Some {| p_fam := fst lo; p_lo := snd lo; p_hi := snd hi; p_excl := excl |}
       else Some (empty_geom excl)
  else None.

(* for i, f := range free { if f == addr { free = append(free[:i], free[i+1:]...); break } } *)
Fixpoint remove_first (a : addr) (l : list addr) : list addr :=
  match l with
  | [] => []
  | x :: r => if addr_eqb x a then r else x :: remove_first a r
  end.

Inductive call :=
| CAlloc (s : sid) (obs : option addr)    (* obs: the implementation's answer (None = exhausted) *)
| CReserve (a : option addr) (s : sid)    (* a: address after AddrFromSlice+Unmap, None = invalid slice *)
| CRelease (a : option addr)
| CSetDir (b : bool)
| CAvail.

Inductive out :=
| OAddr (a : addr) | OExhausted | OOk | OReserved | ONum (n : N).

(* Allocate exactly as written (LIFO: pop the end of the free slice) *)
Definition alloc_lifo (st : pstate) (s : sid) : pstate * out :=
  match rev (free st) with
  | [] => (st, OExhausted)
  | a :: r => ({| free := rev r; leases := lm_insert a s (leases st); asc := asc st |}, OAddr a)
  end.
Definition lifo_choice (st : pstate) : option addr :=
  match rev (free st) with [] => None | a :: _ => Some a end.

(* One call on normalised keys.  None = the implementation's Allocate answer is not admissible. *)
Definition pool_step (v : variant) (c : pcfg) (st : pstate) (k : call) : option (pstate * out) :=
  match k with
  | CAlloc s None =>
      match free st with [] => Some (st, OExhausted) | _ :: _ => None end
  | CAlloc s (Some a) =>
      if mem_addr a (free st)
      then Some ({| free := remove_first a (free st); leases := lm_insert a s (leases st); asc := asc st |},
                 OAddr a)
      else None
  | CReserve None _ => Some (st, OOk)
  | CReserve (Some a) s =>
      match lm_lookup a (leases st) with
      | Some s' =>
          if N.eqb s' s
          then Some ({| free := free st; leases := lm_insert a s (leases st); asc := asc st |}, OOk)
          else Some (st, OReserved)
      | None =>
          Some ({| free := remove_first a (free st); leases := lm_insert a s (leases st); asc := asc st |}, OOk)
      end
  | CRelease None => Some (st, OOk)
  | CRelease (Some a) =>
      match lm_lookup a (leases st) with
      | Some _ =>
          (* before d00d766: the address went back on the free list whatever it was.
             repaired: only an assignable address goes back *)
          let back := is_defective v || assignable c a in
          Some ({| free := if back then free st ++ [a] else free st;
                   leases := lm_remove a (leases st); asc := asc st |}, OOk)
      | None => Some (st, OOk)
      end
  | CSetDir b =>
      if Bool.eqb b (asc st) then Some (st, OOk)
      else Some ({| free := build_free c (leases st) b; leases := leases st; asc := b |}, OOk)
  | CAvail => Some (st, ONum (N.of_nat (length (free st))))
  end.

(* raw call (addresses as they come out of AddrFromSlice) -> normalised call *)
Definition norm_call (k : call) : call :=
  match k with
  | CReserve a s => CReserve (norm a) s
  | CRelease a => CRelease (norm a)
  | _ => k
  end.
Definition pool_call (v : variant) (c : pcfg) (st : pstate) (k : call) : option (pstate * out) :=
  pool_step v c st (norm_call k).

(* whole history; the event list pairs every (normalised) call with its result *)
Definition event := (call * out)%type.
Fixpoint pool_run_from (v : variant) (c : pcfg) (st : pstate) (ks : list call)
  : option (pstate * list event) :=
  match ks with
  | [] => Some (st, [])
  | k :: r =>
      match pool_call v c st k with
      | None => None
      | Some (st1, o) =>
          match pool_run_from v c st1 r with
          | None => None
          | Some (st2, evs) => Some (st2, (norm_call k, o) :: evs)
          end
      end
  end.
Definition pool_run v c ks := pool_run_from v c (pool_init c) ks.

(* Ownership ledger recomputed from what a caller can observe. *)
Definition ledger_step (m : lease_map) (e : event) : lease_map :=
  match e with
  | (CAlloc s _, OAddr a) => lm_insert a s m
  | (CReserve (Some a) s, OOk) => lm_insert a s m
  | (CRelease (Some a), _) => lm_remove a m
  | _ => m
  end.
Definition ledger (evs : list event) : lease_map := fold_left ledger_step evs [].

(* ================================================================ prefix delegation *)
Definition W64 : N := 18446744073709551616.                     (* 2^64 *)
Definition W128 : N := 340282366920938463463374607431768211456.  (* 2^128 *)

Record pdcfg := { pd_net : N;      (* network address as configured (128-bit number) *)
                  pd_nbits : N;    (* network.Bits() *)
                  pd_plen : N;     (* delegated prefix length *)
                  pd_v4 : bool }.  (* the configured network is an IPv4 prefix (pd_net is then a 32-bit number) *)

(* network.Masked().Addr(), as the 16 bytes indexToIPNet / prefixToIndex work on (As16): an IPv4 network is
   masked as a 32-bit address and then mapped to ::ffff:a.b.c.d *)
Definition pd_base (c : pdcfg) : N :=
  if pd_v4 c
  then let m := N.pow 2 (32 - pd_nbits c) in 281470681743360 + (pd_net c / m) * m
  else let m := N.pow 2 (128 - pd_nbits c) in (pd_net c / m) * m.
Definition pd_count (c : pdcfg) : N := N.pow 2 (pd_plen c - pd_nbits c).
(* NewPrefixAllocator returns nil unless 0 <= plen - nbits <= 63 *)
Definition pd_valid (c : pdcfg) : bool :=
  N.leb (pd_nbits c) (pd_plen c) && N.leb (pd_plen c - pd_nbits c) 63.
(* since 1de6b72 additionally prefixLength <= network.Addr().BitLen() (32 for an IPv4 network);
   repaired: additionally the network must be an IPv6 prefix - prefix delegation is IPv6 only, and for an
   IPv4 network the 128-bit index arithmetic runs on the mapped address ::ffff:a.b.c.d and produces
   prefixes far outside the configured network *)
Definition pd_new (v : variant) (c : pdcfg) : bool :=
  pd_valid c && (unguarded v || N.leb (pd_plen c) (if pd_v4 c then 32 else 128)) && (v4pd v || negb (pd_v4 c)).
(* the domain of the arithmetic theorems: IPv6 network < 2^128, plen <= 128 *)
Definition pd_wf (c : pdcfg) : bool :=
  pd_valid c && N.leb (pd_plen c) 128 && N.ltb (pd_net c) W128 && negb (pd_v4 c).

(* indexToIPNet: base + idx << (128 - plen) on two uint64 words *)
Definition index_to_prefix (c : pdcfg) (idx : N) : N :=
  let b := pd_base c in
  let hi := b / W64 in
  let lo := b mod W64 in
  let shift := 128 - pd_plen c in
  let '(addHi, addLo) :=
    (* plen > 128: uint(128 - plen) wraps to >= 2^64 - 127, so `idx << (shift - 64)` shifts everything out *)
    if N.ltb 128 (pd_plen c) then (0, 0)
    else if N.leb 64 shift then ((idx * N.pow 2 (shift - 64)) mod W64, 0)
    else if N.eqb shift 0 then (0, idx)
    else (idx / N.pow 2 (64 - shift), (idx * N.pow 2 shift) mod W64) in
  let newLo := (lo + addLo) mod W64 in
  let carry := if N.ltb newLo lo then 1 else 0 in
  ((hi + addHi + carry) mod W64) * W64 + newLo.

(* a *net.IPNet argument: nil, or IP (None = slice of bad length) and Mask.Size() = (ones, bits);
   Size() is (0,0) for a nil or non-canonical mask *)
Inductive pfx := PNil | Pfx (ip : option addr) (ones bits : N).

(* As16 of an unmapped address *)
Definition as16 (a : addr) : N :=
  match a with (V4, n) => 281470681743360 + n | (V6, n) => n end.   (* 0xffff00000000 + n *)

(* prefixToIndex *)
Definition prefix_to_index (v : variant) (c : pdcfg) (p : pfx) : option N :=
  match p with
  | PNil => None
  | Pfx ip ones bits =>
      if negb (N.eqb bits 128) || negb (N.eqb ones (pd_plen c)) then None else
      match norm ip with
      | None => None
      | Some a =>
          let A := as16 a in
          let B := pd_base c in
          let addrHi := A / W64 in let addrLo := A mod W64 in
          let baseHi := B / W64 in let baseLo := B mod W64 in
          let diffLo := (addrLo + W64 - baseLo) mod W64 in
          let borrow := if N.ltb addrLo baseLo then 1 else 0 in
          let diffHi := (addrHi + W64 + W64 - baseHi - borrow) mod W64 in
          let shift := 128 - pd_plen c in
          let idx :=
            if N.leb 64 shift then diffHi / N.pow 2 (shift - 64)
            else if N.eqb shift 0 then diffLo
            else N.lor ((diffHi * N.pow 2 (64 - shift)) mod W64) (diffLo / N.pow 2 shift) in
          (* repaired: the address must lie inside the configured network *)
          let inside := N.eqb (A / N.pow 2 (128 - pd_nbits c)) (B / N.pow 2 (128 - pd_nbits c)) in
          if negb (is_defective v) && negb inside then None
          else if N.leb (pd_count c) idx then None else Some idx
      end
  end.

(* The PrefixAllocator state machine is, line for line, the PoolAllocator one with indices as
   keys: range 0..count-1, nothing excluded. *)
Definition pd_pool_cfg (c : pdcfg) : pcfg :=
  {| p_fam := V6; p_lo := 0; p_hi := pd_count c - 1; p_excl := [] |}.
Definition key_of_idx (i : N) : addr := (V6, i).

Inductive pdcall :=
| PAlloc (s : sid) (obs : option (N * N * N))   (* obs: (16-byte IP as a number, ones, bits) *)
| PReserve (p : pfx) (s : sid)
| PRelease (p : pfx)
| PContains (p : pfx)
| PSetDir (b : bool)
| PAvail.
Inductive pdout :=
| QPfx (ip ones bits : N) | QExhausted | QOk | QReserved | QNum (n : N) | QBool (b : bool).

Definition pdout_of (o : out) : pdout :=
  match o with
  | OAddr a => QNum (snd a) | OExhausted => QExhausted | OOk => QOk | OReserved => QReserved
  | ONum n => QNum n
  end.

Definition pd_step (v : variant) (c : pdcfg) (st : pstate) (k : pdcall) : option (pstate * pdout) :=
  let pc := pd_pool_cfg c in
  match k with
  | PAlloc s None =>
      match pool_step v pc st (CAlloc s None) with Some (st', _) => Some (st', QExhausted) | None => None end
  | PAlloc s (Some (ip, ones, bits)) =>
      if N.ltb 128 (pd_plen c)
      then (* before 1de6b72, with plen > 128 (now refused by pd_new): every index yields the base address and net.CIDRMask(plen, 128)
              is nil (Size() = 0,0); the answer does not identify the index, any free one is consumed *)
           match lifo_choice st with
           | Some a =>
               if N.eqb ip (pd_base c) && N.eqb ones 0 && N.eqb bits 0
               then match pool_step v pc st (CAlloc s (Some a)) with
                    | Some (st', _) => Some (st', QPfx ip ones bits) | None => None end
               else None
           | None => None
           end
      else
      match prefix_to_index v c (Pfx (Some (V6, ip)) ones bits) with
      | Some i =>
          if N.eqb (index_to_prefix c i) ip
          then match pool_step v pc st (CAlloc s (Some (key_of_idx i))) with
               | Some (st', _) => Some (st', QPfx ip ones bits)
               | None => None
               end
          else None
      | None => None
      end
  | PReserve p s =>
      match prefix_to_index v c p with
      | None => Some (st, QOk)
      | Some i => match pool_step v pc st (CReserve (Some (key_of_idx i)) s) with
                  | Some (st', o) => Some (st', pdout_of o) | None => None end
      end
  | PRelease p =>
      match prefix_to_index v c p with
      | None => Some (st, QOk)
      | Some i => match pool_step v pc st (CRelease (Some (key_of_idx i))) with
                  | Some (st', o) => Some (st', pdout_of o) | None => None end
      end
  | PContains p =>
      Some (st, QBool (match prefix_to_index v c p with Some _ => true | None => false end))
  | PSetDir b =>
      match pool_step v pc st (CSetDir b) with Some (st', _) => Some (st', QOk) | None => None end
  | PAvail => Some (st, QNum (N.of_nat (length (free st))))
  end.

Definition pd_init (c : pdcfg) : pstate := pool_init (pd_pool_cfg c).

(* whole PD history, and the ownership ledger (keyed by index) recomputed from what a caller observes *)
Fixpoint pd_run_from (v : variant) (c : pdcfg) (st : pstate) (ks : list pdcall)
  : option (pstate * list (pdcall * pdout)) :=
  match ks with
  | [] => Some (st, [])
  | k :: r =>
      match pd_step v c st k with
      | None => None
      | Some (st1, o) =>
          match pd_run_from v c st1 r with
          | None => None
          | Some (st2, evs) => Some (st2, (k, o) :: evs)
          end
      end
  end.
Definition pd_run v c ks := pd_run_from v c (pd_init c) ks.

Definition pd_ledger_step (v : variant) (c : pdcfg) (m : lease_map) (e : pdcall * pdout) : lease_map :=
  match e with
  | (PAlloc s _, QPfx ip ones bits) =>
      match prefix_to_index v c (Pfx (Some (V6, ip)) ones bits) with
      | Some i => lm_insert (key_of_idx i) s m | None => m end
  | (PReserve p s, QOk) =>
      match prefix_to_index v c p with Some i => lm_insert (key_of_idx i) s m | None => m end
  | (PRelease p, _) =>
      match prefix_to_index v c p with Some i => lm_remove (key_of_idx i) m | None => m end
  | _ => m
  end.
Definition pd_ledger v c (evs : list (pdcall * pdout)) : lease_map := fold_left (pd_ledger_step v c) evs [].

(* ================================================================ registry *)
(* The Registry holds three families of allocators: IPv4 pools (r.allocators), IPv6 IA_NA pools
   (r.ianaAllocators: PoolAllocators as well) and IPv6 PD pools (r.pdAllocators: PrefixAllocators),
   each with its own profile -> ordered pool list map, and ONE pool -> VRF map (r.poolVRFs) keyed by
   "profile/pool" only.  Names (profiles, pools, VRFs) are numbers; VRF 0 is "" (no VRF). *)
Inductive rfam := F4 | FNA | FPD.
Definition rfam_eqb (a b : rfam) : bool :=
  match a, b with F4, F4 | FNA, FNA | FPD, FPD => true | _, _ => false end.
Definition key := (N * N)%type.     (* profileName + "/" + pool.Name *)
Definition key_eqb (a b : key) : bool := N.eqb (fst a) (fst b) && N.eqb (snd a) (snd b).

(* an allocator's configuration: address pool or prefix pool; both run the pool state machine *)
Inductive acfg := APool (c : pcfg) | APd (c : pdcfg).
Definition acfg_pool (a : acfg) : pcfg := match a with APool c => c | APd c => pd_pool_cfg c end.
(* an argument of a registry call: net.IP or *net.IPNet *)
Inductive rarg := RA (a : option addr) | RP (p : pfx).
(* an Allocate answer: address, or prefix (16-byte IP as a number, ones, bits) *)
Inductive gobs := OA (a : addr) | OP (ip ones bits : N).

(* the key an allocator files an argument under; None: the allocator ignores the call *)
Definition akey (v : variant) (ac : acfg) (x : rarg) : option addr :=
  match ac, x with
  | APool _, RA a => norm a
  | APd c, RP p => match prefix_to_index v c p with Some i => Some (key_of_idx i) | None => None end
  | _, _ => None
  end.
(* PoolAllocator.Contains / PrefixAllocator.Contains *)
Definition contains (c : pcfg) (raw : option addr) : bool :=
  match norm raw with Some a => in_range c a | None => false end.
Definition acontains (v : variant) (ac : acfg) (x : rarg) : bool :=
  match ac, x with
  | APool c, RA a => contains c a
  | APd c, RP p => match prefix_to_index v c p with Some _ => true | None => false end
  | _, _ => false
  end.
(* PrefixAllocator.Overlaps (23daa44): the prefix shares addresses with the pool network without being one
   of the pool's delegations - another length covering the network or lying inside it, or the delegated
   length where Contains says no.  netip.Prefix.Overlaps: same family and the first min(bits) bits agree. *)
Definition overlaps (v : variant) (c : pdcfg) (p : pfx) : bool :=
  match p with
  | PNil => false
  | Pfx ip ones bits =>
      match prefix_to_index v c p with
      | Some _ => false
      | None =>
          if negb (N.eqb bits 128) then false else
          match norm ip with
          | Some (V6, A) =>
              let m := N.min (pd_nbits c) ones in
              N.eqb (A / N.pow 2 (128 - m)) (pd_base c / N.pow 2 (128 - m))
          | _ => false      (* bad slice; an IPv4 address (after Unmap) never overlaps an IPv6 network *)
          end
      end
  end.

(* the key of an Allocate answer; None: not something this allocator can have handed out *)
Definition aobs_key (v : variant) (ac : acfg) (o : gobs) : option addr :=
  match ac, o with
  | APool _, OA a => Some a
  | APd c, OP ip ones bits =>
      match prefix_to_index v c (Pfx (Some (V6, ip)) ones bits) with
      | Some i => if N.eqb (index_to_prefix c i) ip then Some (key_of_idx i) else None
      | None => None
      end
  | _, _ => None
  end.

Record rpool := {
  rp_name : N;
  rp_prio : Z;           (* only IPv4 pools have a priority *)
  rp_vrf : N;
  rp_cfg : option acfg   (* None: Network / range strings do not parse (or NewPrefixAllocator
                            returned nil): no allocator is created *)
}.
(* one pool list of one profile: IPv4Profile.Pools, IPv6Profile.IANAPools or IPv6Profile.PDPools *)
Record rprofile := { rf_name : N; rf_fam : rfam; rf_pools : list rpool }.

Definition amap := list (key * (acfg * pstate)).
Record rstate := {
  r_a4 : amap; r_ana : amap; r_apd : amap;                 (* allocators / ianaAllocators / pdAllocators *)
  r_l4 : list (N * list key); r_lna : list (N * list key); r_lpd : list (N * list key);
                                                           (* profilePools / profileIANAPools / profilePDPools *)
  r_vrfs : list ((rfam * key) * N)                         (* poolVRFs *)
}.
Definition r_allocs (st : rstate) (f : rfam) : amap :=
  match f with F4 => r_a4 st | FNA => r_ana st | FPD => r_apd st end.
Definition r_lists (st : rstate) (f : rfam) : list (N * list key) :=
  match f with F4 => r_l4 st | FNA => r_lna st | FPD => r_lpd st end.
Definition set_allocs (st : rstate) (f : rfam) (m : amap) : rstate :=
  match f with
  | F4 => {| r_a4 := m; r_ana := r_ana st; r_apd := r_apd st; r_l4 := r_l4 st; r_lna := r_lna st; r_lpd := r_lpd st; r_vrfs := r_vrfs st |}
  | FNA => {| r_a4 := r_a4 st; r_ana := m; r_apd := r_apd st; r_l4 := r_l4 st; r_lna := r_lna st; r_lpd := r_lpd st; r_vrfs := r_vrfs st |}
  | FPD => {| r_a4 := r_a4 st; r_ana := r_ana st; r_apd := m; r_l4 := r_l4 st; r_lna := r_lna st; r_lpd := r_lpd st; r_vrfs := r_vrfs st |}
  end.
Definition set_lists (st : rstate) (f : rfam) (l : list (N * list key)) : rstate :=
  match f with
  | F4 => {| r_a4 := r_a4 st; r_ana := r_ana st; r_apd := r_apd st; r_l4 := l; r_lna := r_lna st; r_lpd := r_lpd st; r_vrfs := r_vrfs st |}
  | FNA => {| r_a4 := r_a4 st; r_ana := r_ana st; r_apd := r_apd st; r_l4 := r_l4 st; r_lna := l; r_lpd := r_lpd st; r_vrfs := r_vrfs st |}
  | FPD => {| r_a4 := r_a4 st; r_ana := r_ana st; r_apd := r_apd st; r_l4 := r_l4 st; r_lna := r_lna st; r_lpd := l; r_vrfs := r_vrfs st |}
  end.
Definition set_vrfs (st : rstate) (m : list ((rfam * key) * N)) : rstate :=
  {| r_a4 := r_a4 st; r_ana := r_ana st; r_apd := r_apd st; r_l4 := r_l4 st; r_lna := r_lna st; r_lpd := r_lpd st; r_vrfs := m |}.

(* before 85029df: one map keyed by "profile/pool" for all three families; now: one per family *)
Definition vkey (v : variant) (f : rfam) (k : key) : rfam * key := if shared_vrf v then (F4, k) else (f, k).
Definition vkey_eqb (a b : rfam * key) : bool := rfam_eqb (fst a) (fst b) && key_eqb (snd a) (snd b).

Fixpoint assoc_find {A B} (eqb : A -> A -> bool) (k : A) (l : list (A * B)) : option B :=
  match l with
  | [] => None
  | (k', x) :: r => if eqb k k' then Some x else assoc_find eqb k r
  end.
Fixpoint assoc_set {A B} (eqb : A -> A -> bool) (k : A) (x : B) (l : list (A * B)) : list (A * B) :=
  match l with
  | [] => [(k, x)]
  | (k', y) :: r => if eqb k k' then (k, x) :: r else (k', y) :: assoc_set eqb k x r
  end.

(* sort.Slice by priority: for fewer than 12 elements Go's pdqsort is an insertion sort, which is
   stable; transcribed as such *)
Fixpoint insert_by_prio (p : rpool) (l : list rpool) : list rpool :=
  match l with
  | [] => [p]
  | q :: r => if Z.ltb (rp_prio p) (rp_prio q) then p :: l else q :: insert_by_prio p r
  end.
Definition sort_by_prio (l : list rpool) : list rpool :=
  fold_left (fun acc p => insert_by_prio p acc) l [].

(* ---------------------------------------------------------------- configuration -> geometry *)
(* What initV4Pools / initV6Pools compute from an ip.IPv4Pool / ip.IANAPool / ip.PDPool before they call
   NewPoolAllocator / NewPrefixAllocator.  Address strings are abstracted to: empty, does not parse,
   parses to an address (netip.ParseAddr / netaddr.ParseIPPrefix themselves are not modelled). *)
Inductive cstr := SEmpty | SJunk | SAddr (a : addr).
Record pool_spec := {
  sp_net : option (addr * N);         (* pool.Network parsed: address and prefix bits; None = parse error *)
  sp_lo : cstr; sp_hi : cstr;         (* RangeStart / RangeEnd *)
  sp_gw : cstr;                       (* pool.Gateway *)
  sp_pgw : cstr;                      (* profile.Gateway (IPv4 profiles) *)
  sp_plen : N;                        (* PDPool.PrefixLength *)
  sp_excl : list (cstr * cstr)        (* Exclude entries: "a" = (a, SEmpty), "a-b" = (a, b) *)
}.
Definition fam_width (f : family) : N := match f with V4 => 32 | V6 => 128 end.

(* the gateway that is excluded: pool.Gateway, for IPv4 pools the profile's when the pool has none *)
Definition eff_gw (f : rfam) (sp : pool_spec) : cstr :=
  match f with
  | F4 => match sp_gw sp with SEmpty => sp_pgw sp | g => g end
  | _ => sp_gw sp
  end.
(* parseExcludeRange; None = the loop never returns *)
Definition expand_excl (v : variant) (e : cstr * cstr) : option (list addr) :=
  match e with
  | (SAddr a, SEmpty) => Some [a]
  | (SAddr a, SAddr b) =>
      if range_terminates v a b
      then if fam_eqb (fst a) (fst b)
           then Some (map (fun i => (fst a, snd a + N.of_nat i)) (seq 0%nat (N.to_nat (snd b + 1 - snd a))))
           else Some []
      else None
  | _ => Some []
  end.
Fixpoint expand_all (v : variant) (l : list (cstr * cstr)) : option (list addr) :=
  match l with
  | [] => Some []
  | e :: r => match expand_excl v e, expand_all v r with
              | Some a, Some b => Some (a ++ b) | _, _ => None end
  end.
(* outer None: registry construction never returns; inner None: no allocator is created for the pool *)
Definition spec_geom (v : variant) (f : rfam) (sp : pool_spec) : option (option acfg) :=
  match sp_net sp with
  | None => Some None
  | Some (na, bits) =>
      match f with
      | FPD =>
          let c := {| pd_net := snd na; pd_nbits := bits; pd_plen := sp_plen sp;
                      pd_v4 := match fst na with V4 => true | V6 => false end |} in
          Some (if pd_new v c then Some (APd c) else None)
      | _ =>
          let m := N.pow 2 (fam_width (fst na) - bits) in
          let first := (snd na / m) * m in
          let last := first + m - 1 in
          (* prefix.Range().From().Next() / .To().Prior(): the zero IP (which does not parse) past the ends *)
          let lo := match sp_lo sp with
                    | SEmpty => if N.eqb first (fam_max (fst na)) then None else Some (fst na, first + 1)
                    | SJunk => None | SAddr a => Some a end in
          let hi := match sp_hi sp with
                    | SEmpty => if N.eqb last 0 then None else Some (fst na, last - 1)
                    | SJunk => None | SAddr a => Some a end in
          match lo, hi with
          | Some lo, Some hi =>
              let gws := match eff_gw f sp with SAddr g => [g] | _ => [] end in
              match (match f with F4 => expand_all v (sp_excl sp) | _ => Some [] end) with
              | None => None
              | Some ex => match pool_geom v lo hi (gws ++ ex) with
                           | Some c => Some (Some (APool c)) | None => None end
              end
          | _, _ => Some None
          end
      end
  end.
Record rpool_spec := { rs_name : N; rs_prio : Z; rs_vrf : N; rs_spec : pool_spec }.
Record rprofile_spec := { sf_name : N; sf_fam : rfam; sf_pools : list rpool_spec }.
Fixpoint pools_of_specs (v : variant) (f : rfam) (l : list rpool_spec) : option (list rpool) :=
  match l with
  | [] => Some []
  | p :: r => match spec_geom v f (rs_spec p), pools_of_specs v f r with
              | Some g, Some ps => Some ({| rp_name := rs_name p; rp_prio := rs_prio p; rp_vrf := rs_vrf p; rp_cfg := g |} :: ps)
              | _, _ => None end
  end.
Fixpoint reg_config (v : variant) (l : list rprofile_spec) : option (list rprofile) :=
  match l with
  | [] => Some []
  | pf :: r => match pools_of_specs v (sf_fam pf) (sf_pools pf), reg_config v r with
               | Some ps, Some pfs => Some ({| rf_name := sf_name pf; rf_fam := sf_fam pf; rf_pools := ps |} :: pfs)
               | _, _ => None end
  end.

(* one iteration of the pool loop of initV4Pools / initV6Pools *)
Definition init_pool (v : variant) (f : rfam) (pfname : N) (s : rstate) (p : rpool) : rstate :=
  let k := (pfname, rp_name p) in
  let s1 := if N.eqb (rp_vrf p) 0 then s
            else set_vrfs s (assoc_set vkey_eqb (vkey v f k) (rp_vrf p) (r_vrfs s)) in
  match assoc_find key_eqb k (r_allocs s1 f) with
  | Some _ => s1                                                   (* if exists { continue } *)
  | None => match rp_cfg p with
            | Some c => set_allocs s1 f (r_allocs s1 f ++ [(k, (c, pool_init (acfg_pool c)))])
            | None => s1
            end
  end.
Definition init_profile (v : variant) (st : rstate) (pf : rprofile) : rstate :=
  let f := rf_fam pf in
  let ordered := match f with F4 => sort_by_prio (rf_pools pf) | _ => rf_pools pf end in
  let names := map (fun p => (rf_name pf, rp_name p)) ordered in
  let st1 := set_lists st f (assoc_set N.eqb (rf_name pf) names (r_lists st f)) in
  fold_left (init_pool v f (rf_name pf)) (rf_pools pf) st1.
Definition reg_empty : rstate :=
  {| r_a4 := []; r_ana := []; r_apd := []; r_l4 := []; r_lna := []; r_lpd := []; r_vrfs := [] |}.
(* the list must carry every IPv4 pool list before the IA_NA list before the PD list of an equally
   named profile (newRegistry: initV4Pools, then per v6 profile IANA then PD) *)
Definition reg_init (v : variant) (pfs : list rprofile) : rstate := fold_left (init_profile v) pfs reg_empty.

Definition vrf_of (v : variant) (st : rstate) (f : rfam) (k : key) : N :=
  match assoc_find vkey_eqb (vkey v f k) (r_vrfs st) with Some x => x | None => 0 end.
Definition pools_of (st : rstate) (f : rfam) (profile : N) : list key :=
  match assoc_find N.eqb profile (r_lists st f) with Some l => l | None => [] end.
Definition has_free (st : rstate) (f : rfam) (k : key) : bool :=
  match assoc_find key_eqb k (r_allocs st f) with
  | Some (_, ps) => match free ps with [] => false | _ => true end
  | None => false
  end.

(* the pool Allocate*FromProfile answers from: override first (if it names a pool of the profile that
   still has a free address), then the profile's list in order, same VRF only *)
Definition walk_target (v : variant) (st : rstate) (f : rfam) (vrf : N) (l : list key) : option key :=
  find (fun k => N.eqb (vrf_of v st f k) vrf && has_free st f k) l.
Definition alloc_target (v : variant) (st : rstate) (f : rfam) (profile override vrf : N) : option key :=
  if negb (N.eqb override 0) && has_free st f (profile, override) then Some (profile, override)
  else walk_target v st f vrf (pools_of st f profile).

Inductive rcall :=
| RAlloc (f : rfam) (profile override vrf : N) (s : sid) (obs : option (key * gobs))
| RRelease (f : rfam) (k : key) (x : rarg)                        (* Release / ReleaseIANA / ReleasePD (poolName, ..) *)
| RReserveInPool (f : rfam) (k : key) (x : rarg) (s : sid) (obs : option key)
| RReserve (f : rfam) (x : rarg) (s : sid) (obs : option key)     (* ReserveIP / ReserveIANA / ReservePD: walk *)
| RReleaseInPool (f : rfam) (k : key) (x : rarg) (obs : option key)
| RReleaseByValue (f : rfam) (x : rarg) (obs : option key)        (* ReleaseIP, ReleaseIANAByIP: every pool;
                                                                     ReleasePDByPrefix: first pool containing it *)
| RSetDir (b : bool)
| RAvail (f : rfam) (k : key)
| RPools (f : rfam) (profile : N).
(* obs of the walks `for _, alloc := range <Go map> { if alloc.Contains(x) {...; return} }`:
   the allocator the implementation stopped at (Go map order) *)
Inductive rout :=
| ROAns (k : key) (o : gobs) | ROExhausted | ROOk | ROReserved | RONum (n : N) | RONoPool | ROList (l : list key)
| ROOverlap.   (* ReservePD*: the prefix is no delegation of any pool but overlaps a pool network (23daa44) *)

Definition rout_of (o : out) : rout :=
  match o with
  | OAddr a => RONum (snd a) | OExhausted => ROExhausted | OOk => ROOk | OReserved => ROReserved
  | ONum n => RONum n
  end.

(* a pool-machine call on the allocator stored under k *)
Definition on_pool (v : variant) (st : rstate) (f : rfam) (k : key) (mk : acfg -> option call)
  : option (rstate * out) :=
  match assoc_find key_eqb k (r_allocs st f) with
  | None => None
  | Some (ac, ps) =>
      match mk ac with
      | None => None
      | Some pc =>
          match pool_step v (acfg_pool ac) ps pc with
          | Some (ps', o) => Some (set_allocs st f (assoc_set key_eqb k (ac, ps') (r_allocs st f)), o)
          | None => None
          end
      end
  end.
Definition mk_reserve v x s (ac : acfg) : option call := Some (CReserve (akey v ac x) s).
Definition mk_release v x (ac : acfg) : option call := Some (CRelease (akey v ac x)).
Definition mk_alloc v s (o : gobs) (ac : acfg) : option call :=
  match aobs_key v ac o with Some a => Some (CAlloc s (Some a)) | None => None end.

(* containment walk; the allocator is the implementation's choice, admissible iff it contains x *)
Definition walk (v : variant) (st : rstate) (f : rfam) (x : rarg) (obs : option key)
                (mk : acfg -> option call) : option (rstate * rout) :=
  match obs with
  | None =>
      if existsb (fun e => acontains v (fst (snd e)) x) (r_allocs st f) then None else Some (st, ROOk)
  | Some k =>
      match assoc_find key_eqb k (r_allocs st f) with
      | Some (ac, _) =>
          if acontains v ac x
          then match on_pool v st f k mk with
               | Some (st', o) => Some (st', rout_of o) | None => None end
          else None
      | None => None
      end
  end.
(* pdOverlapLocked: after a ReservePD / ReservePDInPool walk that found no pool containing the prefix *)
Definition pd_overlap (v : variant) (st : rstate) (x : rarg) : bool :=
  match x with
  | RP p => existsb (fun e => match fst (snd e) with APd c => overlaps v c p | APool _ => false end) (r_apd st)
  | RA _ => false
  end.
Definition reserve_walk (v : variant) (st : rstate) (f : rfam) (x : rarg) (s : sid) (obs : option key)
  : option (rstate * rout) :=
  match walk v st f x obs (mk_reserve v x s) with
  | Some (st', ROOk) =>
      match f, obs with
      | FPD, None => if pd_overlap v st x then Some (st', ROOverlap) else Some (st', ROOk)
      | _, _ => Some (st', ROOk)
      end
  | r => r
  end.
Definition map_pools (v : variant) (st : rstate) (f : rfam) (mk : acfg -> option call) : rstate :=
  set_allocs st f
    (map (fun e => match mk (fst (snd e)) with
                   | Some pc => match pool_step v (acfg_pool (fst (snd e))) (snd (snd e)) pc with
                                | Some (ps', _) => (fst e, (fst (snd e), ps'))
                                | None => e end
                   | None => e end) (r_allocs st f)).

Definition reg_step (v : variant) (st : rstate) (k : rcall) : option (rstate * rout) :=
  match k with
  | RAlloc f profile override vrf s obs =>
      match alloc_target v st f profile override vrf, obs with
      | None, None => Some (st, ROExhausted)
      | Some t, Some (k', o) =>
          if key_eqb t k'
          then match on_pool v st f t (mk_alloc v s o) with
               | Some (st', _) => Some (st', ROAns t o) | None => None end
          else None
      | _, _ => None
      end
  | RRelease f k' x =>
      match on_pool v st f k' (mk_release v x) with
      | Some (st', _) => Some (st', ROOk)
      | None => Some (st, ROOk)
      end
  | RReserveInPool f k' x s obs =>
      match assoc_find key_eqb k' (r_allocs st f) with
      | Some _ => match on_pool v st f k' (mk_reserve v x s) with
                  | Some (st', o) => Some (st', rout_of o) | None => None end
      | None => reserve_walk v st f x s obs
      end
  | RReserve f x s obs => reserve_walk v st f x s obs
  | RReleaseInPool f k' x obs =>
      match assoc_find key_eqb k' (r_allocs st f) with
      | Some _ => match on_pool v st f k' (mk_release v x) with
                  | Some (st', _) => Some (st', ROOk) | None => None end
      | None => walk v st f x obs (mk_release v x)
      end
  | RReleaseByValue f x obs =>
      match f with
      | FPD => walk v st f x obs (mk_release v x)
      | _ => Some (map_pools v st f (mk_release v x), ROOk)
      end
  | RSetDir b =>
      Some (map_pools v (map_pools v (map_pools v st F4 (fun _ => Some (CSetDir b))) FNA (fun _ => Some (CSetDir b)))
                      FPD (fun _ => Some (CSetDir b)), ROOk)
  | RAvail f k' =>
      match assoc_find key_eqb k' (r_allocs st f) with
      | Some (_, ps) => Some (st, RONum (N.of_nat (length (free ps))))
      | None => Some (st, RONoPool)
      end
  | RPools f profile => Some (st, ROList (pools_of st f profile))
  end.

Fixpoint reg_run_from (v : variant) (st : rstate) (ks : list rcall) : option (rstate * list (rcall * rout)) :=
  match ks with
  | [] => Some (st, [])
  | k :: r =>
      match reg_step v st k with
      | None => None
      | Some (st1, o) =>
          match reg_run_from v st1 r with
          | None => None
          | Some (st2, evs) => Some (st2, (k, o) :: evs)
          end
      end
  end.

(* ---------------------------------------------------------------- pkg/dhcp/resolve.go, allocation decisions *)
(* ResolveV4: no address in the context -> AllocateFromProfile, else ReserveIP; nil on any error *)
Inductive res4 := R4Nil | R4 (ip : addr) (pool : option key).
Definition resolve4 (v : variant) (st : rstate) (profile override vrf : N) (s : sid)
                    (have : option addr) (obs : option (key * gobs)) (wobs : option key)
  : option (rstate * res4) :=
  match have with
  | None =>
      match reg_step v st (RAlloc F4 profile override vrf s obs) with
      | Some (st', ROAns k (OA a)) => Some (st', R4 a (Some k))
      | Some (st', ROExhausted) => Some (st', R4Nil)
      | _ => None
      end
  | Some a =>
      match reg_step v st (RReserve F4 (RA (Some a)) s wobs) with
      | Some (st', ROOk) => Some (st', R4 a None)
      | Some (st', ROReserved) => Some (st', R4Nil)
      | _ => None
      end
  end.

(* ResolveV6: IA_NA then PD; a failed allocation leaves that part empty, a reservation conflict
   aborts (the other part may already have been allocated and stays in the context); nil when the
   context ends up with neither address nor prefix *)
Record r6 := { r6_nil : bool;             (* ResolveV6 returned nil *)
               r6_na : option addr;       (* ctx.IPv6Address after the call *)
               r6_napool : option key;    (* ctx.AllocatedIANAPool *)
               r6_pd : option gobs;       (* prefix allocated by this call *)
               r6_pdpool : option key }.
Definition resolve6 (v : variant) (st : rstate) (profile naov pdov vrf : N) (s : sid)
                    (havena : option addr) (havepd : option pfx)
                    (obsna obspd : option (key * gobs)) (wna wpd : option key)
  : option (rstate * r6) :=
  let r1 :=
    match havena with
    | None =>
        match reg_step v st (RAlloc FNA profile naov vrf s obsna) with
        | Some (st', ROAns k (OA a)) => Some (st', false, Some a, Some k)
        | Some (st', ROExhausted) => Some (st', false, None, None)
        | _ => None
        end
    | Some a =>
        match reg_step v st (RReserve FNA (RA (Some a)) s wna) with
        | Some (st', ROOk) => Some (st', false, Some a, None)
        | Some (st', ROReserved) => Some (st', true, Some a, None)
        | _ => None
        end
    end in
  match r1 with
  | None => None
  | Some (st1, true, na, napool) =>
      Some (st1, {| r6_nil := true; r6_na := na; r6_napool := napool; r6_pd := None; r6_pdpool := None |})
  | Some (st1, false, na, napool) =>
      let r2 :=
        match havepd with
        | None =>
            match reg_step v st1 (RAlloc FPD profile pdov vrf s obspd) with
            | Some (st', ROAns k o) => Some (st', false, Some o, Some k)
            | Some (st', ROExhausted) => Some (st', false, None, None)
            | _ => None
            end
        | Some p =>
            match reg_step v st1 (RReserve FPD (RP p) s wpd) with
            | Some (st', ROOk) => Some (st', false, None, None)
            | Some (st', ROReserved) => Some (st', true, None, None)
            | Some (st', ROOverlap) => Some (st', true, None, None)
            | _ => None
            end
        end in
      match r2 with
      | None => None
      | Some (st2, abort, pd, pdpool) =>
          let nothing := match na, havepd, pd with None, None, None => true | _, _, _ => false end in
          Some (st2, {| r6_nil := abort || nothing; r6_na := na; r6_napool := napool;
                        r6_pd := pd; r6_pdpool := pdpool |})
      end
  end.

(* ---------------------------------------------------------------- re-entry: the allocation context of a session *)
(* allocator.Context as far as ResolveV4/ResolveV6 read and write it.  A session calls Resolve again with
   the SAME context (REQUEST after DISCOVER, renew, retry after a failure); releases through the registry
   do not touch the context.  Whatever the context says, an address it carries is re-staked with
   ReserveIP / ReserveIANA / ReservePD on every entry. *)
Record sctx4 := { c4_pf : N; c4_ov : N; c4_vrf : N;
                  c4_addr : option addr;      (* ctx.IPv4Address *)
                  c4_pool : option key }.     (* ctx.AllocatedPool *)
Definition resolve4_ctx (v : variant) (st : rstate) (s : sid) (cx : sctx4)
                        (obs : option (key * gobs)) (wobs : option key)
  : option (rstate * sctx4 * res4) :=
  match resolve4 v st (c4_pf cx) (c4_ov cx) (c4_vrf cx) s (c4_addr cx) obs wobs with
  | Some (st', R4 a (Some k)) =>
      Some (st', {| c4_pf := c4_pf cx; c4_ov := c4_ov cx; c4_vrf := c4_vrf cx;
                    c4_addr := Some a; c4_pool := Some k |}, R4 a (Some k))
  | Some (st', r) => Some (st', cx, r)
  | None => None
  end.

Record sctx6 := { c6_pf : N; c6_naov : N; c6_pdov : N; c6_vrf : N;
                  c6_na : option addr;        (* ctx.IPv6Address *)
                  c6_pd : option pfx;         (* ctx.IPv6Prefix *)
                  c6_napool : option key;     (* ctx.AllocatedIANAPool *)
                  c6_pdpool : option key }.   (* ctx.AllocatedPDPool *)
Definition resolve6_ctx (v : variant) (st : rstate) (s : sid) (cx : sctx6)
                        (obsna obspd : option (key * gobs)) (wna wpd : option key)
  : option (rstate * sctx6 * r6) :=
  match resolve6 v st (c6_pf cx) (c6_naov cx) (c6_pdov cx) (c6_vrf cx) s (c6_na cx) (c6_pd cx) obsna obspd wna wpd with
  | Some (st', r) =>
      Some (st',
            {| c6_pf := c6_pf cx; c6_naov := c6_naov cx; c6_pdov := c6_pdov cx; c6_vrf := c6_vrf cx;
               c6_na := r6_na r;
               c6_pd := match r6_pd r with
                        | Some (OP ip o b) => Some (Pfx (Some (V6, ip)) o b)
                        | _ => c6_pd cx end;
               c6_napool := match r6_napool r with Some k => Some k | None => c6_napool cx end;
               c6_pdpool := match r6_pdpool r with Some k => Some k | None => c6_pdpool cx end |},
            r)
  | None => None
  end.

(* ---------------------------------------------------------------- no registry *)
(* allocator.GetGlobalRegistry() is nil until InitGlobalRegistry ran (and after ResetGlobalRegistry), and
   every Registry method except SetAllocDirection starts with `if r == nil { return ... }`.  None below is
   "the answer the implementation gave cannot come from a nil registry" (or, for SetAllocDirection, a nil
   dereference: its only caller, pkg/ha, tests the registry first; not modelled). *)
Definition reg_step_nil (k : rcall) : option rout :=
  match k with
  | RAlloc _ _ _ _ _ None => Some ROExhausted
  | RRelease _ _ _ => Some ROOk
  | RReserveInPool _ _ _ _ None => Some ROOk
  | RReserve _ _ _ None => Some ROOk
  | RReleaseInPool _ _ _ None => Some ROOk
  | RReleaseByValue _ _ None => Some ROOk
  | RAvail _ _ => Some RONoPool
  | RPools _ _ => Some (ROList [])
  | _ => None
  end.
Definition reg_step_opt (v : variant) (r : option rstate) (k : rcall) : option (option rstate * rout) :=
  match r with
  | Some st => match reg_step v st k with Some (st', o) => Some (Some st', o) | None => None end
  | None => match reg_step_nil k with Some o => Some (None, o) | None => None end
  end.

(* ResolveV4 / ResolveV6 with whatever GetGlobalRegistry() returns.  Without a registry nothing is
   allocated and an address or prefix the context brings is accepted without any reservation. *)
Definition resolve4_ctx_opt (v : variant) (r : option rstate) (s : sid) (cx : sctx4)
                            (obs : option (key * gobs)) (wobs : option key)
  : option (option rstate * sctx4 * res4) :=
  match r with
  | Some st => match resolve4_ctx v st s cx obs wobs with
               | Some (st', cx', x) => Some (Some st', cx', x) | None => None end
  | None =>
      match c4_addr cx, obs with
      | Some a, _ => Some (None, cx, R4 a None)
      | None, None => Some (None, cx, R4Nil)
      | None, Some _ => None
      end
  end.
Definition resolve6_ctx_opt (v : variant) (r : option rstate) (s : sid) (cx : sctx6)
                            (obsna obspd : option (key * gobs)) (wna wpd : option key)
  : option (option rstate * sctx6 * r6) :=
  match r with
  | Some st => match resolve6_ctx v st s cx obsna obspd wna wpd with
               | Some (st', cx', x) => Some (Some st', cx', x) | None => None end
  | None =>
      match obsna, obspd with
      | None, None =>
          Some (None, cx,
                {| r6_nil := match c6_na cx, c6_pd cx with None, None => true | _, _ => false end;
                   r6_na := c6_na cx; r6_napool := None; r6_pd := None; r6_pdpool := None |})
      | _, _ => None
      end
  end.

(* ---------------------------------------------------------------- allocator.NewContext: AAA attributes -> context *)
(* aaaAttrs is a map[string]interface{}: an attribute is absent, present with a non-string value (ignored),
   or a string.  Address strings are given by the address they spell (None: not an address / not a CIDR). *)
Inductive aval (A : Type) := AvAbsent | AvNotString | AvStr (x : A).
Arguments AvAbsent {A}. Arguments AvNotString {A}. Arguments AvStr {A} x.
Definition av_str {A} (d : A) (v : aval A) : A := match v with AvStr x => x | _ => d end.

(* net.ParseIP returns the 16-byte form: an IPv4 literal becomes ::ffff:a.b.c.d *)
Definition go_parse_ip (a : addr) : addr :=
  match a with (V4, n) => (V6, 281470681743360 + n) | _ => a end.
(* net.ParseCIDR(s): the network (address masked to the prefix length) and net.CIDRMask(len, 32 | 128) *)
Definition go_parse_cidr (a : addr) (len : N) : option pfx :=
  let w := fam_width (fst a) in
  if N.ltb w len then None
  else let m := N.pow 2 (w - len) in Some (Pfx (Some (fst a, (snd a / m) * m)) len w).

Record aaa4 := { at_v4 : aval (option addr);          (* "ipv4_address" *)
                 at_pool : aval N }.                   (* "pool": override name, 0 = "" *)
Record aaa6 := { at_v6 : aval (option addr);          (* "ipv6_address" *)
                 at_pd : aval (option (addr * N));    (* "ipv6_prefix": address and length of the CIDR text *)
                 at_napool : aval N; at_pdpool : aval N }.   (* "iana_pool", "pd_pool" *)

(* the IPv4 attributes are read only when the session has an IPv4 profile (profileName != ""), the IPv6
   ones only with an IPv6 profile; an unparseable or non-string address attribute leaves the field nil,
   so the address is then drawn from the pools *)
Definition new_context4 (pf vrf : N) (at4 : aaa4) : sctx4 :=
  if N.eqb pf 0
  then {| c4_pf := pf; c4_ov := 0; c4_vrf := vrf; c4_addr := None; c4_pool := None |}
  else {| c4_pf := pf; c4_ov := av_str 0 (at_pool at4); c4_vrf := vrf;
          c4_addr := match av_str None (at_v4 at4) with Some a => Some (go_parse_ip a) | None => None end;
          c4_pool := None |}.
Definition new_context6 (pf vrf : N) (at6 : aaa6) : sctx6 :=
  if N.eqb pf 0
  then {| c6_pf := pf; c6_naov := 0; c6_pdov := 0; c6_vrf := vrf; c6_na := None; c6_pd := None;
          c6_napool := None; c6_pdpool := None |}
  else {| c6_pf := pf; c6_naov := av_str 0 (at_napool at6); c6_pdov := av_str 0 (at_pdpool at6); c6_vrf := vrf;
          c6_na := match av_str None (at_v6 at6) with Some a => Some (go_parse_ip a) | None => None end;
          c6_pd := match av_str None (at_pd at6) with Some (a, len) => go_parse_cidr a len | None => None end;
          c6_napool := None; c6_pdpool := None |}.
