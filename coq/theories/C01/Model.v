(* C01/Model.v — executable model of
     pkg/allocator/pool.go      PoolAllocator   (NewPoolAllocator, buildFreeList, SetDirection,
                                                 Allocate, Release, Reserve, Contains, Available)
     pkg/allocator/prefix.go    PrefixAllocator (same state machine on indices; indexToIPNet,
                                                 prefixToIndex on two 64-bit words)
     pkg/allocator/registry.go  Registry        (initV4Pools / initV6Pools, Allocate*FromProfile,
                                                 Release*, Reserve*InPool, ReserveIP, ReleaseIP,
                                                 SetAllocDirection)
   Definitions only; proofs are in Proofs.v / ProofsPD.v / ProofsReg.v.

   Addresses are (family, number) pairs: what netip.Addr is after AddrFromSlice.
   [variant] selects the behaviour of the two places where the code as found violates the
   property (Defective) and the repaired behaviour (Repaired) for which the theorems hold. *)
From OV Require Import Common.Base.
Local Open Scope N_scope.

Inductive variant := Repaired | Defective.
Definition is_defective (v : variant) : bool := match v with Defective => true | Repaired => false end.

Inductive family := V4 | V6.
Definition fam_eqb (a b : family) : bool :=
  match a, b with V4, V4 | V6, V6 => true | _, _ => false end.
Definition addr := (family * N)%type.
Definition addr_eqb (a b : addr) : bool := fam_eqb (fst a) (fst b) && N.eqb (snd a) (snd b).
Definition sid := N.

(* netip.Addr.Unmap: ::ffff:a.b.c.d  ->  a.b.c.d *)
Definition unmap (a : addr) : addr :=
  match a with
  | (V6, n) => if N.eqb (n / 4294967296) 65535 then (V4, n mod 4294967296) else a
  | _ => a
  end.
(* netip.AddrFromSlice + Unmap; None = nil slice or a slice that is not 4 or 16 bytes long *)
Definition norm (raw : option addr) : option addr :=
  match raw with Some a => Some (unmap a) | None => None end.

(* ---------------------------------------------------------------- lease map (Go map[Addr]string) *)
Definition lease_map := list (addr * sid).
Definition lm_remove (a : addr) (m : lease_map) : lease_map :=
  filter (fun p => negb (addr_eqb a (fst p))) m.
Definition lm_lookup (a : addr) (m : lease_map) : option sid :=
  match find (fun p => addr_eqb a (fst p)) m with Some p => Some (snd p) | None => None end.
Definition lm_insert (a : addr) (s : sid) (m : lease_map) : lease_map := (a, s) :: lm_remove a m.
Definition lm_mem (a : addr) (m : lease_map) : bool :=
  match lm_lookup a m with Some _ => true | None => false end.

(* ---------------------------------------------------------------- pool geometry *)
Record pcfg := { p_fam : family; p_lo : N; p_hi : N; p_excl : list addr (* as passed, before Unmap *) }.

Definition mem_addr (a : addr) (l : list addr) : bool := existsb (addr_eqb a) l.
Definition is_excluded (c : pcfg) (a : addr) : bool := mem_addr a (map unmap (p_excl c)).
(* PoolAllocator.Contains: Compare orders by family first, so a foreign family is never inside *)
Definition in_range (c : pcfg) (a : addr) : bool :=
  fam_eqb (fst a) (p_fam c) && N.leb (p_lo c) (snd a) && N.leb (snd a) (p_hi c).
Definition assignable (c : pcfg) (a : addr) : bool := in_range c a && negb (is_excluded c a).

(* for addr := rangeStart; addr <= rangeEnd; addr = addr.Next() *)
Definition range_addrs (c : pcfg) : list addr :=
  map (fun i => (p_fam c, p_lo c + N.of_nat i)%N) (seq 0%nat (N.to_nat (p_hi c + 1 - p_lo c))).

Record pstate := { free : list addr; leases : lease_map; asc : bool }.

(* buildFreeList: range minus excluded minus leased; ascending = lowest address at the END
   of the slice (Allocate pops the end) *)
Definition build_free (c : pcfg) (m : lease_map) (ascending : bool) : list addr :=
  let addrs := filter (fun a => negb (is_excluded c a) && negb (lm_mem a m)) (range_addrs c) in
  if ascending then rev addrs else addrs.

Definition pool_init (c : pcfg) : pstate :=
  {| free := build_free c [] true; leases := []; asc := true |}.

(* for i, f := range free { if f == addr { free = append(free[:i], free[i+1:]...); break } } *)
Fixpoint remove_first (a : addr) (l : list addr) : list addr :=
  match l with
  | [] => []
  | x :: r => if addr_eqb x a then r else x :: remove_first a r
  end.

Inductive call :=
| CAlloc (s : sid) (obs : option addr)    (* obs: the implementation's answer (None = exhausted) *)
| CReserve (a : option addr) (s : sid)    (* a: address after AddrFromSlice+Unmap, None = invalid slice *)
| CRelease (a : option addr)
| CSetDir (b : bool)
| CAvail.

Inductive out :=
| OAddr (a : addr) | OExhausted | OOk | OReserved | ONum (n : N).

(* Allocate exactly as written (LIFO: pop the end of the free slice) *)
Definition alloc_lifo (st : pstate) (s : sid) : pstate * out :=
  match rev (free st) with
  | [] => (st, OExhausted)
  | a :: r => ({| free := rev r; leases := lm_insert a s (leases st); asc := asc st |}, OAddr a)
  end.
Definition lifo_choice (st : pstate) : option addr :=
  match rev (free st) with [] => None | a :: _ => Some a end.

(* One call on normalised keys.  None = the implementation's Allocate answer is not admissible. *)
Definition pool_step (v : variant) (c : pcfg) (st : pstate) (k : call) : option (pstate * out) :=
  match k with
  | CAlloc s None =>
      match free st with [] => Some (st, OExhausted) | _ :: _ => None end
  | CAlloc s (Some a) =>
      if mem_addr a (free st)
      then Some ({| free := remove_first a (free st); leases := lm_insert a s (leases st); asc := asc st |},
                 OAddr a)
      else None
  | CReserve None _ => Some (st, OOk)
  | CReserve (Some a) s =>
      match lm_lookup a (leases st) with
      | Some s' =>
          if N.eqb s' s
          then Some ({| free := free st; leases := lm_insert a s (leases st); asc := asc st |}, OOk)
          else Some (st, OReserved)
      | None =>
          Some ({| free := remove_first a (free st); leases := lm_insert a s (leases st); asc := asc st |}, OOk)
      end
  | CRelease None => Some (st, OOk)
  | CRelease (Some a) =>
      match lm_lookup a (leases st) with
      | Some _ =>
          (* as found: the address goes back on the free list whatever it is.
             repaired: only an assignable address goes back *)
          let back := is_defective v || assignable c a in
          Some ({| free := if back then free st ++ [a] else free st;
                   leases := lm_remove a (leases st); asc := asc st |}, OOk)
      | None => Some (st, OOk)
      end
  | CSetDir b =>
      if Bool.eqb b (asc st) then Some (st, OOk)
      else Some ({| free := build_free c (leases st) b; leases := leases st; asc := b |}, OOk)
  | CAvail => Some (st, ONum (N.of_nat (length (free st))))
  end.

(* raw call (addresses as they come out of AddrFromSlice) -> normalised call *)
Definition norm_call (k : call) : call :=
  match k with
  | CReserve a s => CReserve (norm a) s
  | CRelease a => CRelease (norm a)
  | _ => k
  end.
Definition pool_call (v : variant) (c : pcfg) (st : pstate) (k : call) : option (pstate * out) :=
  pool_step v c st (norm_call k).

(* whole history; the event list pairs every (normalised) call with its result *)
Definition event := (call * out)%type.
Fixpoint pool_run_from (v : variant) (c : pcfg) (st : pstate) (ks : list call)
  : option (pstate * list event) :=
  match ks with
  | [] => Some (st, [])
  | k :: r =>
      match pool_call v c st k with
      | None => None
      | Some (st1, o) =>
          match pool_run_from v c st1 r with
          | None => None
          | Some (st2, evs) => Some (st2, (norm_call k, o) :: evs)
          end
      end
  end.
Definition pool_run v c ks := pool_run_from v c (pool_init c) ks.

(* Ownership ledger recomputed from what a caller can observe. *)
Definition ledger_step (m : lease_map) (e : event) : lease_map :=
  match e with
  | (CAlloc s _, OAddr a) => lm_insert a s m
  | (CReserve (Some a) s, OOk) => lm_insert a s m
  | (CRelease (Some a), _) => lm_remove a m
  | _ => m
  end.
Definition ledger (evs : list event) : lease_map := fold_left ledger_step evs [].

(* ================================================================ prefix delegation *)
Definition W64 : N := 18446744073709551616.                     (* 2^64 *)
Definition W128 : N := 340282366920938463463374607431768211456.  (* 2^128 *)

Record pdcfg := { pd_net : N;      (* network address as configured (128-bit number) *)
                  pd_nbits : N;    (* network.Bits() *)
                  pd_plen : N }.   (* delegated prefix length *)

(* network.Masked().Addr() *)
Definition pd_base (c : pdcfg) : N :=
  let m := N.pow 2 (128 - pd_nbits c) in (pd_net c / m) * m.
Definition pd_count (c : pdcfg) : N := N.pow 2 (pd_plen c - pd_nbits c).
(* NewPrefixAllocator returns nil unless 0 <= plen - nbits <= 63 *)
Definition pd_valid (c : pdcfg) : bool :=
  N.leb (pd_nbits c) (pd_plen c) && N.leb (pd_plen c - pd_nbits c) 63.
(* the domain the model (and the theorems) cover: additionally plen <= 128, network < 2^128 *)
Definition pd_wf (c : pdcfg) : bool :=
  pd_valid c && N.leb (pd_plen c) 128 && N.ltb (pd_net c) W128.

(* indexToIPNet: base + idx << (128 - plen) on two uint64 words *)
Definition index_to_prefix (c : pdcfg) (idx : N) : N :=
  let b := pd_base c in
  let hi := b / W64 in
  let lo := b mod W64 in
  let shift := 128 - pd_plen c in
  let '(addHi, addLo) :=
    if N.leb 64 shift then ((idx * N.pow 2 (shift - 64)) mod W64, 0)
    else if N.eqb shift 0 then (0, idx)
    else (idx / N.pow 2 (64 - shift), (idx * N.pow 2 shift) mod W64) in
  let newLo := (lo + addLo) mod W64 in
  let carry := if N.ltb newLo lo then 1 else 0 in
  ((hi + addHi + carry) mod W64) * W64 + newLo.

(* a *net.IPNet argument: nil, or IP (None = slice of bad length) and Mask.Size() = (ones, bits);
   Size() is (0,0) for a nil or non-canonical mask *)
Inductive pfx := PNil | Pfx (ip : option addr) (ones bits : N).

(* As16 of an unmapped address *)
Definition as16 (a : addr) : N :=
  match a with (V4, n) => 281470681743360 + n | (V6, n) => n end.   (* 0xffff00000000 + n *)

(* prefixToIndex *)
Definition prefix_to_index (v : variant) (c : pdcfg) (p : pfx) : option N :=
  match p with
  | PNil => None
  | Pfx ip ones bits =>
      if negb (N.eqb bits 128) || negb (N.eqb ones (pd_plen c)) then None else
      match norm ip with
      | None => None
      | Some a =>
          let A := as16 a in
          let B := pd_base c in
          let addrHi := A / W64 in let addrLo := A mod W64 in
          let baseHi := B / W64 in let baseLo := B mod W64 in
          let diffLo := (addrLo + W64 - baseLo) mod W64 in
          let borrow := if N.ltb addrLo baseLo then 1 else 0 in
          let diffHi := (addrHi + W64 + W64 - baseHi - borrow) mod W64 in
          let shift := 128 - pd_plen c in
          let idx :=
            if N.leb 64 shift then diffHi / N.pow 2 (shift - 64)
            else if N.eqb shift 0 then diffLo
            else N.lor ((diffHi * N.pow 2 (64 - shift)) mod W64) (diffLo / N.pow 2 shift) in
          (* repaired: the address must lie inside the configured network *)
          let inside := N.eqb (A / N.pow 2 (128 - pd_nbits c)) (B / N.pow 2 (128 - pd_nbits c)) in
          if negb (is_defective v) && negb inside then None
          else if N.leb (pd_count c) idx then None else Some idx
      end
  end.

(* The PrefixAllocator state machine is, line for line, the PoolAllocator one with indices as
   keys: range 0..count-1, nothing excluded. *)
Definition pd_pool_cfg (c : pdcfg) : pcfg :=
  {| p_fam := V6; p_lo := 0; p_hi := pd_count c - 1; p_excl := [] |}.
Definition key_of_idx (i : N) : addr := (V6, i).

Inductive pdcall :=
| PAlloc (s : sid) (obs : option (N * N * N))   (* obs: (16-byte IP as a number, ones, bits) *)
| PReserve (p : pfx) (s : sid)
| PRelease (p : pfx)
| PContains (p : pfx)
| PSetDir (b : bool)
| PAvail.
Inductive pdout :=
| QPfx (ip ones bits : N) | QExhausted | QOk | QReserved | QNum (n : N) | QBool (b : bool).

Definition pdout_of (o : out) : pdout :=
  match o with
  | OAddr a => QNum (snd a) | OExhausted => QExhausted | OOk => QOk | OReserved => QReserved
  | ONum n => QNum n
  end.

Definition pd_step (v : variant) (c : pdcfg) (st : pstate) (k : pdcall) : option (pstate * pdout) :=
  let pc := pd_pool_cfg c in
  match k with
  | PAlloc s None =>
      match pool_step v pc st (CAlloc s None) with Some (st', _) => Some (st', QExhausted) | None => None end
  | PAlloc s (Some (ip, ones, bits)) =>
      match prefix_to_index v c (Pfx (Some (V6, ip)) ones bits) with
      | Some i =>
          if N.eqb (index_to_prefix c i) ip
          then match pool_step v pc st (CAlloc s (Some (key_of_idx i))) with
               | Some (st', _) => Some (st', QPfx ip ones bits)
               | None => None
               end
          else None
      | None => None
      end
  | PReserve p s =>
      match prefix_to_index v c p with
      | None => Some (st, QOk)
      | Some i => match pool_step v pc st (CReserve (Some (key_of_idx i)) s) with
                  | Some (st', o) => Some (st', pdout_of o) | None => None end
      end
  | PRelease p =>
      match prefix_to_index v c p with
      | None => Some (st, QOk)
      | Some i => match pool_step v pc st (CRelease (Some (key_of_idx i))) with
                  | Some (st', o) => Some (st', pdout_of o) | None => None end
      end
  | PContains p =>
      Some (st, QBool (match prefix_to_index v c p with Some _ => true | None => false end))
  | PSetDir b =>
      match pool_step v pc st (CSetDir b) with Some (st', _) => Some (st', QOk) | None => None end
  | PAvail => Some (st, QNum (N.of_nat (length (free st))))
  end.

Definition pd_init (c : pdcfg) : pstate := pool_init (pd_pool_cfg c).

(* whole PD history, and the ownership ledger (keyed by index) recomputed from what a caller observes *)
Fixpoint pd_run_from (v : variant) (c : pdcfg) (st : pstate) (ks : list pdcall)
  : option (pstate * list (pdcall * pdout)) :=
  match ks with
  | [] => Some (st, [])
  | k :: r =>
      match pd_step v c st k with
      | None => None
      | Some (st1, o) =>
          match pd_run_from v c st1 r with
          | None => None
          | Some (st2, evs) => Some (st2, (k, o) :: evs)
          end
      end
  end.
Definition pd_run v c ks := pd_run_from v c (pd_init c) ks.

Definition pd_ledger_step (v : variant) (c : pdcfg) (m : lease_map) (e : pdcall * pdout) : lease_map :=
  match e with
  | (PAlloc s _, QPfx ip ones bits) =>
      match prefix_to_index v c (Pfx (Some (V6, ip)) ones bits) with
      | Some i => lm_insert (key_of_idx i) s m | None => m end
  | (PReserve p s, QOk) =>
      match prefix_to_index v c p with Some i => lm_insert (key_of_idx i) s m | None => m end
  | (PRelease p, _) =>
      match prefix_to_index v c p with Some i => lm_remove (key_of_idx i) m | None => m end
  | _ => m
  end.
Definition pd_ledger v c (evs : list (pdcall * pdout)) : lease_map := fold_left (pd_ledger_step v c) evs [].

(* ================================================================ registry *)
(* Names (profiles, pools, VRFs) are numbers; VRF 0 is the empty string (no VRF). *)
Definition key := (N * N)%type.     (* profileName + "/" + pool.Name *)
Definition key_eqb (a b : key) : bool := N.eqb (fst a) (fst b) && N.eqb (snd a) (snd b).

Record rpool := {
  rp_name : N;
  rp_prio : Z;          (* only used for v4 pools *)
  rp_vrf : N;
  rp_cfg : option pcfg  (* None: Network / range strings do not parse, no allocator is created *)
}.
Record rprofile := { rf_name : N; rf_sorted : bool (* v4: sort by priority; v6: configuration order *);
                     rf_pools : list rpool }.

Record rstate := {
  r_allocs : list (key * (pcfg * pstate));     (* r.allocators *)
  r_profile_pools : list (N * list key);       (* r.profilePools *)
  r_vrfs : list (key * N)                      (* r.poolVRFs *)
}.

Fixpoint assoc_find {A B} (eqb : A -> A -> bool) (k : A) (l : list (A * B)) : option B :=
  match l with
  | [] => None
  | (k', x) :: r => if eqb k k' then Some x else assoc_find eqb k r
  end.
Fixpoint assoc_set {A B} (eqb : A -> A -> bool) (k : A) (x : B) (l : list (A * B)) : list (A * B) :=
  match l with
  | [] => [(k, x)]
  | (k', y) :: r => if eqb k k' then (k, x) :: r else (k', y) :: assoc_set eqb k x r
  end.

(* sort.Slice by priority: for fewer than 12 elements Go's pdqsort is an insertion sort, which is
   stable; transcribed as such *)
Fixpoint insert_by_prio (p : rpool) (l : list rpool) : list rpool :=
  match l with
  | [] => [p]
  | q :: r => if Z.ltb (rp_prio p) (rp_prio q) then p :: l else q :: insert_by_prio p r
  end.
Definition sort_by_prio (l : list rpool) : list rpool :=
  fold_left (fun acc p => insert_by_prio p acc) l [].

Definition mk_rstate a p v := {| r_allocs := a; r_profile_pools := p; r_vrfs := v |}.

(* one iteration of the outer loop of initV4Pools (rf_sorted) / the IANA half of initV6Pools *)
Definition init_pool (pfname : N) (s : rstate) (p : rpool) : rstate :=
  let k := (pfname, rp_name p) in
  let vr := if N.eqb (rp_vrf p) 0 then r_vrfs s else assoc_set key_eqb k (rp_vrf p) (r_vrfs s) in
  let al := match assoc_find key_eqb k (r_allocs s) with
            | Some _ => r_allocs s                               (* if exists { continue } *)
            | None => match rp_cfg p with
                      | Some c => r_allocs s ++ [(k, (c, pool_init c))]
                      | None => r_allocs s
                      end
            end in
  mk_rstate al (r_profile_pools s) vr.
Definition init_profile (st : rstate) (pf : rprofile) : rstate :=
  let ordered := if rf_sorted pf then sort_by_prio (rf_pools pf) else rf_pools pf in
  let names := map (fun p => (rf_name pf, rp_name p)) ordered in
  let st1 := mk_rstate (r_allocs st) (assoc_set N.eqb (rf_name pf) names (r_profile_pools st)) (r_vrfs st) in
  fold_left (init_pool (rf_name pf)) (rf_pools pf) st1.
Definition reg_init (pfs : list rprofile) : rstate := fold_left init_profile pfs (mk_rstate [] [] []).

Definition vrf_of (st : rstate) (k : key) : N :=
  match assoc_find key_eqb k (r_vrfs st) with Some v => v | None => 0 end.
Definition pools_of (st : rstate) (profile : N) : list key :=
  match assoc_find N.eqb profile (r_profile_pools st) with Some l => l | None => [] end.
Definition has_free (st : rstate) (k : key) : bool :=
  match assoc_find key_eqb k (r_allocs st) with
  | Some (_, ps) => match free ps with [] => false | _ => true end
  | None => false
  end.

(* the pool AllocateFromProfile answers from: override first (if it names a pool of the profile that
   still has a free address), then the profile's list in order, same VRF only *)
Definition walk_target (st : rstate) (vrf : N) (l : list key) : option key :=
  find (fun k => N.eqb (vrf_of st k) vrf && has_free st k) l.
Definition alloc_target (st : rstate) (profile override vrf : N) : option key :=
  if negb (N.eqb override 0) && has_free st (profile, override) then Some (profile, override)
  else walk_target st vrf (pools_of st profile).

Definition contains (c : pcfg) (raw : option addr) : bool :=
  match norm raw with Some a => in_range c a | None => false end.

Inductive rcall :=
| RAlloc (profile override vrf : N) (s : sid) (obs : option (key * addr))
| RRelease (k : key) (a : option addr)                           (* Registry.Release(poolName, ip) *)
| RReserveInPool (k : key) (a : option addr) (s : sid) (obs : option key)
| RReserveIP (a : option addr) (s : sid) (obs : option key)      (* obs: pool the walk over the Go map stopped at *)
| RReleaseIP (a : option addr)                                   (* every pool *)
| RSetDir (b : bool)
| RAvail (k : key).
Inductive rout :=
| ROAddr (k : key) (a : addr) | ROExhausted | ROOk | ROReserved | RONum (n : N) | RONoPool.

Definition rout_of (o : out) : rout :=
  match o with
  | OAddr a => RONum (snd a) | OExhausted => ROExhausted | OOk => ROOk | OReserved => ROReserved
  | ONum n => RONum n
  end.

Definition set_alloc (st : rstate) (k : key) (c : pcfg) (ps : pstate) : rstate :=
  mk_rstate (assoc_set key_eqb k (c, ps) (r_allocs st)) (r_profile_pools st) (r_vrfs st).

(* a pool call on the allocator stored under k *)
Definition on_pool (v : variant) (st : rstate) (k : key) (pc : call) : option (rstate * out) :=
  match assoc_find key_eqb k (r_allocs st) with
  | None => None
  | Some (c, ps) =>
      match pool_call v c ps pc with
      | Some (ps', o) => Some (set_alloc st k c ps', o)
      | None => None
      end
  end.

(* the containment walk `for _, alloc := range r.allocators { if alloc.Contains(ip) {...} }`:
   Go map order, so the pool is the implementation's choice; admissible iff it contains ip *)
Definition reserve_walk (v : variant) (st : rstate) (a : option addr) (s : sid) (obs : option key)
  : option (rstate * rout) :=
  match obs with
  | None =>
      if existsb (fun e => contains (fst (snd e)) a) (r_allocs st) then None else Some (st, ROOk)
  | Some k =>
      match assoc_find key_eqb k (r_allocs st) with
      | Some (c, _) =>
          if contains c a
          then match on_pool v st k (CReserve a s) with
               | Some (st', o) => Some (st', rout_of o) | None => None end
          else None
      | None => None
      end
  end.

Definition reg_step (v : variant) (st : rstate) (k : rcall) : option (rstate * rout) :=
  match k with
  | RAlloc profile override vrf s obs =>
      match alloc_target st profile override vrf, obs with
      | None, None => Some (st, ROExhausted)
      | Some t, Some (k', a) =>
          if key_eqb t k'
          then match on_pool v st t (CAlloc s (Some a)) with
               | Some (st', _) => Some (st', ROAddr t a) | None => None end
          else None
      | _, _ => None
      end
  | RRelease k' a =>
      match on_pool v st k' (CRelease a) with
      | Some (st', _) => Some (st', ROOk)
      | None => Some (st, ROOk)
      end
  | RReserveInPool k' a s obs =>
      match assoc_find key_eqb k' (r_allocs st) with
      | Some _ => match on_pool v st k' (CReserve a s) with
                  | Some (st', o) => Some (st', rout_of o) | None => None end
      | None => reserve_walk v st a s obs
      end
  | RReserveIP a s obs => reserve_walk v st a s obs
  | RReleaseIP a =>
      Some (mk_rstate (map (fun e => match pool_call v (fst (snd e)) (snd (snd e)) (CRelease a) with
                                     | Some (ps', _) => (fst e, (fst (snd e), ps'))
                                     | None => e end) (r_allocs st))
                      (r_profile_pools st) (r_vrfs st), ROOk)
  | RSetDir b =>
      Some (mk_rstate (map (fun e => match pool_call v (fst (snd e)) (snd (snd e)) (CSetDir b) with
                                     | Some (ps', _) => (fst e, (fst (snd e), ps'))
                                     | None => e end) (r_allocs st))
                      (r_profile_pools st) (r_vrfs st), ROOk)
  | RAvail k' =>
      match assoc_find key_eqb k' (r_allocs st) with
      | Some (_, ps) => Some (st, RONum (N.of_nat (length (free ps))))
      | None => Some (st, RONoPool)
      end
  end.

Fixpoint reg_run_from (v : variant) (st : rstate) (ks : list rcall) : option (rstate * list (rcall * rout)) :=
  match ks with
  | [] => Some (st, [])
  | k :: r =>
      match reg_step v st k with
      | None => None
      | Some (st1, o) =>
          match reg_run_from v st1 r with
          | None => None
          | Some (st2, evs) => Some (st2, (k, o) :: evs)
          end
      end
  end.
